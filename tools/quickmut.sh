#!/bin/bash
# quickmut.sh <file-relative-to-repo> <sed-expression> <pkgs> <prop> [func]   -- development helper
T=$(mktemp -d /tmp/qm-XXXXXX); rsync -a --exclude .git /repo/ $T/repo/
sed -i "$2" $T/repo/$1
diff <(cat /repo/$1) $T/repo/$1 | head -6
/verif/bin/govc verify --repo $T/repo --pkgs "$3" --prop "$4" ${5:+--func $5} --timeout 30 2>&1 | grep -v "    note" | grep -v " ok$" | cut -c1-220 | grep -v "^      " | head -12
rm -rf $T
