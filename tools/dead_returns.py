#!/usr/bin/env python3
"""Development-time vacuity guard: lists the return points of functions under contract that the reachability probes
prove UNREACHABLE under the contract's assumptions, and compares them with the committed baseline
/verif/dead_returns.json (returns that are legitimately dead: failure branches of lemmas, impossible tags, ...).
A return that is newly dead after an engine or contract change means contradictory assumptions (everything after them
is proved vacuously) until shown otherwise. Usage: dead_returns.py [--update]"""
import json, subprocess, re, sys, os
V = os.path.dirname(os.path.dirname(os.path.abspath(__file__)))
props = json.load(open(os.path.join(V, 'props.json')))
claimed = [c['property_id'] for c in json.load(open(os.path.join(V, 'MANIFEST.json')))['checks']]
dead, seen = {}, set()
for p in claimed:
    pk = ','.join(props[p]['pkgs'])
    r = subprocess.run([os.path.join(V, 'bin/govc'), 'verify', '--repo', '/repo', '--pkgs', pk, '--prop', p, '--timeout', '60', '-v'], capture_output=True, text=True)
    for l in r.stdout.splitlines():
        m = re.match(r'\s+(\w+)\s+VAC\s+([0-9.]+)s\s+(\S+)\s+(\S+/VAC/return\d+)', l)
        if m and m.group(4) not in seen:
            seen.add(m.group(4))
            if m.group(1) == 'unsat' and '.lemma_' not in m.group(4) and '.Lemma' not in m.group(4):  # failure branches of lemmas are meant to be dead
                dead[m.group(4)] = p
path = os.path.join(V, 'dead_returns.json')
if '--update' in sys.argv:
    json.dump(sorted(dead), open(path, 'w'), indent=1)
    print('baseline written:', len(dead), 'dead returns of', len(seen))
    sys.exit(0)
base = set(json.load(open(path)))
new = sorted(set(dead) - base)
gone = sorted(base - set(dead))
print(f'{len(seen)} return points, {len(dead)} dead, {len(new)} newly dead, {len(gone)} no longer dead')
for n in new:
    print('  NEWLY DEAD (possible vacuity):', n)
sys.exit(1 if new else 0)
