#!/usr/bin/env python3
"""Runs the repository test suite (guard off) and checks that every test in BASELINE.json's stable_pass passes."""
import json, subprocess, sys, os
base = json.load(open('/root/.vp/BASELINE.json'))
want = set(base['stable_pass'])
env = dict(os.environ, GOFLAGS='-mod=mod', GOPROXY='off', GOSUMDB='off', GOTOOLCHAIN='local')
repo = sys.argv[1] if len(sys.argv) > 1 else '/repo'
p = subprocess.run(['go', 'test', '-json', '-vet=off', '-count=1', '-timeout', '25m', './...'], cwd=repo, env=env, capture_output=True, text=True)
passed = set()
failed = set()
for line in p.stdout.splitlines():
    try:
        ev = json.loads(line)
    except Exception:
        continue
    if 'Test' in ev and ev.get('Action') in ('pass', 'fail'):
        key = ev['Package'] + '::' + ev['Test']
        (passed if ev['Action'] == 'pass' else failed).add(key)
missing = sorted(want - passed)
print(f"stable_pass {len(want)}; passed now {len(want & passed)}; missing/failed {len(missing)}")
for m in missing[:40]:
    print("  NOT PASSING:", m, "(failed)" if m in failed else "(not run)")
sys.exit(1 if missing else 0)
