#!/usr/bin/env python3
"""Rewrites the table between the SEEDED-TABLE markers of DESIGN.md from the last full run of tools/selftest.py
(/verif/selftest_last.txt) and the meta.json of every seeded change."""
import re, ast, json, os, glob
V = os.path.dirname(os.path.dirname(os.path.abspath(__file__)))
res = {}
for l in open(os.path.join(V, 'selftest_last.txt')):
    m = re.match(r'(CAUGHT|MISSED|PATCH-FAILED)\s+(\S+)\s*(.*)', l)
    if not m:
        continue
    st, name, info = m.groups()
    by = []
    if st == 'CAUGHT':
        for pr, files, secs in ast.literal_eval(info.strip()):
            for f in files:
                nf = ' no-failing-input-found' in f
                f = f.replace(' no-failing-input-found', '').replace('.json', '')
                kind = 'B' if f.startswith('standin_') else 'P'
                f = re.sub(r'^standin_(\w+?_test)\.go_TestVerifStandin_', r'\1:', f)
                by.append((kind, f))
    res[name] = (st, by)
rows = ['| change | what it breaks | caught by (P = proof obligation, B = bounded stand-in) |', '|---|---|---|']
np = nb = nm = 0
for d in sorted(glob.glob(os.path.join(V, 'seeded', '*'))):
    n = os.path.basename(d)
    meta = json.load(open(os.path.join(d, 'meta.json')))
    st, by = res.get('seeded_' + n, ('NOT-RUN', []))
    if st == 'CAUGHT':
        ps = [f for k, f in by if k == 'P'][:2]
        bs = [f for k, f in by if k == 'B'][:2 if not ps else 1]
        cell = '; '.join(['P `%s`' % f for f in ps] + ['B `%s`' % f for f in bs])
        if ps: np += 1
        else: nb += 1
    else:
        cell = '**not caught** (%s)' % meta.get('why_not_caught', st)
        nm += 1
    rows.append('| %s | %s | %s |' % (n, meta['title'].replace('|', '/'), cell))
canaries = sorted(k for k in res if k.startswith('canary_'))
cc = sum(1 for k in canaries if res[k][0] == 'CAUGHT')
rows.append('')
rows.append('Seeded: %d caught by a proof obligation, %d only by a bounded stand-in, %d not caught. Canaries (reverse of every `fix:` commit): %d of %d reported by the owning check.' % (np, nb, nm, cc, len(canaries)))
p = os.path.join(V, 'DESIGN.md')
s = open(p).read()
a = s.index('<!-- SEEDED-TABLE-BEGIN -->') + len('<!-- SEEDED-TABLE-BEGIN -->')
b = s.index('<!-- SEEDED-TABLE-END -->')
open(p, 'w').write(s[:a] + '\n' + '\n'.join(rows) + '\n' + s[b:])
print('\n'.join(rows[-1:]))
