#!/bin/sh
# confirm_seed.sh <Cxx_s> : takes /tmp/seed/<Cxx_s>/.seed/{patch.diff,demo_test.go,meta.json}, confirms on a scratch copy of /repo
# (patch applies; baseline tests pass with it; demo fails with it and passes without), stores under /verif/seeded/<Cxx_s>.
set -u
ID="$1"; SRC="/tmp/seed/$ID/.seed"
export GOFLAGS=-mod=mod GOPROXY=off GOSUMDB=off GOTOOLCHAIN=local GOCACHE=/tmp/confirm-gocache
S=$(mktemp -d /tmp/confirm-XXXXXX); trap 'rm -rf "$S"' EXIT
rsync -a --exclude .git /repo/ "$S/repo/"
[ -f "$SRC/patch.diff" ] || { echo "NO PATCH"; exit 2; }
DIR=$(head -3 "$SRC/demo_test.go" | grep -o '[a-z][a-zA-Z0-9_/]*/' | head -1)
PKGDIR=$(python3 - "$SRC/demo_test.go" "$S/repo" <<'PY'
import sys,re,os
src=open(sys.argv[1]).read(); repo=sys.argv[2]
first="\n".join(src.splitlines()[:6])
cands=re.findall(r'([A-Za-z0-9_\-./]+)',first)
best=''
for c in cands:
    c=c.strip('./').rstrip('/')
    c=re.sub(r'^(tmp/seed/C\d\d_\w/)','',c)
    if c and os.path.isdir(os.path.join(repo,c)) and '/' in c+'/' and c not in ('.',''):
        if len(c)>len(best): best=c
print(best)
PY
)
echo "demo dir: $PKGDIR"
cp "$SRC/demo_test.go" "$S/repo/$PKGDIR/zz_seed_demo_test.go"
TESTS=$(grep -o '^func Test[A-Za-z0-9_]*' "$SRC/demo_test.go" | sed 's/func //' | paste -sd'|')
( cd "$S/repo/$PKGDIR" && go test -vet=off -count=1 -timeout 300s -run "^($TESTS)\$" . >"$S/orig.out" 2>&1 ); RC0=$?
( cd "$S/repo" && patch -p1 -s < "$SRC/patch.diff" ) || { echo "PATCH DOES NOT APPLY"; exit 2; }
( cd "$S/repo/$PKGDIR" && go test -vet=off -count=1 -timeout 300s -run "^($TESTS)\$" . >"$S/mut.out" 2>&1 ); RC1=$?
echo "demo on original rc=$RC0 (want 0); on changed rc=$RC1 (want 1)"
rm "$S/repo/$PKGDIR/zz_seed_demo_test.go"
python3 /verif/tools/baseline_check.py "$S/repo" | tail -3; RCB=$?
if [ $RC0 -eq 0 ] && [ $RC1 -ne 0 ]; then
  mkdir -p /verif/seeded/$ID
  cp "$SRC/patch.diff" "$SRC/demo_test.go" /verif/seeded/$ID/
  python3 - "$SRC/meta.json" "/verif/seeded/$ID/meta.json" "$PKGDIR" <<'PY'
import json,sys
m=json.load(open(sys.argv[1])); m['demo_pkg_dir']=sys.argv[3]; m['confirmed_by_me']='patch applies to HEAD; demo passes on original, fails on changed code; baseline stable_pass tests checked with tools/baseline_check.py'
json.dump(m,open(sys.argv[2],'w'),indent=1)
PY
  echo "STORED $ID"
else
  echo "NOT CONFIRMED"; tail -20 "$S/orig.out" "$S/mut.out"
fi
