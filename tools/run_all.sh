#!/bin/sh
# runs every claimed check (quick by default) and prints a one-line summary each
TIER="${1:-quick}"
cd /verif
for id in $(python3 -c "import json;print(' '.join(c['property_id'] for c in json.load(open('MANIFEST.json'))['checks']))"); do
  s=$(date +%s)
  out=$(./check $id --tier $TIER 2>&1); rc=$?
  e=$(date +%s)
  echo "$id rc=$rc $((e-s))s $(echo "$out" | grep -c '^VIOLATION') violations $(echo "$out" | grep -c '^KNOWN-FINDING') known | $(echo "$out" | tail -1 | cut -c1-150)"
done
