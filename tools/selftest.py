#!/usr/bin/env python3
"""Must-fail corpus: applies each /verif/mutants/*.patch (and /verif/seeded/*/patch.diff) to a scratch copy of
/repo's working tree, runs the owning property's check against it, and requires exit 1 with a VIOLATION line.
Usage: selftest.py [--only substr] [--tier quick] [--jobs N]"""
import json, os, subprocess, sys, tempfile, shutil, glob, concurrent.futures, argparse, time
ap = argparse.ArgumentParser()
ap.add_argument('--only', default='')
ap.add_argument('--tier', default='quick')
ap.add_argument('--jobs', type=int, default=3)
ap.add_argument('--props', default='')
args = ap.parse_args()
V = os.path.dirname(os.path.dirname(os.path.abspath(__file__)))
items = []
for p in sorted(glob.glob(os.path.join(V, 'mutants', '*.patch'))):
    meta = json.load(open(p[:-6] + '.json'))
    items.append((os.path.basename(p)[:-6], p, meta))
for d in sorted(glob.glob(os.path.join(V, 'seeded', '*'))):
    p = os.path.join(d, 'patch.diff')
    if os.path.exists(p) and os.path.exists(os.path.join(d, 'meta.json')):
        meta = json.load(open(os.path.join(d, 'meta.json')))
        items.append(('seeded_' + os.path.basename(d), p, meta))
items = [it for it in items if args.only in it[0]]
if args.props:
    want = set(args.props.split(','))
    items = [it for it in items if it[2].get('property') in want]
claimed = {c['property_id'] for c in json.load(open(os.path.join(V, 'MANIFEST.json')))['checks']}
# scratch copies live at ever new paths: give the whole run its own Go build cache and drop it at the end,
# otherwise the shared cache grows by gigabytes per run
GOCACHE = tempfile.mkdtemp(prefix='govc-selftest-gocache-')
ENV = dict(os.environ, GOCACHE=GOCACHE)
def run(it):
    name, patch, meta = it
    prop = meta['property']
    props = meta.get('check_properties', [prop])
    tmp = tempfile.mkdtemp(prefix='govc-selftest-')
    try:
        repo = os.path.join(tmp, 'repo')
        subprocess.run(['rsync', '-a', '--exclude', '.git', '/repo/', repo + '/'], check=True)
        r = subprocess.run(['patch', '-p1', '-s', '-d', repo, '-i', patch], capture_output=True, text=True)
        if r.returncode != 0:
            return name, 'PATCH-FAILED', r.stdout + r.stderr
        caught_by = []
        out_all = ''
        for pr in props:
            if pr not in claimed:
                continue
            t0 = time.time()
            r = subprocess.run([os.path.join(V, 'check'), pr, '--tier', args.tier, '--repo', repo, '--evidence', os.path.join(tmp, 'ev'), '--replays', os.path.join(tmp, 'replays')], capture_output=True, text=True, cwd=V, env=ENV)
            out_all += r.stdout[-3000:] + r.stderr[-2000:]
            viol = [l for l in r.stdout.splitlines() if l.startswith('VIOLATION')]
            if r.returncode == 1 and viol:
                caught_by.append((pr, [v.split('replay=')[1].split('/')[-1] for v in viol][:4], round(time.time() - t0, 1)))
        if caught_by:
            return name, 'CAUGHT', caught_by
        return name, 'MISSED', out_all[-1500:]
    finally:
        shutil.rmtree(tmp, ignore_errors=True)
bad = 0
with concurrent.futures.ThreadPoolExecutor(max_workers=args.jobs) as ex:
    for name, status, info in ex.map(run, items):
        print(f'{status:12s} {name}  {info if status == "CAUGHT" else ""}')
        if status != 'CAUGHT':
            bad += 1
            print('    ', str(info).replace('\n', '\n     ')[:1500])
print(f'{len(items)} mutants, {bad} not caught')
shutil.rmtree(GOCACHE, ignore_errors=True)
sys.exit(1 if bad else 0)
