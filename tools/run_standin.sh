#!/bin/sh
# run_standin.sh <pkgdir> <file> <run-regexp> [repo]
PKG="$1"; FILE="$2"; RUN="$3"; REPO="${4:-/repo}"
OV=$(mktemp /tmp/ov-XXXXXX.json)
python3 - "$PKG" "$FILE" "$REPO" > "$OV" <<'PY'
import sys, json, glob, os
pkg, f, repo = sys.argv[1:4]
rep = {f"{repo}/{pkg}/zz_standin_verif_{f}": f"/verif/standins/{pkg}/{f}"}
for h in glob.glob(f"/verif/standins/{pkg}/*_helper_test.go"):
    if os.path.basename(h) != f:
        rep[f"{repo}/{pkg}/zz_standin_verif_{os.path.basename(h)}"] = h
print(json.dumps({"Replace": rep}))
PY
cd "$REPO/$PKG" && GOFLAGS=-mod=mod GOPROXY=off GOSUMDB=off GOTOOLCHAIN=local go test -tags verif -overlay "$OV" -vet=off -count=1 -v -run "$RUN" . 2>&1 | tail -40
rm -f "$OV"
