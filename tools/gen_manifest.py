#!/usr/bin/env python3
"""Regenerates /verif/MANIFEST.json from tools/manifest_src.json (claims) — keeps it valid at all times."""
import json, os, sys
here = os.path.dirname(os.path.abspath(__file__))
root = os.path.dirname(here)
src = json.load(open(os.path.join(here, "manifest_src.json")))
props = [json.loads(l) for l in open(os.path.join(root, "properties.jsonl"))]
ids = [p["id"] for p in props]
checks = []
claimed = set()
for c in src["checks"]:
    pid = c["property_id"]
    claimed.add(pid)
    checks.append({
        "property_id": pid,
        "quick_cmd": f"./check {pid} --tier quick",
        "thorough_cmd": f"./check {pid} --tier thorough",
        "evidence_file": f"/verif/evidence/{pid}.json",
        "replay_cmd_template": "./bin/govc replay {path}",
        "engine": "govc",
        "level_claimed": {"category": "proof", "text": c["text"], "design_ref": c.get("design_ref", "DESIGN.md §3 " + pid)},
        "level_note": c["note"],
        "technique": c.get("technique", "contract-based deductive verification: WP-style VCs generated from go/ssa of the real functions, discharged by z3/cvc5"),
    })
na = []
for pid in ids:
    if pid in claimed:
        continue
    reason = src["not_applicable"].get(pid, "not yet brought under contract in this build; see DESIGN.md")
    na.append({"property_id": pid, "reason": reason})
import subprocess
hooks = dict(src["hooks"])
try:
    log = subprocess.run(["git", "-C", "/repo", "log", "--format=%H %s"], capture_output=True, text=True).stdout.splitlines()
    hooks["source_commits"] = [l.split()[0] for l in reversed(log) if l.split(" ", 1)[1].startswith("verif")]
except Exception:
    pass
m = {
    "version": 1,
    "setup_cmd": "cd /verif/vc && GOFLAGS=-mod=vendor GOPROXY=off GOSUMDB=off GOTOOLCHAIN=local go build -o /verif/bin/govc .",
    "hooks": hooks,
    "engines": [{"name": "govc", "path": "/verif/vc", "serves_properties": sorted(claimed),
                 "kind_free_text": "self-written verification-condition generator for Go (go/packages + go/ssa), contracts as //@ comments in build-tagged files, obligations discharged by z3 4.8.12 / z3 5.1.0 / cvc5 1.0; bounded stand-ins via go test -overlay"}],
    "checks": checks,
    "not_applicable": na,
    "notes": src.get("notes", ""),
}
json.dump(m, open(os.path.join(root, "MANIFEST.json"), "w"), indent=1)
print("MANIFEST.json written:", len(checks), "checks,", len(na), "not applicable")
