//go:build verif

package wallet

// Bounded stand-in for C15 (labelled bounded, never counted as proved).
// Stands in for: "address = hash of the initial state (published code + data with zero seqno, key, ids) in the requested
// workchain, the same through every API; the send pipeline picks seqno / state-init from the account state, addresses
// the message to the wallet itself and the confirmation wait succeeds iff the seqno advances before the deadline".
//
// Bound (quick tier):
//   Addresses: 3 key pairs (thorough 8) x the 12 versions wallet.New supports (V1R1..V2R2, V3R1, V3R2, V4R1, V4R2,
//     V5Beta, V5R1, HighLoadV2R2) x workchain {0,-1} x sub-wallet id {default, 0, 1, 0xffffffff} x network id
//     {default, -239, -3}; every combination through New().GetAddress, New().StateInit, GenerateWalletAddress and
//     GenerateStateInit (+ hash of the marshalled cell); all pairs of combinations are compared for equality /
//     difference of the address (sub-wallet id: not for V1/V2, which have none, nor for V5R1, see below). The 5 enum members New does not support must be refused by all three entry points.
//   SendPipeline: 7 sending versions x account state {none, uninit, active seqno 0 / 1 / 2^32-2 (thorough: + 2^31,
//     2^32-1), frozen} x entry point {Send, SendV2, NextMessageParams+RawSendV2, NextMessageParams+RawSend};
//     confirmation histories {seqno advances at poll 0,1,2,5, by more than one, after two failed polls; never advances;
//     every poll fails; two failed polls then unchanged; advances only after the deadline; SendMessage fails} for
//     V3R2, V4R2, V5R1 (thorough: all six seqno wallets) x start seqno {0, 7, 2^32-2}.
//   Mnemonic: 3 deterministic + 2 RandomSeed() mnemonics (thorough 8 + 4), every single-word substitution of them.
// Oracle: contract data layouts and the StateInit layout written by hand (c14_helper_test.go), an independent
// representation hash, hand parsers for the external message and the signed bodies, crypto/ed25519; for mnemonics the
// TON mnemonic scheme (HMAC-SHA512 entropy, PBKDF2 "TON seed version" / "TON default seed") re-implemented here.
//
// Informational only ("INFO c15 <name>: N cases, first: ..."), never failing: v5r1 wallets have a network id, not a
// sub-wallet id, so the sub-wallet option is outside the address requirements for V5R1 (the library ignores it);
// highload wallets do not support waiting for confirmation. V1 / V2 wallets are not in the property's list of sending
// versions: only their addresses are checked, Send is never exercised for them.

import (
	"context"
	"crypto/ed25519"
	"crypto/hmac"
	"crypto/sha512"
	"encoding/hex"
	"errors"
	"fmt"
	"strings"
	"sync"
	"testing"
	"time"

	"golang.org/x/crypto/pbkdf2"

	"github.com/tonkeeper/tongo/boc"
	"github.com/tonkeeper/tongo/tlb"
	"github.com/tonkeeper/tongo/ton"
)

var c15Supported = []Version{V1R1, V1R2, V1R3, V2R1, V2R2, V3R1, V3R2, V4R1, V4R2, V5Beta, V5R1, HighLoadV2R2}
var c15Unsupported = []Version{V3R2Lockup, HighLoadV1R1, HighLoadV1R2, HighLoadV2, HighLoadV2R1}
var c15Sending = []Version{V3R1, V3R2, V4R1, V4R2, V5Beta, V5R1, HighLoadV2R2}

// Code hashes of the published wallet contracts as listed by the ecosystem's wallet tables (toncenter WalletSources /
// tonweb / ton-community wallets); for v5 beta the published code is a library cell that refers to the hash below.
var c15KnownCodeHashes = map[Version]string{
	V1R1: "a0cfc2c48aee16a271f2cfc0b7382d81756cecb1017d077faaab3bb602f6868c",
	V1R2: "d4902fcc9fad74698fa8e353220a68da0dcf72e32bcb2eb9ee04217c17d3062c",
	V1R3: "587cc789eff1c84f46ec3797e45fc809a14ff5ae24f1e0c7a6a99cc9dc9061ff",
	V2R1: "5c9a5e68c108e18721a07c42f9956bfb39ad77ec6d624b60c576ec88eee65329",
	V2R2: "fe9530d3243853083ef2ef0b4c2908c0abf6fa1c31ea243aacaa5bf8c7d753f1",
	V3R1: "b61041a58a7980b946e8fb9e198e3c904d24799ffa36574ea4251c41a566f581",
	V3R2: "84dafa449f98a6987789ba232358072bc0f76dc4524002a5d0918b9a75d2d599",
	V4R1: "64dd54805522c5be8a9db59cea0105ccf0d08786ca79beb8cb79e880a8d7322d",
	V4R2: "feb5ff6820e2ff0d9483e7e0d62c817d846789fb4ae580c878866d959dabd5c0",
	V5R1: "20834b7b72b112147e1b2fb457b84e74d1a30f04f737d4f62a668e9552d2b72f",
}

const c15V5BetaLibraryHash = "e4cf3b2f4c6d6a61ea0f2b5447d266785b26af3637db2deee6bcd1aa826f3412"

func c15UsesSub(ver Version) bool {
	switch ver {
	case V1R1, V1R2, V1R3, V2R1, V2R2:
		return false // the v1 / v2 contracts store seqno and key only
	case V5R1:
		// v5r1 has a wallet id derived from the network id and the workchain, not a sub-wallet id: the sub-wallet option
		// is not part of the address requirements (what the library does with it is logged as INFO only)
		return false
	}
	return true // v3, v4, highload: subwallet_id; v5 beta: 32-bit subwallet inside the wallet id
}

func c15UsesNet(ver Version) bool { return ver == V5Beta || ver == V5R1 }

// c15StateInitHash marshals a tlb.StateInit the way the library does for the address and hashes it with the oracle.
func c15StateInitHash(h *c14Hasher, si tlb.StateInit) (*boc.Cell, [32]byte, error) {
	c := boc.NewCell()
	if err := tlb.Marshal(c, si); err != nil {
		return nil, [32]byte{}, err
	}
	hh, err := h.hash(c)
	return c, hh, err
}

func TestVerifStandin_C15_Addresses(t *testing.T) {
	thorough := c14Thorough()
	h := newC14Hasher()
	stat := newC14Stat("c15_addresses")
	defer stat.print()
	fails := newC14Failures("rc_code_hash", "rc_code_hash_oracle", "rc_code_v5beta_library", "rc_code_hash_lookup",
		"rc_address_api_error", "rc_address_api_mismatch", "rc_address_same_params_differ", "rc_address_oracle_mismatch",
		"rc_state_init_layout", "rc_state_init_code", "rc_state_init_data",
		"rc_address_collision", "rc_generate_state_init_swallows_error",
		"rc_unsupported_version_accepted", "rc_panic_get_code", "rc_panic_address_api", "rc_panic_unsupported_version")
	info := newC14Info("c15", "v5r1_subwallet_option_ignored", "v5r1_subwallet_option_changes_address")
	defer info.report(t)

	// published code
	codes := map[Version]*boc.Cell{}
	codeHash := map[Version][32]byte{}
	for _, ver := range c15Supported {
		var code *boc.Cell
		if p := c14Safe(func() { code = GetCodeByVer(ver) }); p != "" || code == nil {
			fails.add("rc_panic_get_code", "GetCodeByVer(%v): %s", ver, p)
			continue
		}
		hh, err := h.hash(code)
		if err != nil {
			fails.add("rc_code_hash_oracle", "%s: oracle cannot hash the published code: %v", ver.ToString(), err)
			continue
		}
		h.pin(code)
		codes[ver], codeHash[ver] = code, hh
		if want, ok := c15KnownCodeHashes[ver]; ok && hex.EncodeToString(hh[:]) != want {
			fails.add("rc_code_hash", "%s: published code hashes to %x, the well-known code hash is %s", ver.ToString(), hh, want)
		}
		if ver == V5Beta {
			bits := c14Bits(code)
			if code.CellType() != boc.LibraryCell || len(bits) != 264 || hex.EncodeToString(c14BitsBytes(bits[8:])) != c15V5BetaLibraryHash {
				fails.add("rc_code_v5beta_library", "v5Beta: published code is not the library cell of %s (type %d, bits %s)", c15V5BetaLibraryHash, code.CellType(), bits)
			}
		}
		if lib := GetCodeHashByVer(ver); [32]byte(lib) != hh {
			fails.add("rc_code_hash_lookup", "%s: GetCodeHashByVer = %x, reference hash = %x", ver.ToString(), lib[:], hh)
		}
		if v, ok := GetVerByCodeHash(tlb.Bits256(hh)); !ok || v != ver {
			fails.add("rc_code_hash_lookup", "%s: GetVerByCodeHash(%x) = %v, %v", ver.ToString(), hh, v, ok)
		}
	}

	rng := c14Rng(1500)
	nKeys := 3
	if thorough {
		nKeys = 8
	}
	u := func(v uint32) *uint32 { return &v }
	i32 := func(v int32) *int32 { return &v }
	subs := []*uint32{nil, u(0), u(1), u(0xffffffff)}
	nets := []*int32{nil, i32(-239), i32(-3)}

	type combo struct {
		desc string
		eff  string // effective parameters by the specification
		addr ton.AccountID
	}
	byEff := map[string]combo{}
	byAddr := map[string]combo{}

	for ki := 0; ki < nKeys; ki++ {
		priv, pub := c14Key(rng)
		for _, ver := range c15Supported {
			code := codes[ver]
			if code == nil {
				continue
			}
			for _, wc := range []int{0, -1} {
				for _, sub := range subs {
					for _, net := range nets {
						opts := c14Opts{wc: wc, sub: sub, net: net}
						desc := fmt.Sprintf("key_seed=%x ver=%s %s", priv.Seed(), ver.ToString(), opts)
						stat.add(desc)
						var (
							w          Wallet
							a1, a2     ton.AccountID
							si3        tlb.StateInit
							si4        *tlb.StateInit
							e1, e2, e3 error
							e4         error
						)
						if p := c14Safe(func() {
							w, e1 = New(priv, ver, nil, opts.options()...)
							if e1 == nil {
								a1 = w.GetAddress()
								si4, e4 = w.StateInit()
							}
							a2, e2 = GenerateWalletAddress(pub, ver, net, wc, sub)
							si3, e3 = GenerateStateInit(pub, ver, net, wc, sub)
						}); p != "" {
							fails.add("rc_panic_address_api", "%s: panic %s", desc, p)
							continue
						}
						if e1 != nil || e2 != nil || e3 != nil || e4 != nil || si4 == nil {
							fails.add("rc_address_api_error", "%s: errors New=%v GenerateWalletAddress=%v GenerateStateInit=%v StateInit=%v", desc, e1, e2, e3, e4)
							continue
						}
						c3, h3, err3 := c15StateInitHash(h, si3)
						_, h4, err4 := c15StateInitHash(h, *si4)
						if err3 != nil || err4 != nil {
							fails.add("rc_address_api_error", "%s: cannot marshal / hash the state-init: %v %v", desc, err3, err4)
							continue
						}
						if a1 != a2 || int(a1.Workchain) != wc || [32]byte(a1.Address) != h3 || h3 != h4 {
							fails.add("rc_address_api_mismatch", "%s: New().GetAddress=%s GenerateWalletAddress=%s hash(GenerateStateInit)=%x hash(New().StateInit)=%x",
								desc, a1.ToRaw(), a2.ToRaw(), h3, h4)
						}
						// the state-init cell by hand
						if bits, refs := c14Bits(c3), c3.Refs(); bits != "00110" || len(refs) != 2 {
							fails.add("rc_state_init_layout", "%s: state-init cell has bits %q and %d refs, want 00110 and code, data (cell %s)", desc, bits, len(refs), c14Hex(c3))
						} else {
							wantData := c14DataBits(ver, pub, wc, sub, net, 0)
							ch, _ := h.hash(refs[0])
							if ch != codeHash[ver] {
								fails.add("rc_state_init_code", "%s: code reference hashes to %x, published code is %x", desc, ch, codeHash[ver])
							}
							// c14DataBits never uses the sub-wallet option for v5r1 (wallet id = network id XOR context(workchain))
							if db := c14Bits(refs[1]); db != wantData || len(refs[1].Refs()) != 0 {
								fails.add("rc_state_init_data", "%s: data cell %s (%d refs), the contract's initial data is %s", desc, db, len(refs[1].Refs()), wantData)
							}
						}
						// the address from the specification (for v5r1 the sub-wallet option is not part of it)
						{
							data := c14DataBits(ver, pub, wc, sub, net, 0)
							want := h.mustHash(c14StateInitCell(code, c14Cell(data)))
							if [32]byte(a1.Address) != want {
								fails.add("rc_address_oracle_mismatch", "%s: address %s, the hash of the initial state by the specification is %d:%x (data %s)", desc, a1.ToRaw(), wc, want, data)
							} else if ver == V5R1 && sub != nil && *sub != 0 {
								info.add("v5r1_subwallet_option_ignored", "%s: WithSubWalletID(%d) has no effect on a v5r1 wallet: address %s is the one of the default options "+
									"(wallet id = network id XOR context(workchain), subwallet number 0)", desc, *sub, a1.ToRaw())
							}
						}
						// equality / difference across combinations
						eff := fmt.Sprintf("key=%d ver=%s wc=%d", ki, ver.ToString(), wc)
						if c15UsesSub(ver) {
							eff += " id=" + c14WalletIDBits(ver, wc, sub, nil, 0)
						}
						if c15UsesNet(ver) {
							n := int32(-239)
							if net != nil {
								n = *net
							}
							eff += fmt.Sprintf(" net=%d", n)
						}
						cur := combo{desc: desc, eff: eff, addr: a1}
						if prev, ok := byEff[eff]; ok && prev.addr != a1 {
							if ver == V5R1 {
								// can only come from the sub-wallet option, which is outside the v5r1 requirements
								info.add("v5r1_subwallet_option_changes_address", "same parameters up to the sub-wallet option (%s), different addresses: [%s] -> %s, [%s] -> %s", eff, prev.desc, prev.addr.ToRaw(), desc, a1.ToRaw())
							} else {
								fails.add("rc_address_same_params_differ", "same effective parameters (%s), different addresses: [%s] -> %s, [%s] -> %s", eff, prev.desc, prev.addr.ToRaw(), desc, a1.ToRaw())
							}
						}
						byEff[eff] = cur
						if prev, ok := byAddr[a1.ToRaw()]; ok && prev.eff != eff {
							fails.add("rc_address_collision", "different parameters, same address %s: [%s] and [%s]", a1.ToRaw(), prev.desc, desc)
						} else if !ok {
							byAddr[a1.ToRaw()] = cur
						}
					}
				}
			}
		}
		// versions New does not support
		for _, ver := range append(append([]Version{}, c15Unsupported...), Version(99), Version(-1)) {
			desc := fmt.Sprintf("key_seed=%x ver=%d", priv.Seed(), int(ver))
			stat.add(desc)
			var e1, e2, e3 error
			var si tlb.StateInit
			if p := c14Safe(func() {
				_, e1 = New(priv, ver, nil)
				_, e2 = GenerateWalletAddress(pub, ver, nil, 0, nil)
				si, e3 = GenerateStateInit(pub, ver, nil, 0, nil)
			}); p != "" {
				fails.add("rc_panic_unsupported_version", "%s: panic %s", desc, p)
				continue
			}
			if e1 == nil || e2 == nil {
				fails.add("rc_unsupported_version_accepted", "%s: New err=%v GenerateWalletAddress err=%v", desc, e1, e2)
			}
			if e3 == nil {
				fails.add("rc_generate_state_init_swallows_error", "%s: GenerateStateInit returns err=nil and a state-init with code=%v data=%v (New says: %v)", desc, si.Code.Exists, si.Data.Exists, e1)
			}
		}
	}
	fails.report(t)
}

// ---- scripted blockchain ---------------------------------------------------------------------------------------------

type c15Chain struct {
	mu        sync.Mutex
	state     tlb.ShardAccount
	stateErr  error
	sendErr   error
	seqnoAt   func(poll int) (uint32, error)
	sent      [][]byte
	polls     int
	stateReqs []ton.AccountID
	seqnoReqs []ton.AccountID
}

func (c *c15Chain) GetSeqno(ctx context.Context, account ton.AccountID) (uint32, error) {
	c.mu.Lock()
	defer c.mu.Unlock()
	p := c.polls
	c.polls++
	c.seqnoReqs = append(c.seqnoReqs, account)
	if c.seqnoAt == nil {
		return 0, errors.New("scripted: no seqno")
	}
	return c.seqnoAt(p)
}

func (c *c15Chain) SendMessage(ctx context.Context, payload []byte) (uint32, error) {
	c.mu.Lock()
	defer c.mu.Unlock()
	if c.sendErr != nil {
		return 0, c.sendErr
	}
	c.sent = append(c.sent, append([]byte{}, payload...))
	return 0, nil
}

func (c *c15Chain) GetAccountState(ctx context.Context, accountID ton.AccountID) (tlb.ShardAccount, error) {
	c.mu.Lock()
	defer c.mu.Unlock()
	c.stateReqs = append(c.stateReqs, accountID)
	return c.state, c.stateErr
}

var _ blockchain = &c15Chain{}

// c15Account builds the account state by hand.
func c15Account(kind string, addr ton.AccountID, code, data *boc.Cell) tlb.ShardAccount {
	var s tlb.ShardAccount
	if kind == "none" {
		s.Account.SumType = "AccountNone"
		return s
	}
	s.Account.SumType = "Account"
	s.Account.Account.Addr = addr.ToMsgAddress()
	s.Account.Account.Storage.Balance.Grams = 1000000000
	switch kind {
	case "uninit":
		s.Account.Account.Storage.State.SumType = "AccountUninit"
	case "frozen":
		s.Account.Account.Storage.State.SumType = "AccountFrozen"
		s.Account.Account.Storage.State.AccountFrozen.StateHash = tlb.Bits256{1, 2, 3}
	case "active":
		s.Account.Account.Storage.State.SumType = "AccountActive"
		si := &s.Account.Account.Storage.State.AccountActive.StateInit
		if code != nil {
			si.Code.Exists = true
			si.Code.Value.Value = *code
		}
		if data != nil {
			si.Data.Exists = true
			si.Data.Value.Value = *data
		}
	}
	return s
}

func TestVerifStandin_C15_SendPipeline(t *testing.T) {
	thorough := c14Thorough()
	h := newC14Hasher()
	stat := newC14Stat("c15_send_pipeline")
	defer stat.print()
	fails := newC14Failures("rc_send_error", "rc_send_destination", "rc_send_state_init", "rc_send_state_init_hash", "rc_frozen_account_gets_initial_state",
		"rc_send_seqno", "rc_send_payload_format", "rc_send_body_layout", "rc_send_wallet_id", "rc_send_signature", "rc_send_messages",
		"rc_send_valid_until", "rc_send_state_query", "rc_confirmation_loop_inverted",
		"rc_confirmation_false_success", "rc_confirmation_wrong_account", "rc_confirmation_send_error_ignored", "rc_confirmation_late_success",
		"rc_confirmation_timeout_timing", "rc_confirmation_message_count", "rc_nil_blockchain",
		"rc_active_account_bad_data", "rc_transfer_build", "rc_panic_new", "rc_panic_send", "rc_panic_confirmation")
	info := newC14Info("c15", "highload_waiting_confirmation")
	defer info.report(t)
	ctx := context.Background()
	rng := c14Rng(1501)
	u := func(v uint32) *uint32 { return &v }
	i32 := func(v int32) *int32 { return &v }
	subs := []*uint32{nil, u(0), u(1), u(0xffffffff)}
	nets := []*int32{nil, i32(-239), i32(-3)}
	type kp struct {
		priv ed25519.PrivateKey
		pub  ed25519.PublicKey
	}
	var keys []kp
	for i := 0; i < 4; i++ {
		priv, pub := c14Key(rng)
		keys = append(keys, kp{priv, pub})
	}
	dest := ton.AccountID{Workchain: 0, Address: tlb.Bits256{0xde, 0xad, 0xbe, 0xef}}
	transfers := []Sendable{
		SimpleTransfer{Amount: 12345, Address: dest, Comment: "c15 pipeline", Bounceable: true},
		Message{Amount: 1, Address: dest, Body: c14Cell(c14UBits(0xcafe, 16)), Mode: 128 + 2},
	}
	var raws []RawMessage
	var wantHashes [][32]byte
	var wantModes []byte
	for _, s := range transfers {
		var m tlb.Message
		var mode uint8
		var err error
		c := boc.NewCell()
		if p := c14Safe(func() {
			if m, mode, err = s.ToInternal(); err == nil {
				err = tlb.Marshal(c, m)
			}
		}); p != "" || err != nil {
			fails.add("rc_transfer_build", "cannot build the internal message of %#v: panic=%q err=%v", s, p, err)
			fails.report(t)
			return
		}
		raws = append(raws, RawMessage{Message: c, Mode: mode})
		wantHashes = append(wantHashes, h.mustHash(c))
		wantModes = append(wantModes, mode)
	}

	type acct struct {
		kind  string
		seqno uint64
	}
	accts := []acct{{"none", 0}, {"uninit", 0}, {"active", 0}, {"active", 1}, {"active", 1<<32 - 2}, {"frozen", 0}}
	if thorough {
		accts = append(accts, acct{"active", 1 << 31}, acct{"active", 1<<32 - 1})
	}
	entries := []string{"Send", "SendV2", "NextMessageParams+RawSendV2", "NextMessageParams+RawSend"}

	// ---------------- account state -> destination, state-init, seqno ----------------
	caseIdx := 0
	for _, ver := range c15Sending {
		fam := c14Family(ver)
		for _, ac := range accts {
			for _, entry := range entries {
				caseIdx++
				key := keys[caseIdx%len(keys)]
				opts := c14Opts{wc: -(caseIdx % 2), sub: subs[(caseIdx/2)%4], net: nets[(caseIdx/8)%3]}
				lifetime := DefaultMessageLifetime
				options := opts.options()
				if caseIdx%3 == 0 {
					lifetime = 10 * time.Minute
					options = append(options, WithMessageLifetime(lifetime))
				}
				desc := fmt.Sprintf("ver=%s key_seed=%x %s account=%s stored_seqno=%d entry=%s", ver.ToString(), key.priv.Seed(), opts, ac.kind, ac.seqno, entry)
				stat.add(desc)
				code := GetCodeByVer(ver)
				wantAddr := ton.AccountID{Workchain: int32(opts.wc),
					Address: tlb.Bits256(h.mustHash(c14StateInitCell(code, c14Cell(c14DataBits(ver, key.pub, opts.wc, opts.sub, opts.net, 0)))))}
				chain := &c15Chain{}
				chain.state = c15Account(ac.kind, wantAddr, code, c14Cell(c14DataBits(ver, key.pub, opts.wc, opts.sub, opts.net, ac.seqno)))
				var w Wallet
				var err error
				if p := c14Safe(func() { w, err = New(key.priv, ver, chain, options...) }); p != "" || err != nil {
					fails.add("rc_panic_new", "%s: New: panic=%q err=%v", desc, p, err)
					continue
				}
				before := time.Now()
				explicitValid := time.Unix(1<<31+int64(caseIdx), 0)
				if p := c14Safe(func() {
					switch entry {
					case "Send":
						err = w.Send(ctx, transfers...)
					case "SendV2":
						_, err = w.SendV2(ctx, 0, transfers...)
					default:
						var params NextMsgParams
						params, err = w.intWallet.NextMessageParams(chain.state)
						if err != nil {
							return
						}
						if entry == "NextMessageParams+RawSend" {
							err = w.RawSend(ctx, params.Seqno, explicitValid, raws, params.Init)
						} else {
							_, err = w.RawSendV2(ctx, params.Seqno, explicitValid, raws, params.Init, 0)
						}
					}
				}); p != "" {
					fails.add("rc_panic_send", "%s: panic %s", desc, p)
					continue
				}
				after := time.Now()
				if err != nil || len(chain.sent) != 1 {
					fails.add("rc_send_error", "%s: err=%v, %d message(s) handed to SendMessage", desc, err, len(chain.sent))
					continue
				}
				payload := chain.sent[0]
				where := fmt.Sprintf("%s payload=%x", desc, payload)
				if entry == "Send" || entry == "SendV2" {
					if len(chain.stateReqs) != 1 || chain.stateReqs[0] != wantAddr {
						fails.add("rc_send_state_query", "%s: GetAccountState asked for %v, the wallet is %s", desc, chain.stateReqs, wantAddr.ToRaw())
					}
				}
				roots, derr := boc.DeserializeBoc(payload)
				if derr != nil || len(roots) != 1 {
					fails.add("rc_send_payload_format", "%s: payload is not a single-root BOC: %v", where, derr)
					continue
				}
				var em *c14Ext
				var eerr error
				if p := c14Safe(func() { em, eerr = c14ParseExt(roots[0]) }); p != "" || eerr != nil {
					fails.add("rc_send_payload_format", "%s: payload is not an external inbound message: %v %s", where, eerr, p)
					continue
				}
				// (1) addressed to the wallet itself
				if w.GetAddress() != wantAddr || int32(em.wc) != wantAddr.Workchain || em.addr != [32]byte(wantAddr.Address) || em.importFee != 0 {
					fails.add("rc_send_destination", "%s: destination %d:%x (import fee %d), GetAddress %s, address by the specification %s", where, em.wc, em.addr, em.importFee, w.GetAddress().ToRaw(), wantAddr.ToRaw())
				}
				// (2) state-init iff the account does not exist or is uninitialised
				wantInit := ac.kind == "none" || ac.kind == "uninit"
				if (em.init != nil) != wantInit {
					cause := "rc_send_state_init"
					if ac.kind == "frozen" {
						cause = "rc_frozen_account_gets_initial_state"
					}
					fails.add(cause, "%s: state-init attached=%v, want %v", where, em.init != nil, wantInit)
				}
				if em.init != nil {
					if ih, err := h.hash(em.init); err != nil || ih != [32]byte(wantAddr.Address) {
						fails.add("rc_send_state_init_hash", "%s: the attached state-init hashes to %x (%v), not to the wallet address", where, ih, err)
					}
				}
				// (3) seqno, wallet id, expiry, messages, signature
				var pb *c14Body
				var perr error
				if p := c14Safe(func() { pb, perr = c14ParseBody(h, ver, em.body) }); p != "" || perr != nil {
					fails.add("rc_send_body_layout", "%s: body does not follow the %s layout: %v %s", where, fam, perr, p)
					continue
				}
				wantSeqno := uint32(0)
				if ac.kind == "active" {
					wantSeqno = uint32(ac.seqno)
				}
				if fam != "hl2" && pb.seqno != wantSeqno {
					fails.add("rc_send_seqno", "%s: body seqno %d, want %d", where, pb.seqno, wantSeqno)
				}
				if want := c14WalletIDBits(ver, opts.wc, opts.sub, opts.net, 0); pb.walletID != want {
					fails.add("rc_send_wallet_id", "%s: wallet id bits %s, want %s", where, pb.walletID, want)
				}
				if entry == "Send" || entry == "SendV2" {
					lo, hi := before.Add(lifetime).Unix()-1, after.Add(lifetime).Unix()+1
					if int64(pb.validUntil) < lo || int64(pb.validUntil) > hi {
						fails.add("rc_send_valid_until", "%s: valid_until %d, want now + %v = [%d, %d]", where, pb.validUntil, lifetime, lo, hi)
					}
				} else if pb.validUntil != uint32(explicitValid.Unix()) {
					fails.add("rc_send_valid_until", "%s: valid_until %d, want %d", where, pb.validUntil, explicitValid.Unix())
				}
				if !pb.verify(key.pub) {
					fails.add("rc_send_signature", "%s: the signature does not verify under the wallet's key", where)
				}
				if d := c14SameCells(h, pb.msgs, pb.modes, wantHashes, wantModes); d != "" {
					if (fam == "v5r1" || fam == "v5beta") && c14SameCells(h, pb.outerFirstMsgs, pb.outerFirstModes, wantHashes, wantModes) == "" {
						// either nesting order of the out list is accepted (see the INFO line of C14)
					} else {
						fails.add("rc_send_messages", "%s: messages: %s", where, d)
					}
				}
			}
		}
	}

	// ---------------- active account whose data cannot be the wallet's ----------------
	for _, ver := range c15Sending {
		for _, bad := range []string{"empty data cell", "no data", "no code and no data"} {
			desc := fmt.Sprintf("ver=%s active account with %s", ver.ToString(), bad)
			stat.add(desc)
			key := keys[0]
			chain := &c15Chain{}
			w, err := New(key.priv, ver, chain)
			if err != nil {
				fails.add("rc_panic_new", "%s: New: %v", desc, err)
				continue
			}
			switch bad {
			case "empty data cell":
				chain.state = c15Account("active", w.GetAddress(), GetCodeByVer(ver), c14Cell(""))
			case "no data":
				chain.state = c15Account("active", w.GetAddress(), GetCodeByVer(ver), nil)
			default:
				chain.state = c15Account("active", w.GetAddress(), nil, nil)
			}
			var serr error
			if p := c14Safe(func() { serr = w.Send(ctx, transfers[0]) }); p != "" {
				fails.add("rc_active_account_bad_data", "%s: Send panics: %s", desc, p)
			} else if fam := c14Family(ver); fam != "hl2" && (serr == nil || len(chain.sent) != 0) {
				fails.add("rc_active_account_bad_data", "%s: Send returns err=%v and sends %d message(s) although no seqno can be read from the data", desc, serr, len(chain.sent))
			}
		}
	}

	// ---------------- no blockchain ----------------
	for _, ver := range c15Sending {
		stat.add("nil blockchain " + ver.ToString())
		w, err := New(keys[0].priv, ver, nil)
		if err != nil {
			fails.add("rc_panic_new", "New(%v, nil blockchain): %v", ver, err)
			continue
		}
		var e1, e2 error
		if p := c14Safe(func() {
			e1 = w.Send(ctx, transfers[0])
			_, e2 = w.RawSendV2(ctx, 0, time.Unix(1<<31, 0), raws, nil, 0)
		}); p != "" || e1 == nil || e2 == nil {
			fails.add("rc_nil_blockchain", "ver=%s without a blockchain: panic=%q Send err=%v RawSendV2 err=%v", ver.ToString(), p, e1, e2)
		}
	}

	// ---------------- confirmation histories ----------------
	type script struct {
		name    string
		at      func(start uint32) func(poll int) (uint32, error)
		sendErr error
		success bool
	}
	advAt := func(k int, by uint32) func(start uint32) func(int) (uint32, error) {
		return func(start uint32) func(int) (uint32, error) {
			step := by
			if start > 1<<32-1-by {
				step = 1 // no wrap-around: the advanced seqno stays above the start
			}
			return func(p int) (uint32, error) {
				if p >= k {
					return start + step, nil
				}
				return start, nil
			}
		}
	}
	pollErr := errors.New("scripted: liteserver unavailable")
	scripts := []script{
		{name: "advances at poll 0", at: advAt(0, 1), success: true},
		{name: "advances at poll 1", at: advAt(1, 1), success: true},
		{name: "advances at poll 2", at: advAt(2, 1), success: true},
		{name: "advances at poll 5", at: advAt(5, 1), success: true},
		{name: "advances by 5 at poll 1", at: advAt(1, 5), success: true},
		{name: "polls 0,1 fail then advanced", success: true, at: func(start uint32) func(int) (uint32, error) {
			return func(p int) (uint32, error) {
				if p < 2 {
					return 0, pollErr
				}
				return start + 1, nil
			}
		}},
		{name: "never advances", at: advAt(1<<30, 1)},
		{name: "every poll fails", at: func(start uint32) func(int) (uint32, error) {
			return func(p int) (uint32, error) { return 0, pollErr }
		}},
		{name: "every poll fails but reports an advanced seqno", at: func(start uint32) func(int) (uint32, error) {
			return func(p int) (uint32, error) { return start + 1, pollErr }
		}},
		{name: "polls 0,1 fail then unchanged", at: func(start uint32) func(int) (uint32, error) {
			return func(p int) (uint32, error) {
				if p < 2 {
					return 0, pollErr
				}
				return start, nil
			}
		}},
		{name: "advances only at poll 1000 (after the deadline)", at: advAt(1000, 1)},
		{name: "SendMessage fails", at: advAt(0, 1), sendErr: errors.New("scripted: send refused")},
	}
	confVersions := []Version{V3R2, V4R2, V5R1}
	if thorough {
		confVersions = []Version{V3R1, V3R2, V4R1, V4R2, V5Beta, V5R1}
	}
	wait := 400 * time.Millisecond
	type result struct {
		cause, msg string
	}
	var results []result
	var rmu sync.Mutex
	var wg sync.WaitGroup
	for _, ver := range confVersions {
		for _, start := range []uint32{0, 7, 1<<32 - 2} {
			for _, sc := range scripts {
				for _, entry := range []string{"RawSendV2", "SendV2"} {
					if entry == "SendV2" && start != 7 {
						continue
					}
					ver, start, sc, entry := ver, start, sc, entry
					desc := fmt.Sprintf("ver=%s entry=%s start_seqno=%d waitingConfirmation=%v history=%q", ver.ToString(), entry, start, wait, sc.name)
					stat.add("confirm " + desc)
					wg.Add(1)
					go func() {
						defer wg.Done()
						add := func(cause, format string, args ...any) {
							rmu.Lock()
							results = append(results, result{cause, fmt.Sprintf(format, args...)})
							rmu.Unlock()
						}
						key := keys[1]
						chain := &c15Chain{seqnoAt: sc.at(start), sendErr: sc.sendErr}
						w, err := New(key.priv, ver, chain)
						if err != nil {
							add("rc_panic_new", "%s: New: %v", desc, err)
							return
						}
						chain.state = c15Account("active", w.GetAddress(), GetCodeByVer(ver), c14Cell(c14DataBits(ver, key.pub, 0, nil, nil, uint64(start))))
						var serr error
						t0 := time.Now()
						if p := c14Safe(func() {
							if entry == "SendV2" {
								_, serr = w.SendV2(ctx, wait, transfers...)
							} else {
								_, serr = w.RawSendV2(ctx, start, time.Now().Add(time.Minute), raws, nil, wait)
							}
						}); p != "" {
							add("rc_panic_confirmation", "%s: panic %s", desc, p)
							return
						}
						took := time.Since(t0)
						chain.mu.Lock()
						polls, sent := chain.polls, len(chain.sent)
						reqs := append([]ton.AccountID{}, chain.seqnoReqs...)
						chain.mu.Unlock()
						for _, a := range reqs {
							if a != w.GetAddress() {
								add("rc_confirmation_wrong_account", "%s: GetSeqno asked for %s, the wallet is %s", desc, a.ToRaw(), w.GetAddress().ToRaw())
								break
							}
						}
						switch {
						case sc.sendErr != nil:
							if serr == nil || polls != 0 {
								add("rc_confirmation_send_error_ignored", "%s: err=%v after %d polls although SendMessage failed", desc, serr, polls)
							}
						case sc.success && serr != nil:
							add("rc_confirmation_loop_inverted", "%s: RawSendV2 returns %q after %d polls in %v although the scripted GetSeqno reported seqno > %d well before the deadline", desc, serr, polls, took, start)
						case sc.success && took > wait+wait/2:
							add("rc_confirmation_late_success", "%s: success only after %v", desc, took)
						case !sc.success && serr == nil:
							add("rc_confirmation_false_success", "%s: RawSendV2 returns nil after %d polls in %v although no successful poll ever showed seqno > %d", desc, polls, took, start)
						case !sc.success && (polls < 2 || took < wait/2 || took > 3*wait):
							add("rc_confirmation_timeout_timing", "%s: gave up after %d polls in %v", desc, polls, took)
						}
						if sc.sendErr == nil && sent != 1 {
							add("rc_confirmation_message_count", "%s: %d messages sent", desc, sent)
						}
					}()
				}
			}
		}
	}
	wg.Wait()
	for _, r := range results {
		fails.add(r.cause, "%s", r.msg)
	}
	// highload: waiting for confirmation is documented as unsupported; the message is sent nevertheless
	{
		chain := &c15Chain{seqnoAt: advAt(0, 1)(0)}
		w, err := New(keys[0].priv, HighLoadV2R2, chain)
		if err == nil {
			chain.state = c15Account("none", w.GetAddress(), nil, nil)
			_, serr := w.RawSendV2(ctx, 0, time.Now().Add(time.Minute), raws, nil, 50*time.Millisecond)
			info.add("highload_waiting_confirmation", "highload RawSendV2 with waitingConfirmation > 0: err=%v, messages sent=%d", serr, len(chain.sent))
		}
	}
	fails.report(t)
}

// ---- mnemonics ------------------------------------------------------------------------------------------------------
//
// TON mnemonic scheme (ton crypto "mnemonic", tonweb-mnemonic): entropy = HMAC-SHA512(key = mnemonic phrase, data =
// password = ""); the phrase is a basic seed iff PBKDF2-HMAC-SHA512(entropy, "TON seed version", max(1, 100000/256),
// 64)[0] == 0; key seed = PBKDF2-HMAC-SHA512(entropy, "TON default seed", 100000, 64)[:32]; ed25519 key from that seed.

func c15SpecEntropy(words []string) []byte {
	mac := hmac.New(sha512.New, []byte(strings.Join(words, " ")))
	mac.Write([]byte(""))
	return mac.Sum(nil)
}

func c15SpecIsBasicSeed(words []string) bool {
	return pbkdf2.Key(c15SpecEntropy(words), []byte("TON seed version"), 100000/256, 64, sha512.New)[0] == 0
}

func c15SpecKey(words []string) ed25519.PrivateKey {
	return ed25519.NewKeyFromSeed(pbkdf2.Key(c15SpecEntropy(words), []byte("TON default seed"), 100000, 64, sha512.New)[:32])
}

func TestVerifStandin_C15_Mnemonic(t *testing.T) {
	thorough := c14Thorough()
	stat := newC14Stat("c15_mnemonic")
	defer stat.print()
	fails := newC14Failures("rc_seed_valid_rejected", "rc_seed_key_mismatch", "rc_seed_not_deterministic", "rc_seed_invalid_accepted",
		"rc_seed_mutant_valid_rejected", "rc_seed_mutant_rate", "rc_wordlist",
		"rc_random_seed_invalid", "rc_seed_short_accepted", "rc_panic_random_seed", "rc_panic_seed_to_private_key")
	nDet, nRand := 3, 2
	if thorough {
		nDet, nRand = 8, 4
	}
	rng := c14Rng(1502)
	index := map[string]int{}
	for i, w := range WORDLIST {
		index[w] = i
	}
	if len(WORDLIST) != 2048 || len(index) != 2048 {
		fails.add("rc_wordlist", "WORDLIST has %d entries (%d distinct), BIP-39 has 2048", len(WORDLIST), len(index))
	}
	var seeds [][]string
	for len(seeds) < nDet {
		words := make([]string, 24)
		for i := range words {
			words[i] = WORDLIST[rng.Intn(len(WORDLIST))]
		}
		if c15SpecIsBasicSeed(words) {
			seeds = append(seeds, words)
		}
	}
	for i := 0; i < nRand; i++ {
		var s string
		if p := c14Safe(func() { s = RandomSeed() }); p != "" {
			fails.add("rc_panic_random_seed", "RandomSeed panics: %s", p)
			continue
		}
		words := strings.Split(s, " ")
		ok := len(words) == 24
		for _, w := range words {
			if _, known := index[w]; !known {
				ok = false
			}
		}
		stat.add("random " + s)
		if !ok || !c15SpecIsBasicSeed(words) {
			fails.add("rc_random_seed_invalid", "RandomSeed() = %q: 24 known words=%v, basic seed by the specification=%v", s, ok, c15SpecIsBasicSeed(words))
			continue
		}
		seeds = append(seeds, words)
	}
	mutants, accepted, acceptedBySpec := 0, 0, 0
	for _, words := range seeds {
		s := strings.Join(words, " ")
		stat.add("valid " + s)
		var k1, k2 ed25519.PrivateKey
		var e1, e2 error
		if p := c14Safe(func() {
			k1, e1 = SeedToPrivateKey(s)
			k2, e2 = SeedToPrivateKey(s)
		}); p != "" {
			fails.add("rc_panic_seed_to_private_key", "SeedToPrivateKey(%q) panics: %s", s, p)
			continue
		}
		if e1 != nil || e2 != nil {
			fails.add("rc_seed_valid_rejected", "SeedToPrivateKey(%q): %v / %v, the phrase is a basic seed by the specification", s, e1, e2)
			continue
		}
		if !k1.Equal(k2) {
			fails.add("rc_seed_not_deterministic", "SeedToPrivateKey(%q) returned %x then %x", s, k1.Seed(), k2.Seed())
		}
		if want := c15SpecKey(words); !k1.Equal(want) {
			fails.add("rc_seed_key_mismatch", "SeedToPrivateKey(%q) = %x, the specification derives %x", s, k1.Seed(), want.Seed())
		}
		// one changed word: the checksum must catch it (except with probability 1/256 per mutant)
		for pos := range words {
			m := append([]string{}, words...)
			m[pos] = WORDLIST[(index[words[pos]]+1+rng.Intn(2046))%2048]
			ms := strings.Join(m, " ")
			stat.add("mutant " + ms)
			mutants++
			spec := c15SpecIsBasicSeed(m)
			if spec {
				acceptedBySpec++
			}
			var err error
			if p := c14Safe(func() { _, err = SeedToPrivateKey(ms) }); p != "" {
				fails.add("rc_panic_seed_to_private_key", "SeedToPrivateKey(%q) panics: %s", ms, p)
				continue
			}
			if err == nil {
				accepted++
			}
			if err == nil && !spec {
				fails.add("rc_seed_invalid_accepted", "SeedToPrivateKey(%q): err=nil although the phrase is not a basic seed by the specification (word %d of %q changed)", ms, pos, s)
			}
			if err != nil && spec {
				fails.add("rc_seed_mutant_valid_rejected", "SeedToPrivateKey(%q): err=%v although the phrase is a basic seed by the specification (word %d of %q changed)", ms, err, pos, s)
			}
		}
		// fewer than 12 words
		short := strings.Join(words[:11], " ")
		stat.add("short " + short)
		var serr error
		if p := c14Safe(func() { _, serr = SeedToPrivateKey(short) }); p != "" {
			fails.add("rc_panic_seed_to_private_key", "SeedToPrivateKey(%q) panics: %s", short, p)
		} else if serr == nil {
			fails.add("rc_seed_short_accepted", "SeedToPrivateKey(%q) accepts 11 words", short)
		}
	}
	t.Logf("single-word mutants: %d, accepted by the library: %d, valid by the specification: %d (expected rate 1/256)", mutants, accepted, acceptedBySpec)
	if mutants > 0 && accepted*20 > mutants {
		fails.add("rc_seed_mutant_rate", "%d of %d single-word mutants are accepted (expected about 1 in 256)", accepted, mutants)
	}
	fails.report(t)
}
