//go:build verif

package wallet

// Bounded stand-in for C03 (labelled bounded, never counted as proved).
// Stands in for: the "wallet message bodies" clause of C03 - the hand-written list codecs of wallet/messages.go
// (PayloadV1toV4, PayloadHighload, W5Actions, W5ExtendedActions) and the reflection-driven bodies built from them
// (MessageV3, MessageV4, MessageV5Beta, MessageV5, HighloadV2Message). These run through tlb's reflection walk,
// which the prover does not model.
// Oracle: encode(v) fails, or decode(encode(v)) describes the same value as v (same order, modes, message cells,
// constructor) and encode(decode(encode(v))) has the same hash.
// Bound: lists of 0..4 (v1-v4), 1..12 (highload), 0..6 (w5 actions), 1..4 (w5 extended actions) entries with
// distinct modes and distinct message cells; 40 random values per type (thorough 400).

import (
	"fmt"
	"math/rand"
	"reflect"
	"strings"
	"testing"

	"github.com/tonkeeper/tongo/boc"
	"github.com/tonkeeper/tongo/tlb"
)

var (
	c03wCellT = reflect.TypeOf(boc.Cell{})
	c03wAnyT  = reflect.TypeOf(tlb.Any{})
	// a tlb.Magic field is the constructor tag constant of its `tlb:"#..."` struct tag: the decoder stores the tag it
	// matched, the encoder ignores the field; it is not part of the value.
	c03wMagicT = reflect.TypeOf(tlb.Magic(0))
)

// c03wDescribe renders a value with cells replaced by their representation hash; nil pointers are "nil".
func c03wDescribe(v reflect.Value, sb *strings.Builder) {
	switch {
	case v.Type() == c03wCellT:
		c := v.Interface().(boc.Cell)
		h, err := c.HashString()
		fmt.Fprintf(sb, "cell(%s,%v)", h, err)
		return
	case v.Type() == c03wAnyT:
		c := boc.Cell(v.Interface().(tlb.Any))
		h, err := c.HashString()
		fmt.Fprintf(sb, "cell(%s,%v)", h, err)
		return
	}
	switch v.Kind() {
	case reflect.Ptr:
		if v.IsNil() {
			sb.WriteString("nil")
			return
		}
		sb.WriteString("&")
		c03wDescribe(v.Elem(), sb)
	case reflect.Struct:
		sb.WriteString("{")
		for i := 0; i < v.NumField(); i++ {
			if !v.Type().Field(i).IsExported() || v.Type().Field(i).Type == c03wMagicT {
				continue
			}
			sb.WriteString(v.Type().Field(i).Name + ":")
			c03wDescribe(v.Field(i), sb)
			sb.WriteString(" ")
		}
		sb.WriteString("}")
	case reflect.Slice:
		fmt.Fprintf(sb, "[%d:", v.Len())
		for i := 0; i < v.Len(); i++ {
			c03wDescribe(v.Index(i), sb)
			sb.WriteString(",")
		}
		sb.WriteString("]")
	case reflect.Array:
		fmt.Fprintf(sb, "%x", v.Interface())
	default:
		fmt.Fprintf(sb, "%v", v.Interface())
	}
}

func c03wDesc(v any) string {
	var sb strings.Builder
	c03wDescribe(reflect.ValueOf(v), &sb)
	return sb.String()
}

func c03wMsg(r *rand.Rand) *boc.Cell {
	c := boc.NewCell()
	_ = c.WriteUint(r.Uint64(), 64)
	if r.Intn(3) == 0 {
		in := boc.NewCell()
		_ = in.WriteUint(r.Uint64(), 33)
		_ = c.AddRef(in)
	}
	return c
}

func c03wRaw(r *rand.Rand, n int) []RawMessage {
	var out []RawMessage
	for i := 0; i < n; i++ {
		out = append(out, RawMessage{Message: c03wMsg(r), Mode: byte(r.Intn(256))})
	}
	return out
}

func c03wActions(r *rand.Rand, n int) W5Actions {
	out := W5Actions{}
	for i := 0; i < n; i++ {
		out = append(out, W5SendMessageAction{Mode: uint8(r.Intn(256)), Msg: c03wMsg(r)})
	}
	return out
}

func c03wAddr(r *rand.Rand) tlb.MsgAddress {
	var a tlb.MsgAddress
	a.SumType = "AddrStd"
	a.AddrStd.WorkchainId = int8(r.Intn(256) - 128)
	r.Read(a.AddrStd.Address[:])
	return a
}

func c03wExt(r *rand.Rand, n int) W5ExtendedActions {
	out := W5ExtendedActions{}
	for i := 0; i < n; i++ {
		var a W5ExtendedAction
		switch r.Intn(3) {
		case 0:
			a.SumType = "AddExtension"
			a.AddExtension = &struct{ Addr tlb.MsgAddress }{c03wAddr(r)}
		case 1:
			a.SumType = "RemoveExtension"
			a.RemoveExtension = &struct{ Addr tlb.MsgAddress }{c03wAddr(r)}
		default:
			a.SumType = "SetSignatureAllowed"
			a.SetSignatureAllowed = &struct{ Allowed bool }{r.Intn(2) == 0}
		}
		out = append(out, a)
	}
	return out
}

func c03wBits512(r *rand.Rand) (b tlb.Bits512) { r.Read(b[:]); return }
func c03wBits80(r *rand.Rand) (b tlb.Bits80)   { r.Read(b[:]); return }

func TestVerifStandin_C03_WalletBodies(t *testing.T) {
	r := c14Rng(303)
	st := newC14Stat("c03_wallet_bodies")
	fails := newC14Failures()
	n := 40
	if c14Thorough() {
		n = 400
	}
	// roundTrip encodes v, decodes into fresh (a pointer to a zero value of v's type), and compares.
	roundTrip := func(cause, key string, v any, fresh any) {
		st.add(key + "/" + c03wDesc(v))
		c := boc.NewCell()
		if err := tlb.Marshal(c, v); err != nil {
			return // encoding may fail with an error
		}
		h1, err := c.HashString()
		if err != nil {
			fails.add(cause, "%s: hash of encoding: %v", key, err)
			return
		}
		if err := tlb.Unmarshal(c, fresh); err != nil {
			fails.add(cause, "%s: %s encodes to %s but decoding fails: %v", key, c03wDesc(v), c14Hex(c), err)
			return
		}
		got := reflect.ValueOf(fresh).Elem().Interface()
		if c03wDesc(got) != c03wDesc(v) {
			fails.add(cause, "%s: decode(encode(v)) != v\n  v   = %s\n  got = %s", key, c03wDesc(v), c03wDesc(got))
			return
		}
		c2 := boc.NewCell()
		if err := tlb.Marshal(c2, got); err != nil {
			fails.add(cause, "%s: re-encoding the decoded value fails: %v", key, err)
			return
		}
		if h2, _ := c2.HashString(); h2 != h1 {
			fails.add(cause, "%s: re-encoding gives hash %s, first encoding %s", key, h2, h1)
		}
	}
	for i := 0; i < n; i++ {
		k := i % 5
		roundTrip("rc_payload_v1to4_roundtrip", fmt.Sprintf("PayloadV1toV4/%d", k), PayloadV1toV4(c03wRaw(r, k)), &PayloadV1toV4{})
		hk := 1 + i%12
		roundTrip("rc_payload_highload_roundtrip", fmt.Sprintf("PayloadHighload/%d", hk), PayloadHighload(c03wRaw(r, hk)), &PayloadHighload{})
		ak := i % 7
		roundTrip("rc_w5actions_roundtrip", fmt.Sprintf("W5Actions/%d", ak), c03wActions(r, ak), &W5Actions{})
		ek := 1 + i%4
		roundTrip("rc_w5extended_roundtrip", fmt.Sprintf("W5ExtendedActions/%d", ek), c03wExt(r, ek), &W5ExtendedActions{})

		roundTrip("rc_message_v3_roundtrip", "MessageV3", MessageV3{SubWalletId: r.Uint32(), ValidUntil: r.Uint32(), Seqno: r.Uint32(), RawMessages: c03wRaw(r, 1+i%4)}, &MessageV3{})
		roundTrip("rc_message_v4_roundtrip", "MessageV4", MessageV4{SubWalletId: r.Uint32(), ValidUntil: r.Uint32(), Seqno: r.Uint32(), Op: int8(r.Intn(256) - 128), RawMessages: c03wRaw(r, 1+i%4)}, &MessageV4{})
		roundTrip("rc_message_highload_roundtrip", "HighloadV2Message", HighloadV2Message{SubWalletId: r.Uint32(), BoundedQueryID: r.Uint64(), RawMessages: c03wRaw(r, 1+i%9)}, &HighloadV2Message{})

		var b MessageV5Beta
		if i%2 == 0 {
			b.SumType = "SignedInternal"
			b.SignedInternal.WalletId, b.SignedInternal.ValidUntil, b.SignedInternal.Seqno = c03wBits80(r), r.Uint32(), r.Uint32()
			b.SignedInternal.Op, b.SignedInternal.Signature, b.SignedInternal.Actions = false, c03wBits512(r), c03wActions(r, 1+i%5)
		} else {
			b.SumType = "SignedExternal"
			b.SignedExternal.WalletId, b.SignedExternal.ValidUntil, b.SignedExternal.Seqno = c03wBits80(r), r.Uint32(), r.Uint32()
			b.SignedExternal.Op, b.SignedExternal.Signature, b.SignedExternal.Actions = false, c03wBits512(r), c03wActions(r, 1+i%5)
		}
		roundTrip("rc_message_v5beta_roundtrip", "MessageV5Beta/"+string(b.SumType), b, &MessageV5Beta{})

		var m MessageV5
		var acts *W5Actions
		var ext *W5ExtendedActions
		if i%3 != 0 {
			a := c03wActions(r, 1+i%5)
			acts = &a
		}
		if i%4 >= 2 {
			e := c03wExt(r, 1+i%3)
			ext = &e
		}
		switch i % 3 {
		case 0:
			m.SumType = "SignedInternal"
			m.SignedInternal = &struct {
				WalletId        uint32
				ValidUntil      uint32
				Seqno           uint32
				Actions         *W5Actions         `tlb:"maybe^"`
				ExtendedActions *W5ExtendedActions `tlb:"maybe"`
				Signature       tlb.Bits512
			}{r.Uint32(), r.Uint32(), r.Uint32(), acts, ext, c03wBits512(r)}
		case 1:
			m.SumType = "SignedExternal"
			m.SignedExternal = &struct {
				WalletId        uint32
				ValidUntil      uint32
				Seqno           uint32
				Actions         *W5Actions         `tlb:"maybe^"`
				ExtendedActions *W5ExtendedActions `tlb:"maybe"`
				Signature       tlb.Bits512
			}{r.Uint32(), r.Uint32(), r.Uint32(), acts, ext, c03wBits512(r)}
		default:
			m.SumType = "ExtensionAction"
			m.ExtensionAction = &struct {
				QueryID         uint64
				Actions         *W5Actions         `tlb:"maybe^"`
				ExtendedActions *W5ExtendedActions `tlb:"maybe"`
			}{r.Uint64(), acts, ext}
		}
		roundTrip("rc_message_v5_roundtrip", "MessageV5/"+string(m.SumType), m, &MessageV5{})
	}
	st.print()
	fails.report(t)
}
