//go:build verif

package wallet

// Shared helpers of the bounded stand-ins of package wallet (C14, C15).
// Nothing here calls the wallet code under test. The cell views (bit lists, references), the representation hash and
// all message / body / dictionary parsers below are written from the TON specification (block.tlb, the wallet contract
// sources v3/v4/w5/highload-v2) on top of boc.Cell's ReadBit / Refs / WriteBit / AddRef only.

import (
	"crypto/ed25519"
	"crypto/sha256"
	"encoding/hex"
	"errors"
	"fmt"
	"math/rand"
	"os"
	"sort"
	"strconv"
	"strings"
	"testing"

	"github.com/tonkeeper/tongo/boc"
)

func c14Thorough() bool { return os.Getenv("VERIF_TIER") == "thorough" }

func c14Seed() int64 {
	if s := os.Getenv("VERIF_SEED"); s != "" {
		if v, err := strconv.ParseInt(s, 10, 64); err == nil {
			return v
		}
	}
	return 1
}

func c14Rng(salt int64) *rand.Rand { return rand.New(rand.NewSource(c14Seed()*1000003 + salt)) }

// c14Stat counts executed cases and distinct inputs and prints the STANDIN-STAT line.
type c14Stat struct {
	name     string
	cases    int
	distinct map[string]struct{}
}

func newC14Stat(name string) *c14Stat { return &c14Stat{name: name, distinct: map[string]struct{}{}} }
func (s *c14Stat) add(key string) {
	s.cases++
	s.distinct[key] = struct{}{}
}
func (s *c14Stat) print() {
	fmt.Printf("STANDIN-STAT name=%s cases=%d distinct=%d\n", s.name, s.cases, len(s.distinct))
}

// c14Failures collects failures keyed by root cause; every root cause is reported in its own sub-test with a stable
// name rc_<cause>. Known root causes are always run (so that they show PASS once fixed).
type c14Failures struct {
	byCause map[string][]string
	count   map[string]int
	known   []string
}

func newC14Failures(known ...string) *c14Failures {
	return &c14Failures{byCause: map[string][]string{}, count: map[string]int{}, known: known}
}

func (f *c14Failures) add(cause, format string, args ...any) {
	f.count[cause]++
	if len(f.byCause[cause]) < 5 {
		msg := fmt.Sprintf(format, args...)
		if len(msg) > 2500 {
			msg = msg[:2500] + "...(truncated)"
		}
		f.byCause[cause] = append(f.byCause[cause], msg)
	}
}

func (f *c14Failures) wants(cause string) bool { return len(f.byCause[cause]) < 5 }

func (f *c14Failures) report(t *testing.T) {
	names := map[string]bool{}
	for _, k := range f.known {
		names[k] = true
	}
	for k := range f.count {
		names[k] = true
	}
	var sorted []string
	for k := range names {
		sorted = append(sorted, k)
	}
	sort.Strings(sorted)
	for _, k := range sorted {
		k := k
		t.Run(k, func(t *testing.T) {
			if f.count[k] == 0 {
				return
			}
			t.Errorf("%d failing case(s); first %d:", f.count[k], len(f.byCause[k]))
			for _, m := range f.byCause[k] {
				t.Errorf("  %s", m)
			}
		})
	}
}

// c14Info collects informational observations: things stricter than the property as stated (or outside it). They are
// logged with a counter ("INFO <test> <name>: N cases, first: ...") and never fail a test.
type c14Info struct {
	prefix string
	names  []string
	count  map[string]int
	first  map[string]string
}

func newC14Info(prefix string, names ...string) *c14Info {
	return &c14Info{prefix: prefix, names: names, count: map[string]int{}, first: map[string]string{}}
}

// wants reports whether the first example of name is still missing (lets callers skip building expensive messages).
func (i *c14Info) wants(name string) bool { return i.count[name] == 0 }

func (i *c14Info) add(name, format string, args ...any) {
	if i.count[name] == 0 {
		msg := fmt.Sprintf(format, args...)
		if len(msg) > 2500 {
			msg = msg[:2500] + "...(truncated)"
		}
		i.first[name] = msg
		known := false
		for _, n := range i.names {
			known = known || n == name
		}
		if !known {
			i.names = append(i.names, name)
		}
	}
	i.count[name]++
}

func (i *c14Info) report(t *testing.T) {
	for _, n := range i.names {
		if i.count[n] == 0 {
			t.Logf("INFO %s %s: 0 cases", i.prefix, n)
			continue
		}
		t.Logf("INFO %s %s: %d cases, first: %s", i.prefix, n, i.count[n], i.first[n])
	}
}

// c14Safe runs fn and converts a panic into a string ("" = no panic).
func c14Safe(fn func()) (panicMsg string) {
	defer func() {
		if r := recover(); r != nil {
			panicMsg = fmt.Sprintf("%v", r)
			if panicMsg == "" {
				panicMsg = "panic"
			}
		}
	}()
	fn()
	return ""
}

// ---- ideal views of cells ---------------------------------------------------------------------------------------

// c14Bits returns all data bits of c (from bit 0) as a string of '0'/'1'. The caller's cursors are not moved.
// It reads the raw buffer (BitString.Buffer) up to the logical length (BitSize); bits behind it are ignored.
func c14Bits(c *boc.Cell) string {
	n := c.BitSize()
	bs := c.RawBitString()
	buf := bs.Buffer()
	if n < 0 || (n+7)/8 > len(buf) {
		panic(fmt.Sprintf("oracle: cell claims %d bits but its buffer has %d bytes", n, len(buf)))
	}
	out := make([]byte, 0, n+8)
	for i := 0; i < (n+7)/8; i++ {
		out = append(out, c14ByteBits[buf[i]]...)
	}
	return string(out[:n])
}

var c14ByteBits = func() (t [256]string) {
	for i := range t {
		t[i] = fmt.Sprintf("%08b", i)
	}
	return
}()

// c14Cell builds an ordinary cell from an ideal bit list and refs using only WriteUint(8) / WriteBit / AddRef.
func c14Cell(bits string, refs ...*boc.Cell) *boc.Cell {
	c := boc.NewCell()
	i := 0
	for ; i+8 <= len(bits); i += 8 {
		if err := c.WriteUint(c14U(bits[i:i+8]), 8); err != nil {
			panic(fmt.Sprintf("oracle: cannot write bits %d..%d: %v", i, i+8, err))
		}
	}
	for ; i < len(bits); i++ {
		if err := c.WriteBit(bits[i] == '1'); err != nil {
			panic(fmt.Sprintf("oracle: cannot write bit %d: %v", i, err))
		}
	}
	for _, r := range refs {
		if err := c.AddRef(r); err != nil {
			panic(fmt.Sprintf("oracle: cannot add ref: %v", err))
		}
	}
	return c
}

func c14U(bits string) uint64 {
	if len(bits) > 64 {
		panic("oracle: more than 64 bits")
	}
	var v uint64
	for i := 0; i < len(bits); i++ {
		v <<= 1
		if bits[i] == '1' {
			v |= 1
		}
	}
	return v
}

func c14UBits(v uint64, n int) string {
	out := make([]byte, n)
	for i := n - 1; i >= 0; i-- {
		out[i] = '0' + byte(v&1)
		v >>= 1
	}
	if v != 0 {
		panic("oracle: value does not fit")
	}
	return string(out)
}

func c14BytesBits(b []byte) string {
	var sb strings.Builder
	for _, x := range b {
		fmt.Fprintf(&sb, "%08b", x)
	}
	return sb.String()
}

func c14BitsBytes(bits string) []byte {
	if len(bits)%8 != 0 {
		panic("oracle: not a whole number of bytes")
	}
	out := make([]byte, len(bits)/8)
	for i := 0; i < len(bits); i++ {
		if bits[i] == '1' {
			out[i/8] |= 0x80 >> uint(i%8)
		}
	}
	return out
}

// c14Flip returns bits with bit i inverted.
func c14Flip(bits string, i int) string {
	b := []byte(bits)
	b[i] ^= 1 // '0' <-> '1'
	return string(b)
}

// c14Hex renders a cell tree as a BOC in hex for replay (library serialiser; reporting only).
func c14Hex(c *boc.Cell) string {
	if c == nil {
		return "<nil>"
	}
	var out string
	if p := c14Safe(func() {
		s, err := c.ToBocString()
		if err != nil {
			out = "<boc error: " + err.Error() + ">"
			return
		}
		out = s
	}); p != "" {
		return "<boc panic: " + p + ">"
	}
	if len(out) > 600 {
		out = out[:600] + fmt.Sprintf("...(%d hex digits)", len(out))
	}
	return out
}

// ---- reference representation hash --------------------------------------------------------------------------------
//
// Written from the TON whitepaper (tblkch 3.1.4 - 3.1.6) for level-0 cells, which is all a wallet ever builds:
//   repr(c) = d1 | d2 | data padded with the completion tag | depth(ref_i) 2 bytes BE each | hash(ref_i) 32 bytes each
//   d1 = #refs + 8*exotic (+ 32*level, level = 0 here),  d2 = ceil(bits/8) + floor(bits/8)
//   hash = SHA256(repr), depth = 0 without refs, else 1 + max child depth.
// Exotic cells: only the library cell (8-bit type 2 + 256-bit hash, no refs, level 0) is accepted - the published v5 beta
// code is one; anything else is an oracle error.

type c14HD struct {
	hash  [32]byte
	depth int
}

type c14Hasher struct{ memo map[*boc.Cell]c14HD }

func newC14Hasher() *c14Hasher { return &c14Hasher{memo: map[*boc.Cell]c14HD{}} }

// pin remembers the hash of an immutable cell tree (pool messages, code cells) for later calls.
func (h *c14Hasher) pin(c *boc.Cell) {
	if v, err := h.hd(c, map[*boc.Cell]c14HD{}); err == nil {
		h.memo[c] = v
	}
}

func (h *c14Hasher) hd(c *boc.Cell, local map[*boc.Cell]c14HD) (c14HD, error) {
	if v, ok := h.memo[c]; ok {
		return v, nil
	}
	if v, ok := local[c]; ok {
		return v, nil
	}
	var res c14HD
	bits := c14Bits(c)
	refs := c.Refs()
	exotic := 0
	switch c.CellType() {
	case boc.OrdinaryCell:
	case boc.LibraryCell:
		if len(bits) != 8+256 || len(refs) != 0 || c14U(bits[:8]) != 2 {
			return res, fmt.Errorf("oracle: malformed library cell")
		}
		exotic = 8
	default:
		return res, fmt.Errorf("oracle: unexpected exotic cell type %d", c.CellType())
	}
	nb := len(bits)
	if nb > 1023 || len(refs) > 4 {
		return res, fmt.Errorf("oracle: cell with %d bits / %d refs", nb, len(refs))
	}
	padded := bits
	if nb%8 != 0 {
		padded += "1" + strings.Repeat("0", 7-nb%8)
	}
	repr := []byte{byte(len(refs) + exotic), byte((nb+7)/8 + nb/8)}
	repr = append(repr, c14BitsBytes(padded)...)
	var hashes []byte
	for _, r := range refs {
		kv, err := h.hd(r, local)
		if err != nil {
			return res, err
		}
		repr = append(repr, byte(kv.depth>>8), byte(kv.depth))
		hashes = append(hashes, kv.hash[:]...)
		if kv.depth+1 > res.depth {
			res.depth = kv.depth + 1
		}
	}
	if res.depth > 1024 {
		return res, fmt.Errorf("oracle: depth exceeds 1024")
	}
	repr = append(repr, hashes...)
	res.hash = sha256.Sum256(repr)
	local[c] = res
	return res, nil
}

// hash returns the representation hash of the tree under c.
func (h *c14Hasher) hash(c *boc.Cell) ([32]byte, error) {
	v, err := h.hd(c, map[*boc.Cell]c14HD{})
	return v.hash, err
}

func (h *c14Hasher) mustHash(c *boc.Cell) [32]byte {
	v, err := h.hash(c)
	if err != nil {
		panic(err)
	}
	return v
}

// ---- hand parsers of messages (block.tlb) -------------------------------------------------------------------------

type c14Reader struct {
	bits string
	refs []*boc.Cell
	pos  int
	rpos int
}

func newC14Reader(c *boc.Cell) *c14Reader { return &c14Reader{bits: c14Bits(c), refs: c.Refs()} }

func (r *c14Reader) take(n int) (string, error) {
	if n < 0 || r.pos+n > len(r.bits) {
		return "", fmt.Errorf("cell too short: need %d bits at %d of %d", n, r.pos, len(r.bits))
	}
	s := r.bits[r.pos : r.pos+n]
	r.pos += n
	return s, nil
}

func (r *c14Reader) u(n int) (uint64, error) {
	s, err := r.take(n)
	if err != nil {
		return 0, err
	}
	return c14U(s), nil
}

func (r *c14Reader) ref() (*boc.Cell, error) {
	if r.rpos >= len(r.refs) {
		return nil, fmt.Errorf("missing reference %d", r.rpos)
	}
	c := r.refs[r.rpos]
	r.rpos++
	return c, nil
}

func (r *c14Reader) restBits() string { return r.bits[r.pos:] }
func (r *c14Reader) restRefs() []*boc.Cell {
	return r.refs[r.rpos:]
}
func (r *c14Reader) atEnd() bool { return r.pos == len(r.bits) && r.rpos == len(r.refs) }

// grams: VarUInteger 16 = len:(#< 16) value:(uint (len * 8)); only values below 2^64 are expected here.
func (r *c14Reader) grams() (uint64, error) {
	l, err := r.u(4)
	if err != nil {
		return 0, err
	}
	if l > 8 {
		return 0, fmt.Errorf("grams with %d bytes", l)
	}
	v, err := r.u(int(l) * 8)
	if err != nil {
		return 0, err
	}
	if l > 0 && v>>(8*(l-1)) == 0 {
		return 0, fmt.Errorf("grams %d is not in the shortest form (%d bytes)", v, l)
	}
	return v, nil
}

// addrStd: addr_std$10 anycast:(Maybe Anycast) workchain_id:int8 address:bits256 (anycast must be absent)
func (r *c14Reader) addrStd() (int8, [32]byte, error) {
	var a [32]byte
	tag, err := r.u(3)
	if err != nil {
		return 0, a, err
	}
	if tag != 4 { // 10 0
		return 0, a, fmt.Errorf("destination is not addr_std without anycast (tag bits %03b)", tag)
	}
	wc, err := r.u(8)
	if err != nil {
		return 0, a, err
	}
	s, err := r.take(256)
	if err != nil {
		return 0, a, err
	}
	copy(a[:], c14BitsBytes(s))
	return int8(uint8(wc)), a, nil
}

// stateInitMaybe reads init:(Maybe (Either StateInit ^StateInit)) and returns the state-init as a cell (nil = absent).
func (r *c14Reader) stateInitMaybe() (*boc.Cell, error) {
	has, err := r.u(1)
	if err != nil {
		return nil, err
	}
	if has == 0 {
		return nil, nil
	}
	right, err := r.u(1)
	if err != nil {
		return nil, err
	}
	if right == 1 {
		return r.ref()
	}
	// inline: split_depth:(Maybe (## 5)) special:(Maybe TickTock) code:(Maybe ^Cell) data:(Maybe ^Cell) library:(HashmapE 256 SimpleLib)
	start := r.pos
	var refs []*boc.Cell
	if b, err := r.u(1); err != nil {
		return nil, err
	} else if b == 1 {
		if _, err := r.take(5); err != nil {
			return nil, err
		}
	}
	if b, err := r.u(1); err != nil {
		return nil, err
	} else if b == 1 {
		if _, err := r.take(2); err != nil {
			return nil, err
		}
	}
	for i := 0; i < 3; i++ {
		b, err := r.u(1)
		if err != nil {
			return nil, err
		}
		if b == 1 {
			c, err := r.ref()
			if err != nil {
				return nil, err
			}
			refs = append(refs, c)
		}
	}
	return c14Cell(r.bits[start:r.pos], refs...), nil
}

// bodyEither reads body:(Either X ^X) and returns it as a cell.
func (r *c14Reader) bodyEither() (*boc.Cell, bool, error) {
	right, err := r.u(1)
	if err != nil {
		return nil, false, err
	}
	if right == 1 {
		c, err := r.ref()
		if err != nil {
			return nil, true, err
		}
		if !r.atEnd() {
			return nil, true, fmt.Errorf("%d bits / %d refs left after the body reference", len(r.restBits()), len(r.restRefs()))
		}
		return c, true, nil
	}
	c := c14Cell(r.restBits(), r.restRefs()...)
	r.pos, r.rpos = len(r.bits), len(r.refs)
	return c, false, nil
}

// c14Ext is an external inbound message: ext_in_msg_info$10 src:MsgAddressExt dest:MsgAddressInt import_fee:Grams,
// init:(Maybe (Either StateInit ^StateInit)) body:(Either X ^X).
type c14Ext struct {
	wc        int8
	addr      [32]byte
	importFee uint64
	init      *boc.Cell
	body      *boc.Cell
}

func c14ParseExt(root *boc.Cell) (*c14Ext, error) {
	r := newC14Reader(root)
	tag, err := r.u(2)
	if err != nil {
		return nil, err
	}
	if tag != 2 {
		return nil, fmt.Errorf("not ext_in_msg_info$10 (tag %02b)", tag)
	}
	src, err := r.u(2)
	if err != nil {
		return nil, err
	}
	if src != 0 {
		return nil, fmt.Errorf("source is not addr_none$00")
	}
	m := &c14Ext{}
	if m.wc, m.addr, err = r.addrStd(); err != nil {
		return nil, err
	}
	if m.importFee, err = r.grams(); err != nil {
		return nil, err
	}
	if m.init, err = r.stateInitMaybe(); err != nil {
		return nil, err
	}
	if m.body, _, err = r.bodyEither(); err != nil {
		return nil, err
	}
	return m, nil
}

// c14Int is an internal message as a wallet sends it (MessageRelaxed): int_msg_info$0 ihr_disabled bounce bounced
// src:MsgAddress dest:MsgAddressInt value:CurrencyCollection ihr_fee fwd_fee created_lt:uint64 created_at:uint32.
type c14Int struct {
	ihrDisabled, bounce, bounced bool
	wc                           int8
	addr                         [32]byte
	amount                       uint64
	ihrFee, fwdFee               uint64
	createdLt                    uint64
	createdAt                    uint32
	init                         *boc.Cell
	body                         *boc.Cell
	bodyInRef                    bool
}

func c14ParseInt(root *boc.Cell) (*c14Int, error) {
	r := newC14Reader(root)
	flags, err := r.u(4)
	if err != nil {
		return nil, err
	}
	if flags&8 != 0 {
		return nil, fmt.Errorf("not int_msg_info$0")
	}
	m := &c14Int{ihrDisabled: flags&4 != 0, bounce: flags&2 != 0, bounced: flags&1 != 0}
	src, err := r.u(2)
	if err != nil {
		return nil, err
	}
	if src != 0 {
		return nil, fmt.Errorf("source is not addr_none$00")
	}
	if m.wc, m.addr, err = r.addrStd(); err != nil {
		return nil, err
	}
	if m.amount, err = r.grams(); err != nil {
		return nil, err
	}
	other, err := r.u(1)
	if err != nil {
		return nil, err
	}
	if other != 0 {
		return nil, fmt.Errorf("extra currencies present")
	}
	if m.ihrFee, err = r.grams(); err != nil {
		return nil, err
	}
	if m.fwdFee, err = r.grams(); err != nil {
		return nil, err
	}
	if m.createdLt, err = r.u(64); err != nil {
		return nil, err
	}
	at, err := r.u(32)
	if err != nil {
		return nil, err
	}
	m.createdAt = uint32(at)
	if m.init, err = r.stateInitMaybe(); err != nil {
		return nil, err
	}
	if m.body, m.bodyInRef, err = r.bodyEither(); err != nil {
		return nil, err
	}
	return m, nil
}

// c14Snake concatenates the data bits of a snake (tail in the first reference of every cell).
func c14Snake(c *boc.Cell, skip int) (string, []int, error) {
	var sb strings.Builder
	var chunks []int
	for depth := 0; ; depth++ {
		if depth > 1024 {
			return "", nil, fmt.Errorf("snake deeper than 1024")
		}
		bits := c14Bits(c)
		if skip > len(bits) {
			return "", nil, fmt.Errorf("snake head shorter than %d bits", skip)
		}
		sb.WriteString(bits[skip:])
		chunks = append(chunks, len(bits)-skip)
		skip = 0
		refs := c.Refs()
		if len(refs) == 0 {
			return sb.String(), chunks, nil
		}
		if len(refs) > 1 {
			return "", nil, fmt.Errorf("snake cell with %d refs", len(refs))
		}
		c = refs[0]
	}
}

// ---- dictionaries (HashmapE 16 X), from the TL-B schema -----------------------------------------------------------

type c14Leaf struct {
	key  string
	bits string
	refs []*boc.Cell
}

func c14LenBits(n int) int {
	k := 0
	for (1 << uint(k)) <= n {
		k++
	}
	return k
}

func c14ParseDict(c *boc.Cell, n int, prefix string, out *[]c14Leaf, depth int) error {
	if depth > 64 {
		return fmt.Errorf("dictionary deeper than its key length")
	}
	if c.CellType() != boc.OrdinaryCell {
		return fmt.Errorf("exotic cell inside a dictionary")
	}
	bits := c14Bits(c)
	refs := c.Refs()
	var label string
	k := c14LenBits(n)
	switch {
	case len(bits) >= 1 && bits[0] == '0': // hml_short$0 len:(Unary ~n) s:(n * Bit)
		i := 1
		for i < len(bits) && bits[i] == '1' {
			i++
		}
		if i >= len(bits) {
			return fmt.Errorf("unterminated unary label length")
		}
		l := i - 1
		if l > n || len(bits) < i+1+l {
			return fmt.Errorf("short label of %d bits does not fit (n=%d)", l, n)
		}
		label, bits = bits[i+1:i+1+l], bits[i+1+l:]
	case len(bits) >= 2 && bits[:2] == "10": // hml_long$10 n:(#<= m) s:(n * Bit)
		if len(bits) < 2+k {
			return fmt.Errorf("long label: cell too short")
		}
		l := int(c14U(bits[2 : 2+k]))
		if l > n || len(bits) < 2+k+l {
			return fmt.Errorf("long label of %d bits does not fit (n=%d)", l, n)
		}
		label, bits = bits[2+k:2+k+l], bits[2+k+l:]
	case len(bits) >= 2 && bits[:2] == "11": // hml_same$11 v:Bit n:(#<= m)
		if len(bits) < 3+k {
			return fmt.Errorf("same label: cell too short")
		}
		l := int(c14U(bits[3 : 3+k]))
		if l > n {
			return fmt.Errorf("same label of %d bits does not fit (n=%d)", l, n)
		}
		label, bits = strings.Repeat(bits[2:3], l), bits[3+k:]
	default:
		return fmt.Errorf("dictionary node without a label (%d bits)", len(bits))
	}
	m := n - len(label)
	if m == 0 {
		*out = append(*out, c14Leaf{key: prefix + label, bits: bits, refs: refs})
		return nil
	}
	if len(refs) != 2 || bits != "" {
		return fmt.Errorf("fork node at prefix %q has %d refs and %d extra bits", prefix+label, len(refs), len(bits))
	}
	for i, r := range refs {
		if err := c14ParseDict(r, m-1, prefix+label+strconv.Itoa(i), out, depth+1); err != nil {
			return err
		}
	}
	return nil
}

// ---- wallet bodies, from the contract sources ------------------------------------------------------------------------
//
//	v3 (wallet3-code.fc):       signature:bits512 subwallet_id:uint32 valid_until:uint32 msg_seqno:uint32 {mode:uint8 ^msg}*
//	v4 (wallet-v4-code.fc):     signature:bits512 subwallet_id:uint32 valid_until:uint32 msg_seqno:uint32 op:uint8 (0 = simple send)
//	                            {mode:uint8 ^msg}*                                       signed: hash of the slice after the signature
//	highload v2:                signature:bits512 subwallet_id:uint32 query_id:uint64 dict:(HashmapE 16 [mode:uint8 ^msg])
//	                            query_id >> 32 is the expiry time
//	v5r1 (wallet_v5.fc):        0x7369676e wallet_id:uint32 valid_until:uint32 msg_seqno:uint32 out_actions:(Maybe ^(OutList n))
//	                            has_other_actions:(## 1) ... signature:bits512           signed: hash of the slice before the signature
//	v5 beta:                    0x7369676e wallet_id:bits80 (network_global_id:int32 workchain:int8 version:uint8 subwallet:uint32)
//	                            valid_until:uint32 msg_seqno:uint32 action_list_basic$0 ^(OutList n) signature:bits512
//	OutList (block.tlb):        out_list_empty$_ = OutList 0; out_list$_ prev:^(OutList n) action:OutAction = OutList (n + 1)
//	                            action_send_msg#0ec3c86d mode:(## 8) out_msg:^(MessageRelaxed Any)
//	                            the list order is prev-first: the innermost node holds the FIRST action (the action phase
//	                            executes the innermost action first).

type c14Body struct {
	sig        []byte
	signedHash [32]byte
	walletID   string // bits (32, or 80 for v5 beta)
	validUntil uint32
	seqno      uint32 // not present for highload
	queryID    uint64 // highload only
	op         uint64 // v4 only
	modes      []byte // in execution order
	msgs       []*boc.Cell
	// v5 only: the same actions read from the outermost node inwards (= reverse execution order)
	outerFirstModes []byte
	outerFirstMsgs  []*boc.Cell
}

func c14Family(ver Version) string {
	switch ver {
	case V3R1, V3R2:
		return "v3"
	case V4R1, V4R2:
		return "v4"
	case V5Beta:
		return "v5beta"
	case V5R1:
		return "v5r1"
	case HighLoadV2R2:
		return "hl2"
	}
	return "other"
}

func c14ParseOutList(c *boc.Cell) (modes []byte, msgs []*boc.Cell, err error) {
	for n := 0; ; n++ {
		if n > 300 {
			return nil, nil, fmt.Errorf("out list longer than 300")
		}
		bits := c14Bits(c)
		refs := c.Refs()
		if len(refs) == 0 {
			if len(bits) != 0 {
				return nil, nil, fmt.Errorf("out list ends in a cell with %d bits", len(bits))
			}
			return modes, msgs, nil
		}
		if len(refs) != 2 || len(bits) != 40 {
			return nil, nil, fmt.Errorf("out list node %d has %d bits and %d refs (want 40 / 2)", n, len(bits), len(refs))
		}
		if tag := c14U(bits[:32]); tag != 0x0ec3c86d {
			return nil, nil, fmt.Errorf("out list node %d has tag %#x, want action_send_msg#0ec3c86d", n, tag)
		}
		modes = append(modes, byte(c14U(bits[32:])))
		msgs = append(msgs, refs[1])
		c = refs[0]
	}
}

// errC14EmptyDictRoot: a highload body announces a dictionary (bit 1 + reference) whose root is an empty cell. An empty
// HashmapE is the single bit 0 without a reference; a present root must start with a label.
var errC14EmptyDictRoot = errors.New("highload dictionary: the dictionary bit is 1 and the root reference is an empty cell (0 bits, 0 refs); " +
	"an empty HashmapE is the single bit 0 without a reference")

func c14ParseBody(h *c14Hasher, ver Version, body *boc.Cell) (*c14Body, error) {
	bits := c14Bits(body)
	refs := body.Refs()
	b := &c14Body{}
	var err error
	fam := c14Family(ver)
	switch fam {
	case "v3", "v4":
		head := 512 + 96
		if fam == "v4" {
			head += 8
		}
		if len(bits) != head+8*len(refs) {
			return nil, fmt.Errorf("%s body has %d bits and %d refs, want %d + 8 per message", fam, len(bits), len(refs), head)
		}
		b.sig = c14BitsBytes(bits[:512])
		b.walletID = bits[512:544]
		b.validUntil = uint32(c14U(bits[544:576]))
		b.seqno = uint32(c14U(bits[576:608]))
		if fam == "v4" {
			b.op = c14U(bits[608:616])
		}
		for i, r := range refs {
			b.modes = append(b.modes, byte(c14U(bits[head+8*i:head+8*i+8])))
			b.msgs = append(b.msgs, r)
		}
		b.signedHash, err = h.hash(c14Cell(bits[512:], refs...))
	case "hl2":
		if len(bits) != 512+32+64+1 {
			return nil, fmt.Errorf("highload body has %d bits, want 609", len(bits))
		}
		b.sig = c14BitsBytes(bits[:512])
		b.walletID = bits[512:544]
		b.queryID = c14U(bits[544:608])
		b.validUntil = uint32(b.queryID >> 32)
		if bits[608] == '1' {
			if len(refs) != 1 {
				return nil, fmt.Errorf("highload body with a dictionary bit and %d refs", len(refs))
			}
			if refs[0].BitSize() == 0 && len(refs[0].Refs()) == 0 {
				return nil, errC14EmptyDictRoot
			}
			var leaves []c14Leaf
			if err := c14ParseDict(refs[0], 16, "", &leaves, 0); err != nil {
				return nil, fmt.Errorf("highload dictionary: %v", err)
			}
			for i, l := range leaves {
				if int(c14U(l.key)) != i {
					return nil, fmt.Errorf("highload dictionary: entry %d has key %d (keys must be 0..n-1 in order)", i, c14U(l.key))
				}
				if len(l.bits) != 8 || len(l.refs) != 1 {
					return nil, fmt.Errorf("highload dictionary: value %d has %d bits / %d refs, want 8 / 1", i, len(l.bits), len(l.refs))
				}
				b.modes = append(b.modes, byte(c14U(l.bits)))
				b.msgs = append(b.msgs, l.refs[0])
			}
		} else if len(refs) != 0 {
			return nil, fmt.Errorf("highload body without a dictionary bit and %d refs", len(refs))
		}
		b.signedHash, err = h.hash(c14Cell(bits[512:], refs...))
	case "v5r1", "v5beta":
		idBits := 32
		if fam == "v5beta" {
			idBits = 80
		}
		fixed := 32 + idBits + 64
		var list *boc.Cell
		if fam == "v5r1" {
			if len(bits) != fixed+2+512 {
				return nil, fmt.Errorf("v5r1 body has %d bits, want %d", len(bits), fixed+2+512)
			}
			if bits[fixed+1] != '0' {
				return nil, fmt.Errorf("v5r1 body announces extended actions")
			}
			if bits[fixed] == '1' {
				if len(refs) != 1 {
					return nil, fmt.Errorf("v5r1 body with out_actions present and %d refs", len(refs))
				}
				list = refs[0]
			} else if len(refs) != 0 {
				return nil, fmt.Errorf("v5r1 body without out_actions and %d refs", len(refs))
			}
		} else {
			if len(bits) != fixed+1+512 {
				return nil, fmt.Errorf("v5 beta body has %d bits, want %d", len(bits), fixed+1+512)
			}
			if bits[fixed] != '0' {
				return nil, fmt.Errorf("v5 beta body is not action_list_basic$0")
			}
			if len(refs) != 1 {
				return nil, fmt.Errorf("v5 beta body with %d refs, want 1", len(refs))
			}
			list = refs[0]
		}
		if op := c14U(bits[:32]); op != 0x7369676e {
			return nil, fmt.Errorf("v5 body opcode %#x, want 0x7369676e", op)
		}
		b.walletID = bits[32 : 32+idBits]
		b.validUntil = uint32(c14U(bits[32+idBits : 64+idBits]))
		b.seqno = uint32(c14U(bits[64+idBits : 96+idBits]))
		b.sig = c14BitsBytes(bits[len(bits)-512:])
		if list != nil {
			if b.outerFirstModes, b.outerFirstMsgs, err = c14ParseOutList(list); err != nil {
				return nil, err
			}
			for i := len(b.outerFirstMsgs) - 1; i >= 0; i-- {
				b.modes = append(b.modes, b.outerFirstModes[i])
				b.msgs = append(b.msgs, b.outerFirstMsgs[i])
			}
		}
		b.signedHash, err = h.hash(c14Cell(bits[:len(bits)-512], refs...))
	default:
		return nil, fmt.Errorf("oracle: no body layout for version %v", ver)
	}
	if err != nil {
		return nil, err
	}
	return b, nil
}

func (b *c14Body) verify(pub ed25519.PublicKey) bool {
	return ed25519.Verify(pub, b.signedHash[:], b.sig)
}

// c14WalletIDBits is the wallet / sub-wallet id the contract of the version stores, from the requested options.
//
//	v3 / v4 / highload: sub-wallet id, default 698983191 + workchain
//	v5r1: network_global_id XOR context, context = 1:1 workchain:int8 wallet_version:uint8(0) subwallet_number:uint15
//	v5 beta: network_global_id:int32 workchain:int8 version:uint8(0) subwallet:uint32 (default 0)
//
// subNumberV5R1 is the 15-bit subwallet number (the library has no option for it: callers pass 0).
func c14WalletIDBits(ver Version, wc int, sub *uint32, net *int32, subNumberV5R1 uint32) string {
	network := int32(-239)
	if net != nil {
		network = *net
	}
	switch c14Family(ver) {
	case "v3", "v4", "hl2":
		id := uint32(int64(698983191) + int64(wc))
		if sub != nil {
			id = *sub
		}
		return c14UBits(uint64(id), 32)
	case "v5r1":
		ctx := uint32(1)<<31 | uint32(uint8(int8(wc)))<<23 | (subNumberV5R1 & 0x7fff)
		return c14UBits(uint64(ctx^uint32(network)), 32)
	case "v5beta":
		s := uint32(0)
		if sub != nil {
			s = *sub
		}
		return c14UBits(uint64(uint32(network)), 32) + c14UBits(uint64(uint8(int8(wc))), 8) + c14UBits(0, 8) + c14UBits(uint64(s), 32)
	}
	return ""
}

// c14DataBits is the persistent data of a freshly deployed wallet with the given seqno (from the contract sources).
//
//	v1 / v2:   seqno:uint32 public_key:bits256
//	v3:        seqno:uint32 subwallet_id:uint32 public_key:bits256
//	v4:        seqno:uint32 subwallet_id:uint32 public_key:bits256 plugins:(HashmapE 264 ...)
//	v5r1:      is_signature_allowed:(## 1) seqno:uint32 wallet_id:uint32 public_key:bits256 extensions:(HashmapE 256 int1)
//	v5 beta:   seqno:(## 33) wallet_id:bits80 public_key:bits256 extensions:(HashmapE 256 int8)
//	highload v2: subwallet_id:uint32 last_cleaned:uint64 public_key:bits256 old_queries:(HashmapE 64 ...)
func c14DataBits(ver Version, pub ed25519.PublicKey, wc int, sub *uint32, net *int32, seqno uint64) string {
	pk := c14BytesBits(pub)
	id := c14WalletIDBits(ver, wc, sub, net, 0)
	switch ver {
	case V1R1, V1R2, V1R3, V2R1, V2R2:
		return c14UBits(seqno, 32) + pk
	case V3R1, V3R2:
		return c14UBits(seqno, 32) + id + pk
	case V4R1, V4R2:
		return c14UBits(seqno, 32) + id + pk + "0"
	case V5R1:
		return "1" + c14UBits(seqno, 32) + id + pk + "0"
	case V5Beta:
		return c14UBits(seqno, 33) + id + pk + "0"
	case HighLoadV2R2:
		return id + c14UBits(0, 64) + pk + "0"
	}
	panic("oracle: no data layout for version")
}

// c14StateInitCell: split_depth:(Maybe (## 5))=0 special:(Maybe TickTock)=0 code:(Maybe ^Cell)=1 data:(Maybe ^Cell)=1
// library:(HashmapE 256 SimpleLib)=0.
func c14StateInitCell(code, data *boc.Cell) *boc.Cell { return c14Cell("00110", code, data) }

// c14Key derives a deterministic key pair.
func c14Key(rng *rand.Rand) (ed25519.PrivateKey, ed25519.PublicKey) {
	seed := make([]byte, ed25519.SeedSize)
	rng.Read(seed)
	priv := ed25519.NewKeyFromSeed(seed)
	return priv, priv.Public().(ed25519.PublicKey)
}

func c14HexBytes(b []byte) string { return hex.EncodeToString(b) }

func c14RandBits(rng *rand.Rand, n int) string {
	out := make([]byte, n)
	for i := range out {
		out[i] = '0' + byte(rng.Intn(2))
	}
	return string(out)
}

// c14RandCell builds a random ordinary cell tree of depth <= d with up to 4 refs per cell.
func c14RandCell(rng *rand.Rand, d int) *boc.Cell {
	nb := []int{0, 1, 7, 8, 9, 32, 267, 1023}[rng.Intn(8)]
	if rng.Intn(3) == 0 {
		nb = rng.Intn(300)
	}
	var refs []*boc.Cell
	if d > 0 {
		for i := rng.Intn(5); i > 0; i-- {
			refs = append(refs, c14RandCell(rng, d-1))
		}
	}
	return c14Cell(c14RandBits(rng, nb), refs...)
}

// c14Opts are the requested wallet options of a case.
type c14Opts struct {
	wc  int
	sub *uint32
	net *int32
}

func (o c14Opts) options() []Option {
	out := []Option{WithWorkchain(o.wc)}
	if o.sub != nil {
		out = append(out, WithSubWalletID(*o.sub))
	}
	if o.net != nil {
		out = append(out, WithNetworkGlobalID(*o.net))
	}
	return out
}

func (o c14Opts) String() string {
	s := fmt.Sprintf("wc=%d", o.wc)
	if o.sub != nil {
		s += fmt.Sprintf(" sub=%d", *o.sub)
	} else {
		s += " sub=default"
	}
	if o.net != nil {
		s += fmt.Sprintf(" net=%d", *o.net)
	} else {
		s += " net=default"
	}
	return s
}

// c14SameMsgs / c14SameCells compare a list of (message, mode) with the requested hashes and modes, in order.
func c14SameMsgs(h *c14Hasher, got []RawMessage, wantHashes [][32]byte, wantModes []byte) string {
	if len(got) != len(wantHashes) {
		return fmt.Sprintf("%d messages, want %d", len(got), len(wantHashes))
	}
	for i, m := range got {
		if m.Message == nil {
			return fmt.Sprintf("message %d is nil", i)
		}
		hh, err := h.hash(m.Message)
		if err != nil {
			return fmt.Sprintf("message %d: %v", i, err)
		}
		if hh != wantHashes[i] {
			return fmt.Sprintf("message %d has hash %x, want %x", i, hh, wantHashes[i])
		}
		if m.Mode != wantModes[i] {
			return fmt.Sprintf("message %d has mode %d, want %d", i, m.Mode, wantModes[i])
		}
	}
	return ""
}

func c14SameCells(h *c14Hasher, got []*boc.Cell, gotModes []byte, wantHashes [][32]byte, wantModes []byte) string {
	raw := make([]RawMessage, len(got))
	for i := range got {
		raw[i] = RawMessage{Message: got[i], Mode: gotModes[i]}
	}
	return c14SameMsgs(h, raw, wantHashes, wantModes)
}
