//go:build verif

package wallet

// Bounded stand-in for C14 (labelled bounded, never counted as proved).
// Stands in for: "the signed external message a wallet builds carries exactly the requested transfers under a signature
// that only the wallet's key verifies", which the prover cannot establish (reflective TL-B encoder, SHA-256, ed25519).
//
// Bound (quick tier):
//   versions V3R1 V3R2 V4R1 V4R2 V5Beta V5R1 HighLoadV2R2
//   x message counts {0, 1, 2, max, max+1}  (body builder: max = 4 / 4 / 255 / 255 / 254 - the contract limits, the 255
//     of v5 being the TVM action list limit; send path: max = the library's own maxMessageNumber())
//   x (seqno, valid-until) pairs over {0, 1, 2^31-1, 2^31, 2^32-2, 2^32-1} (seqno = v[j], valid-until = v[(5-j+m) mod 6] for the m-th mode list)
//   x base send modes {0, 1, 3, 128, 255} (message i of a case gets mode[(base+i) mod 5], so that order is observable)
//   x 4 key pairs, workchains {0,-1}, sub-wallet ids {default,0,1,0xffffffff}, network ids {default,-239,-3}
//     rotated over the cases (thorough: every case with 2 keys, every bit flipped instead of every 8th; bodies with
//     more than 4 messages: every 64th / 8th bit, their root cell has the same layout as the small ones).
//   Messages come from a pool of 256 distinct transfers (see TestVerifStandin_C14_TransferEncoding): SimpleTransfer
//   with comments of 0 / 1 / 123 / 1000 bytes, Message with no / empty / small / ref-heavy random body, optional
//   state-init, bounce on/off, amounts 0, 1, 10^9*i, 2^63+i, 2^64-1-i.
// Oracle: the body layouts of the wallet contracts (see c14_helper_test.go), parsed by hand from the cell's bits and
// refs; an independent representation hash; crypto/ed25519 over that hash. The library's own decoders
// (VerifySignature, SignedMsgBody.Verify, MessageV5VerifySignature, Decode*, ExtractRawMessages) are then compared
// against the request as well: they must return the requested messages and modes in the requested order.
//
// What fails a test is a violation of the property as stated; observations that are stricter than it are logged as
// "INFO c14 <name>: N cases, first: ..." and never fail:
//   v5_outlist_order_reversed      the hand parser accepts the requested actions in either nesting order of the v5 out
//                                  list (the property is about what decoding returns) and logs which one was seen
//   body_builder_accepts_overlimit only a *send* (RawSendV2) with more than the allowed messages must be refused
//   comment_snake_not_byte_aligned long comments are split at a bit boundary, not a byte boundary
// Every failure lands in a sub-test rc_<cause>; the causes listed in the test are always run, anything else (a panic in a
// specific entry point, a send-path variant of a body check, ...) gets its own rc_ name.

import (
	"context"
	"crypto/ed25519"
	"crypto/sha256"
	"errors"
	"fmt"
	"strings"
	"testing"
	"time"

	"github.com/tonkeeper/tongo/boc"
	"github.com/tonkeeper/tongo/tlb"
	"github.com/tonkeeper/tongo/ton"
)

type c14PoolEntry struct {
	idx     int
	simple  bool
	mk      func(mode byte) Sendable
	bounce  bool
	dest    ton.AccountID
	amount  uint64
	comment string
	hasBody bool
	body    *boc.Cell
	code    *boc.Cell
	data    *boc.Cell
	cell    *boc.Cell // the internal message as tlb.Marshal(ToInternal()) produces it (what CreateMessageBody embeds)
	hash    [32]byte  // reference hash of cell
}

func c14Comment(rng interface{ Intn(int) int }, n int) string {
	const alphabet = "abcdefghijklmnopqrstuvwxyzABCDEFGHIJKLMNOPQRSTUVWXYZ0123456789 .,-"
	var sb strings.Builder
	for i := 0; i < n; i++ {
		sb.WriteByte(alphabet[rng.Intn(len(alphabet))])
	}
	return sb.String()
}

// c14BuildPool builds 256 distinct transfers.
func c14BuildPool(h *c14Hasher) ([]*c14PoolEntry, error) {
	rng := c14Rng(14)
	var pool []*c14PoolEntry
	for i := 0; i < 256; i++ {
		e := &c14PoolEntry{idx: i}
		sum := sha256.Sum256([]byte(fmt.Sprintf("c14 destination %d", i)))
		e.dest = ton.AccountID{Workchain: int32(-(i % 2)), Address: sum}
		switch i % 8 {
		case 0:
			e.simple, e.bounce, e.amount, e.comment = true, false, 0, ""
		case 1:
			e.simple, e.bounce, e.amount, e.comment = true, true, 1, c14Comment(rng, 1)
		case 2:
			e.simple, e.bounce, e.amount, e.comment = true, false, 1<<63+uint64(i), c14Comment(rng, 123)
		case 3:
			e.simple, e.bounce, e.amount, e.comment = true, true, 1000000000*uint64(i), c14Comment(rng, 1000)
		case 4:
			e.bounce, e.amount = false, ^uint64(0)-uint64(i)
		case 5:
			e.bounce, e.amount, e.hasBody, e.body = true, uint64(i), true, boc.NewCell()
		case 6:
			e.bounce, e.amount, e.hasBody = false, 1, true
			e.body = c14Cell(c14UBits(0x5fcc3d14, 32) + c14UBits(uint64(i)*0x9e3779b97f4a7c15, 64))
			e.code = c14RandCell(rng, 2)
			e.data = c14RandCell(rng, 1)
		case 7:
			e.bounce, e.amount, e.hasBody = true, 0, true
			e.body = c14RandCell(rng, 3)
			if i%16 == 7 {
				e.code = c14RandCell(rng, 1)
				e.data = c14Cell("")
			}
		}
		ee := e
		if e.simple {
			e.mk = func(mode byte) Sendable {
				return SimpleTransfer{Amount: tlb.Grams(ee.amount), Address: ee.dest, Comment: ee.comment, Bounceable: ee.bounce}
			}
		} else {
			e.mk = func(mode byte) Sendable {
				m := Message{Amount: tlb.Grams(ee.amount), Address: ee.dest, Bounce: ee.bounce, Mode: mode, Code: ee.code, Data: ee.data}
				if ee.hasBody {
					m.Body = ee.body
				}
				return m
			}
		}
		var perr error
		if p := c14Safe(func() {
			msg, _, err := e.mk(3).ToInternal()
			if err != nil {
				perr = err
				return
			}
			c := boc.NewCell()
			if err := tlb.Marshal(c, msg); err != nil {
				perr = err
				return
			}
			e.cell = c
		}); p != "" {
			return nil, fmt.Errorf("pool entry %d: panic while building the internal message: %s", i, p)
		}
		if perr != nil {
			return nil, fmt.Errorf("pool entry %d: %v", i, perr)
		}
		hh, err := h.hash(e.cell)
		if err != nil {
			return nil, fmt.Errorf("pool entry %d: %v", i, err)
		}
		e.hash = hh
		h.pin(e.cell)
		pool = append(pool, e)
	}
	return pool, nil
}

func (e *c14PoolEntry) describe() string {
	return fmt.Sprintf("pool[%d] simple=%v bounce=%v dest=%s amount=%d comment_len=%d hasBody=%v init=%v", e.idx, e.simple, e.bounce,
		e.dest.ToRaw(), e.amount, len(e.comment), e.hasBody, e.code != nil)
}

// TestVerifStandin_C14_TransferEncoding checks every pool transfer against block.tlb by hand: the internal message cell
// the wallet embeds encodes exactly the requested destination, amount, bounce flag, body / comment and state-init.
func TestVerifStandin_C14_TransferEncoding(t *testing.T) {
	h := newC14Hasher()
	stat := newC14Stat("c14_transfer_encoding")
	defer stat.print()
	fails := newC14Failures("rc_transfer_encoding", "rc_transfer_panic", "rc_pool_build")
	info := newC14Info("c14", "comment_snake_not_byte_aligned")
	pool, err := c14BuildPool(h)
	if err != nil {
		fails.add("rc_pool_build", "cannot build the transfer pool (ToInternal / tlb.Marshal): %v", err)
		fails.report(t)
		return
	}
	for _, e := range pool {
		stat.add(fmt.Sprint(e.idx))
		bad := func(format string, args ...any) {
			fails.add("rc_transfer_encoding", "%s: %s (message cell %s)", e.describe(), fmt.Sprintf(format, args...), c14Hex(e.cell))
		}
		var m *c14Int
		var perr error
		if p := c14Safe(func() { m, perr = c14ParseInt(e.cell) }); p != "" {
			fails.add("rc_transfer_panic", "%s: oracle panic %s", e.describe(), p)
			continue
		}
		if perr != nil {
			bad("not an internal message by block.tlb: %v", perr)
			continue
		}
		if !m.ihrDisabled || m.bounced || m.bounce != e.bounce {
			bad("flags ihr_disabled=%v bounce=%v bounced=%v", m.ihrDisabled, m.bounce, m.bounced)
		}
		if int32(m.wc) != e.dest.Workchain || m.addr != [32]byte(e.dest.Address) {
			bad("destination %d:%x", m.wc, m.addr)
		}
		if m.amount != e.amount {
			bad("amount %d", m.amount)
		}
		if m.ihrFee != 0 || m.fwdFee != 0 || m.createdLt != 0 || m.createdAt != 0 {
			bad("fees / created fields are not zero: %d %d %d %d", m.ihrFee, m.fwdFee, m.createdLt, m.createdAt)
		}
		if (e.code != nil) != (m.init != nil) {
			bad("state-init present=%v, requested=%v", m.init != nil, e.code != nil)
		} else if e.code != nil {
			want := h.mustHash(c14StateInitCell(e.code, e.data))
			got, err := h.hash(m.init)
			if err != nil || got != want {
				bad("state-init hash %x (%v), want %x", got, err, want)
			}
		}
		got, err := h.hash(m.body)
		if err != nil {
			bad("body: %v", err)
			continue
		}
		switch {
		case e.simple && e.comment == "":
			if got != h.mustHash(c14Cell("")) {
				bad("body of a transfer without comment is not empty")
			}
		case e.simple:
			bits, chunks, err := c14Snake(m.body, 0)
			if err != nil {
				bad("comment body: %v", err)
				break
			}
			if len(bits) < 32 || c14U(bits[:32]) != 0 {
				bad("comment body does not start with the 32-bit tag 0")
				break
			}
			if len(bits)%8 != 0 {
				bad("comment body has %d bits", len(bits))
				break
			}
			if s := string(c14BitsBytes(bits[32:])); s != e.comment {
				bad("comment %q, want %q", s, e.comment)
			}
			for _, n := range chunks[:len(chunks)-1] {
				if n%8 != 0 {
					info.add("comment_snake_not_byte_aligned", "%s: snake chunks of %v bits (tlb.SnakeData fills 1023 bits per cell; readers that load whole "+
						"bytes per cell, e.g. @ton/core readString, refuse such chains)", e.describe(), chunks)
					break
				}
			}
		case !e.hasBody:
			if got != h.mustHash(c14Cell("")) {
				bad("body of a message without body is not empty")
			}
		default:
			if want := h.mustHash(e.body); got != want {
				bad("body hash %x, want %x", got, want)
			}
		}
	}
	info.report(t)
	fails.report(t)
}

// c14Wrap puts a body into an external inbound message for addr, the way RawSendV2 does.
func c14Wrap(addr ton.AccountID, body *boc.Cell) (*boc.Cell, error) {
	msg, err := ton.CreateExternalMessage(addr, body, nil, tlb.VarUInteger16{})
	if err != nil {
		return nil, err
	}
	c := boc.NewCell()
	if err := tlb.Marshal(c, msg); err != nil {
		return nil, err
	}
	return c, nil
}

// c14LibVerify verifies the external message ext (body cell: body) with every verification entry point the library
// offers for the version; nil = all accept, otherwise the first rejection.
func c14LibVerify(ver Version, ext, body *boc.Cell, pub ed25519.PublicKey, skipVerifySignature bool) (err error, panicMsg string) {
	panicMsg = c14Safe(func() {
		if !skipVerifySignature {
			ext.ResetCounters()
			if e := VerifySignature(ver, ext, pub); e != nil {
				err = fmt.Errorf("VerifySignature: %w", e)
				return
			}
		}
		switch c14Family(ver) {
		case "v5r1", "v5beta":
			b := *body
			b.ResetCounters()
			if e := MessageV5VerifySignature(b, pub); e != nil {
				err = fmt.Errorf("MessageV5VerifySignature: %w", e)
			}
		default:
			b := *body
			b.ResetCounters()
			var sb SignedMsgBody
			if e := tlb.Unmarshal(&b, &sb); e != nil {
				err = fmt.Errorf("unmarshal SignedMsgBody: %w", e)
				return
			}
			if e := sb.Verify(pub); e != nil {
				err = fmt.Errorf("SignedMsgBody.Verify: %w", e)
			}
		}
	})
	return
}

// c14LibRejects: every verification entry point must reject (error); returns the name of one that accepted.
//
// only: 0 = all entry points, 1 = VerifySignature only (when available), 2 = the direct body verifier only.
func c14LibRejects(ver Version, ext, body *boc.Cell, pub ed25519.PublicKey, skipVerifySignature bool, only int) (accepted string, panicMsg string) {
	panicMsg = c14Safe(func() {
		if !skipVerifySignature && only != 2 {
			ext.ResetCounters()
			if e := VerifySignature(ver, ext, pub); e == nil {
				accepted = "VerifySignature"
				return
			}
			if only == 1 {
				return
			}
		}
		switch c14Family(ver) {
		case "v5r1", "v5beta":
			b := *body
			b.ResetCounters()
			if e := MessageV5VerifySignature(b, pub); e == nil {
				accepted = "MessageV5VerifySignature"
			}
		default:
			b := *body
			b.ResetCounters()
			var sb SignedMsgBody
			if e := tlb.Unmarshal(&b, &sb); e != nil {
				return // cannot even be decoded: rejected
			}
			if e := sb.Verify(pub); e == nil {
				accepted = "SignedMsgBody.Verify"
			}
		}
	})
	return
}

type c14Decoded struct {
	walletID   string
	validUntil uint32
	seqno      uint32
	hasSeqno   bool
	op         int64
	msgs       []RawMessage
}

// c14LibDecode decodes ext with the library's decoder for the version.
func c14LibDecode(ver Version, ext *boc.Cell) (*c14Decoded, error) {
	ext.ResetCounters()
	d := &c14Decoded{hasSeqno: true}
	switch c14Family(ver) {
	case "v3":
		m, err := DecodeMessageV3(ext)
		if err != nil {
			return nil, err
		}
		d.walletID, d.validUntil, d.seqno, d.msgs = c14UBits(uint64(m.SubWalletId), 32), m.ValidUntil, m.Seqno, m.RawMessages
	case "v4":
		m, err := DecodeMessageV4(ext)
		if err != nil {
			return nil, err
		}
		d.walletID, d.validUntil, d.seqno, d.msgs, d.op = c14UBits(uint64(m.SubWalletId), 32), m.ValidUntil, m.Seqno, m.RawMessages, int64(m.Op)
	case "v5r1":
		m, err := DecodeMessageV5(ext)
		if err != nil {
			return nil, err
		}
		if m.SumType != "SignedExternal" || m.SignedExternal == nil {
			return nil, fmt.Errorf("decoded as %q", m.SumType)
		}
		if m.SignedExternal.ExtendedActions != nil {
			return nil, fmt.Errorf("decoded extended actions that were never requested")
		}
		d.walletID, d.validUntil, d.seqno = c14UBits(uint64(m.SignedExternal.WalletId), 32), m.SignedExternal.ValidUntil, m.SignedExternal.Seqno
		d.msgs = m.RawMessages()
	case "v5beta":
		m, err := DecodeMessageV5Beta(ext)
		if err != nil {
			return nil, err
		}
		if m.SumType != "SignedExternal" {
			return nil, fmt.Errorf("decoded as %q", m.SumType)
		}
		d.walletID, d.validUntil, d.seqno = c14BytesBits(m.SignedExternal.WalletId[:]), m.SignedExternal.ValidUntil, m.SignedExternal.Seqno
		if m.SignedExternal.Op {
			return nil, fmt.Errorf("decoded op bit 1")
		}
		d.msgs = m.RawMessages()
	case "hl2":
		m, err := DecodeHighloadV2Message(ext)
		if err != nil {
			return nil, err
		}
		d.walletID, d.validUntil, d.msgs, d.hasSeqno = c14UBits(uint64(m.SubWalletId), 32), uint32(m.BoundedQueryID>>32), m.RawMessages, false
	default:
		return nil, fmt.Errorf("no decoder")
	}
	return d, nil
}

// c14CheckBody compares a body (parsed by the spec) with the request; returns (cause, message) or ("", "").
// For v5 the requested actions are accepted in either nesting order of the out list (the property is about what the
// library's decoders return); order is "first-innermost" (block.tlb list order = execution order), "first-outermost"
// (the reverse) or "" when the two cannot be told apart.
func c14CheckBody(h *c14Hasher, ver Version, body *boc.Cell, pub, wrongPub ed25519.PublicKey, wantID string, wantValid, wantSeqno uint32,
	wantHashes [][32]byte, wantModes []byte) (cause string, msg string, pb *c14Body, order string) {
	var perr error
	if p := c14Safe(func() { pb, perr = c14ParseBody(h, ver, body) }); p != "" {
		return "rc_oracle_panic", "oracle panic: " + p, nil, ""
	}
	fam := c14Family(ver)
	if perr != nil {
		if fam == "hl2" && len(wantHashes) == 0 && errors.Is(perr, errC14EmptyDictRoot) {
			return "rc_highload_zero_messages_malformed_dict", perr.Error(), nil, ""
		}
		return "rc_spec_layout", perr.Error(), nil, ""
	}
	if pb.walletID != wantID {
		return "rc_spec_fields", fmt.Sprintf("wallet id bits %s, want %s", pb.walletID, wantID), pb, ""
	}
	if pb.validUntil != wantValid {
		return "rc_spec_fields", fmt.Sprintf("valid_until %d, want %d", pb.validUntil, wantValid), pb, ""
	}
	if fam != "hl2" && pb.seqno != wantSeqno {
		return "rc_spec_fields", fmt.Sprintf("seqno %d, want %d", pb.seqno, wantSeqno), pb, ""
	}
	if fam == "v4" && pb.op != 0 {
		return "rc_spec_fields", fmt.Sprintf("v4 op %d, want 0 (simple send)", pb.op), pb, ""
	}
	if !pb.verify(pub) {
		return "rc_signature_spec", fmt.Sprintf("ed25519 does not verify the signature %x over the signed part's hash %x with the wallet's key", pb.sig, pb.signedHash), pb, ""
	}
	if pb.verify(wrongPub) {
		return "rc_signature_spec", "ed25519 verifies the signature with a foreign key", pb, ""
	}
	d := c14SameCells(h, pb.msgs, pb.modes, wantHashes, wantModes)
	if fam == "v5r1" || fam == "v5beta" {
		dOuter := c14SameCells(h, pb.outerFirstMsgs, pb.outerFirstModes, wantHashes, wantModes)
		switch {
		case d == "" && dOuter == "":
			return "", "", pb, ""
		case d == "":
			return "", "", pb, "first-innermost"
		case dOuter == "":
			return "", "", pb, "first-outermost"
		}
		return "rc_spec_fields", "messages (in neither nesting order of the out list); innermost first: " + d + "; outermost first: " + dOuter, pb, ""
	}
	if d != "" {
		return "rc_spec_fields", "messages: " + d, pb, ""
	}
	return "", "", pb, ""
}

func TestVerifStandin_C14_WalletMessages(t *testing.T) {
	thorough := c14Thorough()
	h := newC14Hasher()
	stat := newC14Stat("c14_wallet_messages")
	defer stat.print()
	// Always-run root causes. Any other failure gets its own name (rc_panic_<where>, rc_send_<what>, ...), see below.
	fails := newC14Failures(
		"rc_body_builder_error", "rc_spec_layout", "rc_spec_fields", "rc_signature_spec", "rc_oracle_panic",
		"rc_verify_right_key_rejected", "rc_verify_wrong_key_accepted",
		"rc_verify_signature_v5beta_unsupported", "rc_bitflip_accepted", "rc_bitflip_panic", "rc_decode_mismatch",
		"rc_panic_new", "rc_panic_create_message_body", "rc_panic_verify", "rc_panic_decode", "rc_panic_extract_raw_messages", "rc_panic_raw_send",
		"rc_wrap_external_message", "rc_pool_build",
		"rc_send_overlimit_not_refused", "rc_send_error", "rc_send_payload_format", "rc_send_destination", "rc_send_state_init",
		"rc_send_spec_layout", "rc_send_spec_fields", "rc_send_signature_spec",
		"rc_max_message_number", "rc_highload_zero_messages_malformed_dict")
	// Informational only (stricter than, or outside, the property as stated): never fail.
	info := newC14Info("c14", "v5_outlist_order_reversed", "v5_outlist_order_as_executed", "body_builder_accepts_overlimit")
	noteOrder := func(order, where string, n int, what string, c *boc.Cell) {
		switch order {
		case "first-outermost":
			if info.wants("v5_outlist_order_reversed") {
				info.add("v5_outlist_order_reversed", "%s n=%d (%s): the out list holds the requested actions in reverse nesting: request[0] sits in the outermost "+
					"node (the action phase executes it last), request[%d] in the innermost (executed first); the library's decoders return the requested order (%s)",
					where, n, what, n-1, c14Hex(c))
			} else {
				info.add("v5_outlist_order_reversed", "")
			}
		case "first-innermost":
			if info.wants("v5_outlist_order_as_executed") {
				info.add("v5_outlist_order_as_executed", "%s n=%d (%s): request[0] sits in the innermost node (executed first)", where, n, what)
			} else {
				info.add("v5_outlist_order_as_executed", "")
			}
		}
	}
	pool, err := c14BuildPool(h)
	if err != nil {
		fails.add("rc_pool_build", "cannot build the transfer pool (ToInternal / tlb.Marshal): %v", err)
		fails.report(t)
		return
	}
	rng := c14Rng(1400)
	nKeys := 4
	if thorough {
		nKeys = 2
	}
	type kp struct {
		priv ed25519.PrivateKey
		pub  ed25519.PublicKey
	}
	var keys []kp
	for i := 0; i < nKeys+1; i++ {
		priv, pub := c14Key(rng)
		keys = append(keys, kp{priv, pub})
	}
	versions := []Version{V3R1, V3R2, V4R1, V4R2, V5Beta, V5R1, HighLoadV2R2}
	contractMax := map[string]int{"v3": 4, "v4": 4, "v5beta": 255, "v5r1": 255, "hl2": 254}
	vals := []uint32{0, 1, 1<<31 - 1, 1 << 31, 1<<32 - 2, 1<<32 - 1}
	modes := []byte{0, 1, 3, 128, 255}
	u := func(v uint32) *uint32 { return &v }
	i32 := func(v int32) *int32 { return &v }
	subs := []*uint32{nil, u(0), u(1), u(0xffffffff)}
	nets := []*int32{nil, i32(-239), i32(-3)}
	flipStep := 8
	if thorough {
		flipStep = 1
	}
	ctx := context.Background()
	flips := 0

	caseIdx := 0
	for _, ver := range versions {
		fam := c14Family(ver)
		for countKind := 0; countKind < 5; countKind++ {
			for si := range vals {
				for mi := range modes {
					caseIdx++
					keyIdxs := []int{caseIdx % nKeys}
					if thorough {
						keyIdxs = []int{0, 1}
					}
					for _, ki := range keyIdxs {
						key, wrong := keys[ki], keys[ki+1]
						opts := c14Opts{wc: -(caseIdx % 2), sub: subs[(caseIdx/2)%4], net: nets[(caseIdx/8)%3]}
						// every seqno meets several valid-until values (a fixed pairing would pair seqno 0 with 2^32-1 only)
						seqno, validUntil := vals[si], vals[(5-si+mi)%len(vals)]
						wantID := c14WalletIDBits(ver, opts.wc, opts.sub, opts.net, 0)
						var w Wallet
						var werr error
						mock, sent := NewMockBlockchain(0, tlb.ShardAccount{})
						if p := c14Safe(func() { w, werr = New(key.priv, ver, mock, opts.options()...) }); p != "" || werr != nil {
							fails.add("rc_panic_new", "New(%v, %s): panic=%q err=%v", ver, opts, p, werr)
							continue
						}
						libMax := w.intWallet.maxMessageNumber()
						if libMax < 1 || libMax > contractMax[fam] {
							fails.add("rc_max_message_number", "%v: maxMessageNumber() = %d, the contract executes at most %d", ver, libMax, contractMax[fam])
						}
						where := fmt.Sprintf("ver=%s key_seed=%x %s seqno=%d valid_until=%d base_mode=%d", ver.ToString(), key.priv.Seed(), opts, seqno, validUntil, modes[mi])

						pick := func(n int) ([]Sendable, []RawMessage, [][32]byte, []byte, []byte) {
							var sendables []Sendable
							var raws []RawMessage
							var hashes [][32]byte
							var sendableModes, rawModes []byte
							off := (caseIdx * 7) % 256
							for i := 0; i < n; i++ {
								e := pool[(off+i)%256]
								mode := modes[(mi+i)%len(modes)]
								sendables = append(sendables, e.mk(mode))
								raws = append(raws, RawMessage{Message: e.cell, Mode: mode})
								hashes = append(hashes, e.hash)
								rawModes = append(rawModes, mode)
								if e.simple {
									mode = DefaultMessageMode // SimpleTransfer always asks for mode 3
								}
								sendableModes = append(sendableModes, mode)
							}
							return sendables, raws, hashes, sendableModes, rawModes
						}

						// ---------------- body builder (public CreateMessageBody) ----------------
						n := []int{0, 1, 2, contractMax[fam], contractMax[fam] + 1}[countKind]
						stat.add(fmt.Sprintf("build/%s/%d/%d/%d/%d/%s", ver.ToString(), n, si, mi, ki, opts))
						sendables, _, hashes, sModes, _ := pick(n)
						cfg := MessageConfig{Seqno: seqno, ValidUntil: time.Unix(int64(validUntil), 0), V5MsgType: V5MsgTypeSignedExternal}
						var body *boc.Cell
						var berr error
						if p := c14Safe(func() { body, berr = w.CreateMessageBody(cfg, sendables...) }); p != "" {
							fails.add("rc_panic_create_message_body", "%s: CreateMessageBody with %d messages panics: %s", where, n, p)
						} else if n > contractMax[fam] {
							// only a *send* with too many messages must be refused (RawSendV2, below); the body builder is informational
							if berr == nil {
								info.add("body_builder_accepts_overlimit", "%s: CreateMessageBody signs a body with %d messages (the %s contract executes at most %d); RawSendV2 refuses more than %d",
									where, n, fam, contractMax[fam], libMax)
							}
						} else if berr != nil || body == nil {
							fails.add("rc_body_builder_error", "%s: CreateMessageBody with %d messages: %v", where, n, berr)
						} else {
							cause, msg, _, order := c14CheckBody(h, ver, body, key.pub, wrong.pub, wantID, validUntil, seqno, hashes, sModes)
							if cause != "" {
								fails.add(cause, "%s n=%d: %s (body %s)", where, n, msg, c14Hex(body))
							}
							emptyDictRoot := cause == "rc_highload_zero_messages_malformed_dict"
							noteOrder(order, where, n, "CreateMessageBody", body)
							ext, err := c14Wrap(w.GetAddress(), body)
							if err != nil {
								fails.add("rc_wrap_external_message", "%s n=%d: cannot wrap the body: %v", where, n, err)
								continue
							}
							// right key / wrong key through the library
							skipVS := false
							if fam == "v5beta" {
								ext.ResetCounters()
								var e error
								if p := c14Safe(func() { e = VerifySignature(ver, ext, key.pub) }); p != "" {
									skipVS = true
									fails.add("rc_panic_verify", "%s n=%d: VerifySignature(V5Beta) panics: %s (message %s)", where, n, p, c14Hex(ext))
								} else if e != nil && strings.Contains(e.Error(), "not supported") {
									skipVS = true
									if fails.wants("rc_verify_signature_v5beta_unsupported") {
										fails.add("rc_verify_signature_v5beta_unsupported", "%s n=%d: VerifySignature(V5Beta, msg, wallet key): err=%v (message %s)", where, n, e, c14Hex(ext))
									} else {
										fails.add("rc_verify_signature_v5beta_unsupported", "")
									}
								}
								// any other error is reported by c14LibVerify below as rc_verify_right_key_rejected
							}
							if e, p := c14LibVerify(ver, ext, body, key.pub, skipVS); p != "" {
								fails.add("rc_panic_verify", "%s n=%d: verification panics: %s (message %s)", where, n, p, c14Hex(ext))
							} else if e != nil {
								fails.add("rc_verify_right_key_rejected", "%s n=%d: %v (message %s)", where, n, e, c14Hex(ext))
							}
							if acc, p := c14LibRejects(ver, ext, body, wrong.pub, skipVS, 0); p != "" {
								fails.add("rc_panic_verify", "%s n=%d: verification with a foreign key panics: %s (message %s)", where, n, p, c14Hex(ext))
							} else if acc != "" {
								fails.add("rc_verify_wrong_key_accepted", "%s n=%d: %s accepts the foreign key %x (message %s)", where, n, acc, []byte(wrong.pub), c14Hex(ext))
							}
							// library decoders
							var d *c14Decoded
							var derr error
							if p := c14Safe(func() { d, derr = c14LibDecode(ver, ext) }); p != "" {
								fails.add("rc_panic_decode", "%s n=%d: decoder panics: %s (message %s)", where, n, p, c14Hex(ext))
							} else if derr != nil && emptyDictRoot {
								fails.add("rc_highload_zero_messages_malformed_dict", "%s n=%d: the library's own DecodeHighloadV2Message fails on it: %v (message %s)", where, n, derr, c14Hex(ext))
							} else if derr != nil {
								fails.add("rc_decode_mismatch", "%s n=%d: decoder fails: %v (message %s)", where, n, derr, c14Hex(ext))
							} else {
								switch {
								case d.walletID != wantID:
									fails.add("rc_decode_mismatch", "%s n=%d: decoded wallet id %s, want %s", where, n, d.walletID, wantID)
								case d.validUntil != validUntil:
									fails.add("rc_decode_mismatch", "%s n=%d: decoded valid_until %d", where, n, d.validUntil)
								case d.hasSeqno && d.seqno != seqno:
									fails.add("rc_decode_mismatch", "%s n=%d: decoded seqno %d", where, n, d.seqno)
								case d.op != 0:
									fails.add("rc_decode_mismatch", "%s n=%d: decoded op %d", where, n, d.op)
								default:
									if s := c14SameMsgs(h, d.msgs, hashes, sModes); s != "" {
										fails.add("rc_decode_mismatch", "%s n=%d: decoded messages: %s (message %s)", where, n, s, c14Hex(ext))
									}
								}
							}
							var raws []RawMessage
							var rerr error
							ext.ResetCounters()
							if p := c14Safe(func() { raws, rerr = ExtractRawMessages(ver, ext) }); p != "" {
								fails.add("rc_panic_extract_raw_messages", "%s n=%d: ExtractRawMessages panics: %s (message %s)", where, n, p, c14Hex(ext))
							} else if rerr != nil && emptyDictRoot {
								fails.add("rc_highload_zero_messages_malformed_dict", "%s n=%d: the library's own ExtractRawMessages fails on it: %v (message %s)", where, n, rerr, c14Hex(ext))
							} else if rerr != nil {
								fails.add("rc_decode_mismatch", "%s n=%d: ExtractRawMessages: %v (message %s)", where, n, rerr, c14Hex(ext))
							} else if s := c14SameMsgs(h, raws, hashes, sModes); s != "" {
								fails.add("rc_decode_mismatch", "%s n=%d: ExtractRawMessages: %s (message %s)", where, n, s, c14Hex(ext))
							}
							// single-bit flips of the body's own bits (same refs), then of the first bit of its last reference
							bits := c14Bits(body)
							refs := body.Refs()
							tryFlip := func(what string, fb *boc.Cell) {
								flips++
								flipOnly := 1 + flips%2 // alternate between VerifySignature and the direct body verifier
								if thorough {
									flipOnly = 0
								}
								fext, err := c14Wrap(w.GetAddress(), fb)
								if err != nil {
									fails.add("rc_wrap_external_message", "%s n=%d %s: cannot wrap: %v", where, n, what, err)
									return
								}
								if acc, p := c14LibRejects(ver, fext, fb, key.pub, skipVS, flipOnly); p != "" {
									fails.add("rc_bitflip_panic", "%s n=%d %s: verification panics: %s (message %s)", where, n, what, p, c14Hex(fext))
								} else if acc != "" {
									fails.add("rc_bitflip_accepted", "%s n=%d %s: %s still accepts (message %s)", where, n, what, acc, c14Hex(fext))
								}
								if flips%4 == 0 {
									fext.ResetCounters()
									if p := c14Safe(func() { _, _ = ExtractRawMessages(ver, fext) }); p != "" {
										fails.add("rc_bitflip_panic", "%s n=%d %s: ExtractRawMessages panics: %s (message %s)", where, n, what, p, c14Hex(fext))
									}
								}
							}
							step := flipStep
							if n > 4 {
								step *= 8 // the root cell of a v5 / highload body has the same layout for every count
							} else if n == 2 && !thorough {
								step *= 2
							}
							for i := caseIdx % step; i < len(bits); i += step {
								tryFlip(fmt.Sprintf("bit %d of the body flipped", i), c14Cell(c14Flip(bits, i), refs...))
							}
							if len(refs) > 0 {
								last := refs[len(refs)-1]
								if lb := c14Bits(last); len(lb) > 0 {
									nrefs := append(append([]*boc.Cell{}, refs[:len(refs)-1]...), c14Cell(c14Flip(lb, 0), last.Refs()...))
									tryFlip("bit 0 of the body's last reference flipped", c14Cell(bits, nrefs...))
								}
							}
						}

						// ---------------- send path (RawSendV2 against the in-package mock) ----------------
						ns := []int{0, 1, 2, libMax, libMax + 1}[countKind]
						stat.add(fmt.Sprintf("send/%s/%d/%d/%d/%d/%s", ver.ToString(), ns, si, mi, ki, opts))
						_, raws, hashes, _, rModes := pick(ns)
						var init *tlb.StateInit
						if caseIdx%2 == 1 {
							init, _ = w.StateInit()
						}
						var serr error
						if p := c14Safe(func() { _, serr = w.RawSendV2(ctx, seqno, time.Unix(int64(validUntil), 0), raws, init, 0) }); p != "" {
							fails.add("rc_panic_raw_send", "%s: RawSendV2 with %d messages panics: %s", where, ns, p)
							continue
						}
						var payload []byte
						select {
						case payload = <-sent:
						default:
						}
						if ns > libMax {
							if serr == nil || payload != nil {
								fails.add("rc_send_overlimit_not_refused", "%s: RawSendV2 with %d messages (limit %d): err=%v, message sent=%v", where, ns, libMax, serr, payload != nil)
							}
							continue
						}
						if serr != nil || payload == nil {
							fails.add("rc_send_error", "%s: RawSendV2 with %d messages: err=%v, message sent=%v", where, ns, serr, payload != nil)
							continue
						}
						roots, err := boc.DeserializeBoc(payload)
						if err != nil || len(roots) != 1 {
							fails.add("rc_send_payload_format", "%s n=%d: payload is not a single-root BOC: %v (payload %x)", where, ns, err, payload)
							continue
						}
						var em *c14Ext
						var eerr error
						if p := c14Safe(func() { em, eerr = c14ParseExt(roots[0]) }); p != "" || eerr != nil {
							fails.add("rc_send_payload_format", "%s n=%d: payload is not an external inbound message: %v %s (payload %x)", where, ns, eerr, p, payload)
							continue
						}
						addr := w.GetAddress()
						if int32(em.wc) != addr.Workchain || em.addr != [32]byte(addr.Address) || em.importFee != 0 {
							fails.add("rc_send_destination", "%s n=%d: message addressed to %d:%x fee %d, wallet is %s", where, ns, em.wc, em.addr, em.importFee, addr.ToRaw())
						}
						if (em.init != nil) != (init != nil) {
							fails.add("rc_send_state_init", "%s n=%d: state-init attached=%v, passed=%v", where, ns, em.init != nil, init != nil)
						} else if em.init != nil {
							if ih, err := h.hash(em.init); err != nil || ih != [32]byte(addr.Address) {
								fails.add("rc_send_state_init", "%s n=%d: attached state-init hashes to %x (%v), the wallet address is %s", where, ns, ih, err, addr.ToRaw())
							}
						}
						cause, msg, _, order := c14CheckBody(h, ver, em.body, key.pub, wrong.pub, wantID, validUntil, seqno, hashes, rModes)
						if cause != "" {
							if cause != "rc_highload_zero_messages_malformed_dict" {
								cause = "rc_send_" + strings.TrimPrefix(cause, "rc_") // rc_send_spec_layout, rc_send_spec_fields, rc_send_signature_spec, ...
							}
							fails.add(cause, "%s n=%d (send path): %s (payload %s)", where, ns, msg, c14HexBytes(c14Trunc(payload)))
						}
						noteOrder(order, where, ns, "RawSendV2", em.body)
						roots[0].ResetCounters()
						if !(fam == "v5beta") {
							var e error
							if p := c14Safe(func() { e = VerifySignature(ver, roots[0], key.pub) }); p != "" || e != nil {
								fails.add("rc_verify_right_key_rejected", "%s n=%d (send path): VerifySignature: panic=%q err=%v (payload %s)", where, ns, p, e, c14HexBytes(c14Trunc(payload)))
							}
						}
					}
				}
			}
		}
	}
	t.Logf("bit flips tried: %d", flips)
	info.report(t)
	fails.report(t)
}

func c14Trunc(b []byte) []byte {
	if len(b) > 300 {
		return b[:300]
	}
	return b
}
