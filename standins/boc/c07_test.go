//go:build verif

package boc

// Bounded stand-in for C07 (labelled bounded, never counted as proved).
// Stands in for: acyclicity / closedness of the parsed reference graph (the `r <= i` check in DeserializeBoc),
// which the prover does not establish, and termination of hashing/printing/re-serialising parsed cells.
// Bound: every truncation and every single-byte substitution (quick: 16 values per position; thorough: all 256)
// of a corpus of valid BOCs (own output with all 8 option combinations, multi-root, shared sub-trees, exotic),
// plus hand-built adversarial headers.

import (
	"encoding/hex"
	"fmt"
	"os"
	"testing"
	"time"
)

func c07Corpus(t *testing.T) [][]byte {
	var out [][]byte
	mk := func(bits int, refs ...*Cell) *Cell {
		c := NewCell()
		for i := 0; i < bits; i++ {
			_ = c.WriteBit(i%3 == 0)
		}
		for _, r := range refs {
			_ = c.AddRef(r)
		}
		return c
	}
	leaf1 := mk(8)
	leaf2 := mk(13)
	mid := mk(1023, leaf1, leaf2)
	root := mk(5, mid, leaf1, mid, leaf2)
	for opt := 0; opt < 8; opt++ {
		b, err := root.ToBocCustom(opt&1 != 0, opt&2 != 0, opt&4 != 0, 0)
		if err != nil {
			t.Fatalf("serialize: %v", err)
		}
		out = append(out, b)
	}
	for _, h := range []string{
		"b5ee9c7201010301002000021000000000000000000102001000000000000000190010000000000000001a",
		"b5ee9c72010101010002000000",
		// ordinary root -> pruned branch child (mask 1) with a full 36-byte body, and the same with a 1-byte body
		"b5ee9c720101020100290001000128480101" + "000102030405060708090a0b0c0d0e0f101112131415161718191a1b1c1d1e1f" + "0003",
		"b5ee9c7201010201000600010001280201",
	} {
		b, _ := hex.DecodeString(h)
		out = append(out, b)
	}
	return out
}

// c07Exercise parses data and, on success, walks, hashes, prints and re-serialises the result under a deadline.
func c07Exercise(t *testing.T, data []byte, what string) {
	done := make(chan string, 1)
	go func() {
		defer func() {
			if r := recover(); r != nil {
				done <- fmt.Sprintf("panic: %v", r)
			}
		}()
		cells, err := DeserializeBoc(data)
		if err != nil {
			done <- ""
			return
		}
		for _, c := range cells {
			if c == nil {
				done <- "nil root"
				return
			}
			// acyclic and well-formed: bounded walk
			seen := map[*Cell]int{}
			var walk func(c *Cell, depth int) string
			walk = func(c *Cell, depth int) string {
				if depth > 2000 {
					return "reference chain deeper than any acyclic parse allows (cycle)"
				}
				if st, ok := seen[c]; ok {
					if st == 1 {
						return "cycle in parsed cells"
					}
					return ""
				}
				seen[c] = 1
				if c.BitSize() > 1023 {
					return "cell with more than 1023 bits"
				}
				for _, r := range c.Refs() {
					if r == nil {
						return "nil ref"
					}
					if s := walk(r, depth+1); s != "" {
						return s
					}
				}
				seen[c] = 2
				return ""
			}
			if s := walk(c, 0); s != "" {
				done <- s
				return
			}
			_, _ = c.Hash()
			_ = c.ToString()
			_, _ = c.ToBoc()
		}
		done <- ""
	}()
	select {
	case s := <-done:
		if s != "" {
			t.Errorf("%s: %s (input %x)", what, s, data)
		}
	case <-time.After(20 * time.Second):
		t.Fatalf("%s: did not terminate (input %x)", what, data)
	}
}

func TestVerifStandin_C07_Mutations(t *testing.T) {
	thorough := os.Getenv("VERIF_TIER") == "thorough"
	cases, distinct := 0, map[string]bool{}
	run := func(d []byte, what string) {
		cases++
		distinct[string(d)] = true
		c07Exercise(t, d, what)
	}
	for ci, b := range c07Corpus(t) {
		for n := 0; n <= len(b); n++ {
			run(b[:n], fmt.Sprintf("corpus %d truncated to %d", ci, n))
		}
		step := 16
		if thorough {
			step = 1
		}
		for pos := 0; pos < len(b); pos++ {
			for v := 0; v < 256; v += step {
				nv := byte(v) ^ b[pos] ^ 0x5a
				if thorough {
					nv = byte(v)
				}
				if nv == b[pos] {
					continue
				}
				m := append([]byte{}, b...)
				m[pos] = nv
				run(m, fmt.Sprintf("corpus %d byte %d := %#x", ci, pos, nv))
			}
		}
	}
	// adversarial: references to self / backwards / forwards out of range, root out of range, huge counts
	base, _ := hex.DecodeString("b5ee9c7201010301002000021000000000000000000102001000000000000000190010000000000000001a")
	for pos := 0; pos < len(base); pos++ {
		for _, v := range []byte{0, 1, 2, 3, 0x7f, 0x80, 0xff} {
			m := append([]byte{}, base...)
			m[pos] = v
			run(m, fmt.Sprintf("adversarial byte %d := %#x", pos, v))
		}
	}
	fmt.Printf("STANDIN-STAT name=c07_mutations cases=%d distinct=%d\n", cases, len(distinct))
}
