//go:build verif

package boc

// Bounded stand-in for C07, part b (labelled bounded, never counted as proved).
//
// Stands in for: the COST half of "every cell the parser returns is sound, so that hashing, printing and re-serialising
// it terminate" on bags of cells that are DAGs with heavy sharing. A bag of n cells can describe a tree with 2^n paths
// (cell i references cell i+1 two, three or four times; diamonds; one leaf referenced from every cell). Every operation
// that walks the parsed cells must stay polynomial in the number of cells OF THE BAG, not in the size of the unfolded tree.
//
// Inputs: bags are described as (bits, data, reference indices) lists and turned into BYTES
//   (a) by an independent little encoder of `serialized_boc#b5ee9c72` written here (flags/size byte, offset size, cell
//       count, roots, absent, total size, root list, optional index, cells as d1 d2 data refs, optional CRC32C), and
//   (b) by building the same DAG from in-memory cells and calling the library's serialiser,
// then parsed with DeserializeBoc. For every returned root, each of these runs in its own goroutine under a watchdog
// (2 s quick / 5 s thorough per operation; the input is printed in hex on failure):
//   Hash, Hash256, HashString, Hasher.Hash, Hasher.HashString, Sign, NewMerkleProver      (hashing)
//   ToString                                                                                 (printing)
//   ToBoc, ToBocCustom, SerializeBoc, ToBocCustomWithHasher (all 8 idx/crc/cacheBits combinations),
//   ToBocString, ToBocBase64, ToBocStringCustom, ToBocBase64Custom (all 8)                   (re-serialising)
//   MarshalJSON, json.Marshal, UnmarshalJSON of the result                                   (JSON form)
// (Cell exports no Depth; these are all exported walkers of boc/cell.go, boc/boc.go and boc/hasher.go. MerkleProver.CreateProof
// is not exercised: it prunes per tree position by design and is not named by the property.)
//
// Oracle (from the property and the formats, computed on the bag description, never by calling the library twice):
//   * every operation returns before the watchdog fires and does not panic;
//   * hashes equal the representation hash computed here bottom-up over the bag (SHA256 of d1 d2 data depths hashes);
//   * ToString: boc/cell.go documents an iteration limit for printing (`iter := BOCSizeLimit`, 65536, shared by the whole
//     print through a pointer). The number of printed cells (= lines) never exceeds that limit plus a small constant
//     (1 + 3*depth: the siblings still pending on the current path when the budget runs out), it is never below
//     min(unfolded tree size, limit), the output size is at most lines * (depth + 5 + ceil(maxbits/4)), and for unfolded
//     trees of at most 2000 cells the text equals the Fift-style print computed here;
//   * re-serialising: output length is at most 64 + sum over the distinct reachable cells of (26 + data bytes), the header
//     carries the requested flags and a cell count equal to the number of distinct reachable cell hashes, and the output
//     parses back to a root with the reference hash; hex/base64/JSON forms decode to the same bytes.
//
// Bound: chains of length n with fan-out k in {2,3,4}, n = 1..64 (quick: n in 1,2,3,4,8,12,16,17,20,24,32,48,64);
// diamonds (2- and 4-wide), complete sharing (every cell references the same child 4 times, identical data), one leaf shared
// by every cell, Fibonacci / tetranacci ladders, multi-root bags, fat cells (1023 bits) on short chains; random DAGs of 2..64
// cells seeded by VERIF_SEED (quick 60, thorough 400). Each bag in 4 encodings (quick) / 6 (thorough).
// Cases run in order of increasing unfolded size; after the first print-bound violation ToString is skipped for the rest of
// the test, and after the first watchdog timeout everything left is skipped (the runaway goroutine cannot be stopped).

import (
	"bytes"
	"crypto/ed25519"
	"crypto/sha256"
	"encoding/base64"
	"encoding/binary"
	"encoding/hex"
	"encoding/json"
	"fmt"
	"hash/crc32"
	"math/rand"
	"os"
	"sort"
	"strconv"
	"strings"
	"testing"
	"time"
)

// c07bPrintLimit is the iteration limit documented in boc/cell.go (ToString: `iter := BOCSizeLimit`).
const c07bPrintLimit = 65536

const c07bSat = uint64(1) << 62 // saturation value of unfolded tree sizes

func c07bThorough() bool { return os.Getenv("VERIF_TIER") == "thorough" }

func c07bSeed() int64 {
	if s, err := strconv.ParseInt(os.Getenv("VERIF_SEED"), 10, 64); err == nil {
		return s
	}
	return 1
}

// ---- bag description, independent encoder, reference values ----

type c07bCell struct {
	bits int
	data []byte // ceil(bits/8) bytes, the bits behind `bits` are zero
	refs []int  // indices in the bag, each greater than the cell's own index
}

type c07bBag struct {
	name  string
	cells []c07bCell
	roots []int
}

type c07bEnc struct {
	idx, crc, cache  bool
	refSize, offSize int // 0 = minimal
}

func c07bBE(v uint64, n int) []byte {
	var b [8]byte
	binary.BigEndian.PutUint64(b[:], v)
	return append([]byte{}, b[8-n:]...)
}

func c07bMinBytes(v uint64) int {
	n := 1
	for v >= 256 {
		v >>= 8
		n++
	}
	return n
}

// c07bCellRepr returns d1 d2 data(with completion tag): the part shared by the container and the hash representation.
func c07bCellRepr(c c07bCell) []byte {
	out := []byte{byte(len(c.refs)), byte((c.bits+7)/8 + c.bits/8)}
	d := append([]byte{}, c.data...)
	if c.bits%8 != 0 {
		d[len(d)-1] |= 1 << uint(7-c.bits%8)
	}
	return append(out, d...)
}

func c07bEncode(bag *c07bBag, e c07bEnc) []byte {
	refSize := e.refSize
	if refSize == 0 {
		refSize = c07bMinBytes(uint64(len(bag.cells)))
	}
	var body []byte
	ends := make([]uint64, len(bag.cells))
	for i, c := range bag.cells {
		body = append(body, c07bCellRepr(c)...)
		for _, r := range c.refs {
			body = append(body, c07bBE(uint64(r), refSize)...)
		}
		ends[i] = uint64(len(body))
	}
	offSize := e.offSize
	if offSize == 0 {
		m := uint64(len(body))
		if e.cache {
			m = 2*m + 1
		}
		offSize = c07bMinBytes(m)
	}
	out := []byte{0xb5, 0xee, 0x9c, 0x72}
	flags := byte(refSize)
	if e.idx {
		flags |= 0x80
	}
	if e.crc {
		flags |= 0x40
	}
	if e.cache {
		flags |= 0x20
	}
	out = append(out, flags, byte(offSize))
	out = append(out, c07bBE(uint64(len(bag.cells)), refSize)...)
	out = append(out, c07bBE(uint64(len(bag.roots)), refSize)...)
	out = append(out, c07bBE(0, refSize)...)
	out = append(out, c07bBE(uint64(len(body)), offSize)...)
	for _, r := range bag.roots {
		out = append(out, c07bBE(uint64(r), refSize)...)
	}
	if e.idx {
		for i := range bag.cells {
			v := ends[i]
			if e.cache {
				v = 2*v + uint64(i&1)
			}
			out = append(out, c07bBE(v, offSize)...)
		}
	}
	out = append(out, body...)
	if e.crc {
		var c [4]byte
		binary.LittleEndian.PutUint32(c[:], crc32.Checksum(out, crc32.MakeTable(crc32.Castagnoli)))
		out = append(out, c[:]...)
	}
	return out
}

// c07bRef holds the reference values of a bag, computed bottom-up over the indices (linear in the bag).
type c07bRef struct {
	hash  [][]byte
	depth []int
	tree  []uint64 // number of cells of the unfolded tree, saturating at c07bSat
	fift  []string
}

func c07bFift(c c07bCell) string {
	const hexd = "0123456789ABCDEF"
	get := func(i int) int {
		if i >= c.bits {
			if i == c.bits {
				return 1
			}
			return 0
		}
		return int(c.data[i/8]>>uint(7-i%8)) & 1
	}
	var sb []byte
	for q := 0; q < (c.bits+3)/4; q++ {
		sb = append(sb, hexd[get(4*q)<<3|get(4*q+1)<<2|get(4*q+2)<<1|get(4*q+3)])
	}
	if c.bits%4 != 0 {
		sb = append(sb, '_')
	}
	return string(sb)
}

func c07bReference(bag *c07bBag) *c07bRef {
	n := len(bag.cells)
	r := &c07bRef{hash: make([][]byte, n), depth: make([]int, n), tree: make([]uint64, n), fift: make([]string, n)}
	for i := n - 1; i >= 0; i-- {
		c := bag.cells[i]
		repr := c07bCellRepr(c)
		tree := uint64(1)
		for _, x := range c.refs {
			repr = append(repr, byte(r.depth[x]>>8), byte(r.depth[x]))
			if r.depth[x]+1 > r.depth[i] {
				r.depth[i] = r.depth[x] + 1
			}
			tree += r.tree[x]
			if tree > c07bSat {
				tree = c07bSat
			}
		}
		for _, x := range c.refs {
			repr = append(repr, r.hash[x]...)
		}
		h := sha256.Sum256(repr)
		r.hash[i] = h[:]
		r.tree[i] = tree
		r.fift[i] = c07bFift(c)
	}
	return r
}

// c07bReach summarises the cells reachable from one root.
type c07bReach struct {
	distinct  int // distinct cell hashes
	maxBits   int
	sizeBound int // upper bound of any serialisation of the sub-DAG
}

func c07bReachOf(bag *c07bBag, ref *c07bRef, root int) c07bReach {
	seen := map[int]bool{}
	hashes := map[string]bool{}
	out := c07bReach{sizeBound: 64}
	stack := []int{root}
	for len(stack) > 0 {
		i := stack[len(stack)-1]
		stack = stack[:len(stack)-1]
		if seen[i] {
			continue
		}
		seen[i] = true
		c := bag.cells[i]
		if c.bits > out.maxBits {
			out.maxBits = c.bits
		}
		if !hashes[string(ref.hash[i])] {
			hashes[string(ref.hash[i])] = true
			out.sizeBound += 26 + len(c.data)
		}
		stack = append(stack, c.refs...)
	}
	out.distinct = len(hashes)
	return out
}

func c07bExpectedPrint(bag *c07bBag, ref *c07bRef, i int, depth int, sb *strings.Builder) {
	sb.WriteString(strings.Repeat(" ", depth))
	sb.WriteString("x{" + ref.fift[i] + "}\n")
	for _, x := range bag.cells[i].refs {
		c07bExpectedPrint(bag, ref, x, depth+1, sb)
	}
}

// c07bInMemory builds the DAG out of library cells (one *Cell per bag cell, shared by pointer).
func c07bInMemory(bag *c07bBag) ([]*Cell, error) {
	cells := make([]*Cell, len(bag.cells))
	for i := len(bag.cells) - 1; i >= 0; i-- {
		c := NewCell()
		bc := bag.cells[i]
		for b := 0; b < bc.bits; b++ {
			if err := c.WriteBit(bc.data[b/8]>>uint(7-b%8)&1 == 1); err != nil {
				return nil, err
			}
		}
		for _, x := range bc.refs {
			if err := c.AddRef(cells[x]); err != nil {
				return nil, err
			}
		}
		cells[i] = c
	}
	return cells, nil
}

// ---- failure bookkeeping ----

type c07bFail struct{ cause, msg string }

type c07bFails struct {
	known []string
	count map[string]int
	msgs  map[string][]string
}

func (f *c07bFails) add(cause, format string, args ...interface{}) {
	f.count[cause]++
	if len(f.msgs[cause]) < 3 {
		f.msgs[cause] = append(f.msgs[cause], fmt.Sprintf(format, args...))
	}
}

func (f *c07bFails) report(t *testing.T) {
	names := map[string]bool{}
	for _, k := range f.known {
		names[k] = true
	}
	for k := range f.count {
		names[k] = true
	}
	var sorted []string
	for k := range names {
		sorted = append(sorted, k)
	}
	sort.Strings(sorted)
	for _, k := range sorted {
		k := k
		t.Run(k, func(t *testing.T) {
			if f.count[k] == 0 {
				return
			}
			t.Errorf("%d failing case(s); first %d:", f.count[k], len(f.msgs[k]))
			for _, m := range f.msgs[k] {
				t.Errorf("  %s", m)
			}
		})
	}
}

var c07bKnownCauses = []string{
	"rc_parse_error", "rc_parse_timeout", "rc_parse_roots",
	"rc_hash_timeout", "rc_hash_mismatch", "rc_hash_panic",
	"rc_print_timeout", "rc_print_exceeds_iteration_limit", "rc_print_truncated_below_limit", "rc_print_output_size",
	"rc_print_mismatch", "rc_print_panic", "rc_print_limit_constant_changed",
	"rc_serialize_timeout", "rc_serialize_error", "rc_serialize_output_size", "rc_serialize_flags",
	"rc_serialize_cell_count", "rc_serialize_roundtrip", "rc_serialize_forms_differ", "rc_serialize_panic",
	"rc_json_timeout", "rc_json_mismatch", "rc_json_panic",
}

// c07bAborted is set by the first watchdog timeout: the goroutine that is still running cannot be stopped and may be
// allocating without bound, so every test of this file finishes at once after reporting.
var c07bAborted bool

type c07bRunner struct {
	t           *testing.T
	f           *c07bFails
	wd          time.Duration
	thorough    bool
	cases       int
	distinct    map[string]bool
	printBroken bool
	skipped     int
	maxElapsed  map[string]time.Duration
	maxLines    int
	maxTree     uint64
}

func c07bNewRunner(t *testing.T) *c07bRunner {
	r := &c07bRunner{t: t, thorough: c07bThorough(), distinct: map[string]bool{}, maxElapsed: map[string]time.Duration{},
		f: &c07bFails{known: c07bKnownCauses, count: map[string]int{}, msgs: map[string][]string{}}}
	r.wd = 2 * time.Second
	if r.thorough {
		r.wd = 5 * time.Second
	}
	if BOCSizeLimit != c07bPrintLimit {
		r.f.add("rc_print_limit_constant_changed", "BOCSizeLimit = %d, the documented print limit is %d", BOCSizeLimit, c07bPrintLimit)
	}
	return r
}

// timed runs fn (library call + its checks) in a goroutine under the watchdog; a panic becomes a failure.
func (r *c07bRunner) timed(class, op string, input []byte, fn func() []c07bFail) bool {
	if c07bAborted {
		return false
	}
	ch := make(chan []c07bFail, 1)
	t0 := time.Now()
	go func() {
		defer func() {
			if p := recover(); p != nil {
				ch <- []c07bFail{{"rc_" + class + "_panic", fmt.Sprintf("panic: %v", p)}}
			}
		}()
		ch <- fn()
	}()
	timer := time.NewTimer(r.wd)
	defer timer.Stop()
	select {
	case fs := <-ch:
		if el := time.Since(t0); el > r.maxElapsed[class] {
			r.maxElapsed[class] = el
		}
		for _, x := range fs {
			r.f.add(x.cause, "%s: %s (input %x)", op, x.msg, input)
		}
		return len(fs) == 0
	case <-timer.C:
		r.f.add("rc_"+class+"_timeout", "%s: no result after %v (input %x)", op, r.wd, input)
		c07bAborted = true
		return false
	}
}

func (r *c07bRunner) finish(name string) {
	for _, k := range []string{"parse", "hash", "print", "serialize", "json"} {
		r.t.Logf("max elapsed %-9s %v", k, r.maxElapsed[k])
	}
	r.t.Logf("largest unfolded tree %d cells (saturating at 2^62), most lines printed %d, ToString skipped after a violation: %d, aborted by watchdog: %v",
		r.maxTree, r.maxLines, r.skipped, c07bAborted)
	fmt.Printf("STANDIN-STAT name=%s cases=%d distinct=%d\n", name, r.cases, len(r.distinct))
	r.f.report(r.t)
}

// ---- the operations under test ----

var c07bCombos = func() (out [][3]bool) {
	for o := 0; o < 8; o++ {
		out = append(out, [3]bool{o&1 != 0, o&2 != 0, o&4 != 0})
	}
	return
}()

var c07bKey = ed25519.NewKeyFromSeed(bytes.Repeat([]byte{7}, 32))

func (r *c07bRunner) checkSerialized(out []byte, combo [3]bool, want []byte, reach c07bReach) (fs []c07bFail) {
	if len(out) > reach.sizeBound {
		fs = append(fs, c07bFail{"rc_serialize_output_size", fmt.Sprintf("%d bytes for %d distinct cells, bound %d", len(out), reach.distinct, reach.sizeBound)})
	}
	if len(out) < 7 || !bytes.Equal(out[:4], []byte{0xb5, 0xee, 0x9c, 0x72}) {
		return append(fs, c07bFail{"rc_serialize_roundtrip", fmt.Sprintf("no generic BOC header: %x", out)})
	}
	fl := out[4]
	if (fl&0x80 != 0) != combo[0] || (fl&0x40 != 0) != combo[1] || (fl&0x20 != 0) != combo[2] || fl&0x18 != 0 {
		fs = append(fs, c07bFail{"rc_serialize_flags", fmt.Sprintf("flags byte %#x for idx=%v crc=%v cacheBits=%v", fl, combo[0], combo[1], combo[2])})
	}
	rs := int(fl & 7)
	if rs < 1 || rs > 4 || len(out) < 6+rs {
		return append(fs, c07bFail{"rc_serialize_roundtrip", fmt.Sprintf("bad ref size in %x", out)})
	}
	cnt := 0
	for _, b := range out[6 : 6+rs] {
		cnt = cnt<<8 | int(b)
	}
	if cnt != reach.distinct {
		fs = append(fs, c07bFail{"rc_serialize_cell_count", fmt.Sprintf("header says %d cells, the sub-DAG has %d distinct cells", cnt, reach.distinct)})
	}
	back, err := DeserializeBoc(out)
	if err != nil || len(back) != 1 {
		return append(fs, c07bFail{"rc_serialize_roundtrip", fmt.Sprintf("output does not parse back to one root: %v (%x)", err, out)})
	}
	if h, err := back[0].Hash(); err != nil || !bytes.Equal(h, want) {
		fs = append(fs, c07bFail{"rc_serialize_roundtrip", fmt.Sprintf("re-parsed root hash %x (%v), reference %x", h, err, want)})
	}
	return fs
}

// exercise runs every walker on one parsed root. bagRoot is the index of that root in the bag description.
func (r *c07bRunner) exercise(what string, input []byte, root *Cell, bag *c07bBag, ref *c07bRef, bagRoot int, heavyPrint bool) {
	want := ref.hash[bagRoot]
	reach := c07bReachOf(bag, ref, bagRoot)
	tree := ref.tree[bagRoot]
	depth := ref.depth[bagRoot]
	if tree > r.maxTree {
		r.maxTree = tree
	}
	cmp := func(op string, got []byte, err error) []c07bFail {
		if err != nil || !bytes.Equal(got, want) {
			return []c07bFail{{"rc_hash_mismatch", fmt.Sprintf("%s = %x (%v), reference %x", op, got, err, want)}}
		}
		return nil
	}

	// hashing
	r.timed("hash", what+" Hash", input, func() []c07bFail { h, err := root.Hash(); return cmp("Hash", h, err) })
	r.timed("hash", what+" Hash256", input, func() []c07bFail { h, err := root.Hash256(); return cmp("Hash256", h[:], err) })
	r.timed("hash", what+" HashString", input, func() []c07bFail {
		s, err := root.HashString()
		h, _ := hex.DecodeString(s)
		return cmp("HashString", h, err)
	})
	r.timed("hash", what+" Hasher", input, func() []c07bFail {
		hs := NewHasher()
		s, err := hs.HashString(root)
		h, _ := hex.DecodeString(s)
		fs := cmp("Hasher.HashString", h, err)
		h2, err := hs.Hash(root)
		fs = append(fs, cmp("Hasher.Hash", h2, err)...)
		h3, err := NewHasher().Hash(root)
		return append(fs, cmp("fresh Hasher.Hash", h3, err)...)
	})
	r.timed("hash", what+" Sign", input, func() []c07bFail {
		sig, err := root.Sign(c07bKey)
		if err != nil || !ed25519.Verify(c07bKey.Public().(ed25519.PublicKey), want, sig) {
			return []c07bFail{{"rc_hash_mismatch", fmt.Sprintf("Sign: %v, signature %x does not verify against the reference hash %x", err, sig, want)}}
		}
		return nil
	})
	r.timed("hash", what+" NewMerkleProver", input, func() []c07bFail {
		p, err := NewMerkleProver(root)
		if err != nil || p == nil || !bytes.Equal(p.root.Hash(0), want) {
			return []c07bFail{{"rc_hash_mismatch", fmt.Sprintf("NewMerkleProver: %v, root hash differs from the reference %x", err, want)}}
		}
		return nil
	})

	// printing
	if r.printBroken {
		r.skipped++
	} else if heavyPrint || tree <= 4096 {
		ok := r.timed("print", what+" ToString", input, func() (fs []c07bFail) {
			s := root.ToString()
			lines := strings.Count(s, "\n")
			if lines > r.maxLines {
				r.maxLines = lines
			}
			if lines > c07bPrintLimit+1+3*depth {
				fs = append(fs, c07bFail{"rc_print_exceeds_iteration_limit", fmt.Sprintf("%d cells printed for a bag of %d cells (unfolded tree %d, depth %d); the documented limit is %d iterations (+%d pending siblings)",
					lines, len(bag.cells), tree, depth, c07bPrintLimit, 1+3*depth)})
			}
			low := tree
			if low > c07bPrintLimit {
				low = c07bPrintLimit
			}
			if uint64(lines) < low {
				fs = append(fs, c07bFail{"rc_print_truncated_below_limit", fmt.Sprintf("%d cells printed, unfolded tree has %d, limit %d", lines, tree, c07bPrintLimit)})
			}
			if maxLen := lines * (depth + 5 + (reach.maxBits+3)/4); len(s) > maxLen {
				fs = append(fs, c07bFail{"rc_print_output_size", fmt.Sprintf("%d bytes for %d lines, bound %d", len(s), lines, maxLen)})
			}
			if tree <= 2000 {
				var sb strings.Builder
				c07bExpectedPrint(bag, ref, bagRoot, 0, &sb)
				if s != sb.String() {
					fs = append(fs, c07bFail{"rc_print_mismatch", fmt.Sprintf("got %q, expected %q", s, sb.String())})
				}
			} else if first := "x{" + ref.fift[bagRoot] + "}\n"; !strings.HasPrefix(s, first) {
				fs = append(fs, c07bFail{"rc_print_mismatch", fmt.Sprintf("first line %.80q, expected %q", s, first)})
			}
			return fs
		})
		if !ok {
			// a bag that prints too much now will print much more at the next size: do not start it
			r.printBroken = true
		}
	}

	// re-serialising, all option combinations of every entry point
	var plain []byte
	r.timed("serialize", what+" ToBoc", input, func() []c07bFail {
		out, err := root.ToBoc()
		if err != nil {
			return []c07bFail{{"rc_serialize_error", fmt.Sprintf("ToBoc: %v", err)}}
		}
		plain = out
		return r.checkSerialized(out, [3]bool{}, want, reach)
	})
	shared := NewHasher()
	for _, cb := range c07bCombos {
		cb := cb
		label := fmt.Sprintf("%s idx=%v crc=%v cacheBits=%v", what, cb[0], cb[1], cb[2])
		r.timed("serialize", label, input, func() (fs []c07bFail) {
			outs := map[string][]byte{}
			var err error
			bad := func(op string, err error) []c07bFail {
				return append(fs, c07bFail{"rc_serialize_error", fmt.Sprintf("%s: %v", op, err)})
			}
			if outs["ToBocCustom"], err = root.ToBocCustom(cb[0], cb[1], cb[2], 0); err != nil {
				return bad("ToBocCustom", err)
			}
			if outs["SerializeBoc"], err = SerializeBoc(root, cb[0], cb[1], cb[2], 0); err != nil {
				return bad("SerializeBoc", err)
			}
			if outs["ToBocCustomWithHasher(fresh)"], err = root.ToBocCustomWithHasher(NewHasher(), cb[0], cb[1], cb[2], 0); err != nil {
				return bad("ToBocCustomWithHasher(fresh)", err)
			}
			if outs["ToBocCustomWithHasher(shared)"], err = root.ToBocCustomWithHasher(shared, cb[0], cb[1], cb[2], 0); err != nil {
				return bad("ToBocCustomWithHasher(shared)", err)
			}
			s, err := root.ToBocStringCustom(cb[0], cb[1], cb[2], 0)
			if err != nil {
				return bad("ToBocStringCustom", err)
			}
			if outs["ToBocStringCustom"], err = hex.DecodeString(s); err != nil {
				return bad("ToBocStringCustom hex", err)
			}
			if s, err = root.ToBocBase64Custom(cb[0], cb[1], cb[2], 0); err != nil {
				return bad("ToBocBase64Custom", err)
			}
			if outs["ToBocBase64Custom"], err = base64.StdEncoding.DecodeString(s); err != nil {
				return bad("ToBocBase64Custom base64", err)
			}
			base := outs["ToBocCustom"]
			fs = append(fs, r.checkSerialized(base, cb, want, reach)...)
			for k, v := range outs {
				if !bytes.Equal(v, base) {
					fs = append(fs, c07bFail{"rc_serialize_forms_differ", fmt.Sprintf("%s gives %x, ToBocCustom %x", k, v, base)})
				}
			}
			return fs
		})
	}
	r.timed("serialize", what+" ToBocString/ToBocBase64", input, func() (fs []c07bFail) {
		s, err := root.ToBocString()
		if err != nil {
			return []c07bFail{{"rc_serialize_error", fmt.Sprintf("ToBocString: %v", err)}}
		}
		b, err := root.ToBocBase64()
		if err != nil {
			return []c07bFail{{"rc_serialize_error", fmt.Sprintf("ToBocBase64: %v", err)}}
		}
		h1, e1 := hex.DecodeString(s)
		h2, e2 := base64.StdEncoding.DecodeString(b)
		if e1 != nil || e2 != nil || !bytes.Equal(h1, plain) || !bytes.Equal(h2, plain) {
			fs = append(fs, c07bFail{"rc_serialize_forms_differ", fmt.Sprintf("ToBocString %s / ToBocBase64 %s do not decode to ToBoc %x", s, b, plain)})
		}
		return fs
	})

	// JSON form
	r.timed("json", what+" MarshalJSON", input, func() (fs []c07bFail) {
		j1, err := root.MarshalJSON()
		if err != nil {
			return []c07bFail{{"rc_json_mismatch", fmt.Sprintf("MarshalJSON: %v", err)}}
		}
		j2, err := json.Marshal(root)
		if err != nil {
			return []c07bFail{{"rc_json_mismatch", fmt.Sprintf("json.Marshal: %v", err)}}
		}
		wantJ := `"` + hex.EncodeToString(plain) + `"`
		if string(j1) != wantJ || string(j2) != wantJ {
			fs = append(fs, c07bFail{"rc_json_mismatch", fmt.Sprintf("MarshalJSON %s, json.Marshal %s, expected %s", j1, j2, wantJ)})
		}
		if len(j1) > 2*reach.sizeBound+2 {
			fs = append(fs, c07bFail{"rc_serialize_output_size", fmt.Sprintf("JSON of %d bytes, bound %d", len(j1), 2*reach.sizeBound+2)})
		}
		var back Cell
		if err := json.Unmarshal(j1, &back); err != nil {
			return append(fs, c07bFail{"rc_json_mismatch", fmt.Sprintf("UnmarshalJSON of the output: %v", err)})
		}
		if h, err := back.Hash(); err != nil || !bytes.Equal(h, want) {
			fs = append(fs, c07bFail{"rc_json_mismatch", fmt.Sprintf("hash after the JSON round trip %x (%v), reference %x", h, err, want)})
		}
		return fs
	})
}

// runBag encodes the bag in several ways, parses each encoding and exercises every returned root.
func (r *c07bRunner) runBag(bag *c07bBag) {
	if c07bAborted {
		return
	}
	ref := c07bReference(bag)
	type variant struct {
		name  string
		data  []byte
		roots []int // bag indices of the expected roots
	}
	vs := []variant{
		{"bytes/minimal", c07bEncode(bag, c07bEnc{}), bag.roots},
		{"bytes/idx+crc+cache,ref2,off3", c07bEncode(bag, c07bEnc{idx: true, crc: true, cache: true, refSize: 2, offSize: 3}), bag.roots},
	}
	if r.thorough {
		vs = append(vs,
			variant{"bytes/idx,ref4,off8", c07bEncode(bag, c07bEnc{idx: true, refSize: 4, offSize: 8}), bag.roots},
			variant{"bytes/crc,ref3", c07bEncode(bag, c07bEnc{crc: true, refSize: 3}), bag.roots})
	}
	// through the library's serialiser, from in-memory cells that share by pointer (first root only: the exported API is single-root)
	for _, cb := range [][3]bool{{false, false, false}, {true, true, true}} {
		cb := cb
		var out []byte
		label := fmt.Sprintf("%s lib/idx=%v,crc=%v,cache=%v", bag.name, cb[0], cb[1], cb[2])
		ok := r.timed("serialize", label+" (building the input)", c07bEncode(bag, c07bEnc{}), func() []c07bFail {
			mem, err := c07bInMemory(bag)
			if err != nil {
				return []c07bFail{{"rc_serialize_error", fmt.Sprintf("building in-memory cells: %v", err)}}
			}
			if out, err = mem[bag.roots[0]].ToBocCustom(cb[0], cb[1], cb[2], 0); err != nil {
				return []c07bFail{{"rc_serialize_error", fmt.Sprintf("ToBocCustom of in-memory cells: %v", err)}}
			}
			return nil
		})
		if ok {
			vs = append(vs, variant{fmt.Sprintf("lib/idx=%v,crc=%v,cache=%v", cb[0], cb[1], cb[2]), out, bag.roots[:1]})
		}
	}
	for vi, v := range vs {
		if c07bAborted {
			return
		}
		r.cases++
		r.distinct[string(v.data)] = true
		what := bag.name + " " + v.name
		var roots []*Cell
		ok := r.timed("parse", what+" DeserializeBoc", v.data, func() []c07bFail {
			var err error
			if roots, err = DeserializeBoc(v.data); err != nil {
				return []c07bFail{{"rc_parse_error", fmt.Sprintf("valid bag rejected: %v", err)}}
			}
			if len(roots) != len(v.roots) {
				return []c07bFail{{"rc_parse_roots", fmt.Sprintf("%d roots returned, %d declared", len(roots), len(v.roots))}}
			}
			return nil
		})
		if !ok {
			continue
		}
		for ri, root := range roots {
			r.exercise(fmt.Sprintf("%s root#%d", what, ri), v.data, root, bag, ref, v.roots[ri], r.thorough || vi == 0)
		}
	}
}

func (r *c07bRunner) runSorted(bags []*c07bBag) {
	size := func(b *c07bBag) uint64 {
		var m uint64
		ref := c07bReference(b)
		for _, x := range b.roots {
			if ref.tree[x] > m {
				m = ref.tree[x]
			}
		}
		return m
	}
	sizes := map[*c07bBag]uint64{}
	for _, b := range bags {
		sizes[b] = size(b)
	}
	sort.SliceStable(bags, func(i, j int) bool { return sizes[bags[i]] < sizes[bags[j]] })
	for _, b := range bags {
		r.runBag(b)
	}
}

// ---- shapes ----

func c07bData(i, nbytes, bits int) ([]byte, int) {
	d := make([]byte, nbytes)
	for j := range d {
		d[j] = byte(i*31 + j*7 + 1)
	}
	if bits%8 != 0 {
		d[len(d)-1] &^= byte(0xff) >> uint(bits%8)
	}
	return d, bits
}

// c07bChain: cell i references cell i+1 k times; data of 1..3 bytes, every third cell not byte aligned.
func c07bChain(n, k int) *c07bBag {
	bag := &c07bBag{name: fmt.Sprintf("chain n=%d k=%d", n, k), roots: []int{0}}
	for i := 0; i < n; i++ {
		nb := 1 + i%3
		bits := 8 * nb
		if i%3 == 2 {
			bits -= 1 + i%7
		}
		d, b := c07bData(i, nb, bits)
		c := c07bCell{bits: b, data: d}
		if i+1 < n {
			for j := 0; j < k; j++ {
				c.refs = append(c.refs, i+1)
			}
		}
		bag.cells = append(bag.cells, c)
	}
	return bag
}

func c07bShapes(thorough bool) []*c07bBag {
	var out []*c07bBag
	one := func(v byte) c07bCell { return c07bCell{bits: 8, data: []byte{v}} }
	// canary: the smallest doubling chain whose unfolded tree is well above the print limit
	out = append(out, c07bChain(18, 2))
	// diamonds, w wide: top -> w distinct middles -> bottom (= next top), m levels: w^m paths
	for _, w := range []int{2, 4} {
		for _, m := range []int{1, 2, 4, 8, 9, 12, 16, 21} {
			if w == 2 && m < 8 && m != 1 && !thorough {
				continue
			}
			bag := &c07bBag{name: fmt.Sprintf("diamonds w=%d m=%d", w, m), roots: []int{0}}
			for l := 0; l < m; l++ {
				base := l * (w + 1)
				top := one(byte(l))
				for j := 1; j <= w; j++ {
					top.refs = append(top.refs, base+j)
				}
				bag.cells = append(bag.cells, top)
				for j := 1; j <= w; j++ {
					mid := one(byte(16*j + l%16))
					for q := 0; q < w; q++ { // each middle references the next top w times as well when w = 4
						mid.refs = append(mid.refs, base+w+1)
						if w == 2 {
							break
						}
					}
					bag.cells = append(bag.cells, mid)
				}
			}
			bag.cells = append(bag.cells, one(0xff))
			out = append(out, bag)
		}
	}
	// complete sharing: every cell references the same child 4 times, all cells carry the same data
	for _, n := range []int{2, 5, 9, 10, 16, 33, 64} {
		bag := &c07bBag{name: fmt.Sprintf("complete-sharing n=%d", n), roots: []int{0}}
		for i := 0; i < n; i++ {
			c := one(0)
			if i+1 < n {
				c.refs = []int{i + 1, i + 1, i + 1, i + 1}
			}
			bag.cells = append(bag.cells, c)
		}
		out = append(out, bag)
	}
	// one leaf referenced from every cell (and twice from most), next cell referenced twice
	for _, n := range []int{3, 12, 18, 40, 64} {
		bag := &c07bBag{name: fmt.Sprintf("shared-leaf n=%d", n), roots: []int{0}}
		for i := 0; i < n-1; i++ {
			c := one(byte(i))
			if i+1 < n-1 {
				c.refs = []int{i + 1, n - 1, i + 1, n - 1}
			} else {
				c.refs = []int{n - 1}
			}
			bag.cells = append(bag.cells, c)
		}
		bag.cells = append(bag.cells, c07bCell{})
		out = append(out, bag)
	}
	// ladders: cell i references i+1..i+s (Fibonacci for s=2, tetranacci for s=4)
	for _, s := range []int{2, 4} {
		for _, n := range []int{6, 20, 26, 64} {
			bag := &c07bBag{name: fmt.Sprintf("ladder s=%d n=%d", s, n), roots: []int{0}}
			for i := 0; i < n; i++ {
				c := one(byte(i))
				for j := 1; j <= s && i+j < n; j++ {
					c.refs = append(c.refs, i+j)
				}
				bag.cells = append(bag.cells, c)
			}
			out = append(out, bag)
		}
	}
	// several roots into one doubling chain (every 8th cell and the last one)
	for _, n := range []int{19, 41} {
		bag := c07bChain(n, 2)
		bag.name = fmt.Sprintf("multi-root chain n=%d", n)
		bag.roots = nil
		for i := 0; i < n; i += 8 {
			bag.roots = append(bag.roots, i)
		}
		bag.roots = append(bag.roots, n-1)
		out = append(out, bag)
	}
	// fat cells: 1023 bits (and 1016) on short doubling chains, where the print is still complete
	fat := []int{3, 12}
	if thorough {
		fat = append(fat, 16)
	}
	for _, n := range fat {
		bag := &c07bBag{name: fmt.Sprintf("fat chain n=%d", n), roots: []int{0}}
		for i := 0; i < n; i++ {
			bits := 1023
			if i%2 == 1 {
				bits = 1016
			}
			d, b := c07bData(i, (bits+7)/8, bits)
			c := c07bCell{bits: b, data: d}
			if i+1 < n {
				c.refs = []int{i + 1, i + 1}
			}
			bag.cells = append(bag.cells, c)
		}
		out = append(out, bag)
	}
	return out
}

func c07bRandomBag(rng *rand.Rand, id int) *c07bBag {
	n := 2 + rng.Intn(63)
	dense := rng.Intn(3) > 0
	lowEntropy := rng.Intn(4) == 0
	bag := &c07bBag{name: fmt.Sprintf("random#%d n=%d", id, n), roots: []int{0}}
	for i := 0; i < n; i++ {
		var bits int
		switch rng.Intn(8) {
		case 0:
			bits = 0
		case 1:
			bits = 8 * (1 + rng.Intn(8))
		case 2:
			bits = 1 + rng.Intn(260)
		default:
			bits = 1 + rng.Intn(32)
		}
		if lowEntropy {
			bits = 8
		}
		d := make([]byte, (bits+7)/8)
		if !lowEntropy {
			rng.Read(d)
		}
		if bits%8 != 0 {
			d[len(d)-1] &^= byte(0xff) >> uint(bits%8)
		}
		c := c07bCell{bits: bits, data: d}
		if i+1 < n {
			nrefs := rng.Intn(5)
			if dense {
				nrefs = 2 + rng.Intn(3)
			}
			for j := 0; j < nrefs; j++ {
				switch p := rng.Intn(10); {
				case p < 5:
					c.refs = append(c.refs, i+1)
				case p < 8:
					c.refs = append(c.refs, i+1+rng.Intn(n-1-i))
				case p < 9:
					c.refs = append(c.refs, n-1)
				case len(c.refs) > 0:
					c.refs = append(c.refs, c.refs[len(c.refs)-1])
				default:
					c.refs = append(c.refs, i+1)
				}
			}
		}
		bag.cells = append(bag.cells, c)
	}
	for extra := rng.Intn(3); extra > 0; extra-- {
		bag.roots = append(bag.roots, rng.Intn(n))
	}
	return bag
}

// ---- tests ----

func TestVerifStandin_C07_SharingChains(t *testing.T) {
	r := c07bNewRunner(t)
	ns := []int{1, 2, 3, 4, 8, 12, 16, 17, 20, 24, 32, 48, 64}
	if r.thorough {
		ns = nil
		for n := 1; n <= 64; n++ {
			ns = append(ns, n)
		}
	}
	for _, n := range ns { // increasing size: the first violation is reported on the smallest bag that shows it
		for _, k := range []int{2, 3, 4} {
			r.runBag(c07bChain(n, k))
		}
	}
	r.finish("c07_sharing_chains")
}

func TestVerifStandin_C07_SharingShapes(t *testing.T) {
	r := c07bNewRunner(t)
	r.runSorted(c07bShapes(r.thorough))
	r.finish("c07_sharing_shapes")
}

func TestVerifStandin_C07_SharingRandom(t *testing.T) {
	r := c07bNewRunner(t)
	rng := rand.New(rand.NewSource(c07bSeed()))
	count := 60
	if r.thorough {
		count = 400
	}
	bags := []*c07bBag{c07bChain(18, 2)} // canary, see c07bShapes
	for i := 0; i < count; i++ {
		bags = append(bags, c07bRandomBag(rng, i))
	}
	r.runSorted(bags)
	r.finish("c07_sharing_random")
}
