//go:build verif

package boc

// Bounded stand-in for C20 (labelled bounded, never counted as proved), package boc part: JSON forms of Cell and
// BitString parse back to the same value; malformed documents give an error or a value, never a panic.
//
// Bound: BitString: every length 0..1023 with all-zero, all-one and random content (3072 values); Cell: empty cell,
// 1023-bit cell, 4 references, shared sub-cells, 40 (quick) / 600 (thorough) random trees of depth <= 4.
// Malformed input: for 3 seed documents per type every truncation and single-byte substitutions (12 byte values per
// position, thorough 40), plus well-formed JSON of the wrong shape; fed to json.Unmarshal and to UnmarshalJSON directly.
// Oracle: own bit-by-bit comparison (length and every bit) and an own structural walk of the cell trees.

import (
	"encoding/json"
	"fmt"
	"math/rand"
	"os"
	"sort"
	"strconv"
	"strings"
	"testing"
)

func c20Seed() int64 {
	if v, err := strconv.ParseInt(os.Getenv("VERIF_SEED"), 10, 64); err == nil {
		return v
	}
	return 1
}

type c20Fails struct {
	count map[string]int
	msgs  map[string][]string
	known []string
}

func (f *c20Fails) add(cause, format string, args ...any) {
	if f.count == nil {
		f.count, f.msgs = map[string]int{}, map[string][]string{}
	}
	f.count[cause]++
	if len(f.msgs[cause]) < 6 {
		m := fmt.Sprintf(format, args...)
		if len(m) > 1200 {
			m = m[:1200] + "...(truncated)"
		}
		f.msgs[cause] = append(f.msgs[cause], m)
	}
}

func (f *c20Fails) report(t *testing.T) {
	names := map[string]bool{}
	for _, k := range f.known {
		names[k] = true
	}
	for k := range f.count {
		names[k] = true
	}
	var sorted []string
	for k := range names {
		sorted = append(sorted, k)
	}
	sort.Strings(sorted)
	for _, k := range sorted {
		k := k
		t.Run(k, func(t *testing.T) {
			if f.count[k] == 0 {
				return
			}
			t.Errorf("%d failing case(s); first %d:", f.count[k], len(f.msgs[k]))
			for _, m := range f.msgs[k] {
				t.Errorf("  %s", m)
			}
		})
	}
}

func c20Safe(fn func()) (p string) {
	defer func() {
		if r := recover(); r != nil {
			p = fmt.Sprintf("panic: %v", r)
		}
	}()
	fn()
	return ""
}

func c20Bits(s *BitString) string {
	var sb strings.Builder
	for i := 0; i < s.len; i++ {
		if s.buf[i/8]&(1<<(7-uint(i%8))) != 0 {
			sb.WriteByte('1')
		} else {
			sb.WriteByte('0')
		}
	}
	return sb.String()
}

func c20Tree(c *Cell, depth int) string {
	if c == nil {
		return "<nil>"
	}
	if depth > 64 {
		return "<deep>"
	}
	var sb strings.Builder
	fmt.Fprintf(&sb, "t%d:%s", c.cellType, c20Bits(&c.bits))
	sb.WriteByte('{')
	for _, r := range c.refs {
		if r != nil {
			sb.WriteString(c20Tree(r, depth+1))
			sb.WriteByte(',')
		}
	}
	sb.WriteByte('}')
	return sb.String()
}

func c20RandCell(rng *rand.Rand, d int) *Cell {
	c := NewCell()
	n := []int{0, 1, 7, 8, 9, 64, 1023, rng.Intn(1024)}[rng.Intn(8)]
	for i := 0; i < n; i++ {
		_ = c.WriteBit(rng.Intn(2) == 1)
	}
	if d > 0 {
		for i := rng.Intn(5); i > 0; i-- {
			_ = c.AddRef(c20RandCell(rng, d-1))
		}
	}
	return c
}

var c20Subst = []byte{'"', '\\', '0', '9', 'f', 'g', '-', ':', '_', ' ', 0x00, 0xff}
var c20SubstMore = []byte{'{', '}', '[', ']', ',', 'n', 'u', 'l', 'x', 'A', 'z', '(', ')', '.', 'e', '+', '\n', '\t', 0x7f, 0x80, 0xc3, '1', '8', 'a', 'F', 'G', '/', '\''}
var c20WrongShape = []string{`null`, `true`, `{}`, `[]`, `""`, `" "`, `"abc"`, `"_"`, `"4_"`, `"0_"`, `"C_"`, `"8_"`, `"g_"`, `"__"`, `12`, `"b5ee9c72"`, `"b5ee9c7201"`,
	`"b5ee9c72010101010002000000"`, `"b5ee9c720101010100020000"`, `"B5EE9C72010101010002000000"`, `"\u0000"`, `{"a":1}`, `[1]`, `"zz"`, `"0"`, `"012"`}

func TestVerifStandin_C20_JSON(t *testing.T) {
	rng := rand.New(rand.NewSource(c20Seed()))
	thorough := os.Getenv("VERIF_TIER") == "thorough"
	fails := &c20Fails{known: []string{"rc_bitstring_json_roundtrip", "rc_cell_json_roundtrip", "rc_bitstring_unmarshaljson_panics", "rc_cell_unmarshaljson_panics"}}
	cases, distinct := 0, map[string]struct{}{}
	note := func(k string) {
		cases++
		distinct[k] = struct{}{}
	}

	// ---- BitString ----
	var bsSeeds []string
	for n := 0; n <= 1023; n++ {
		for variant := 0; variant < 3; variant++ {
			bs := NewBitString(n)
			for i := 0; i < n; i++ {
				_ = bs.WriteBit(variant == 1 || (variant == 2 && rng.Intn(2) == 1))
			}
			want := c20Bits(&bs)
			note("bs|" + want)
			var b []byte
			var err error
			if p := c20Safe(func() { b, err = json.Marshal(bs) }); p != "" || err != nil {
				fails.add("rc_bitstring_json_roundtrip", "bits %s: Marshal failed: %v %v", want, p, err)
				continue
			}
			if !json.Valid(b) {
				fails.add("rc_bitstring_json_roundtrip", "bits %s: invalid JSON %q", want, b)
				continue
			}
			var back BitString
			if p := c20Safe(func() { err = json.Unmarshal(b, &back) }); p != "" || err != nil {
				fails.add("rc_bitstring_json_roundtrip", "bits %s: JSON %s does not parse back: %v %v", want, b, p, err)
				continue
			}
			if got := c20Bits(&back); got != want || back.rCursor != 0 {
				fails.add("rc_bitstring_json_roundtrip", "bits %s (len %d): JSON %s parses back to %s (len %d)", want, len(want), b, got, len(got))
			}
			if (n == 0 || n == 5 || n == 64) && variant == 2 {
				bsSeeds = append(bsSeeds, string(b))
			}
		}
	}

	// ---- Cell ----
	var cells []*Cell
	cells = append(cells, NewCell())
	full := NewCell()
	for i := 0; i < 1023; i++ {
		_ = full.WriteBit(i%5 == 0)
	}
	cells = append(cells, full)
	shared := c20RandCell(rng, 1)
	four := NewCell()
	_ = four.WriteUint(0xabc, 12)
	for i := 0; i < 4; i++ {
		_ = four.AddRef(shared)
	}
	cells = append(cells, four)
	nrand := 40
	if thorough {
		nrand = 600
	}
	for i := 0; i < nrand; i++ {
		cells = append(cells, c20RandCell(rng, i%5))
	}
	var cellSeeds []string
	for i, c := range cells {
		want := c20Tree(c, 0)
		note("cell|" + want)
		var b []byte
		var err error
		if p := c20Safe(func() { b, err = json.Marshal(c) }); p != "" || err != nil {
			fails.add("rc_cell_json_roundtrip", "cell %.300s: Marshal failed: %v %v", want, p, err)
			continue
		}
		if !json.Valid(b) {
			fails.add("rc_cell_json_roundtrip", "cell %.300s: invalid JSON %.200q", want, b)
			continue
		}
		var back Cell
		if p := c20Safe(func() { err = json.Unmarshal(b, &back) }); p != "" || err != nil {
			fails.add("rc_cell_json_roundtrip", "cell %.300s: JSON %.200s does not parse back: %v %v", want, b, p, err)
			continue
		}
		if got := c20Tree(&back, 0); got != want {
			fails.add("rc_cell_json_roundtrip", "cell %.300s: JSON %.200s parses back to %.300s", want, b, got)
		}
		// also through a value (not pointer) holder, as struct fields do
		var holder struct{ C Cell }
		hb, _ := json.Marshal(struct{ C Cell }{*c})
		if p := c20Safe(func() { err = json.Unmarshal(hb, &holder) }); p != "" || err != nil || c20Tree(&holder.C, 0) != want {
			fails.add("rc_cell_json_roundtrip", "cell %.300s inside a struct: %v %v -> %.300s", want, p, err, c20Tree(&holder.C, 0))
		}
		if i < 3 || (i == 5) {
			cellSeeds = append(cellSeeds, string(b))
		}
	}

	// ---- malformed documents ----
	subst := c20Subst
	if thorough {
		subst = append(append([]byte{}, c20Subst...), c20SubstMore...)
	}
	feed := func(kind string, doc []byte) {
		note(kind + "|doc|" + string(doc))
		if kind == "bs" {
			if p := c20Safe(func() { var x BitString; _ = json.Unmarshal(doc, &x) }); p != "" {
				fails.add("rc_bitstring_unmarshaljson_panics", "json.Unmarshal(BitString) on %q (hex %x): %s", doc, doc, p)
			}
			if p := c20Safe(func() { var x BitString; _ = x.UnmarshalJSON(append([]byte{}, doc...)) }); p != "" {
				fails.add("rc_bitstring_unmarshaljson_panics", "BitString.UnmarshalJSON on %q (hex %x): %s", doc, doc, p)
			}
			return
		}
		if p := c20Safe(func() { var x Cell; _ = json.Unmarshal(doc, &x) }); p != "" {
			fails.add("rc_cell_unmarshaljson_panics", "json.Unmarshal(Cell) on %q: %s", doc, p)
		}
		if p := c20Safe(func() { var x Cell; _ = x.UnmarshalJSON(append([]byte{}, doc...)) }); p != "" {
			fails.add("rc_cell_unmarshaljson_panics", "Cell.UnmarshalJSON on %q: %s", doc, p)
		}
	}
	for kind, seeds := range map[string][]string{"bs": bsSeeds, "cell": cellSeeds} {
		for _, s := range seeds {
			b := []byte(s)
			if len(b) > 300 && !thorough {
				b = append(append([]byte{}, b[:299]...), '"')
			}
			for n := 0; n <= len(b); n++ {
				feed(kind, b[:n])
			}
			for pos := 0; pos < len(b); pos++ {
				for _, x := range subst {
					if b[pos] != x {
						m := append([]byte{}, b...)
						m[pos] = x
						feed(kind, m)
					}
				}
			}
		}
		for _, d := range c20WrongShape {
			feed(kind, []byte(d))
		}
	}
	fails.report(t)
	fmt.Printf("STANDIN-STAT name=c20_json_boc cases=%d distinct=%d\n", cases, len(distinct))
}
