//go:build verif

package boc

// Bounded stand-in for C01 (labelled bounded, never counted as proved).
// Oracles: refHasher + the independent container reader / writer below and in refhash_helper_test.go
// (TL-B `serialized_boc#b5ee9c72`, `serialized_boc_idx#68ff65f3`, `serialized_boc_idx_crc32c#acc3a728`).
//
// Bound (quick tier):
//   A. DAG shapes (0..4 refs per cell, arbitrary sharing): every shape with <= 4 cells, every 5-cell shape with <= 2 refs per
//      cell, a deterministic sample (every 997th) of the 5-cell shapes with up to 4 refs; bit lengths from {0,1,7,8,9,1023}
//      (full product for <= 2 cells, 8 assignments per shape for 3 cells, 1 rotating/random assignment otherwise);
//      every 5th case replaces leaves by library / pruned-branch cells, every 3rd case is serialised as a 2-root bag;
//      x all 8 combinations of (idx, hasCrc32, cacheBits).
//      Thorough: full length product for 3 cells, 4 assignments per 4-cell shape, every 2nd 5-cell shape with <= 3 refs and
//      6-cell shape with <= 2 refs, samples of the 5/6-cell shapes with 4 refs, more lengths.
//      Per case: container layout against the TL-B definition (flag byte, minimal ref width, cell count == number of distinct
//      reference hashes, topological order, index entries == end offsets (doubled + cache bit when cacheBits), CRC32C),
//      parse back, structural equality with the input, reference hash equality;
//      canonicity: the same DAG built through other APIs (WriteUint / WriteBytes / WriteBitString / NewCellWithBits(ReadBits)
//      from aligned and unaligned cursors), without pointer sharing, and re-parsed from its own output gives the same bytes.
//   B. chains of 254..257 cells (ref index width 1 -> 2 bytes), 1025 cells (depth 1024, the limit) and 1026 cells (must be an
//      error, not a panic); thorough: heaps of 65535 / 65536 cells (width 2 -> 3).
//   C. foreign containers: an independent serialiser emits the same DAGs with other cell orders, wider ref / offset fields,
//      index / cache bits / CRC, stored hashes (d1 bit 16), multi-root, and the two index-only magic prefixes;
//      DeserializeBoc must return the same structure.
//   D. every testdata bag of cells: the library's parse equals an independent parse of the same bytes; re-serialising with all 8
//      option combinations and parsing back gives the same root hashes (quick: 3 combinations for containers above 64 KiB).

import (
	"bytes"
	"encoding/binary"
	"fmt"
	"hash/crc32"
	"math/bits"
	"math/rand"
	"os"
	"strings"
	"testing"
	"time"
)

type c01Env struct {
	t        *testing.T
	rep      *refReporter
	cases    int
	distinct map[string]bool
	thorough bool
	rng      *rand.Rand
}

func c01Serialize(roots []*Cell, opt int, api int) ([]byte, error) {
	idx, crc, cache := opt&1 != 0, opt&2 != 0, opt&4 != 0
	if len(roots) == 1 {
		switch api % 3 {
		case 0:
			return roots[0].ToBocCustom(idx, crc, cache, 0)
		case 1:
			return SerializeBoc(roots[0], idx, crc, cache, 0)
		default:
			return roots[0].ToBocCustomWithHasher(NewHasher(), idx, crc, cache, 0)
		}
	}
	return newBagOfCells().serializeBoc(roots, idx, crc, cache, 0)
}

// c01DistinctHashes counts the distinct reference hashes among all cells reachable from the roots.
func c01DistinctHashes(rh *refHasher, roots []*Cell) (int, error) {
	set := map[[32]byte]bool{}
	for _, c := range refReachable(roots...) {
		h, err := rh.top(c)
		if err != nil {
			return 0, err
		}
		set[h] = true
	}
	return len(set), nil
}

// roundTrip performs the per-case checks of part A for the DAG described by sp.
func (e *c01Env) roundTrip(sp *refBuildSpec, secondRoot int, caseNo int) {
	e.cases++
	what := func() string { return fmt.Sprintf("A: %v secondRoot=%d", sp, secondRoot) }
	defer func() {
		if r := recover(); r != nil {
			e.rep.errorf("%s: panic: %v", what(), r)
		}
	}()
	cells, err := refBuild(sp, refHowWriteBit, false)
	if err != nil {
		e.rep.errorf("%s: build: %v", what(), err)
		return
	}
	pick := func(cs []*Cell) []*Cell {
		if secondRoot > 0 {
			return []*Cell{cs[0], cs[secondRoot]}
		}
		return []*Cell{cs[0]}
	}
	roots := pick(cells)
	rh := newRefHasher(true)
	want := make([][32]byte, len(roots))
	for i, r := range roots {
		if want[i], err = rh.top(r); err != nil {
			e.rep.errorf("%s: reference: %v", what(), err)
			return
		}
	}
	nDistinct, err := c01DistinctHashes(rh, roots)
	if err != nil {
		e.rep.errorf("%s: reference: %v", what(), err)
		return
	}
	e.distinct[string(want[0][:])+fmt.Sprint(secondRoot)] = true
	var out [8][]byte
	var firstData []byte
	var firstRoots []int
	for opt := 0; opt < 8; opt++ {
		b, err := c01Serialize(roots, opt, caseNo+opt)
		if err != nil {
			e.rep.errorf("%s opt=%d: serialize: %v; input {%s}", what(), opt, err, refDumpLazy(roots...))
			return
		}
		out[opt] = b
		if s := refCheckContainer(b, opt&1 != 0, opt&2 != 0, opt&4 != 0, nDistinct, len(roots)); strings.HasPrefix(s, "index entry") && opt&4 != 0 {
			e.rep.errorf("%s opt=%d (idx=%v crc=%v cacheBits=%v): index table: %s; bytes %x; input {%s}", what(), opt, opt&1 != 0, opt&2 != 0, opt&4 != 0, s, b, refDumpLazy(roots...))
		} else if s != "" {
			e.rep.errorf("%s opt=%d (idx=%v crc=%v cacheBits=%v): container layout: %s; bytes %x; input {%s}", what(), opt, opt&1 != 0, opt&2 != 0, opt&4 != 0, s, b, refDumpLazy(roots...))
		}
		if h, err := refParseBocHeader(b); err == nil {
			if opt == 0 {
				firstData, firstRoots = h.cellData, h.rootList
			} else if !bytes.Equal(firstData, h.cellData) || fmt.Sprint(firstRoots) != fmt.Sprint(h.rootList) {
				e.rep.errorf("%s opt=%d: cell data / root list differ from those of opt=0: %x vs %x", what(), opt, b, out[0])
			}
		}
		parsed, err := DeserializeBoc(b)
		if err != nil || len(parsed) != len(roots) {
			e.rep.errorf("%s opt=%d: DeserializeBoc(%x) = %d roots, %v", what(), opt, b, len(parsed), err)
			continue
		}
		prh := newRefHasher(true)
		for i := range roots {
			if s := refSameStructure(roots[i], parsed[i]); s != "" {
				e.rep.errorf("%s opt=%d root %d: parsed structure differs: %s; bytes %x; input {%s}", what(), opt, i, s, b, refDumpLazy(roots...))
			}
			if h, err := prh.top(parsed[i]); err != nil || h != want[i] {
				e.rep.errorf("%s opt=%d root %d: reference hash of the parsed root %x (%v), of the input %x; bytes %x", what(), opt, i, h, err, want[i], b)
			}
			if h, err := parsed[i].Hash256(); err != nil || h != want[i] {
				e.rep.errorf("%s opt=%d root %d: library hash of the parsed root %x (%v), reference %x; bytes %x", what(), opt, i, h, err, want[i], b)
			}
		}
		if opt == caseNo%8 {
			// idempotence: the parsed DAG serialises to the same bytes
			if b2, err := c01Serialize(parsed, opt, caseNo+1); err != nil || !bytes.Equal(b, b2) {
				e.rep.errorf("%s opt=%d: re-serialising the parsed cells gives %x (%v), first output %x", what(), opt, b2, err, b)
			}
		}
	}
	// canonicity: structurally equal inputs built differently
	opt := caseNo % 8
	variant := func(how int, unshare bool) {
		cs, err := refBuild(sp, how, unshare)
		if err != nil {
			e.rep.errorf("%s: build (api %d unshare %v): %v", what(), how, unshare, err)
			return
		}
		r2 := pick(cs)
		for i := range roots {
			if s := refSameStructure(roots[i], r2[i]); s != "" {
				e.rep.errorf("%s: HARNESS: variants differ structurally (api %d): %s", what(), how, s)
				return
			}
		}
		b, err := c01Serialize(r2, opt, caseNo+how)
		if err != nil || !bytes.Equal(b, out[opt]) {
			e.rep.errorf("%s opt=%d: structurally equal input built through api %d (unshare=%v) serialises to %x (%v), the WriteBit-built one to %x; input {%s}",
				what(), opt, how, unshare, b, err, out[opt], refDumpLazy(r2...))
		}
	}
	variant(1+caseNo%(refHowCount-1), false)
	variant(1+(caseNo/5)%(refHowCount-1), false)
	if refExpandedSize(sp.shape) <= 200 {
		variant(caseNo%refHowCount, true)
	}
}

func (e *c01Env) partA() {
	lens := []int{0, 1, 7, 8, 9, 1023}
	if e.thorough {
		lens = append(lens, 2, 6, 15, 16, 17, 255, 256, 257, 1016, 1017, 1022)
	}
	caseNo := 0
	perN := map[int]int{}
	defer func() { e.t.Logf("A: enumerated inputs per cell count: %v", perN) }()
	run := func(s refShape, bl []int) {
		caseNo++
		n := len(s)
		perN[n]++
		sp := &refBuildSpec{shape: s, bitLens: bl, seed: uint64(refSeed()) + uint64(caseNo%17), same: caseNo%7 == 0}
		if caseNo%5 == 0 {
			sp.exotic = make([]int, n)
			for i := range sp.exotic {
				sp.exotic[i] = (caseNo/5 + i) % 3
			}
		}
		second := -1
		if n >= 2 && caseNo%3 == 0 {
			second = 1 + (caseNo/3)%(n-1)
		}
		e.roundTrip(sp, second, caseNo)
	}
	full := func(n int) {
		refEnumShapes(n, 4, func(s refShape) bool {
			bl := make([]int, n)
			var rec func(i int)
			rec = func(i int) {
				if i == n {
					run(s, bl)
					return
				}
				for _, l := range lens[:6] {
					bl[i] = l
					rec(i + 1)
				}
			}
			rec(0)
			return true
		})
	}
	some := func(n, maxRefs, perShape, every int) {
		cnt := 0
		refEnumShapes(n, maxRefs, func(s refShape) bool {
			cnt++
			if cnt%every != 0 {
				return true
			}
			for k := 0; k < perShape; k++ {
				bl := make([]int, n)
				u := lens[(caseNo+k)%len(lens)]
				for i := range bl {
					if k%2 == 0 && perShape > 1 {
						bl[i] = u
					} else {
						bl[i] = lens[e.rng.Intn(len(lens))]
					}
				}
				run(s, bl)
			}
			return true
		})
	}
	full(1)
	full(2)
	if e.thorough {
		full(3)
		some(3, 4, 12, 1)
		some(4, 4, 4, 1)
		some(5, 3, 1, 2)
		some(5, 4, 1, 197)
		some(6, 2, 1, 2)
		some(6, 4, 1, 99991)
	} else {
		some(3, 4, 8, 1)
		some(4, 4, 1, 1)
		some(5, 2, 1, 1)
		some(5, 4, 1, 997)
	}
}

// heap builds n distinct ordinary cells in heap layout (cell i refers to 4i+1..4i+4) and returns the root.
func c01Heap(n int) *Cell {
	cells := make([]*Cell, n)
	for i := n - 1; i >= 0; i-- {
		c := NewCell()
		_ = c.WriteUint(uint64(i), 32)
		for k := 1; k <= 4; k++ {
			if 4*i+k < n {
				_ = c.AddRef(cells[4*i+k])
			}
		}
		cells[i] = c
	}
	return cells[0]
}

func c01Chain(n int, bitsPerCell int) *Cell {
	var next *Cell
	for i := 0; i < n; i++ {
		c := NewCell()
		_ = c.WriteUint(uint64(i), bitsPerCell)
		if next != nil {
			_ = c.AddRef(next)
		}
		next = c
	}
	return next
}

func (e *c01Env) bigCase(name string, root *Cell, wantCells int, wantSize int, opts []int) {
	defer func() {
		if r := recover(); r != nil {
			e.rep.errorf("B: %s: panic: %v", name, r)
		}
	}()
	rh := newRefHasher(true)
	want, err := rh.top(root)
	if err != nil {
		e.rep.errorf("B: %s: reference: %v", name, err)
		return
	}
	for _, opt := range opts {
		e.cases++
		e.distinct[fmt.Sprintf("%s/%d", name, opt)] = true
		b, err := c01Serialize([]*Cell{root}, opt, opt)
		if err != nil {
			e.rep.errorf("B: %s opt=%d: serialize: %v", name, opt, err)
			continue
		}
		show := b
		if len(show) > 96 {
			show = show[:96]
		}
		if s := refCheckContainer(b, opt&1 != 0, opt&2 != 0, opt&4 != 0, wantCells, 1); strings.HasPrefix(s, "index entry") && opt&4 != 0 {
			e.rep.errorf("B: %s opt=%d: index table: %s (first bytes %x)", name, opt, s, show)
		} else if s != "" {
			e.rep.errorf("B: %s opt=%d: container layout: %s (first bytes %x)", name, opt, s, show)
		}
		if h, err := refParseBocHeader(b); err == nil && h.size != wantSize {
			e.rep.errorf("B: %s opt=%d: ref index width %d, want %d", name, opt, h.size, wantSize)
		}
		parsed, err := DeserializeBoc(b)
		if err != nil || len(parsed) != 1 {
			e.rep.errorf("B: %s opt=%d: DeserializeBoc: %d roots, %v (first bytes %x)", name, opt, len(parsed), err, show)
			continue
		}
		if s := refSameStructure(root, parsed[0]); s != "" {
			e.rep.errorf("B: %s opt=%d: parsed structure differs: %s", name, opt, s)
		}
		if h, err := newRefHasher(true).top(parsed[0]); err != nil || h != want {
			e.rep.errorf("B: %s opt=%d: reference hash of the parsed root %x (%v), input %x", name, opt, h, err, want)
		}
	}
}

func (e *c01Env) partB() {
	all := []int{0, 1, 2, 3, 4, 5, 6, 7}
	for _, n := range []int{254, 255, 256, 257} {
		size := 1
		if n >= 256 {
			size = 2
		}
		e.bigCase(fmt.Sprintf("chain of %d cells", n), c01Chain(n, 9), n, size, all)
	}
	e.bigCase("chain of 1025 cells (depth 1024)", c01Chain(1025, 11), 1025, 2, all)
	// one more level is beyond the limit: an error, not a panic and not a container
	func() {
		e.cases++
		defer func() {
			if r := recover(); r != nil {
				e.rep.errorf("B: chain of 1026 cells: panic: %v", r)
			}
		}()
		root := c01Chain(1026, 11)
		if _, err := newRefHasher(true).top(root); err != errRefDepth {
			e.rep.errorf("B: HARNESS: reference accepts depth 1025: %v", err)
		}
		if b, err := root.ToBoc(); err == nil {
			e.rep.errorf("B: chain of 1026 cells (depth 1025) serialised without error (%d bytes)", len(b))
		}
	}()
	opts := []int{0, 7}
	if e.thorough {
		opts = all
	}
	if e.thorough || os.Getenv("VERIF_C01_HEAP") != "" {
		e.bigCase("heap of 65535 cells", c01Heap(65535), 65535, 2, opts)
		e.bigCase("heap of 65536 cells", c01Heap(65536), 65536, 3, opts)
	}
}

// ---------------------------------------------------------------------------------------------------------------------
// independent serialiser ("another conforming implementation")

type c01Foreign struct {
	magic      int  // 0 generic, 1 idx (68ff65f3), 2 idx+crc (acc3a728)
	idx        bool // generic only
	crc        bool // generic only
	cache      bool // generic only, needs idx
	sizeExtra  int  // ref index width above the minimum
	offExtra   int  // offset width above the minimum
	revKids    bool // visit children right-to-left when ordering
	withHashes bool // store hash + depth inside level-0 ordinary cells (d1 bit 16)
	noDedup    bool // keep pointer-distinct equal cells as separate entries
}

func (f c01Foreign) String() string {
	return fmt.Sprintf("magic=%d idx=%v crc=%v cache=%v size+%d off+%d revKids=%v withHashes=%v noDedup=%v", f.magic, f.idx, f.crc, f.cache, f.sizeExtra, f.offExtra, f.revKids, f.withHashes, f.noDedup)
}

func c01PutBE(dst []byte, v uint64, n int) []byte {
	for i := n - 1; i >= 0; i-- {
		dst = append(dst, byte(v>>(8*uint(i))))
	}
	return dst
}

// c01ForeignSerialize writes roots as a bag of cells following the TL-B definitions, independently of the library.
func c01ForeignSerialize(rh *refHasher, roots []*Cell, f c01Foreign) ([]byte, error) {
	// topological order: reverse DFS postorder over canonical representatives
	canon := map[[32]byte]*Cell{}
	rep := func(c *Cell) (*Cell, error) {
		if f.noDedup {
			return c, nil
		}
		h, err := rh.top(c)
		if err != nil {
			return nil, err
		}
		if r, ok := canon[h]; ok {
			return r, nil
		}
		canon[h] = c
		return c, nil
	}
	var post []*Cell
	state := map[*Cell]bool{}
	var visit func(c *Cell) error
	visit = func(c *Cell) error {
		c, err := rep(c)
		if err != nil {
			return err
		}
		if state[c] {
			return nil
		}
		state[c] = true
		kids := refKids(c)
		if f.revKids {
			for i := len(kids) - 1; i >= 0; i-- {
				if err := visit(kids[i]); err != nil {
					return err
				}
			}
		} else {
			for _, k := range kids {
				if err := visit(k); err != nil {
					return err
				}
			}
		}
		post = append(post, c)
		return nil
	}
	for _, r := range roots {
		if err := visit(r); err != nil {
			return nil, err
		}
	}
	n := len(post)
	index := map[*Cell]int{}
	order := make([]*Cell, n)
	for i, c := range post {
		order[n-1-i] = c
		index[c] = n - 1 - i
	}
	size := 1
	for n >= 1<<(8*uint(size)) {
		size++
	}
	size += f.sizeExtra
	if size > 4 {
		size = 4
	}
	var data []byte
	ends := make([]int, n)
	for i, c := range order {
		m, err := rh.mask(c)
		if err != nil {
			return nil, err
		}
		kids := refKids(c)
		nb := c.bits.len
		d1 := len(kids) + 32*m
		if c.cellType != OrdinaryCell {
			d1 += 8
		}
		wh := f.withHashes && c.cellType == OrdinaryCell && m == 0
		if wh {
			d1 += 16
		}
		data = append(data, byte(d1), byte((nb+7)/8+nb/8))
		if wh {
			v, err := rh.hashDepth(c, 0)
			if err != nil {
				return nil, err
			}
			data = append(data, v.hash[:]...)
			data = append(data, byte(v.depth>>8), byte(v.depth))
		}
		data = append(data, refData(c)...)
		for _, k := range kids {
			kr, err := rep(k)
			if err != nil {
				return nil, err
			}
			data = c01PutBE(data, uint64(index[kr]), size)
		}
		ends[i] = len(data)
	}
	maxOff := uint64(len(data))
	if f.magic == 0 && f.cache {
		maxOff *= 2
	}
	off := 1
	for off < 8 && maxOff >= 1<<(8*uint(off)) {
		off++
	}
	off += f.offExtra
	if off > 8 {
		off = 8
	}
	var out []byte
	hasIdx := f.idx
	hasCrc := f.crc
	switch f.magic {
	case 0:
		out = append(out, 0xb5, 0xee, 0x9c, 0x72)
		fl := size
		if f.idx {
			fl |= 0x80
		}
		if f.crc {
			fl |= 0x40
		}
		if f.cache {
			fl |= 0x20
		}
		out = append(out, byte(fl))
	case 1:
		out = append(out, 0x68, 0xff, 0x65, 0xf3, byte(size))
		hasIdx, hasCrc = true, false
	default:
		out = append(out, 0xac, 0xc3, 0xa7, 0x28, byte(size))
		hasIdx, hasCrc = true, true
	}
	out = append(out, byte(off))
	out = c01PutBE(out, uint64(n), size)
	out = c01PutBE(out, uint64(len(roots)), size)
	out = c01PutBE(out, 0, size)
	out = c01PutBE(out, uint64(len(data)), off)
	if f.magic == 0 {
		for _, r := range roots {
			rr, err := rep(r)
			if err != nil {
				return nil, err
			}
			out = c01PutBE(out, uint64(index[rr]), size)
		}
	} else if len(roots) != 1 || index[roots[0]] != 0 {
		return nil, fmt.Errorf("index-only formats need a single root at position 0")
	}
	if hasIdx {
		for i := range order {
			v := uint64(ends[i])
			if f.magic == 0 && f.cache {
				v = v*2 + uint64(i&1)
			}
			out = c01PutBE(out, v, off)
		}
	}
	out = append(out, data...)
	if hasCrc {
		var c [4]byte
		binary.LittleEndian.PutUint32(c[:], crc32.Checksum(out, crc32.MakeTable(crc32.Castagnoli)))
		out = append(out, c[:]...)
	}
	return out, nil
}

func (e *c01Env) foreignCase(what func() string, roots []*Cell, f c01Foreign) {
	e.cases++
	defer func() {
		if r := recover(); r != nil {
			e.rep.errorf("C: %s [%v]: panic: %v", what(), f, r)
		}
	}()
	rh := newRefHasher(true)
	b, err := c01ForeignSerialize(rh, roots, f)
	if err != nil {
		e.rep.errorf("C: HARNESS: %s [%v]: %v", what(), f, err)
		return
	}
	e.distinct[string(b)] = true
	parsed, err := DeserializeBoc(b)
	if (err != nil || len(parsed) != len(roots)) && f.magic != 0 {
		e.rep.errorf("C: index-only magic: %s [%v]: DeserializeBoc(%x) = %d roots, %v; input {%s}", what(), f, b, len(parsed), err, refDumpLazy(roots...))
		return
	}
	if err != nil || len(parsed) != len(roots) {
		e.rep.errorf("C: %s [%v]: DeserializeBoc(%x) = %d roots, %v; input {%s}", what(), f, b, len(parsed), err, refDumpLazy(roots...))
		return
	}
	for i := range roots {
		if s := refSameStructure(roots[i], parsed[i]); s != "" {
			e.rep.errorf("C: %s [%v] root %d: parsed structure differs: %s; bytes %x; input {%s}", what(), f, i, s, b, refDumpLazy(roots...))
			continue
		}
		w, _ := rh.top(roots[i])
		if h, err := parsed[i].Hash256(); err != nil || h != w {
			e.rep.errorf("C: %s [%v] root %d: hash of the parsed root %x (%v), intended %x; bytes %x", what(), f, i, h, err, w, b)
		}
	}
}

func (e *c01Env) partC() {
	var variants []c01Foreign
	for opt := 0; opt < 8; opt++ {
		if opt&4 != 0 && opt&1 == 0 {
			continue // cache bits without an index is not a valid header
		}
		variants = append(variants, c01Foreign{idx: opt&1 != 0, crc: opt&2 != 0, cache: opt&4 != 0})
	}
	variants = append(variants,
		c01Foreign{sizeExtra: 1}, c01Foreign{sizeExtra: 3, idx: true}, c01Foreign{offExtra: 1, idx: true}, c01Foreign{offExtra: 7, idx: true, crc: true, cache: true},
		c01Foreign{revKids: true}, c01Foreign{revKids: true, idx: true, crc: true}, c01Foreign{withHashes: true}, c01Foreign{withHashes: true, idx: true, cache: true, crc: true, revKids: true},
		c01Foreign{noDedup: true}, c01Foreign{noDedup: true, revKids: true, sizeExtra: 1, offExtra: 2, crc: true},
		c01Foreign{magic: 1}, c01Foreign{magic: 2}, c01Foreign{magic: 1, sizeExtra: 1, offExtra: 1}, c01Foreign{magic: 2, revKids: true, withHashes: true},
	)
	lens := []int{0, 1, 7, 8, 9, 1023}
	caseNo := 0
	maxN, every := 4, 23
	if e.thorough {
		maxN, every = 5, 3
	}
	for n := 1; n <= maxN; n++ {
		cnt := 0
		refEnumShapes(n, 4, func(s refShape) bool {
			cnt++
			if n == 4 && cnt%every != 0 || n == 5 && cnt%499 != 0 {
				return true
			}
			caseNo++
			bl := make([]int, n)
			for i := range bl {
				bl[i] = lens[(caseNo+i*5)%len(lens)]
			}
			sp := &refBuildSpec{shape: append(refShape{}, s...), bitLens: bl, seed: uint64(refSeed()) + 99, same: caseNo%4 == 0}
			if caseNo%3 == 0 {
				sp.exotic = make([]int, n)
				for i := range sp.exotic {
					sp.exotic[i] = (caseNo + i) % 3
				}
			}
			cells, err := refBuild(sp, refHowWriteBit, caseNo%2 == 0 && refExpandedSize(s) < 100)
			if err != nil {
				e.rep.errorf("C: build %v: %v", sp, err)
				return true
			}
			for vi, f := range variants {
				if n >= 3 && (vi+caseNo)%3 != 0 {
					continue
				}
				roots := []*Cell{cells[0]}
				if f.magic == 0 && n >= 2 && (caseNo+vi)%4 == 0 {
					roots = append(roots, cells[1+caseNo%(n-1)])
					if caseNo%8 == 0 {
						roots[0], roots[1] = roots[1], roots[0]
					}
				}
				e.foreignCase(func() string { return sp.String() }, roots, f)
			}
			return true
		})
	}
}

// c01IndependentParse rebuilds the roots of a generic container with the reader of refhash_helper_test.go.
func c01IndependentParse(b []byte) ([]*Cell, error) {
	h, err := refParseBocHeader(b)
	if err != nil {
		return nil, err
	}
	if h.total != len(b) {
		return nil, fmt.Errorf("trailing bytes")
	}
	raw, err := h.rawCells()
	if err != nil {
		return nil, err
	}
	cells := make([]*Cell, len(raw))
	for i := len(raw) - 1; i >= 0; i-- {
		rc := raw[i]
		buf := append([]byte{}, rc.data...)
		nb := len(buf) * 8
		if rc.d2&1 != 0 {
			if len(buf) == 0 || buf[len(buf)-1] == 0 {
				return nil, fmt.Errorf("cell %d: missing completion tag", i)
			}
			tz := bits.TrailingZeros8(buf[len(buf)-1])
			buf[len(buf)-1] &^= 1 << uint(tz)
			nb -= tz + 1
		}
		c := &Cell{bits: BitString{buf: buf, cap: CellBits, len: nb}, mask: levelMask(rc.d1 >> 5)}
		if rc.d1&8 != 0 {
			if len(buf) == 0 {
				return nil, fmt.Errorf("cell %d: exotic without type", i)
			}
			c.cellType = CellType(buf[0])
		}
		if len(rc.refs) > 4 {
			return nil, fmt.Errorf("cell %d: %d refs", i, len(rc.refs))
		}
		for k, r := range rc.refs {
			if r <= i || r >= len(raw) {
				return nil, fmt.Errorf("cell %d: bad ref %d", i, r)
			}
			c.refs[k] = cells[r]
		}
		cells[i] = c
	}
	var roots []*Cell
	for _, r := range h.rootList {
		if r >= len(cells) {
			return nil, fmt.Errorf("bad root")
		}
		roots = append(roots, cells[r])
	}
	return roots, nil
}

func (e *c01Env) partD() {
	deadline := time.Now().Add(14 * time.Second)
	if e.thorough {
		deadline = time.Now().Add(6 * time.Minute)
	}
	n, indexed := 0, 0
	for fi, nb := range refTestdataBocs() {
		if time.Now().After(deadline) {
			e.t.Logf("D: time budget used up, stopping before %s", nb.name)
			break
		}
		func() {
			defer func() {
				if r := recover(); r != nil {
					e.rep.errorf("D: %s: panic: %v", nb.name, r)
				}
			}()
			roots, err := DeserializeBoc(nb.data)
			if err != nil || len(roots) == 0 {
				return
			}
			n++
			rh := newRefHasher(true)
			want := make([][32]byte, len(roots))
			for i, r := range roots {
				if want[i], err = rh.top(r); err != nil {
					e.rep.errorf("D: %s: reference cannot hash root %d: %v", nb.name, i, err)
					return
				}
			}
			// oracle sanity: containers written by the reference serialiser carry an index that the reader of
			// refhash_helper_test.go interprets as "end offset of cell i" (doubled, plus cache bit, when has_cache_bits)
			if h, err := refParseBocHeader(nb.data); err == nil && h.hasIdx {
				if raw, err := h.rawCells(); err == nil {
					for i, rc := range raw {
						v := h.index[i]
						if h.hasCache {
							v >>= 1
						}
						if v != uint64(rc.end) {
							e.rep.errorf("D: ORACLE sanity: %s: stored index entry %d is %#x, cell ends at %d", nb.name, i, h.index[i], rc.end)
							break
						}
					}
					indexed++
				}
			}
			// the library's parse against an independent parse of the same bytes
			if mine, err := c01IndependentParse(nb.data); err != nil {
				e.rep.errorf("D: HARNESS: %s: independent parse failed: %v", nb.name, err)
			} else if len(mine) != len(roots) {
				e.rep.errorf("D: %s: %d roots, independent parse %d", nb.name, len(roots), len(mine))
			} else {
				e.cases++
				for i := range mine {
					if s := refSameStructure(mine[i], roots[i]); s != "" {
						e.rep.errorf("D: %s root %d: DeserializeBoc differs from the independent parse: %s", nb.name, i, s)
					}
				}
			}
			nDistinct, err := c01DistinctHashes(rh, roots)
			if err != nil {
				e.rep.errorf("D: %s: reference: %v", nb.name, err)
				return
			}
			for opt := 0; opt < 8; opt++ {
				if !e.thorough && len(nb.data) > 64<<10 && opt != 7 && opt != 0 && opt != 1+fi%6 {
					continue
				}
				e.cases++
				e.distinct[fmt.Sprintf("%s/%d", nb.name, opt)] = true
				b, err := c01Serialize(roots, opt, fi+opt)
				if err != nil {
					e.rep.errorf("D: %s opt=%d: serialize: %v", nb.name, opt, err)
					continue
				}
				if s := refCheckContainer(b, opt&1 != 0, opt&2 != 0, opt&4 != 0, nDistinct, len(roots)); strings.HasPrefix(s, "index entry") && opt&4 != 0 {
					e.rep.errorf("D: %s opt=%d (idx=%v crc=%v cacheBits=%v): index table: %s", nb.name, opt, opt&1 != 0, opt&2 != 0, opt&4 != 0, s)
				} else if s != "" {
					e.rep.errorf("D: %s opt=%d (idx=%v crc=%v cacheBits=%v): container layout: %s", nb.name, opt, opt&1 != 0, opt&2 != 0, opt&4 != 0, s)
				}
				parsed, err := DeserializeBoc(b)
				if err != nil || len(parsed) != len(roots) {
					e.rep.errorf("D: %s opt=%d: parsing the re-serialised container: %d roots, %v", nb.name, opt, len(parsed), err)
					continue
				}
				prh := newRefHasher(true)
				for i := range parsed {
					if h, err := prh.top(parsed[i]); err != nil || h != want[i] {
						e.rep.errorf("D: %s opt=%d root %d: hash after re-serialisation %x (%v), before %x", nb.name, opt, i, h, err, want[i])
					}
				}
			}
		}()
	}
	if n == 0 {
		e.rep.errorf("D: no testdata bag of cells could be parsed")
	}
	e.t.Logf("D: %d testdata containers, %d of them carry an index that agrees with the independent reader", n, indexed)
}

func TestVerifStandin_C01_RoundTrip(t *testing.T) {
	e := &c01Env{
		t: t, rep: &refReporter{t: t, max: 3}, distinct: map[string]bool{},
		thorough: os.Getenv("VERIF_TIER") == "thorough",
		rng:      rand.New(rand.NewSource(refSeed())),
	}
	defer func() {
		e.rep.done()
		fmt.Printf("STANDIN-STAT name=c01_roundtrip cases=%d distinct=%d\n", e.cases, len(e.distinct))
	}()
	t0 := time.Now()
	e.partA()
	cA, tA := e.cases, time.Since(t0)
	e.partB()
	cB, tB := e.cases, time.Since(t0)
	e.partC()
	cC, tC := e.cases, time.Since(t0)
	e.partD()
	t.Logf("cases/time: A %d %v, B %d %v, C %d %v, D %d %v", cA, tA, cB-cA, tB-tA, cC-cB, tC-tB, e.cases-cC, time.Since(t0)-tC)
}
