//go:build verif

package boc

// Shared helpers of the bounded stand-ins C01 / C02 (never counted as proved).
//
// 1. refHasher: an INDEPENDENT reference implementation of the TON cell representation hash / depth / level,
//    written from the specification (TON whitepaper "tblkch" 3.1.4-3.1.7 and the level-mask rules of exotic cells):
//
//      level mask  m(c):  ordinary      = OR of the children's masks
//                         pruned branch = second data byte (1..7), data = 01 | m | hashes(32B each) | depths(2B each)
//                         library       = 0 (data = 02 | 256 bit hash)
//                         Merkle proof  = m(child) >> 1            (data = 03 | hash | depth, one ref)
//                         Merkle update = (m(c1) | m(c2)) >> 1     (data = 04 | h1 | h2 | d1 | d2, two refs)
//      level       = bit length of m
//      Hash_i(c), Depth_i(c) for i = 0..3:
//          mi = m & (2^i - 1);  j = bit length of mi  (the highest significant level <= i)
//          pruned branch with mi != m: the popcount(mi)-th stored hash / depth
//          otherwise  repr = d1 | d2 | body | Depth_cl(child) (2 bytes BE each) | Hash_cl(child)
//                     d1   = #refs + 8*exotic + 32*mi,  d2 = ceil(bits/8) + floor(bits/8)
//                     body = data padded with the completion tag (1 then 0s) when bits%8 != 0   if j == 0 or pruned
//                          = Hash_{j-1}(c)                                                      otherwise
//                     cl   = j, or j+1 for Merkle proof / Merkle update cells
//                     Hash = SHA256(repr), Depth = 0 without refs, else 1 + max child depth (at most 1024)
//
//    It only reads the raw fields of Cell (bits.buf, bits.len, refs, cellType); it never calls the library's hashing code,
//    level-mask helpers, d1/d2 or bocReprWithoutRefs. The data part is rebuilt from the logical length (bits behind it are
//    replaced by the completion tag; C02 cross-checks this against a bit-by-bit ideal bit list), so stray bits behind the
//    logical length do not leak into the reference value.
//    In "pure" mode it is a plain recursion without any memoisation (used for the small enumerated DAGs); with memo=true
//    it keeps its own (cell, level) table so that real blocks with tens of thousands of shared cells stay linear.
//
// 2. a minimal independent reader of the bag-of-cells container (header + raw cells) used to check the
//    serialiser's output against the TL-B layout `serialized_boc#b5ee9c72`.
//
// 3. enumeration of DAG shapes and construction of cells through different APIs; discovery of testdata BOCs.

import (
	"bytes"
	"crypto/sha256"
	"encoding/base64"
	"encoding/binary"
	"encoding/hex"
	"errors"
	"fmt"
	"hash/crc32"
	"io/fs"
	"math/bits"
	"os"
	"path/filepath"
	"regexp"
	"sort"
	"strconv"
	"strings"
	"testing"
)

// refSeed is the seed every random choice derives from (env VERIF_SEED, default 1).
func refSeed() int64 {
	if s, err := strconv.ParseInt(os.Getenv("VERIF_SEED"), 10, 64); err == nil {
		return s
	}
	return 1
}

// refReporter caps the number of printed failures per check site (the totals are still reported).
type refReporter struct {
	t      *testing.T
	n      int
	max    int // per check site (= format string)
	counts map[string]int
}

func (r *refReporter) errorf(format string, args ...interface{}) {
	if r.counts == nil {
		r.counts = map[string]int{}
	}
	r.n++
	r.counts[format]++
	if r.counts[format] <= r.max {
		r.t.Errorf(format, args...)
	}
}

func (r *refReporter) done() {
	var keys []string
	for k, c := range r.counts {
		if c > r.max {
			keys = append(keys, k)
		}
	}
	sort.Strings(keys)
	for _, k := range keys {
		r.t.Errorf("%d failures of the kind %q, only the first %d printed", r.counts[k], k, r.max)
	}
}

// refLazy defers an expensive description until a failure is actually printed.
type refLazy func() string

func (l refLazy) String() string { return l() }

func refDumpLazy(roots ...*Cell) refLazy {
	return func() string { return refDump(roots...) }
}

// ---------------------------------------------------------------------------------------------------------------------
// reference hasher

type refHD struct {
	hash  [32]byte
	depth int
}

type refKey struct {
	c     *Cell
	level int
}

type refHasher struct {
	memo  bool
	hd    map[refKey]refHD
	masks map[*Cell]int
}

var errRefDepth = errors.New("reference: depth exceeds 1024")

func newRefHasher(memo bool) *refHasher {
	return &refHasher{memo: memo, hd: map[refKey]refHD{}, masks: map[*Cell]int{}}
}

// refCellBits returns the ideal bit list of the cell's data.
func refCellBits(c *Cell) []bool {
	n := c.bits.len
	out := make([]bool, n)
	for i := 0; i < n; i++ {
		out[i] = c.bits.buf[i/8]&(0x80>>uint(i%8)) != 0
	}
	return out
}

// refPad packs a bit list into bytes, appending the completion tag when the length is not a multiple of 8.
func refPad(bl []bool) []byte {
	out := make([]byte, (len(bl)+7)/8)
	for i, b := range bl {
		if b {
			out[i/8] |= 0x80 >> uint(i%8)
		}
	}
	if len(bl)%8 != 0 {
		out[len(bl)/8] |= 0x80 >> uint(len(bl)%8)
	}
	return out
}

// refData returns the cell's data as stored in a representation: the first ceil(n/8) bytes, with the bits behind the
// logical length replaced by the completion tag (same value as refData(c), computed bytewise).
func refData(c *Cell) []byte {
	n := c.bits.len
	out := make([]byte, (n+7)/8)
	copy(out, c.bits.buf[:(n+7)/8])
	if r := uint(n % 8); r != 0 {
		out[n/8] = out[n/8]&(0xff<<(8-r)) | 0x80>>r
	}
	return out
}

func refKids(c *Cell) []*Cell {
	var out []*Cell
	for _, r := range c.refs {
		if r != nil {
			out = append(out, r)
		}
	}
	return out
}

// mask computes the level mask the specification prescribes for c and checks the exotic-cell layout.
func (h *refHasher) mask(c *Cell) (int, error) {
	if h.memo {
		if m, ok := h.masks[c]; ok {
			return m, nil
		}
	}
	kids := refKids(c)
	nb := c.bits.len
	var data []byte
	if c.cellType != OrdinaryCell {
		if nb < 8 {
			return 0, fmt.Errorf("reference: exotic cell with %d data bits", nb)
		}
		data = refData(c)
		if data[0] != byte(c.cellType) {
			return 0, fmt.Errorf("reference: exotic cell of type %d starts with byte %#x", c.cellType, data[0])
		}
	}
	m := 0
	switch c.cellType {
	case OrdinaryCell:
		for _, k := range kids {
			km, err := h.mask(k)
			if err != nil {
				return 0, err
			}
			m |= km
		}
	case PrunedBranchCell:
		if len(kids) != 0 || nb < 16 {
			return 0, fmt.Errorf("reference: malformed pruned branch (%d bits, %d refs)", nb, len(kids))
		}
		m = int(data[1])
		if m < 1 || m > 7 {
			return 0, fmt.Errorf("reference: pruned branch with mask %d", m)
		}
		if nb != 16+bits.OnesCount(uint(m))*(256+16) {
			return 0, fmt.Errorf("reference: pruned branch with mask %d has %d bits", m, nb)
		}
	case LibraryCell:
		if len(kids) != 0 || nb != 8+256 {
			return 0, fmt.Errorf("reference: malformed library cell (%d bits, %d refs)", nb, len(kids))
		}
	case MerkleProofCell:
		if len(kids) != 1 || nb != 8+256+16 {
			return 0, fmt.Errorf("reference: malformed merkle proof (%d bits, %d refs)", nb, len(kids))
		}
		km, err := h.mask(kids[0])
		if err != nil {
			return 0, err
		}
		m = km >> 1
	case MerkleUpdateCell:
		if len(kids) != 2 || nb != 8+2*(256+16) {
			return 0, fmt.Errorf("reference: malformed merkle update (%d bits, %d refs)", nb, len(kids))
		}
		for _, k := range kids {
			km, err := h.mask(k)
			if err != nil {
				return 0, err
			}
			m |= km
		}
		m >>= 1
	default:
		return 0, fmt.Errorf("reference: unknown cell type %d", c.cellType)
	}
	if h.memo {
		h.masks[c] = m
	}
	return m, nil
}

func (h *refHasher) level(c *Cell) (int, error) {
	m, err := h.mask(c)
	if err != nil {
		return 0, err
	}
	return bits.Len(uint(m)), nil
}

// hashDepth returns Hash_level(c), Depth_level(c).
func (h *refHasher) hashDepth(c *Cell, level int) (refHD, error) {
	if h.memo {
		if v, ok := h.hd[refKey{c, level}]; ok {
			return v, nil
		}
	}
	v, err := h.hashDepth1(c, level)
	if err != nil {
		return v, err
	}
	if h.memo {
		h.hd[refKey{c, level}] = v
	}
	return v, nil
}

func (h *refHasher) hashDepth1(c *Cell, level int) (refHD, error) {
	var res refHD
	m, err := h.mask(c)
	if err != nil {
		return res, err
	}
	mi := m & (1<<uint(level) - 1)
	kids := refKids(c)
	nb := c.bits.len
	pruned := c.cellType == PrunedBranchCell
	if pruned && mi != m {
		data := refData(c)
		idx := bits.OnesCount(uint(mi))
		n := bits.OnesCount(uint(m))
		copy(res.hash[:], data[2+32*idx:2+32*idx+32])
		res.depth = int(binary.BigEndian.Uint16(data[2+32*n+2*idx:]))
		return res, nil
	}
	j := bits.Len(uint(mi))
	exotic := 0
	if c.cellType != OrdinaryCell {
		exotic = 8
	}
	repr := []byte{byte(len(kids) + exotic + 32*mi), byte((nb+7)/8 + nb/8)}
	if j == 0 || pruned {
		repr = append(repr, refData(c)...)
	} else {
		prev, err := h.hashDepth(c, j-1)
		if err != nil {
			return res, err
		}
		repr = append(repr, prev.hash[:]...)
	}
	cl := j
	if c.cellType == MerkleProofCell || c.cellType == MerkleUpdateCell {
		cl = j + 1
	}
	var hashes []byte
	for _, k := range kids {
		kv, err := h.hashDepth(k, cl)
		if err != nil {
			return res, err
		}
		repr = append(repr, byte(kv.depth>>8), byte(kv.depth))
		hashes = append(hashes, kv.hash[:]...)
		if kv.depth+1 > res.depth {
			res.depth = kv.depth + 1
		}
	}
	if res.depth > 1024 {
		return res, errRefDepth
	}
	repr = append(repr, hashes...)
	res.hash = sha256.Sum256(repr)
	return res, nil
}

// top returns the representation hash (the hash at the highest level).
func (h *refHasher) top(c *Cell) ([32]byte, error) {
	v, err := h.hashDepth(c, 3)
	return v.hash, err
}

// refReachable lists every distinct (by pointer) cell reachable from the roots, parents before children (DFS preorder).
func refReachable(roots ...*Cell) []*Cell {
	seen := map[*Cell]bool{}
	var out []*Cell
	var stack []*Cell
	for i := len(roots) - 1; i >= 0; i-- {
		stack = append(stack, roots[i])
	}
	for len(stack) > 0 {
		c := stack[len(stack)-1]
		stack = stack[:len(stack)-1]
		if c == nil || seen[c] {
			continue
		}
		seen[c] = true
		out = append(out, c)
		k := refKids(c)
		for i := len(k) - 1; i >= 0; i-- {
			stack = append(stack, k[i])
		}
	}
	return out
}

// refDump prints a DAG in a replayable form: one line per distinct cell.
func refDump(roots ...*Cell) string {
	cells := refReachable(roots...)
	id := map[*Cell]int{}
	for i, c := range cells {
		id[c] = i
	}
	var sb strings.Builder
	for i, c := range cells {
		fmt.Fprintf(&sb, "#%d type=%d mask=%d bits=%d data=%x refs=[", i, c.cellType, c.mask, c.bits.len, refData(c))
		for k, r := range refKids(c) {
			if k > 0 {
				sb.WriteByte(' ')
			}
			sb.WriteString(strconv.Itoa(id[r]))
		}
		sb.WriteString("]; ")
	}
	return sb.String()
}

// refSameStructure compares two DAGs cell by cell: type, bits, mask, refs in order.
func refSameStructure(a, b *Cell) string {
	type pair struct{ a, b *Cell }
	seen := map[pair]bool{}
	var cmp func(a, b *Cell, path string) string
	cmp = func(a, b *Cell, path string) string {
		if seen[pair{a, b}] {
			return ""
		}
		seen[pair{a, b}] = true
		if a.cellType != b.cellType {
			return fmt.Sprintf("%s: type %d vs %d", path, a.cellType, b.cellType)
		}
		if a.mask != b.mask {
			return fmt.Sprintf("%s: level mask %d vs %d", path, a.mask, b.mask)
		}
		if a.bits.len != b.bits.len {
			return fmt.Sprintf("%s: %d bits vs %d bits", path, a.bits.len, b.bits.len)
		}
		if ad, bd := refData(a), refData(b); !bytes.Equal(ad, bd) {
			return fmt.Sprintf("%s: data %x vs %x", path, ad, bd)
		}
		ak, bk := refKids(a), refKids(b)
		if len(ak) != len(bk) {
			return fmt.Sprintf("%s: %d refs vs %d refs", path, len(ak), len(bk))
		}
		for i := range ak {
			if s := cmp(ak[i], bk[i], path+"/"+strconv.Itoa(i)); s != "" {
				return s
			}
		}
		return ""
	}
	return cmp(a, b, "root")
}

// ---------------------------------------------------------------------------------------------------------------------
// independent reader of the container

type refBocCell struct {
	d1, d2 byte
	data   []byte // padded data bytes as stored
	refs   []int
	end    int // offset of the end of this cell inside the cell data
}

type refBoc struct {
	hasIdx, hasCrc, hasCache bool
	flags                    int
	size, offBytes           int
	cells, roots, absent     int
	totSize                  int
	rootList                 []int
	index                    []uint64
	cellData                 []byte
	total                    int // total length of the container in bytes
}

func refBE(b []byte) uint64 {
	var v uint64
	for _, x := range b {
		v = v<<8 | uint64(x)
	}
	return v
}

// refParseBocHeader reads `serialized_boc#b5ee9c72` (the generic form only) from the beginning of b.
func refParseBocHeader(b []byte) (*refBoc, error) {
	if len(b) < 6 || !bytes.Equal(b[:4], []byte{0xb5, 0xee, 0x9c, 0x72}) {
		return nil, errors.New("refboc: no generic magic")
	}
	r := &refBoc{}
	fl := b[4]
	r.hasIdx, r.hasCrc, r.hasCache = fl&0x80 != 0, fl&0x40 != 0, fl&0x20 != 0
	r.flags = int(fl>>3) & 3
	r.size = int(fl & 7)
	r.offBytes = int(b[5])
	if r.size < 1 || r.size > 4 || r.offBytes < 1 || r.offBytes > 8 {
		return nil, errors.New("refboc: bad size fields")
	}
	p := 6
	need := func(n int) error {
		if n < 0 || p+n > len(b) {
			return errors.New("refboc: truncated")
		}
		return nil
	}
	if err := need(3*r.size + r.offBytes); err != nil {
		return nil, err
	}
	r.cells = int(refBE(b[p : p+r.size]))
	p += r.size
	r.roots = int(refBE(b[p : p+r.size]))
	p += r.size
	r.absent = int(refBE(b[p : p+r.size]))
	p += r.size
	ts := refBE(b[p : p+r.offBytes])
	p += r.offBytes
	if ts > uint64(len(b)) || r.cells > len(b) || r.roots > len(b) {
		return nil, errors.New("refboc: counters exceed input")
	}
	r.totSize = int(ts)
	if err := need(r.roots * r.size); err != nil {
		return nil, err
	}
	for i := 0; i < r.roots; i++ {
		r.rootList = append(r.rootList, int(refBE(b[p:p+r.size])))
		p += r.size
	}
	if r.hasIdx {
		if err := need(r.cells * r.offBytes); err != nil {
			return nil, err
		}
		for i := 0; i < r.cells; i++ {
			r.index = append(r.index, refBE(b[p:p+r.offBytes]))
			p += r.offBytes
		}
	}
	if err := need(r.totSize); err != nil {
		return nil, err
	}
	r.cellData = b[p : p+r.totSize]
	p += r.totSize
	if r.hasCrc {
		if err := need(4); err != nil {
			return nil, err
		}
		p += 4
	}
	r.total = p
	return r, nil
}

// rawCells splits the cell data into cells.
func (r *refBoc) rawCells() ([]refBocCell, error) {
	var out []refBocCell
	d := r.cellData
	p := 0
	for i := 0; i < r.cells; i++ {
		if p+2 > len(d) {
			return nil, fmt.Errorf("refboc: cell %d: truncated descriptors", i)
		}
		c := refBocCell{d1: d[p], d2: d[p+1]}
		p += 2
		if c.d1&16 != 0 {
			n := bits.OnesCount(uint(c.d1>>5)) + 1
			p += n * 34
		}
		nbytes := int(c.d2>>1) + int(c.d2&1)
		nrefs := int(c.d1 & 7)
		if p+nbytes+nrefs*r.size > len(d) {
			return nil, fmt.Errorf("refboc: cell %d: truncated body", i)
		}
		c.data = d[p : p+nbytes]
		p += nbytes
		for k := 0; k < nrefs; k++ {
			c.refs = append(c.refs, int(refBE(d[p:p+r.size])))
			p += r.size
		}
		c.end = p
		out = append(out, c)
	}
	if p != len(d) {
		return nil, fmt.Errorf("refboc: %d bytes of cell data left over", len(d)-p)
	}
	return out, nil
}

// refCheckContainer checks a serialiser output against the TL-B layout. wantCells < 0 skips the count check.
func refCheckContainer(b []byte, idx, crc, cache bool, wantCells, wantRoots int) string {
	r, err := refParseBocHeader(b)
	if err != nil {
		return err.Error()
	}
	if r.total != len(b) {
		return fmt.Sprintf("container is %d bytes, header describes %d", len(b), r.total)
	}
	if r.hasIdx != idx || r.hasCrc != crc || r.hasCache != cache || r.flags != 0 {
		return fmt.Sprintf("flag byte %#x does not carry idx=%v crc=%v cache=%v flags=0", b[4], idx, crc, cache)
	}
	if r.absent != 0 {
		return "absent count is not zero"
	}
	if wantCells >= 0 && r.cells != wantCells {
		return fmt.Sprintf("header declares %d cells, the DAG has %d distinct cells (by reference hash)", r.cells, wantCells)
	}
	if r.roots != wantRoots {
		return fmt.Sprintf("header declares %d roots, want %d", r.roots, wantRoots)
	}
	if r.cells >= 1<<(8*uint(r.size)) {
		return "cell count does not fit the ref size"
	}
	minSize := 1
	for r.cells >= 1<<(8*uint(minSize)) {
		minSize++
	}
	if r.size != minSize {
		return fmt.Sprintf("ref index width %d, minimal width for %d cells is %d", r.size, r.cells, minSize)
	}
	cells, err := r.rawCells()
	if err != nil {
		return err.Error()
	}
	for i, c := range cells {
		for _, x := range c.refs {
			if x <= i || x >= len(cells) {
				return fmt.Sprintf("cell %d references %d: topological order broken", i, x)
			}
		}
		if c.d1&16 != 0 {
			return fmt.Sprintf("cell %d carries stored hashes", i)
		}
	}
	for _, x := range r.rootList {
		if x >= len(cells) {
			return fmt.Sprintf("root index %d out of range", x)
		}
	}
	if idx {
		for i, c := range cells {
			v := r.index[i]
			if cache {
				v >>= 1
			}
			if v != uint64(c.end) {
				return fmt.Sprintf("index entry %d is %#x (offset %d), cell %d ends at offset %d (off_bytes=%d, tot_cells_size=%d)",
					i, r.index[i], v, i, c.end, r.offBytes, r.totSize)
			}
		}
	}
	if crc {
		want := crc32.Checksum(b[:len(b)-4], crc32.MakeTable(crc32.Castagnoli))
		if binary.LittleEndian.Uint32(b[len(b)-4:]) != want {
			return "CRC32C trailer mismatch"
		}
	}
	return ""
}

// ---------------------------------------------------------------------------------------------------------------------
// DAG shapes

// refShape[i] lists the children (indices > i) of cell i; cell 0 is the root and every cell is reachable from it.
type refShape [][]int

func (s refShape) String() string {
	return fmt.Sprint([][]int(s))
}

// refEnumShapes calls fn for every DAG shape with exactly n cells and at most maxRefs references per cell.
// fn must not retain s. Returning false stops the enumeration.
func refEnumShapes(n, maxRefs int, fn func(s refShape) bool) {
	s := make(refShape, n)
	stop := false
	var cell func(i int)
	var fill func(i int, k int)
	cell = func(i int) {
		if stop {
			return
		}
		if i < 0 {
			// every non-root cell needs a parent
			hasParent := make([]bool, n)
			for _, rs := range s {
				for _, r := range rs {
					hasParent[r] = true
				}
			}
			for j := 1; j < n; j++ {
				if !hasParent[j] {
					return
				}
			}
			if !fn(s) {
				stop = true
			}
			return
		}
		s[i] = s[i][:0]
		fill(i, 0)
	}
	fill = func(i int, k int) {
		// the list s[i] has k entries; either stop here or append one more
		cell(i - 1)
		if stop || k == maxRefs {
			return
		}
		for c := i + 1; c < n; c++ {
			s[i] = append(s[i][:k], c)
			fill(i, k+1)
			if stop {
				return
			}
		}
		s[i] = s[i][:k]
	}
	cell(n - 1)
}

// refRng is a tiny deterministic generator (splitmix64) so that contents only depend on the seed.
type refRng struct{ s uint64 }

func (r *refRng) next() uint64 {
	r.s += 0x9e3779b97f4a7c15
	z := r.s
	z = (z ^ (z >> 30)) * 0xbf58476d1ce4e5b9
	z = (z ^ (z >> 27)) * 0x94d049bb133111eb
	return z ^ (z >> 31)
}

func (r *refRng) intn(n int) int { return int(r.next() % uint64(n)) }

func refRandBits(seed uint64, n int) []bool {
	r := refRng{seed}
	out := make([]bool, n)
	var w uint64
	for i := range out {
		if i%64 == 0 {
			w = r.next()
		}
		out[i] = w&1 != 0
		w >>= 1
	}
	return out
}

// construction styles for one cell
const (
	refHowWriteBit = iota
	refHowWriteUint
	refHowReadBitsAligned
	refHowReadBitsUnaligned
	refHowWriteBytes
	refHowBitString
	refHowCount
)

// refMakeCell builds an ordinary cell with the given bits through the API selected by how.
func refMakeCell(bl []bool, how int) (*Cell, error) {
	n := len(bl)
	switch how {
	case refHowWriteUint:
		c := NewCell()
		chunk := 1
		for i := 0; i < n; {
			k := chunk
			if k > n-i {
				k = n - i
			}
			var v uint64
			for _, b := range bl[i : i+k] {
				v <<= 1
				if b {
					v |= 1
				}
			}
			if err := c.WriteUint(v, k); err != nil {
				return nil, err
			}
			i += k
			chunk = (chunk*7+3)%64 + 1
		}
		return c, nil
	case refHowReadBitsAligned, refHowReadBitsUnaligned:
		skip := 0
		if how == refHowReadBitsUnaligned {
			skip = 3
		}
		tail := 7
		if skip+n+tail > CellBits {
			tail = CellBits - skip - n
		}
		if tail < 0 {
			return refMakeCell(bl, refHowWriteBit)
		}
		src := NewCell()
		for i := 0; i < skip; i++ {
			if err := src.WriteBit(true); err != nil {
				return nil, err
			}
		}
		for _, b := range bl {
			if err := src.WriteBit(b); err != nil {
				return nil, err
			}
		}
		for i := 0; i < tail; i++ { // bits that must not leak into the result
			if err := src.WriteBit(true); err != nil {
				return nil, err
			}
		}
		if err := src.Skip(skip); err != nil {
			return nil, err
		}
		bs, err := src.ReadBits(n)
		if err != nil {
			return nil, err
		}
		return NewCellWithBits(bs), nil
	case refHowWriteBytes:
		c := NewCell()
		full := refPad(bl)[:n/8]
		if err := c.WriteBytes(full); err != nil {
			return nil, err
		}
		for _, b := range bl[n/8*8:] {
			if err := c.WriteBit(b); err != nil {
				return nil, err
			}
		}
		return c, nil
	case refHowBitString:
		bs := NewBitString(n)
		for _, b := range bl {
			if err := bs.WriteBit(b); err != nil {
				return nil, err
			}
		}
		c := NewCell()
		if err := c.WriteBitString(bs); err != nil {
			return nil, err
		}
		return c, nil
	default:
		c := NewCell()
		for _, b := range bl {
			if err := c.WriteBit(b); err != nil {
				return nil, err
			}
		}
		return c, nil
	}
}

func refBytesToBits(b []byte) []bool {
	out := make([]bool, 0, len(b)*8)
	for _, x := range b {
		for i := 7; i >= 0; i-- {
			out = append(out, x>>uint(i)&1 != 0)
		}
	}
	return out
}

// refMakeLibrary builds a library cell (02 | 256-bit hash).
func refMakeLibrary(seed uint64, how int) (*Cell, error) {
	bl := append(refBytesToBits([]byte{2}), refRandBits(seed, 256)...)
	c, err := refMakeCell(bl, how)
	if err != nil {
		return nil, err
	}
	c.cellType = LibraryCell
	return c, nil
}

// refMakePrunedRaw builds a pruned branch cell with the given mask and stored hashes/depths (lowest level first).
func refMakePrunedRaw(mask int, hashes [][32]byte, depths []int, how int) (*Cell, error) {
	data := []byte{1, byte(mask)}
	for _, h := range hashes {
		data = append(data, h[:]...)
	}
	for _, d := range depths {
		data = append(data, byte(d>>8), byte(d))
	}
	c, err := refMakeCell(refBytesToBits(data), how)
	if err != nil {
		return nil, err
	}
	c.cellType = PrunedBranchCell
	c.mask = levelMask(mask)
	return c, nil
}

// refPrune builds the pruned branch cell that replaces orig inside the newLevel-th enclosing Merkle cell
// (newLevel = 1..3), following the specification: mask = (m(orig) & (2^(newLevel-1) - 1)) | 2^(newLevel-1),
// stored hashes/depths = those of orig at every significant level below newLevel.
func refPrune(h *refHasher, orig *Cell, newLevel int, how int) (*Cell, error) {
	m, err := h.mask(orig)
	if err != nil {
		return nil, err
	}
	low := m & (1<<uint(newLevel-1) - 1)
	mask := low | 1<<uint(newLevel-1)
	var hashes [][32]byte
	var depths []int
	for l := 0; l < newLevel; l++ {
		if l > 0 && low>>uint(l-1)&1 == 0 {
			continue
		}
		v, err := h.hashDepth(orig, l)
		if err != nil {
			return nil, err
		}
		hashes = append(hashes, v.hash)
		depths = append(depths, v.depth)
	}
	return refMakePrunedRaw(mask, hashes, depths, how)
}

// refMakeMerkleProof wraps child into 03 | Hash_0(child) | Depth_0(child).
func refMakeMerkleProof(h *refHasher, child *Cell) (*Cell, error) {
	v, err := h.hashDepth(child, 0)
	if err != nil {
		return nil, err
	}
	data := append([]byte{3}, v.hash[:]...)
	data = append(data, byte(v.depth>>8), byte(v.depth))
	c, err := refMakeCell(refBytesToBits(data), refHowWriteBytes)
	if err != nil {
		return nil, err
	}
	c.cellType = MerkleProofCell
	c.refs[0] = child
	m, err := h.mask(child)
	if err != nil {
		return nil, err
	}
	c.mask = levelMask(m >> 1)
	return c, nil
}

// refMakeMerkleUpdate wraps two children into 04 | h1 | h2 | d1 | d2.
func refMakeMerkleUpdate(h *refHasher, from, to *Cell) (*Cell, error) {
	a, err := h.hashDepth(from, 0)
	if err != nil {
		return nil, err
	}
	b, err := h.hashDepth(to, 0)
	if err != nil {
		return nil, err
	}
	data := append([]byte{4}, a.hash[:]...)
	data = append(data, b.hash[:]...)
	data = append(data, byte(a.depth>>8), byte(a.depth), byte(b.depth>>8), byte(b.depth))
	c, err := refMakeCell(refBytesToBits(data), refHowWriteBit)
	if err != nil {
		return nil, err
	}
	c.cellType = MerkleUpdateCell
	c.refs[0], c.refs[1] = from, to
	m1, err := h.mask(from)
	if err != nil {
		return nil, err
	}
	m2, err := h.mask(to)
	if err != nil {
		return nil, err
	}
	c.mask = levelMask((m1 | m2) >> 1)
	return c, nil
}

// refOrdinary builds an ordinary cell over the given children and sets its level mask to the OR of theirs
// (what a validating node requires; AddRef itself does not maintain the mask).
func refOrdinary(bl []bool, how int, kids ...*Cell) (*Cell, error) {
	c, err := refMakeCell(bl, how)
	if err != nil {
		return nil, err
	}
	for _, k := range kids {
		if err := c.AddRef(k); err != nil {
			return nil, err
		}
		c.mask |= k.mask
	}
	return c, nil
}

// refBuildSpec describes one enumerated input.
type refBuildSpec struct {
	shape   refShape
	bitLens []int  // per cell
	seed    uint64 // content seed
	same    bool   // all cells get the same content stream (maximal merging of equal cells)
	exotic  []int  // per cell: 0 ordinary, 1 library, 2 pruned branch (only honoured for cells without refs)
}

func (sp *refBuildSpec) String() string {
	return fmt.Sprintf("shape=%v bitLens=%v seed=%d same=%v exotic=%v", sp.shape, sp.bitLens, sp.seed, sp.same, sp.exotic)
}

// refBuild constructs the DAG. how selects the cell construction API; unshare gives every reference its own copy.
func refBuild(sp *refBuildSpec, how int, unshare bool) ([]*Cell, error) {
	n := len(sp.shape)
	cells := make([]*Cell, n)
	var mk func(i int) (*Cell, error)
	mk = func(i int) (*Cell, error) {
		if !unshare && cells[i] != nil {
			return cells[i], nil
		}
		cs := sp.seed*1000003 + uint64(i)*7919 + 1
		if sp.same {
			cs = sp.seed*1000003 + 1
		}
		var c *Cell
		var err error
		ex := 0
		if sp.exotic != nil && len(sp.shape[i]) == 0 {
			ex = sp.exotic[i]
		}
		switch ex {
		case 1:
			c, err = refMakeLibrary(cs, how)
		case 2:
			var hh [32]byte
			copy(hh[:], refPad(refRandBits(cs, 256)))
			c, err = refMakePrunedRaw(1, [][32]byte{hh}, []int{int(cs % 1000)}, how)
		default:
			c, err = refMakeCell(refRandBits(cs, sp.bitLens[i]), how)
		}
		if err != nil {
			return nil, err
		}
		for _, r := range sp.shape[i] {
			k, err := mk(r)
			if err != nil {
				return nil, err
			}
			if err := c.AddRef(k); err != nil {
				return nil, err
			}
			c.mask |= k.mask
		}
		cells[i] = c
		return c, nil
	}
	for i := n - 1; i >= 0; i-- {
		if _, err := mk(i); err != nil {
			return nil, err
		}
	}
	return cells, nil
}

// refExpandedSize is the number of cells of the tree obtained by un-sharing the DAG (capped).
func refExpandedSize(s refShape) int {
	sz := make([]int, len(s))
	for i := len(s) - 1; i >= 0; i-- {
		sz[i] = 1
		for _, r := range s[i] {
			sz[i] += sz[r]
			if sz[i] > 1<<20 {
				sz[i] = 1 << 20
			}
		}
	}
	return sz[0]
}

// ---------------------------------------------------------------------------------------------------------------------
// testdata discovery

type refNamedBoc struct {
	name string
	data []byte
}

var (
	refHexRe = regexp.MustCompile(`(?i)b5ee9c72[0-9a-f]{8,}`)
	refB64Re = regexp.MustCompile(`te6cc[A-Za-z0-9+/_\-]{8,}={0,2}`)
)

// refTestdataBocs collects every byte string under <repo>/**/testdata that looks like a bag of cells:
// binary files starting with the magic, binary files containing the magic (length taken from the header),
// hex strings and base64 strings inside text files. Candidates that the library refuses to parse are dropped by the caller.
func refTestdataBocs() []refNamedBoc {
	var files []string
	_ = filepath.WalkDir("..", func(p string, d fs.DirEntry, err error) error {
		if err != nil {
			return nil
		}
		if d.IsDir() {
			if d.Name() == ".git" {
				return filepath.SkipDir
			}
			return nil
		}
		if !strings.Contains(filepath.ToSlash(p), "/testdata/") || strings.Contains(d.Name(), ".output.") {
			return nil
		}
		files = append(files, p)
		return nil
	})
	sort.Strings(files)
	var out []refNamedBoc
	seen := map[string]bool{}
	add := func(name string, b []byte) {
		if len(b) < 10 || seen[string(b)] {
			return
		}
		seen[string(b)] = true
		out = append(out, refNamedBoc{name, b})
	}
	magic := []byte{0xb5, 0xee, 0x9c, 0x72}
	for _, f := range files {
		b, err := os.ReadFile(f)
		if err != nil || len(b) == 0 {
			continue
		}
		if bytes.HasPrefix(b, magic) {
			add(f, b)
			continue
		}
		n := 0
		for _, m := range refHexRe.FindAll(b, -1) {
			if len(m)%2 != 0 {
				m = m[:len(m)-1]
			}
			if d, err := hex.DecodeString(string(m)); err == nil {
				add(fmt.Sprintf("%s#hex%d", f, n), d)
				n++
			}
		}
		for _, m := range refB64Re.FindAll(b, -1) {
			s := strings.TrimRight(string(m), "=")
			for _, enc := range []*base64.Encoding{base64.RawStdEncoding, base64.RawURLEncoding} {
				if d, err := enc.DecodeString(s); err == nil {
					add(fmt.Sprintf("%s#b64_%d", f, n), d)
					n++
					break
				}
			}
		}
		// embedded binary containers
		for off := 0; off+6 < len(b); {
			i := bytes.Index(b[off:], magic)
			if i < 0 {
				break
			}
			off += i
			if h, err := refParseBocHeader(b[off:]); err == nil {
				add(fmt.Sprintf("%s@%d", f, off), b[off:off+h.total])
			}
			off += 4
		}
	}
	return out
}
