//go:build verif

package boc

import (
	"fmt"
	"strings"
	"testing"
	"time"
)

func TestVerifStandin_C07_Probe(t *testing.T) {
	for _, k := range []int{2, 3, 4} {
		for _, n := range []int{10, 12, 16, 17, 20, 32, 64} {
			for _, bytesN := range []int{1, 127} {
				var next *Cell
				for i := n - 1; i >= 0; i-- {
					c := NewCell()
					for j := 0; j < bytesN; j++ {
						c.WriteUint(uint64(i+j), 8)
					}
					if next != nil {
						for j := 0; j < k; j++ {
							c.AddRef(next)
						}
					}
					next = c
				}
				b, err := next.ToBoc()
				if err != nil {
					t.Fatal(err)
				}
				cs, err := DeserializeBoc(b)
				if err != nil {
					t.Fatal(err)
				}
				t0 := time.Now()
				s := cs[0].ToString()
				d1 := time.Since(t0)
				t0 = time.Now()
				cs[0].Hash()
				d2 := time.Since(t0)
				t0 = time.Now()
				j, _ := cs[0].MarshalJSON()
				d3 := time.Since(t0)
				t0 = time.Now()
				p, err := NewMerkleProver(cs[0])
				var d4 time.Duration
				if n <= 20 {
					_, err = p.CreateProof(p.Cursor())
					d4 = time.Since(t0)
				}
				fmt.Printf("k=%d n=%d bytes=%d lines=%d len=%d tostring=%v hash=%v json=%v(%d) proof=%v %v\n", k, n, bytesN, strings.Count(s, "\n"), len(s), d1, d2, d3, len(j), d4, err)
			}
		}
	}
}
