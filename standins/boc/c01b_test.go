//go:build verif

package boc

// Bounded stand-in for C01, part "b": header fields of the bag-of-cells container exactly at the boundaries of their
// byte widths (labelled bounded, never counted as proved).
//
// Container layout checked (TL-B `serialized_boc#b5ee9c72`, crypto/tl/boc.tlb):
//
//	b5ee9c72  has_idx:1 has_crc32c:1 has_cache_bits:1 flags:2 size:3   off_bytes:8
//	cells:(size*8) roots:(size*8) absent:(size*8) tot_cells_size:(off_bytes*8)
//	root_list:(roots * size*8)  index:has_idx?(cells * off_bytes*8)  cell_data:(tot_cells_size bytes)  crc32c:has_crc32c?uint32 LE
//
// `size` must hold the cell count (and therefore every reference index), `off_bytes` must hold tot_cells_size and every
// index entry; index entry i is the END offset of cell i inside cell_data, stored as 2*offset+cache_bit when has_cache_bits.
// One cell occupies 2 descriptor bytes + ceil(bits/8) data bytes + refs*size bytes.
//
// Oracle: the test knows the TRUE values (number of distinct cells n and cell-data size T of the tree it built, computed
// from the tree with the widths the specification prescribes) and reads the container with its own reader: the fields are
// read with the DECLARED widths and compared with the true values; the cell data is located and walked with the true cell
// count, so a truncated counter cannot hide itself. The walked cells are compared with the input tree cell by cell without
// the library's parser; then DeserializeBoc must return the same structure with the same representation hash (refHasher of
// refhash_helper_test.go). CRC32C is computed by a table generated here from the Castagnoli polynomial.
//
// Trees: n distinct ordinary cells in heap layout with arity 1..4 (cell i refers to cells arity*i+1 .. arity*i+arity; arity 1 is
// a chain), data lengths chosen so that the sum of (2 + data bytes + refs*size) is exactly the target; contents from
// rand.New(rand.NewSource(VERIF_SEED)), bit lengths byte-aligned and not (completion tag), up to 1023 bits.
//
// Bound (quick tier), every tree x all 8 combinations of (idx, crc32c, cache bits), flags = 0:
//   TotalSize: cell-data size exactly B-2 .. B+2 for B in {128, 256, 32768, 65536}, each with several (n, arity) pairs:
//      B=128: 1, 2, 5, 7 cells; B=256: 2, 3, 5, 20, 40 cells; B=32768: 300, 1000, 4000 cells; B=65536: 510, 600, 1025
//      (depth 1024) and 8000 cells.   (with cache bits the index entries cross the width boundary at B/2, i.e. 128 and 32768)
//   CellCount: exactly 254, 255, 256, 257 cells (chain and 4-ary heap, also as a 2-root bag whose second root is the LAST cell,
//      so that the root list carries the largest index) and 65535, 65536, 65537 cells (4-ary heap; 2-root variant for 3 of
//      the 8 option combinations).
//   Combined: 255, 256, 257 cells AND cell-data size 32768-2 .. 32768+2 (chain / 4-ary / 2-ary).
// Thorough (about 6 min): additionally B = 2^23 (65400 and 70000 cells) and B = 2^24 (130500 cells, off_bytes 3 -> 4; with cache bits
//   the index entries cross that boundary at 2^23), 65535..65537 cells also as binary heaps and as 2-root bags with all 8
//   combinations, 65535 / 65536 / 65537 cells AND cell-data size 2^23-2 .. 2^23+2.

import (
	"encoding/binary"
	"fmt"
	"math/rand"
	"os"
	"sort"
	"testing"
	"time"
)

// ---------------------------------------------------------------------------------------------------------------------
// failure bookkeeping: one sub-test per root cause

var c01bKnownCauses = []string{
	"rc_harness",
	"rc_serialize_error", "rc_serialize_panic",
	"rc_magic_or_flags_wrong",
	"rc_ref_width_too_small", "rc_ref_width_not_minimal",
	"rc_cell_count_truncated", "rc_cell_count_wrong", "rc_root_or_absent_count_wrong", "rc_root_list_wrong",
	"rc_offset_width_too_small", "rc_offset_width_not_minimal",
	"rc_tot_cells_size_truncated", "rc_tot_cells_size_wrong", "rc_cell_data_size_unexpected",
	"rc_index_entry_truncated", "rc_index_entry_wrong",
	"rc_layout_broken", "rc_total_length_mismatch", "rc_cell_order_broken", "rc_cell_data_differs",
	"rc_crc_wrong",
	"rc_own_output_rejected", "rc_parse_panic", "rc_roundtrip_structure_differs", "rc_roundtrip_hash_differs",
}

type c01bFails struct {
	count map[string]int
	msgs  map[string][]string
}

func (f *c01bFails) add(cause, format string, args ...interface{}) {
	f.count[cause]++
	if len(f.msgs[cause]) < 4 {
		f.msgs[cause] = append(f.msgs[cause], fmt.Sprintf(format, args...))
	}
}

func (f *c01bFails) report(t *testing.T) {
	names := map[string]bool{}
	for _, k := range c01bKnownCauses {
		names[k] = true
	}
	for k := range f.count {
		names[k] = true
	}
	var sorted []string
	for k := range names {
		sorted = append(sorted, k)
	}
	sort.Strings(sorted)
	for _, k := range sorted {
		k := k
		t.Run(k, func(t *testing.T) {
			if f.count[k] == 0 {
				return
			}
			t.Errorf("%d failing case(s); first %d:", f.count[k], len(f.msgs[k]))
			for _, m := range f.msgs[k] {
				t.Errorf("  %s", m)
			}
		})
	}
}

// ---------------------------------------------------------------------------------------------------------------------
// small independent primitives

// c01bMinWidth is the smallest number of bytes (at least 1) whose unsigned range contains v.
func c01bMinWidth(v uint64) int {
	w := 1
	for w < 8 && v >= uint64(1)<<(8*uint(w)) {
		w++
	}
	return w
}

func c01bFits(v uint64, w int) bool {
	return w >= 8 || v < uint64(1)<<(8*uint(w))
}

func c01bTrunc(v uint64, w int) uint64 {
	if w >= 8 {
		return v
	}
	return v & (uint64(1)<<(8*uint(w)) - 1)
}

func c01bBE(b []byte) uint64 {
	var v uint64
	for _, x := range b {
		v = v<<8 | uint64(x)
	}
	return v
}

// CRC-32C (Castagnoli, reflected polynomial 0x82F63B78), table generated here.
var c01bCrcTable = func() (t [256]uint32) {
	for i := range t {
		c := uint32(i)
		for k := 0; k < 8; k++ {
			if c&1 != 0 {
				c = c>>1 ^ 0x82F63B78
			} else {
				c >>= 1
			}
		}
		t[i] = c
	}
	return
}()

func c01bCrc32c(b []byte) uint32 {
	c := ^uint32(0)
	for _, x := range b {
		c = c01bCrcTable[byte(c)^x] ^ c>>8
	}
	return ^c
}

func c01bHead(b []byte) string {
	if len(b) <= 400 {
		return fmt.Sprintf("bytes %x", b)
	}
	return fmt.Sprintf("%d bytes, first 40: %x", len(b), b[:40])
}

// ---------------------------------------------------------------------------------------------------------------------
// deterministic trees

type c01bSpec struct {
	n        int  // number of (distinct) cells
	arity    int  // heap arity, 1 = chain
	total    int  // wanted size of the serialised cell data in bytes (with the minimal reference width); 0: use perCell
	perCell  int  // data bytes per cell when total == 0
	skew     bool // alternate shorter / longer cells instead of an even spread
	twoRoots bool // serialise as a 2-root bag: the root and the last cell
}

func (s c01bSpec) String() string {
	return fmt.Sprintf("tree{cells=%d arity=%d wantedCellDataSize=%d perCell=%d skew=%v twoRoots=%v seed=%d}", s.n, s.arity, s.total, s.perCell, s.skew, s.twoRoots, refSeed())
}

// c01bBuild builds the n cells of the spec with the library's cell builder. Cell i carries its own number in its first data
// bytes, so all cells are distinct.
func c01bBuild(sp c01bSpec, rng *rand.Rand) ([]*Cell, error) {
	n := sp.n
	if n < 1 || sp.arity < 1 || sp.arity > 4 {
		return nil, fmt.Errorf("bad spec")
	}
	if sp.arity == 1 && n > 1025 {
		return nil, fmt.Errorf("chain deeper than the depth limit")
	}
	size := c01bMinWidth(uint64(n))
	dataTotal := sp.perCell * n
	if sp.total > 0 {
		dataTotal = sp.total - 2*n - size*(n-1)
	}
	if dataTotal < 0 || dataTotal > 128*n {
		return nil, fmt.Errorf("%d data bytes cannot be spread over %d cells", dataTotal, n)
	}
	need := 0 // bytes needed to keep the cell number
	if sp.arity > 1 && n > 1 {
		need = c01bMinWidth(uint64(n - 1))
	}
	base, extra := dataTotal/n, dataTotal%n
	lens := make([]int, n)
	for i := range lens {
		lens[i] = base
		if (i+1)*extra/n != i*extra/n {
			lens[i]++
		}
	}
	if sp.skew {
		for j := 0; 2*j+1 < n; j++ {
			a, b := lens[2*j], lens[2*j+1]
			room := a - need
			if 128-b < room {
				room = 128 - b
			}
			if room > 0 {
				k := (j*7 + 3) % (room + 1)
				lens[2*j], lens[2*j+1] = a-k, b+k
			}
		}
	}
	sum := 0
	for _, l := range lens {
		if l < need || l > 128 {
			return nil, fmt.Errorf("cell data length %d out of range [%d,128]", l, need)
		}
		sum += l
	}
	if sum != dataTotal {
		return nil, fmt.Errorf("internal: lengths sum to %d, want %d", sum, dataTotal)
	}
	cells := make([]*Cell, n)
	buf := make([]byte, 128)
	for i := n - 1; i >= 0; i-- {
		d := lens[i]
		data := buf[:d]
		rng.Read(data)
		w := 4
		if d < w {
			w = d
		}
		for k := 0; k < w; k++ {
			data[k] = byte(uint32(i) >> (8 * uint(w-1-k)))
		}
		r := 0 // number of bits missing from the last byte
		if d == 128 {
			r = 1 + rng.Intn(7)
		} else if d >= 5 {
			r = rng.Intn(8)
		}
		c := NewCell()
		if r == 0 {
			if err := c.WriteBytes(data); err != nil {
				return nil, err
			}
		} else {
			if err := c.WriteBytes(data[:d-1]); err != nil {
				return nil, err
			}
			if err := c.WriteUint(uint64(data[d-1])>>uint(r), 8-r); err != nil {
				return nil, err
			}
		}
		for k := 1; k <= sp.arity; k++ {
			if j := sp.arity*i + k; j < n {
				if err := c.AddRef(cells[j]); err != nil {
					return nil, err
				}
			}
		}
		cells[i] = c
	}
	return cells, nil
}

// ---------------------------------------------------------------------------------------------------------------------
// environment

type c01bEnv struct {
	t        *testing.T
	f        *c01bFails
	rng      *rand.Rand
	thorough bool
	cases    int
	distinct map[string]bool
	maxSer   time.Duration
}

func c01bNewEnv(t *testing.T) *c01bEnv {
	return &c01bEnv{
		t: t, f: &c01bFails{count: map[string]int{}, msgs: map[string][]string{}},
		rng:      rand.New(rand.NewSource(refSeed())),
		thorough: os.Getenv("VERIF_TIER") == "thorough",
		distinct: map[string]bool{},
	}
}

func (e *c01bEnv) finish(name string) {
	if c01bCrc32c([]byte("123456789")) != 0xE3069283 {
		e.f.add("rc_harness", "the CRC-32C of the test does not give the check value")
	}
	fmt.Printf("STANDIN-STAT name=%s cases=%d distinct=%d\n", name, e.cases, len(e.distinct))
	e.t.Logf("%s: %d cases, slowest serialisation %v", name, e.cases, e.maxSer)
	e.f.report(e.t)
}

func c01bSerialize(roots []*Cell, opt int) (b []byte, err error, panicked interface{}) {
	defer func() {
		if r := recover(); r != nil {
			panicked = r
		}
	}()
	idx, crc, cache := opt&1 != 0, opt&2 != 0, opt&4 != 0
	if len(roots) == 1 {
		if opt%2 == 0 {
			b, err = roots[0].ToBocCustom(idx, crc, cache, 0)
		} else {
			b, err = SerializeBoc(roots[0], idx, crc, cache, 0)
		}
		return
	}
	b, err = newBagOfCells().serializeBoc(roots, idx, crc, cache, 0)
	return
}

type c01bRaw struct {
	d1, d2     byte
	start, end int // data bytes are cellData[start : start+dataLen]
	dataLen    int
	nrefs      int
	refs       [4]int
}

// runTree performs every check for one tree and the given option combinations.
func (e *c01bEnv) runTree(sp c01bSpec, opts []int) {
	cells, err := c01bBuild(sp, e.rng)
	if err != nil {
		e.f.add("rc_harness", "%v: %v", sp, err)
		return
	}
	n := sp.n
	roots := []*Cell{cells[0]}
	if sp.twoRoots {
		if n < 2 {
			e.f.add("rc_harness", "%v: two roots need two cells", sp)
			return
		}
		roots = append(roots, cells[n-1])
	}
	// true values, from the tree itself
	rh := newRefHasher(true)
	hashes := map[[32]byte]bool{}
	sizeTrue := c01bMinWidth(uint64(n))
	totalTrue := 0
	reach := refReachable(roots...)
	for _, c := range reach {
		h, err := rh.top(c)
		if err != nil {
			e.f.add("rc_harness", "%v: reference hasher: %v", sp, err)
			return
		}
		hashes[h] = true
		totalTrue += 2 + (c.bits.len+7)/8 + len(refKids(c))*sizeTrue
	}
	if len(reach) != n || len(hashes) != n {
		e.f.add("rc_harness", "%v: %d reachable cells, %d distinct hashes, want %d", sp, len(reach), len(hashes), n)
		return
	}
	if sp.total > 0 && totalTrue != sp.total {
		e.f.add("rc_harness", "%v: the tree has a cell-data size of %d", sp, totalTrue)
		return
	}
	want := make([][32]byte, len(roots))
	for i, r := range roots {
		want[i], _ = rh.top(r)
	}
	for _, opt := range opts {
		e.cases++
		e.distinct[fmt.Sprintf("%v/%d", sp, opt)] = true
		ctx := fmt.Sprintf("%v (true cells=%d, true cell-data size=%d) opt=%d (idx=%v crc=%v cacheBits=%v)", sp, n, totalTrue, opt, opt&1 != 0, opt&2 != 0, opt&4 != 0)
		t0 := time.Now()
		b, err, p := c01bSerialize(roots, opt)
		if d := time.Since(t0); d > e.maxSer {
			e.maxSer = d
		}
		if p != nil {
			e.f.add("rc_serialize_panic", "%s: panic: %v", ctx, p)
			continue
		}
		if err != nil {
			e.f.add("rc_serialize_error", "%s: %v", ctx, err)
			continue
		}
		e.inspect(ctx, b, opt, n, roots, totalTrue, sizeTrue)
		e.parseBack(ctx, b, roots, want)
	}
}

// inspect is the independent reader.
func (e *c01bEnv) inspect(ctx string, b []byte, opt int, n int, roots []*Cell, totalTrue, sizeTrue int) {
	idx, crc, cache := opt&1 != 0, opt&2 != 0, opt&4 != 0
	ctx = ctx + "; " + c01bHead(b)
	if len(b) < 6 || b[0] != 0xb5 || b[1] != 0xee || b[2] != 0x9c || b[3] != 0x72 {
		e.f.add("rc_magic_or_flags_wrong", "%s: no b5ee9c72 magic", ctx)
		return
	}
	fl := b[4]
	if (fl&0x80 != 0) != idx || (fl&0x40 != 0) != crc || (fl&0x20 != 0) != cache || fl&0x18 != 0 {
		e.f.add("rc_magic_or_flags_wrong", "%s: flag byte %#02x", ctx, fl)
	}
	size, off := int(fl&7), int(b[5])
	if size < 1 || size > 4 || off < 1 || off > 8 {
		e.f.add("rc_magic_or_flags_wrong", "%s: size=%d off_bytes=%d outside 1..4 / 1..8", ctx, size, off)
		return
	}
	if !c01bFits(uint64(n), size) {
		e.f.add("rc_ref_width_too_small", "%s: size=%d cannot hold the cell count %d", ctx, size, n)
	} else if size != sizeTrue {
		e.f.add("rc_ref_width_not_minimal", "%s: size=%d, minimal width for %d cells is %d", ctx, size, n, sizeTrue)
	}
	crcLen := 0
	if crc {
		crcLen = 4
	}
	p := 6
	if len(b) < p+3*size+off+len(roots)*size+crcLen {
		e.f.add("rc_layout_broken", "%s: shorter than its header", ctx)
		return
	}
	cellsF := c01bBE(b[p : p+size])
	rootsF := c01bBE(b[p+size : p+2*size])
	absentF := c01bBE(b[p+2*size : p+3*size])
	p += 3 * size
	totF := c01bBE(b[p : p+off])
	p += off
	if cellsF != uint64(n) {
		if cellsF == c01bTrunc(uint64(n), size) {
			e.f.add("rc_cell_count_truncated", "%s: cells field holds %d = %d truncated to %d byte(s)", ctx, cellsF, n, size)
		} else {
			e.f.add("rc_cell_count_wrong", "%s: cells field holds %d, the bag has %d cells", ctx, cellsF, n)
		}
	}
	if rootsF != uint64(len(roots)) || absentF != 0 {
		e.f.add("rc_root_or_absent_count_wrong", "%s: roots=%d absent=%d, want %d and 0", ctx, rootsF, absentF, len(roots))
	}
	rootList := make([]int, len(roots))
	for i := range roots {
		v := c01bBE(b[p : p+size])
		p += size
		if v >= uint64(n) {
			e.f.add("rc_root_list_wrong", "%s: root %d has index %d, the bag has %d cells", ctx, i, v, n)
			return
		}
		rootList[i] = int(v)
	}
	// the index and the cell data are located with the TRUE cell count
	indexAt := p
	if idx {
		p += n * off
	}
	dataAt := p
	limit := len(b) - crcLen
	if dataAt > limit {
		e.f.add("rc_layout_broken", "%s: the index of %d entries of %d bytes does not fit", ctx, n, off)
		return
	}
	raw := make([]c01bRaw, n)
	q := dataAt
	for i := 0; i < n; i++ {
		if q+2 > limit {
			e.f.add("rc_layout_broken", "%s: cell %d: descriptors beyond the end of the cell data (offset %d)", ctx, i, q-dataAt)
			return
		}
		rc := c01bRaw{d1: b[q], d2: b[q+1]}
		q += 2
		if rc.d1&0x10 != 0 {
			e.f.add("rc_layout_broken", "%s: cell %d carries stored hashes (d1=%#02x)", ctx, i, rc.d1)
			return
		}
		rc.nrefs = int(rc.d1 & 7)
		rc.dataLen = int(rc.d2>>1) + int(rc.d2&1)
		if rc.nrefs > 4 || q+rc.dataLen+rc.nrefs*size > limit {
			e.f.add("rc_layout_broken", "%s: cell %d (d1=%#02x d2=%#02x) runs beyond the end of the cell data", ctx, i, rc.d1, rc.d2)
			return
		}
		rc.start = q - dataAt
		q += rc.dataLen
		for k := 0; k < rc.nrefs; k++ {
			v := c01bBE(b[q : q+size])
			q += size
			if v <= uint64(i) || v >= uint64(n) {
				e.f.add("rc_cell_order_broken", "%s: cell %d refers to %d (must be in %d..%d)", ctx, i, v, i+1, n-1)
				return
			}
			rc.refs[k] = int(v)
		}
		rc.end = q - dataAt
		raw[i] = rc
	}
	realTotal := q - dataAt
	if q != limit {
		e.f.add("rc_total_length_mismatch", "%s: %d cells end at byte %d, the container has %d bytes before the CRC", ctx, n, q, limit)
	}
	// tot_cells_size and off_bytes
	if totF != uint64(realTotal) {
		if totF == c01bTrunc(uint64(realTotal), off) {
			e.f.add("rc_tot_cells_size_truncated", "%s: tot_cells_size holds %d = %d truncated to %d byte(s)", ctx, totF, realTotal, off)
		} else {
			e.f.add("rc_tot_cells_size_wrong", "%s: tot_cells_size holds %d, the cells occupy %d bytes", ctx, totF, realTotal)
		}
	}
	if size == sizeTrue && realTotal != totalTrue {
		e.f.add("rc_cell_data_size_unexpected", "%s: the cells occupy %d bytes, computed from the tree: %d", ctx, realTotal, totalTrue)
	}
	maxField := uint64(realTotal)
	if idx && cache {
		maxField = 2*uint64(realTotal) + 1
	}
	wMin, wCache := c01bMinWidth(uint64(realTotal)), c01bMinWidth(2*uint64(realTotal))
	if !c01bFits(maxField, off) {
		e.f.add("rc_offset_width_too_small", "%s: off_bytes=%d cannot hold %d (cell-data size %d)", ctx, off, maxField, realTotal)
	} else if !(cache && off == wCache || !(cache && idx) && off == wMin) {
		// with cache bits the reference serialiser sizes the field for 2*size even when no index is written: both are accepted then
		e.f.add("rc_offset_width_not_minimal", "%s: off_bytes=%d, cell-data size %d needs %d (%d with cache bits)", ctx, off, realTotal, wMin, wCache)
	}
	if idx {
		for i := 0; i < n; i++ {
			v := c01bBE(b[indexAt+i*off : indexAt+(i+1)*off])
			trueV := uint64(raw[i].end)
			got := v
			if cache {
				trueV *= 2
				got = v &^ 1
			}
			if got == trueV {
				continue
			}
			if !c01bFits(trueV, off) && got == c01bTrunc(trueV, off) {
				e.f.add("rc_index_entry_truncated", "%s: index entry %d holds %#x = %#x truncated to %d byte(s) (cell %d ends at offset %d)", ctx, i, v, trueV, off, i, raw[i].end)
			} else {
				e.f.add("rc_index_entry_wrong", "%s: index entry %d holds %#x, cell %d ends at offset %d", ctx, i, v, i, raw[i].end)
			}
			break
		}
	}
	if crc {
		if got, w := binary.LittleEndian.Uint32(b[len(b)-4:]), c01bCrc32c(b[:len(b)-4]); got != w {
			e.f.add("rc_crc_wrong", "%s: trailer %08x, CRC-32C of the preceding bytes %08x", ctx, got, w)
		}
	}
	// the stored cells are the cells of the tree
	data := b[dataAt:limit]
	seen := make([]*Cell, n)
	used := 0
	var cmp func(c *Cell, i int) string
	cmp = func(c *Cell, i int) string {
		if seen[i] == c {
			return ""
		}
		if seen[i] != nil {
			return fmt.Sprintf("stored cell %d stands for two different cells of the tree", i)
		}
		seen[i] = c
		used++
		rc := raw[i]
		kids := refKids(c)
		nb := c.bits.len
		if int(rc.d1) != len(kids) || int(rc.d2) != (nb+7)/8+nb/8 {
			return fmt.Sprintf("stored cell %d has d1=%#02x d2=%#02x, the tree cell has %d refs and %d bits", i, rc.d1, rc.d2, len(kids), nb)
		}
		if w := refData(c); string(w) != string(data[rc.start:rc.start+rc.dataLen]) {
			return fmt.Sprintf("stored cell %d has data %x, the tree cell %x", i, data[rc.start:rc.start+rc.dataLen], w)
		}
		for k, kid := range kids {
			if s := cmp(kid, rc.refs[k]); s != "" {
				return s
			}
		}
		return ""
	}
	for i, r := range roots {
		if s := cmp(r, rootList[i]); s != "" {
			e.f.add("rc_cell_data_differs", "%s: root %d: %s", ctx, i, s)
			return
		}
	}
	if used != n {
		e.f.add("rc_cell_data_differs", "%s: only %d of the %d stored cells are reachable from the root list", ctx, used, n)
	}
}

func (e *c01bEnv) parseBack(ctx string, b []byte, roots []*Cell, want [][32]byte) {
	ctx = ctx + "; " + c01bHead(b)
	var parsed []*Cell
	var err error
	var p interface{}
	func() {
		defer func() { p = recover() }()
		parsed, err = DeserializeBoc(b)
	}()
	if p != nil {
		e.f.add("rc_parse_panic", "%s: DeserializeBoc panics: %v", ctx, p)
		return
	}
	if err != nil || len(parsed) != len(roots) {
		e.f.add("rc_own_output_rejected", "%s: DeserializeBoc returns %d roots, error %v", ctx, len(parsed), err)
		return
	}
	prh := newRefHasher(true)
	for i := range roots {
		if s := refSameStructure(roots[i], parsed[i]); s != "" {
			e.f.add("rc_roundtrip_structure_differs", "%s: root %d: %s", ctx, i, s)
		}
		if h, err := prh.top(parsed[i]); err != nil || h != want[i] {
			e.f.add("rc_roundtrip_hash_differs", "%s: root %d: reference hash of the parsed root %x (%v), of the input %x", ctx, i, h, err, want[i])
		}
		if h, err := parsed[i].Hash256(); err != nil || h != want[i] {
			e.f.add("rc_roundtrip_hash_differs", "%s: root %d: library hash of the parsed root %x (%v), reference hash of the input %x", ctx, i, h, err, want[i])
		}
	}
}

var c01bAllOpts = []int{0, 1, 2, 3, 4, 5, 6, 7}

// ---------------------------------------------------------------------------------------------------------------------
// tests

func TestVerifStandin_C01_BoundariesTotalSize(t *testing.T) {
	e := c01bNewEnv(t)
	defer e.finish("c01b_boundaries_total_size")
	type na struct {
		n, arity int
		skew     bool
	}
	plan := []struct {
		b        int
		shapes   []na
		thorough bool
	}{
		{1 << 7, []na{{1, 1, false}, {2, 1, false}, {5, 4, false}, {7, 2, true}}, false},
		{1 << 8, []na{{2, 1, false}, {3, 2, false}, {5, 4, true}, {20, 1, false}, {40, 3, true}}, false},
		{1 << 15, []na{{300, 4, false}, {1000, 1, true}, {4000, 4, false}}, false},
		{1 << 16, []na{{510, 1, false}, {600, 4, true}, {1025, 1, false}, {8000, 3, true}}, false},
		{1 << 23, []na{{65400, 4, false}, {70000, 2, true}}, true},
		{1 << 24, []na{{130500, 4, true}}, true},
	}
	for _, pl := range plan {
		if pl.thorough && !e.thorough {
			continue
		}
		for _, sh := range pl.shapes {
			for delta := -2; delta <= 2; delta++ {
				e.runTree(c01bSpec{n: sh.n, arity: sh.arity, total: pl.b + delta, skew: sh.skew}, c01bAllOpts)
			}
		}
	}
}

func TestVerifStandin_C01_BoundariesCellCount(t *testing.T) {
	e := c01bNewEnv(t)
	defer e.finish("c01b_boundaries_cell_count")
	for _, n := range []int{254, 255, 256, 257} {
		for _, two := range []bool{false, true} {
			e.runTree(c01bSpec{n: n, arity: 1, perCell: 3, twoRoots: two}, c01bAllOpts)
			e.runTree(c01bSpec{n: n, arity: 4, perCell: 9, skew: true, twoRoots: two}, c01bAllOpts)
		}
	}
	for _, n := range []int{65535, 65536, 65537} {
		e.runTree(c01bSpec{n: n, arity: 4, perCell: 4}, c01bAllOpts)
		if e.thorough {
			e.runTree(c01bSpec{n: n, arity: 4, perCell: 6, twoRoots: true}, c01bAllOpts)
			e.runTree(c01bSpec{n: n, arity: 2, perCell: 11, skew: true}, c01bAllOpts)
		} else {
			e.runTree(c01bSpec{n: n, arity: 4, perCell: 6, twoRoots: true}, []int{0, 3, 7})
		}
	}
}

func TestVerifStandin_C01_BoundariesCombined(t *testing.T) {
	e := c01bNewEnv(t)
	defer e.finish("c01b_boundaries_combined")
	for _, n := range []int{255, 256, 257} {
		for delta := -2; delta <= 2; delta++ {
			e.runTree(c01bSpec{n: n, arity: 1, total: 1<<15 + delta}, c01bAllOpts)
			e.runTree(c01bSpec{n: n, arity: 4, total: 1<<15 + delta, skew: true}, c01bAllOpts)
			e.runTree(c01bSpec{n: n, arity: 2, total: 1<<15 + delta, twoRoots: true}, c01bAllOpts)
		}
	}
	if e.thorough {
		for _, n := range []int{65535, 65536, 65537} {
			for delta := -2; delta <= 2; delta++ {
				e.runTree(c01bSpec{n: n, arity: 4, total: 1<<23 + delta}, c01bAllOpts)
			}
		}
	}
}
