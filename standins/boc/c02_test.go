//go:build verif

package boc

// Bounded stand-in for C02 (labelled bounded, never counted as proved).
// Oracle: refHasher (refhash_helper_test.go), an independent implementation of the TON representation hash / depth / level.
//
// Bound (quick tier):
//   A. single ordinary cells of every bit length 0..1023, built through 6 different APIs;
//   B. every DAG shape with <= 4 cells (0..4 refs per cell, arbitrary sharing) of ordinary cells, bit lengths from
//      {0,1,7,8,9,255,1023}: full product for <= 2 cells, 13 assignments per shape for 3 cells, 2 per shape for 4 cells;
//      (thorough: more lengths, full product for 3 cells, 8 assignments for 4 cells, 5 cells with <= 3 refs per cell and a
//      random sample of 5-cell shapes with up to 4 refs);
//   C. hand-built exotic cells over 6 base subtrees: pruned branches with every mask 1..7, library cells, ordinary parents,
//      Merkle proofs (nested up to 3 deep) and Merkle updates over trees containing pruned branches;
//      the Merkle invariant Hash_l(pruned tree) == Hash_l(original tree) below the pruning level is checked as well;
//   D. proofs produced by the library's own MerkleProver for every shape with <= 3 cells (thorough: 4) and every
//      non-empty set of pruned cells, re-parsed from the produced bag of cells;
//   E. every cell of every bag of cells found under <repo>/**/testdata (blocks, proofs, hex / base64 strings in JSON),
//      and the per-level hashes / depths recorded in boc/testdata/deserialize-block-*.json.
// For each cell: Cell.Hash, Hash256, HashString, Level, immutableCell.Hash(l)/Depth(l) for l=0..3, Hasher.Hash with a fresh
// and a warm cache, and Hash again after ReadUint / NextRef, all against the reference.

import (
	"bytes"
	"encoding/hex"
	"encoding/json"
	"fmt"
	"math/rand"
	"os"
	"path/filepath"
	"strconv"
	"strings"
	"testing"
	"time"
)

type c02Env struct {
	rep      *refReporter
	cases    int
	distinct map[[32]byte]bool
}

// c02CheckCell compares everything the library reports for c with the reference. deep=false skips the
// fresh-cache computations (used for cells of big real blocks, where each of them walks the whole subtree).
func (e *c02Env) checkCell(c *Cell, rh *refHasher, warm *Hasher, deep bool, what func() string) {
	e.cases++
	defer func() {
		if r := recover(); r != nil {
			e.rep.errorf("%s: panic: %v", what(), r)
		}
	}()
	var want [4]refHD
	for l := 0; l <= 3; l++ {
		v, err := rh.hashDepth(c, l)
		if err != nil {
			e.rep.errorf("%s: reference cannot hash the cell: %v", what(), err)
			return
		}
		want[l] = v
	}
	top := want[3].hash
	e.distinct[top] = true
	wantLevel, _ := rh.level(c)
	if c.Level() != wantLevel {
		e.rep.errorf("%s: Level() = %d, reference %d", what(), c.Level(), wantLevel)
	}
	if warm != nil {
		for round := 0; round < 2; round++ {
			got, err := warm.Hash(c)
			if err != nil || !bytes.Equal(got, top[:]) {
				e.rep.errorf("%s: warm Hasher.Hash (round %d) = %x, %v; reference %x", what(), round, got, err, top)
			}
		}
		hs, err := warm.HashString(c)
		if err != nil || hs != hex.EncodeToString(top[:]) {
			e.rep.errorf("%s: warm Hasher.HashString = %s, %v; reference %x", what(), hs, err, top)
		}
		imm, err := newImmutableCell(c, warm.cache)
		if err != nil {
			e.rep.errorf("%s: newImmutableCell (warm): %v", what(), err)
		} else {
			for l := 0; l <= 3; l++ {
				if h := imm.Hash(l); !bytes.Equal(h, want[l].hash[:]) {
					e.rep.errorf("%s: level %d hash (warm cache) = %x, reference %x", what(), l, h, want[l].hash)
				}
				if d := imm.Depth(l); d != want[l].depth {
					e.rep.errorf("%s: level %d depth (warm cache) = %d, reference %d", what(), l, d, want[l].depth)
				}
			}
		}
	}
	if !deep {
		return
	}
	check := func(api string) {
		got, err := c.Hash()
		if err != nil || !bytes.Equal(got, top[:]) {
			e.rep.errorf("%s: %s = %x, %v; reference %x", what(), api, got, err, top)
		}
	}
	check("Cell.Hash")
	if h, err := c.Hash256(); err != nil || h != top {
		e.rep.errorf("%s: Hash256 = %x, %v; reference %x", what(), h, err, top)
	}
	if s, err := c.HashString(); err != nil || s != hex.EncodeToString(top[:]) {
		e.rep.errorf("%s: HashString = %s, %v; reference %x", what(), s, err, top)
	}
	if got, err := NewHasher().Hash(c); err != nil || !bytes.Equal(got, top[:]) {
		e.rep.errorf("%s: fresh Hasher.Hash = %x, %v; reference %x", what(), got, err, top)
	}
	imm, err := newImmutableCell(c, map[*Cell]*immutableCell{})
	if err != nil {
		e.rep.errorf("%s: newImmutableCell: %v", what(), err)
	} else {
		for l := 0; l <= 3; l++ {
			if h := imm.Hash(l); !bytes.Equal(h, want[l].hash[:]) {
				e.rep.errorf("%s: level %d hash = %x, reference %x", what(), l, h, want[l].hash)
			}
			if d := imm.Depth(l); d != want[l].depth {
				e.rep.errorf("%s: level %d depth = %d, reference %d", what(), l, d, want[l].depth)
			}
		}
	}
	// reading must not change the hash
	n := c.BitsAvailableForRead()
	if n > 13 {
		n = 13
	}
	_, _ = c.ReadUint(n)
	check("Cell.Hash after ReadUint")
	_, _ = c.ReadBit()
	if r, err := c.NextRef(); err == nil {
		_, _ = r.ReadUint(1)
		check("Cell.Hash after NextRef + child read")
		r.ResetCounters()
	}
	_, _ = c.ReadBytes(c.BitsAvailableForRead() / 8)
	check("Cell.Hash after ReadBytes")
	c.ResetCounters()
	check("Cell.Hash after ResetCounters")
}

// checkDag checks every cell reachable from the roots with a pure (memo-less) reference.
func (e *c02Env) checkDag(what func() string, roots ...*Cell) {
	rh := newRefHasher(false)
	warm := NewHasher()
	for _, r := range roots {
		_, _ = warm.Hash(r)
	}
	for i, c := range refReachable(roots...) {
		i := i
		// the bytewise data extraction of the reference agrees with the ideal bit list
		if a, b := refData(c), refPad(refCellBits(c)); !bytes.Equal(a, b) {
			e.rep.errorf("%s: HARNESS: refData %x vs bit list %x", what(), a, b)
		}
		e.checkCell(c, rh, warm, true, func() string { return fmt.Sprintf("%s cell #%d of {%s}", what(), i, refDumpLazy(roots...)) })
	}
}

func TestVerifStandin_C02_RefHasher(t *testing.T) {
	thorough := os.Getenv("VERIF_TIER") == "thorough"
	rng := rand.New(rand.NewSource(refSeed()))
	e := &c02Env{rep: &refReporter{t: t, max: 3}, distinct: map[[32]byte]bool{}}
	defer func() {
		e.rep.done()
		fmt.Printf("STANDIN-STAT name=c02_refhasher cases=%d distinct=%d\n", e.cases, len(e.distinct))
	}()
	start := time.Now()
	lens := []int{0, 1, 7, 8, 9, 255, 1023}
	if thorough {
		lens = append(lens, 2, 3, 4, 5, 6, 10, 15, 16, 17, 63, 64, 65, 256, 257, 511, 512, 1016, 1017, 1022)
	}

	// A. single cells of every length through every construction API
	for n := 0; n <= 1023; n++ {
		for how := 0; how < refHowCount; how++ {
			if !thorough && how != n%refHowCount && how != (n/8)%refHowCount {
				continue
			}
			c, err := refMakeCell(refRandBits(uint64(refSeed())*4099+uint64(n), n), how)
			if err != nil {
				e.rep.errorf("single cell of %d bits, api %d: %v", n, how, err)
				continue
			}
			n, how := n, how
			e.checkDag(func() string { return fmt.Sprintf("A: single cell bits=%d api=%d", n, how) }, c)
		}
	}
	tA := time.Since(start)

	// B. enumerated DAGs of ordinary cells
	perN := map[int]int{}
	runShape := func(s refShape, bl []int, same bool, how int) {
		perN[len(s)]++
		sp := &refBuildSpec{shape: s, bitLens: bl, seed: uint64(refSeed()), same: same}
		cells, err := refBuild(sp, how, false)
		if err != nil {
			e.rep.errorf("B: build %v: %v", sp, err)
			return
		}
		e.checkDag(func() string { return "B: " + sp.String() + " api=" + strconv.Itoa(how) }, cells[0])
	}
	caseNo := 0
	enum := func(n, maxRefs, perShape int, full bool) {
		refEnumShapes(n, maxRefs, func(s refShape) bool {
			if full {
				bl := make([]int, n)
				var rec func(i int)
				rec = func(i int) {
					if i == n {
						caseNo++
						runShape(s, bl, false, caseNo%refHowCount)
						return
					}
					for _, l := range lens {
						bl[i] = l
						rec(i + 1)
					}
				}
				rec(0)
				return true
			}
			for k := 0; k < perShape; k++ {
				caseNo++
				bl := make([]int, n)
				uniform := k%2 == 0
				u := lens[(caseNo/2)%len(lens)]
				for i := range bl {
					if uniform {
						bl[i] = u
					} else {
						bl[i] = lens[rng.Intn(len(lens))]
					}
				}
				// uniform lengths with the same content stream make equal (mergeable) cells
				runShape(s, bl, uniform && caseNo%4 == 0, caseNo%refHowCount)
			}
			return true
		})
	}
	enum(1, 4, 0, true)
	enum(2, 4, 0, true)
	if thorough {
		saved := lens
		lens = lens[:7]
		enum(3, 4, 0, true)
		lens = saved
		enum(3, 4, 16, false)
		enum(4, 4, 8, false)
		enum(5, 3, 1, false)
		// sample of 5-cell shapes using 4 refs somewhere
		cnt := 0
		refEnumShapes(5, 4, func(s refShape) bool {
			cnt++
			if cnt%61 != 0 {
				return true
			}
			caseNo++
			bl := make([]int, 5)
			for i := range bl {
				bl[i] = lens[rng.Intn(len(lens))]
			}
			runShape(s, bl, false, caseNo%refHowCount)
			return true
		})
	} else {
		enum(3, 4, 13, false)
		enum(4, 4, 2, false)
	}
	tB := time.Since(start)
	t.Logf("B: enumerated DAGs per cell count: %v", perN)

	// C. hand-built exotic cells
	c02Exotic(e, thorough)
	tC := time.Since(start)

	// D. the library's own prover
	maxN := 3
	if thorough {
		maxN = 4
	}
	for n := 2; n <= maxN; n++ {
		refEnumShapes(n, 4, func(s refShape) bool {
			caseNo++
			bl := make([]int, n)
			for i := range bl {
				bl[i] = lens[(caseNo+i)%len(lens)]
			}
			c02Prover(e, &refBuildSpec{shape: append(refShape{}, s...), bitLens: bl, seed: uint64(refSeed())})
			return true
		})
	}
	tD := time.Since(start)

	// E. testdata
	c02Testdata(e, t, thorough)
	t.Logf("timing: A %v, B %v, C %v, D %v, E %v", tA, tB-tA, tC-tB, tD-tC, time.Since(start)-tD)
}

// c02Exotic builds pruned branches with every mask, library cells, Merkle proofs and updates.
func c02Exotic(e *c02Env, thorough bool) {
	rh := newRefHasher(false)
	fail := func(what string, err error) { e.rep.errorf("C: building %s: %v", what, err) }
	bitsOf := func(seed uint64, n int) []bool { return refRandBits(seed+uint64(refSeed())*131, n) }
	ord := func(seed uint64, n int, kids ...*Cell) *Cell {
		c, err := refOrdinary(bitsOf(seed, n), int(seed)%refHowCount, kids...)
		if err != nil {
			fail("ordinary", err)
			panic(err)
		}
		return c
	}
	defer func() {
		if r := recover(); r != nil {
			e.rep.errorf("C: panic while building exotic cases: %v", r)
		}
	}()
	// base subtrees (all of level 0)
	lib, err := refMakeLibrary(77, refHowWriteBytes)
	if err != nil {
		fail("library", err)
		return
	}
	leafA, leafB := ord(1, 0), ord(2, 9)
	shared := ord(3, 255, leafB)
	bases := []*Cell{
		ord(10, 1),
		ord(11, 1023),
		ord(12, 8, leafA, leafB, leafA, shared),
		ord(13, 7, shared, ord(14, 1023, shared, lib)),
		lib,
		ord(15, 0, ord(16, 0, ord(17, 0, ord(18, 0, ord(19, 1))))),
	}
	if thorough {
		for i := 0; i < 12; i++ {
			bases = append(bases, ord(uint64(100+i), []int{0, 1, 7, 8, 9, 255, 1016, 1017, 1022, 1023, 63, 65}[i], bases[i%6], bases[(i+1)%6]))
		}
	}
	prune := func(c *Cell, lvl int) *Cell {
		p, err := refPrune(rh, c, lvl, (lvl+c.bits.len)%refHowCount)
		if err != nil {
			fail("pruned branch", err)
			panic(err)
		}
		return p
	}
	mproof := func(c *Cell) *Cell {
		p, err := refMakeMerkleProof(rh, c)
		if err != nil {
			fail("merkle proof", err)
			panic(err)
		}
		return p
	}
	mupdate := func(a, b *Cell) *Cell {
		p, err := refMakeMerkleUpdate(rh, a, b)
		if err != nil {
			fail("merkle update", err)
			panic(err)
		}
		return p
	}
	// sameBelow checks the Merkle invariant: replacing sub by its pruned branch of level lvl keeps all hashes/depths below lvl.
	sameBelow := func(orig, pr *Cell, lvl int, what string) {
		io, err1 := newImmutableCell(orig, map[*Cell]*immutableCell{})
		ip, err2 := newImmutableCell(pr, map[*Cell]*immutableCell{})
		for l := 0; l < lvl; l++ {
			a, ea := rh.hashDepth(orig, l)
			b, eb := rh.hashDepth(pr, l)
			if ea != nil || eb != nil || a != b {
				e.rep.errorf("C: ORACLE self-check failed (%s, level %d): %x/%d vs %x/%d (%v %v)", what, l, a.hash, a.depth, b.hash, b.depth, ea, eb)
			}
			if err1 != nil || err2 != nil {
				e.rep.errorf("C: %s: newImmutableCell: %v %v", what, err1, err2)
				continue
			}
			if !bytes.Equal(io.Hash(l), ip.Hash(l)) || io.Depth(l) != ip.Depth(l) {
				e.rep.errorf("C: %s: library level-%d hash/depth of the pruned tree %x/%d differs from the original %x/%d; original {%s} pruned {%s}",
					what, l, ip.Hash(l), ip.Depth(l), io.Hash(l), io.Depth(l), refDumpLazy(orig), refDumpLazy(pr))
			}
		}
	}
	masksSeen := map[int]bool{}
	for bi, s := range bases {
		for bj, s2 := range bases {
			if !thorough && bj != (bi+1)%len(bases) && bj != (bi+3)%len(bases) {
				continue
			}
			tag := fmt.Sprintf("bases %d,%d", bi, bj)
			seed := uint64(1000 + bi*37 + bj)
			// masks 1, 2, 4: pruning a level-0 subtree for the 1st, 2nd, 3rd enclosing Merkle cell
			p1, p2, p4 := prune(s, 1), prune(s, 2), prune(s, 3)
			// level-1 tree and its replacement -> mask 3 (2nd Merkle) and 5 (3rd Merkle)
			t1 := ord(seed, 9, s2, p1)
			p3, p5 := prune(t1, 2), prune(t1, 3)
			// level-2 tree (mask 2) -> mask 6
			t2 := ord(seed+1, 1023, p2, s2)
			p6 := prune(t2, 3)
			// level-2 tree with mask 3 -> mask 7
			t3 := ord(seed+2, 0, p1, prune(s2, 2))
			p7 := prune(t3, 3)
			for _, p := range []*Cell{p1, p2, p3, p4, p5, p6, p7} {
				masksSeen[int(p.mask)] = true
			}
			// ordinary trees over the originals and over the pruned replacements
			full1 := ord(seed+3, 15, s, s2)
			pr1 := ord(seed+3, 15, p1, s2)
			sameBelow(full1, pr1, 1, tag+" mask1")
			full2 := ord(seed+4, 1, s2, t1, s)
			pr2 := ord(seed+4, 1, s2, p3, p2)
			sameBelow(full2, pr2, 2, tag+" mask3+2")
			full3 := ord(seed+5, 255, t3, t2, t1, s)
			pr3 := ord(seed+5, 255, p7, p6, p5, p4)
			sameBelow(full3, pr3, 3, tag+" mask7+6+5+4")
			// Merkle proofs: depth 1, 2, 3
			mp1 := mproof(pr1)                           // level 0
			mp2 := mproof(ord(seed+6, 7, mproof(pr2)))   // inner proof has level 1, the outer one level 0
			mp3in := mproof(pr3)                         // level 2
			mp3 := mproof(ord(seed+7, 8, mproof(mp3in))) // 2 -> 1 -> (ordinary) -> 0
			mixed := mproof(ord(seed+8, 64, mproof(ord(seed+9, 3, p3, t1)), p1, lib))
			// Merkle updates: both sides pruned, one side complete
			mu1 := mupdate(pr1, ord(seed+10, 33, p1, p1))
			mu2 := mupdate(full1, pr1)
			mu3 := mproof(ord(seed+11, 5, mupdate(pr2, t1))) // update of level 1 inside a proof
			block := ord(seed+12, 600, mp1, mu1, mu2, mp2)
			for k, root := range []*Cell{p1, p2, p3, p4, p5, p6, p7, t1, t2, t3, pr1, pr2, pr3, mp1, mp2, mp3in, mp3, mixed, mu1, mu2, mu3, block} {
				k := k
				e.checkDag(func() string { return fmt.Sprintf("C: %s root %d", tag, k) }, root)
				// the same through a bag of cells
				for opt := 0; opt < 8; opt += 7 {
					b, err := root.ToBocCustom(opt&1 != 0, opt&2 != 0, opt&4 != 0, 0)
					if err != nil {
						e.rep.errorf("C: %s root %d: ToBocCustom: %v {%s}", tag, k, err, refDumpLazy(root))
						continue
					}
					parsed, err := DeserializeBoc(b)
					if err != nil || len(parsed) != 1 {
						e.rep.errorf("C: %s root %d: DeserializeBoc(%x): %v", tag, k, b, err)
						continue
					}
					if s := refSameStructure(root, parsed[0]); s != "" {
						e.rep.errorf("C: %s root %d: parsed copy differs: %s (boc %x)", tag, k, s, b)
					}
					e.checkDag(func() string { return fmt.Sprintf("C: %s root %d parsed from %x", tag, k, b) }, parsed[0])
				}
			}
			// Merkle proof / update of level 0 must have level 0 and the stored hash must be the child's level-0 hash
			for _, m := range []*Cell{mp1, mp2, mp3, mixed, mu3} {
				if m.Level() != 0 {
					e.rep.errorf("C: %s: hand-built top-level Merkle cell has level %d", tag, m.Level())
				}
			}
		}
	}
	for m := 1; m <= 7; m++ {
		if !masksSeen[m] {
			e.rep.errorf("C: pruned branch mask %d was never built", m)
		}
	}
}

// c02Prover prunes every non-empty subset of the non-root cells with the library's prover and checks the parsed result.
func c02Prover(e *c02Env, sp *refBuildSpec) {
	n := len(sp.shape)
	// path from the root to the first occurrence of every cell
	paths := make([][]int, n)
	var walk func(i int, p []int)
	visited := make([]bool, n)
	walk = func(i int, p []int) {
		if visited[i] {
			return
		}
		visited[i] = true
		paths[i] = append([]int{}, p...)
		for k, r := range sp.shape[i] {
			walk(r, append(p, k))
		}
	}
	walk(0, nil)
	for subset := 1; subset < 1<<uint(n-1); subset++ {
		func() {
			what := func() string { return fmt.Sprintf("D: %v pruned-subset=%b", sp, subset) }
			defer func() {
				if r := recover(); r != nil {
					e.rep.errorf("%s: panic: %v", what(), r)
				}
			}()
			cells, err := refBuild(sp, subset%refHowCount, false)
			if err != nil {
				e.rep.errorf("%s: build: %v", what(), err)
				return
			}
			rh := newRefHasher(false)
			orig, err := rh.hashDepth(cells[0], 0)
			if err != nil {
				e.rep.errorf("%s: reference: %v", what(), err)
				return
			}
			prover, err := NewMerkleProver(cells[0])
			if err != nil {
				e.rep.errorf("%s: NewMerkleProver: %v", what(), err)
				return
			}
			cur := prover.Cursor()
			for i := 1; i < n; i++ {
				if subset>>(uint(i)-1)&1 == 0 {
					continue
				}
				c := cur
				for _, k := range paths[i] {
					c = c.Ref(k)
				}
				c.Prune()
			}
			b, err := prover.CreateProof(cur)
			if err != nil {
				e.rep.errorf("%s: CreateProof: %v", what(), err)
				return
			}
			roots, err := DeserializeBoc(b)
			if err != nil || len(roots) != 1 {
				e.rep.errorf("%s: DeserializeBoc(%x): %v", what(), b, err)
				return
			}
			root := roots[0]
			e.checkDag(func() string { return what() + " proof " + hex.EncodeToString(b) }, root)
			if root.cellType != MerkleProofCell || len(refKids(root)) != 1 {
				e.rep.errorf("%s: proof root is not a Merkle proof cell: %x", what(), b)
				return
			}
			data := refData(root)
			wantData := append([]byte{3}, orig.hash[:]...)
			wantData = append(wantData, byte(orig.depth>>8), byte(orig.depth))
			if !bytes.Equal(data, wantData) {
				e.rep.errorf("%s: proof root data %x, want %x", what(), data, wantData)
			}
			body, err := newRefHasher(false).hashDepth(refKids(root)[0], 0)
			if err != nil || body != orig {
				e.rep.errorf("%s: level-0 hash/depth of the proof body %x/%d (%v), original %x/%d; proof %x", what(), body.hash, body.depth, err, orig.hash, orig.depth, b)
			}
			// the original tree must still hash to the same value
			if h, err := cells[0].Hash(); err != nil || !bytes.Equal(h, orig.hash[:]) {
				e.rep.errorf("%s: original tree hash changed after proving: %x %v", what(), h, err)
			}
		}()
	}
}

type c02Node struct {
	Type  int       `json:"type"`
	Level int       `json:"level"`
	Depth []int     `json:"depth"`
	Hash  []string  `json:"hash"`
	Mask  int       `json:"mask"`
	Refs  []c02Node `json:"refs"`
}

// c02Testdata checks every cell of every testdata bag of cells.
func c02Testdata(e *c02Env, t *testing.T, thorough bool) {
	deadline := time.Now().Add(12 * time.Second)
	if thorough {
		deadline = time.Now().Add(5 * time.Minute)
	}
	bocs := refTestdataBocs()
	parsedOK, totalCells := 0, 0
	merkleChecked := 0
	for _, nb := range bocs {
		if time.Now().After(deadline) {
			t.Logf("E: time budget used up, stopping before %s", nb.name)
			break
		}
		var roots []*Cell
		func() {
			defer func() {
				if r := recover(); r != nil {
					e.rep.errorf("E: %s: DeserializeBoc panicked: %v", nb.name, r)
				}
			}()
			var err error
			roots, err = DeserializeBoc(nb.data)
			if err != nil {
				roots = nil
			}
		}()
		if len(roots) == 0 {
			continue
		}
		parsedOK++
		rh := newRefHasher(true)
		warm := NewHasher()
		for _, r := range roots {
			if _, err := warm.Hash(r); err != nil {
				e.rep.errorf("E: %s: Hasher.Hash(root): %v", nb.name, err)
			}
		}
		cells := refReachable(roots...)
		totalCells += len(cells)
		// depth of each cell in the reference sense, to pick those with small subtrees for the fresh-cache checks
		for i, c := range cells {
			i, c := i, c
			deep := i < len(roots)
			if v, err := rh.hashDepth(c, 3); err == nil && v.depth <= 3 && (thorough || i%4 == 0) {
				deep = true
			}
			e.checkCell(c, rh, warm, deep, func() string {
				return fmt.Sprintf("E: %s cell #%d (preorder) type=%d mask=%d bits=%d data=%x", nb.name, i, c.cellType, c.mask, c.bits.len, refData(c))
			})
			// the library's mask field (taken from d1 by the parser) must be the mask the specification prescribes
			if m, err := rh.mask(c); err == nil && int(c.mask) != m {
				e.rep.errorf("E: %s cell #%d: parsed level mask %d, specification %d", nb.name, i, c.mask, m)
			}
			// oracle sanity on real data: Merkle cells commit to the level-0 hash/depth of their children
			if c.cellType == MerkleProofCell || c.cellType == MerkleUpdateCell {
				data := refData(c)
				kids := refKids(c)
				for k, kid := range kids {
					v, err := rh.hashDepth(kid, 0)
					if err != nil {
						continue
					}
					hs := data[1+32*k : 1+32*k+32]
					ds := data[1+32*len(kids)+2*k:]
					merkleChecked++
					if !bytes.Equal(hs, v.hash[:]) || int(ds[0])<<8|int(ds[1]) != v.depth {
						e.rep.errorf("E: ORACLE sanity: %s cell #%d: Merkle cell stores %x/%d for child %d, reference level-0 value %x/%d",
							nb.name, i, hs, int(ds[0])<<8|int(ds[1]), k, v.hash, v.depth)
					}
				}
			}
		}
	}
	t.Logf("E: %d candidate byte strings, %d parsed, %d cells, %d Merkle commitments cross-checked", len(bocs), parsedOK, totalCells, merkleChecked)
	if parsedOK == 0 {
		e.rep.errorf("E: no testdata bag of cells could be parsed")
	}
	// recorded per-level hashes (produced by the reference node implementation) validate the oracle itself
	files, _ := filepath.Glob("testdata/deserialize-block-*.json")
	for _, f := range files {
		raw, err := os.ReadFile(f)
		if err != nil || len(raw) == 0 {
			continue
		}
		var doc struct {
			Boc  string   `json:"boc"`
			Root *c02Node `json:"root"`
		}
		if err := json.Unmarshal(raw, &doc); err != nil || doc.Root == nil {
			continue
		}
		roots, err := DeserializeBocHex(doc.Boc)
		if err != nil || len(roots) != 1 {
			continue
		}
		rh := newRefHasher(true)
		n := 0
		var cmp func(c *Cell, nd *c02Node, path string)
		cmp = func(c *Cell, nd *c02Node, path string) {
			n++
			m, err := rh.mask(c)
			if err != nil || m != nd.Mask || int(c.cellType) != nd.Type {
				e.rep.errorf("E: ORACLE vs %s at %s: mask %d (%v) type %d, recorded mask %d type %d", f, path, m, err, c.cellType, nd.Mask, nd.Type)
				return
			}
			for l := 0; l <= 3 && l < len(nd.Hash) && l < len(nd.Depth); l++ {
				v, err := rh.hashDepth(c, l)
				if err != nil || !strings.EqualFold(hex.EncodeToString(v.hash[:]), nd.Hash[l]) || v.depth != nd.Depth[l] {
					e.rep.errorf("E: ORACLE vs %s at %s level %d: %x/%d (%v), recorded %s/%d", f, path, l, v.hash, v.depth, err, nd.Hash[l], nd.Depth[l])
				}
			}
			kids := refKids(c)
			if len(kids) != len(nd.Refs) {
				e.rep.errorf("E: %s at %s: %d refs, recorded %d", f, path, len(kids), len(nd.Refs))
				return
			}
			for i := range kids {
				cmp(kids[i], &nd.Refs[i], path+"/"+strconv.Itoa(i))
			}
		}
		cmp(roots[0], doc.Root, "root")
		t.Logf("E: oracle agrees with %d recorded nodes of %s", n, f)
	}
}
