//go:build verif

package tl

// Bounded stand-in for C20 (labelled bounded, never counted as proved), package tl part: Int256.
//
// Bound: zero, all-ones, 0x00ff pattern, leading zero bytes, 16 (quick) / 400 (thorough) random values; malformed input:
// every truncation and single-byte substitutions (12 / 40 byte values per position) of 3 seed documents plus
// wrong-shape documents; through json.Unmarshal and UnmarshalJSON directly; never a panic.

import (
	"encoding/json"
	"fmt"
	"math/rand"
	"os"
	"sort"
	"strconv"
	"testing"
)

func c20Seed() int64 {
	if v, err := strconv.ParseInt(os.Getenv("VERIF_SEED"), 10, 64); err == nil {
		return v
	}
	return 1
}

type c20Fails struct {
	count map[string]int
	msgs  map[string][]string
	known []string
}

func (f *c20Fails) add(cause, format string, args ...any) {
	if f.count == nil {
		f.count, f.msgs = map[string]int{}, map[string][]string{}
	}
	f.count[cause]++
	if len(f.msgs[cause]) < 6 {
		m := fmt.Sprintf(format, args...)
		if len(m) > 1200 {
			m = m[:1200] + "...(truncated)"
		}
		f.msgs[cause] = append(f.msgs[cause], m)
	}
}

func (f *c20Fails) report(t *testing.T) {
	names := map[string]bool{}
	for _, k := range f.known {
		names[k] = true
	}
	for k := range f.count {
		names[k] = true
	}
	var sorted []string
	for k := range names {
		sorted = append(sorted, k)
	}
	sort.Strings(sorted)
	for _, k := range sorted {
		k := k
		t.Run(k, func(t *testing.T) {
			if f.count[k] == 0 {
				return
			}
			t.Errorf("%d failing case(s); first %d:", f.count[k], len(f.msgs[k]))
			for _, m := range f.msgs[k] {
				t.Errorf("  %s", m)
			}
		})
	}
}

func c20Safe(fn func()) (p string) {
	defer func() {
		if r := recover(); r != nil {
			p = fmt.Sprintf("panic: %v", r)
		}
	}()
	fn()
	return ""
}

var c20Subst = []byte{'"', '\\', '0', '9', 'f', 'g', '-', ':', '_', ' ', 0x00, 0xff}
var c20SubstMore = []byte{'{', '}', '[', ']', ',', 'n', 'u', 'l', 'x', 'A', 'z', '(', ')', '.', 'e', '+', '\n', '\t', 0x7f, 0x80, 0xc3, '1', '8', 'a', 'F', 'G', '/', '\''}

// c20Mutations: every truncation and single-byte substitutions of the seeds, plus wrong-shape documents.
func c20Mutations(seeds []string, wrongShape []string, thorough bool, feed func(doc []byte)) {
	subst := c20Subst
	if thorough {
		subst = append(append([]byte{}, c20Subst...), c20SubstMore...)
	}
	for _, s := range seeds {
		b := []byte(s)
		for n := 0; n <= len(b); n++ {
			feed(b[:n])
		}
		for pos := 0; pos < len(b); pos++ {
			for _, x := range subst {
				if b[pos] != x {
					m := append([]byte{}, b...)
					m[pos] = x
					feed(m)
				}
			}
		}
	}
	for _, d := range wrongShape {
		feed([]byte(d))
	}
}

var c20WrongShape = []string{`null`, `true`, `{}`, `[]`, `""`, `" "`, `"abc"`, `"zz"`, `"0"`, `"00"`, `12`, `"\u0000"`,
	`"000000000000000000000000000000000000000000000000000000000000000000"`, `"00000000000000000000000000000000000000000000000000000000000000"`}

func TestVerifStandin_C20_JSON(t *testing.T) {
	rng := rand.New(rand.NewSource(c20Seed()))
	thorough := os.Getenv("VERIF_TIER") == "thorough"
	fails := &c20Fails{known: []string{"rc_int256_json_roundtrip", "rc_int256_unmarshaljson_panics"}}
	cases, distinct := 0, map[string]struct{}{}
	note := func(k string) {
		cases++
		distinct[k] = struct{}{}
	}
	var vals []Int256
	var zero, ones, pat, lead Int256
	for i := range ones {
		ones[i] = 0xff
		if i%2 == 1 {
			pat[i] = 0xff
		}
	}
	lead[31] = 1
	vals = append(vals, zero, ones, pat, lead)
	nrand := 16
	if thorough {
		nrand = 400
	}
	for i := 0; i < nrand; i++ {
		var a Int256
		rng.Read(a[:])
		vals = append(vals, a)
	}
	var seeds []string
	for _, v := range vals {
		note(fmt.Sprintf("int256|%x", v[:]))
		var b []byte
		var err error
		if p := c20Safe(func() { b, err = json.Marshal(v) }); p != "" || err != nil || !json.Valid(b) {
			fails.add("rc_int256_json_roundtrip", "Int256 %x: Marshal: %v %v %q", v[:], p, err, b)
			continue
		}
		var back Int256
		if p := c20Safe(func() { err = json.Unmarshal(b, &back) }); p != "" || err != nil {
			fails.add("rc_int256_json_roundtrip", "Int256 %x: JSON %s does not parse back: %v %v", v[:], b, p, err)
			continue
		}
		if back != v {
			fails.add("rc_int256_json_roundtrip", "Int256 %x: JSON %s parses back to %x", v[:], b, back[:])
		}
		if len(seeds) < 3 {
			seeds = append(seeds, string(b))
		}
	}
	c20Mutations(seeds, c20WrongShape, thorough, func(doc []byte) {
		note("int256|doc|" + string(doc))
		if p := c20Safe(func() { var x Int256; _ = json.Unmarshal(doc, &x) }); p != "" {
			fails.add("rc_int256_unmarshaljson_panics", "json.Unmarshal(Int256) on %q (hex %x): %s", doc, doc, p)
		}
		if p := c20Safe(func() { var x Int256; _ = x.UnmarshalJSON(append([]byte{}, doc...)) }); p != "" {
			fails.add("rc_int256_unmarshaljson_panics", "Int256.UnmarshalJSON on %q (hex %x): %s", doc, doc, p)
		}
	})
	fails.report(t)
	fmt.Printf("STANDIN-STAT name=c20_json_tl cases=%d distinct=%d\n", cases, len(distinct))
}
