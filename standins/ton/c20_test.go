//go:build verif

package ton

// Bounded stand-in for C20 (labelled bounded, never counted as proved), package ton part: AccountID and Bits256.
//
// Bound: AccountID: workchains {0, -1, 1, 127, -128, 128, -129, 255, int32 min / max} x addresses {zero, all-ones,
// leading-zero bytes, 8 (quick) / 200 (thorough) random}; Bits256: zero, all-ones, 0x00ff pattern, random.
// Malformed input: every truncation and single-byte substitutions (12 / 40 byte values per position) of 3 seed
// documents per type plus wrong-shape documents; through json.Unmarshal and UnmarshalJSON directly; never a panic.

import (
	"encoding/json"
	"fmt"
	"math/rand"
	"os"
	"sort"
	"strconv"
	"testing"
)

func c20Seed() int64 {
	if v, err := strconv.ParseInt(os.Getenv("VERIF_SEED"), 10, 64); err == nil {
		return v
	}
	return 1
}

type c20Fails struct {
	count map[string]int
	msgs  map[string][]string
	known []string
}

func (f *c20Fails) add(cause, format string, args ...any) {
	if f.count == nil {
		f.count, f.msgs = map[string]int{}, map[string][]string{}
	}
	f.count[cause]++
	if len(f.msgs[cause]) < 6 {
		m := fmt.Sprintf(format, args...)
		if len(m) > 1200 {
			m = m[:1200] + "...(truncated)"
		}
		f.msgs[cause] = append(f.msgs[cause], m)
	}
}

func (f *c20Fails) report(t *testing.T) {
	names := map[string]bool{}
	for _, k := range f.known {
		names[k] = true
	}
	for k := range f.count {
		names[k] = true
	}
	var sorted []string
	for k := range names {
		sorted = append(sorted, k)
	}
	sort.Strings(sorted)
	for _, k := range sorted {
		k := k
		t.Run(k, func(t *testing.T) {
			if f.count[k] == 0 {
				return
			}
			t.Errorf("%d failing case(s); first %d:", f.count[k], len(f.msgs[k]))
			for _, m := range f.msgs[k] {
				t.Errorf("  %s", m)
			}
		})
	}
}

func c20Safe(fn func()) (p string) {
	defer func() {
		if r := recover(); r != nil {
			p = fmt.Sprintf("panic: %v", r)
		}
	}()
	fn()
	return ""
}

var c20Subst = []byte{'"', '\\', '0', '9', 'f', 'g', '-', ':', '_', ' ', 0x00, 0xff}
var c20SubstMore = []byte{'{', '}', '[', ']', ',', 'n', 'u', 'l', 'x', 'A', 'z', '(', ')', '.', 'e', '+', '\n', '\t', 0x7f, 0x80, 0xc3, '1', '8', 'a', 'F', 'G', '/', '\''}

// c20Mutations: every truncation and single-byte substitutions of the seeds, plus wrong-shape documents.
func c20Mutations(seeds []string, wrongShape []string, thorough bool, feed func(doc []byte)) {
	subst := c20Subst
	if thorough {
		subst = append(append([]byte{}, c20Subst...), c20SubstMore...)
	}
	for _, s := range seeds {
		b := []byte(s)
		for n := 0; n <= len(b); n++ {
			feed(b[:n])
		}
		for pos := 0; pos < len(b); pos++ {
			for _, x := range subst {
				if b[pos] != x {
					m := append([]byte{}, b...)
					m[pos] = x
					feed(m)
				}
			}
		}
	}
	for _, d := range wrongShape {
		feed([]byte(d))
	}
}

var c20WrongShape = []string{`null`, `true`, `{}`, `[]`, `""`, `" "`, `"abc"`, `":"`, `"0:"`, `":00"`, `"0:zz"`, `"-:00"`, `"0:0"`, `"99999999999:00"`, `12`, `"\u0000"`,
	`"0:00000000000000000000000000000000000000000000000000000000000000000"`, `"EQ"`, `"EQDtFpEwcFAEcRe5mLVh2N6C0x-_hJEM7W61_JLnSF74p4q2"`, `"%x"`, `"%!x(MISSING)"`}

func TestVerifStandin_C20_JSON(t *testing.T) {
	rng := rand.New(rand.NewSource(c20Seed()))
	thorough := os.Getenv("VERIF_TIER") == "thorough"
	fails := &c20Fails{known: []string{"rc_accountid_json_roundtrip", "rc_bits256_json_roundtrip", "rc_accountid_unmarshaljson_panics", "rc_bits256_unmarshaljson_panics"}}
	cases, distinct := 0, map[string]struct{}{}
	note := func(k string) {
		cases++
		distinct[k] = struct{}{}
	}
	var addrs [][32]byte
	var zero, ones, lead [32]byte
	for i := range ones {
		ones[i] = 0xff
	}
	lead[31] = 1
	addrs = append(addrs, zero, ones, lead)
	nrand := 8
	if thorough {
		nrand = 200
	}
	for i := 0; i < nrand; i++ {
		var a [32]byte
		rng.Read(a[:])
		if i%4 == 0 {
			a[0] = 0
		}
		addrs = append(addrs, a)
	}
	var idSeeds []string
	for _, wc := range []int32{0, -1, 1, 127, -128, 128, -129, 255, -1 << 31, 1<<31 - 1} {
		for _, a := range addrs {
			id := AccountID{Workchain: wc, Address: a}
			note(fmt.Sprintf("id|%d|%x", wc, a))
			var b []byte
			var err error
			if p := c20Safe(func() { b, err = json.Marshal(id) }); p != "" || err != nil || !json.Valid(b) {
				fails.add("rc_accountid_json_roundtrip", "AccountID{%d,%x}: Marshal: %v %v %q", wc, a, p, err, b)
				continue
			}
			var back AccountID
			if p := c20Safe(func() { err = json.Unmarshal(b, &back) }); p != "" || err != nil {
				fails.add("rc_accountid_json_roundtrip", "AccountID{%d,%x}: JSON %s does not parse back: %v %v", wc, a, b, p, err)
				continue
			}
			if back != id {
				fails.add("rc_accountid_json_roundtrip", "AccountID{%d,%x}: JSON %s parses back to {%d,%x}", wc, a, b, back.Workchain, back.Address)
			}
			if len(idSeeds) < 3 && (wc == 0 || wc == -1 || wc == -1<<31) && a != zero {
				idSeeds = append(idSeeds, string(b))
			}
		}
	}
	var hSeeds []string
	var pat [32]byte
	for i := range pat {
		if i%2 == 1 {
			pat[i] = 0xff
		}
	}
	for _, a := range append(addrs, pat) {
		h := Bits256(a)
		note(fmt.Sprintf("bits256|%x", a))
		var b []byte
		var err error
		if p := c20Safe(func() { b, err = json.Marshal(h) }); p != "" || err != nil || !json.Valid(b) {
			fails.add("rc_bits256_json_roundtrip", "Bits256 %x: Marshal: %v %v %q", a, p, err, b)
			continue
		}
		var back Bits256
		if p := c20Safe(func() { err = json.Unmarshal(b, &back) }); p != "" || err != nil {
			fails.add("rc_bits256_json_roundtrip", "Bits256 %x: JSON %s does not parse back: %v %v", a, b, p, err)
			continue
		}
		if back != h {
			fails.add("rc_bits256_json_roundtrip", "Bits256 %x: JSON %s parses back to %x", a, b, back[:])
		}
		if len(hSeeds) < 3 {
			hSeeds = append(hSeeds, string(b))
		}
	}
	c20Mutations(idSeeds, c20WrongShape, thorough, func(doc []byte) {
		note("id|doc|" + string(doc))
		if p := c20Safe(func() { var x AccountID; _ = json.Unmarshal(doc, &x) }); p != "" {
			fails.add("rc_accountid_unmarshaljson_panics", "json.Unmarshal(AccountID) on %q (hex %x): %s", doc, doc, p)
		}
		if p := c20Safe(func() { var x AccountID; _ = x.UnmarshalJSON(append([]byte{}, doc...)) }); p != "" {
			fails.add("rc_accountid_unmarshaljson_panics", "AccountID.UnmarshalJSON on %q (hex %x): %s", doc, doc, p)
		}
	})
	c20Mutations(hSeeds, c20WrongShape, thorough, func(doc []byte) {
		note("bits256|doc|" + string(doc))
		if p := c20Safe(func() { var x Bits256; _ = json.Unmarshal(doc, &x) }); p != "" {
			fails.add("rc_bits256_unmarshaljson_panics", "json.Unmarshal(Bits256) on %q (hex %x): %s", doc, doc, p)
		}
		if p := c20Safe(func() { var x Bits256; _ = x.UnmarshalJSON(append([]byte{}, doc...)) }); p != "" {
			fails.add("rc_bits256_unmarshaljson_panics", "Bits256.UnmarshalJSON on %q (hex %x): %s", doc, doc, p)
		}
	})
	fails.report(t)
	fmt.Printf("STANDIN-STAT name=c20_json_ton cases=%d distinct=%d\n", cases, len(distinct))
}
