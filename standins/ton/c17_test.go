//go:build verif

package ton

// Bounded stand-in for C17 (labelled bounded, never counted as proved), package ton part: account id forms and shards.
//
// Oracles (written from the TON documentation, not from the library):
//   - user-friendly form = base64 / base64url (48 digits, no padding) of 36 bytes: tag (0x11 bounceable, 0x51
//     non-bounceable, |0x80 testnet), workchain as int8, 32-byte hash, CRC16-XMODEM (poly 0x1021, init 0, big-endian) of
//     the first 34 bytes. The CRC is computed by the bitwise c17Crc16 below.
//   - raw form = "<decimal workchain>:<64 lower-case hex digits>"; fewer than 64 hex digits are read as a number (left
//     zero filling, as documented by the library's own zfill tests).
//   - TL form = liteServer.accountId workchain:int id:int256 (lite_api.tl): int32 little-endian + 32 raw bytes.
//   - TL-B form = addr_std$10 anycast:(Maybe Anycast) workchain_id:int8 address:bits256; anycast_info$_ depth:(#<= 30)
//     {depth >= 1} rewrite_pfx:(bits depth): the reference node (block.cpp MsgAddressInt::extract_std_address) replaces
//     the first depth bits of the address by rewrite_pfx.
//   - shard id = prefix bits, a single 1 bit, zeros; an account belongs to the shard iff the prefix is a binary prefix of
//     its 256-bit address; shard_child(s,left) = s -/+ (lowbit(s)>>1); shard_parent(s) = (s - lowbit(s)) | (lowbit(s)<<1).
//
// Bound (quick / thorough):
//   Forms: 2000 / 20000 seeded account hashes (zero, all-ff, leading-zero bytes, random). User-friendly form: the whole
//     int8 workchain range for the first 40 / 400 hashes and {0,-1,1,127,-128, 2 random} for the rest x 4 flag
//     combinations x both alphabets on parsing. Raw / JSON / TL forms: workchains {0,-1,1,127,128,-128,-129,255,
//     2^31-1,-2^31, 1 random int32, 2 random int8} per hash; TL-B form (ToMsgAddress / AccountIDFromTlb): the int8
//     workchains of that list only (ToHuman / ToMsgAddress are never called outside int8: outside the property's domain).
//     Single-character substitutions: 50 / 500 addresses x 48 positions x 63 other digits. Raw parsing: 0..66 hex
//     digits x workchain spellings. Anycast depths 1..30 x 8 / 40 addresses; addr_var lengths {0,1,8,255,256,257,511}.
//     CRC16: every length 0..64 x 20 / 200 random inputs, 5 / 50 inputs of 1000 bytes, the check value.
//   Shards: every prefix length 0..60 x 12 / 100 prefixes (zeros, ones, random) x accounts built from the prefix;
//     MatchBlockID on all pairs of prefix lengths 0..60 x 4 relations; child / parent for all prefix lengths 0..59 / 1..60;
//     convertShardIdent for prefix lengths 0..60.
//
// Informational only (logged as "INFO c17 <name>: N cases, first: ...", never a failure): leniencies the property does
// not forbid (unknown tag bytes with a valid CRC: 20 / 100 addresses x all 252 invalid tags; \r \n skipped by the
// base64 decoder; mixed alphabets) and behaviour outside its domain (prefix lengths 61..63 and children of depth-60
// shards; GetParents for prefix lengths 0..60 x {plain, after split, after merge}).

import (
	"bytes"
	"encoding/base64"
	"encoding/hex"
	"encoding/json"
	"fmt"
	"math/big"
	"math/rand"
	"os"
	"regexp"
	"sort"
	"strconv"
	"strings"
	"testing"

	"github.com/snksoft/crc"
	"github.com/tonkeeper/tongo/boc"
	"github.com/tonkeeper/tongo/tlb"
	"github.com/tonkeeper/tongo/utils"
)

func c17Seed() int64 {
	if v, err := strconv.ParseInt(os.Getenv("VERIF_SEED"), 10, 64); err == nil {
		return v
	}
	return 1
}

func c17Thorough() bool { return os.Getenv("VERIF_TIER") == "thorough" }

// c17Fails collects findings keyed by cause. A cause named rc_... is a violation of the property: every such root cause
// is reported in its own sub-test with a stable name; known root causes are always run (so that they show PASS once
// fixed) and a cause that is not in the known list still gets its own sub-test. A cause named info_... is a leniency or
// a behaviour outside the domain of the property: it is only logged ("INFO c17 <name>: N cases, first: ...") and never
// fails the test.
type c17Fails struct {
	count map[string]int
	msgs  map[string][]string
	known []string
}

func c17NewFails(known ...string) *c17Fails {
	return &c17Fails{count: map[string]int{}, msgs: map[string][]string{}, known: known}
}

func (f *c17Fails) add(cause, format string, args ...any) {
	if !strings.HasPrefix(cause, "rc_") && !strings.HasPrefix(cause, "info_") {
		cause = "rc_unclassified_" + cause
	}
	f.count[cause]++
	if len(f.msgs[cause]) < 6 {
		m := fmt.Sprintf(format, args...)
		if len(m) > 1500 {
			m = m[:1500] + "...(truncated)"
		}
		f.msgs[cause] = append(f.msgs[cause], m)
	}
}

func (f *c17Fails) report(t *testing.T) {
	names := map[string]bool{}
	for _, k := range f.known {
		names[k] = true
	}
	for k := range f.count {
		names[k] = true
	}
	var sorted []string
	for k := range names {
		sorted = append(sorted, k)
	}
	sort.Strings(sorted)
	for _, k := range sorted {
		if strings.HasPrefix(k, "info_") {
			first := "-"
			if len(f.msgs[k]) > 0 {
				first = f.msgs[k][0]
			}
			t.Logf("INFO c17 %s: %d cases, first: %s", strings.TrimPrefix(k, "info_"), f.count[k], first)
		}
	}
	for _, k := range sorted {
		k := k
		if !strings.HasPrefix(k, "rc_") {
			continue
		}
		t.Run(k, func(t *testing.T) {
			if f.count[k] == 0 {
				return
			}
			t.Errorf("%d failing case(s); first %d:", f.count[k], len(f.msgs[k]))
			for _, m := range f.msgs[k] {
				t.Errorf("  %s", m)
			}
		})
	}
}

type c17Stat struct {
	cases    int
	distinct map[string]struct{}
}

func (s *c17Stat) note(k string) {
	if s.distinct == nil {
		s.distinct = map[string]struct{}{}
	}
	s.cases++
	s.distinct[k] = struct{}{}
}

func (s *c17Stat) print(name string) {
	fmt.Printf("STANDIN-STAT name=%s cases=%d distinct=%d\n", name, s.cases, len(s.distinct))
}

func c17Safe(fn func()) (p string) {
	defer func() {
		if r := recover(); r != nil {
			p = fmt.Sprintf("panic: %v", r)
		}
	}()
	fn()
	return ""
}

// c17Crc16 is CRC16-XMODEM computed bit by bit: polynomial 0x1021, initial value 0, no reflection, no final xor.
func c17Crc16(data []byte) uint16 {
	var reg uint16
	for _, b := range data {
		for i := 7; i >= 0; i-- {
			in := (b >> uint(i)) & 1
			top := byte(reg >> 15)
			reg <<= 1
			if top^in == 1 {
				reg ^= 0x1021
			}
		}
	}
	return reg
}

const (
	c17UrlAlphabet = "ABCDEFGHIJKLMNOPQRSTUVWXYZabcdefghijklmnopqrstuvwxyz0123456789-_"
	c17StdAlphabet = "ABCDEFGHIJKLMNOPQRSTUVWXYZabcdefghijklmnopqrstuvwxyz0123456789+/"
)

var (
	c17UrlEnc = base64.NewEncoding(c17UrlAlphabet).WithPadding(base64.NoPadding)
	c17StdEnc = base64.NewEncoding(c17StdAlphabet).WithPadding(base64.NoPadding)
)

// c17HumanBytes builds the 36 bytes of the user-friendly form for an arbitrary tag byte.
func c17HumanBytes(tag byte, wc int8, hash [32]byte) []byte {
	buf := make([]byte, 0, 36)
	buf = append(buf, tag, byte(wc))
	buf = append(buf, hash[:]...)
	c := c17Crc16(buf)
	return append(buf, byte(c>>8), byte(c))
}

func c17Tag(bounce, testnet bool) byte {
	tag := byte(0x11)
	if !bounce {
		tag = 0x51
	}
	if testnet {
		tag |= 0x80
	}
	return tag
}

func c17Human(tag byte, wc int8, hash [32]byte, url bool) string {
	if url {
		return c17UrlEnc.EncodeToString(c17HumanBytes(tag, wc, hash))
	}
	return c17StdEnc.EncodeToString(c17HumanBytes(tag, wc, hash))
}

func c17Raw(wc int32, hash [32]byte) string {
	return strconv.FormatInt(int64(wc), 10) + ":" + hex.EncodeToString(hash[:])
}

func c17BytesBits(b []byte) string {
	var sb strings.Builder
	for _, x := range b {
		fmt.Fprintf(&sb, "%08b", x)
	}
	return sb.String()
}

func c17UintBits(v uint64, n int) string {
	s := strconv.FormatUint(v, 2)
	if len(s) > n {
		panic("c17 oracle: value does not fit")
	}
	return strings.Repeat("0", n-len(s)) + s
}

func c17BitsBytes(bits string) []byte {
	out := make([]byte, (len(bits)+7)/8)
	for i := 0; i < len(bits); i++ {
		if bits[i] == '1' {
			out[i/8] |= 0x80 >> uint(i%8)
		}
	}
	return out
}

func c17CellFromBits(bits string) *boc.Cell {
	c := boc.NewCell()
	for i := 0; i < len(bits); i++ {
		if err := c.WriteBit(bits[i] == '1'); err != nil {
			panic("c17 oracle: " + err.Error())
		}
	}
	return c
}

func c17CellBits(c *boc.Cell) string {
	cc := *c
	cc.ResetCounters()
	bs := cc.RawBitString()
	n := bs.BitsAvailableForRead()
	out := make([]byte, 0, n)
	for i := 0; i < n; i++ {
		b, err := bs.ReadBit()
		if err != nil {
			break
		}
		if b {
			out = append(out, '1')
		} else {
			out = append(out, '0')
		}
	}
	return string(out)
}

// c17Hashes returns n account hashes: the special ones first, then seeded random ones.
func c17Hashes(rng *rand.Rand, n int) [][32]byte {
	var out [][32]byte
	var zero, ones, one [32]byte
	for i := range ones {
		ones[i] = 0xff
	}
	one[31] = 1
	out = append(out, zero, ones, one)
	for _, lead := range []int{1, 2, 8, 16, 31} {
		var h [32]byte
		rng.Read(h[:])
		for i := 0; i < lead; i++ {
			h[i] = 0
		}
		if h[lead] == 0 {
			h[lead] = 0x0a // leading zero nibble after the zero bytes
		}
		out = append(out, h)
	}
	var hi [32]byte
	hi[0] = 0x80
	out = append(out, hi)
	for len(out) < n {
		var h [32]byte
		rng.Read(h[:])
		if len(out)%16 == 0 {
			h[0] = 0
		}
		if len(out)%64 == 1 {
			h[0] &= 0x0f
		}
		out = append(out, h)
	}
	return out
}

func TestVerifStandin_C17_Forms(t *testing.T) {
	rng := rand.New(rand.NewSource(c17Seed()))
	thorough := c17Thorough()
	fails := c17NewFails(
		"rc_tohuman_differs_from_spec", "rc_human_rejected", "rc_human_wrong_id",
		"rc_toraw_differs_from_spec", "rc_raw_roundtrip", "rc_raw_short_hex_wrong_id", "rc_raw_short_hex_rejected", "rc_raw_malformed_accepted",
		"rc_json_marshal", "rc_json_unmarshal", "rc_json_container",
		"rc_tl_marshal", "rc_tl_unmarshal", "rc_tl_truncated_accepted", "rc_tl_schema_stale",
		"rc_tomsgaddress_fields", "rc_tomsgaddress_bits", "rc_tomsgaddress_nil", "rc_tlb_msgaddress_decode", "rc_accountidfromtlb_std",
		"rc_tlb_anycast_wrong_id", "rc_tlb_not_std_wrong_id",
		"rc_single_char_mutation_accepted", "rc_wrong_length_accepted", "rc_padding_accepted",
		"rc_crc16_utils", "rc_crc16_utils_string", "rc_crc16_snksoft",
		"rc_panic_crc16", "rc_panic_parse_human", "rc_panic_tohuman", "rc_panic_raw", "rc_panic_json", "rc_panic_tl", "rc_panic_tlb",
		// leniencies the property does not forbid: logged, never failed
		"info_unknown_tag_accepted", "info_whitespace_accepted", "info_mixed_alphabet_accepted")
	var st c17Stat
	defer st.print("c17_forms") // printed even when sub-tests fail

	nHashes, nFullWc, nMut, nTag, nAny := 2000, 40, 50, 20, 8
	if thorough {
		nHashes, nFullWc, nMut, nTag, nAny = 20000, 400, 500, 100, 40
	}
	hashes := c17Hashes(rng, nHashes)

	// ---- CRC16: library table implementation == github.com/snksoft/crc XMODEM == bitwise reference ----
	{
		if got := c17Crc16([]byte("123456789")); got != 0x31C3 {
			t.Fatalf("oracle self-check: bitwise CRC16-XMODEM of \"123456789\" = %#x, want 0x31c3", got)
		}
		check := func(data []byte) {
			st.note("crc|" + string(data))
			want := c17Crc16(data)
			var got, gotS uint16
			var got2 uint64
			if p := c17Safe(func() {
				got = utils.Crc16(data)
				gotS = utils.Crc16String(string(data))
				got2 = crc.CalculateCRC(crc.XMODEM, data)
			}); p != "" {
				fails.add("rc_panic_crc16", "Crc16(%x): %s", data, p)
				return
			}
			if got != want {
				fails.add("rc_crc16_utils", "data %x: utils.Crc16=%#04x, bitwise reference=%#04x", data, got, want)
			}
			if gotS != want {
				fails.add("rc_crc16_utils_string", "data %x: utils.Crc16String=%#04x, bitwise reference=%#04x", data, gotS, want)
			}
			if got2 != uint64(want) {
				fails.add("rc_crc16_snksoft", "data %x: snksoft XMODEM (used by AccountIDFromBase64Url)=%#04x, bitwise reference=%#04x", data, got2, want)
			}
		}
		check([]byte("123456789"))
		perLen, nLong := 20, 5
		if thorough {
			perLen, nLong = 200, 50
		}
		for n := 0; n <= 64; n++ {
			for k := 0; k < perLen; k++ {
				d := make([]byte, n)
				rng.Read(d)
				switch k {
				case 0:
					for i := range d {
						d[i] = 0
					}
				case 1:
					for i := range d {
						d[i] = 0xff
					}
				}
				check(d)
			}
		}
		for k := 0; k < nLong; k++ {
			d := make([]byte, 1000)
			rng.Read(d)
			check(d)
		}
	}

	// ---- user-friendly form ----
	parsers := []struct {
		name string
		fn   func(string) (AccountID, error)
	}{{"AccountIDFromBase64Url", AccountIDFromBase64Url}, {"ParseAccountID", ParseAccountID}}
	// expectReject feeds s to both parsers; any acceptance is reported under cause.
	expectReject := func(cause, what, s string) {
		st.note(what + "|" + s)
		for _, p := range parsers {
			var id AccountID
			var err error
			if pm := c17Safe(func() { id, err = p.fn(s) }); pm != "" {
				fails.add("rc_panic_parse_human", "%s(%q) [%s]: %s", p.name, s, what, pm)
				continue
			}
			if err == nil {
				fails.add(cause, "%s accepts %q (hex %x) [%s] as %s", p.name, s, s, what, c17Raw(id.Workchain, id.Address))
			}
		}
	}
	for hi, h := range hashes {
		var wcs []int8
		if hi < nFullWc {
			for w := -128; w <= 127; w++ {
				wcs = append(wcs, int8(w))
			}
		} else {
			wcs = []int8{0, -1, 1, 127, -128, int8(rng.Intn(256)), int8(rng.Intn(256))}
		}
		for _, wc := range wcs {
			id := AccountID{Workchain: int32(wc), Address: h}
			for _, bounce := range []bool{true, false} {
				for _, testnet := range []bool{false, true} {
					tag := c17Tag(bounce, testnet)
					want := c17Human(tag, wc, h, true)
					st.note("human|" + want)
					var got string
					if p := c17Safe(func() { got = id.ToHuman(bounce, testnet) }); p != "" {
						fails.add("rc_panic_tohuman", "AccountID{%d,%x}.ToHuman(%v,%v): %s", wc, h, bounce, testnet, p)
						continue
					}
					if got != want {
						fails.add("rc_tohuman_differs_from_spec", "AccountID{%d,%x}.ToHuman(bounce=%v,testnet=%v) = %q, specification gives %q", wc, h, bounce, testnet, got, want)
					}
					for _, s := range []string{want, c17Human(tag, wc, h, false)} {
						for _, p := range parsers {
							var back AccountID
							var err error
							if pm := c17Safe(func() { back, err = p.fn(s) }); pm != "" {
								fails.add("rc_panic_parse_human", "%s(%q): %s", p.name, s, pm)
								continue
							}
							if err != nil {
								fails.add("rc_human_rejected", "%s(%q) (tag %#x wc %d hash %x): %v", p.name, s, tag, wc, h, err)
							} else if back != id {
								fails.add("rc_human_wrong_id", "%s(%q) = %s, want %s", p.name, s, c17Raw(back.Workchain, back.Address), c17Raw(id.Workchain, id.Address))
							}
						}
					}
				}
			}
		}
	}

	// ---- raw / JSON / TL / TL-B forms, int32 workchains ----
	tlSchemaOK := true // liteServer.accountId workchain:int id:int256 (checked against the schema file when readable)
	if schema, err := os.ReadFile("../liteclient/lite_api.tl"); err == nil {
		tlSchemaOK = regexp.MustCompile(`(?m)^liteServer\.accountId(#[0-9a-f]+)?\s+workchain:int\s+id:int256\s*=\s*liteServer\.AccountId;`).Match(schema)
		if !tlSchemaOK {
			fails.add("rc_tl_schema_stale", "liteclient/lite_api.tl does not define liteServer.accountId as workchain:int id:int256: the expected byte layout of this test is stale")
		}
	}
	type c17Holder struct {
		A AccountID
		P *AccountID
		M map[string]AccountID
		L []AccountID
	}
	for _, h := range hashes {
		for _, wc := range []int32{0, -1, 1, 127, 128, -128, -129, 255, 1<<31 - 1, -1 << 31, int32(rng.Uint32()), int32(int8(rng.Intn(256))), int32(int8(rng.Intn(256)))} {
			id := AccountID{Workchain: wc, Address: h}
			raw := c17Raw(wc, h)
			st.note("raw|" + raw)
			// the user-friendly and TL-B forms only exist for int8 workchains: ToHuman / ToMsgAddress are not called
			// outside that range
			inInt8 := wc >= -128 && wc <= 127

			// raw text
			var gotRaw, gotStr string
			if p := c17Safe(func() { gotRaw, gotStr = id.ToRaw(), id.String() }); p != "" {
				fails.add("rc_panic_raw", "AccountID{%d,%x}.ToRaw/String: %s", wc, h, p)
			} else if gotRaw != raw || gotStr != raw {
				fails.add("rc_toraw_differs_from_spec", "AccountID{%d,%x}: ToRaw=%q String=%q, specification gives %q", wc, h, gotRaw, gotStr, raw)
			}
			for _, p := range []struct {
				name string
				fn   func(string) (AccountID, error)
			}{{"AccountIDFromRaw", AccountIDFromRaw}, {"ParseAccountID", ParseAccountID}} {
				var back AccountID
				var err error
				if pm := c17Safe(func() { back, err = p.fn(raw) }); pm != "" {
					fails.add("rc_panic_raw", "%s(%q): %s", p.name, raw, pm)
				} else if err != nil || back != id {
					fails.add("rc_raw_roundtrip", "%s(%q) = %s, %v", p.name, raw, c17Raw(back.Workchain, back.Address), err)
				}
			}

			// JSON
			if p := c17Safe(func() {
				b, err := id.MarshalJSON()
				if err != nil || string(b) != `"`+raw+`"` {
					fails.add("rc_json_marshal", "AccountID{%d,%x}.MarshalJSON = %q, %v; want %q", wc, h, b, err, `"`+raw+`"`)
					return
				}
				var back AccountID
				if err := back.UnmarshalJSON(b); err != nil || back != id {
					fails.add("rc_json_unmarshal", "UnmarshalJSON(%s) = %s, %v", b, c17Raw(back.Workchain, back.Address), err)
				}
				hold := c17Holder{A: id, P: &id, M: map[string]AccountID{"k": id}, L: []AccountID{id, id}}
				doc, err := json.Marshal(hold)
				wantDoc := fmt.Sprintf(`{"A":%q,"P":%q,"M":{"k":%q},"L":[%q,%q]}`, raw, raw, raw, raw, raw)
				if err != nil || string(doc) != wantDoc {
					fails.add("rc_json_container", "json.Marshal(struct/map/slice of %s) = %s, %v; want %s", raw, doc, err, wantDoc)
					return
				}
				var hb c17Holder
				if err := json.Unmarshal(doc, &hb); err != nil || hb.A != id || hb.P == nil || *hb.P != id || hb.M["k"] != id || len(hb.L) != 2 || hb.L[0] != id || hb.L[1] != id {
					fails.add("rc_json_container", "json.Unmarshal(%s) = %+v, %v", doc, hb, err)
				}
			}); p != "" {
				fails.add("rc_panic_json", "JSON of AccountID{%d,%x}: %s", wc, h, p)
			}

			// TL: int32 little-endian + int256 raw
			if tlSchemaOK {
				wantTL := make([]byte, 0, 36)
				wantTL = append(wantTL, byte(uint32(wc)), byte(uint32(wc)>>8), byte(uint32(wc)>>16), byte(uint32(wc)>>24))
				wantTL = append(wantTL, h[:]...)
				if p := c17Safe(func() {
					b, err := id.MarshalTL()
					if err != nil || !bytes.Equal(b, wantTL) {
						fails.add("rc_tl_marshal", "AccountID{%d,%x}.MarshalTL = %x, %v; want %x", wc, h, b, err, wantTL)
					}
					r := bytes.NewReader(append(append([]byte{}, wantTL...), 0xde, 0xad, 0xbe))
					var back AccountID
					if err := back.UnmarshalTL(r); err != nil || back != id || r.Len() != 3 {
						fails.add("rc_tl_unmarshal", "UnmarshalTL(%x ++ deadbe) = %s, %v, %d bytes left (want 3)", wantTL, c17Raw(back.Workchain, back.Address), err, r.Len())
					}
				}); p != "" {
					fails.add("rc_panic_tl", "TL of AccountID{%d,%x}: %s", wc, h, p)
				}
			}

			// TL-B: addr_std$10 nothing$0 workchain_id:int8 address:bits256
			if !inInt8 {
				continue
			}
			if p := c17Safe(func() {
				idc := id
				ma := idc.ToMsgAddress()
				wantBits := "10" + "0" + c17UintBits(uint64(uint8(int8(wc))), 8) + c17BytesBits(h[:])
				if ma.SumType != "AddrStd" || ma.AddrStd.Anycast.Exists || int32(ma.AddrStd.WorkchainId) != wc || [32]byte(ma.AddrStd.Address) != h {
					fails.add("rc_tomsgaddress_fields", "AccountID %s: ToMsgAddress() = %s anycast=%v wc=%d addr=%x", raw, ma.SumType, ma.AddrStd.Anycast.Exists, ma.AddrStd.WorkchainId, ma.AddrStd.Address)
				}
				c := boc.NewCell()
				if err := tlb.Marshal(c, ma); err != nil {
					fails.add("rc_tomsgaddress_bits", "AccountID %s: tlb.Marshal(ToMsgAddress()): %v", raw, err)
				} else if got := c17CellBits(c); got != wantBits {
					fails.add("rc_tomsgaddress_bits", "AccountID %s: ToMsgAddress() serialises to %x (%d bits), addr_std gives %x (%d bits)", raw, c17BitsBytes(got), len(got), c17BitsBytes(wantBits), len(wantBits))
				}
				var dec tlb.MsgAddress
				if err := tlb.Unmarshal(c17CellFromBits(wantBits), &dec); err != nil {
					fails.add("rc_tlb_msgaddress_decode", "tlb.Unmarshal(MsgAddress) of addr_std bits %x: %v", c17BitsBytes(wantBits), err)
					return
				}
				for _, src := range []tlb.MsgAddress{ma, dec} {
					back, err := AccountIDFromTlb(src)
					if err != nil || back == nil || *back != id {
						fails.add("rc_accountidfromtlb_std", "AccountIDFromTlb(addr_std of %s) = %v, %v", raw, back, err)
					}
				}
			}); p != "" {
				fails.add("rc_panic_tlb", "TL-B of AccountID{%d,%x}: %s", wc, h, p)
			}
		}
	}
	// nil receiver: addr_none, and addr_none / addr_extern give no account
	if p := c17Safe(func() {
		st.note("tlb|nil")
		ma := (*AccountID)(nil).ToMsgAddress()
		c := boc.NewCell()
		if err := tlb.Marshal(c, ma); err != nil || c17CellBits(c) != "00" {
			fails.add("rc_tomsgaddress_nil", "(*AccountID)(nil).ToMsgAddress() serialises to %q, %v; want addr_none$00", c17CellBits(c), err)
		}
		for _, bits := range []string{"00", "01" + c17UintBits(0, 9), "01" + c17UintBits(256, 9) + c17BytesBits(hashes[1][:]), "01" + c17UintBits(5, 9) + "10101"} {
			st.note("tlb|" + bits)
			var dec tlb.MsgAddress
			if err := tlb.Unmarshal(c17CellFromBits(bits), &dec); err != nil {
				fails.add("rc_tlb_msgaddress_decode", "tlb.Unmarshal(MsgAddress) of bits %q: %v", bits, err)
				continue
			}
			if back, err := AccountIDFromTlb(dec); back != nil {
				fails.add("rc_tlb_not_std_wrong_id", "AccountIDFromTlb(%s from bits %q) = %s, %v: there is no account in it", dec.SumType, bits, c17Raw(back.Workchain, back.Address), err)
			}
		}
	}); p != "" {
		fails.add("rc_panic_tlb", "addr_none / addr_extern: %s", p)
	}
	// truncated TL input: an error, never a panic, never success
	for n := 0; n < 36; n++ {
		st.note(fmt.Sprintf("tl|trunc|%d", n))
		data := make([]byte, n)
		rng.Read(data)
		var err error
		if p := c17Safe(func() { var x AccountID; err = x.UnmarshalTL(bytes.NewReader(data)) }); p != "" {
			fails.add("rc_panic_tl", "UnmarshalTL(%x): %s", data, p)
		} else if err == nil {
			fails.add("rc_tl_truncated_accepted", "UnmarshalTL of %d bytes (%x) succeeds, 36 are needed", n, data)
		}
	}

	// ---- TL-B: anycast (depth 1..30) and addr_var ----
	for depth := 1; depth <= 30; depth++ {
		for k := 0; k < nAny; k++ {
			h := hashes[rng.Intn(len(hashes))]
			if k < 3 {
				h = hashes[k] // zero, all-ff, ..01
			}
			pfx := uint64(rng.Uint32()) & (1<<uint(depth) - 1)
			switch k {
			case 0:
				pfx = 1<<uint(depth) - 1
			case 1:
				pfx = 0
			}
			wc := int8(rng.Intn(256))
			pfxBits := c17UintBits(pfx, depth)
			hashBits := c17BytesBits(h[:])
			var rewritten [32]byte
			copy(rewritten[:], c17BitsBytes(pfxBits+hashBits[depth:]))
			want := AccountID{Workchain: int32(wc), Address: rewritten}
			anyBits := "1" + c17UintBits(uint64(depth), 5) + pfxBits
			stdBits := "10" + anyBits + c17UintBits(uint64(uint8(wc)), 8) + hashBits
			st.note("tlb|" + stdBits)
			checkStd := func(what string, ma tlb.MsgAddress) {
				back, err := AccountIDFromTlb(ma)
				if err == nil && back != nil && *back != want {
					fails.add("rc_tlb_anycast_wrong_id", "AccountIDFromTlb(%s addr_std anycast depth=%d rewrite_pfx=%s wc=%d address=%x) = %s; the reference rewrite gives %s (an error or nil would be fine too)",
						what, depth, pfxBits, wc, h, c17Raw(back.Workchain, back.Address), c17Raw(want.Workchain, want.Address))
				}
			}
			if p := c17Safe(func() {
				var dec tlb.MsgAddress
				if err := tlb.Unmarshal(c17CellFromBits(stdBits), &dec); err != nil {
					fails.add("rc_tlb_msgaddress_decode", "tlb.Unmarshal(MsgAddress) of addr_std with anycast depth %d (bits %x): %v", depth, c17BitsBytes(stdBits), err)
				} else {
					checkStd("decoded", dec)
				}
				var built tlb.MsgAddress
				built.SumType = "AddrStd"
				built.AddrStd.Anycast.Exists = true
				built.AddrStd.Anycast.Value = tlb.Anycast{Depth: uint32(depth), RewritePfx: uint32(pfx)}
				built.AddrStd.WorkchainId = wc
				built.AddrStd.Address = h
				checkStd("built", built)
			}); p != "" {
				fails.add("rc_panic_tlb", "addr_std with anycast, bits %x: %s", c17BitsBytes(stdBits), p)
			}
			// addr_var$11 anycast:(Maybe Anycast) addr_len:(## 9) workchain_id:int32 address:(bits addr_len)
			for _, withAny := range []bool{false, true} {
				for _, addrLen := range []int{0, 1, 8, 255, 256, 257, 511} {
					if k >= 2 && addrLen != 256 {
						continue
					}
					wc32 := int32(rng.Uint32())
					if k%2 == 0 {
						wc32 = int32(wc)
					}
					addrBits := (hashBits + hashBits)[:addrLen]
					bits := "11"
					if withAny {
						bits += anyBits
					} else {
						bits += "0"
					}
					bits += c17UintBits(uint64(addrLen), 9) + c17UintBits(uint64(uint32(wc32)), 32) + addrBits
					st.note("tlb|" + bits)
					if p := c17Safe(func() {
						var dec tlb.MsgAddress
						if err := tlb.Unmarshal(c17CellFromBits(bits), &dec); err != nil {
							fails.add("rc_tlb_msgaddress_decode", "tlb.Unmarshal(MsgAddress) of addr_var addr_len=%d anycast=%v (bits %x): %v", addrLen, withAny, c17BitsBytes(bits), err)
							return
						}
						back, err := AccountIDFromTlb(dec)
						if err != nil || back == nil {
							return
						}
						ok := addrLen == 256 && back.Workchain == wc32
						if ok {
							wantAddr := h
							if withAny {
								wantAddr = rewritten
							}
							ok = back.Address == wantAddr
						}
						if !ok {
							fails.add("rc_tlb_not_std_wrong_id", "AccountIDFromTlb(addr_var addr_len=%d anycast=%v wc=%d address bits %x) = %s", addrLen, withAny, wc32, c17BitsBytes(addrBits), c17Raw(back.Workchain, back.Address))
						}
					}); p != "" {
						fails.add("rc_panic_tlb", "addr_var bits %x: %s", c17BitsBytes(bits), p)
					}
				}
			}
		}
	}
	if p := c17Safe(func() {
		st.note("tlb|addrvar-nil")
		if back, err := AccountIDFromTlb(tlb.MsgAddress{SumType: "AddrVar"}); back != nil {
			fails.add("rc_tlb_not_std_wrong_id", "AccountIDFromTlb(AddrVar with nil payload) = %v, %v", back, err)
		}
		if back, err := AccountIDFromTlb(tlb.MsgAddress{}); back != nil {
			fails.add("rc_tlb_not_std_wrong_id", "AccountIDFromTlb(MsgAddress{} without SumType) = %v, %v", back, err)
		}
	}); p != "" {
		fails.add("rc_panic_tlb", "AccountIDFromTlb(AddrVar nil / empty): %s", p)
	}

	// ---- raw parsing: short hex (zero filling), boundary lengths, workchain spellings ----
	{
		hexLens := []int{}
		for n := 0; n <= 66; n++ {
			hexLens = append(hexLens, n)
		}
		type wcForm struct {
			text  string
			valid bool  // matches [+-]?[0-9]+ and fits int32: may be accepted, then only as value
			canon bool  // canonical decimal: must be accepted (with 1..64 hex digits)
			value int32 // when valid
		}
		wcForms := []wcForm{
			{"0", true, true, 0}, {"-1", true, true, -1}, {"1", true, true, 1}, {"127", true, true, 127}, {"-128", true, true, -128},
			{"2147483647", true, true, 1<<31 - 1}, {"-2147483648", true, true, -1 << 31},
			{"+0", true, false, 0}, {"+1", true, false, 1}, {"-0", true, false, 0}, {"00", true, false, 0}, {"007", true, false, 7}, {"-01", true, false, -1},
			{"2147483648", false, false, 0}, {"-2147483649", false, false, 0}, {"4294967295", false, false, 0}, {"99999999999999999999", false, false, 0},
			{"", false, false, 0}, {" 0", false, false, 0}, {"0 ", false, false, 0}, {"- 1", false, false, 0}, {"0x1", false, false, 0}, {"1e1", false, false, 0},
			{"1_0", false, false, 0}, {"１", false, false, 0}, {"١", false, false, 0}, {"a", false, false, 0}, {"-", false, false, 0}, {"+", false, false, 0}, {"1.0", false, false, 0},
		}
		const hexDigits = "0123456789abcdef"
		feed := func(what, s string, valid, mustAccept bool, want AccountID) {
			st.note("rawparse|" + s)
			for _, p := range []struct {
				name string
				fn   func(string) (AccountID, error)
			}{{"AccountIDFromRaw", AccountIDFromRaw}, {"ParseAccountID", ParseAccountID}} {
				var back AccountID
				var err error
				if pm := c17Safe(func() { back, err = p.fn(s) }); pm != "" {
					fails.add("rc_panic_raw", "%s(%q) (hex %x) [%s]: %s", p.name, s, s, what, pm)
					continue
				}
				switch {
				case err == nil && !valid:
					fails.add("rc_raw_malformed_accepted", "%s accepts %q (hex %x) [%s] as %s", p.name, s, s, what, c17Raw(back.Workchain, back.Address))
				case err == nil && back != want:
					fails.add("rc_raw_short_hex_wrong_id", "%s(%q) [%s] = %s, the text denotes %s", p.name, s, what, c17Raw(back.Workchain, back.Address), c17Raw(want.Workchain, want.Address))
				case err != nil && mustAccept:
					fails.add("rc_raw_short_hex_rejected", "%s(%q) [%s]: %v; want %s", p.name, s, what, err, c17Raw(want.Workchain, want.Address))
				}
			}
		}
		for _, n := range hexLens {
			for variant := 0; variant < 4; variant++ {
				digits := make([]byte, n)
				for i := range digits {
					digits[i] = hexDigits[rng.Intn(16)]
				}
				if n > 0 {
					switch variant {
					case 0:
						digits[0] = hexDigits[1+rng.Intn(15)] // no leading zero
					case 1:
						digits[0] = '0'
					case 2:
						digits = []byte(strings.ToUpper(string(digits)))
					case 3: // mixed case
						for i := range digits {
							if rng.Intn(2) == 0 {
								digits[i] = strings.ToUpper(string(digits[i]))[0]
							}
						}
					}
				}
				var want AccountID
				if n <= 64 {
					v, _ := new(big.Int).SetString("0"+string(digits), 16)
					v.FillBytes(want.Address[:])
				}
				for fi, f := range wcForms {
					if variant > 0 && fi > 8 && n%8 != 0 {
						continue // the workchain spellings are independent of the hex part: thin out
					}
					want.Workchain = f.value
					valid := f.valid && n <= 64
					// must accept: canonical workchain with 1..64 digits (short hex is documented by the library's zfill tests)
					mustAccept := f.canon && n >= 1 && n <= 64
					feed(fmt.Sprintf("%d hex digits", n), f.text+":"+string(digits), valid, mustAccept, want)
				}
			}
		}
		// malformed around a valid raw address
		base := c17Raw(0, hashes[8])
		short := "0:" + strings.TrimLeft(hex.EncodeToString(hashes[3][:]), "0")
		for _, s := range []string{
			"", ":", "::", "0", base[2:], base + ":", base + " ", " " + base, base + "\n", "\n" + base, "\t" + base, base + "\x00",
			base[:10] + " " + base[11:], base[:10] + "g" + base[11:], base[:10] + "-" + base[11:], base[:10] + "+" + base[11:],
			"0:+" + base[3:], "0:-" + base[3:], "0:0x" + base[4:], "0: " + base[3:], "0:" + base[2:] + "0", "0:" + base[2:] + "00",
			"0;" + base[2:], "0:" + strings.Repeat("0", 64) + base[2:], short + " ", short + "\n", " " + short, "0:-1", "0:+1", "0: 1", "0:1 ", "0:0x1",
			"0:1:2", ":1", "0::1", "0:١", "0:１",
		} {
			feed("malformed", s, false, false, AccountID{})
		}
	}

	// ---- user-friendly form: every single-character substitution is rejected ----
	for k := 0; k < nMut; k++ {
		h := hashes[(k*37)%len(hashes)]
		wc := []int8{0, -1, 1, -128, 127}[k%5]
		tag := []byte{0x11, 0x51, 0x91, 0xd1}[k%4]
		orig := c17Human(tag, wc, h, true)
		if len(orig) != 48 {
			t.Fatalf("oracle: user-friendly form of length %d", len(orig))
		}
		m := []byte(orig)
		for pos := 0; pos < 48; pos++ {
			for d := 0; d < 64; d++ {
				if c17UrlAlphabet[d] == orig[pos] {
					continue
				}
				m[pos] = c17UrlAlphabet[d]
				expectReject("rc_single_char_mutation_accepted", fmt.Sprintf("%q with position %d changed from %q to %q", orig, pos, orig[pos], m[pos]), string(m))
			}
			m[pos] = orig[pos]
		}
	}

	// ---- user-friendly form: wrong length and padding are rejected; white space skipped by the base64 decoder, mixed
	// alphabets and unknown tag bytes are leniencies the property does not forbid: informational only ----
	mixed := 0
	for k, h := range hashes {
		if k >= 200 && mixed >= 20 {
			break
		}
		wc := int8(k)
		tag := []byte{0x11, 0x51, 0x91, 0xd1}[k%4]
		url := c17Human(tag, wc, h, true)
		std := c17Human(tag, wc, h, false)
		if k < 40 {
			for _, alpha := range []string{url, std} {
				expectReject("rc_wrong_length_accepted", "47 digits (last dropped)", alpha[:47])
				expectReject("rc_wrong_length_accepted", "47 digits (first dropped)", alpha[1:])
				expectReject("rc_wrong_length_accepted", "49 digits", alpha+"A")
				expectReject("rc_wrong_length_accepted", "49 digits", "A"+alpha)
				expectReject("rc_wrong_length_accepted", "46 digits", alpha[:46])
				expectReject("rc_wrong_length_accepted", "44 digits", alpha[:44])
				expectReject("rc_wrong_length_accepted", "52 digits", alpha+"AAAA")
				expectReject("rc_wrong_length_accepted", "96 digits (twice)", alpha+alpha)
				expectReject("rc_padding_accepted", "48 digits + '='", alpha+"=")
				expectReject("rc_padding_accepted", "48 digits + '=='", alpha+"==")
				expectReject("rc_padding_accepted", "48 digits + '===='", alpha+"====")
				expectReject("rc_padding_accepted", "47 digits + '='", alpha[:47]+"=")
				expectReject("rc_padding_accepted", "46 digits + '=='", alpha[:46]+"==")
				expectReject("rc_padding_accepted", "'=' inside", alpha[:24]+"="+alpha[25:])
				expectReject("info_whitespace_accepted", "trailing \\n", alpha+"\n")
				expectReject("info_whitespace_accepted", "leading \\n", "\n"+alpha)
				expectReject("info_whitespace_accepted", "\\r\\n inside", alpha[:24]+"\r\n"+alpha[24:])
				expectReject("info_whitespace_accepted", "\\n replacing a digit", alpha[:24]+"\n"+alpha[25:])
				expectReject("info_whitespace_accepted", "trailing space", alpha+" ")
				expectReject("info_whitespace_accepted", "leading space", " "+alpha)
				expectReject("info_whitespace_accepted", "trailing tab", alpha+"\t")
				expectReject("info_whitespace_accepted", "trailing NUL", alpha+"\x00")
			}
		}
		// mixed alphabets: one special digit spelled in the url alphabet and another one in the std alphabet
		var special []int
		for i := 0; i < 48; i++ {
			if url[i] == '-' || url[i] == '_' {
				special = append(special, i)
			}
		}
		if len(special) >= 2 && mixed < 20 {
			mixed++
			m := []byte(url)
			m[special[0]] = std[special[0]]
			expectReject("info_mixed_alphabet_accepted", fmt.Sprintf("url form %q with digit %d spelled %q", url, special[0], std[special[0]]), string(m))
			m = []byte(std)
			m[special[1]] = url[special[1]]
			expectReject("info_mixed_alphabet_accepted", fmt.Sprintf("std form %q with digit %d spelled %q", std, special[1], url[special[1]]), string(m))
		}
	}
	for k := 0; k < nTag; k++ {
		h := hashes[(k*53+9)%len(hashes)]
		wc := []int8{0, -1}[k%2]
		for tg := 0; tg < 256; tg++ {
			tag := byte(tg)
			if tag == 0x11 || tag == 0x51 || tag == 0x91 || tag == 0xd1 {
				continue
			}
			expectReject("info_unknown_tag_accepted", fmt.Sprintf("tag byte %#02x, valid CRC, wc %d hash %x", tag, wc, h), c17Human(tag, wc, h, k%4 < 2))
		}
	}

	fails.report(t)
}

// ---- shards ----

// c17ShardOf builds the shard id of a prefix given as a bit string: prefix, one 1 bit, zeros.
func c17ShardOf(prefix string) uint64 {
	s := prefix + "1" + strings.Repeat("0", 63-len(prefix))
	v, err := strconv.ParseUint(s, 2, 64)
	if err != nil {
		panic("c17 oracle: " + err.Error())
	}
	return v
}

func c17LowBit(s uint64) uint64 { return s & (^s + 1) }

// reference node formulas (ton/ton-types.h)
func c17RefChild(s uint64, left bool) uint64 {
	x := c17LowBit(s) >> 1
	if left {
		return s - x
	}
	return s + x
}

func c17RefParent(s uint64) uint64 {
	x := c17LowBit(s)
	return (s - x) | (x << 1)
}

func c17RandBits(rng *rand.Rand, n int) string {
	b := make([]byte, n)
	for i := range b {
		b[i] = '0' + byte(rng.Intn(2))
	}
	return string(b)
}

// c17AccountWithBits returns an account whose address starts with the given bits; the rest is random.
func c17AccountWithBits(rng *rand.Rand, wc int32, bits string) AccountID {
	rest := c17RandBits(rng, 256-len(bits))
	var a AccountID
	a.Workchain = wc
	copy(a.Address[:], c17BitsBytes(bits+rest))
	return a
}

func c17Flip(bits string, i int) string {
	b := []byte(bits)
	b[i] ^= 1 // '0' <-> '1'
	return string(b)
}

func TestVerifStandin_C17_Shards(t *testing.T) {
	rng := rand.New(rand.NewSource(c17Seed()))
	thorough := c17Thorough()
	fails := c17NewFails(
		"rc_shard_parse_rejected", "rc_shard_encode", "rc_shard_mustparse", "rc_shard_zero_id_accepted", "rc_match_block_zero_shard",
		"rc_match_account", "rc_match_block", "rc_match_block_symmetry", "rc_match_block_parent_child",
		"rc_child_formula", "rc_parent_formula", "rc_child_bits", "rc_parent_bits", "rc_parent_of_child", "rc_child_of_parent",
		"rc_children_partition", "rc_children_parse_rejected", "rc_convert_shard_ident",
		"rc_panic_shard_parse", "rc_panic_shard_encode", "rc_panic_shard_zero_value", "rc_panic_match_account", "rc_panic_match_block",
		"rc_panic_child_parent", "rc_panic_convert_shard_ident",
		// outside the domain of the property (prefix lengths above 60; GetParents): logged, never failed
		"info_deep_prefix", "info_getparents_mismatch", "info_getparents_split_of_full_shard", "info_getparents_panic")
	var st c17Stat
	defer st.print("c17_shards") // printed even when sub-tests fail
	nPrefix, nAcc := 12, 6
	if thorough {
		nPrefix, nAcc = 100, 20
	}
	prefixesOf := func(l int) []string {
		out := []string{strings.Repeat("0", l), strings.Repeat("1", l)}
		if l == 0 {
			return out[:1]
		}
		for len(out) < nPrefix {
			out = append(out, c17RandBits(rng, l))
		}
		return out
	}
	matchOracle := func(prefix string, a AccountID) bool {
		return strings.HasPrefix(c17BytesBits(a.Address[:]), prefix)
	}

	// id 0 has no marker bit: not a shard id
	if p := c17Safe(func() {
		st.note("shard|0")
		if s, err := ParseShardID(0); err == nil {
			fails.add("rc_shard_zero_id_accepted", "ParseShardID(0) accepted: %+v", s)
		}
	}); p != "" {
		fails.add("rc_panic_shard_parse", "ParseShardID(0): %s", p)
	}
	if p := c17Safe(func() {
		st.note("matchblock|0")
		if ShardID.MatchBlockID(MustParseShardID(-1<<63), BlockID{Shard: 0}) {
			fails.add("rc_match_block_zero_shard", "the full shard matches a block with the invalid shard id 0")
		}
	}); p != "" {
		fails.add("rc_panic_match_block", "ShardID(full).MatchBlockID(shard 0): %s", p)
	}
	if p := c17Safe(func() {
		st.note("shard|zero-value")
		var zero ShardID
		_ = zero.Encode()
		_ = zero.MatchAccountID(AccountID{})
		_ = zero.MatchBlockID(BlockID{Shard: 1 << 63})
	}); p != "" {
		fails.add("rc_panic_shard_zero_value", "zero ShardID value (Encode / MatchAccountID / MatchBlockID): %s", p)
	}

	for l := 0; l <= 63; l++ {
		// The property ranges over prefix lengths 0..60 (shard_pfx_bits:(#<= 60)). Longer prefixes, and the children of
		// depth-60 shards, are exercised too but only reported as information.
		upTo := func(max int, c string) string {
			if l > max {
				return "info_deep_prefix"
			}
			return c
		}
		cause := func(c string) string { return upTo(60, c) }      // about the shard itself or its parent
		childCause := func(c string) string { return upTo(59, c) } // about its children
		for _, prefix := range prefixesOf(l) {
			id := c17ShardOf(prefix)
			st.note(fmt.Sprintf("shard|%016x", id))
			var sh ShardID
			var err error
			if p := c17Safe(func() { sh, err = ParseShardID(int64(id)) }); p != "" {
				fails.add(cause("rc_panic_shard_parse"), "ParseShardID(%#016x) (prefix length %d): %s", id, l, p)
				continue
			}
			if err != nil {
				if l <= 60 {
					fails.add("rc_shard_parse_rejected", "ParseShardID(%#016x) (prefix length %d): %v", id, l, err)
				}
				continue
			}
			if p := c17Safe(func() {
				if enc := uint64(sh.Encode()); enc != id {
					fails.add(cause("rc_shard_encode"), "ParseShardID(%#016x).Encode() = %#016x (prefix length %d)", id, enc, l)
				}
				if m := MustParseShardID(int64(id)); m != sh {
					fails.add(cause("rc_shard_mustparse"), "MustParseShardID(%#016x) differs from ParseShardID (prefix length %d)", id, l)
				}
			}); p != "" {
				fails.add(cause("rc_panic_shard_encode"), "ShardID(%#016x).Encode / MustParseShardID (prefix length %d): %s", id, l, p)
			}
			// accounts
			var accounts []AccountID
			var whats []string
			add := func(what string, a AccountID) { accounts = append(accounts, a); whats = append(whats, what) }
			for k := 0; k < nAcc; k++ {
				wc := []int32{0, -1, 5}[k%3]
				add("random", c17AccountWithBits(rng, wc, ""))
				add("agrees on the whole prefix", c17AccountWithBits(rng, wc, prefix))
				if l >= 1 {
					add("differs in the last prefix bit only", c17AccountWithBits(rng, wc, c17Flip(prefix, l-1)))
					add("differs in the first prefix bit only", c17AccountWithBits(rng, wc, c17Flip(prefix, 0)))
					add("differs in one prefix bit", c17AccountWithBits(rng, wc, c17Flip(prefix, rng.Intn(l))))
				}
				// the marker bit and everything behind it is not part of the prefix
				add("prefix then 0 then ones", c17AccountWithBits(rng, wc, prefix+"0"+strings.Repeat("1", 255-l)))
				add("prefix then 1 then zeros", c17AccountWithBits(rng, wc, prefix+"1"+strings.Repeat("0", 255-l)))
				add("prefix then zeros", c17AccountWithBits(rng, wc, prefix+strings.Repeat("0", 256-l)))
				add("prefix then ones", c17AccountWithBits(rng, wc, prefix+strings.Repeat("1", 256-l)))
			}
			for i, a := range accounts {
				want := matchOracle(prefix, a)
				var got bool
				if p := c17Safe(func() { got = sh.MatchAccountID(a) }); p != "" {
					fails.add(cause("rc_panic_match_account"), "ShardID(%#016x).MatchAccountID(%s): %s", id, c17Raw(a.Workchain, a.Address), p)
					continue
				}
				st.note(fmt.Sprintf("match|%016x|%x", id, a.Address))
				if got != want {
					fails.add(cause("rc_match_account"), "ShardID(%#016x) (prefix %q).MatchAccountID(%s) [%s] = %v, want %v", id, prefix, c17Raw(a.Workchain, a.Address), whats[i], got, want)
				}
			}

			// child / parent
			if p := c17Safe(func() {
				left, right := shardChild(id, true), shardChild(id, false)
				if left != c17RefChild(id, true) || right != c17RefChild(id, false) {
					fails.add(childCause("rc_child_formula"), "shardChild(%#016x) = %#016x, %#016x; reference formula gives %#016x, %#016x", id, left, right, c17RefChild(id, true), c17RefChild(id, false))
				}
				if l >= 1 {
					if par := shardParent(id); par != c17RefParent(id) {
						fails.add(cause("rc_parent_formula"), "shardParent(%#016x) = %#016x; reference formula gives %#016x", id, par, c17RefParent(id))
					}
				}
				if l <= 62 {
					wl, wr := c17ShardOf(prefix+"0"), c17ShardOf(prefix+"1")
					if left != wl || right != wr {
						fails.add(childCause("rc_child_bits"), "shardChild(%#016x) (prefix %q) = %#016x, %#016x; want %#016x, %#016x", id, prefix, left, right, wl, wr)
					}
					if pl, pr := shardParent(left), shardParent(right); pl != id || pr != id {
						fails.add(childCause("rc_parent_of_child"), "shardParent(shardChild(%#016x)) = %#016x (left), %#016x (right)", id, pl, pr)
					}
				}
				if l >= 1 {
					par := shardParent(id)
					if want := c17ShardOf(prefix[:l-1]); par != want {
						fails.add(cause("rc_parent_bits"), "shardParent(%#016x) (prefix %q) = %#016x, want %#016x", id, prefix, par, want)
					}
					if c := shardChild(par, prefix[l-1] == '0'); c != id {
						fails.add(cause("rc_child_of_parent"), "shardChild(shardParent(%#016x), left=%v) = %#016x", id, prefix[l-1] == '0', c)
					}
				}
				// children are disjoint and their union is the parent
				if l <= 59 {
					ls, err1 := ParseShardID(int64(left))
					rs, err2 := ParseShardID(int64(right))
					if err1 != nil || err2 != nil {
						fails.add("rc_children_parse_rejected", "children %#016x, %#016x of %#016x do not parse: %v %v", left, right, id, err1, err2)
						return
					}
					for i, a := range accounts {
						inParent := sh.MatchAccountID(a)
						inL, inR := ls.MatchAccountID(a), rs.MatchAccountID(a)
						st.note(fmt.Sprintf("partition|%016x|%x", id, a.Address))
						if inL && inR || inParent != (inL || inR) {
							fails.add("rc_children_partition", "account %s [%s]: in %#016x: %v, in left child %#016x: %v, in right child %#016x: %v", c17Raw(a.Workchain, a.Address), whats[i], id, inParent, left, inL, right, inR)
						}
					}
					// parent and children intersect as blocks, the children do not intersect each other
					if !sh.MatchBlockID(BlockID{Shard: left}) || !ls.MatchBlockID(BlockID{Shard: id}) || !rs.MatchBlockID(BlockID{Shard: id}) || ls.MatchBlockID(BlockID{Shard: right}) || rs.MatchBlockID(BlockID{Shard: left}) {
						fails.add("rc_match_block_parent_child", "MatchBlockID between %#016x and its children %#016x, %#016x is not parent/child consistent", id, left, right)
					}
				}
			}); p != "" {
				fails.add(childCause("rc_panic_child_parent"), "shardChild / shardParent(%#016x) (prefix length %d): %s", id, l, p)
			}
		}
	}

	// MatchBlockID: true exactly when one prefix is a binary prefix of the other (the shards intersect); the workchain
	// and seqno of the block do not take part (ShardID carries no workchain).
	for l1 := 0; l1 <= 60; l1++ {
		for l2 := 0; l2 <= 60; l2++ {
			p1 := c17RandBits(rng, l1)
			short := l1
			if l2 < short {
				short = l2
			}
			var cands []string
			// related: agrees with p1 on the common length
			if l2 <= l1 {
				cands = append(cands, p1[:l2])
			} else {
				cands = append(cands, p1+c17RandBits(rng, l2-l1))
			}
			if short >= 1 {
				b := []byte(cands[0])
				i := short - 1
				b[i] ^= 1
				cands = append(cands, string(b)) // differs in the last common bit
				b = []byte(cands[0])
				b[rng.Intn(short)] ^= 1
				cands = append(cands, string(b)) // differs in one common bit
			}
			cands = append(cands, c17RandBits(rng, l2))
			for _, p2 := range cands {
				id1, id2 := c17ShardOf(p1), c17ShardOf(p2)
				want := strings.HasPrefix(p1, p2) || strings.HasPrefix(p2, p1)
				st.note(fmt.Sprintf("matchblock|%016x|%016x", id1, id2))
				if p := c17Safe(func() {
					sh := MustParseShardID(int64(id1))
					for _, blk := range []BlockID{{Workchain: 0, Shard: id2, Seqno: 1}, {Workchain: -1, Shard: id2, Seqno: 0}, {Workchain: 77, Shard: id2, Seqno: 1<<32 - 1}} {
						if got := sh.MatchBlockID(blk); got != want {
							fails.add("rc_match_block", "ShardID(%#016x) (prefix %q).MatchBlockID(%v) (prefix %q) = %v, want %v", id1, p1, blk, p2, got, want)
						}
					}
					// symmetric
					if got := MustParseShardID(int64(id2)).MatchBlockID(BlockID{Shard: id1}); got != want {
						fails.add("rc_match_block_symmetry", "ShardID(%#016x).MatchBlockID(shard %#016x) = %v, want %v (symmetry)", id2, id1, got, want)
					}
				}); p != "" {
					fails.add("rc_panic_match_block", "MatchBlockID %#016x / %#016x: %s", id1, id2, p)
				}
			}
		}
	}

	// convertShardIdent: shard_ident$00 shard_pfx_bits:(#<= 60) workchain_id:int32 shard_prefix:uint64.
	// GetParents is not part of the property: its results are compared with the same oracle but only logged.
	for l := 0; l <= 60; l++ {
		identPrefixes := prefixesOf(l)
		if len(identPrefixes) > 4 {
			identPrefixes = identPrefixes[:4]
		}
		for _, prefix := range identPrefixes {
			id := c17ShardOf(prefix)
			wc := []int32{0, -1, 1<<31 - 1, -1 << 31}[rng.Intn(4)]
			var rawPrefix uint64
			if l > 0 {
				rawPrefix, _ = strconv.ParseUint(prefix+strings.Repeat("0", 64-l), 2, 64)
			}
			si := tlb.ShardIdent{ShardPfxBits: tlb.Uint6(l), WorkchainID: wc, ShardPrefix: rawPrefix}
			st.note(fmt.Sprintf("ident|%d|%016x", wc, id))
			if p := c17Safe(func() {
				gw, gs := convertShardIdent(si)
				if gw != wc || gs != id {
					fails.add("rc_convert_shard_ident", "convertShardIdent(pfx_bits=%d wc=%d prefix=%#016x) = %d, %#016x; want %d, %#016x", l, wc, rawPrefix, gw, gs, wc, id)
				}
			}); p != "" {
				fails.add("rc_panic_convert_shard_ident", "convertShardIdent(pfx_bits=%d prefix=%#016x): %s", l, rawPrefix, p)
			}
			ref := func(seq uint32) tlb.ExtBlkRef {
				var r tlb.ExtBlkRef
				r.SeqNo = seq
				r.EndLt = uint64(seq) * 1000
				rng.Read(r.RootHash[:])
				rng.Read(r.FileHash[:])
				return r
			}
			r1, r2 := ref(100+uint32(l)), ref(200+uint32(l))
			one := tlb.BlkPrevInfo{SumType: "PrevBlkInfo", PrevBlkInfo: &struct{ Prev tlb.ExtBlkRef }{Prev: r1}}
			two := tlb.BlkPrevInfo{SumType: "PrevBlksInfo", PrevBlksInfo: &struct {
				Prev1 tlb.ExtBlkRef
				Prev2 tlb.ExtBlkRef
			}{Prev1: r1, Prev2: r2}}
			want := func(shard uint64, r tlb.ExtBlkRef) BlockIDExt {
				return BlockIDExt{BlockID: BlockID{Workchain: wc, Shard: shard, Seqno: r.SeqNo}, RootHash: Bits256(r.RootHash), FileHash: Bits256(r.FileHash)}
			}
			run := func(what string, split, merge bool, prev tlb.BlkPrevInfo) ([]BlockIDExt, error, bool) {
				var info tlb.BlockInfo
				info.Shard = si
				info.AfterSplit, info.AfterMerge = split, merge
				info.PrevRef = prev
				var out []BlockIDExt
				var err error
				if p := c17Safe(func() { out, err = GetParents(info) }); p != "" {
					fails.add("info_getparents_panic", "GetParents(%s, shard %#016x): %s", what, id, p)
					return nil, nil, false
				}
				return out, err, true
			}
			if out, err, ok := run("plain", false, false, one); ok {
				if err != nil || len(out) != 1 || out[0] != want(id, r1) {
					fails.add("info_getparents_mismatch", "GetParents(plain, wc %d shard %#016x) = %v, %v; want [%v]", wc, id, out, err, want(id, r1))
				}
			}
			if out, err, ok := run("after split", true, false, one); ok {
				if l == 0 {
					// the full shard has no parent; the library answers with the shard id 0 (which ParseShardID rejects)
					if err == nil && (len(out) != 1 || out[0].Shard == 0) {
						fails.add("info_getparents_split_of_full_shard", "GetParents(after_split, shard %#016x with an empty prefix) = %v, nil: shard id 0 is not a shard (ParseShardID(0) is an error)", id, out)
					}
				} else if err != nil || len(out) != 1 || out[0] != want(c17ShardOf(prefix[:l-1]), r1) {
					fails.add("info_getparents_mismatch", "GetParents(after_split, wc %d shard %#016x) = %v, %v; want [%v]", wc, id, out, err, want(c17ShardOf(prefix[:l-1]), r1))
				}
			}
			if out, err, ok := run("after merge", false, true, two); ok {
				wl, wr := want(c17RefChild(id, true), r1), want(c17RefChild(id, false), r2)
				if l <= 59 {
					wl.Shard, wr.Shard = c17ShardOf(prefix+"0"), c17ShardOf(prefix+"1")
				}
				if err != nil || len(out) != 2 || out[0] != wl || out[1] != wr {
					fails.add("info_getparents_mismatch", "GetParents(after_merge, wc %d shard %#016x) = %v, %v; want [%v %v]", wc, id, out, err, wl, wr)
				}
			}
			// the shape of prev must agree with after_merge: an error, never a panic (nil pointer of the other shape)
			if out, err, ok := run("after merge with a single prev", false, true, one); ok && err == nil {
				fails.add("info_getparents_mismatch", "GetParents(after_merge with prev_blk_info, shard %#016x) = %v, nil; want an error", id, out)
			}
			if out, err, ok := run("not after merge with two prevs", false, false, two); ok && err == nil {
				fails.add("info_getparents_mismatch", "GetParents(not after_merge with prev_blks_info, shard %#016x) = %v, nil; want an error", id, out)
			}
		}
	}

	fails.report(t)
}
