//go:build verif

package liteclient

// Bounded stand-in for C10, second file (labelled bounded, never counted as proved): LARGE and boundary-sized TL values.
// c10_test.go walks every declaration of lite_api.tl with small vectors (0..8 / 0..20 items); this file takes the same
// declarations to the sizes where a decoder's preallocation cap, a length-prefix switch or a count clamp would show.
//
// Oracle: lite_api.tl is PARSED HERE (own line parser) and an independent TL serializer written from the TL rules
// (little-endian 32-bit count followed by the items; 1-byte length < 254 or 0xFE + 24-bit length, data, zero padding to a
// multiple of 4; raw int256; constructor id in front of boxed values) writes the expected bytes while the Go value of the
// binding type is filled by reflection. MarshalTL / tl.Marshal are never used to obtain expected bytes. Every case has
// its own random source derived from (VERIF_SEED, label, size), so a reported case can be rebuilt alone.
//
// Every case is checked in the same way (c10bH.check):
//   (a) Marshal(v) == expected bytes
//   (b) Unmarshal(expected ++ 12 sentinel bytes): no error, exactly the 12 sentinel bytes left unread (neither unread
//       remainder of the value nor anything read past it), decoded value == v, the vector under test has exactly the
//       count that is on the wire
//   (c) the value embedded in struct{Pre uint32; V T; Post uint64}: tl.Marshal == le32(pre) ++ expected ++ le64(post),
//       tl.Unmarshal gives back Pre, V and the sentinel FIELD Post that follows the value, all bytes consumed
//   (d) Unmarshal(Marshal(v)) == v with all bytes consumed
//
// Bound (quick / thorough):
//   * TestVerifStandin_C10_LargeVectors: every declaration of lite_api.tl (constructor, boxed sum type, function request)
//     from which a `vector` can be reached (15 today: transactionList, blockTransactions, signatureSet + hand-written
//     boxed LiteServerSignatureSet, BlockLink, partialBlockProof, libraryResult, libraryResultWithProof, shardBlockProof,
//     lookupBlockResult, outMsgQueueSizes, dispatchQueueInfo, getConfigParams, getLibraries, getLibrariesWithProof) and
//     direct tl.Marshal / tl.Unmarshal on Go slices ([]uint32 []int32 []uint64 []int64 []tl.Int256 []bool, slices of
//     blockIdExt / blockId / transactionId / transactionId3 / libraryEntry / boxed BlockLink, [][]byte, []string,
//     [][]uint32), the first vector met having 0, 1, 2, 1023, 1024, 1025, 1026, 2047, 2048, 2049, 4096, 10000 items
//     (thorough: also 65535, 65536, 100000); other vectors 0..3 items; item contents random (mode words random);
//     function requests additionally through LiteapiRequestDecoder
//   * TestVerifStandin_C10_LargeBytes: every declaration with a bytes/string field reachable (vectors one item long, all
//     mode bits set, each constructor of a sum type): each such field in turn gets 0, 1, 2, 3, 4, 252..258, 65535, 65536,
//     65537 bytes (thorough: 2^24-1 as well), the others 0..40; plus bare []byte and string
//   * TestVerifStandin_C10_LargeNested: vectors of 1025 and 2049 (thorough 4097) items whose items carry byte strings of
//     lengths cycling through 0..4, 252..257, 1000 (one 65536 in between); [][]byte and []string the same way; vectors
//     of vectors ([][]uint32 with 3, 1025, 1026 inner vectors, [][]blockIdExt, [][][]byte with 9) whose inner counts cycle
//     through 0, 1, 2, 1023, 1024, 1025, 1026, 2049. lite_api.tl itself has no (vector bytes) and no vector of vectors:
//     these shapes are exercised at the tl package level and through items that contain bytes / vectors
//   * TestVerifStandin_C10_LargeClient: the (*Client).LiteServer* methods whose request or result reaches a vector, on
//     an in-memory connection (identity cipher, no network): vector of 0, 1, 1024, 1025, 2049, 10000 items (thorough
//     65536) in request and answer; the frame handed to the connection == adnl.message.query(liteServer.query(id +
//     params)) from the schema, the decoded result == the value the answer was built from (cases whose frame would
//     exceed the 8 MiB ADNL packet limit are skipped and logged)
// Not here: a huge count with too few bytes / allocation (C08), lengths >= 2^24 (c10_test.go).

import (
	"bytes"
	"context"
	"crypto/sha256"
	"encoding/binary"
	"encoding/hex"
	"fmt"
	"hash/crc32"
	"hash/fnv"
	"math/rand"
	"net"
	"os"
	"reflect"
	"regexp"
	"runtime/debug"
	"sort"
	"strconv"
	"strings"
	"testing"
	"time"

	"github.com/tonkeeper/tongo/tl"
)

// ---------------------------------------------------------------------------------------------------------------------
// environment, failure collector

func c10bSeed() int64 {
	if v, err := strconv.ParseInt(os.Getenv("VERIF_SEED"), 10, 64); err == nil {
		return v
	}
	return 1
}

func c10bThorough() bool { return os.Getenv("VERIF_TIER") == "thorough" }

// c10bRng: a random source of its own for every case.
func c10bRng(parts ...any) *rand.Rand {
	h := fnv.New64a()
	fmt.Fprint(h, parts...)
	return rand.New(rand.NewSource(c10bSeed()*1000003 ^ int64(h.Sum64()>>1)))
}

type c10bFailures struct {
	byCause map[string][]string
	count   map[string]int
	known   []string
}

func c10bNewFailures(known ...string) *c10bFailures {
	return &c10bFailures{byCause: map[string][]string{}, count: map[string]int{}, known: known}
}

func (f *c10bFailures) add(cause, format string, args ...any) {
	f.count[cause]++
	if len(f.byCause[cause]) < 6 {
		msg := fmt.Sprintf(format, args...)
		if len(msg) > 1800 {
			msg = msg[:1800] + "...(truncated)"
		}
		f.byCause[cause] = append(f.byCause[cause], msg)
	}
}

var c10bNameRe = regexp.MustCompile(`[^A-Za-z0-9_.]+`)

// addFor records a failure under <base>__<what> (what = Go type / function), so that unrelated failures of the same
// kind of check never share one sub-test.
func (f *c10bFailures) addFor(base, what, format string, args ...any) {
	f.add(base+"__"+c10bNameRe.ReplaceAllString(what, "_"), format, args...)
}

func (f *c10bFailures) report(t *testing.T) {
	names := map[string]bool{}
	for _, k := range f.known {
		derived := false
		for c := range f.count {
			if strings.HasPrefix(c, k+"__") {
				derived = true
			}
		}
		if !derived {
			names[k] = true
		}
	}
	for k := range f.count {
		names[k] = true
	}
	var sorted []string
	for k := range names {
		sorted = append(sorted, k)
	}
	sort.Strings(sorted)
	for _, k := range sorted {
		k := k
		t.Run(k, func(t *testing.T) {
			if f.count[k] == 0 {
				return
			}
			t.Errorf("%d failing case(s); first %d:", f.count[k], len(f.byCause[k]))
			for _, m := range f.byCause[k] {
				t.Errorf("  %s", m)
			}
		})
	}
}

func c10bSafe(fn func()) (p string) {
	defer func() {
		if r := recover(); r != nil {
			p = fmt.Sprintf("panic: %v", r)
		}
	}()
	fn()
	return ""
}

func c10bHex(b []byte) string {
	if len(b) <= 160 {
		return hex.EncodeToString(b)
	}
	return fmt.Sprintf("%s...(%d bytes)...%s", hex.EncodeToString(b[:120]), len(b), hex.EncodeToString(b[len(b)-24:]))
}

func c10bGoSyntax(v any) string {
	rv := reflect.ValueOf(v)
	if rv.Kind() == reflect.Slice && rv.Len() > 4 {
		return fmt.Sprintf("%T of %d items, first 2: %s", v, rv.Len(), c10bGoSyntax(rv.Slice(0, 2).Interface()))
	}
	s := fmt.Sprintf("%#v", v)
	if len(s) > 500 {
		s = s[:500] + "...(truncated)"
	}
	return s
}

func c10bFirstDiff(a, b []byte) int {
	n := len(a)
	if len(b) < n {
		n = len(b)
	}
	for i := 0; i < n; i++ {
		if a[i] != b[i] {
			return i
		}
	}
	if len(a) != len(b) {
		return n
	}
	return -1
}

// c10bAround: the bytes around offset off, for messages about long inputs.
func c10bAround(b []byte, off int) string {
	if off < 0 {
		return ""
	}
	from, to := off-8, off+16
	if from < 0 {
		from = 0
	}
	if to > len(b) {
		to = len(b)
	}
	return fmt.Sprintf("[%d..%d)=%s", from, to, hex.EncodeToString(b[from:to]))
}

// ---------------------------------------------------------------------------------------------------------------------
// schema: own parser of lite_api.tl

const (
	c10bKInt = iota
	c10bKLong
	c10bKNat
	c10bKInt128
	c10bKInt256
	c10bKBytes
	c10bKString
	c10bKBool
	c10bKTrue
	c10bKVector
	c10bKBare
	c10bKBoxed
)

type c10bType struct {
	kind int
	name string    // named reference (bare constructor name or boxed type name)
	elem *c10bType // vector item
}

type c10bField struct {
	name      string
	typ       *c10bType
	condField string // "" = unconditional
	condBit   uint
}

type c10bCtor struct {
	name   string
	fileID uint32
	hasID  bool
	crcID  uint32
	fields []c10bField
	result string
}

func (c *c10bCtor) id() uint32 {
	if c.hasID {
		return c.fileID
	}
	return c.crcID
}

type c10bSchema struct {
	types    []*c10bCtor
	funcs    []*c10bCtor
	extra    map[string]*c10bCtor // commented-out declarations that the hand-written client code uses
	byCtor   map[string]*c10bCtor
	byResult map[string][]*c10bCtor
	results  []string // boxed type names in order of first appearance
	reach    map[string]int
}

var c10bIdentRe = regexp.MustCompile(`^[a-zA-Z][0-9a-zA-Z_]*(\.[a-zA-Z][0-9a-zA-Z_]*)*$`)

// c10bSplitFields splits "a:int b:(vector x.y) c:mode.0?bytes" keeping parenthesised groups together.
func c10bSplitFields(s string) ([]string, error) {
	var out []string
	depth := 0
	cur := strings.Builder{}
	for _, r := range s {
		switch {
		case r == '(':
			depth++
			cur.WriteRune(r)
		case r == ')':
			depth--
			if depth < 0 {
				return nil, fmt.Errorf("unbalanced parenthesis")
			}
			cur.WriteRune(r)
		case (r == ' ' || r == '\t') && depth == 0:
			if cur.Len() > 0 {
				out = append(out, cur.String())
				cur.Reset()
			}
		default:
			cur.WriteRune(r)
		}
	}
	if depth != 0 {
		return nil, fmt.Errorf("unbalanced parenthesis")
	}
	if cur.Len() > 0 {
		out = append(out, cur.String())
	}
	return out, nil
}

func c10bParseType(s string) (*c10bType, error) {
	s = strings.TrimSpace(s)
	if strings.HasPrefix(s, "(") && strings.HasSuffix(s, ")") {
		s = strings.TrimSpace(s[1 : len(s)-1])
	}
	if strings.HasPrefix(s, "vector ") {
		e, err := c10bParseType(s[len("vector "):])
		if err != nil {
			return nil, err
		}
		return &c10bType{kind: c10bKVector, elem: e}, nil
	}
	switch s {
	case "int":
		return &c10bType{kind: c10bKInt}, nil
	case "long":
		return &c10bType{kind: c10bKLong}, nil
	case "#":
		return &c10bType{kind: c10bKNat}, nil
	case "int128":
		return &c10bType{kind: c10bKInt128}, nil
	case "int256":
		return &c10bType{kind: c10bKInt256}, nil
	case "bytes":
		return &c10bType{kind: c10bKBytes}, nil
	case "string":
		return &c10bType{kind: c10bKString}, nil
	case "Bool":
		return &c10bType{kind: c10bKBool}, nil
	case "true":
		return &c10bType{kind: c10bKTrue}, nil
	}
	if !c10bIdentRe.MatchString(s) {
		return nil, fmt.Errorf("unsupported type expression %q", s)
	}
	last := s
	if i := strings.LastIndex(s, "."); i >= 0 {
		last = s[i+1:]
	}
	if last[0] >= 'A' && last[0] <= 'Z' {
		return &c10bType{kind: c10bKBoxed, name: s}, nil
	}
	return &c10bType{kind: c10bKBare, name: s}, nil
}

var c10bCondRe = regexp.MustCompile(`^([a-zA-Z_][a-zA-Z0-9_]*)\.([0-9]+)\?(.+)$`)

func c10bParseDecl(line string) (*c10bCtor, error) {
	if i := strings.Index(line, ";"); i >= 0 {
		line = line[:i]
	} else {
		return nil, fmt.Errorf("no terminating ';'")
	}
	eq := strings.LastIndex(line, "=")
	if eq < 0 {
		return nil, fmt.Errorf("no '='")
	}
	left, right := strings.TrimSpace(line[:eq]), strings.TrimSpace(line[eq+1:])
	toks, err := c10bSplitFields(left)
	if err != nil || len(toks) == 0 {
		return nil, fmt.Errorf("bad left side: %v", err)
	}
	c := &c10bCtor{result: right}
	head := toks[0]
	if i := strings.Index(head, "#"); i >= 0 {
		h := head[i+1:]
		v, err := strconv.ParseUint(h, 16, 32)
		if err != nil || len(h) != 8 {
			return nil, fmt.Errorf("bad constructor id %q", head)
		}
		c.fileID, c.hasID = uint32(v), true
		head = head[:i]
	}
	if !c10bIdentRe.MatchString(head) {
		return nil, fmt.Errorf("bad constructor name %q", head)
	}
	c.name = head
	norm := []string{head}
	for _, tk := range toks[1:] {
		i := strings.Index(tk, ":")
		if i <= 0 {
			return nil, fmt.Errorf("bad field %q", tk)
		}
		f := c10bField{name: tk[:i]}
		ts := tk[i+1:]
		if m := c10bCondRe.FindStringSubmatch(ts); m != nil && !strings.HasPrefix(ts, "(") {
			bit, _ := strconv.Atoi(m[2])
			if bit > 31 {
				return nil, fmt.Errorf("bad bit in %q", tk)
			}
			f.condField, f.condBit = m[1], uint(bit)
			ts = m[3]
		}
		f.typ, err = c10bParseType(ts)
		if err != nil {
			return nil, err
		}
		c.fields = append(c.fields, f)
		norm = append(norm, tk)
	}
	n := strings.Join(norm, " ") + " = " + right
	n = strings.NewReplacer("(", "", ")", "").Replace(n)
	n = strings.Join(strings.Fields(n), " ")
	c.crcID = crc32.ChecksumIEEE([]byte(n))
	return c, nil
}

func c10bLoadSchema(path string) (*c10bSchema, error) {
	raw, err := os.ReadFile(path)
	if err != nil {
		return nil, err
	}
	s := &c10bSchema{extra: map[string]*c10bCtor{}, byCtor: map[string]*c10bCtor{}, byResult: map[string][]*c10bCtor{}, reach: map[string]int{}}
	inFuncs := false
	for ln, line := range strings.Split(string(raw), "\n") {
		line = strings.TrimSpace(line)
		if line == "" {
			continue
		}
		if line == "---functions---" {
			inFuncs = true
			continue
		}
		if strings.HasPrefix(line, "//") {
			body := strings.TrimSpace(strings.TrimPrefix(line, "//"))
			if strings.HasPrefix(body, "liteServer.query#") {
				c, err := c10bParseDecl(body)
				if err != nil {
					return nil, fmt.Errorf("line %d: %v", ln+1, err)
				}
				s.extra[c.name] = c
			}
			continue
		}
		c, err := c10bParseDecl(line)
		if err != nil {
			return nil, fmt.Errorf("line %d: %v", ln+1, err)
		}
		if inFuncs {
			s.funcs = append(s.funcs, c)
			continue
		}
		if s.byCtor[c.name] != nil {
			return nil, fmt.Errorf("line %d: duplicate constructor %s", ln+1, c.name)
		}
		s.types = append(s.types, c)
		s.byCtor[c.name] = c
		if len(s.byResult[c.result]) == 0 {
			s.results = append(s.results, c.result)
		}
		s.byResult[c.result] = append(s.byResult[c.result], c)
	}
	return s, nil
}

// reachesVector: a `vector` occurs in the type or in anything it refers to.
func (s *c10bSchema) typeReachesVector(t *c10bType) bool {
	switch t.kind {
	case c10bKVector:
		return true
	case c10bKBare:
		if c := s.byCtor[t.name]; c != nil {
			return s.ctorReachesVector(c)
		}
	case c10bKBoxed:
		for _, c := range s.byResult[t.name] {
			if s.ctorReachesVector(c) {
				return true
			}
		}
	}
	return false
}

func (s *c10bSchema) ctorReachesVector(c *c10bCtor) bool {
	switch s.reach[c.name] {
	case 1:
		return true
	case 2, 3: // 3 = being visited (recursive type): no
		return false
	}
	s.reach[c.name] = 3
	r := false
	for _, f := range c.fields {
		if s.typeReachesVector(f.typ) {
			r = true
		}
	}
	if r {
		s.reach[c.name] = 1
	} else {
		s.reach[c.name] = 2
	}
	return r
}

// c10bCamel: TL name -> Go name as the generator spells it (capital after '.', '_' and digits).
func c10bCamel(s string) string {
	var b strings.Builder
	up := true
	for _, r := range s {
		switch {
		case r >= 'a' && r <= 'z':
			if up {
				r = r - 'a' + 'A'
			}
			b.WriteRune(r)
			up = false
		case r >= 'A' && r <= 'Z':
			b.WriteRune(r)
			up = false
		case r >= '0' && r <= '9':
			b.WriteRune(r)
			up = true
		default:
			up = true
		}
	}
	return b.String()
}

// goNameOfResult of a boxed TL type: <Constructor>C when it has one constructor, else the type's own name.
func (s *c10bSchema) goNameOfResult(result string) string {
	cs := s.byResult[result]
	if len(cs) == 1 {
		return c10bCamel(cs[0].name) + "C"
	}
	return c10bCamel(result)
}

// Go binding types by name (reflection cannot look a type up by name).
var c10bGoTypes = func() map[string]reflect.Type {
	m := map[string]reflect.Type{}
	for _, v := range []any{
		TonNodeBlockIdC{}, TonNodeBlockIdExtC{}, TonNodeZeroStateIdExtC{}, TonNodeShardPublicOverlayIdC{}, AdnlMessage{},
		LiteServerErrorC{}, LiteServerAccountIdC{}, LiteServerLibraryEntryC{}, LiteServerMasterchainInfoC{},
		LiteServerMasterchainInfoExtC{}, LiteServerCurrentTimeC{}, LiteServerVersionC{}, LiteServerBlockDataC{},
		LiteServerBlockStateC{}, LiteServerBlockHeaderC{}, LiteServerSendMsgStatusC{}, LiteServerAccountStateC{},
		LiteServerRunMethodResultC{}, LiteServerShardInfoC{}, LiteServerAllShardsInfoC{}, LiteServerTransactionInfoC{},
		LiteServerTransactionListC{}, LiteServerTransactionIdC{}, LiteServerTransactionId3C{}, LiteServerBlockTransactionsC{},
		LiteServerBlockTransactionsExtC{}, LiteServerSignatureC{}, LiteServerSignatureSetC{}, LiteServerBlockLink{},
		LiteServerPartialBlockProofC{}, LiteServerConfigInfoC{}, LiteServerValidatorStatsC{}, LiteServerLibraryResultC{},
		LiteServerLibraryResultWithProofC{}, LiteServerShardBlockLinkC{}, LiteServerShardBlockProofC{},
		LiteServerLookupBlockResultC{}, LiteServerOutMsgQueueSizeC{}, LiteServerOutMsgQueueSizesC{},
		LiteServerAccountDispatchQueueInfoC{}, LiteServerDispatchQueueInfoC{}, LiteProxyRequestRateLimitC{},
		LiteServerDebugVerbosityC{},
		LiteServerGetMasterchainInfoRequest{}, LiteServerGetMasterchainInfoExtRequest{}, LiteServerGetTimeRequest{},
		LiteServerGetVersionRequest{}, LiteServerGetBlockRequest{}, LiteServerGetStateRequest{},
		LiteServerGetBlockHeaderRequest{}, LiteServerSendMessageRequest{}, LiteServerGetAccountStateRequest{},
		LiteServerGetAccountStatePrunnedRequest{}, LiteServerRunSmcMethodRequest{}, LiteServerGetShardInfoRequest{},
		LiteServerGetAllShardsInfoRequest{}, LiteServerGetOneTransactionRequest{}, LiteServerGetTransactionsRequest{},
		LiteServerLookupBlockRequest{}, LiteServerLookupBlockWithProofRequest{}, LiteServerListBlockTransactionsRequest{},
		LiteServerListBlockTransactionsExtRequest{}, LiteServerGetBlockProofRequest{}, LiteServerGetConfigAllRequest{},
		LiteServerGetConfigParamsRequest{}, LiteServerGetValidatorStatsRequest{}, LiteServerGetLibrariesRequest{},
		LiteServerGetLibrariesWithProofRequest{}, LiteServerGetShardBlockProofRequest{},
		LiteServerGetOutMsgQueueSizesRequest{}, LiteServerGetDispatchQueueInfoRequest{},
		LiteProxyGetRequestRateLimitRequest{},
		// hand-written (extensions.go): boxed liteServer.SignatureSet
		LiteServerSignatureSet{},
	} {
		t := reflect.TypeOf(v)
		m[t.Name()] = t
	}
	return m
}()

// ---------------------------------------------------------------------------------------------------------------------
// independent TL serializer (from the TL rules)

func c10bLe32(b *bytes.Buffer, v uint32) {
	b.Write([]byte{byte(v), byte(v >> 8), byte(v >> 16), byte(v >> 24)})
}

func c10bLe64(b *bytes.Buffer, v uint64) {
	for i := 0; i < 8; i++ {
		b.WriteByte(byte(v >> (8 * uint(i))))
	}
}

// c10bTLBytes: 1-byte length (< 254) or 0xFE + 24-bit LE length, data, zero padding to a multiple of 4. The offsets of
// the padding bytes are appended to pads (to tell "padding not zero" from other differences).
func c10bTLBytes(b *bytes.Buffer, data []byte, pads *[]int) {
	n := len(data)
	total := 0
	if n < 254 {
		b.WriteByte(byte(n))
		total = 1 + n
	} else {
		if n >= 1<<24 {
			panic("c10bTLBytes: length not representable")
		}
		b.Write([]byte{0xfe, byte(n), byte(n >> 8), byte(n >> 16)})
		total = 4 + n
	}
	b.Write(data)
	for total%4 != 0 {
		if pads != nil {
			*pads = append(*pads, b.Len())
		}
		b.WriteByte(0)
		total++
	}
}

const (
	c10bBoolTrue  = 0x997275b5
	c10bBoolFalse = 0xbc799737
)

// ---------------------------------------------------------------------------------------------------------------------
// value generator: walks the SCHEMA, writes the expected bytes and fills the Go value by reflection at the same time

type c10bGen struct {
	s   *c10bSchema
	rng *rand.Rand

	// shape
	primaryN    int   // item count of the first vector met in walk order; -1 = placed / none wanted
	otherVecMax int   // other vectors: 0..otherVecMax items at random ...
	fixedVec    int   // ... or exactly fixedVec items when >= 0 ...
	innerLens   []int // ... or counts taken from this cycle when non-nil
	innerPos    int
	allBits     bool // every guard bit set (deterministic shape)
	ctorVariant int  // >= 0: sum types take constructor ctorVariant % n; -1: rotate (constructors that reach a vector first)
	sumNext     map[string]int

	// byte strings
	bytesIdx  int // running index of the byte strings written so far
	targetIdx int // the targetIdx-th byte string (walk order) has targetLen bytes; -1 = none
	targetLen int
	elemLens  []int // lengths taken from this cycle when non-nil
	elemPos   int
	bigEvery  int // with elemLens: every bigEvery-th byte string has 65536 bytes (0 = never)

	// results
	primaryPath string // Go path of the vector that got primaryN items
	targetPath  string
	pads        []int
}

func c10bNewGen(s *c10bSchema, rng *rand.Rand) *c10bGen {
	return &c10bGen{s: s, rng: rng, primaryN: -1, otherVecMax: 3, fixedVec: -1, ctorVariant: -1, sumNext: map[string]int{}, targetIdx: -1}
}

type c10bShapeError struct{ msg string }

func (e c10bShapeError) Error() string { return e.msg }

func (g *c10bGen) nextLen(path string) int {
	idx := g.bytesIdx
	g.bytesIdx++
	if idx == g.targetIdx {
		g.targetPath = path
		return g.targetLen
	}
	if g.elemLens != nil {
		g.elemPos++
		if g.bigEvery > 0 && g.elemPos%g.bigEvery == 0 {
			return 65536
		}
		return g.elemLens[(g.elemPos-1)%len(g.elemLens)]
	}
	if g.rng.Intn(8) == 0 {
		return 250 + g.rng.Intn(11)
	}
	return g.rng.Intn(41)
}

func (g *c10bGen) u32() uint32 {
	switch g.rng.Intn(12) {
	case 0:
		return 0
	case 1:
		return 0xffffffff
	case 2:
		return 0x80000000
	case 3:
		return uint32(g.rng.Intn(256))
	}
	return g.rng.Uint32()
}

func (g *c10bGen) u64() uint64 {
	switch g.rng.Intn(12) {
	case 0:
		return 0
	case 1:
		return 0xffffffffffffffff
	case 2:
		return 0x8000000000000000
	case 3:
		return uint64(g.rng.Intn(256))
	}
	return g.rng.Uint64()
}

func c10bGuardBits(c *c10bCtor, field string) []uint {
	seen := map[uint]bool{}
	var bits []uint
	for _, f := range c.fields {
		if f.condField == field && !seen[f.condBit] {
			seen[f.condBit] = true
			bits = append(bits, f.condBit)
		}
	}
	return bits
}

// fillFields writes the fields of constructor c (no id) and fills struct rv.
func (g *c10bGen) fillFields(c *c10bCtor, rv reflect.Value, out *bytes.Buffer, path string) error {
	if rv.Kind() != reflect.Struct {
		return c10bShapeError{fmt.Sprintf("%s: Go type %v is not a struct for constructor %s", path, rv.Type(), c.name)}
	}
	want := 0
	for _, f := range c.fields {
		if f.typ.kind != c10bKTrue {
			want++
		}
	}
	if rv.NumField() != want {
		return c10bShapeError{fmt.Sprintf("%s: Go struct %v has %d fields, schema constructor %s has %d non-`true` fields", path, rv.Type(), rv.NumField(), c.name, want)}
	}
	var env map[string]uint32
	for _, f := range c.fields {
		present := true
		if f.condField != "" {
			w, ok := env[f.condField]
			if !ok {
				return c10bShapeError{fmt.Sprintf("%s.%s: guard field %s not defined before use", path, f.name, f.condField)}
			}
			present = (w>>f.condBit)&1 == 1
		}
		if f.typ.kind == c10bKTrue {
			continue // zero bytes, no Go field
		}
		goName := c10bCamel(f.name)
		fv := rv.FieldByName(goName)
		if !fv.IsValid() {
			return c10bShapeError{fmt.Sprintf("%s: Go struct %v has no field %s for schema field %s", path, rv.Type(), goName, f.name)}
		}
		fpath := path + "." + goName
		if f.typ.kind == c10bKNat {
			if bits := c10bGuardBits(c, f.name); len(bits) > 0 {
				var sel, mask uint32
				combo := g.rng.Intn(1 << uint(len(bits)))
				for i, b := range bits {
					mask |= 1 << b
					if (combo>>uint(i))&1 == 1 {
						sel |= 1 << b
					}
				}
				if g.allBits {
					sel = mask
				}
				w := sel
				if g.rng.Intn(2) == 0 {
					w |= g.rng.Uint32() &^ mask
				}
				c10bLe32(out, w)
				if env == nil {
					env = map[string]uint32{}
				}
				env[f.name] = w
				if fv.Kind() != reflect.Uint32 {
					return c10bShapeError{fmt.Sprintf("%s: Go kind %v for TL #", fpath, fv.Kind())}
				}
				fv.SetUint(uint64(w))
				continue
			}
		}
		if f.condField != "" {
			if !present {
				continue
			}
			target := fv
			if fv.Kind() == reflect.Ptr {
				fv.Set(reflect.New(fv.Type().Elem()))
				target = fv.Elem()
			} else if fv.Kind() != reflect.Slice {
				return c10bShapeError{fmt.Sprintf("%s: optional schema field %s is neither pointer nor slice in Go (%v)", fpath, f.name, fv.Type())}
			}
			if err := g.fillValue(f.typ, target, out, fpath); err != nil {
				return err
			}
			continue
		}
		if err := g.fillValue(f.typ, fv, out, fpath); err != nil {
			return err
		}
	}
	return nil
}

func (g *c10bGen) fillValue(t *c10bType, rv reflect.Value, out *bytes.Buffer, path string) error {
	switch t.kind {
	case c10bKInt, c10bKNat:
		v := g.u32()
		c10bLe32(out, v)
		switch rv.Kind() {
		case reflect.Uint32:
			rv.SetUint(uint64(v))
		case reflect.Int32:
			rv.SetInt(int64(int32(v)))
		default:
			return c10bShapeError{fmt.Sprintf("%s: Go kind %v for TL int/#", path, rv.Kind())}
		}
	case c10bKLong:
		v := g.u64()
		c10bLe64(out, v)
		switch rv.Kind() {
		case reflect.Uint64:
			rv.SetUint(v)
		case reflect.Int64:
			rv.SetInt(int64(v))
		default:
			return c10bShapeError{fmt.Sprintf("%s: Go kind %v for TL long", path, rv.Kind())}
		}
	case c10bKInt128, c10bKInt256:
		n := 32
		if t.kind == c10bKInt128 {
			n = 16
		}
		if rv.Kind() != reflect.Array || rv.Len() != n || rv.Type().Elem().Kind() != reflect.Uint8 {
			return c10bShapeError{fmt.Sprintf("%s: Go type %v for TL int%d", path, rv.Type(), n*8)}
		}
		var b [32]byte
		if g.rng.Intn(10) != 0 {
			g.rng.Read(b[:n])
		}
		out.Write(b[:n])
		reflect.Copy(rv, reflect.ValueOf(b[:n]))
	case c10bKBytes, c10bKString:
		n := g.nextLen(path)
		b := make([]byte, n)
		g.rng.Read(b)
		c10bTLBytes(out, b, &g.pads)
		switch {
		case rv.Kind() == reflect.Slice && rv.Type().Elem().Kind() == reflect.Uint8:
			rv.SetBytes(b)
		case rv.Kind() == reflect.String:
			rv.SetString(string(b))
		default:
			return c10bShapeError{fmt.Sprintf("%s: Go type %v for TL bytes/string", path, rv.Type())}
		}
	case c10bKBool:
		v := g.rng.Intn(2) == 0
		if v {
			c10bLe32(out, c10bBoolTrue)
		} else {
			c10bLe32(out, c10bBoolFalse)
		}
		if rv.Kind() != reflect.Bool {
			return c10bShapeError{fmt.Sprintf("%s: Go kind %v for TL Bool", path, rv.Kind())}
		}
		rv.SetBool(v)
	case c10bKTrue:
	case c10bKVector:
		var n int
		switch {
		case g.primaryN >= 0:
			n = g.primaryN
			g.primaryN = -1
			g.primaryPath = path
		case g.fixedVec >= 0:
			n = g.fixedVec
		case g.innerLens != nil:
			n = g.innerLens[g.innerPos%len(g.innerLens)]
			g.innerPos++
		default:
			n = g.rng.Intn(g.otherVecMax + 1)
		}
		// TL vector: 32-bit little-endian count, then exactly that many items
		c10bLe32(out, uint32(n))
		if rv.Kind() != reflect.Slice || rv.Type().Elem().Kind() == reflect.Uint8 {
			return c10bShapeError{fmt.Sprintf("%s: Go type %v for TL vector", path, rv.Type())}
		}
		sl := reflect.MakeSlice(rv.Type(), n, n)
		for i := 0; i < n; i++ {
			if err := g.fillValue(t.elem, sl.Index(i), out, path+"[]"); err != nil {
				return err
			}
		}
		rv.Set(sl)
	case c10bKBare:
		c := g.s.byCtor[t.name]
		if c == nil {
			return c10bShapeError{fmt.Sprintf("%s: schema refers to unknown constructor %s", path, t.name)}
		}
		if rv.Kind() == reflect.Struct {
			if _, ok := rv.Type().FieldByName("SumType"); ok {
				return c10bShapeError{fmt.Sprintf("%s: bare reference to %s but Go type %v is a sum type", path, t.name, rv.Type())}
			}
		}
		return g.fillFields(c, rv, out, path)
	case c10bKBoxed:
		cs := g.s.byResult[t.name]
		if len(cs) == 0 {
			return c10bShapeError{fmt.Sprintf("%s: schema refers to unknown type %s", path, t.name)}
		}
		var c *c10bCtor
		if g.ctorVariant >= 0 {
			c = cs[g.ctorVariant%len(cs)]
		} else {
			cand := cs
			if g.primaryN >= 0 { // still looking for the vector under test
				var with []*c10bCtor
				for _, x := range cs {
					if g.s.ctorReachesVector(x) {
						with = append(with, x)
					}
				}
				if len(with) > 0 {
					cand = with
				}
			}
			c = cand[g.sumNext[t.name]%len(cand)]
			g.sumNext[t.name]++
		}
		c10bLe32(out, c.id())
		if rv.Kind() != reflect.Struct {
			return c10bShapeError{fmt.Sprintf("%s: Go type %v for boxed %s", path, rv.Type(), t.name)}
		}
		if _, ok := rv.Type().FieldByName("SumType"); ok {
			if rv.NumField() != len(cs)+1 {
				return c10bShapeError{fmt.Sprintf("%s: Go sum type %v has %d fields, schema type %s has %d constructors", path, rv.Type(), rv.NumField(), t.name, len(cs))}
			}
			rv.FieldByName("SumType").SetString(c10bCamel(c.name))
			sub := rv.FieldByName(c10bCamel(c.name))
			if !sub.IsValid() {
				return c10bShapeError{fmt.Sprintf("%s: Go sum type %v has no member %s", path, rv.Type(), c10bCamel(c.name))}
			}
			return g.fillFields(c, sub, out, path+"."+c10bCamel(c.name))
		}
		if len(cs) != 1 {
			return c10bShapeError{fmt.Sprintf("%s: schema type %s has %d constructors but Go type %v is not a sum type", path, t.name, len(cs), rv.Type())}
		}
		return g.fillFields(c, rv, out, path)
	}
	return nil
}

// c10bEqual: deep equality where a nil slice equals an empty slice (TL cannot tell them apart); returns the path of the
// first difference ("" = equal).
func c10bEqual(a, b reflect.Value, path string) string {
	if a.Type() != b.Type() {
		return path + ": types differ"
	}
	switch a.Kind() {
	case reflect.Ptr:
		if a.IsNil() != b.IsNil() {
			return fmt.Sprintf("%s: nil=%v vs nil=%v", path, a.IsNil(), b.IsNil())
		}
		if a.IsNil() {
			return ""
		}
		return c10bEqual(a.Elem(), b.Elem(), path)
	case reflect.Slice:
		if a.Len() != b.Len() {
			return fmt.Sprintf("%s: len %d vs %d", path, a.Len(), b.Len())
		}
		if a.Type().Elem().Kind() == reflect.Uint8 {
			if !bytes.Equal(a.Bytes(), b.Bytes()) {
				return fmt.Sprintf("%s: bytes differ (first at %d of %d)", path, c10bFirstDiff(a.Bytes(), b.Bytes()), a.Len())
			}
			return ""
		}
		for i := 0; i < a.Len(); i++ {
			if d := c10bEqual(a.Index(i), b.Index(i), path); d != "" {
				return fmt.Sprintf("%s (item %d)", d, i)
			}
		}
		return ""
	case reflect.Struct:
		for i := 0; i < a.NumField(); i++ {
			if d := c10bEqual(a.Field(i), b.Field(i), path+"."+a.Type().Field(i).Name); d != "" {
				return d
			}
		}
		return ""
	case reflect.Array:
		if a.Type().Elem().Kind() == reflect.Uint8 {
			for i := 0; i < a.Len(); i++ {
				if a.Index(i).Uint() != b.Index(i).Uint() {
					return fmt.Sprintf("%s: byte %d differs", path, i)
				}
			}
			return ""
		}
		fallthrough
	default:
		if !reflect.DeepEqual(a.Interface(), b.Interface()) {
			return fmt.Sprintf("%s: %v vs %v", path, a.Interface(), b.Interface())
		}
		return ""
	}
}

// c10bNavigate follows a Go path "Root.Field.Field" (as recorded by the generator) inside v.
func c10bNavigate(v reflect.Value, path string) (reflect.Value, bool) {
	parts := strings.Split(path, ".")
	for _, name := range parts[1:] {
		for v.Kind() == reflect.Ptr {
			if v.IsNil() {
				return v, false
			}
			v = v.Elem()
		}
		if v.Kind() != reflect.Struct {
			return v, false
		}
		v = v.FieldByName(name)
		if !v.IsValid() {
			return v, false
		}
	}
	for v.Kind() == reflect.Ptr {
		if v.IsNil() {
			return v, false
		}
		v = v.Elem()
	}
	return v, v.Kind() == reflect.Slice
}

func c10bMarshal(v any) (b []byte, err error, p string) {
	p = c10bSafe(func() {
		if m, ok := v.(tl.MarshalerTL); ok {
			b, err = m.MarshalTL()
		} else {
			b, err = tl.Marshal(v)
		}
	})
	return
}

func c10bUnmarshal(data []byte, ptr any) (rest int, err error, p string) {
	r := bytes.NewReader(data)
	p = c10bSafe(func() {
		if u, ok := ptr.(tl.UnmarshalerTL); ok {
			err = u.UnmarshalTL(r)
		} else {
			err = tl.Unmarshal(r, ptr)
		}
	})
	return r.Len(), err, p
}

// ---------------------------------------------------------------------------------------------------------------------
// items and the common check

type c10bItem struct {
	label  string
	goName string
	goType reflect.Type
	ctor   *c10bCtor // bare: fields of this constructor
	boxed  string    // boxed: a constructor of this type, id in front
	expr   *c10bType // tl level: a TL type expression for a plain Go type (slices, []byte, string)
	fn     *c10bCtor // function whose parameters the item is
}

func (g *c10bGen) build(it *c10bItem) (rv reflect.Value, exp []byte, err error) {
	rv = reflect.New(it.goType).Elem()
	var out bytes.Buffer
	switch {
	case it.expr != nil:
		err = g.fillValue(it.expr, rv, &out, it.goName)
	case it.ctor != nil:
		err = g.fillFields(it.ctor, rv, &out, it.goName)
	default:
		err = g.fillValue(&c10bType{kind: c10bKBoxed, name: it.boxed}, rv, &out, it.goName)
	}
	return rv, out.Bytes(), err
}

// c10bSchemaItems: one item per declaration of lite_api.tl, as the bindings represent it.
func c10bSchemaItems(s *c10bSchema, fails *c10bFailures) []*c10bItem {
	var items []*c10bItem
	add := func(it *c10bItem) {
		t, ok := c10bGoTypes[it.goName]
		if !ok {
			fails.addFor("rc_go_type_missing_for_declaration", it.goName, "%s: no Go type %s in the bindings", it.label, it.goName)
			return
		}
		it.goType = t
		items = append(items, it)
	}
	for _, res := range s.results {
		cs := s.byResult[res]
		if len(cs) == 1 {
			add(&c10bItem{label: "constructor " + cs[0].name + " (bare)", goName: c10bCamel(cs[0].name) + "C", ctor: cs[0]})
			continue
		}
		add(&c10bItem{label: "type " + res + " (boxed, " + strconv.Itoa(len(cs)) + " constructors)", goName: c10bCamel(res), boxed: res})
	}
	add(&c10bItem{label: "type liteServer.SignatureSet (boxed, extensions.go)", goName: "LiteServerSignatureSet", boxed: "liteServer.SignatureSet"})
	for _, f := range s.funcs {
		add(&c10bItem{label: "function " + f.name + " (params)", goName: c10bCamel(f.name) + "Request", ctor: f, fn: f})
	}
	return items
}

func (s *c10bSchema) itemReachesVector(it *c10bItem) bool {
	switch {
	case it.expr != nil:
		return s.typeReachesVector(it.expr)
	case it.ctor != nil:
		return s.ctorReachesVector(it.ctor)
	}
	return s.typeReachesVector(&c10bType{kind: c10bKBoxed, name: it.boxed})
}

func c10bExprItem(expr string, goValue any) *c10bItem {
	t, err := c10bParseType(expr)
	if err != nil {
		panic(err)
	}
	gt := reflect.TypeOf(goValue)
	return &c10bItem{label: "tl.Marshal/tl.Unmarshal of " + gt.String() + " as (" + expr + ")", goName: "tl_" + strings.NewReplacer("[]", "sliceOf_", ".", "_").Replace(gt.String()), goType: gt, expr: t}
}

type c10bH struct {
	fails    *c10bFailures
	cases    int
	distinct map[[32]byte]struct{}
}

func (h *c10bH) note(b []byte) {
	h.cases++
	h.distinct[sha256.Sum256(b)] = struct{}{}
}

type c10bOpts struct {
	n           int    // count of the vector under test (-1: none)
	primaryPath string // its Go path
	rcBytes     string // cause for "marshalled bytes differ from the schema"
	rcValue     string // cause for "decoded value differs"
	pads        []int  // offsets of padding bytes in the expected bytes
}

var c10bSentinel = []byte{0xa5, 0x5a, 0xc3, 0x3c, 0x96, 0x69, 0xf0, 0x0f, 0xa5, 0x5a, 0xc3, 0x3c}

const (
	c10bPre  = uint32(0x1badb002)
	c10bPost = uint64(0x5e471e1f00c0ffee)
)

var c10bKnownCauses = []string{
	"rc_go_type_missing_for_declaration", "rc_go_struct_shape_mismatch", "rc_harness_schema_parse", "rc_harness_coverage",
	"rc_panic_marshal", "rc_panic_unmarshal", "rc_marshal_error", "rc_unmarshal_error",
	"rc_vector_bytes_differ_from_schema", "rc_bytes_len_boundary", "rc_bytes_padding_not_zero",
	"rc_vector_truncated", "rc_vector_count_not_honoured", "rc_trailing_bytes_unread", "rc_read_past_value",
	"rc_unmarshal_value_differs", "rc_sentinel_field_after_value_differs", "rc_roundtrip_differs",
	"rc_request_decoder_value_differs", "rc_unclassified_panic",
}

// judge: what one decoding attempt gave. wantRest = number of bytes that must be left in the reader.
func (h *c10bH) judge(stage, what, id string, want, got reflect.Value, rest, wantRest int, err error, p string, in []byte, o c10bOpts) bool {
	ok := true
	if p != "" {
		h.fails.addFor("rc_panic_unmarshal", what, "%s [%s]: %s; input %s", id, stage, p, c10bHex(in))
		return false
	}
	if o.n >= 0 && o.primaryPath != "" {
		if vec, found := c10bNavigate(got, o.primaryPath); found && vec.Len() != o.n && (err == nil || vec.Len() > 0) {
			cause := "rc_vector_count_not_honoured"
			if vec.Len() < o.n {
				cause = "rc_vector_truncated"
			}
			h.fails.addFor(cause, what, "%s [%s]: the count on the wire is %d, decoded %s has %d items (err %v, %d bytes unread, %d expected unread); input %s",
				id, stage, o.n, o.primaryPath, vec.Len(), err, rest, wantRest, c10bHex(in))
			ok = false
		}
	}
	if err != nil {
		h.fails.addFor("rc_unmarshal_error", what, "%s [%s]: %v; input %s", id, stage, err, c10bHex(in))
		return false
	}
	if rest > wantRest {
		h.fails.addFor("rc_trailing_bytes_unread", what, "%s [%s]: %d bytes of the value left unread (input %d bytes, of which %d follow the value); input %s", id, stage, rest-wantRest, len(in), wantRest, c10bHex(in))
		ok = false
	}
	if rest < wantRest {
		h.fails.addFor("rc_read_past_value", what, "%s [%s]: %d bytes read past the end of the value; input %s", id, stage, wantRest-rest, c10bHex(in))
		ok = false
	}
	if d := c10bEqual(want, got, what); d != "" {
		h.fails.addFor(o.rcValue, what, "%s [%s]: %s\n    input %s\n    want %s\n    got  %s", id, stage, d, c10bHex(in), c10bGoSyntax(want.Interface()), c10bGoSyntax(got.Interface()))
		ok = false
	}
	return ok
}

func (h *c10bH) check(it *c10bItem, id string, rv reflect.Value, exp []byte, o c10bOpts) {
	h.note(exp)
	what := it.goName
	if o.rcBytes == "" {
		o.rcBytes = "rc_vector_bytes_differ_from_schema"
	}
	if o.rcValue == "" {
		o.rcValue = "rc_unmarshal_value_differs"
	}
	differ := func(stage string, got, want []byte, shift int) {
		cause := o.rcBytes
		if len(got) == len(want) && len(o.pads) > 0 {
			pad := map[int]bool{}
			for _, x := range o.pads {
				pad[x] = true
			}
			only := true
			for i := range got {
				if got[i] != want[i] && !pad[i-shift] {
					only = false
					break
				}
			}
			if only {
				cause = "rc_bytes_padding_not_zero"
			}
		}
		d := c10bFirstDiff(want, got)
		h.fails.addFor(cause, what, "%s [%s]: %d bytes expected, %d produced, first difference at offset %d (expected %s, got %s)\n    expected %s\n    got      %s\n    value %s",
			id, stage, len(want), len(got), d, c10bAround(want, d), c10bAround(got, d), c10bHex(want), c10bHex(got), c10bGoSyntax(rv.Interface()))
	}

	// (a) encode
	got, mErr, p := c10bMarshal(rv.Interface())
	encOK := false
	switch {
	case p != "":
		got = nil
		h.fails.addFor("rc_panic_marshal", what, "%s: %s; value %s", id, p, c10bGoSyntax(rv.Interface()))
	case mErr != nil:
		got = nil
		h.fails.addFor("rc_marshal_error", what, "%s: %v; value %s", id, mErr, c10bGoSyntax(rv.Interface()))
	case !bytes.Equal(got, exp):
		differ("Marshal", got, exp, 0)
	default:
		encOK = true
	}

	// (b) decode the reference bytes, followed by bytes that do not belong to the value
	in := make([]byte, 0, len(exp)+len(c10bSentinel))
	in = append(append(in, exp...), c10bSentinel...)
	ptr := reflect.New(rv.Type())
	rest, err, p := c10bUnmarshal(in, ptr.Interface())
	decOK := h.judge("Unmarshal(expected ++ 12 foreign bytes)", what, id, rv, ptr.Elem(), rest, len(c10bSentinel), err, p, in, o)

	// (c) the value between two fields of a struct: the field AFTER the value must come out right
	wt := reflect.StructOf([]reflect.StructField{
		{Name: "Pre", Type: reflect.TypeOf(uint32(0))},
		{Name: "V", Type: rv.Type()},
		{Name: "Post", Type: reflect.TypeOf(uint64(0))},
	})
	w := reflect.New(wt).Elem()
	w.Field(0).SetUint(uint64(c10bPre))
	w.Field(1).Set(rv)
	w.Field(2).SetUint(c10bPost)
	var wb bytes.Buffer
	wb.Grow(len(exp) + 12)
	c10bLe32(&wb, c10bPre)
	wb.Write(exp)
	c10bLe64(&wb, c10bPost)
	wexp := wb.Bytes()
	var wgot []byte
	p = c10bSafe(func() { wgot, err = tl.Marshal(w.Interface()) })
	switch {
	case p != "":
		h.fails.addFor("rc_panic_marshal", what, "%s [inside struct{Pre uint32; V; Post uint64}]: %s", id, p)
	case err != nil:
		h.fails.addFor("rc_marshal_error", what, "%s [inside struct{Pre uint32; V; Post uint64}]: %v", id, err)
	case !bytes.Equal(wgot, wexp):
		if encOK { // otherwise already reported by (a)
			differ("tl.Marshal(struct{Pre uint32; V; Post uint64})", wgot, wexp, 4)
		}
	}
	wptr := reflect.New(wt)
	wo := o
	if o.primaryPath != "" {
		if i := strings.Index(o.primaryPath, "."); i >= 0 {
			wo.primaryPath = "W.V" + o.primaryPath[i:]
		} else {
			wo.primaryPath = "W.V"
		}
	}
	r := bytes.NewReader(wexp)
	p = c10bSafe(func() { err = tl.Unmarshal(r, wptr.Interface()) })
	if p == "" && err == nil && (wptr.Elem().Field(2).Uint() != c10bPost || wptr.Elem().Field(0).Uint() != uint64(c10bPre)) {
		h.fails.addFor("rc_sentinel_field_after_value_differs", what, "%s: struct{Pre uint32; V; Post uint64} decoded with Pre=%#x Post=%#x, the bytes say Pre=%#x Post=%#x: the field after the value was not read from where the value ends; input %s",
			id, wptr.Elem().Field(0).Uint(), wptr.Elem().Field(2).Uint(), c10bPre, c10bPost, c10bHex(wexp))
		decOK = false
	}
	if !h.judge("tl.Unmarshal(struct{Pre uint32; V; Post uint64})", what, id, w, wptr.Elem(), r.Len(), 0, err, p, wexp, wo) {
		decOK = false
	}

	// (d) decode(encode(v)) == v
	if got != nil {
		if encOK && !decOK {
			h.fails.addFor("rc_roundtrip_differs", what, "%s: Marshal gives the schema's bytes, Unmarshal of these bytes does not give the value back (see the unmarshal failures of this case)", id)
		} else {
			ptr2 := reflect.New(rv.Type())
			rest2, err2, p2 := c10bUnmarshal(got, ptr2.Interface())
			switch {
			case p2 != "":
				h.fails.addFor("rc_panic_unmarshal", what, "%s [Unmarshal(Marshal(v))]: %s; input %s", id, p2, c10bHex(got))
			case err2 != nil || rest2 != 0:
				h.fails.addFor("rc_roundtrip_differs", what, "%s: Unmarshal(Marshal(v)): err %v, %d bytes unread; Marshal gave %s", id, err2, rest2, c10bHex(got))
			default:
				if d := c10bEqual(rv, ptr2.Elem(), what); d != "" {
					h.fails.addFor("rc_roundtrip_differs", what, "%s: Unmarshal(Marshal(v)) != v: %s; Marshal gave %s", id, d, c10bHex(got))
				}
			}
		}
	}
}

// checkRequestDecoder: function id ++ params through the request-id -> decoder table.
func (h *c10bH) checkRequestDecoder(it *c10bItem, id string, rv reflect.Value, exp []byte, o c10bOpts) {
	var q bytes.Buffer
	c10bLe32(&q, it.fn.id())
	q.Write(exp)
	query := q.Bytes()
	var (
		tag  uint32
		name *RequestName
		val  any
		derr error
	)
	if p := c10bSafe(func() { tag, name, val, derr = LiteapiRequestDecoder(append([]byte{}, query...)) }); p != "" {
		h.fails.addFor("rc_panic_unmarshal", it.goName, "%s: LiteapiRequestDecoder %s; input %s", id, p, c10bHex(query))
		return
	}
	if derr != nil || tag != it.fn.id() || name == nil || *name != it.fn.name || val == nil || reflect.TypeOf(val) != rv.Type() {
		nm := "<nil>"
		if name != nil {
			nm = *name
		}
		h.fails.addFor("rc_request_decoder_value_differs", it.goName, "%s: LiteapiRequestDecoder gave tag %08x name %q value %T err %v, want %08x %q %v; input %s", id, tag, nm, val, derr, it.fn.id(), it.fn.name, rv.Type(), c10bHex(query))
		return
	}
	gv := reflect.ValueOf(val)
	if o.n >= 0 {
		pv := reflect.New(gv.Type()).Elem()
		pv.Set(gv)
		if vec, found := c10bNavigate(pv, o.primaryPath); found && vec.Len() < o.n {
			h.fails.addFor("rc_vector_truncated", it.goName, "%s: LiteapiRequestDecoder: the count on the wire is %d, decoded %s has %d items; input %s", id, o.n, o.primaryPath, vec.Len(), c10bHex(query))
			return
		}
	}
	if d := c10bEqual(rv, gv, it.goName); d != "" {
		h.fails.addFor("rc_request_decoder_value_differs", it.goName, "%s: LiteapiRequestDecoder: %s; input %s", id, d, c10bHex(query))
	}
}

func c10bStart(t *testing.T, name string) (*c10bH, *c10bSchema, func()) {
	h := &c10bH{fails: c10bNewFailures(c10bKnownCauses...), distinct: map[[32]byte]struct{}{}}
	start := time.Now()
	finish := func() {
		if r := recover(); r != nil {
			h.fails.add("rc_unclassified_panic", "panic outside the guarded library calls: %v\n%s", r, debug.Stack())
		}
		fmt.Printf("STANDIN-STAT name=%s cases=%d distinct=%d\n", name, h.cases, len(h.distinct))
		t.Logf("%s: %d cases, %d distinct, elapsed %v", name, h.cases, len(h.distinct), time.Since(start).Round(time.Millisecond))
		h.fails.report(t)
	}
	s, err := c10bLoadSchema("lite_api.tl")
	if err != nil {
		h.fails.add("rc_harness_schema_parse", "cannot parse lite_api.tl with the stand-in's own parser: %v", err)
		return h, nil, finish
	}
	return h, s, finish
}

func c10bTLItems() []*c10bItem {
	return []*c10bItem{
		c10bExprItem("vector int", []uint32{}), c10bExprItem("vector int", []int32{}),
		c10bExprItem("vector long", []uint64{}), c10bExprItem("vector long", []int64{}),
		c10bExprItem("vector int256", []tl.Int256{}), c10bExprItem("vector Bool", []bool{}),
		c10bExprItem("vector tonNode.blockIdExt", []TonNodeBlockIdExtC{}),
		c10bExprItem("vector tonNode.blockId", []TonNodeBlockIdC{}),
		c10bExprItem("vector liteServer.transactionId", []LiteServerTransactionIdC{}),
		c10bExprItem("vector liteServer.transactionId3", []LiteServerTransactionId3C{}),
		c10bExprItem("vector liteServer.libraryEntry", []LiteServerLibraryEntryC{}),
		c10bExprItem("vector liteServer.BlockLink", []LiteServerBlockLink{}),
		c10bExprItem("vector bytes", [][]byte{}), c10bExprItem("vector string", []string{}),
		c10bExprItem("vector (vector int)", [][]uint32{}),
	}
}

// ---------------------------------------------------------------------------------------------------------------------

func TestVerifStandin_C10_LargeVectors(t *testing.T) {
	h, s, finish := c10bStart(t, "C10_LargeVectors")
	defer finish()
	if s == nil {
		return
	}
	counts := []int{0, 1, 2, 1023, 1024, 1025, 1026, 2047, 2048, 2049, 4096, 10000}
	if c10bThorough() {
		counts = append(counts, 65535, 65536, 100000)
	}
	var items []*c10bItem
	for _, it := range c10bSchemaItems(s, h.fails) {
		if s.itemReachesVector(it) {
			items = append(items, it)
		}
	}
	// the walk must have found what a plain text search of the schema finds
	direct := 0
	for _, c := range append(append([]*c10bCtor{}, s.types...), s.funcs...) {
		for _, f := range c.fields {
			if f.typ.kind == c10bKVector {
				direct++
				break
			}
		}
	}
	if direct < 13 || len(items) < direct {
		h.fails.add("rc_harness_coverage", "lite_api.tl has %d declarations with a vector field, %d items selected (at least 13 expected)", direct, len(items))
	}
	nSchema := len(items)
	items = append(items, c10bTLItems()...)
	var labels []string
	for _, it := range items {
		labels = append(labels, it.goName)
		for _, n := range counts {
			id := fmt.Sprintf("%s, vector of %d items, seed %d", it.label, n, c10bSeed())
			g := c10bNewGen(s, c10bRng("vec", it.label, n))
			g.primaryN = n
			rv, exp, err := g.build(it)
			if err != nil {
				h.fails.addFor("rc_go_struct_shape_mismatch", it.goName, "%s: %v", id, err)
				break
			}
			if g.primaryN >= 0 || g.primaryPath == "" {
				h.fails.addFor("rc_harness_coverage", it.goName, "%s: no vector met while walking the schema", id)
				break
			}
			o := c10bOpts{n: n, primaryPath: g.primaryPath, pads: g.pads}
			h.check(it, id, rv, exp, o)
			if it.fn != nil {
				h.checkRequestDecoder(it, id, rv, exp, o)
			}
		}
	}
	t.Logf("C10 large vectors: %d schema items + %d tl-level slices x counts %v: %v", nSchema, len(items)-nSchema, counts, labels)
}

func TestVerifStandin_C10_LargeBytes(t *testing.T) {
	h, s, finish := c10bStart(t, "C10_LargeBytes")
	defer finish()
	if s == nil {
		return
	}
	lens := []int{0, 1, 2, 3, 4, 252, 253, 254, 255, 256, 257, 258, 65535, 65536, 65537}
	if c10bThorough() {
		lens = append(lens, 1<<24-1)
	}
	items := c10bSchemaItems(s, h.fails)
	items = append(items, c10bExprItem("bytes", []byte{}), c10bExprItem("string", ""))
	fieldsSeen, itemsWith := map[string]bool{}, 0
	for _, it := range items {
		variants := 1
		if it.boxed != "" {
			variants = len(s.byResult[it.boxed])
		} else if it.expr == nil && s.itemReachesVector(it) {
			variants = 2 // items of vectors may be sum types (liteServer.BlockLink)
		}
		hasBytes := false
		for v := 0; v < variants; v++ {
			mk := func(target, ln int) (*c10bGen, reflect.Value, []byte, error) {
				g := c10bNewGen(s, c10bRng("bytes", it.label, v, target, ln))
				g.allBits, g.fixedVec, g.ctorVariant = true, 1, v
				g.targetIdx, g.targetLen = target, ln
				rv, exp, err := g.build(it)
				return g, rv, exp, err
			}
			probe, _, _, err := mk(-1, 0)
			if err != nil {
				h.fails.addFor("rc_go_struct_shape_mismatch", it.goName, "%s: %v", it.label, err)
				break
			}
			for j := 0; j < probe.bytesIdx; j++ {
				hasBytes = true
				for _, ln := range lens {
					g, rv, exp, err := mk(j, ln)
					if err != nil || g.targetPath == "" {
						h.fails.addFor("rc_harness_coverage", it.goName, "%s: byte string %d not met again: %v", it.label, j, err)
						break
					}
					fieldsSeen[g.targetPath] = true
					id := fmt.Sprintf("%s (constructor variant %d), %s = %d bytes, seed %d", it.label, v, g.targetPath, ln, c10bSeed())
					h.check(it, id, rv, exp, c10bOpts{n: -1, pads: g.pads, rcBytes: "rc_bytes_len_boundary", rcValue: "rc_bytes_len_boundary"})
				}
			}
		}
		if hasBytes {
			itemsWith++
		}
	}
	if itemsWith < 25 || len(fieldsSeen) < 50 {
		h.fails.add("rc_harness_coverage", "only %d items / %d byte-string fields exercised (at least 25 / 50 expected)", itemsWith, len(fieldsSeen))
	}
	t.Logf("C10 large bytes: %d items with byte strings, %d distinct byte-string fields x lengths %v", itemsWith, len(fieldsSeen), lens)
}

func TestVerifStandin_C10_LargeNested(t *testing.T) {
	h, s, finish := c10bStart(t, "C10_LargeNested")
	defer finish()
	if s == nil {
		return
	}
	elemLens := []int{0, 1, 2, 3, 4, 252, 253, 254, 255, 256, 257, 1000}
	innerLens := []int{0, 1, 2, 1023, 1024, 1025, 1026, 2049}
	counts := []int{1025, 2049}
	if c10bThorough() {
		counts = append(counts, 4097)
	}
	// (1) vectors whose items carry byte strings around the length-prefix boundary
	var items []*c10bItem
	for _, it := range c10bSchemaItems(s, h.fails) {
		if s.itemReachesVector(it) {
			items = append(items, it)
		}
	}
	items = append(items, c10bExprItem("vector bytes", [][]byte{}), c10bExprItem("vector string", []string{}),
		c10bExprItem("vector liteServer.libraryEntry", []LiteServerLibraryEntryC{}),
		c10bExprItem("vector liteServer.signature", []LiteServerSignatureC{}),
		c10bExprItem("vector liteServer.shardBlockLink", []LiteServerShardBlockLinkC{}),
		c10bExprItem("vector liteServer.BlockLink", []LiteServerBlockLink{}))
	used := 0
	for _, it := range items {
		for _, n := range counts {
			g := c10bNewGen(s, c10bRng("nested", it.label, n))
			g.primaryN, g.elemLens, g.bigEvery = n, elemLens, 700
			rv, exp, err := g.build(it)
			if err != nil {
				h.fails.addFor("rc_go_struct_shape_mismatch", it.goName, "%s: %v", it.label, err)
				break
			}
			if g.bytesIdx < n { // no byte strings inside the items: LargeVectors has this item already
				break
			}
			used++
			id := fmt.Sprintf("%s, vector of %d items carrying %d byte strings of lengths cycling %v (+65536 every 700th), seed %d", it.label, n, g.bytesIdx, elemLens, c10bSeed())
			o := c10bOpts{n: n, primaryPath: g.primaryPath, pads: g.pads}
			h.check(it, id, rv, exp, o)
			if it.fn != nil {
				h.checkRequestDecoder(it, id, rv, exp, o)
			}
		}
	}
	if used < 8*len(counts) {
		h.fails.add("rc_harness_coverage", "only %d cases of vectors with byte strings in their items", used)
	}
	// (2) vectors of vectors (tl level; lite_api.tl has none), inner counts around the 1024 boundary too
	type vv struct {
		it     *c10bItem
		outers []int
	}
	for _, x := range []vv{
		{c10bExprItem("vector (vector int)", [][]uint32{}), []int{3, 1025, 1026}},
		{c10bExprItem("vector (vector long)", [][]int64{}), []int{9}},
		{c10bExprItem("vector (vector int256)", [][]tl.Int256{}), []int{9}},
		{c10bExprItem("vector (vector tonNode.blockIdExt)", [][]TonNodeBlockIdExtC{}), []int{9}},
		{c10bExprItem("vector (vector liteServer.transactionId)", [][]LiteServerTransactionIdC{}), []int{9}},
		{c10bExprItem("vector (vector bytes)", [][][]byte{}), []int{9}},
		{c10bExprItem("vector (vector (vector int))", [][][]uint32{}), []int{2}},
	} {
		for _, n := range x.outers {
			g := c10bNewGen(s, c10bRng("vv", x.it.label, n))
			g.primaryN, g.innerLens = n, innerLens
			g.innerPos = n // start the cycle somewhere else for every outer count
			if strings.Contains(x.it.label, "(vector (vector (vector") {
				g.innerLens = []int{3, 1025, 2, 0, 1024, 1, 1026} // 2 vectors of 3 and 1025 vectors of 2, 0, 1024, 1 ... items
			}
			rv, exp, err := g.build(x.it)
			if err != nil {
				h.fails.addFor("rc_go_struct_shape_mismatch", x.it.goName, "%s: %v", x.it.label, err)
				break
			}
			id := fmt.Sprintf("%s, %d inner vectors with counts cycling %v from position %d, seed %d", x.it.label, n, g.innerLens, n%len(g.innerLens), c10bSeed())
			h.check(x.it, id, rv, exp, c10bOpts{n: n, primaryPath: g.primaryPath, pads: g.pads})
		}
	}
}

// ---------------------------------------------------------------------------------------------------------------------
// in-memory connection (no network): identity cipher, Write captures the frame and lets a responder answer at once

type c10bIdentStream struct{}

func (c10bIdentStream) XORKeyStream(dst, src []byte) { copy(dst, src) }

type c10bAddr struct{}

func (c10bAddr) Network() string { return "c10b" }
func (c10bAddr) String() string  { return "c10b" }

type c10bConn struct {
	frames  int
	onWrite func(frame []byte)
}

func (c *c10bConn) Read(b []byte) (int, error) { select {} }
func (c *c10bConn) Write(b []byte) (int, error) {
	c.frames++
	if c.onWrite != nil {
		c.onWrite(b)
	}
	return len(b), nil
}
func (c *c10bConn) Close() error                       { return nil }
func (c *c10bConn) LocalAddr() net.Addr                { return c10bAddr{} }
func (c *c10bConn) RemoteAddr() net.Addr               { return c10bAddr{} }
func (c *c10bConn) SetDeadline(t time.Time) error      { return nil }
func (c *c10bConn) SetReadDeadline(t time.Time) error  { return nil }
func (c *c10bConn) SetWriteDeadline(t time.Time) error { return nil }

func TestVerifStandin_C10_LargeClient(t *testing.T) {
	h, s, finish := c10bStart(t, "C10_LargeClient")
	defer finish()
	if s == nil {
		return
	}
	for _, k := range []string{"rc_request_method_missing", "rc_request_frame_bytes_differ", "rc_request_adnl_frame_malformed", "rc_request_frame_count",
		"rc_request_answer_not_delivered", "rc_request_response_value_differs", "rc_request_response_error", "rc_request_method_panics"} {
		h.fails.known = append(h.fails.known, k)
	}
	adnlQ, adnlA, lsQuery := s.byCtor["adnl.message.query"], s.byCtor["adnl.message.answer"], s.extra["liteServer.query"]
	if adnlQ == nil || adnlA == nil || lsQuery == nil {
		h.fails.add("rc_harness_schema_parse", "lite_api.tl lacks adnl.message.query / adnl.message.answer / liteServer.query")
		return
	}
	// adnl.message.query query_id:int256 query:bytes; adnl.message.answer query_id:int256 answer:bytes; liteServer.query data:bytes
	wrap := func(c *c10bCtor, qid []byte, data []byte) []byte {
		var b bytes.Buffer
		b.Grow(len(data) + 48)
		c10bLe32(&b, c.id())
		b.Write(qid)
		c10bTLBytes(&b, data, nil)
		return b.Bytes()
	}
	counts := []int{0, 1, 1024, 1025, 2049, 10000}
	if c10bThorough() {
		counts = append(counts, 65536)
	}
	const maxFrame = 8<<20 - 256 // ADNL packets above 8 MiB are refused by ParsePacket
	fc := &c10bConn{}
	conn := &Connection{
		status: Connected,
		econn:  &encryptedConn{cipher: c10bIdentStream{}, decipher: c10bIdentStream{}, conn: fc},
		pings:  map[uint64]time.Time{},
		resp:   make(chan Packet),
	}
	client := &Client{timeout: 60 * time.Second, connections: []*Connection{conn}, queries: make(map[queryID]chan []byte)}
	reqItems := map[string]*c10bItem{}
	for _, it := range c10bSchemaItems(s, h.fails) {
		if it.fn != nil {
			reqItems[it.fn.name] = it
		}
	}
	ctx := context.Background()
	funcs, skipped := 0, 0
	for _, f := range s.funcs {
		it := reqItems[f.name]
		resType := &c10bType{kind: c10bKBoxed, name: f.result}
		if it == nil || !(s.ctorReachesVector(f) || s.typeReachesVector(resType)) {
			continue
		}
		resGo := s.goNameOfResult(f.result)
		resItem := &c10bItem{label: "answer " + f.result, goName: resGo, goType: c10bGoTypes[resGo], boxed: f.result}
		m := reflect.ValueOf(client).MethodByName(c10bCamel(f.name))
		wantIn := 1
		if len(f.fields) > 0 {
			wantIn = 2
		}
		if resItem.goType == nil || !m.IsValid() || m.Type().NumIn() != wantIn || m.Type().NumOut() != 2 || m.Type().Out(0) != resItem.goType || (wantIn == 2 && m.Type().In(1) != it.goType) {
			h.fails.addFor("rc_request_method_missing", f.name, "%s: (*Client).%s missing or has an unexpected signature", f.name, c10bCamel(f.name))
			continue
		}
		funcs++
		for _, n := range counts {
			id := fmt.Sprintf("%s with vectors of %d items in request / answer %s, seed %d", f.name, n, f.result, c10bSeed())
			g := c10bNewGen(s, c10bRng("client-req", f.name, n))
			g.primaryN = n
			rvReq, params, err := g.build(it)
			if err != nil {
				h.fails.addFor("rc_go_struct_shape_mismatch", it.goName, "%s: %v", id, err)
				break
			}
			ga := c10bNewGen(s, c10bRng("client-ans", f.name, n))
			ga.primaryN = n
			rvResp, answer, err := ga.build(resItem)
			if err != nil {
				h.fails.addFor("rc_go_struct_shape_mismatch", resGo, "%s: %v", id, err)
				break
			}
			var q bytes.Buffer
			c10bLe32(&q, f.id())
			q.Write(params)
			query := q.Bytes()
			if len(query) > maxFrame || len(answer) > maxFrame {
				skipped++
				continue
			}
			h.note(append(append([]byte{}, query...), answer...))
			ok := true
			fc.frames = 0
			fc.onWrite = func(frame []byte) {
				if len(frame) < 4+32+36+32 {
					h.fails.addFor("rc_request_adnl_frame_malformed", f.name, "%s: frame too short: %s", id, c10bHex(frame))
					ok = false
					return
				}
				payload := frame[36 : len(frame)-32]
				sum := sha256.Sum256(frame[4 : len(frame)-32])
				if binary.LittleEndian.Uint32(frame) != uint32(len(frame)-4) || !bytes.Equal(sum[:], frame[len(frame)-32:]) {
					h.fails.addFor("rc_request_adnl_frame_malformed", f.name, "%s: ADNL frame length/checksum wrong: %s", id, c10bHex(frame))
					ok = false
				}
				qid := append([]byte{}, payload[4:36]...)
				exp := wrap(adnlQ, qid, wrap(lsQuery, nil, query))
				if !bytes.Equal(exp, payload) {
					d := c10bFirstDiff(exp, payload)
					h.fails.addFor("rc_request_frame_bytes_differ", f.name, "%s: %d bytes expected, %d written, first difference at offset %d (expected %s, got %s)\n    expected payload %s\n    got              %s",
						id, len(exp), len(payload), d, c10bAround(exp, d), c10bAround(payload, d), c10bHex(exp), c10bHex(payload))
					ok = false
				}
				if err := client.processQueryAnswer(Packet{Payload: wrap(adnlA, qid, answer)}); err != nil {
					h.fails.addFor("rc_request_answer_not_delivered", f.name, "%s: processQueryAnswer: %v", id, err)
					ok = false
				}
			}
			var outs []reflect.Value
			args := []reflect.Value{reflect.ValueOf(ctx)}
			if wantIn == 2 {
				args = append(args, rvReq)
			}
			if p := c10bSafe(func() { outs = m.Call(args) }); p != "" {
				h.fails.addFor("rc_request_method_panics", f.name, "%s: %s; request bytes %s; answer %s", id, p, c10bHex(query), c10bHex(answer))
				ok = false
			}
			fc.onWrite = nil
			if fc.frames != 1 {
				h.fails.addFor("rc_request_frame_count", f.name, "%s: %d frames written to the connection, want 1", id, fc.frames)
				ok = false
			}
			if !ok || len(outs) != 2 {
				continue
			}
			if gotErr, _ := outs[1].Interface().(error); gotErr != nil {
				h.fails.addFor("rc_request_response_error", f.name, "%s: method returned error %v for answer %s", id, gotErr, c10bHex(answer))
				continue
			}
			if ga.primaryPath != "" {
				pv := reflect.New(outs[0].Type()).Elem()
				pv.Set(outs[0])
				if vec, found := c10bNavigate(pv, ga.primaryPath); found && vec.Len() < n {
					h.fails.addFor("rc_vector_truncated", f.name, "%s: the count on the wire is %d, returned %s has %d items; answer %s", id, n, ga.primaryPath, vec.Len(), c10bHex(answer))
					continue
				}
			}
			if d := c10bEqual(rvResp, outs[0], resGo); d != "" {
				h.fails.addFor("rc_request_response_value_differs", f.name, "%s: %s; answer %s", id, d, c10bHex(answer))
			}
		}
	}
	if funcs < 10 {
		h.fails.add("rc_harness_coverage", "only %d client methods with vectors in request or result (at least 10 expected)", funcs)
	}
	t.Logf("C10 large client: %d methods x counts %v, %d cases skipped (frame above the 8 MiB ADNL limit)", funcs, counts, skipped)
}
