//go:build verif

package liteclient

// Bounded stand-in for C08, TL half (labelled bounded, never counted as proved).
// Stands in for: totality of the reflective TL decoder tl.decode / generated UnmarshalTL methods and of the framing helpers
// that sit directly on network data (decodeLength, processQueryAnswer, ParsePacket, LiteapiRequestDecoder), which the
// prover leaves unspecified: "returns a value or an error; never panics, never hangs, never allocates out of proportion".
//
// Bound. Targets: every type of liteclient/generated.go that has an UnmarshalTL method (the hand-collected list is
// checked against the source with go/parser) plus LiteServerSignatureSet of extensions.go. For each target 3 seeds
// (thorough 5) are built by reflection: all mode bits set (every `mode.N?` optional field present), mode 0, random
// mode; every constructor of sum types; vectors of length 0..3; byte strings of length 0..20 and one of 253..300.
// For every seed, the MarshalTL bytes are decoded through tl.Unmarshal after: every truncation, every single-byte
// substitution (quick: 8 values per position: 00 ff fe 7f 80 b^1 b^5a b+1; thorough: ~68: every 4th value, 00 80 fe b^1 b+1), at every offset the 4-byte
// overwrites fe ff ff ff / ff ff ff ff / ff ff ff 7f / 00 00 00 80 / 00 00 00 01 (huge bytes lengths and vector
// counts), and the seed followed by garbage. Request types additionally go through LiteapiRequestDecoder (tag + body).
// Framing helpers: decodeLength on all 1- and 2-byte inputs, all fe-prefixed 4-byte heads and 3000 random inputs,
// compared with an independent reading of the TL length rule; processQueryAnswer on mutated valid answers and random
// payloads of length 0..120; ParsePacket (identity cipher) on every truncation / size-field substitution of a valid
// packet and on random inputs.
// Every case must return within 5 s, without panic, allocating at most 64 MiB (runtime/metrics heap allocs delta).
// Because an over-large `make` is a fatal runtime error (not a recoverable panic), the sweep runs in a child process (the
// test binary re-executed with VERIF_C08TL_CHILD set); when the child dies the parent records the case it was running
// (breadcrumb pipe) as a failure and restarts it after that case; the other mutations of the same bytes (+-3) of the same
// seed are then skipped (they hit the same length / count field) and counted in the log. The child runs under a 2 GiB
// address-space limit so that an unsatisfiable allocation fails at once. Failures are named after the library function
// that panicked / made the largest allocation (heap profile) / was running when the deadline passed.

import (
	"bufio"
	"bytes"
	"encoding/binary"
	"encoding/hex"
	"fmt"
	"go/ast"
	"go/parser"
	"go/token"
	"hash/fnv"
	"io"
	"math/rand"
	"os"
	"os/exec"
	"reflect"
	"regexp"
	"runtime"
	"runtime/debug"
	"runtime/metrics"
	"sort"
	"strconv"
	"strings"
	"syscall"
	"testing"
	"time"

	"github.com/tonkeeper/tongo/tl"
)

const c08tlAllocBound = 64 << 20

func c08tlSeed() int64 {
	if s := os.Getenv("VERIF_SEED"); s != "" {
		if v, err := strconv.ParseInt(s, 10, 64); err == nil {
			return v
		}
	}
	return 1
}

func c08tlThorough() bool { return os.Getenv("VERIF_TIER") == "thorough" }

// c08tlTargets: every generated type with an UnmarshalTL method + the hand-written LiteServerSignatureSet.
func c08tlTargets() []any {
	return []any{
		new(TonNodeBlockIdC), new(TonNodeBlockIdExtC), new(TonNodeZeroStateIdExtC), new(TonNodeShardPublicOverlayIdC),
		new(AdnlMessage), new(LiteServerErrorC), new(LiteServerAccountIdC), new(LiteServerLibraryEntryC),
		new(LiteServerMasterchainInfoC), new(LiteServerMasterchainInfoExtC), new(LiteServerCurrentTimeC),
		new(LiteServerVersionC), new(LiteServerBlockDataC), new(LiteServerBlockStateC), new(LiteServerBlockHeaderC),
		new(LiteServerSendMsgStatusC), new(LiteServerAccountStateC), new(LiteServerRunMethodResultC),
		new(LiteServerShardInfoC), new(LiteServerAllShardsInfoC), new(LiteServerTransactionInfoC),
		new(LiteServerTransactionListC), new(LiteServerTransactionIdC), new(LiteServerTransactionId3C),
		new(LiteServerBlockTransactionsC), new(LiteServerBlockTransactionsExtC), new(LiteServerSignatureC),
		new(LiteServerSignatureSetC), new(LiteServerBlockLink), new(LiteServerPartialBlockProofC),
		new(LiteServerConfigInfoC), new(LiteServerValidatorStatsC), new(LiteServerLibraryResultC),
		new(LiteServerLibraryResultWithProofC), new(LiteServerShardBlockLinkC), new(LiteServerShardBlockProofC),
		new(LiteServerLookupBlockResultC), new(LiteServerOutMsgQueueSizeC), new(LiteServerOutMsgQueueSizesC),
		new(LiteServerAccountDispatchQueueInfoC), new(LiteServerDispatchQueueInfoC), new(LiteProxyRequestRateLimitC),
		new(LiteServerDebugVerbosityC), new(LiteServerGetMasterchainInfoRequest),
		new(LiteServerGetMasterchainInfoExtRequest), new(LiteServerGetTimeRequest), new(LiteServerGetVersionRequest),
		new(LiteServerGetBlockRequest), new(LiteServerGetStateRequest), new(LiteServerGetBlockHeaderRequest),
		new(LiteServerSendMessageRequest), new(LiteServerGetAccountStateRequest),
		new(LiteServerGetAccountStatePrunnedRequest), new(LiteServerRunSmcMethodRequest), new(LiteServerGetShardInfoRequest),
		new(LiteServerGetAllShardsInfoRequest), new(LiteServerGetOneTransactionRequest),
		new(LiteServerGetTransactionsRequest), new(LiteServerLookupBlockRequest), new(LiteServerLookupBlockWithProofRequest),
		new(LiteServerListBlockTransactionsRequest), new(LiteServerListBlockTransactionsExtRequest),
		new(LiteServerGetBlockProofRequest), new(LiteServerGetConfigAllRequest), new(LiteServerGetConfigParamsRequest),
		new(LiteServerGetValidatorStatsRequest), new(LiteServerGetLibrariesRequest),
		new(LiteServerGetLibrariesWithProofRequest), new(LiteServerGetShardBlockProofRequest),
		new(LiteServerGetOutMsgQueueSizesRequest), new(LiteServerGetDispatchQueueInfoRequest),
		new(LiteProxyGetRequestRateLimitRequest),
		new(LiteServerSignatureSet),
	}
}

// c08tlRequestTags reads the request-id table from the source text of generated.go:
//
//	decodeFuncX = decodeRequest(0x6377cf0d, XName, LiteServerGetBlockRequest{})
//
// (cross-decoding a body under every tag to find the right one would itself feed untrusted vector counts to the decoder).
var c08tlDecodeRequestRe = regexp.MustCompile(`decodeRequest\(0x([0-9a-fA-F]+),\s*\w+,\s*(\w+)\{\}\)`)

func c08tlRequestTags() map[string]uint32 {
	src, err := os.ReadFile("generated.go")
	if err != nil {
		panic(err)
	}
	out := map[string]uint32{}
	for _, m := range c08tlDecodeRequestRe.FindAllStringSubmatch(string(src), -1) {
		v, err := strconv.ParseUint(m[1], 16, 32)
		if err == nil {
			out[m[2]] = uint32(v)
		}
	}
	return out
}

var (
	c08tlSumType = reflect.TypeOf(tl.SumType(""))
)

// c08tlFill fills v (addressable) with a value; variant selects mode word / constructor / sizes.
func c08tlFill(rng *rand.Rand, v reflect.Value, fieldName string, variant int) {
	t := v.Type()
	switch t.Kind() {
	case reflect.Uint32:
		if fieldName == "Mode" {
			switch variant % 3 {
			case 0:
				v.SetUint(0xffffffff)
			case 1:
				v.SetUint(0)
			default:
				v.SetUint(uint64(rng.Uint32()))
			}
			return
		}
		v.SetUint(uint64(rng.Uint32()))
	case reflect.Int32:
		v.SetInt(int64(int32(rng.Uint32())))
	case reflect.Uint64:
		v.SetUint(rng.Uint64())
	case reflect.Int64:
		v.SetInt(int64(rng.Uint64()))
	case reflect.Bool:
		v.SetBool(rng.Intn(2) == 1)
	case reflect.String:
		b := make([]byte, rng.Intn(21))
		for i := range b {
			b[i] = byte('a' + rng.Intn(26))
		}
		v.SetString(string(b))
	case reflect.Array:
		for i := 0; i < v.Len(); i++ {
			v.Index(i).SetUint(uint64(rng.Intn(256)))
		}
	case reflect.Slice:
		if t.Elem().Kind() == reflect.Uint8 {
			n := rng.Intn(21)
			if variant%3 == 0 && rng.Intn(4) == 0 {
				n = 253 + rng.Intn(48) // around the 254 escape
			}
			b := make([]byte, n)
			rng.Read(b)
			v.SetBytes(b)
			return
		}
		n := []int{2, 0, 1, 3}[variant%4]
		s := reflect.MakeSlice(t, n, n)
		for i := 0; i < n; i++ {
			c08tlFill(rng, s.Index(i), "", variant+i)
		}
		v.Set(s)
	case reflect.Pointer:
		p := reflect.New(t.Elem())
		c08tlFill(rng, p.Elem(), "", variant)
		v.Set(p)
	case reflect.Struct:
		if f, ok := t.FieldByName("SumType"); ok && f.Type == c08tlSumType {
			var ctors []int
			for i := 0; i < t.NumField(); i++ {
				if t.Field(i).Type != c08tlSumType {
					ctors = append(ctors, i)
				}
			}
			if len(ctors) == 0 {
				return
			}
			i := ctors[variant%len(ctors)]
			v.FieldByName("SumType").SetString(t.Field(i).Name)
			c08tlFill(rng, v.Field(i), "", variant/len(ctors))
			return
		}
		for i := 0; i < t.NumField(); i++ {
			if t.Field(i).IsExported() {
				c08tlFill(rng, v.Field(i), t.Field(i).Name, variant)
			}
		}
	}
}

// ---- case enumeration (identical in parent and child) ----

type c08tlCase struct {
	seedID int    // running number of the seed the case was derived from (0 = none)
	lo, hi int    // byte range [lo,hi) of the seed that the mutation touches (truncation: lo = hi = -1)
	group  string // target type name or helper name
	kind   string // "unmarshal", "request", "decodeLength", "queryAnswer", "parsePacket"
	what   string
	whatf  func() string // lazily built description (mutations); what is used when nil
	typ    reflect.Type
	tag    uint32
	data   func() []byte
	expect func(data []byte, out c08tlOutcome) string // optional oracle; "" = fine
}

func (c c08tlCase) describe() string {
	if c.whatf != nil {
		return c.whatf()
	}
	return c.what
}

type c08tlOutcome struct {
	panicMsg, site string
	hung           bool
	alloc          uint64
	err            error
	n              int    // decodeLength: decoded length
	rest           []byte // decodeLength: rest
}

// c08tlEnumerate calls emit(idx, case) for every case with idx >= start, in a fixed order; whole seeds below start are
// skipped without building their cases.
func c08tlEnumerate(start int, emitFrom func(idx int, c c08tlCase) bool) {
	idx := -1
	emit := func(c c08tlCase) bool {
		idx++
		if idx < start {
			return true
		}
		return emitFrom(idx, c)
	}
	rng := rand.New(rand.NewSource(c08tlSeed()))
	thorough := c08tlThorough()
	nSeeds := 3
	if thorough {
		nSeeds = 5
	}
	subst := func(b byte) []byte {
		if thorough {
			out := make([]byte, 0, 72)
			for v := 0; v < 256; v++ {
				if byte(v) != b && (v%4 == 3 || v == 0 || v == 0xfe || v == 0x80 || byte(v) == b^1 || byte(v) == b+1) {
					out = append(out, byte(v))
				}
			}
			return out
		}
		out := make([]byte, 0, 8)
	next:
		for _, v := range [8]byte{0x00, 0xff, 0xfe, 0x7f, 0x80, b ^ 1, b ^ 0x5a, b + 1} {
			if v == b {
				continue
			}
			for _, o := range out {
				if o == v {
					continue next
				}
			}
			out = append(out, v)
		}
		return out
	}
	overwrites := [][]byte{{0xfe, 0xff, 0xff, 0xff}, {0xff, 0xff, 0xff, 0xff}, {0xff, 0xff, 0xff, 0x7f}, {0, 0, 0, 0x80}, {0, 0, 0, 1}}

	seedCounter := 0
	mutate := func(base c08tlCase, seed []byte, prefix []byte) bool {
		seedCounter++
		n := 1 + len(seed) + 5
		for _, b := range seed {
			n += len(subst(b))
		}
		if len(seed) >= 4 {
			n += 5 * (len(seed) - 3)
		}
		if idx+n < start {
			idx += n
			return true
		}
		full := func(body []byte) []byte { return append(append([]byte{}, prefix...), body...) }
		lo, hi := -1, -1
		mk := func(what func() string, f func() []byte) bool {
			c := base
			c.seedID, c.lo, c.hi = seedCounter, lo, hi
			c.whatf = what
			c.data = func() []byte { return full(f()) }
			return emit(c)
		}
		if !mk(func() string { return "seed unchanged" }, func() []byte { return seed }) {
			return false
		}
		for n := 0; n < len(seed); n++ {
			n := n
			if !mk(func() string { return fmt.Sprintf("truncated to %d of %d bytes", n, len(seed)) }, func() []byte { return seed[:n] }) {
				return false
			}
		}
		for pos := 0; pos < len(seed); pos++ {
			lo, hi = pos, pos+1
			for _, nv := range subst(seed[pos]) {
				pos, nv := pos, nv
				if !mk(func() string { return fmt.Sprintf("byte %d := %#02x", pos, nv) }, func() []byte {
					m := append([]byte{}, seed...)
					m[pos] = nv
					return m
				}) {
					return false
				}
			}
		}
		for pos := 0; pos+4 <= len(seed); pos++ {
			lo, hi = pos, pos+4
			for _, ow := range overwrites {
				pos, ow := pos, ow
				if !mk(func() string { return fmt.Sprintf("bytes %d..%d := %x", pos, pos+3, ow) }, func() []byte {
					m := append([]byte{}, seed...)
					copy(m[pos:], ow)
					return m
				}) {
					return false
				}
			}
		}
		lo, hi = -1, -1
		for _, ow := range overwrites {
			ow := ow
			if !mk(func() string { return fmt.Sprintf("seed followed by %x", ow) }, func() []byte { return append(append([]byte{}, seed...), ow...) }) {
				return false
			}
		}
		return true
	}

	reqTags := c08tlRequestTags()
	for _, p := range c08tlTargets() {
		typ := reflect.TypeOf(p).Elem()
		isReq := strings.HasSuffix(typ.Name(), "Request")
		for s := 0; s < nSeeds; s++ {
			v := reflect.New(typ)
			c08tlFill(rng, v.Elem(), "", s)
			var seed []byte
			var merr error
			func() {
				defer func() {
					if r := recover(); r != nil {
						merr = fmt.Errorf("panic: %v", r)
					}
				}()
				seed, merr = tl.Marshal(v.Elem().Interface())
			}()
			if merr != nil {
				seed = nil
			}
			base := c08tlCase{group: typ.Name(), kind: "unmarshal", typ: typ}
			if s == 0 {
				// the valid encoding must decode (sanity of the seed builder)
				base.expect = nil
			}
			if !mutate(base, seed, nil) {
				return
			}
			if isReq {
				if tag, ok := reqTags[typ.Name()]; ok {
					rb := c08tlCase{group: typ.Name(), kind: "request", typ: typ, tag: tag}
					if !mutate(rb, seed, binary.LittleEndian.AppendUint32(nil, tag)) {
						return
					}
				}
			}
		}
	}

	// ---- framing helpers ----
	// decodeLength against the TL rule: first byte < 254: that length, rest after 1 byte; 254: 3-byte LE length, rest
	// after 4 bytes; 255 or too short: error.
	dlExpect := func(data []byte, o c08tlOutcome) string {
		var wantErr bool
		var wantN int
		var wantRest []byte
		switch {
		case len(data) == 0 || data[0] == 255:
			wantErr = true
		case data[0] < 254:
			wantN, wantRest = int(data[0]), data[1:]
		case len(data) < 4:
			wantErr = true
		default:
			wantN, wantRest = int(data[1])|int(data[2])<<8|int(data[3])<<16, data[4:]
		}
		if wantErr {
			if o.err == nil {
				return "error expected"
			}
			return ""
		}
		if o.err != nil {
			return "unexpected error " + o.err.Error()
		}
		if o.n != wantN || !bytes.Equal(o.rest, wantRest) {
			return fmt.Sprintf("got length %d rest %x, want %d rest %x", o.n, o.rest, wantN, wantRest)
		}
		return ""
	}
	dl := func(what string, b []byte) bool {
		return emit(c08tlCase{group: "decodeLength", kind: "decodeLength", what: what, data: func() []byte { return b }, expect: dlExpect})
	}
	if !dl("empty", nil) {
		return
	}
	for a := 0; a < 256; a++ {
		if !dl("one byte", []byte{byte(a)}) {
			return
		}
		for _, b := range []byte{0, 1, 0xfe, 0xff} {
			if !dl("two bytes", []byte{byte(a), b}) || !dl("three bytes", []byte{byte(a), b, b}) {
				return
			}
			for _, c := range []byte{0, 0x7f, 0xff} {
				if !dl("four bytes", []byte{byte(a), b, c, c}) || !dl("five bytes", []byte{byte(a), b, c, c, 1}) {
					return
				}
			}
		}
	}
	for i := 0; i < 3000; i++ {
		b := make([]byte, rng.Intn(12))
		rng.Read(b)
		if len(b) > 0 && rng.Intn(3) == 0 {
			b[0] = 0xfe
		}
		if !dl("random", b) {
			return
		}
	}

	// processQueryAnswer: payload = magic(4) query_id(32) answer:bytes
	var qid [32]byte
	rng.Read(qid[:])
	mkAnswer := func(n int) []byte {
		b := binary.LittleEndian.AppendUint32(nil, magicADNLAnswer)
		b = append(b, qid[:]...)
		body := make([]byte, n)
		rng.Read(body)
		b = append(b, tl.EncodeLength(n)...)
		b = append(b, body...)
		for len(b)%4 != 0 {
			b = append(b, 0)
		}
		return b
	}
	qa := c08tlCase{group: "processQueryAnswer", kind: "queryAnswer"}
	for _, n := range []int{0, 1, 3, 253, 254, 255, 300} {
		if !mutate(qa, mkAnswer(n), nil) {
			return
		}
	}
	for i := 0; i < 2000; i++ {
		b := make([]byte, rng.Intn(121))
		rng.Read(b)
		if len(b) >= 36 && rng.Intn(2) == 0 {
			copy(b[4:36], qid[:])
		}
		c := qa
		c.what = "random payload"
		c.data = func() []byte { return b }
		if !emit(c) {
			return
		}
	}

	// ParsePacket with the identity cipher
	pp := c08tlCase{group: "ParsePacket", kind: "parsePacket"}
	for _, n := range []int{0, 1, 4, 36, 100} {
		payload := make([]byte, n)
		rng.Read(payload)
		pkt := Packet{Payload: payload}
		rng.Read(pkt.nonce[:])
		wire := pkt.marshal()
		c := pp
		c.what = "valid packet"
		c.data = func() []byte { return wire }
		c.expect = func(data []byte, o c08tlOutcome) string {
			if o.err != nil {
				return "valid packet rejected: " + o.err.Error()
			}
			return ""
		}
		if !emit(c) {
			return
		}
		if !mutate(pp, wire, nil) {
			return
		}
	}
	for i := 0; i < 2000; i++ {
		b := make([]byte, rng.Intn(200))
		rng.Read(b)
		if len(b) >= 4 && rng.Intn(2) == 0 {
			binary.LittleEndian.PutUint32(b, uint32(64+rng.Intn(200)))
		}
		c := pp
		c.what = "random input"
		c.data = func() []byte { return b }
		if !emit(c) {
			return
		}
	}
	for _, sz := range []uint32{0, 63, 64, 8 << 20, 8<<20 + 1, 0x7fffffff, 0x80000000, 0xffffffff} {
		b := binary.LittleEndian.AppendUint32(nil, sz)
		b = append(b, make([]byte, 100)...)
		c := pp
		c.what = fmt.Sprintf("size field %d, 100 bytes follow", sz)
		c.data = func() []byte { return b }
		if !emit(c) {
			return
		}
	}
}

// ---- executing one case (child side) ----

type c08tlIdentity struct{}

func (c08tlIdentity) XORKeyStream(dst, src []byte) { copy(dst, src) }

var c08tlAllocSample = []metrics.Sample{{Name: "/gc/heap/allocs:bytes"}}

func c08tlAllocNow() uint64 {
	metrics.Read(c08tlAllocSample)
	if c08tlAllocSample[0].Value.Kind() == metrics.KindUint64 {
		return c08tlAllocSample[0].Value.Uint64()
	}
	return 0
}

func c08tlPanicSite(stack string) string {
	lines := strings.Split(stack, "\n")
	start := 0
	for i, l := range lines {
		if strings.HasPrefix(l, "panic(") {
			start = i
		}
	}
	for i := start; i+1 < len(lines); i++ {
		l := lines[i]
		if !strings.HasPrefix(l, "github.com/tonkeeper/tongo/") || strings.Contains(l, "c08tl") {
			continue
		}
		fn := l
		if j := strings.LastIndex(fn, "("); j > 0 {
			fn = fn[:j]
		}
		fn = strings.TrimPrefix(fn, "github.com/tonkeeper/tongo/")
		loc := strings.TrimSpace(lines[i+1])
		if j := strings.Index(loc, " +0x"); j > 0 {
			loc = loc[:j]
		}
		return fn + " @ " + loc
	}
	return "unknown"
}

// c08tlConfirm: the child re-runs a case on which an earlier child hung or ran out of memory. A hang or an
// out-of-memory death is only reported when it repeats in a fresh process with a 60 s limit and a 6 GiB address
// space: on a loaded machine a starved decode (or a garbage collector that fell behind under the 2 GiB limit) would
// otherwise be reported as a defect of the code.
func c08tlConfirm() bool { return os.Getenv("VERIF_C08TL_CONFIRM") == "1" }

func c08tlHangAfter() time.Duration {
	if c08tlConfirm() {
		return 60 * time.Second
	}
	return 5 * time.Second
}

func c08tlExec(c c08tlCase, data []byte) c08tlOutcome {
	done := make(chan c08tlOutcome, 1)
	before := c08tlAllocNow()
	go func() {
		var o c08tlOutcome
		defer func() {
			if p := recover(); p != nil {
				o.panicMsg = fmt.Sprintf("%v", p)
				o.site = c08tlPanicSite(string(debug.Stack()))
			}
			done <- o
		}()
		switch c.kind {
		case "unmarshal":
			o.err = tl.Unmarshal(bytes.NewReader(data), reflect.New(c.typ).Interface())
		case "request":
			_, name, _, err := LiteapiRequestDecoder(data)
			o.err = err
			if err == nil && name == nil {
				o.err = fmt.Errorf("nil request name without error")
			}
		case "decodeLength":
			in := append([]byte{}, data...)
			o.n, o.rest, o.err = decodeLength(in)
			if !bytes.Equal(in, data) {
				o.err = fmt.Errorf("decodeLength modified its input: %x -> %x", data, in)
				o.panicMsg = o.err.Error()
				o.site = "liteclient.decodeLength @ input modified"
			}
		case "queryAnswer":
			cl := &Client{queries: map[queryID]chan []byte{}}
			if len(data) >= 36 {
				var id queryID
				copy(id[:], data[4:36])
				cl.queries[id] = make(chan []byte, 1)
			}
			o.err = cl.processQueryAnswer(Packet{Payload: data})
		case "parsePacket":
			_, o.err = ParsePacket(bytes.NewReader(data), c08tlIdentity{})
		}
	}()
	timer := time.NewTimer(c08tlHangAfter())
	defer timer.Stop()
	select {
	case o := <-done:
		o.alloc = c08tlAllocNow() - before
		return o
	case <-timer.C:
		return c08tlOutcome{hung: true}
	}
}

var c08tlNameRe = regexp.MustCompile(`[^A-Za-z0-9_.]+`)

func c08tlSanitize(s string) string { return strings.Trim(c08tlNameRe.ReplaceAllString(s, "_"), "_") }

func c08tlHex(b []byte) string {
	if len(b) > 700 {
		return hex.EncodeToString(b[:700]) + fmt.Sprintf("...(%d bytes)", len(b))
	}
	return hex.EncodeToString(b)
}

// c08tlSkipRange: cases derived from seed seedID whose touched bytes intersect [lo,hi) are not run (a previous case there
// killed the process).
type c08tlSkipRange struct{ seedID, lo, hi int }

func c08tlParseSkips(s string) []c08tlSkipRange {
	var out []c08tlSkipRange
	for _, item := range strings.Split(s, ",") {
		var r c08tlSkipRange
		if n, _ := fmt.Sscanf(item, "%d:%d:%d", &r.seedID, &r.lo, &r.hi); n == 3 {
			out = append(out, r)
		}
	}
	return out
}

func c08tlSkipped(c c08tlCase, skips []c08tlSkipRange) bool {
	for _, r := range skips {
		if r.seedID == c.seedID && c.lo < r.hi && r.lo < c.hi {
			return true
		}
	}
	return false
}

// c08tlBigAllocSite names the allocation site (first library frame) whose sampled bytes grew most since the last call.
var c08tlProfSeen = map[[32]uintptr]int64{}

func c08tlBigAllocSite() string {
	runtime.GC()
	runtime.GC()
	n, _ := runtime.MemProfile(nil, true)
	recs := make([]runtime.MemProfileRecord, n+50)
	n, ok := runtime.MemProfile(recs, true)
	if !ok {
		return "unknown"
	}
	var best *runtime.MemProfileRecord
	var bestDelta int64
	for i := range recs[:n] {
		r := &recs[i]
		d := r.AllocBytes - c08tlProfSeen[r.Stack0]
		c08tlProfSeen[r.Stack0] = r.AllocBytes
		if d > bestDelta {
			best, bestDelta = r, d
		}
	}
	if best == nil {
		return "unknown"
	}
	frames := runtime.CallersFrames(best.Stack())
	for {
		f, more := frames.Next()
		if strings.HasPrefix(f.Function, "github.com/tonkeeper/tongo/") && !strings.Contains(f.Function, "c08tl") {
			return strings.TrimPrefix(f.Function, "github.com/tonkeeper/tongo/")
		}
		if !more {
			break
		}
	}
	return "unknown"
}

// c08tlHangSite finds the first library frame of the goroutine that is still running the case.
func c08tlHangSite() string {
	buf := make([]byte, 1<<20)
	buf = buf[:runtime.Stack(buf, true)]
	for _, g := range strings.Split(string(buf), "\n\n") {
		if !strings.Contains(g, "c08tlExec.func") {
			continue
		}
		for _, l := range strings.Split(g, "\n") {
			if strings.HasPrefix(l, "github.com/tonkeeper/tongo/") && !strings.Contains(l, "c08tl") {
				if j := strings.LastIndex(l, "("); j > 0 {
					l = l[:j]
				}
				return strings.TrimPrefix(l, "github.com/tonkeeper/tongo/")
			}
		}
	}
	return "unknown"
}

// child: runs cases [start, ...), skipping the ranges listed in VERIF_C08TL_SKIP; reports on fd 3:
//
//	B <idx>            about to run case idx
//	F <cause>\t<msg>   failure
//	H <idx>            case idx did not return: the child exits (the stuck goroutine cannot be stopped)
//	D <n>              enumeration finished
func c08tlChild() {
	start, _ := strconv.Atoi(os.Getenv("VERIF_C08TL_CHILD"))
	skips := c08tlParseSkips(os.Getenv("VERIF_C08TL_SKIP"))
	out := os.NewFile(3, "report")
	if out == nil {
		fmt.Fprintln(os.Stderr, "c08tl child: no report pipe")
		os.Exit(3)
	}
	// An allocation that cannot be satisfied is a fatal runtime error either way; a 2 GiB address-space limit makes it
	// fail at once instead of after the kernel has mapped tens of gigabytes.
	lim := syscall.Rlimit{Cur: 2 << 30, Max: 2 << 30}
	if c08tlConfirm() {
		lim = syscall.Rlimit{Cur: 6 << 30, Max: 6 << 30}
	}
	_ = syscall.Setrlimit(syscall.RLIMIT_AS, &lim)
	runtime.MemProfileRate = 1 << 20
	total := 0
	var crumb [24]byte
	c08tlEnumerate(start, func(idx int, c c08tlCase) bool {
		total = idx + 1
		if c.seedID != 0 && c08tlSkipped(c, skips) {
			return true
		}
		line := strconv.AppendInt(append(crumb[:0], 'B', ' '), int64(idx), 10)
		line = append(line, '\n')
		_, _ = out.Write(line)
		data := c.data()
		o := c08tlExec(c, data)
		fail := func(cause, msg string) {
			msg = strings.ReplaceAll(msg, "\n", " | ")
			fmt.Fprintf(out, "F %s\t%s\n", cause, msg)
		}
		desc := fmt.Sprintf("%s %s (%s), input %s", c.kind, c.group, c.describe(), c08tlHex(data))
		switch {
		case o.hung:
			if c08tlConfirm() {
				site := c08tlHangSite()
				fail("rc_hang_"+c08tlSanitize(site), desc+": no result within 5 s, and none within 60 s in a fresh process (stuck in "+site+")")
			}
			fmt.Fprintf(out, "H %d\n", idx)
			_ = out.Close()
			os.Exit(0)
		case o.panicMsg != "":
			fail("rc_panic_"+c08tlSanitize(strings.SplitN(o.site, " @ ", 2)[0]), fmt.Sprintf("%s: panic: %s (at %s)", desc, o.panicMsg, o.site))
		case o.alloc > c08tlAllocBound:
			site := c08tlBigAllocSite()
			fail("rc_alloc_"+c08tlSanitize(site), fmt.Sprintf("%s: allocated %d bytes for %d input bytes (largest allocation in %s)", desc, o.alloc, len(data), site))
		default:
			if c.expect != nil {
				if s := c.expect(data, o); s != "" {
					fail("rc_"+c08tlSanitize(c.kind)+"_wrong_result", desc+": "+s)
				}
			}
		}
		return true
	})
	fmt.Fprintf(out, "D %d\n", total)
	_ = out.Close()
}

type c08tlFails struct {
	byCause map[string][]string
	count   map[string]int
	known   []string
}

func (f *c08tlFails) add(cause, msg string) {
	f.count[cause]++
	if len(f.byCause[cause]) < 6 {
		if len(msg) > 1800 {
			msg = msg[:1800] + "...(truncated)"
		}
		f.byCause[cause] = append(f.byCause[cause], msg)
	}
}

func (f *c08tlFails) report(t *testing.T) {
	names := map[string]bool{}
	for _, k := range f.known {
		names[k] = true
	}
	for k := range f.count {
		names[k] = true
	}
	var sorted []string
	for k := range names {
		sorted = append(sorted, k)
	}
	sort.Strings(sorted)
	for _, k := range sorted {
		k := k
		t.Run(k, func(t *testing.T) {
			if f.count[k] == 0 {
				return
			}
			t.Errorf("%d failing case(s); first %d:", f.count[k], len(f.byCause[k]))
			for _, m := range f.byCause[k] {
				t.Errorf("  %s", m)
			}
		})
	}
}

// c08tlUnmarshalTypes parses generated.go and returns the receiver type names of all UnmarshalTL methods.
func c08tlUnmarshalTypes(t *testing.T) []string {
	fset := token.NewFileSet()
	f, err := parser.ParseFile(fset, "generated.go", nil, 0)
	if err != nil {
		t.Fatalf("parse generated.go: %v", err)
	}
	var out []string
	for _, d := range f.Decls {
		fd, ok := d.(*ast.FuncDecl)
		if !ok || fd.Recv == nil || fd.Name.Name != "UnmarshalTL" || len(fd.Recv.List) != 1 {
			continue
		}
		if st, ok := fd.Recv.List[0].Type.(*ast.StarExpr); ok {
			if id, ok := st.X.(*ast.Ident); ok {
				out = append(out, id.Name)
			}
		}
	}
	return out
}

func TestVerifStandin_C08_TL(t *testing.T) {
	if os.Getenv("VERIF_C08TL_CHILD") != "" {
		c08tlChild()
		return
	}
	fails := &c08tlFails{byCause: map[string][]string{}, count: map[string]int{}, known: []string{"rc_type_list_incomplete", "rc_seed_not_accepted", "rc_fatal_out_of_memory_tl.decodeVector"}}

	// the hand-collected list covers generated.go
	listed := map[string]bool{}
	for _, p := range c08tlTargets() {
		listed[reflect.TypeOf(p).Elem().Name()] = true
	}
	for _, name := range c08tlUnmarshalTypes(t) {
		if !listed[name] {
			fails.add("rc_type_list_incomplete", "type "+name+" of generated.go has UnmarshalTL but is not in the C08 target list")
		}
	}

	// parent-side pass over the enumeration (nothing is kept but a hash per case, for the distinct count); the unchanged
	// seeds are also decoded here (in-process, they are valid encodings) as a sanity check of the seed builder.
	var hashes []uint64
	c08tlEnumerate(0, func(_ int, c c08tlCase) bool {
		h := fnv.New64a()
		_, _ = io.WriteString(h, c.kind+"|"+c.group+"|")
		_, _ = h.Write(c.data())
		hashes = append(hashes, h.Sum64())
		if c.kind == "unmarshal" && c.lo < 0 && c.describe() == "seed unchanged" {
			if o := c08tlExec(c, c.data()); o.err != nil || o.panicMsg != "" {
				fails.add("rc_seed_not_accepted", fmt.Sprintf("MarshalTL output of %s is not accepted by UnmarshalTL: err=%v panic=%q input %s", c.group, o.err, o.panicMsg, c08tlHex(c.data())))
			}
		}
		return true
	})
	nCases := len(hashes)
	// caseAt re-enumerates to fetch case idx and counts the later cases of the same seed that touch [lo-3, hi+3)
	caseAt := func(idx int) (c c08tlCase, sameField int) {
		c08tlEnumerate(idx, func(i int, x c08tlCase) bool {
			if i == idx {
				c = x
				return c.seedID != 0 && c.lo >= 0
			}
			if x.seedID != c.seedID {
				return false
			}
			if x.lo < c.hi+3 && c.lo-3 < x.hi {
				sameField++
			}
			return true
		})
		return
	}

	executed := 0
	distinct := map[uint64]struct{}{}
	defer func() { fmt.Printf("STANDIN-STAT name=c08_tl cases=%d distinct=%d\n", executed, len(distinct)) }()
	start := 0
	var skips []string
	skippedCases := 0
	kills := map[string]int{}
	deadline := time.Now().Add(8 * time.Minute)
	confirming := false // the next child re-runs, with relaxed limits, the case on which the previous one hung / ran out of memory
	for restarts := 0; ; restarts++ {
		if restarts > 1500 || time.Now().After(deadline) {
			fails.add("rc_sweep_aborted", fmt.Sprintf("sweep stopped at case %d of %d after %d child restarts", start, nCases, restarts))
			break
		}
		pr, pw, err := os.Pipe()
		if err != nil {
			t.Fatal(err)
		}
		cmd := exec.Command(os.Args[0], "-test.run=^TestVerifStandin_C08_TL$", "-test.count=1", "-test.timeout=9m")
		cmd.Env = append(os.Environ(), "VERIF_C08TL_CHILD="+strconv.Itoa(start), "VERIF_C08TL_SKIP="+strings.Join(skips, ","))
		if confirming {
			cmd.Env = append(cmd.Env, "VERIF_C08TL_CONFIRM=1")
		}
		cmd.ExtraFiles = []*os.File{pw}
		var stderr bytes.Buffer
		cmd.Stdout = &stderr
		cmd.Stderr = &stderr
		if err := cmd.Start(); err != nil {
			t.Fatalf("cannot start child: %v", err)
		}
		_ = pw.Close()
		last, done, hung := start-1, false, false
		sc := bufio.NewScanner(pr)
		sc.Buffer(make([]byte, 1<<20), 1<<24)
		for sc.Scan() {
			line := sc.Text()
			switch {
			case strings.HasPrefix(line, "B "):
				last, _ = strconv.Atoi(line[2:])
				executed++
				if last < nCases {
					distinct[hashes[last]] = struct{}{}
				}
			case strings.HasPrefix(line, "F "):
				parts := strings.SplitN(line[2:], "\t", 2)
				if len(parts) == 2 {
					fails.add(parts[0], parts[1])
				}
			case strings.HasPrefix(line, "H "):
				hung = true
			case strings.HasPrefix(line, "D "):
				done = true
			}
		}
		_ = pr.Close()
		waitErr := cmd.Wait()
		if done {
			break
		}
		if last < start || last >= nCases {
			fails.add("rc_sweep_aborted", fmt.Sprintf("child died before its first case (start %d, last %d): %v: %s", start, last, waitErr, strings.ReplaceAll(c08tlHead(stderr.String(), 12), "\n", " | ")))
			break
		}
		// the child died (or gave up) while running case `last`
		ci, sameField := caseAt(last)
		wasConfirming := confirming
		confirming = false
		if !wasConfirming {
			oom := false
			if !hung {
				r, _ := c08tlFatal(stderr.String())
				oom = strings.Contains(r, "out of memory")
			}
			if hung || oom {
				confirming = true
				start = last
				continue
			}
		}
		if !hung {
			reason, site := c08tlFatal(stderr.String())
			if reason == "unknown" {
				t.Logf("child died for an unrecognised reason (%v); its output ends with:\n%s", waitErr, c08tlHead(stderr.String(), 12))
			}
			cause := "rc_fatal_" + c08tlSanitize(reason) + "_" + c08tlSanitize(site)
			fails.add(cause, fmt.Sprintf("%s %s (%s), input %s: the process died: %s (first library frame: %s)", ci.kind, ci.group, ci.describe(), c08tlHex(ci.data()), reason, site))
		}
		kills[ci.group]++
		if ci.seedID != 0 && ci.lo >= 0 {
			// do not replay the other mutations of the same bytes (same length / count field) of this seed
			lo, hi := ci.lo-3, ci.hi+3
			skips = append(skips, fmt.Sprintf("%d:%d:%d", ci.seedID, lo, hi))
			skippedCases += sameField
		}
		start = last + 1
	}
	var ks []string
	for g, n := range kills {
		ks = append(ks, fmt.Sprintf("%s=%d", g, n))
	}
	sort.Strings(ks)
	t.Logf("enumerated %d cases, executed %d; cases that killed or hung the child per target: %s", nCases, executed, strings.Join(ks, " "))
	if skippedCases > 0 {
		t.Logf("cases not executed because they mutate the same bytes of the same seed as a case that killed the child (counted with overlaps): %d", skippedCases)
	}
	fails.report(t)
}

func c08tlHead(s string, n int) string {
	lines := strings.Split(s, "\n")
	if len(lines) > n {
		lines = lines[:n]
	}
	return strings.Join(lines, "\n")
}

func c08tlTail(s string, n int) string {
	lines := strings.Split(strings.TrimRight(s, "\n"), "\n")
	if len(lines) > n {
		lines = lines[len(lines)-n:]
	}
	return strings.Join(lines, "\n")
}

// c08tlFatal extracts the fatal error text and the first non-test library frame of the goroutine that was running the case
// from the child's output.
func c08tlFatal(stderr string) (reason, site string) {
	reason, site = "unknown", "unknown"
	lines := strings.Split(stderr, "\n")
	for _, l := range lines {
		if strings.HasPrefix(l, "fatal error: ") {
			reason = strings.TrimPrefix(strings.TrimPrefix(l, "fatal error: "), "runtime: ")
			break
		}
		if strings.Contains(l, "pthread_create failed") {
			// a thread could not be created because a huge allocation had just used up the 2 GiB address-space limit
			reason = "out of memory"
			break
		}
		if strings.HasPrefix(l, "panic: ") && reason == "unknown" {
			reason = l
		}
	}
	frame := func(block string) string {
		for _, l := range strings.Split(block, "\n") {
			if strings.HasPrefix(l, "github.com/tonkeeper/tongo/") && !strings.Contains(l, "c08tl") && !strings.Contains(l, ".TestVerifStandin") {
				if j := strings.LastIndex(l, "("); j > 0 {
					l = l[:j]
				}
				return strings.TrimPrefix(l, "github.com/tonkeeper/tongo/")
			}
		}
		return ""
	}
	for _, g := range strings.Split(stderr, "\n\n") {
		if strings.Contains(g, "c08tlExec.func") {
			if f := frame(g); f != "" {
				return reason, f
			}
		}
	}
	if f := frame(stderr); f != "" {
		site = f
	}
	return
}
