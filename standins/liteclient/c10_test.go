//go:build verif

package liteclient

// Bounded stand-in for C10 (labelled bounded, never counted as proved): the lite-server bindings speak exactly the wire
// format of lite_api.tl, and the checked-in generated files are what the repository's generators produce.
//
// Oracle: lite_api.tl is PARSED HERE (own line parser, own CRC32 id computation) and an independent TL serializer written
// from the TL rules produces the expected bytes while a Go value of the binding type is filled by reflection (TL names
// mapped to Go names the way the generator names them). MarshalTL is never used to obtain expected bytes.
//
// Bound (quick / thorough):
//   * every constructor of the types section, every multi-constructor type as a boxed sum type (each constructor), the
//     hand-written boxed LiteServerSignatureSet, every function's <Name>Request struct: 120 / 8000 random values each, at
//     least 2 x (number of mode-bit combinations); top-level mode words run through ALL combinations of the bits that
//     guard optional fields (other bits random); nested mode words random
//   * byte strings: every length 0..1100 once (global schedule spread over the cases), 253..257, 65535..65537, afterwards
//     random (mostly < 64, around 254, sometimes up to 1100); 2^24-1 and 2^24 in their own sub-tests
//   * vectors: the first vector of case i has i mod (N+1) items, others random 0..N, N = 8 / 20
//   * both directions: Marshal(v) == expected; Unmarshal(expected) == v, consuming all bytes
//   * request path: every (*Client).<Function> method is called (12 / 600 times) on a Client whose connection is an
//     in-memory fake (identity cipher, no network); the ADNL frame written to the connection is compared with
//     adnl.message.query(liteServer.query(function id + params)) from the schema; the fake answers with a random boxed
//     response of the function's result type (or liteServer.error) and the returned value is compared
//   * request-id -> decoder table: exactly the schema's function ids; LiteapiRequestDecoder(expected) == request value
//   * hand-written TL types: ton.BlockIDExt, ton.AccountID and the converters of extensions.go (120 / 8000 values each)
//   * mode bit set with nil optional pointer (error, not panic), mode bit clear with non-nil optional (omitted)
//   * Regenerate: `go run generator.go` for liteclient (lite_api.tl -> generated.go) and tlb (-> integers.go) in a temp
//     module that replaces github.com/tonkeeper/tongo by the repository; output compared after go/format.

import (
	"bytes"
	"context"
	"crypto/sha256"
	"encoding/binary"
	"encoding/hex"
	"fmt"
	"go/ast"
	"go/format"
	goparser "go/parser"
	"go/token"
	"hash/crc32"
	"io"
	"math/rand"
	"net"
	"os"
	"os/exec"
	"path/filepath"
	"reflect"
	"regexp"
	"runtime/debug"
	"sort"
	"strconv"
	"strings"
	"testing"
	"testing/iotest"
	"time"

	"github.com/tonkeeper/tongo/tl"
	"github.com/tonkeeper/tongo/ton"
)

// ---------------------------------------------------------------------------------------------------------------------
// environment, failure collector

func c10Seed() int64 {
	if v, err := strconv.ParseInt(os.Getenv("VERIF_SEED"), 10, 64); err == nil {
		return v
	}
	return 1
}

func c10Thorough() bool { return os.Getenv("VERIF_TIER") == "thorough" }

type c10Failures struct {
	byCause map[string][]string
	count   map[string]int
	known   []string
}

func c10NewFailures(known ...string) *c10Failures {
	return &c10Failures{byCause: map[string][]string{}, count: map[string]int{}, known: known}
}

func (f *c10Failures) add(cause, format string, args ...any) {
	f.count[cause]++
	if len(f.byCause[cause]) < 12 {
		msg := fmt.Sprintf(format, args...)
		if len(msg) > 1800 {
			msg = msg[:1800] + "...(truncated)"
		}
		f.byCause[cause] = append(f.byCause[cause], msg)
	}
}

// addFor records a failure under <base>__<what> (what = Go type / function / check), so that unrelated failures of
// the same kind of check never share one sub-test.
func (f *c10Failures) addFor(base, what, format string, args ...any) {
	what = regexp.MustCompile(`[^A-Za-z0-9_.]+`).ReplaceAllString(what, "_")
	f.add(base+"__"+what, format, args...)
}

func (f *c10Failures) report(t *testing.T) {
	names := map[string]bool{}
	for _, k := range f.known {
		derived := false
		for c := range f.count {
			if strings.HasPrefix(c, k+"__") {
				derived = true
			}
		}
		if !derived {
			names[k] = true
		}
	}
	for k := range f.count {
		names[k] = true
	}
	var sorted []string
	for k := range names {
		sorted = append(sorted, k)
	}
	sort.Strings(sorted)
	for _, k := range sorted {
		k := k
		t.Run(k, func(t *testing.T) {
			if f.count[k] == 0 {
				return
			}
			t.Errorf("%d failing case(s); first %d:", f.count[k], len(f.byCause[k]))
			for _, m := range f.byCause[k] {
				t.Errorf("  %s", m)
			}
		})
	}
}

func c10Safe(fn func()) (p string) {
	defer func() {
		if r := recover(); r != nil {
			p = fmt.Sprintf("panic: %v", r)
		}
	}()
	fn()
	return ""
}

func c10Hex(b []byte) string {
	if len(b) <= 160 {
		return hex.EncodeToString(b)
	}
	return fmt.Sprintf("%s...(%d bytes)...%s", hex.EncodeToString(b[:120]), len(b), hex.EncodeToString(b[len(b)-24:]))
}

func c10GoSyntax(v any) string {
	s := fmt.Sprintf("%#v", v)
	if len(s) > 700 {
		s = s[:700] + "...(truncated)"
	}
	return s
}

func c10FirstDiff(a, b []byte) int {
	n := len(a)
	if len(b) < n {
		n = len(b)
	}
	for i := 0; i < n; i++ {
		if a[i] != b[i] {
			return i
		}
	}
	if len(a) != len(b) {
		return n
	}
	return -1
}

// ---------------------------------------------------------------------------------------------------------------------
// schema: own parser of lite_api.tl

const (
	c10KInt = iota
	c10KLong
	c10KNat
	c10KInt128
	c10KInt256
	c10KBytes
	c10KString
	c10KBool
	c10KTrue
	c10KVector
	c10KBare
	c10KBoxed
)

type c10Type struct {
	kind int
	name string   // named reference (bare constructor name or boxed type name)
	elem *c10Type // vector item
}

type c10Field struct {
	name      string
	typ       *c10Type
	condField string // "" = unconditional
	condBit   uint
}

type c10Ctor struct {
	name    string
	fileID  uint32
	hasID   bool
	crcID   uint32
	fields  []c10Field
	result  string
	isFunc  bool
	comment bool // taken from a commented-out line (liteServer.query, waitMasterchainSeqno)
	text    string
}

func (c *c10Ctor) id() uint32 {
	if c.hasID {
		return c.fileID
	}
	return c.crcID
}

type c10Schema struct {
	types    []*c10Ctor
	funcs    []*c10Ctor
	extra    map[string]*c10Ctor // commented-out declarations that the hand-written client code uses
	byCtor   map[string]*c10Ctor
	byResult map[string][]*c10Ctor
	results  []string // boxed type names in order of first appearance
}

var c10IdentRe = regexp.MustCompile(`^[a-zA-Z][0-9a-zA-Z_]*(\.[a-zA-Z][0-9a-zA-Z_]*)*$`)

// c10SplitFields splits "a:int b:(vector x.y) c:mode.0?bytes" keeping parenthesised groups together.
func c10SplitFields(s string) ([]string, error) {
	var out []string
	depth := 0
	cur := strings.Builder{}
	for _, r := range s {
		switch {
		case r == '(':
			depth++
			cur.WriteRune(r)
		case r == ')':
			depth--
			if depth < 0 {
				return nil, fmt.Errorf("unbalanced parenthesis")
			}
			cur.WriteRune(r)
		case (r == ' ' || r == '\t') && depth == 0:
			if cur.Len() > 0 {
				out = append(out, cur.String())
				cur.Reset()
			}
		default:
			cur.WriteRune(r)
		}
	}
	if depth != 0 {
		return nil, fmt.Errorf("unbalanced parenthesis")
	}
	if cur.Len() > 0 {
		out = append(out, cur.String())
	}
	return out, nil
}

func c10ParseType(s string) (*c10Type, error) {
	s = strings.TrimSpace(s)
	if strings.HasPrefix(s, "(") && strings.HasSuffix(s, ")") {
		s = strings.TrimSpace(s[1 : len(s)-1])
	}
	if strings.HasPrefix(s, "vector ") {
		e, err := c10ParseType(s[len("vector "):])
		if err != nil {
			return nil, err
		}
		return &c10Type{kind: c10KVector, elem: e}, nil
	}
	switch s {
	case "int":
		return &c10Type{kind: c10KInt}, nil
	case "long":
		return &c10Type{kind: c10KLong}, nil
	case "#":
		return &c10Type{kind: c10KNat}, nil
	case "int128":
		return &c10Type{kind: c10KInt128}, nil
	case "int256":
		return &c10Type{kind: c10KInt256}, nil
	case "bytes":
		return &c10Type{kind: c10KBytes}, nil
	case "string":
		return &c10Type{kind: c10KString}, nil
	case "Bool":
		return &c10Type{kind: c10KBool}, nil
	case "true":
		return &c10Type{kind: c10KTrue}, nil
	}
	if !c10IdentRe.MatchString(s) {
		return nil, fmt.Errorf("unsupported type expression %q", s)
	}
	last := s
	if i := strings.LastIndex(s, "."); i >= 0 {
		last = s[i+1:]
	}
	if last[0] >= 'A' && last[0] <= 'Z' {
		return &c10Type{kind: c10KBoxed, name: s}, nil
	}
	return &c10Type{kind: c10KBare, name: s}, nil
}

var c10CondRe = regexp.MustCompile(`^([a-zA-Z_][a-zA-Z0-9_]*)\.([0-9]+)\?(.+)$`)

func c10ParseDecl(line string) (*c10Ctor, error) {
	if i := strings.Index(line, ";"); i >= 0 {
		line = line[:i]
	} else {
		return nil, fmt.Errorf("no terminating ';'")
	}
	eq := strings.LastIndex(line, "=")
	if eq < 0 {
		return nil, fmt.Errorf("no '='")
	}
	left, right := strings.TrimSpace(line[:eq]), strings.TrimSpace(line[eq+1:])
	toks, err := c10SplitFields(left)
	if err != nil || len(toks) == 0 {
		return nil, fmt.Errorf("bad left side: %v", err)
	}
	c := &c10Ctor{result: right, text: strings.TrimSpace(line)}
	head := toks[0]
	if i := strings.Index(head, "#"); i >= 0 {
		h := head[i+1:]
		if len(h) == 0 || len(h) > 8 {
			return nil, fmt.Errorf("bad constructor id %q", head)
		}
		v, err := strconv.ParseUint(h, 16, 32)
		if err != nil {
			return nil, fmt.Errorf("bad constructor id %q", head)
		}
		if len(h) != 8 {
			return nil, fmt.Errorf("constructor id %q is not 8 hex digits", head)
		}
		c.fileID, c.hasID = uint32(v), true
		head = head[:i]
	}
	if !c10IdentRe.MatchString(head) {
		return nil, fmt.Errorf("bad constructor name %q", head)
	}
	c.name = head
	norm := []string{head}
	for _, tk := range toks[1:] {
		i := strings.Index(tk, ":")
		if i <= 0 {
			return nil, fmt.Errorf("bad field %q", tk)
		}
		f := c10Field{name: tk[:i]}
		ts := tk[i+1:]
		if m := c10CondRe.FindStringSubmatch(ts); m != nil && !strings.HasPrefix(ts, "(") {
			bit, _ := strconv.Atoi(m[2])
			if bit > 31 {
				return nil, fmt.Errorf("bad bit in %q", tk)
			}
			f.condField, f.condBit = m[1], uint(bit)
			ts = m[3]
		}
		f.typ, err = c10ParseType(ts)
		if err != nil {
			return nil, err
		}
		c.fields = append(c.fields, f)
		norm = append(norm, tk)
	}
	// normalized declaration text: no #id, no ';', no parentheses, single spaces
	n := strings.Join(norm, " ") + " = " + right
	n = strings.NewReplacer("(", "", ")", "").Replace(n)
	n = strings.Join(strings.Fields(n), " ")
	c.crcID = crc32.ChecksumIEEE([]byte(n))
	return c, nil
}

func c10LoadSchema(path string) (*c10Schema, error) {
	raw, err := os.ReadFile(path)
	if err != nil {
		return nil, err
	}
	s := &c10Schema{extra: map[string]*c10Ctor{}, byCtor: map[string]*c10Ctor{}, byResult: map[string][]*c10Ctor{}}
	inFuncs := false
	for ln, line := range strings.Split(string(raw), "\n") {
		line = strings.TrimSpace(line)
		if line == "" {
			continue
		}
		if line == "---functions---" {
			inFuncs = true
			continue
		}
		if strings.HasPrefix(line, "//") {
			body := strings.TrimSpace(strings.TrimPrefix(line, "//"))
			if strings.HasPrefix(body, "liteServer.query#") || strings.HasPrefix(body, "liteServer.waitMasterchainSeqno#") || strings.HasPrefix(body, "liteServer.queryPrefix#") {
				c, err := c10ParseDecl(body)
				if err != nil {
					return nil, fmt.Errorf("line %d: %v", ln+1, err)
				}
				c.comment = true
				s.extra[c.name] = c
			}
			continue
		}
		c, err := c10ParseDecl(line)
		if err != nil {
			return nil, fmt.Errorf("line %d: %v", ln+1, err)
		}
		c.isFunc = inFuncs
		if inFuncs {
			s.funcs = append(s.funcs, c)
			continue
		}
		if s.byCtor[c.name] != nil {
			return nil, fmt.Errorf("line %d: duplicate constructor %s", ln+1, c.name)
		}
		s.types = append(s.types, c)
		s.byCtor[c.name] = c
		if len(s.byResult[c.result]) == 0 {
			s.results = append(s.results, c.result)
		}
		s.byResult[c.result] = append(s.byResult[c.result], c)
	}
	return s, nil
}

// c10Camel: TL name -> Go name as the generator spells it (capital after '.', '_' and digits).
func c10Camel(s string) string {
	var b strings.Builder
	up := true
	for _, r := range s {
		switch {
		case r >= 'a' && r <= 'z':
			if up {
				r = r - 'a' + 'A'
			}
			b.WriteRune(r)
			up = false
		case r >= 'A' && r <= 'Z':
			b.WriteRune(r)
			up = false
		case r >= '0' && r <= '9':
			b.WriteRune(r)
			up = true
		default:
			up = true
		}
	}
	return b.String()
}

// goTypeName of a boxed TL type: <Constructor>C when it has one constructor, else the type's own name.
func (s *c10Schema) goNameOfResult(result string) string {
	cs := s.byResult[result]
	if len(cs) == 1 {
		return c10Camel(cs[0].name) + "C"
	}
	return c10Camel(result)
}

// ---------------------------------------------------------------------------------------------------------------------
// Go binding types by name (reflection cannot look a type up by name); cross-checked against the AST of generated.go

var c10GoTypes = func() map[string]reflect.Type {
	m := map[string]reflect.Type{}
	for _, v := range []any{
		TonNodeBlockIdC{}, TonNodeBlockIdExtC{}, TonNodeZeroStateIdExtC{}, TonNodeShardPublicOverlayIdC{}, AdnlMessage{},
		LiteServerErrorC{}, LiteServerAccountIdC{}, LiteServerLibraryEntryC{}, LiteServerMasterchainInfoC{},
		LiteServerMasterchainInfoExtC{}, LiteServerCurrentTimeC{}, LiteServerVersionC{}, LiteServerBlockDataC{},
		LiteServerBlockStateC{}, LiteServerBlockHeaderC{}, LiteServerSendMsgStatusC{}, LiteServerAccountStateC{},
		LiteServerRunMethodResultC{}, LiteServerShardInfoC{}, LiteServerAllShardsInfoC{}, LiteServerTransactionInfoC{},
		LiteServerTransactionListC{}, LiteServerTransactionIdC{}, LiteServerTransactionId3C{}, LiteServerBlockTransactionsC{},
		LiteServerBlockTransactionsExtC{}, LiteServerSignatureC{}, LiteServerSignatureSetC{}, LiteServerBlockLink{},
		LiteServerPartialBlockProofC{}, LiteServerConfigInfoC{}, LiteServerValidatorStatsC{}, LiteServerLibraryResultC{},
		LiteServerLibraryResultWithProofC{}, LiteServerShardBlockLinkC{}, LiteServerShardBlockProofC{},
		LiteServerLookupBlockResultC{}, LiteServerOutMsgQueueSizeC{}, LiteServerOutMsgQueueSizesC{},
		LiteServerAccountDispatchQueueInfoC{}, LiteServerDispatchQueueInfoC{}, LiteProxyRequestRateLimitC{},
		LiteServerDebugVerbosityC{},
		LiteServerGetMasterchainInfoRequest{}, LiteServerGetMasterchainInfoExtRequest{}, LiteServerGetTimeRequest{},
		LiteServerGetVersionRequest{}, LiteServerGetBlockRequest{}, LiteServerGetStateRequest{},
		LiteServerGetBlockHeaderRequest{}, LiteServerSendMessageRequest{}, LiteServerGetAccountStateRequest{},
		LiteServerGetAccountStatePrunnedRequest{}, LiteServerRunSmcMethodRequest{}, LiteServerGetShardInfoRequest{},
		LiteServerGetAllShardsInfoRequest{}, LiteServerGetOneTransactionRequest{}, LiteServerGetTransactionsRequest{},
		LiteServerLookupBlockRequest{}, LiteServerLookupBlockWithProofRequest{}, LiteServerListBlockTransactionsRequest{},
		LiteServerListBlockTransactionsExtRequest{}, LiteServerGetBlockProofRequest{}, LiteServerGetConfigAllRequest{},
		LiteServerGetConfigParamsRequest{}, LiteServerGetValidatorStatsRequest{}, LiteServerGetLibrariesRequest{},
		LiteServerGetLibrariesWithProofRequest{}, LiteServerGetShardBlockProofRequest{},
		LiteServerGetOutMsgQueueSizesRequest{}, LiteServerGetDispatchQueueInfoRequest{},
		LiteProxyGetRequestRateLimitRequest{},
		// hand-written (extensions.go): boxed liteServer.SignatureSet
		LiteServerSignatureSet{},
	} {
		t := reflect.TypeOf(v)
		m[t.Name()] = t
	}
	return m
}()

// ---------------------------------------------------------------------------------------------------------------------
// independent TL serializer (from the TL rules)

func c10Le32(b *bytes.Buffer, v uint32) {
	b.Write([]byte{byte(v), byte(v >> 8), byte(v >> 16), byte(v >> 24)})
}

func c10Le64(b *bytes.Buffer, v uint64) {
	for i := 0; i < 8; i++ {
		b.WriteByte(byte(v >> (8 * uint(i))))
	}
}

// c10TLBytes: 1-byte length (< 254) or 0xFE + 24-bit LE length, data, zero padding to a multiple of 4.
func c10TLBytes(b *bytes.Buffer, data []byte) {
	n := len(data)
	total := 0
	if n < 254 {
		b.WriteByte(byte(n))
		total = 1 + n
	} else {
		if n >= 1<<24 {
			panic("c10TLBytes: length not representable")
		}
		b.Write([]byte{0xfe, byte(n), byte(n >> 8), byte(n >> 16)})
		total = 4 + n
	}
	b.Write(data)
	for total%4 != 0 {
		b.WriteByte(0)
		total++
	}
}

const (
	c10BoolTrue  = 0x997275b5
	c10BoolFalse = 0xbc799737
)

// ---------------------------------------------------------------------------------------------------------------------
// value generator: walks the SCHEMA, writes the expected bytes and fills the Go value by reflection at the same time

type c10LenSched struct {
	pending   []int // every length that must be used once
	bigBudget int   // how many more 65535..65537 strings may be drawn at random
	used      map[int]bool
}

type c10Gen struct {
	s       *c10Schema
	rng     *rand.Rand
	lens    *c10LenSched
	maxVec  int
	sumNext map[string]int

	// per top-level case
	topCombo     int  // combination index of the guard bits of the top-level mode word; -1 = random
	firstVecN    int  // item count of the first vector met; -1 = random
	allBits      bool // set every guard bit everywhere
	noBits       bool // clear every guard bit everywhere
	fillAbsent   bool // give absent optional Go fields a non-zero value (they must still be omitted)
	quiet        bool // do not consume the global length schedule
	optPtrFields []c10OptPtr
}

type c10OptPtr struct {
	path string
	ptr  reflect.Value // the pointer-typed Go field (settable)
}

type c10ShapeError struct{ msg string }

func (e c10ShapeError) Error() string { return e.msg }

func (g *c10Gen) nextLen() int {
	if !g.quiet && len(g.lens.pending) > 0 {
		n := g.lens.pending[0]
		g.lens.pending = g.lens.pending[1:]
		g.lens.used[n] = true
		return n
	}
	var n int
	switch p := g.rng.Intn(100); {
	case p < 68:
		n = g.rng.Intn(65)
	case p < 88:
		n = 250 + g.rng.Intn(11)
	case p < 98:
		n = g.rng.Intn(1101)
	default:
		if !g.quiet && g.lens.bigBudget > 0 {
			g.lens.bigBudget--
			n = 65535 + g.rng.Intn(3)
		} else {
			n = 254
		}
	}
	if !g.quiet {
		g.lens.used[n] = true
	}
	return n
}

func (g *c10Gen) u32() uint32 {
	switch g.rng.Intn(12) {
	case 0:
		return 0
	case 1:
		return 0xffffffff
	case 2:
		return 0x80000000
	case 3:
		return uint32(g.rng.Intn(256))
	}
	return g.rng.Uint32()
}

func (g *c10Gen) u64() uint64 {
	switch g.rng.Intn(12) {
	case 0:
		return 0
	case 1:
		return 0xffffffffffffffff
	case 2:
		return 0x8000000000000000
	case 3:
		return uint64(g.rng.Intn(256))
	}
	return g.rng.Uint64()
}

func (g *c10Gen) guardBits(c *c10Ctor, field string) []uint {
	seen := map[uint]bool{}
	var bits []uint
	for _, f := range c.fields {
		if f.condField == field && !seen[f.condBit] {
			seen[f.condBit] = true
			bits = append(bits, f.condBit)
		}
	}
	sort.Slice(bits, func(i, j int) bool { return bits[i] < bits[j] })
	return bits
}

// fillFields writes the fields of constructor c (no id) and fills struct rv.
func (g *c10Gen) fillFields(c *c10Ctor, rv reflect.Value, out *bytes.Buffer, depth int, path string) error {
	if rv.Kind() != reflect.Struct {
		return c10ShapeError{fmt.Sprintf("%s: Go type %v is not a struct for constructor %s", path, rv.Type(), c.name)}
	}
	want := 0
	for _, f := range c.fields {
		if f.typ.kind != c10KTrue {
			want++
		}
	}
	if rv.NumField() != want {
		return c10ShapeError{fmt.Sprintf("%s: Go struct %v has %d fields, schema constructor %s has %d non-`true` fields", path, rv.Type(), rv.NumField(), c.name, want)}
	}
	env := map[string]uint32{}
	for _, f := range c.fields {
		present := true
		if f.condField != "" {
			w, ok := env[f.condField]
			if !ok {
				return c10ShapeError{fmt.Sprintf("%s.%s: guard field %s not defined before use", path, f.name, f.condField)}
			}
			present = (w>>f.condBit)&1 == 1
		}
		if f.typ.kind == c10KTrue {
			continue // zero bytes, no Go field
		}
		fv := rv.FieldByName(c10Camel(f.name))
		if !fv.IsValid() {
			return c10ShapeError{fmt.Sprintf("%s: Go struct %v has no field %s for schema field %s", path, rv.Type(), c10Camel(f.name), f.name)}
		}
		fpath := path + "." + c10Camel(f.name)
		if f.typ.kind == c10KNat {
			bits := g.guardBits(c, f.name)
			if len(bits) > 0 {
				var sel uint32
				combo := g.rng.Intn(1 << uint(len(bits)))
				if depth == 0 && g.topCombo >= 0 {
					combo = g.topCombo % (1 << uint(len(bits)))
				}
				var mask uint32
				for i, b := range bits {
					mask |= 1 << b
					if (combo>>uint(i))&1 == 1 {
						sel |= 1 << b
					}
				}
				if g.allBits {
					sel = mask
				}
				if g.noBits {
					sel = 0
				}
				w := sel
				if g.rng.Intn(2) == 0 {
					w |= g.rng.Uint32() &^ mask
				}
				c10Le32(out, w)
				env[f.name] = w
				if fv.Kind() != reflect.Uint32 {
					return c10ShapeError{fmt.Sprintf("%s: Go kind %v for TL #", fpath, fv.Kind())}
				}
				fv.SetUint(uint64(w))
				continue
			}
		}
		if f.condField != "" {
			target := fv
			if fv.Kind() == reflect.Ptr {
				if present || g.fillAbsent {
					fv.Set(reflect.New(fv.Type().Elem()))
					target = fv.Elem()
				}
				if present {
					g.optPtrFields = append(g.optPtrFields, c10OptPtr{fpath, fv})
				}
			} else if fv.Kind() != reflect.Slice {
				return c10ShapeError{fmt.Sprintf("%s: optional schema field %s is neither pointer nor slice in Go (%v)", fpath, f.name, fv.Type())}
			}
			if !present {
				if g.fillAbsent {
					var scratch bytes.Buffer
					q := g.quiet
					g.quiet = true
					err := g.fillValue(f.typ, target, &scratch, depth+1, fpath)
					g.quiet = q
					if err != nil {
						return err
					}
					if target.Kind() == reflect.Slice && target.Len() == 0 {
						target.Set(reflect.MakeSlice(target.Type(), 1, 1))
					}
				}
				continue
			}
			if err := g.fillValue(f.typ, target, out, depth+1, fpath); err != nil {
				return err
			}
			continue
		}
		if err := g.fillValue(f.typ, fv, out, depth+1, fpath); err != nil {
			return err
		}
		if f.typ.kind == c10KNat || f.typ.kind == c10KInt {
			if fv.Kind() == reflect.Uint32 {
				env[f.name] = uint32(fv.Uint())
			}
		}
	}
	return nil
}

func (g *c10Gen) fillValue(t *c10Type, rv reflect.Value, out *bytes.Buffer, depth int, path string) error {
	switch t.kind {
	case c10KInt, c10KNat:
		v := g.u32()
		c10Le32(out, v)
		switch rv.Kind() {
		case reflect.Uint32:
			rv.SetUint(uint64(v))
		case reflect.Int32:
			rv.SetInt(int64(int32(v)))
		default:
			return c10ShapeError{fmt.Sprintf("%s: Go kind %v for TL int/#", path, rv.Kind())}
		}
	case c10KLong:
		v := g.u64()
		c10Le64(out, v)
		switch rv.Kind() {
		case reflect.Uint64:
			rv.SetUint(v)
		case reflect.Int64:
			rv.SetInt(int64(v))
		default:
			return c10ShapeError{fmt.Sprintf("%s: Go kind %v for TL long", path, rv.Kind())}
		}
	case c10KInt128, c10KInt256:
		n := 32
		if t.kind == c10KInt128 {
			n = 16
		}
		b := make([]byte, n)
		g.rng.Read(b)
		if g.rng.Intn(10) == 0 {
			b = make([]byte, n)
		}
		out.Write(b)
		if rv.Kind() != reflect.Array || rv.Len() != n || rv.Type().Elem().Kind() != reflect.Uint8 {
			return c10ShapeError{fmt.Sprintf("%s: Go type %v for TL int%d", path, rv.Type(), n*8)}
		}
		reflect.Copy(rv, reflect.ValueOf(b))
	case c10KBytes, c10KString:
		n := g.nextLen()
		b := make([]byte, n)
		g.rng.Read(b)
		c10TLBytes(out, b)
		switch {
		case rv.Kind() == reflect.Slice && rv.Type().Elem().Kind() == reflect.Uint8:
			rv.SetBytes(append([]byte{}, b...))
		case rv.Kind() == reflect.String:
			rv.SetString(string(b))
		default:
			return c10ShapeError{fmt.Sprintf("%s: Go type %v for TL bytes/string", path, rv.Type())}
		}
	case c10KBool:
		v := g.rng.Intn(2) == 0
		if v {
			c10Le32(out, c10BoolTrue)
		} else {
			c10Le32(out, c10BoolFalse)
		}
		if rv.Kind() != reflect.Bool {
			return c10ShapeError{fmt.Sprintf("%s: Go kind %v for TL Bool", path, rv.Kind())}
		}
		rv.SetBool(v)
	case c10KTrue:
	case c10KVector:
		n := g.rng.Intn(g.maxVec + 1)
		if g.firstVecN >= 0 {
			n = g.firstVecN
			g.firstVecN = -1
		} else if depth > 2 && n > 3 {
			n = g.rng.Intn(4)
		}
		c10Le32(out, uint32(n))
		if rv.Kind() != reflect.Slice {
			return c10ShapeError{fmt.Sprintf("%s: Go type %v for TL vector", path, rv.Type())}
		}
		sl := reflect.MakeSlice(rv.Type(), n, n)
		for i := 0; i < n; i++ {
			if err := g.fillValue(t.elem, sl.Index(i), out, depth+1, fmt.Sprintf("%s[%d]", path, i)); err != nil {
				return err
			}
		}
		rv.Set(sl)
	case c10KBare:
		c := g.s.byCtor[t.name]
		if c == nil {
			return c10ShapeError{fmt.Sprintf("%s: schema refers to unknown constructor %s", path, t.name)}
		}
		if rv.Kind() == reflect.Struct {
			if _, ok := rv.Type().FieldByName("SumType"); ok {
				return c10ShapeError{fmt.Sprintf("%s: bare reference to %s but Go type %v is a sum type", path, t.name, rv.Type())}
			}
		}
		return g.fillFields(c, rv, out, depth, path)
	case c10KBoxed:
		cs := g.s.byResult[t.name]
		if len(cs) == 0 {
			return c10ShapeError{fmt.Sprintf("%s: schema refers to unknown type %s", path, t.name)}
		}
		k := g.sumNext[t.name] % len(cs)
		g.sumNext[t.name]++
		c := cs[k]
		c10Le32(out, c.id())
		if rv.Kind() != reflect.Struct {
			return c10ShapeError{fmt.Sprintf("%s: Go type %v for boxed %s", path, rv.Type(), t.name)}
		}
		if _, ok := rv.Type().FieldByName("SumType"); ok {
			if rv.NumField() != len(cs)+1 {
				return c10ShapeError{fmt.Sprintf("%s: Go sum type %v has %d fields, schema type %s has %d constructors", path, rv.Type(), rv.NumField(), t.name, len(cs))}
			}
			rv.FieldByName("SumType").SetString(c10Camel(c.name))
			sub := rv.FieldByName(c10Camel(c.name))
			if !sub.IsValid() {
				return c10ShapeError{fmt.Sprintf("%s: Go sum type %v has no member %s", path, rv.Type(), c10Camel(c.name))}
			}
			return g.fillFields(c, sub, out, depth, path+"."+c10Camel(c.name))
		}
		if len(cs) != 1 {
			return c10ShapeError{fmt.Sprintf("%s: schema type %s has %d constructors but Go type %v is not a sum type", path, t.name, len(cs), rv.Type())}
		}
		return g.fillFields(c, rv, out, depth, path)
	}
	return nil
}

// c10Equal: deep equality where a nil slice equals an empty slice (TL cannot tell them apart); returns the path of the
// first difference ("" = equal).
func c10Equal(a, b reflect.Value, path string) string {
	if a.Type() != b.Type() {
		return path + ": types differ"
	}
	switch a.Kind() {
	case reflect.Ptr:
		if a.IsNil() != b.IsNil() {
			return fmt.Sprintf("%s: nil=%v vs nil=%v", path, a.IsNil(), b.IsNil())
		}
		if a.IsNil() {
			return ""
		}
		return c10Equal(a.Elem(), b.Elem(), path)
	case reflect.Slice:
		if a.Len() != b.Len() {
			return fmt.Sprintf("%s: len %d vs %d", path, a.Len(), b.Len())
		}
		if a.Type().Elem().Kind() == reflect.Uint8 {
			if !bytes.Equal(a.Bytes(), b.Bytes()) {
				return path + ": bytes differ"
			}
			return ""
		}
		for i := 0; i < a.Len(); i++ {
			if d := c10Equal(a.Index(i), b.Index(i), fmt.Sprintf("%s[%d]", path, i)); d != "" {
				return d
			}
		}
		return ""
	case reflect.Struct:
		for i := 0; i < a.NumField(); i++ {
			if d := c10Equal(a.Field(i), b.Field(i), path+"."+a.Type().Field(i).Name); d != "" {
				return d
			}
		}
		return ""
	default:
		if !reflect.DeepEqual(a.Interface(), b.Interface()) {
			return fmt.Sprintf("%s: %v vs %v", path, a.Interface(), b.Interface())
		}
		return ""
	}
}

func c10Marshal(v any) (b []byte, err error, p string) {
	p = c10Safe(func() {
		if m, ok := v.(tl.MarshalerTL); ok {
			b, err = m.MarshalTL()
		} else {
			b, err = tl.Marshal(v)
		}
	})
	return
}

func c10Unmarshal(data []byte, ptr any) (rest int, err error, p string) {
	r := bytes.NewReader(data)
	p = c10Safe(func() {
		if u, ok := ptr.(tl.UnmarshalerTL); ok {
			err = u.UnmarshalTL(r)
		} else {
			err = tl.Unmarshal(r, ptr)
		}
	})
	return r.Len(), err, p
}

// ---------------------------------------------------------------------------------------------------------------------
// in-memory connection (no network): identity cipher, Write captures the frame and lets a responder answer at once

type c10IdentStream struct{}

func (c10IdentStream) XORKeyStream(dst, src []byte) { copy(dst, src) }

type c10Addr struct{}

func (c10Addr) Network() string { return "c10" }
func (c10Addr) String() string  { return "c10" }

type c10Conn struct {
	frames  [][]byte
	onWrite func(frame []byte)
}

func (c *c10Conn) Read(b []byte) (int, error) { select {} }
func (c *c10Conn) Write(b []byte) (int, error) {
	f := append([]byte{}, b...)
	c.frames = append(c.frames, f)
	if c.onWrite != nil {
		c.onWrite(f)
	}
	return len(b), nil
}
func (c *c10Conn) Close() error                       { return nil }
func (c *c10Conn) LocalAddr() net.Addr                { return c10Addr{} }
func (c *c10Conn) RemoteAddr() net.Addr               { return c10Addr{} }
func (c *c10Conn) SetDeadline(t time.Time) error      { return nil }
func (c *c10Conn) SetReadDeadline(t time.Time) error  { return nil }
func (c *c10Conn) SetWriteDeadline(t time.Time) error { return nil }

func c10NewClient(fc *c10Conn) *Client {
	conn := &Connection{
		status: Connected,
		econn:  &encryptedConn{cipher: c10IdentStream{}, decipher: c10IdentStream{}, conn: fc},
		pings:  map[uint64]time.Time{},
		resp:   make(chan Packet),
	}
	return &Client{timeout: 20 * time.Second, connections: []*Connection{conn}, queries: make(map[queryID]chan []byte)}
}

// ---------------------------------------------------------------------------------------------------------------------

type c10Item struct {
	label   string
	goName  string
	ctor    *c10Ctor // bare: fields of this constructor
	boxed   string   // boxed: any constructor of this type, id in front
	combos  int
	isFunc  bool
	covered []string // schema declaration names this item covers
}

func (g *c10Gen) combosOf(c *c10Ctor) int {
	n := 1
	for _, f := range c.fields {
		if f.typ.kind == c10KNat {
			if bits := g.guardBits(c, f.name); len(bits) > 0 {
				n *= 1 << uint(len(bits))
			}
		}
	}
	return n
}

func (g *c10Gen) build(it *c10Item, caseNo int) (reflect.Value, []byte, error) {
	t := c10GoTypes[it.goName]
	rv := reflect.New(t).Elem()
	var out bytes.Buffer
	g.topCombo = caseNo
	g.firstVecN = caseNo % (g.maxVec + 1)
	g.optPtrFields = nil
	var err error
	if it.ctor != nil {
		err = g.fillFields(it.ctor, rv, &out, 0, it.goName)
	} else {
		err = g.fillValue(&c10Type{kind: c10KBoxed, name: it.boxed}, rv, &out, 0, it.goName)
	}
	return rv, out.Bytes(), err
}

var c10WellKnown = map[string]uint32{
	"liteServer.getMasterchainInfo": 0x89b5e62e,
	"liteServer.masterchainInfo":    0x85832881,
	"liteServer.getTime":            0x16ad5a34,
	"liteServer.currentTime":        0xe953000d,
	"liteServer.error":              0xbba9e148,
	"liteServer.query":              0x798c06df,
	"liteServer.sendMessage":        0x690ad482,
	"liteServer.getAccountState":    0x6b890e25,
	"tonNode.blockIdExt":            0x6752eb78,
	"adnl.message.query":            0xb48bf97a,
	"adnl.message.answer":           0x0fac8416,
}

func TestVerifStandin_C10_Wire(t *testing.T) {
	start := time.Now()
	fails := c10NewFailures(
		"rc_wellknown_id_mismatch", "rc_go_type_missing_for_declaration",
		"rc_go_struct_shape_mismatch", "rc_generated_type_without_schema_decl",
		"rc_marshal_error", "rc_marshal_panics", "rc_marshal_bytes_differ_from_schema",
		"rc_unmarshal_error", "rc_unmarshal_panics", "rc_unmarshal_leaves_bytes", "rc_unmarshal_value_differs", "rc_unmarshal_depends_on_read_segmentation",
		"rc_request_method_missing", "rc_request_frame_bytes_differ", "rc_request_adnl_frame_malformed",
		"rc_request_frame_count", "rc_request_answer_not_delivered", "rc_request_response_value_differs",
		"rc_request_response_error", "rc_request_error_response_not_returned", "rc_request_method_panics",
		"rc_request_decoder_table_missing_or_extra", "rc_request_decoder_value_differs",
		"rc_request_decoder_wrong_name_or_tag", "rc_request_decoder_panics",
		"rc_mode_bit_set_nil_optional_panics", "rc_mode_bit_set_nil_optional_no_error",
		"rc_mode_bit_clear_nonnil_optional_not_omitted", "rc_mode_bit_clear_nonnil_optional_panics",
		"rc_mode_bit_clear_nonnil_optional_error",
		"rc_bytes_len_2pow24_minus1_wrong", "rc_bytes_len_2pow24_minus1_not_decodable",
		"rc_bytes_len_2pow24_silently_truncated", "rc_huge_string_marshal_panics",
		"rc_length_schedule_not_exhausted", "rc_ton_blockidext_convert_differs", "rc_ton_blockidext_marshal_differs",
		"rc_ton_blockidext_unmarshal_differs", "rc_ton_accountid_convert_differs", "rc_ton_accountid_marshal_differs",
		"rc_ton_accountid_unmarshal_differs", "rc_ton_handwritten_panics", "rc_unclassified_panic",
		"rc_harness_schema_parse", "rc_harness_schema_unexpected", "rc_harness_generated_go_unparsable",
	)
	cases, distinct := 0, map[[32]byte]struct{}{}
	defer func() {
		if r := recover(); r != nil {
			fails.add("rc_unclassified_panic", "panic outside the guarded library calls: %v\n%s", r, debug.Stack())
		}
		fmt.Printf("STANDIN-STAT name=C10_Wire cases=%d distinct=%d\n", cases, len(distinct))
		fails.report(t)
	}()
	s, err := c10LoadSchema("lite_api.tl")
	if err != nil {
		fails.add("rc_harness_schema_parse", "cannot parse lite_api.tl with the stand-in's own parser: %v", err)
		return
	}
	note := func(b []byte) {
		cases++
		distinct[sha256.Sum256(b)] = struct{}{}
	}

	// ---- ids: #hex of the file == crc32 of the normalized declaration; well-known constants
	all := append(append([]*c10Ctor{}, s.types...), s.funcs...)
	for _, c := range s.extra {
		all = append(all, c)
	}
	byName := map[string]*c10Ctor{}
	var idInfo []string
	for _, c := range all {
		byName[c.name] = c
		if c.hasID && c.fileID != c.crcID {
			// the property takes the id WRITTEN in the schema line; a written id that is not the CRC32 of the normalized
			// line is legal TL and only reported
			how := ""
			withParens := strings.Join(strings.Fields(regexp.MustCompile(`#[0-9a-f]{8}`).ReplaceAllString(c.text, "")), " ")
			if crc32.ChecksumIEEE([]byte(withParens)) == c.fileID {
				how = " (= crc32 of the line WITH its parentheses)"
			}
			idInfo = append(idInfo, fmt.Sprintf("%s written #%08x%s, crc32 of normalized line %08x", c.name, c.fileID, how, c.crcID))
		}
		note([]byte("id:" + c.name))
	}
	sort.Strings(idInfo)
	t.Logf("INFO c10 schema_id_differs_from_crc: %d declarations: %s", len(idInfo), strings.Join(idInfo, "; "))
	for name, want := range c10WellKnown {
		c := byName[name]
		if c == nil {
			fails.addFor("rc_wellknown_id_mismatch", name, "%s not found in lite_api.tl", name)
			continue
		}
		if c.id() != want {
			fails.addFor("rc_wellknown_id_mismatch", name, "%s: schema id %08x, crc32 %08x, well-known %08x", name, c.id(), c.crcID, want)
		}
		note([]byte("wk:" + name))
	}

	// ---- items
	thorough := c10Thorough()
	base, maxVec, reqCases, bigBudget := 120, 8, 12, 24
	if thorough {
		base, maxVec, reqCases, bigBudget = 8000, 20, 600, 400
	}
	rng := rand.New(rand.NewSource(c10Seed()))
	sched := &c10LenSched{used: map[int]bool{}, bigBudget: bigBudget}
	for n := 0; n <= 1100; n++ {
		sched.pending = append(sched.pending, n)
	}
	sched.pending = append(sched.pending, 253, 254, 255, 256, 257, 65535, 65536, 65537)
	rng.Shuffle(len(sched.pending), func(i, j int) { sched.pending[i], sched.pending[j] = sched.pending[j], sched.pending[i] })
	g := &c10Gen{s: s, rng: rng, lens: sched, maxVec: maxVec, sumNext: map[string]int{}, topCombo: -1, firstVecN: -1}

	var items []*c10Item
	coveredDecl := map[string]bool{}
	usedGo := map[string]bool{}
	addItem := func(it *c10Item) {
		if _, ok := c10GoTypes[it.goName]; !ok {
			fails.addFor("rc_go_type_missing_for_declaration", it.goName, "%s: no Go type %s in the bindings", it.label, it.goName)
			return
		}
		usedGo[it.goName] = true
		items = append(items, it)
	}
	for _, res := range s.results {
		cs := s.byResult[res]
		if len(cs) == 1 {
			c := cs[0]
			addItem(&c10Item{label: "constructor " + c.name + " (bare)", goName: c10Camel(c.name) + "C", ctor: c, combos: g.combosOf(c), covered: []string{c.name}})
			continue
		}
		it := &c10Item{label: "type " + res + " (boxed, " + strconv.Itoa(len(cs)) + " constructors)", goName: c10Camel(res), boxed: res, combos: len(cs)}
		for _, c := range cs {
			it.covered = append(it.covered, c.name)
			if k := g.combosOf(c) * len(cs); k > it.combos {
				it.combos = k
			}
		}
		addItem(it)
	}
	addItem(&c10Item{label: "type liteServer.SignatureSet (boxed, extensions.go)", goName: "LiteServerSignatureSet", boxed: "liteServer.SignatureSet", combos: 1})
	for _, f := range s.funcs {
		addItem(&c10Item{label: "function " + f.name + " (params)", goName: c10Camel(f.name) + "Request", ctor: f, combos: g.combosOf(f), isFunc: true, covered: []string{f.name}})
	}

	// every type declared in generated.go must correspond to a schema declaration
	if file, err := goparser.ParseFile(token.NewFileSet(), "generated.go", nil, 0); err != nil {
		fails.add("rc_harness_generated_go_unparsable", "cannot parse generated.go: %v", err)
	} else {
		for _, d := range file.Decls {
			gd, ok := d.(*ast.GenDecl)
			if !ok || gd.Tok != token.TYPE {
				continue
			}
			for _, sp := range gd.Specs {
				name := sp.(*ast.TypeSpec).Name.Name
				if !usedGo[name] {
					fails.addFor("rc_generated_type_without_schema_decl", name, "generated.go declares type %s, which no declaration of lite_api.tl maps to", name)
				}
			}
		}
	}

	// ---- wire: both directions
	shapeBroken := map[string]bool{}
	check := func(it *c10Item, caseNo int, rv reflect.Value, exp []byte) {
		note(exp)
		id := fmt.Sprintf("%s -> %s, seed %d case %d", it.label, it.goName, c10Seed(), caseNo)
		got, err, p := c10Marshal(rv.Interface())
		switch {
		case p != "":
			fails.addFor("rc_marshal_panics", it.goName, "%s: %s; value %s", id, p, c10GoSyntax(rv.Interface()))
		case err != nil:
			fails.addFor("rc_marshal_error", it.goName, "%s: %v; value %s", id, err, c10GoSyntax(rv.Interface()))
		case !bytes.Equal(got, exp):
			fails.addFor("rc_marshal_bytes_differ_from_schema", it.goName, "%s: first difference at offset %d\n    expected %s\n    got      %s\n    value %s", id, c10FirstDiff(exp, got), c10Hex(exp), c10Hex(got), c10GoSyntax(rv.Interface()))
		}
		ptr := reflect.New(rv.Type())
		rest, err, p := c10Unmarshal(exp, ptr.Interface())
		switch {
		case p != "":
			fails.addFor("rc_unmarshal_panics", it.goName, "%s: %s; input %s", id, p, c10Hex(exp))
		case err != nil:
			fails.addFor("rc_unmarshal_error", it.goName, "%s: %v; input %s", id, err, c10Hex(exp))
		default:
			if rest != 0 {
				fails.addFor("rc_unmarshal_leaves_bytes", it.goName, "%s: %d of %d bytes not consumed; input %s", id, rest, len(exp), c10Hex(exp))
			}
			if d := c10Equal(rv, ptr.Elem(), it.goName); d != "" {
				fails.addFor("rc_unmarshal_value_differs", it.goName, "%s: %s\n    input %s\n    want %s\n    got  %s", id, d, c10Hex(exp), c10GoSyntax(rv.Interface()), c10GoSyntax(ptr.Elem().Interface()))
			}
		}
		// the wire format is a byte sequence: how the reader hands the bytes out (all at once, one at a time, in halves —
		// what a socket, a pipe or a buffered reader does) must not change what is parsed
		for _, seg := range []struct {
			name string
			wrap func(io.Reader) io.Reader
		}{{"one_byte_reads", iotest.OneByteReader}, {"half_reads", iotest.HalfReader}} {
			ptr2 := reflect.New(rv.Type())
			var err2 error
			p2 := c10Safe(func() {
				r := seg.wrap(bytes.NewReader(exp))
				if u, ok := ptr2.Interface().(tl.UnmarshalerTL); ok {
					err2 = u.UnmarshalTL(r)
				} else {
					err2 = tl.Unmarshal(r, ptr2.Interface())
				}
			})
			switch {
			case p2 != "":
				fails.addFor("rc_unmarshal_depends_on_read_segmentation", it.goName, "%s: %s: %s; input %s", id, seg.name, p2, c10Hex(exp))
			case (err2 == nil) != (err == nil && p == ""):
				fails.addFor("rc_unmarshal_depends_on_read_segmentation", it.goName, "%s: %s: error %v, whole input: error %v; input %s", id, seg.name, err2, err, c10Hex(exp))
			case err2 == nil:
				if d := c10Equal(ptr.Elem(), ptr2.Elem(), it.goName); d != "" {
					fails.addFor("rc_unmarshal_depends_on_read_segmentation", it.goName, "%s: %s: %s; input %s", id, seg.name, d, c10Hex(exp))
				}
			}
		}
	}
	for _, it := range items {
		n := base
		if 2*it.combos > n {
			n = 2 * it.combos
		}
		for i := 0; i < n; i++ {
			rv, exp, err := g.build(it, i)
			if err != nil {
				if !shapeBroken[it.goName] {
					shapeBroken[it.goName] = true
					fails.addFor("rc_go_struct_shape_mismatch", it.goName, "%s: %v", it.label, err)
				}
				break
			}
			check(it, i, rv, exp)
		}
		if !shapeBroken[it.goName] {
			for _, d := range it.covered {
				coveredDecl[d] = true
			}
		}
	}
	// make sure the length schedule is consumed (items without byte strings do not help): sendMessage / error carry one each
	for _, name := range []string{"LiteServerSendMessageRequest", "LiteServerErrorC"} {
		for _, it := range items {
			if it.goName != name {
				continue
			}
			for i := 0; len(sched.pending) > 0 && i < 1200; i++ {
				rv, exp, err := g.build(it, i)
				if err != nil {
					break
				}
				check(it, 100000+i, rv, exp)
			}
		}
	}
	if len(sched.pending) > 0 {
		fails.add("rc_length_schedule_not_exhausted", "%d byte-string lengths of the schedule were never used (first %v)", len(sched.pending), sched.pending[:1])
	}
	for n := 0; n <= 1100; n++ {
		if !sched.used[n] {
			fails.add("rc_length_schedule_not_exhausted", "length %d never used", n)
		}
	}

	c10RequestPath(t, s, g, items, reqCases, fails, note)
	c10ModeBitCorners(s, g, items, fails, note)
	c10HugeStrings(g, fails, note)
	c10HandWritten(g, items, base, fails, note)

	var uncovered []string
	for _, c := range append(append([]*c10Ctor{}, s.types...), s.funcs...) {
		if !coveredDecl[c.name] {
			uncovered = append(uncovered, c.name)
		}
	}
	t.Logf("C10 coverage: %d of %d declarations of lite_api.tl (%d constructors, %d functions) exercised on the wire; %d Go types; not covered: %v; distinct byte-string lengths used: %d; elapsed %v",
		len(coveredDecl), len(s.types)+len(s.funcs), len(s.types), len(s.funcs), len(usedGo), uncovered, len(sched.used), time.Since(start).Round(time.Millisecond))
}

// c10Encode writes a constructor (with its id when boxed) from explicit values: uint32 for int/#, uint64 for long,
// []byte for int256/bytes/string.
func c10Encode(c *c10Ctor, boxed bool, vals ...any) ([]byte, error) {
	var out bytes.Buffer
	if boxed {
		c10Le32(&out, c.id())
	}
	if len(vals) != len(c.fields) {
		return nil, fmt.Errorf("%s has %d fields, %d expected by the test", c.name, len(c.fields), len(vals))
	}
	for i, f := range c.fields {
		if f.condField != "" {
			return nil, fmt.Errorf("%s.%s: conditional field not expected here", c.name, f.name)
		}
		switch v := vals[i].(type) {
		case uint32:
			if f.typ.kind != c10KInt && f.typ.kind != c10KNat {
				return nil, fmt.Errorf("%s.%s is not int", c.name, f.name)
			}
			c10Le32(&out, v)
		case uint64:
			if f.typ.kind != c10KLong {
				return nil, fmt.Errorf("%s.%s is not long", c.name, f.name)
			}
			c10Le64(&out, v)
		case []byte:
			switch f.typ.kind {
			case c10KInt256:
				if len(v) != 32 {
					return nil, fmt.Errorf("%s.%s: int256 needs 32 bytes", c.name, f.name)
				}
				out.Write(v)
			case c10KBytes, c10KString:
				c10TLBytes(&out, v)
			default:
				return nil, fmt.Errorf("%s.%s is not bytes/int256", c.name, f.name)
			}
		default:
			return nil, fmt.Errorf("unsupported value")
		}
	}
	return out.Bytes(), nil
}

func c10RequestPath(t *testing.T, s *c10Schema, g *c10Gen, items []*c10Item, n int, fails *c10Failures, note func([]byte)) {
	adnlQ, adnlA, lsQuery, wms := s.byCtor["adnl.message.query"], s.byCtor["adnl.message.answer"], s.extra["liteServer.query"], s.extra["liteServer.waitMasterchainSeqno"]
	if adnlQ == nil || adnlA == nil || lsQuery == nil || wms == nil || len(s.byResult["liteServer.Error"]) != 1 {
		fails.add("rc_harness_schema_unexpected", "lite_api.tl lacks adnl.message.query / adnl.message.answer / liteServer.query / liteServer.waitMasterchainSeqno / liteServer.error")
		return
	}
	reqItem := map[string]*c10Item{}
	for _, it := range items {
		if it.isFunc {
			reqItem[it.ctor.name] = it
		}
	}
	fc := &c10Conn{}
	client := c10NewClient(fc)
	errItem := &c10Item{label: "liteServer.Error", goName: "LiteServerErrorC", boxed: "liteServer.Error"}

	// exchange: calls `call` while the fake connection checks the frame against `query` and answers with `answer`.
	exchange := func(what, id string, query, answer []byte, call func()) bool {
		ok := true
		fc.frames = nil
		fc.onWrite = func(frame []byte) {
			if len(frame) < 4+32+36+32 {
				fails.addFor("rc_request_adnl_frame_malformed", what, "%s: frame too short: %s", id, c10Hex(frame))
				ok = false
				return
			}
			payload := frame[36 : len(frame)-32]
			sum := sha256.Sum256(frame[4 : len(frame)-32])
			if binary.LittleEndian.Uint32(frame) != uint32(len(frame)-4) || !bytes.Equal(sum[:], frame[len(frame)-32:]) {
				fails.addFor("rc_request_adnl_frame_malformed", what, "%s: ADNL frame length/checksum wrong: %s", id, c10Hex(frame))
				ok = false
			}
			qid := append([]byte{}, payload[4:36]...)
			inner, err1 := c10Encode(lsQuery, true, query)
			exp, err2 := c10Encode(adnlQ, true, qid, inner)
			if err1 != nil || err2 != nil {
				fails.add("rc_harness_schema_unexpected", "%s: schema shape: %v %v", id, err1, err2)
				ok = false
				return
			}
			if !bytes.Equal(exp, payload) {
				fails.addFor("rc_request_frame_bytes_differ", what, "%s: first difference at offset %d\n    expected payload %s\n    got              %s", id, c10FirstDiff(exp, payload), c10Hex(exp), c10Hex(payload))
				ok = false
			}
			ans, err := c10Encode(adnlA, true, qid, answer)
			if err != nil {
				fails.add("rc_harness_schema_unexpected", "%s: schema shape: %v", id, err)
				ok = false
				return
			}
			if err := client.processQueryAnswer(Packet{Payload: ans}); err != nil {
				fails.addFor("rc_request_answer_not_delivered", what, "%s: processQueryAnswer: %v", id, err)
				ok = false
			}
		}
		if p := c10Safe(call); p != "" {
			fails.addFor("rc_request_method_panics", what, "%s: %s; request bytes %s; answer %s", id, p, c10Hex(query), c10Hex(answer))
			ok = false
		}
		fc.onWrite = nil
		if len(fc.frames) != 1 {
			fails.addFor("rc_request_frame_count", what, "%s: %d frames written to the connection, want 1", id, len(fc.frames))
			ok = false
		}
		return ok
	}

	// decoder table: exactly the schema's function ids
	if len(taggedRequestDecodeFunctions) != len(s.funcs) {
		fails.add("rc_request_decoder_table_missing_or_extra", "table has %d entries, lite_api.tl has %d functions", len(taggedRequestDecodeFunctions), len(s.funcs))
	}
	for _, f := range s.funcs {
		if taggedRequestDecodeFunctions[f.id()] == nil {
			fails.addFor("rc_request_decoder_table_missing_or_extra", f.name, "no entry under %08x (%s)", f.id(), f.name)
		}
		note([]byte("table:" + f.name))
	}

	ctx := context.Background()
	for _, f := range s.funcs {
		it := reqItem[f.name]
		if it == nil || len(s.byResult[f.result]) == 0 {
			fails.addFor("rc_request_method_missing", f.name, "%s: no request type / result type %s", f.name, f.result)
			continue
		}
		resGo := s.goNameOfResult(f.result)
		if _, ok := c10GoTypes[resGo]; !ok {
			fails.addFor("rc_request_method_missing", f.name, "%s: no Go type %s for result %s", f.name, resGo, f.result)
			continue
		}
		resItem := &c10Item{label: f.result, goName: resGo, boxed: f.result}
		m := reflect.ValueOf(client).MethodByName(c10Camel(f.name))
		wantIn := 1
		if len(f.fields) > 0 {
			wantIn = 2
		}
		if !m.IsValid() || m.Type().NumIn() != wantIn || m.Type().NumOut() != 2 || m.Type().Out(0) != c10GoTypes[resGo] || (wantIn == 2 && m.Type().In(1) != c10GoTypes[it.goName]) {
			fails.addFor("rc_request_method_missing", f.name, "%s: (*Client).%s missing or has an unexpected signature", f.name, c10Camel(f.name))
			continue
		}
		for i := 0; i < n; i++ {
			id := fmt.Sprintf("%s, seed %d request case %d", f.name, c10Seed(), i)
			rvReq, params, err := g.build(it, i)
			if err != nil {
				break // reported as shape mismatch by the wire loop
			}
			var q bytes.Buffer
			c10Le32(&q, f.id())
			q.Write(params)
			query := q.Bytes()
			note(query)

			// decoder table
			var (
				tag  uint32
				name *RequestName
				val  any
				derr error
			)
			if p := c10Safe(func() { tag, name, val, derr = LiteapiRequestDecoder(append([]byte{}, query...)) }); p != "" {
				fails.addFor("rc_request_decoder_panics", f.name, "%s: LiteapiRequestDecoder %s; input %s", id, p, c10Hex(query))
			} else if derr != nil || tag != f.id() || name == nil || *name != f.name || val == nil || reflect.TypeOf(val) != rvReq.Type() {
				nm := "<nil>"
				if name != nil {
					nm = *name
				}
				fails.addFor("rc_request_decoder_wrong_name_or_tag", f.name, "%s: got tag %08x name %q value %T err %v, want %08x %q %v; input %s", id, tag, nm, val, derr, f.id(), f.name, rvReq.Type(), c10Hex(query))
			} else if d := c10Equal(rvReq, reflect.ValueOf(val), it.goName); d != "" {
				fails.addFor("rc_request_decoder_value_differs", f.name, "%s: %s; input %s", id, d, c10Hex(query))
			}

			// client method over the fake connection
			respIt := resItem
			if i%4 == 3 {
				respIt = errItem
			}
			g.quiet = true
			rvResp, answer, err := g.build(respIt, i)
			g.quiet = false
			if err != nil {
				break
			}
			var outs []reflect.Value
			args := []reflect.Value{reflect.ValueOf(ctx)}
			if wantIn == 2 {
				args = append(args, rvReq)
			}
			if !exchange(f.name, id, query, answer, func() { outs = m.Call(args) }) || len(outs) != 2 {
				continue
			}
			gotErr, _ := outs[1].Interface().(error)
			if respIt == errItem {
				e, ok := gotErr.(LiteServerErrorC)
				if !ok || c10Equal(rvResp, reflect.ValueOf(e), "err") != "" {
					fails.addFor("rc_request_error_response_not_returned", f.name, "%s: server answered liteServer.error %s, method returned error %#v", id, c10GoSyntax(rvResp.Interface()), gotErr)
				}
				continue
			}
			if gotErr != nil {
				fails.addFor("rc_request_response_error", f.name, "%s: method returned error %v for answer %s", id, gotErr, c10Hex(answer))
			} else if d := c10Equal(rvResp, outs[0], resGo); d != "" {
				fails.addFor("rc_request_response_value_differs", f.name, "%s: %s; answer %s", id, d, c10Hex(answer))
			}
		}
	}

	// hand-written requests of client.go: waitMasterchainSeqno prefix (commented-out declaration of the schema)
	for i := 0; i < n; i++ {
		seqno, timeout := g.u32(), g.u32()
		prefix, err := c10Encode(wms, true, seqno, timeout)
		if err != nil {
			fails.add("rc_harness_schema_unexpected", "waitMasterchainSeqno: %v", err)
			break
		}
		note(prefix)
		okAnswer, _ := c10Encode(s.byCtor["liteServer.error"], true, uint32(0), []byte("ok"))
		var werr error
		id := fmt.Sprintf("WaitMasterchainSeqno(%d, %d)", seqno, timeout)
		if exchange("WaitMasterchainSeqno", id, prefix, okAnswer, func() { werr = client.WaitMasterchainSeqno(ctx, seqno, timeout) }) && werr != nil {
			fails.addFor("rc_request_response_error", "WaitMasterchainSeqno", "%s: error %v for liteServer.error code 0", id, werr)
		}

		lb, bid := byNameFunc(s, "liteServer.lookupBlock"), s.byCtor["tonNode.blockId"]
		if lb == nil || bid == nil || len(lb.fields) != 4 {
			fails.add("rc_harness_schema_unexpected", "lookupBlock / tonNode.blockId not in the schema as expected")
			break
		}
		blk, _ := c10Encode(bid, false, uint32(0xffffffff), uint64(0x8000000000000000), seqno)
		var q bytes.Buffer
		q.Write(prefix)
		c10Le32(&q, lb.id())
		c10Le32(&q, 1) // mode = 1: neither lt (bit 1) nor utime (bit 2)
		q.Write(blk)
		note(q.Bytes())
		hdrItem := &c10Item{label: "liteServer.BlockHeader", goName: s.goNameOfResult("liteServer.BlockHeader"), boxed: "liteServer.BlockHeader"}
		g.quiet = true
		rvResp, answer, err := g.build(hdrItem, i)
		g.quiet = false
		if err != nil {
			break
		}
		var res LiteServerBlockHeaderC
		id = fmt.Sprintf("WaitMasterchainBlock(%d, %d)", seqno, timeout)
		if exchange("WaitMasterchainBlock", id, q.Bytes(), answer, func() { res, werr = client.WaitMasterchainBlock(ctx, seqno, timeout) }) {
			if werr != nil {
				fails.addFor("rc_request_response_error", "WaitMasterchainBlock", "%s: error %v; answer %s", id, werr, c10Hex(answer))
			} else if d := c10Equal(rvResp, reflect.ValueOf(res), "res"); d != "" {
				fails.addFor("rc_request_response_value_differs", "WaitMasterchainBlock", "%s: %s; answer %s", id, d, c10Hex(answer))
			}
		}
	}
}

func byNameFunc(s *c10Schema, name string) *c10Ctor {
	for _, f := range s.funcs {
		if f.name == name {
			return f
		}
	}
	return nil
}

// c10ModeBitCorners: (a) guard bit set, optional pointer nil -> error, never a panic; (b) guard bit clear, optional
// field non-nil -> omitted.
func c10ModeBitCorners(s *c10Schema, g *c10Gen, items []*c10Item, fails *c10Failures, note func([]byte)) {
	g.quiet = true
	defer func() { g.quiet, g.allBits, g.noBits, g.fillAbsent = false, false, false, false }()
	seen := map[string]bool{}
	for _, it := range items {
		if it.goName == "LiteServerSignatureSet" {
			continue
		}
		g.allBits, g.noBits, g.fillAbsent = true, false, false
		rv, _, err := g.build(it, 1)
		if err != nil {
			continue
		}
		for _, op := range append([]c10OptPtr{}, g.optPtrFields...) {
			key := regexp.MustCompile(`\[[0-9]+\]`).ReplaceAllString(op.path, "[]")
			if seen[key] {
				continue
			}
			seen[key] = true
			old := reflect.New(op.ptr.Type()).Elem()
			old.Set(op.ptr)
			op.ptr.Set(reflect.Zero(op.ptr.Type()))
			note([]byte("nilopt:" + key))
			_, merr, p := c10Marshal(rv.Interface())
			if p != "" {
				fails.add("rc_mode_bit_set_nil_optional_panics", "%s = nil with its mode bit set: MarshalTL %s; value %s", key, p, c10GoSyntax(rv.Interface()))
			} else if merr == nil {
				fails.add("rc_mode_bit_set_nil_optional_no_error", "%s = nil with its mode bit set: MarshalTL returned no error; value %s", key, c10GoSyntax(rv.Interface()))
			}
			op.ptr.Set(old)
		}
		if it.combos <= 1 || it.ctor == nil {
			continue
		}
		g.allBits, g.noBits, g.fillAbsent = false, true, true
		for i := 0; i < 3; i++ {
			rv, exp, err := g.build(it, i)
			if err != nil {
				break
			}
			note(append([]byte("absent:"), exp...))
			got, merr, p := c10Marshal(rv.Interface())
			if p != "" {
				fails.addFor("rc_mode_bit_clear_nonnil_optional_panics", it.goName, "%s: guard bits clear, optional Go fields non-nil: %s; value %s", it.label, p, c10GoSyntax(rv.Interface()))
			} else if merr != nil {
				fails.addFor("rc_mode_bit_clear_nonnil_optional_error", it.goName, "%s: guard bits clear, optional Go fields non-nil: %v; value %s", it.label, merr, c10GoSyntax(rv.Interface()))
			} else if !bytes.Equal(got, exp) {
				fails.addFor("rc_mode_bit_clear_nonnil_optional_not_omitted", it.goName, "%s: guard bits clear, optional Go fields non-nil: %s err %v\n    expected %s\n    got      %s\n    value %s", it.label, p, merr, c10Hex(exp), c10Hex(got), c10GoSyntax(rv.Interface()))
			}
		}
	}
}

// c10HandWritten: ton.BlockIDExt / ton.AccountID (hand-written MarshalTL/UnmarshalTL) against tonNode.blockIdExt and
// liteServer.accountId of the schema, and the converters of extensions.go.
func c10HandWritten(g *c10Gen, items []*c10Item, n int, fails *c10Failures, note func([]byte)) {
	g.quiet = true
	defer func() { g.quiet = false }()
	for _, it := range items {
		if it.goName != "TonNodeBlockIdExtC" && it.goName != "LiteServerAccountIdC" {
			continue
		}
		for i := 0; i < n; i++ {
			rv, exp, err := g.build(it, i)
			if err != nil {
				break
			}
			note(append([]byte("ton:"), exp...))
			id := fmt.Sprintf("%s seed %d case %d, expected %s", it.goName, c10Seed(), i, c10Hex(exp))
			p := c10Safe(func() {
				switch v := rv.Interface().(type) {
				case TonNodeBlockIdExtC:
					tv := v.ToBlockIdExt()
					if tv.Workchain != int32(v.Workchain) || tv.Shard != v.Shard || tv.Seqno != v.Seqno || tv.RootHash != ton.Bits256(v.RootHash) || tv.FileHash != ton.Bits256(v.FileHash) {
						fails.add("rc_ton_blockidext_convert_differs", "%s: ToBlockIdExt() = %#v", id, tv)
					}
					if back := BlockIDExt(tv); back != v {
						fails.add("rc_ton_blockidext_convert_differs", "%s: BlockIDExt(ToBlockIdExt()) = %#v", id, back)
					}
					got, err := tv.MarshalTL()
					if err != nil || !bytes.Equal(got, exp) {
						fails.add("rc_ton_blockidext_marshal_differs", "%s: ton.BlockIDExt.MarshalTL = %s err %v", id, c10Hex(got), err)
					}
					got, err = tl.Marshal(tv)
					if err != nil || !bytes.Equal(got, exp) {
						fails.add("rc_ton_blockidext_marshal_differs", "%s: tl.Marshal(ton.BlockIDExt) = %s err %v", id, c10Hex(got), err)
					}
					var dec ton.BlockIDExt
					if err := dec.UnmarshalTL(exp); err != nil || dec != tv {
						fails.add("rc_ton_blockidext_unmarshal_differs", "%s: ton.BlockIDExt.UnmarshalTL = %#v err %v", id, dec, err)
					}
				case LiteServerAccountIdC:
					tv := ton.AccountID{Workchain: int32(v.Workchain), Address: v.Id}
					if back := AccountID(tv); back != v {
						fails.add("rc_ton_accountid_convert_differs", "%s: AccountID(%#v) = %#v", id, tv, back)
					}
					got, err := tl.Marshal(tv)
					if err != nil || !bytes.Equal(got, exp) {
						fails.add("rc_ton_accountid_marshal_differs", "%s: tl.Marshal(ton.AccountID) = %s err %v", id, c10Hex(got), err)
					}
					var dec ton.AccountID
					r := bytes.NewReader(exp)
					if err := tl.Unmarshal(r, &dec); err != nil || dec != tv || r.Len() != 0 {
						fails.add("rc_ton_accountid_unmarshal_differs", "%s: tl.Unmarshal(ton.AccountID) = %#v err %v rest %d", id, dec, err, r.Len())
					}
				}
			})
			if p != "" {
				fails.addFor("rc_ton_handwritten_panics", it.goName, "%s: %s", id, p)
			}
		}
	}
}

// c10HugeStrings: 2^24-1 bytes is the longest representable string; 2^24 must be refused, not truncated.
func c10HugeStrings(g *c10Gen, fails *c10Failures, note func([]byte)) {
	for _, n := range []int{1<<24 - 1, 1 << 24} {
		data := bytes.Repeat([]byte{0xab}, n)
		vals := []any{LiteServerSendMessageRequest{Body: data}, LiteServerErrorC{Code: 7, Message: string(data)}}
		for _, v := range vals {
			id := fmt.Sprintf("%T with a %d-byte string of 0xab", v, n)
			note([]byte(id))
			got, err, p := c10Marshal(v)
			if p != "" {
				fails.addFor("rc_huge_string_marshal_panics", fmt.Sprintf("%T_%d", v, n), "%s: %s", id, p)
				continue
			}
			if n == 1<<24-1 {
				if err != nil {
					continue // refusing is acceptable
				}
				var exp bytes.Buffer
				if _, ok := v.(LiteServerErrorC); ok {
					c10Le32(&exp, 7)
				}
				c10TLBytes(&exp, data)
				if !bytes.Equal(got, exp.Bytes()) {
					fails.add("rc_bytes_len_2pow24_minus1_wrong", "%s: first difference at offset %d: expected %s got %s", id, c10FirstDiff(exp.Bytes(), got), c10Hex(exp.Bytes()), c10Hex(got))
					continue
				}
				ptr := reflect.New(reflect.TypeOf(v))
				rest, uerr, p := c10Unmarshal(got, ptr.Interface())
				if p != "" || uerr != nil || rest != 0 || c10Equal(reflect.ValueOf(v), ptr.Elem(), "v") != "" {
					fails.add("rc_bytes_len_2pow24_minus1_not_decodable", "%s: does not decode back: %s err %v rest %d", id, p, uerr, rest)
				}
				continue
			}
			if err == nil {
				head := got
				if len(head) > 12 {
					head = head[:12]
				}
				fails.add("rc_bytes_len_2pow24_silently_truncated", "%s: Marshal returned no error and %d bytes starting with %s: the 24-bit length field cannot hold 2^24 (written length = %d)", id, len(got), hex.EncodeToString(head), n&0xffffff)
			}
		}
	}
}

// ---------------------------------------------------------------------------------------------------------------------
// Regenerate: the repository's generators, run in a temp module, reproduce the checked-in files

func c10CopyFile(dst, src string) error {
	b, err := os.ReadFile(src)
	if err != nil {
		return err
	}
	return os.WriteFile(dst, b, 0o644)
}

func c10LineDiff(a, b string) string {
	la, lb := strings.Split(a, "\n"), strings.Split(b, "\n")
	i := 0
	for i < len(la) && i < len(lb) && la[i] == lb[i] {
		i++
	}
	if i == len(la) && i == len(lb) {
		return ""
	}
	var sb strings.Builder
	fmt.Fprintf(&sb, "first difference at line %d (checked-in has %d lines, generator output %d)\n", i+1, len(la), len(lb))
	from := i - 2
	if from < 0 {
		from = 0
	}
	for k := from; k < i+5; k++ {
		if k < len(la) {
			fmt.Fprintf(&sb, "    - %5d: %s\n", k+1, la[k])
		}
	}
	for k := from; k < i+5; k++ {
		if k < len(lb) {
			fmt.Fprintf(&sb, "    + %5d: %s\n", k+1, lb[k])
		}
	}
	return sb.String()
}

func TestVerifStandin_C10_Regenerate(t *testing.T) {
	start := time.Now()
	fails := c10NewFailures("rc_generated_go_differs_from_generator", "rc_integers_go_differs_from_generator", "rc_generator_modified_repository")
	cases := 0
	defer func() {
		fmt.Printf("STANDIN-STAT name=C10_Regenerate cases=%d distinct=%d\n", cases, cases)
	}()
	repo, err := filepath.Abs("..")
	if err != nil {
		t.Fatal(err)
	}
	if _, err := os.Stat(filepath.Join(repo, "go.mod")); err != nil {
		t.Fatalf("repository root not found at %s: %v", repo, err)
	}
	goBin, err := exec.LookPath("go")
	if err != nil {
		t.Logf("SKIPPED: no go tool in PATH: %v", err)
		fails.report(t)
		return
	}
	tmp := t.TempDir()
	mod := "module verifgen\n\ngo 1.19\n\nrequire github.com/tonkeeper/tongo v0.0.0\n\nreplace github.com/tonkeeper/tongo => " + repo + "\n"
	if err := os.WriteFile(filepath.Join(tmp, "go.mod"), []byte(mod), 0o644); err != nil {
		t.Fatal(err)
	}
	_ = c10CopyFile(filepath.Join(tmp, "go.sum"), filepath.Join(repo, "go.sum"))

	type pair struct {
		cause, dir, out, checkedIn string
		inputs                     []string
	}
	pairs := []pair{
		{"rc_generated_go_differs_from_generator", "lc", "generated.go", filepath.Join(repo, "liteclient", "generated.go"),
			[]string{filepath.Join(repo, "liteclient", "generator.go"), filepath.Join(repo, "liteclient", "lite_api.tl")}},
		{"rc_integers_go_differs_from_generator", "tlbgen", "integers.go", filepath.Join(repo, "tlb", "integers.go"),
			[]string{filepath.Join(repo, "tlb", "generator.go")}},
	}
	env := append(os.Environ(), "GOFLAGS=-mod=mod", "GOPROXY=off", "GOSUMDB=off", "GOTOOLCHAIN=local", "GOWORK=off")
	for _, p := range pairs {
		before, err := os.ReadFile(p.checkedIn)
		if err != nil {
			t.Fatalf("read %s: %v", p.checkedIn, err)
		}
		dir := filepath.Join(tmp, p.dir)
		if err := os.Mkdir(dir, 0o755); err != nil {
			t.Fatal(err)
		}
		for _, in := range p.inputs {
			if err := c10CopyFile(filepath.Join(dir, filepath.Base(in)), in); err != nil {
				t.Fatal(err)
			}
		}
		ctx, cancel := context.WithTimeout(context.Background(), 4*time.Minute)
		cmd := exec.CommandContext(ctx, goBin, "run", "generator.go")
		cmd.Dir = dir
		cmd.Env = env
		var stderr bytes.Buffer
		cmd.Stderr = &stderr
		runErr := cmd.Run()
		cancel()
		if runErr != nil {
			msg := stderr.String()
			if len(msg) > 1500 {
				msg = msg[:1500]
			}
			t.Logf("SKIPPED %s: `go run generator.go` cannot be run here (offline module cache?): %v\n%s", p.out, runErr, msg)
			continue
		}
		produced, err := os.ReadFile(filepath.Join(dir, p.out))
		if err != nil {
			fails.add(p.cause, "generator ran but wrote no %s: %v", p.out, err)
			cases++
			continue
		}
		cases++
		after, _ := os.ReadFile(p.checkedIn)
		if !bytes.Equal(before, after) {
			fails.add("rc_generator_modified_repository", "%s changed while the generator ran", p.checkedIn)
		}
		fa, errA := format.Source(before)
		fb, errB := format.Source(produced)
		if errA != nil || errB != nil {
			fails.add(p.cause, "go/format: checked-in %v, generator output %v", errA, errB)
			continue
		}
		if !bytes.Equal(fa, fb) {
			fails.add(p.cause, "%s differs from the output of its generator: %s", p.checkedIn, c10LineDiff(string(fa), string(fb)))
		}
	}
	t.Logf("C10 regenerate: %d of %d generator/artifact pairs compared; elapsed %v", cases, len(pairs), time.Since(start).Round(time.Millisecond))
	fails.report(t)
}
