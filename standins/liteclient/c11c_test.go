//go:build verif

package liteclient

// Bounded stand-in for C11, part c (labelled bounded, never counted as proved): delivery of a packet must not depend on
// the CONTENT of its payload.
//
// Stands in for: "after the handshake every packet sent in either direction is received with exactly the payload that
// was sent", for payloads whose first bytes look like something the connection layer (liteclient/connection.go,
// liteclient/client.go) knows. c11_test.go / c11b_test.go use random payloads and explicitly avoid these prefixes.
//
// Oracle, from the property and the TL schema of the transport (ton_api.tl, tcp.* constructors):
//   - the only payloads a client's connection layer may consume itself are GENUINE transport control messages sent by
//     the server: tcp.pong = crc32("tcp.pong random_id:long = tcp.Pong") LE | 8-byte id, exactly 12 bytes, and a
//     well-formed tcp.authentificationNonce = id LE | one TL `bytes` value (length prefix, data, zero padding to a
//     multiple of 4) and nothing else. For exactly these the oracle is "delivered once or not at all".
//   - every other packet the server sends arrives on Connection.Responses() exactly once, in the order sent, with
//     exactly the bytes sent: also when it merely STARTS WITH a known constructor id (in either byte order), has the
//     length of a control message but another id, is empty, all-zero, all-0xff, equal to an earlier payload or contains
//     a complete frame.
//   - every payload given to Connection.Send reaches the server exactly once, in order, unaltered, whatever it contains
//     (there is no exception in this direction; on the tcp transport the library's own 12-byte tcp.ping packets, which
//     the test did not send, are answered with tcp.pong by the reference server and ignored).
//   Unremarkable marker payloads (6d 6b | sequence number | random) are interleaved, and every stream ends with a
//   sentinel, so that a dropped packet shows up as a shift and not as a timeout.
// The constructor ids are computed here as crc32 of the schema lines, not copied from the library.
// The peer is an in-process ADNL server written from the specification (same construction as in c11b_test.go: sha256
// key id, X25519 via math/big + crypto/ecdh, AES-256-CTR, frame = LE32(64+len) | nonce(32) | payload | sha256).
// Transports: "pipe" = net.Pipe with the client wired as newEncryptedConnection/setupEncryptedConnection do it;
// "tcp" = liteclient.NewConnection against a loopback listener (the public path, with the ping goroutine).
//
// Bound (quick / thorough); a case = one fresh connection with a fresh server key:
//   ServerToClient
//     1 prefix: 13 constructor ids (tcp.pong, tcp.ping, tcp.authentificate, tcp.authentificationNonce,
//       tcp.authentificationComplete, pub.ed25519, adnl.message.query, adnl.message.answer, liteServer.query,
//       liteServer.waitMasterchainSeqno, liteServer.error, liteServer.blockHeader, f644a6e6 of extensions.go) x
//       {little endian, big endian} x tail {random, zero} (thorough: + 0xff), one connection each with EVERY payload
//       length 4..40 plus {41,48,63,64,65,68,100,255,256,1000,4096} / 4..300 plus {1000,4028,4029,5000,65536}, a marker
//       after each; pipe one Write per frame; tcp (random tail) everything in one Write.
//       (tcp.authentificationNonce little endian is left to TestVerifStandin_C11_AuthNoncePrefixedContent, see there.)
//     2 genuine control messages: 12-byte tcp.pong with random / zero / all-ones ids, adjacent pongs, the same pong
//       twice, 11-, 13-, 8-, 4-byte and big-endian look-alikes, well-formed tcp.authentificationNonce with nonce
//       lengths {0,1,3,32,253,254,512}; pipe (two write modes) and tcp, + 10 / 300 random arrangements (one nonce each)
//     3 special: empty (x3), all-zero and all-0xff of lengths 1..40,64,68,1000, adjacent and distant repeats of an
//       earlier payload, payloads that are one or two complete frames (empty frame, frame with a pong inside, frame
//       with the previous payload inside, frame in a frame, frame minus its last byte, frame with a wrong checksum);
//       pipe (two write modes, and once without markers with random segmentation) and tcp
//     4 random mix: 80 / 3000 pipe + 10 / 100 tcp connections of 8..40 items drawn from all classes above plus random
//       payloads of 0..200 (sometimes up to 5000) bytes, random write segmentation
//     5 keep-alive: 1 / 3 tcp connections kept busy for 3.6 s in BOTH directions at once (one packet per 100 ms), so
//       that the library's real ping and the server's real pong are interleaved with the traffic
//   ClientToServer: the same lists 1-4 given to Connection.Send (all 26 prefixes, no exception)
// Payloads are compared only after the whole connection was received. Waits are limited to 3 s each; after 2 hanging
// cases on a transport the remaining cases of that transport are skipped (and not counted).

import (
	"bytes"
	"context"
	"crypto/aes"
	"crypto/cipher"
	"crypto/ecdh"
	"crypto/ed25519"
	"crypto/sha256"
	"crypto/sha512"
	"encoding/binary"
	"encoding/hex"
	"fmt"
	"hash/crc32"
	"io"
	"math/big"
	"math/rand"
	"net"
	"os"
	"sort"
	"strconv"
	"strings"
	"sync"
	"testing"
	"time"
)

const c11cWait = 3 * time.Second

func c11cSeed() int64 {
	if v, err := strconv.ParseInt(os.Getenv("VERIF_SEED"), 10, 64); err == nil {
		return v
	}
	return 1
}

func c11cThorough() bool { return os.Getenv("VERIF_TIER") == "thorough" }

// ---------------------------------------------------------------------------------------------------------------------
// constructor ids, from the schema

type c11cMagic struct {
	name string
	id   uint32
}

func c11cCRC(line string) uint32 { return crc32.ChecksumIEEE([]byte(line)) }

var (
	c11cPong      = c11cCRC("tcp.pong random_id:long = tcp.Pong")
	c11cPing      = c11cCRC("tcp.ping random_id:long = tcp.Pong")
	c11cAuthNonce = c11cCRC("tcp.authentificationNonce nonce:bytes = tcp.Message")
)

var c11cMagics = []c11cMagic{
	{"tcp.pong", c11cPong},
	{"tcp.ping", c11cPing},
	{"tcp.authentificate", c11cCRC("tcp.authentificate nonce:bytes = tcp.Message")},
	{"tcp.authentificationNonce", c11cAuthNonce},
	{"tcp.authentificationComplete", c11cCRC("tcp.authentificationComplete key:PublicKey signature:bytes = tcp.Message")},
	{"pub.ed25519", c11cCRC("pub.ed25519 key:int256 = PublicKey")},
	{"adnl.message.query", c11cCRC("adnl.message.query query_id:int256 query:bytes = adnl.Message")},
	{"adnl.message.answer", c11cCRC("adnl.message.answer query_id:int256 answer:bytes = adnl.Message")},
	{"liteServer.query", c11cCRC("liteServer.query data:bytes = Object")},
	{"liteServer.waitMasterchainSeqno", c11cCRC("liteServer.waitMasterchainSeqno seqno:int timeout_ms:int = Object")},
	{"liteServer.error", c11cCRC("liteServer.error code:int message:string = liteServer.Error")},
	{"liteServer.blockHeader", c11cCRC("liteServer.blockHeader id:tonNode.blockIdExt mode:# header_proof:bytes = liteServer.BlockHeader")},
	{"extensions.go:f644a6e6", 0xf644a6e6},
}

// c11cTLBytes = TL serialization of a `bytes` value.
func c11cTLBytes(data []byte) []byte {
	var b []byte
	if len(data) < 254 {
		b = append(b, byte(len(data)))
	} else {
		b = append(b, 0xfe, byte(len(data)), byte(len(data)>>8), byte(len(data)>>16))
	}
	b = append(b, data...)
	for len(b)%4 != 0 {
		b = append(b, 0)
	}
	return b
}

// c11cGenuineControl: is p, as a whole, one of the two messages a client's connection layer may consume itself?
func c11cGenuineControl(p []byte) bool {
	if len(p) < 4 {
		return false
	}
	switch binary.LittleEndian.Uint32(p) {
	case c11cPong:
		return len(p) == 12
	case c11cAuthNonce:
		b := p[4:]
		if len(b) < 4 || b[0] == 0xff {
			return false
		}
		var n, head int
		if b[0] < 254 {
			n, head = int(b[0]), 1
		} else {
			n, head = int(b[1])|int(b[2])<<8|int(b[3])<<16, 4
		}
		end := head + n
		if len(b) != (end+3)&^3 {
			return false
		}
		for _, x := range b[end:] {
			if x != 0 {
				return false
			}
		}
		return true
	}
	return false
}

// ---------------------------------------------------------------------------------------------------------------------
// failure collector: one rc_<cause> sub-test per known cause

type c11cFails struct {
	mu      sync.Mutex
	byCause map[string][]string
	count   map[string]int
	known   []string
	hangs   map[string]int
	skipped int
}

func c11cNewFails(known ...string) *c11cFails {
	return &c11cFails{byCause: map[string][]string{}, count: map[string]int{}, known: known, hangs: map[string]int{}}
}

func (f *c11cFails) add(cause, format string, args ...any) {
	f.mu.Lock()
	defer f.mu.Unlock()
	f.count[cause]++
	if len(f.byCause[cause]) < 6 {
		msg := fmt.Sprintf(format, args...)
		if len(msg) > 3000 {
			msg = msg[:3000] + "...(truncated)"
		}
		f.byCause[cause] = append(f.byCause[cause], msg)
	}
}

func (f *c11cFails) hang(transport string) {
	f.mu.Lock()
	f.hangs[transport]++
	f.mu.Unlock()
}

func (f *c11cFails) tooMany(transport string) bool {
	f.mu.Lock()
	defer f.mu.Unlock()
	if f.hangs[transport] >= 2 {
		f.skipped++
		return true
	}
	return false
}

func (f *c11cFails) report(t *testing.T) {
	names := map[string]bool{}
	for _, k := range f.known {
		names[k] = true
	}
	for k := range f.count {
		names[k] = true
	}
	var sorted []string
	for k := range names {
		sorted = append(sorted, k)
	}
	sort.Strings(sorted)
	for _, k := range sorted {
		k := k
		t.Run(k, func(t *testing.T) {
			if f.count[k] == 0 {
				return
			}
			t.Errorf("%d failing connection(s); first %d:", f.count[k], len(f.byCause[k]))
			for _, m := range f.byCause[k] {
				t.Errorf("  %s", m)
			}
		})
	}
	if f.skipped > 0 {
		t.Errorf("%d case(s) were skipped after 2 hanging cases on their transport", f.skipped)
	}
}

func c11cHex(b []byte) string {
	if len(b) <= 48 {
		return fmt.Sprintf("%d bytes %s", len(b), hex.EncodeToString(b))
	}
	return fmt.Sprintf("%d bytes %s...%s", len(b), hex.EncodeToString(b[:32]), hex.EncodeToString(b[len(b)-8:]))
}

// ---------------------------------------------------------------------------------------------------------------------
// reference server, from the specification

// c11cShared = X25519 between the server's ed25519 key (given by its seed) and the client's ed25519 public key.
func c11cShared(serverSeed, clientEdPub []byte) ([]byte, error) {
	if len(clientEdPub) != 32 {
		return nil, fmt.Errorf("client key of %d bytes", len(clientEdPub))
	}
	h := sha512.Sum512(serverSeed)
	priv, err := ecdh.X25519().NewPrivateKey(h[:32]) // clamped by the scalar multiplication
	if err != nil {
		return nil, err
	}
	be := make([]byte, 32)
	for i := 0; i < 32; i++ {
		be[i] = clientEdPub[31-i]
	}
	be[0] &= 0x7f // sign bit of x
	p := new(big.Int).Sub(new(big.Int).Lsh(big.NewInt(1), 255), big.NewInt(19))
	y := new(big.Int).SetBytes(be)
	num := new(big.Int).Add(big.NewInt(1), y)
	den := new(big.Int).Sub(big.NewInt(1), y)
	den.Mod(den, p)
	if den.Sign() == 0 {
		return nil, fmt.Errorf("client key has y = 1")
	}
	u := num.Mul(num, den.ModInverse(den, p))
	u.Mod(u, p)
	ub := u.FillBytes(make([]byte, 32))
	le := make([]byte, 32)
	for i := 0; i < 32; i++ {
		le[i] = ub[31-i]
	}
	pub, err := ecdh.X25519().NewPublicKey(le)
	if err != nil {
		return nil, err
	}
	return priv.ECDH(pub)
}

func c11cKeyID(edPub []byte) []byte {
	s := sha256.New()
	s.Write([]byte{0xc6, 0xb4, 0x13, 0x48})
	s.Write(edPub)
	return s.Sum(nil)
}

func c11cFrame(nonce, payload []byte) []byte {
	b := make([]byte, 4, 68+len(payload))
	binary.LittleEndian.PutUint32(b, uint32(64+len(payload)))
	b = append(b, nonce...)
	b = append(b, payload...)
	s := sha256.New()
	s.Write(nonce)
	s.Write(payload)
	return s.Sum(b)
}

type c11cRecv struct {
	payload []byte
	err     error
}

type c11cSrvConn struct {
	c   net.Conn
	enc cipher.Stream // server -> client
	dec cipher.Stream // client -> server
	wmu sync.Mutex
	ent *c11cEntry

	pmu   sync.Mutex
	pongs [][]byte // tcp.pong answers this server sent on its own (to pings the test did not send)
}

func c11cServerHandshake(c net.Conn, lookup func(keyID []byte) (*c11cEntry, []byte)) (*c11cSrvConn, error) {
	req := make([]byte, 256)
	if _, err := io.ReadFull(c, req); err != nil {
		return nil, fmt.Errorf("reading the 256-byte handshake request: %v", err)
	}
	ent, seed := lookup(req[:32])
	if seed == nil {
		return nil, fmt.Errorf("handshake request for unknown key id %x", req[:32])
	}
	pub := ed25519.NewKeyFromSeed(seed).Public().(ed25519.PublicKey)
	if !bytes.Equal(req[:32], c11cKeyID(pub)) {
		return nil, fmt.Errorf("key id %x, want %x", req[:32], c11cKeyID(pub))
	}
	shared, err := c11cShared(seed, req[32:64])
	if err != nil {
		return nil, fmt.Errorf("shared secret with client key %x: %v", req[32:64], err)
	}
	hash := req[64:96]
	key := append(append([]byte{}, shared[0:16]...), hash[16:32]...)
	iv := append(append([]byte{}, hash[0:4]...), shared[20:32]...)
	blk, err := aes.NewCipher(key)
	if err != nil {
		return nil, err
	}
	params := make([]byte, 160)
	cipher.NewCTR(blk, iv).XORKeyStream(params, req[96:256])
	if sum := sha256.Sum256(params); !bytes.Equal(sum[:], hash) {
		return nil, fmt.Errorf("sha256 of the decrypted session parameters %x, request says %x", sum, hash)
	}
	down, err := aes.NewCipher(params[0:32])
	if err != nil {
		return nil, err
	}
	up, err := aes.NewCipher(params[32:64])
	if err != nil {
		return nil, err
	}
	return &c11cSrvConn{
		c:   c,
		enc: cipher.NewCTR(down, params[64:80]),
		dec: cipher.NewCTR(up, params[80:96]),
		ent: ent,
	}, nil
}

// writeStream encrypts plain with the server->client stream and writes it in the given segments (the rest in one).
func (s *c11cSrvConn) writeStream(plain []byte, seg []int, gap time.Duration) error {
	s.wmu.Lock()
	defer s.wmu.Unlock()
	buf := append([]byte{}, plain...)
	s.enc.XORKeyStream(buf, buf)
	off := 0
	write := func(i, n int) error {
		if off+n > len(buf) {
			n = len(buf) - off
		}
		if n <= 0 {
			return nil
		}
		s.c.SetWriteDeadline(time.Now().Add(2 * c11cWait))
		if _, err := s.c.Write(buf[off : off+n]); err != nil {
			return fmt.Errorf("server write of segment %d (offset %d, %d bytes): %v", i, off, n, err)
		}
		off += n
		return nil
	}
	for i, n := range seg {
		if err := write(i, n); err != nil {
			return err
		}
	}
	return write(len(seg), len(buf)-off)
}

// recvLoop parses client->server frames. With autoPong (tcp) a 12-byte tcp.ping that the test did not send itself is
// the library's keep-alive: it is answered with tcp.pong and not reported.
func (s *c11cSrvConn) recvLoop(autoPong bool, own map[string]bool, out chan<- c11cRecv) {
	defer close(out)
	for {
		var l [4]byte
		if _, err := io.ReadFull(s.c, l[:]); err != nil {
			out <- c11cRecv{err: fmt.Errorf("reading a frame length: %v", err)}
			return
		}
		s.dec.XORKeyStream(l[:], l[:])
		n := int(binary.LittleEndian.Uint32(l[:]))
		if n < 64 || n > 8<<20 {
			out <- c11cRecv{err: fmt.Errorf("decrypted frame length %d (%x) outside 64..8MiB", n, l)}
			return
		}
		data := make([]byte, n)
		if _, err := io.ReadFull(s.c, data); err != nil {
			out <- c11cRecv{err: fmt.Errorf("reading a frame body of %d bytes: %v", n, err)}
			return
		}
		s.dec.XORKeyStream(data, data)
		if sum := sha256.Sum256(data[:n-32]); !bytes.Equal(sum[:], data[n-32:]) {
			out <- c11cRecv{err: fmt.Errorf("frame checksum %x, computed %x (frame body %s)", data[n-32:], sum, c11cHex(data))}
			return
		}
		payload := data[32 : n-32]
		if autoPong && len(payload) == 12 && binary.LittleEndian.Uint32(payload) == c11cPing && !own[string(payload)] {
			pong := make([]byte, 12)
			binary.LittleEndian.PutUint32(pong, c11cPong)
			copy(pong[4:], payload[4:])
			s.pmu.Lock()
			s.pongs = append(s.pongs, pong)
			s.pmu.Unlock()
			go s.writeStream(c11cFrame(make([]byte, 32), pong), nil, 0)
			continue
		}
		out <- c11cRecv{payload: payload}
	}
}

func (s *c11cSrvConn) sentPong(p []byte) bool {
	s.pmu.Lock()
	defer s.pmu.Unlock()
	for _, q := range s.pongs {
		if bytes.Equal(p, q) {
			return true
		}
	}
	return false
}

func (s *c11cSrvConn) idle() {
	out := make(chan c11cRecv, 16)
	go s.recvLoop(true, nil, out)
	go func() {
		for range out {
		}
	}()
}

// ---------------------------------------------------------------------------------------------------------------------
// harness

type c11cEntry struct {
	seed    []byte
	ch      chan c11cAccepted
	claimed bool
}

type c11cAccepted struct {
	srv *c11cSrvConn
	err error
}

type c11cDialed struct {
	conn *Connection
	err  error
}

type c11cH struct {
	t        *testing.T
	seed     int64
	rng      *rand.Rand
	fails    *c11cFails
	cases    int
	packets  int
	distinct map[string]bool
	seq      int

	ln  net.Listener
	mu  sync.Mutex
	reg map[string]*c11cEntry
}

func c11cNewH(t *testing.T, salt int64, known ...string) *c11cH {
	h := &c11cH{t: t, seed: c11cSeed(), fails: c11cNewFails(known...), distinct: map[string]bool{}, reg: map[string]*c11cEntry{}}
	h.rng = rand.New(rand.NewSource(h.seed*1000 + salt))
	ln, err := net.Listen("tcp", "127.0.0.1:0")
	if err != nil {
		t.Fatalf("loopback listener: %v", err)
	}
	// The listener is deliberately left open until the process exits: connections made by NewConnection cannot be
	// closed by the caller and reconnect for ever; a reconnect is served (handshake, pongs) instead of being refused.
	h.ln = ln
	go func() {
		for {
			c, err := ln.Accept()
			if err != nil {
				return
			}
			go h.serveTCP(c)
		}
	}()
	return h
}

func (h *c11cH) serveTCP(c net.Conn) {
	c.SetReadDeadline(time.Now().Add(c11cWait))
	srv, err := c11cServerHandshake(c, func(id []byte) (*c11cEntry, []byte) {
		h.mu.Lock()
		defer h.mu.Unlock()
		if e := h.reg[string(id)]; e != nil {
			return e, e.seed
		}
		return nil, nil
	})
	c.SetReadDeadline(time.Time{})
	if err != nil {
		c.Close()
		return // establish reports the missing handshake
	}
	h.mu.Lock()
	first := !srv.ent.claimed
	srv.ent.claimed = true
	h.mu.Unlock()
	if first {
		srv.ent.ch <- c11cAccepted{srv: srv}
		return
	}
	// a reconnect of an earlier connection: confirm and keep it alive
	go srv.writeStream(c11cFrame(make([]byte, 32), nil), nil, 0)
	srv.idle()
}

// c11cDialPipe wires a client on an existing net.Conn the way newEncryptedConnection + setupEncryptedConnection do.
func c11cDialPipe(serverPub []byte, conn net.Conn) (*Connection, error) {
	a, err := NewAddress(serverPub)
	if err != nil {
		return nil, err
	}
	param, err := newParameters()
	if err != nil {
		return nil, err
	}
	ci, err := aes.NewCipher(param.txKey())
	if err != nil {
		return nil, err
	}
	dci, err := aes.NewCipher(param.rxKey())
	if err != nil {
		return nil, err
	}
	keys, err := newKeys(a.pubkey)
	if err != nil {
		return nil, err
	}
	ec := &encryptedConn{
		cipher:   cipher.NewCTR(ci, param.txNonce()),
		decipher: cipher.NewCTR(dci, param.rxNonce()),
		conn:     conn,
	}
	if err := ec.handshake(a, param, keys); err != nil {
		return nil, err
	}
	c := &Connection{
		peerPublicKey:    serverPub,
		resp:             make(chan Packet),
		status:           Connected,
		authCompleteChan: make(chan error),
		econn:            ec,
		pings:            make(map[uint64]time.Time, 5),
	}
	go c.reader(ec.handleIncomingPackets())
	return c, nil
}

// establish starts a client (in a goroutine) and returns the server side after it has read the handshake request.
// The confirmation is NOT yet written. done(ok) releases the connection.
func (h *c11cH) establish(transport string) (*c11cSrvConn, chan c11cDialed, func(ok bool), error) {
	seed := make([]byte, 32)
	h.rng.Read(seed)
	pub := []byte(ed25519.NewKeyFromSeed(seed).Public().(ed25519.PublicKey))
	dialed := make(chan c11cDialed, 1)
	run := func(f func() (*Connection, error)) {
		go func() {
			defer func() {
				if r := recover(); r != nil {
					dialed <- c11cDialed{err: fmt.Errorf("panic in the client handshake: %v", r)}
				}
			}()
			conn, err := f()
			dialed <- c11cDialed{conn: conn, err: err}
		}()
	}
	if transport == "pipe" {
		cli, srvc := net.Pipe()
		run(func() (*Connection, error) { return c11cDialPipe(pub, cli) })
		srvc.SetReadDeadline(time.Now().Add(c11cWait))
		srv, err := c11cServerHandshake(srvc, func([]byte) (*c11cEntry, []byte) { return nil, seed })
		srvc.SetReadDeadline(time.Time{})
		closeAll := func(bool) { cli.Close(); srvc.Close() }
		if err != nil {
			closeAll(false)
			return nil, nil, nil, err
		}
		return srv, dialed, closeAll, nil
	}
	ent := &c11cEntry{seed: seed, ch: make(chan c11cAccepted, 1)}
	h.mu.Lock()
	h.reg[string(c11cKeyID(pub))] = ent
	h.mu.Unlock()
	run(func() (*Connection, error) {
		ctx, cancel := context.WithTimeout(context.Background(), c11cWait)
		defer cancel()
		return NewConnection(ctx, pub, h.ln.Addr().String())
	})
	select {
	case a := <-ent.ch:
		srv := a.srv
		return srv, dialed, func(ok bool) {
			if !ok {
				srv.c.Close() // unblocks whatever hangs; the client's reconnect is served by serveTCP
			}
			// ok: the connection stays open and is kept alive by recvLoop's pongs (there is no Connection.Close)
		}, nil
	case d := <-dialed:
		return nil, nil, nil, fmt.Errorf("NewConnection returned (%v) before the server saw a valid handshake request", d.err)
	case <-time.After(c11cWait):
		return nil, nil, nil, fmt.Errorf("hang: no valid handshake request within %v", c11cWait)
	}
}

// ---------------------------------------------------------------------------------------------------------------------
// payload lists

type c11cItem struct {
	p         []byte
	class     string
	optional  bool   // a genuine control message: the receiving connection layer may consume it
	dropCause string // rc_ name used when exactly this packet is missing
}

const (
	c11cDropMagic = "rc_magic_prefixed_payload_dropped"
	c11cDropOther = "rc_payload_dropped"
	c11cDropAuth  = "rc_auth_nonce_prefixed_payload_dropped"
)

type c11cList struct {
	h     *c11cH
	items []c11cItem
	marks bool
}

func (h *c11cH) list(marks bool) *c11cList { return &c11cList{h: h, marks: marks} }

func (l *c11cList) raw(class, dropCause string, p []byte) {
	if dropCause == c11cDropOther && len(p) >= 4 { // e.g. a repeat of a prefixed payload
		for _, m := range c11cMagics {
			if binary.LittleEndian.Uint32(p) == m.id || binary.BigEndian.Uint32(p) == m.id {
				dropCause = c11cDropMagic
			}
		}
	}
	l.items = append(l.items, c11cItem{p: p, class: class, optional: c11cGenuineControl(p), dropCause: dropCause})
}

// marker: 6d 6b | sequence | 4..12 random bytes (8..16 bytes, 12 included); never looks like a constructor id.
func (h *c11cH) marker() []byte {
	h.seq++
	p := make([]byte, 8+h.rng.Intn(9))
	h.rng.Read(p)
	p[0], p[1], p[2], p[3] = 0x6d, 0x6b, byte(h.seq), byte(h.seq>>8)
	return p
}

func (l *c11cList) mark() { l.raw("marker", c11cDropOther, l.h.marker()) }

func (l *c11cList) add(class, dropCause string, p []byte) {
	l.raw(class, dropCause, p)
	if l.marks {
		l.mark()
	}
}

func c11cPrefix(id uint32, bigEndian bool) []byte {
	b := make([]byte, 4)
	if bigEndian {
		binary.BigEndian.PutUint32(b, id)
	} else {
		binary.LittleEndian.PutUint32(b, id)
	}
	return b
}

// prefixed = 4-byte id | tail of the given kind, n bytes in all.
func (h *c11cH) prefixed(id uint32, bigEndian bool, n int, tail string) []byte {
	p := make([]byte, n)
	switch tail {
	case "random":
		h.rng.Read(p)
	case "ff":
		for i := range p {
			p[i] = 0xff
		}
	}
	copy(p, c11cPrefix(id, bigEndian))
	return p
}

func c11cOrder(bigEndian bool) string {
	if bigEndian {
		return "BE"
	}
	return "LE"
}

func (l *c11cList) prefixedAll(m c11cMagic, bigEndian bool, tail string, lengths []int, dropCause string) {
	for _, n := range lengths {
		l.add(fmt.Sprintf("%s-%s-prefix/len=%d/tail=%s", m.name, c11cOrder(bigEndian), n, tail), dropCause, l.h.prefixed(m.id, bigEndian, n, tail))
	}
}

func (h *c11cH) pong(id []byte) []byte {
	p := make([]byte, 12)
	binary.LittleEndian.PutUint32(p, c11cPong)
	if id == nil {
		h.rng.Read(p[4:])
	} else {
		copy(p[4:], id)
	}
	return p
}

func (h *c11cH) authNonce(n int) []byte {
	nonce := make([]byte, n)
	h.rng.Read(nonce)
	return append(c11cPrefix(c11cAuthNonce, false), c11cTLBytes(nonce)...)
}

func (h *c11cH) nonce() []byte {
	n := make([]byte, 32)
	h.rng.Read(n)
	return n
}

func (h *c11cH) random(n int, down bool) []byte {
	p := make([]byte, n)
	h.rng.Read(p)
	if down && n >= 4 && binary.LittleEndian.Uint32(p) == c11cAuthNonce && !c11cGenuineControl(p) {
		p[0] ^= 0x55 // see TestVerifStandin_C11_AuthNoncePrefixedContent
	}
	return p
}

func c11cFill(n int, v byte) []byte { return bytes.Repeat([]byte{v}, n) }

func c11cLengths(thorough bool) []int {
	var s []int
	if thorough {
		for n := 4; n <= 300; n++ {
			s = append(s, n)
		}
		return append(s, 1000, 4028, 4029, 5000, 65536)
	}
	for n := 4; n <= 40; n++ {
		s = append(s, n)
	}
	return append(s, 41, 48, 63, 64, 65, 68, 100, 255, 256, 1000, 4096)
}

// genuine: control messages and their look-alikes.
func (l *c11cList) genuine(nonceLens []int) {
	h := l.h
	l.mark()
	l.add("tcp.pong/random-id", c11cDropMagic, h.pong(nil))
	l.add("tcp.pong/zero-id", c11cDropMagic, h.pong(make([]byte, 8)))
	l.add("tcp.pong/ones-id", c11cDropMagic, h.pong(c11cFill(8, 0xff)))
	l.raw("tcp.pong/adjacent-1", c11cDropMagic, h.pong(nil))
	l.raw("tcp.pong/adjacent-2", c11cDropMagic, h.pong(nil))
	same := h.pong(nil)
	l.raw("tcp.pong/same-1", c11cDropMagic, same)
	l.add("tcp.pong/same-2", c11cDropMagic, append([]byte{}, same...))
	l.add("pong-lookalike/11-bytes", c11cDropMagic, h.pong(nil)[:11])
	l.add("pong-lookalike/13-bytes", c11cDropMagic, append(h.pong(nil), 0))
	l.add("pong-lookalike/8-bytes", c11cDropMagic, h.pong(nil)[:8])
	l.add("pong-lookalike/4-bytes", c11cDropMagic, h.pong(nil)[:4])
	l.add("pong-lookalike/12-bytes-big-endian-id", c11cDropMagic, h.prefixed(c11cPong, true, 12, "random"))
	l.add("pong-lookalike/12-bytes-tcp.ping-id", c11cDropMagic, h.prefixed(c11cPing, false, 12, "random"))
	l.raw("pong-lookalike/16-bytes", c11cDropMagic, h.prefixed(c11cPong, false, 16, "random"))
	l.raw("tcp.pong/after-lookalike", c11cDropMagic, h.pong(nil))
	l.add("pong-lookalike/20-bytes", c11cDropMagic, h.prefixed(c11cPong, false, 20, "random"))
	for _, n := range nonceLens {
		l.add(fmt.Sprintf("tcp.authentificationNonce/nonce=%d", n), c11cDropMagic, h.authNonce(n))
	}
}

// frameInside: payloads that are themselves complete frames.
func (l *c11cList) frameInside(prev []byte) {
	h := l.h
	l.add("frame-inside/empty-frame", c11cDropOther, c11cFrame(h.nonce(), nil))
	l.add("frame-inside/zero-nonce-empty-frame", c11cDropOther, c11cFrame(make([]byte, 32), nil))
	l.add("frame-inside/frame-with-pong", c11cDropOther, c11cFrame(h.nonce(), h.pong(nil)))
	l.add("frame-inside/frame-with-previous-payload", c11cDropOther, c11cFrame(h.nonce(), prev))
	l.add("frame-inside/two-frames", c11cDropOther, append(c11cFrame(h.nonce(), h.marker()), c11cFrame(h.nonce(), nil)...))
	l.add("frame-inside/frame-in-frame", c11cDropOther, c11cFrame(h.nonce(), c11cFrame(h.nonce(), h.random(5, true))))
	f := c11cFrame(h.nonce(), h.marker())
	l.add("frame-inside/frame-without-its-last-byte", c11cDropOther, append([]byte{}, f[:len(f)-1]...))
	f = c11cFrame(h.nonce(), h.marker())
	f[len(f)-1] ^= 1
	l.add("frame-inside/frame-with-wrong-checksum", c11cDropOther, f)
}

// special: class 3.
func (l *c11cList) special() {
	h := l.h
	l.mark()
	l.raw("empty", c11cDropOther, nil)
	l.add("empty", c11cDropOther, []byte{})
	l.add("empty", c11cDropOther, nil)
	lens := []int{1, 2, 3, 4, 5, 6, 7, 8, 9, 10, 11, 12, 13, 14, 15, 16, 17, 18, 19, 20, 21, 22, 23, 24, 25, 26, 27, 28, 29, 30, 31, 32, 33, 34, 35, 36, 37, 38, 39, 40, 64, 68, 1000}
	for _, n := range lens {
		l.add(fmt.Sprintf("all-zero/len=%d", n), c11cDropOther, c11cFill(n, 0))
	}
	for _, n := range lens {
		l.add(fmt.Sprintf("all-ff/len=%d", n), c11cDropOther, c11cFill(n, 0xff))
	}
	// repeats: three times the same payload in a row, then a payload seen 10 items earlier, then the very first
	r := h.random(24, true)
	l.raw("repeat/first", c11cDropOther, r)
	l.raw("repeat/second-adjacent", c11cDropOther, append([]byte{}, r...))
	l.add("repeat/third-adjacent", c11cDropOther, append([]byte{}, r...))
	l.add("repeat/of-10-items-earlier", c11cDropOther, append([]byte{}, l.items[len(l.items)-10].p...))
	l.add("repeat/of-the-first-marker", c11cDropOther, append([]byte{}, l.items[0].p...))
	l.raw("repeat/zero-12", c11cDropOther, c11cFill(12, 0))
	l.add("repeat/zero-12-again", c11cDropOther, c11cFill(12, 0))
	l.frameInside(r)
}

// mix: class 4, k items drawn from all classes.
func (l *c11cList) mix(k int, down bool) {
	h := l.h
	for i := 0; i < k; i++ {
		switch c := h.rng.Intn(12); c {
		case 0, 1, 2:
			m := c11cMagics[h.rng.Intn(len(c11cMagics))]
			be := h.rng.Intn(3) == 0
			if down && m.id == c11cAuthNonce && !be {
				m = c11cMagics[0]
			}
			n := 4 + h.rng.Intn(37)
			if h.rng.Intn(8) == 0 {
				n = []int{64, 68, 100, 255, 1000, 4096}[h.rng.Intn(6)]
			}
			tail := []string{"random", "random", "zero", "ff"}[h.rng.Intn(4)]
			l.raw(fmt.Sprintf("%s-%s-prefix/len=%d/tail=%s", m.name, c11cOrder(be), n, tail), c11cDropMagic, h.prefixed(m.id, be, n, tail))
		case 3:
			l.raw("tcp.pong/random-id", c11cDropMagic, h.pong(nil))
		case 4:
			l.raw("all-zero", c11cDropOther, c11cFill(h.rng.Intn(41), 0))
		case 5:
			l.raw("all-ff", c11cDropOther, c11cFill(h.rng.Intn(41), 0xff))
		case 6:
			l.raw("empty", c11cDropOther, nil)
		case 7:
			if len(l.items) > 0 {
				l.raw("repeat", c11cDropOther, append([]byte{}, l.items[h.rng.Intn(len(l.items))].p...))
			}
		case 8:
			inner := h.random(h.rng.Intn(30), down)
			if h.rng.Intn(2) == 0 {
				inner = h.pong(nil)
			}
			l.raw("frame-inside", c11cDropOther, c11cFrame(h.nonce(), inner))
		case 9, 10:
			n := h.rng.Intn(201)
			if h.rng.Intn(10) == 0 {
				n = h.rng.Intn(5001)
			}
			l.raw("random", c11cDropOther, h.random(n, down))
		default:
			l.mark()
		}
		if h.rng.Intn(2) == 0 {
			l.mark()
		}
	}
}

// ---------------------------------------------------------------------------------------------------------------------
// comparison of what was sent with what arrived

type c11cFinding struct {
	cause string
	msg   string
}

// c11cCompare aligns got with sent. allowed(g): g is a packet the other side sent outside the list (keep-alive).
// complete: the sentinel (last item of sent) was seen.
func c11cCompare(sent []c11cItem, got [][]byte, allowed func([]byte) bool, complete bool, dir string) []c11cFinding {
	var out []c11cFinding
	add := func(cause, format string, args ...any) {
		if len(out) < 40 {
			out = append(out, c11cFinding{cause, fmt.Sprintf(format, args...)})
		}
	}
	find := func(items []c11cItem, base int, g []byte) int {
		for k := range items {
			if bytes.Equal(items[k].p, g) {
				return base + k
			}
		}
		return -1
	}
	inGot := func(from int, p []byte) bool {
		for _, g := range got[from:] {
			if bytes.Equal(g, p) {
				return true
			}
		}
		return false
	}
	i := 0
	for j := 0; j < len(got); j++ {
		g := got[j]
		for i < len(sent) && sent[i].optional && !bytes.Equal(g, sent[i].p) {
			i++
		}
		if i < len(sent) && bytes.Equal(g, sent[i].p) {
			i++
			continue
		}
		if allowed != nil && allowed(g) {
			continue
		}
		if k := -1; i < len(sent) {
			if k = find(sent[i+1:], i+1, g); k >= 0 {
				for m := i; m < k; m++ {
					if sent[m].optional {
						continue
					}
					if inGot(j+1, sent[m].p) {
						add("rc_order_changed", "packet #%d [%s] %s was %s AFTER packet #%d [%s] which had been sent later", m, sent[m].class, c11cHex(sent[m].p), dir, k, sent[k].class)
					} else {
						add(sent[m].dropCause, "packet #%d [%s] %s was never %s: in its place came packet #%d [%s] %s", m, sent[m].class, c11cHex(sent[m].p), dir, k, sent[k].class, c11cHex(g))
					}
				}
				i = k + 1
				continue
			}
		}
		if j > 0 && bytes.Equal(g, got[j-1]) {
			add("rc_duplicate", "arrival %d repeats arrival %d although it was sent once: %s", j, j-1, c11cHex(g))
			continue
		}
		if k := find(sent[:i], 0, g); k >= 0 {
			add("rc_order_changed", "arrival %d is packet #%d [%s] %s, %s late or a second time (expected now: packet #%d)", j, k, sent[k].class, c11cHex(g), dir, i)
			continue
		}
		if i < len(sent) {
			add("rc_payload_altered", "arrival %d is %s, which is none of the payloads sent; expected packet #%d [%s] %s", j, c11cHex(g), i, sent[i].class, c11cHex(sent[i].p))
			if len(g) == len(sent[i].p) {
				i++
				continue
			}
		} else {
			add("rc_payload_altered", "arrival %d, after the last packet sent, is %s, which is none of the payloads sent", j, c11cHex(g))
		}
		return out
	}
	for i < len(sent) && sent[i].optional {
		i++
	}
	if i < len(sent) && len(out) == 0 {
		state := "the stream was not complete"
		if complete {
			state = "the sentinel arrived"
		}
		add("rc_hang", "only %d arrivals, all right so far, but packet #%d of %d [%s] %s was not %s within %v (%s)", len(got), i, len(sent), sent[i].class, c11cHex(sent[i].p), dir, c11cWait, state)
	}
	return out
}

// ---------------------------------------------------------------------------------------------------------------------
// one connection

type c11cOpts struct {
	mode string        // server writes: "each" = one Write per frame, "one" = everything in one Write, "rand" = random segments
	gap  time.Duration // pause between frames (each) and between Sends
}

func (h *c11cH) sentinel(dropCause string) c11cItem {
	p := h.marker()
	p[0], p[1] = 0x65, 0x6e // "en"d
	return c11cItem{p: p, class: "sentinel", dropCause: dropCause}
}

// run: the server writes confirmation + one frame per item of down (+ sentinel); the client Sends every item of up
// (+ sentinel); both at the same time when both are given.
func (h *c11cH) run(key, transport string, o c11cOpts, down, up []c11cItem) {
	if h.fails.tooMany(transport) {
		return
	}
	h.cases++
	h.distinct[key] = true
	if len(down) > 0 {
		down = append(append([]c11cItem{}, down...), h.sentinel(c11cDropOther))
	}
	if len(up) > 0 {
		up = append([]c11cItem{}, up...)
		for i := range up {
			up[i].optional = false // nothing may be consumed on the way to the server
		}
		up = append(up, h.sentinel(c11cDropOther))
	}
	h.packets += len(down) + len(up)
	desc := fmt.Sprintf("%s [VERIF_SEED=%d transport=%s writes=%s] %d packets server->client, %d packets client->server", key, h.seed, transport, o.mode, len(down), len(up))
	fail := func(cause, format string, args ...any) {
		if cause == "rc_hang" {
			h.fails.hang(transport)
		}
		h.fails.add(cause, "%s: %s", desc, fmt.Sprintf(format, args...))
	}

	srv, dialed, done, err := h.establish(transport)
	if err != nil {
		cause := "rc_handshake"
		if strings.HasPrefix(err.Error(), "hang") {
			cause = "rc_hang"
		}
		fail(cause, "%v", err)
		return
	}
	ok := false
	defer func() { done(ok) }()

	own := map[string]bool{}
	for _, it := range up {
		if len(it.p) == 12 {
			own[string(it.p)] = true
		}
	}
	in := make(chan c11cRecv, 64)
	go srv.recvLoop(transport == "tcp", own, in)
	defer func() {
		go func() {
			for range in {
			}
		}()
	}()

	// server -> client stream
	plain := c11cFrame(h.nonce(), nil)
	seg := []int{len(plain)}
	for _, it := range down {
		f := c11cFrame(h.nonce(), it.p)
		plain = append(plain, f...)
		seg = append(seg, len(f))
	}
	switch o.mode {
	case "one":
		seg = nil
	case "rand":
		seg = nil
		max := []int{3, 17, 70, 500, 5000}[h.rng.Intn(5)]
		for total := len(plain); total > 0; {
			k := 1 + h.rng.Intn(max)
			if k > total {
				k = total
			}
			seg = append(seg, k)
			total -= k
		}
	}
	werr := make(chan error, 1)
	go func() {
		if o.gap == 0 || o.mode != "each" {
			werr <- srv.writeStream(plain, seg, 0)
			return
		}
		off := 0
		for _, n := range seg { // one lock per frame: the server's own pongs can go in between
			if err := srv.writeStream(plain[off:off+n], nil, 0); err != nil {
				werr <- err
				return
			}
			off += n
			time.Sleep(o.gap)
		}
		werr <- nil
	}()

	var conn *Connection
	select {
	case d := <-dialed:
		if d.err != nil {
			fail("rc_handshake", "client handshake failed: %v", d.err)
			return
		}
		conn = d.conn
	case <-time.After(c11cWait):
		fail("rc_hang", "hang: the client handshake did not return within %v", c11cWait)
		return
	}

	// client -> server stream
	serr := make(chan error, 1)
	go func() {
		defer func() {
			if r := recover(); r != nil {
				serr <- fmt.Errorf("panic in Connection.Send: %v", r)
			}
		}()
		for i, it := range up {
			pk, err := NewPacket(append([]byte{}, it.p...))
			if err == nil {
				err = conn.Send(pk)
			}
			if err != nil {
				serr <- fmt.Errorf("Send of packet #%d [%s] %s: %v", i, it.class, c11cHex(it.p), err)
				return
			}
			if o.gap > 0 {
				time.Sleep(o.gap)
			}
		}
		serr <- nil
	}()

	var wg sync.WaitGroup
	var gotDown, gotUp [][]byte
	var downComplete, upComplete bool
	var upErr error
	if len(down) > 0 {
		wg.Add(1)
		go func() {
			defer wg.Done()
			last := down[len(down)-1].p
			for {
				select {
				case p := <-conn.Responses():
					gotDown = append(gotDown, p.Payload) // not copied: must stay intact while later packets arrive
					if bytes.Equal(p.Payload, last) {
						downComplete = true
						time.Sleep(time.Millisecond)
						select {
						case p := <-conn.Responses():
							gotDown = append(gotDown, p.Payload)
						default:
						}
						return
					}
				case <-time.After(c11cWait):
					return
				}
			}
		}()
	}
	if len(up) > 0 {
		wg.Add(1)
		go func() {
			defer wg.Done()
			last := up[len(up)-1].p
			for {
				select {
				case r, open := <-in:
					if !open {
						return
					}
					if r.err != nil {
						upErr = r.err
						return
					}
					gotUp = append(gotUp, r.payload)
					if bytes.Equal(r.payload, last) {
						upComplete = true
						return
					}
				case <-time.After(c11cWait):
					return
				}
			}
		}()
	}
	wg.Wait()

	bad := false
	report := func(fs []c11cFinding, sent []c11cItem) {
		byCause := map[string][]string{}
		var order []string
		for _, f := range fs {
			if byCause[f.cause] == nil {
				order = append(order, f.cause)
			}
			byCause[f.cause] = append(byCause[f.cause], f.msg)
		}
		for _, c := range order {
			bad = true
			ms := byCause[c]
			n := len(ms)
			if n > 5 {
				ms = ms[:5]
			}
			fail(c, "%d packet(s): %s", n, strings.Join(ms, " || "))
		}
	}
	if len(down) > 0 {
		report(c11cCompare(down, gotDown, func(g []byte) bool { return len(g) == 12 && srv.sentPong(g) }, downComplete, "delivered on Responses()"), down)
	}
	if len(up) > 0 {
		if upErr != nil {
			bad = true
			fail("rc_payload_altered", "after %d packets the server cannot decode the client's stream: %v", len(gotUp), upErr)
		} else {
			fs := c11cCompare(up, gotUp, nil, upComplete, "received by the server")
			if len(fs) == 1 && fs[0].cause == "rc_hang" {
				select {
				case err := <-serr:
					if err != nil {
						fs[0] = c11cFinding{"rc_send_error", err.Error()}
					} else {
						fs[0].msg += " (every Send returned nil)"
					}
					serr <- err
				default:
					fs[0].msg += " (Send still blocked)"
				}
			}
			report(fs, up)
		}
	}
	if bad {
		return
	}
	select {
	case err := <-serr:
		if err != nil {
			fail("rc_send_error", "%v", err)
			return
		}
	case <-time.After(c11cWait):
		fail("rc_hang", "hang: the server received every packet but Send did not return")
		return
	}
	select {
	case err := <-werr:
		if err != nil {
			fail("rc_handshake", "%v", err)
			return
		}
	case <-time.After(c11cWait):
		fail("rc_hang", "hang: all packets delivered but the server's write did not finish")
		return
	}
	ok = true
}

// ---------------------------------------------------------------------------------------------------------------------

var c11cKnown = []string{c11cDropMagic, c11cDropOther, "rc_payload_altered", "rc_order_changed", "rc_duplicate", "rc_hang", "rc_handshake", "rc_send_error"}

func c11cCheckIDs(t *testing.T) {
	// the ids computed from the schema lines must be the documented ones (a wrong table would make the test vacuous)
	want := map[string]uint32{"tcp.pong": 0xdc69fb03, "tcp.ping": 0x4d082b9a, "tcp.authentificationNonce": 0xe35d4ab6, "adnl.message.answer": 0x0fac8416, "adnl.message.query": 0xb48bf97a, "liteServer.query": 0x798c06df}
	for _, m := range c11cMagics {
		if w, ok := want[m.name]; ok && w != m.id {
			t.Fatalf("stand-in error: id of %s computed as %08x, documented %08x", m.name, m.id, w)
		}
	}
}

// scenarios runs lists 1-4 in one direction; down selects server->client.
func (h *c11cH) scenarios(down bool) {
	thorough := c11cThorough()
	dir := "up"
	if down {
		dir = "down"
	}
	run := func(key, transport, mode string, l *c11cList) {
		if down {
			h.run(dir+"/"+key, transport, c11cOpts{mode: mode}, l.items, nil)
		} else {
			h.run(dir+"/"+key, transport, c11cOpts{mode: mode}, nil, l.items)
		}
	}

	// 1. every known id as a prefix, every length
	lengths := c11cLengths(thorough)
	tails := []string{"random", "zero"}
	if thorough {
		tails = append(tails, "ff")
	}
	for _, m := range c11cMagics {
		for _, be := range []bool{false, true} {
			if down && m.id == c11cAuthNonce && !be {
				continue // TestVerifStandin_C11_AuthNoncePrefixedContent
			}
			for _, tail := range tails {
				l := h.list(true)
				l.mark()
				l.prefixedAll(m, be, tail, lengths, c11cDropMagic)
				run(fmt.Sprintf("prefix/%s/%s/tail=%s/pipe", m.name, c11cOrder(be), tail), "pipe", "each", l)
			}
			l := h.list(true)
			l.mark()
			l.prefixedAll(m, be, "random", lengths, c11cDropMagic)
			run(fmt.Sprintf("prefix/%s/%s/tail=random/tcp", m.name, c11cOrder(be)), "tcp", "one", l)
		}
	}

	// 2. genuine control messages and look-alikes
	for _, c := range [][2]string{{"pipe", "each"}, {"pipe", "one"}, {"tcp", "each"}, {"tcp", "one"}} {
		l := h.list(true)
		l.genuine([]int{0, 1, 3, 32, 253, 254, 512})
		run(fmt.Sprintf("genuine/%s/%s", c[0], c[1]), c[0], c[1], l)
	}
	nGen := 10
	if thorough {
		nGen = 300
	}
	for i := 0; i < nGen; i++ {
		l := h.list(h.rng.Intn(2) == 0)
		l.genuine([]int{[]int{0, 1, 3, 32, 253, 254, 512}[i%7]}) // (the library prints a line for each of them)
		// a random arrangement of the same items (markers stay unique, so shifts stay visible)
		h.rng.Shuffle(len(l.items), func(a, b int) { l.items[a], l.items[b] = l.items[b], l.items[a] })
		run(fmt.Sprintf("genuine/shuffled/%d", i), "pipe", []string{"each", "one", "rand"}[i%3], l)
	}

	// 3. special payloads
	for _, c := range [][2]string{{"pipe", "each"}, {"pipe", "one"}, {"tcp", "one"}} {
		l := h.list(true)
		l.special()
		run(fmt.Sprintf("special/%s/%s", c[0], c[1]), c[0], c[1], l)
	}
	{
		l := h.list(false) // the same without markers in between
		l.special()
		run("special/pipe/rand/no-markers", "pipe", "rand", l)
	}

	// 4. random mix
	nPipe, nTCP := 80, 10
	if thorough {
		nPipe, nTCP = 3000, 100
	}
	for i := 0; i < nPipe+nTCP; i++ {
		l := h.list(false)
		l.mix(8+h.rng.Intn(33), down)
		tr := "pipe"
		if i >= nPipe {
			tr = "tcp"
		}
		run(fmt.Sprintf("mix/%s/%d", tr, i), tr, []string{"rand", "each", "one"}[i%3], l)
	}
}

func (h *c11cH) stat(t *testing.T, name string) {
	h.fails.report(t)
	fmt.Printf("STANDIN-STAT name=%s cases=%d distinct=%d\n", name, h.cases, len(h.distinct))
	fmt.Printf("STANDIN-INFO name=%s packets=%d\n", name, h.packets)
}

func TestVerifStandin_C11_ContentServerToClient(t *testing.T) {
	c11cCheckIDs(t)
	h := c11cNewH(t, 31, c11cKnown...)
	h.scenarios(true)

	// 5. both directions at once for longer than the ping interval (3 s): the library's real tcp.ping and the server's
	// real tcp.pong travel between the packets
	n := 1
	if c11cThorough() {
		n = 3
	}
	for i := 0; i < n; i++ {
		dl, ul := h.list(false), h.list(false)
		dl.mix(12, true)
		ul.mix(12, false)
		for len(dl.items) < 35 {
			dl.add("tcp.pong/random-id", c11cDropMagic, h.pong(nil))
			dl.add("pong-lookalike/16-bytes", c11cDropMagic, h.prefixed(c11cPong, false, 16, "random"))
			dl.mark()
		}
		for len(ul.items) < 35 {
			ul.add("tcp.ping-LE-prefix/12-bytes", c11cDropMagic, h.prefixed(c11cPing, false, 12, "random"))
			ul.mark()
		}
		h.run(fmt.Sprintf("keepalive/tcp/%d", i), "tcp", c11cOpts{mode: "each", gap: 100 * time.Millisecond}, dl.items[:35], ul.items[:35])
	}
	h.stat(t, "c11c_content_server_to_client")
}

func TestVerifStandin_C11_ContentClientToServer(t *testing.T) {
	c11cCheckIDs(t)
	h := c11cNewH(t, 32, c11cKnown...)
	h.scenarios(false)
	h.stat(t, "c11c_content_client_to_server")
}

// TestVerifStandin_C11_AuthNoncePrefixedContent: the one prefix left out above. Payloads that start with the id of
// tcp.authentificationNonce (b6 4a 5d e3) but are NOT a well-formed tcp.authentificationNonce message (wrong length,
// TL `bytes` value that does not fill the payload, non-zero padding), sent to a client that never asked for
// authentication (no auth key, connection established): by the oracle above they are ordinary payloads and must be
// delivered. Kept apart (own test name, own cause rc_auth_nonce_prefixed_payload_dropped) because the unchanged library
// is known to consume every packet with this prefix.
// Bound: every length 4..40 plus the larger ones / 4..300 plus larger, tails random and zero, pipe; random tail on tcp;
// payloads that happen to be well-formed messages are "delivered once or not at all".
func TestVerifStandin_C11_AuthNoncePrefixedContent(t *testing.T) {
	c11cCheckIDs(t)
	h := c11cNewH(t, 33, c11cDropAuth, "rc_payload_altered", "rc_order_changed", "rc_duplicate", "rc_hang", "rc_handshake")
	m := c11cMagic{"tcp.authentificationNonce", c11cAuthNonce}
	lengths := c11cLengths(c11cThorough())
	for _, c := range [][3]string{{"pipe", "each", "random"}, {"pipe", "each", "zero"}, {"pipe", "one", "ff"}, {"tcp", "one", "random"}} {
		l := h.list(true)
		l.mark()
		l.prefixedAll(m, false, c[2], lengths, c11cDropAuth)
		h.run(fmt.Sprintf("down/prefix/%s/LE/tail=%s/%s", m.name, c[2], c[0]), c[0], c11cOpts{mode: c[1]}, l.items, nil)
	}
	h.stat(t, "c11c_auth_nonce_prefixed_content")
}
