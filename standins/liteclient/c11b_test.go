//go:build verif

package liteclient

// Bounded stand-in for C11, part b (labelled bounded, never counted as proved): the ADNL handshake and the packets that
// follow it on the same byte stream, under arbitrary TCP segmentation, in both directions.
//
// Stands in for: "a client connecting to a server that implements the ADNL-over-TCP specification completes the
// handshake and afterwards every packet sent in either direction is received with exactly the payload that was sent",
// for all splits of the byte stream at TCP segment boundaries (c11_test.go covers ParsePacket on its own, not the
// handshake and not the hand-over from the handshake to the packet loop).
//
// Oracle: an in-process ADNL *server* written here from the specification, sharing no code with the library:
//   - request = 256 bytes: sha256(0xc6b41348 | server ed25519 key) | client ed25519 key | sha256(params) | E(params)
//   - secret = X25519(clamp(sha512(server seed)[:32]), u) with u = (1+y)/(1-y) mod 2^255-19 of the client's key
//     (math/big + crypto/ecdh), params key = secret[0:16] | hash[16:32], iv = hash[0:4] | secret[20:32], AES-256-CTR
//   - params (160 bytes) = rx_key(32) | tx_key(32) | rx_nonce(16) | tx_nonce(16) | padding(64), named from the client's
//     point of view: server->client stream AES-CTR(params[0:32], params[64:80]), client->server stream
//     AES-CTR(params[32:64], params[80:96]); the sha256 of the decrypted params must equal the transmitted hash
//   - frame = LE32(64+len) | nonce(32) | payload | sha256(nonce|payload); the confirmation is the empty frame
// Transports: "tcp" = liteclient.NewConnection against a loopback listener on 127.0.0.1:0 (the public path; segments
// are separated by a short sleep, so the split is best effort); "pipe" = net.Pipe, where every server Write is handed to
// the client's Reads as exactly one segment (exact split); the client side of a pipe is wired as
// newEncryptedConnection/setupEncryptedConnection do it (encryptedConn.handshake, handleIncomingPackets,
// Connection.reader) because the library offers no way to inject a net.Conn.
//
// Bound (quick / thorough); every case is one fresh connection with a fresh server key:
//   1 coalesced: confirmation + k packets in ONE Write, k in {1,2,3,5,8} / 1..16, three size profiles (0..8, 0..120,
//     {0,1,3,4,59,60,63,64,65,255,1000,2000,4028,4029,5000}), pipe and tcp (tcp k <= 12)
//   2 cuts (pipe, exact): stream = confirmation + payload sizes [0 1 37 300 5] cut in two at EVERY position of the
//     stream (751 bytes) / also for [64 0 0 1000], [4028 1], [2000 2000 3]; two cuts a<b among 24 landmark positions of
//     the first 140 bytes / all pairs a<b<=140; 1-byte writes 2 / 6 streams; three random segments 150 / 3000; random
//     segment sizes (max segment from {2,5,17,70,500,5000}) 150 / 3000, each with 1..6 packets of a random profile.
//     tcp (best effort, 300 us between segments): 13 / 70 cut positions, one 1-byte run, 5 / 30 random
//   3 back to back: payload sizes 0..2000 step 3 / every size: ascending and descending (/ + shuffled) with random
//     segments up to 3000 bytes, / ascending with segments up to 100 bytes and in one Write; sizes 0..300 with segments
//     up to 64 bytes and in one Write; tcp in 64 KiB writes with sizes step 7 / all, and 0..300 in one Write
//   4 client->server: Connection.Send of such payload lists; the server reads the 256-byte request + the frames through
//     a reader that returns at most the rest of the current segment: two segments at EVERY position of the 1007-byte
//     stream / also for the other three lists; two cuts among 24 landmarks / all pairs in 236..396; 1-byte reads 2 / 6;
//     random 150 / 3000; back-to-back sizes 0..2000 step 7 / all (pipe twice, tcp once); tcp: 13 / 70 cuts, 1-byte
//     reads, 5 / 30 random
// Payloads are compared only after ALL packets of a connection were received (a payload must not change when later
// packets arrive). Waits are limited to 3 s each; a sub-test skips the remaining cases of a transport after 2 failing cases on it.

import (
	"bytes"
	"context"
	"crypto/aes"
	"crypto/cipher"
	"crypto/ecdh"
	"crypto/ed25519"
	"crypto/sha256"
	"crypto/sha512"
	"encoding/binary"
	"encoding/hex"
	"fmt"
	"io"
	"math/big"
	"math/rand"
	"net"
	"os"
	"sort"
	"strconv"
	"sync"
	"testing"
	"time"
)

const c11bWait = 3 * time.Second

func c11bSeed() int64 {
	if v, err := strconv.ParseInt(os.Getenv("VERIF_SEED"), 10, 64); err == nil {
		return v
	}
	return 1
}

func c11bThorough() bool { return os.Getenv("VERIF_TIER") == "thorough" }

// ---------------------------------------------------------------------------------------------------------------------
// failure collector: one rc_<cause> sub-test per known cause

type c11bFails struct {
	mu      sync.Mutex
	byCause map[string][]string
	count   map[string]int
	known   []string

	perTransport map[string]int
}

func c11bNewFails(known ...string) *c11bFails {
	return &c11bFails{byCause: map[string][]string{}, count: map[string]int{}, known: known, perTransport: map[string]int{}}
}

func (f *c11bFails) add(cause, format string, args ...any) {
	f.mu.Lock()
	defer f.mu.Unlock()
	f.count[cause]++
	if len(f.byCause[cause]) < 6 {
		msg := fmt.Sprintf(format, args...)
		if len(msg) > 2400 {
			msg = msg[:2400] + "...(truncated)"
		}
		f.byCause[cause] = append(f.byCause[cause], msg)
	}
}

// tooMany: a sub-test stops running cases of a transport after 2 failures on it (every failure may cost a timeout).
func (f *c11bFails) tooMany(cause, transport string) bool {
	f.mu.Lock()
	defer f.mu.Unlock()
	return f.perTransport[cause+"/"+transport] >= 2
}

func (f *c11bFails) addT(cause, transport, format string, args ...any) {
	f.mu.Lock()
	f.perTransport[cause+"/"+transport]++
	f.mu.Unlock()
	f.add(cause, format, args...)
}

func (f *c11bFails) report(t *testing.T) {
	names := map[string]bool{}
	for _, k := range f.known {
		names[k] = true
	}
	for k := range f.count {
		names[k] = true
	}
	var sorted []string
	for k := range names {
		sorted = append(sorted, k)
	}
	sort.Strings(sorted)
	for _, k := range sorted {
		k := k
		t.Run(k, func(t *testing.T) {
			if f.count[k] == 0 {
				return
			}
			t.Errorf("%d failing case(s) (cases of a transport are skipped after 2 failures on it); first %d:", f.count[k], len(f.byCause[k]))
			for _, m := range f.byCause[k] {
				t.Errorf("  %s", m)
			}
		})
	}
}

func c11bHex(b []byte) string {
	if len(b) <= 48 {
		return fmt.Sprintf("%d bytes %s", len(b), hex.EncodeToString(b))
	}
	return fmt.Sprintf("%d bytes %s...%s", len(b), hex.EncodeToString(b[:32]), hex.EncodeToString(b[len(b)-8:]))
}

func c11bSegDesc(seg []int) string {
	sum := 0
	for _, n := range seg {
		sum += n
	}
	if len(seg) <= 40 {
		return fmt.Sprintf("%v (%d segments, %d bytes)", seg, len(seg), sum)
	}
	return fmt.Sprintf("%v... (%d segments, %d bytes)", seg[:32], len(seg), sum)
}

func c11bSizesDesc(sizes []int) string {
	if len(sizes) <= 24 {
		return fmt.Sprint(sizes)
	}
	return fmt.Sprintf("%v...%v (%d packets)", sizes[:10], sizes[len(sizes)-3:], len(sizes))
}

// ---------------------------------------------------------------------------------------------------------------------
// reference server, from the specification

// c11bShared = X25519 between the server's ed25519 key (given by its seed) and the client's ed25519 public key.
func c11bShared(serverSeed, clientEdPub []byte) ([]byte, error) {
	if len(clientEdPub) != 32 {
		return nil, fmt.Errorf("client key of %d bytes", len(clientEdPub))
	}
	h := sha512.Sum512(serverSeed)
	priv, err := ecdh.X25519().NewPrivateKey(h[:32]) // clamped by the scalar multiplication
	if err != nil {
		return nil, err
	}
	be := make([]byte, 32)
	for i := 0; i < 32; i++ {
		be[i] = clientEdPub[31-i]
	}
	be[0] &= 0x7f // sign bit of x
	p := new(big.Int).Sub(new(big.Int).Lsh(big.NewInt(1), 255), big.NewInt(19))
	y := new(big.Int).SetBytes(be)
	num := new(big.Int).Add(big.NewInt(1), y)
	den := new(big.Int).Sub(big.NewInt(1), y)
	den.Mod(den, p)
	if den.Sign() == 0 {
		return nil, fmt.Errorf("client key has y = 1")
	}
	u := num.Mul(num, den.ModInverse(den, p))
	u.Mod(u, p)
	ub := u.FillBytes(make([]byte, 32))
	le := make([]byte, 32)
	for i := 0; i < 32; i++ {
		le[i] = ub[31-i]
	}
	pub, err := ecdh.X25519().NewPublicKey(le)
	if err != nil {
		return nil, err
	}
	return priv.ECDH(pub)
}

func c11bKeyID(edPub []byte) []byte {
	s := sha256.New()
	s.Write([]byte{0xc6, 0xb4, 0x13, 0x48})
	s.Write(edPub)
	return s.Sum(nil)
}

func c11bFrame(nonce, payload []byte) []byte {
	b := make([]byte, 4, 68+len(payload))
	binary.LittleEndian.PutUint32(b, uint32(64+len(payload)))
	b = append(b, nonce...)
	b = append(b, payload...)
	s := sha256.New()
	s.Write(nonce)
	s.Write(payload)
	return s.Sum(b)
}

// c11bChunkReader returns, per Read, at most the rest of the current segment of the schedule.
type c11bChunkReader struct {
	r     io.Reader
	sched []int
	i     int
}

func (c *c11bChunkReader) Read(p []byte) (int, error) {
	for c.i < len(c.sched) && c.sched[c.i] <= 0 {
		c.i++
	}
	n := len(p)
	if c.i < len(c.sched) && c.sched[c.i] < n {
		n = c.sched[c.i]
	}
	m, err := c.r.Read(p[:n])
	if c.i < len(c.sched) {
		c.sched[c.i] -= m
	}
	return m, err
}

type c11bRecv struct {
	payload []byte
	err     error
}

type c11bSrvConn struct {
	c   net.Conn
	rd  io.Reader
	enc cipher.Stream // server -> client
	dec cipher.Stream // client -> server
	wmu sync.Mutex
	ent *c11bEntry
}

// c11bServerHandshake reads the 256-byte request (through the read schedule) and derives the two streams.
func c11bServerHandshake(c net.Conn, sched []int, lookup func(keyID []byte) (*c11bEntry, []byte)) (*c11bSrvConn, error) {
	rd := &c11bChunkReader{r: c, sched: append([]int{}, sched...)}
	req := make([]byte, 256)
	if _, err := io.ReadFull(rd, req); err != nil {
		return nil, fmt.Errorf("reading the 256-byte handshake request: %v", err)
	}
	ent, seed := lookup(req[:32])
	if seed == nil {
		return nil, fmt.Errorf("handshake request for unknown key id %x", req[:32])
	}
	pub := ed25519.NewKeyFromSeed(seed).Public().(ed25519.PublicKey)
	if !bytes.Equal(req[:32], c11bKeyID(pub)) {
		return nil, fmt.Errorf("key id %x, want %x", req[:32], c11bKeyID(pub))
	}
	shared, err := c11bShared(seed, req[32:64])
	if err != nil {
		return nil, fmt.Errorf("shared secret with client key %x: %v", req[32:64], err)
	}
	hash := req[64:96]
	key := append(append([]byte{}, shared[0:16]...), hash[16:32]...)
	iv := append(append([]byte{}, hash[0:4]...), shared[20:32]...)
	blk, err := aes.NewCipher(key)
	if err != nil {
		return nil, err
	}
	params := make([]byte, 160)
	cipher.NewCTR(blk, iv).XORKeyStream(params, req[96:256])
	if sum := sha256.Sum256(params); !bytes.Equal(sum[:], hash) {
		return nil, fmt.Errorf("sha256 of the decrypted session parameters %x, request says %x (request %x)", sum, hash, req)
	}
	down, err := aes.NewCipher(params[0:32])
	if err != nil {
		return nil, err
	}
	up, err := aes.NewCipher(params[32:64])
	if err != nil {
		return nil, err
	}
	return &c11bSrvConn{
		c:   c,
		rd:  rd,
		enc: cipher.NewCTR(down, params[64:80]),
		dec: cipher.NewCTR(up, params[80:96]),
		ent: ent,
	}, nil
}

// writeStream encrypts plain with the server->client stream and writes it in the given segments.
func (s *c11bSrvConn) writeStream(plain []byte, seg []int, gap time.Duration) error {
	s.wmu.Lock()
	defer s.wmu.Unlock()
	buf := append([]byte{}, plain...)
	s.enc.XORKeyStream(buf, buf)
	off := 0
	write := func(i, n int) error {
		if off+n > len(buf) {
			n = len(buf) - off
		}
		if n <= 0 {
			return nil
		}
		s.c.SetWriteDeadline(time.Now().Add(2 * c11bWait))
		if _, err := s.c.Write(buf[off : off+n]); err != nil {
			return fmt.Errorf("server write of segment %d (offset %d, %d bytes): %v", i, off, n, err)
		}
		off += n
		if gap > 0 && off < len(buf) {
			time.Sleep(gap)
		}
		return nil
	}
	for i, n := range seg {
		if err := write(i, n); err != nil {
			return err
		}
	}
	return write(len(seg), len(buf)-off)
}

// recvLoop parses client->server frames; tcp.ping is answered with tcp.pong when autoPong is set (the library pings
// every 3 s on connections made by NewConnection and reconnects when nothing arrives for 10 s).
func (s *c11bSrvConn) recvLoop(autoPong bool, out chan<- c11bRecv) {
	defer close(out)
	for {
		var l [4]byte
		if _, err := io.ReadFull(s.rd, l[:]); err != nil {
			out <- c11bRecv{err: fmt.Errorf("reading a frame length: %v", err)}
			return
		}
		s.dec.XORKeyStream(l[:], l[:])
		n := int(binary.LittleEndian.Uint32(l[:]))
		if n < 64 || n > 8<<20 {
			out <- c11bRecv{err: fmt.Errorf("decrypted frame length %d (%x) outside 64..8MiB", n, l)}
			return
		}
		data := make([]byte, n)
		if _, err := io.ReadFull(s.rd, data); err != nil {
			out <- c11bRecv{err: fmt.Errorf("reading a frame body of %d bytes: %v", n, err)}
			return
		}
		s.dec.XORKeyStream(data, data)
		if sum := sha256.Sum256(data[:n-32]); !bytes.Equal(sum[:], data[n-32:]) {
			out <- c11bRecv{err: fmt.Errorf("frame checksum %x, computed %x (frame body %s)", data[n-32:], sum, c11bHex(data))}
			return
		}
		payload := data[32 : n-32]
		if autoPong && len(payload) == 12 && binary.LittleEndian.Uint32(payload) == 0x4d082b9a {
			pong := make([]byte, 12)
			binary.LittleEndian.PutUint32(pong, 0xdc69fb03)
			copy(pong[4:], payload[4:])
			go s.writeStream(c11bFrame(make([]byte, 32), pong), nil, 0)
			continue
		}
		out <- c11bRecv{payload: payload}
	}
}

func (s *c11bSrvConn) idle() {
	out := make(chan c11bRecv, 16)
	go s.recvLoop(true, out)
	go func() {
		for range out {
		}
	}()
}

// ---------------------------------------------------------------------------------------------------------------------
// harness

type c11bEntry struct {
	seed    []byte
	sched   []int
	ch      chan c11bAccepted
	claimed bool
}

type c11bAccepted struct {
	srv *c11bSrvConn
	err error
}

type c11bDialed struct {
	conn *Connection
	err  error
}

type c11bH struct {
	t        *testing.T
	seed     int64
	rng      *rand.Rand
	fails    *c11bFails
	cases    int
	distinct map[string]bool

	ln  net.Listener
	mu  sync.Mutex
	reg map[string]*c11bEntry
	cur *c11bEntry
}

func c11bNewH(t *testing.T, salt int64, known ...string) *c11bH {
	h := &c11bH{t: t, seed: c11bSeed(), fails: c11bNewFails(known...), distinct: map[string]bool{}, reg: map[string]*c11bEntry{}}
	h.rng = rand.New(rand.NewSource(h.seed*1000 + salt))
	ln, err := net.Listen("tcp", "127.0.0.1:0")
	if err != nil {
		t.Fatalf("loopback listener: %v", err)
	}
	// The listener is deliberately left open until the process exits: connections made by NewConnection cannot be
	// closed by the caller and reconnect for ever; a reconnect is served (handshake, pongs) instead of being refused.
	h.ln = ln
	go func() {
		for {
			c, err := ln.Accept()
			if err != nil {
				return
			}
			go h.serveTCP(c)
		}
	}()
	return h
}

func (h *c11bH) serveTCP(c net.Conn) {
	h.mu.Lock()
	cur := h.cur
	h.mu.Unlock()
	var sched []int
	if cur != nil {
		sched = cur.sched
	}
	c.SetReadDeadline(time.Now().Add(c11bWait))
	srv, err := c11bServerHandshake(c, sched, func(id []byte) (*c11bEntry, []byte) {
		h.mu.Lock()
		defer h.mu.Unlock()
		if e := h.reg[string(id)]; e != nil {
			return e, e.seed
		}
		return nil, nil
	})
	c.SetReadDeadline(time.Time{})
	if err != nil {
		c.Close()
		h.mu.Lock()
		if cur != nil && !cur.claimed {
			cur.claimed = true
			cur.ch <- c11bAccepted{err: err}
		}
		h.mu.Unlock()
		return
	}
	h.mu.Lock()
	first := !srv.ent.claimed
	srv.ent.claimed = true
	h.mu.Unlock()
	if first {
		srv.ent.ch <- c11bAccepted{srv: srv}
		return
	}
	// a reconnect of an earlier connection: confirm and keep it alive
	go srv.writeStream(c11bFrame(make([]byte, 32), nil), nil, 0)
	srv.idle()
}

// c11bDialPipe wires a client on an existing net.Conn the way newEncryptedConnection + setupEncryptedConnection do.
func c11bDialPipe(serverPub []byte, conn net.Conn) (*Connection, error) {
	a, err := NewAddress(serverPub)
	if err != nil {
		return nil, err
	}
	param, err := newParameters()
	if err != nil {
		return nil, err
	}
	ci, err := aes.NewCipher(param.txKey())
	if err != nil {
		return nil, err
	}
	dci, err := aes.NewCipher(param.rxKey())
	if err != nil {
		return nil, err
	}
	keys, err := newKeys(a.pubkey)
	if err != nil {
		return nil, err
	}
	ec := &encryptedConn{
		cipher:   cipher.NewCTR(ci, param.txNonce()),
		decipher: cipher.NewCTR(dci, param.rxNonce()),
		conn:     conn,
	}
	if err := ec.handshake(a, param, keys); err != nil {
		return nil, err
	}
	c := &Connection{
		peerPublicKey:    serverPub,
		resp:             make(chan Packet),
		status:           Connected,
		authCompleteChan: make(chan error),
		econn:            ec,
		pings:            make(map[uint64]time.Time, 5),
	}
	go c.reader(ec.handleIncomingPackets())
	return c, nil
}

// establish starts a client (in a goroutine) and returns the server side after it has read the handshake request.
// The confirmation is NOT yet written. done(ok) releases the connection.
func (h *c11bH) establish(transport string, sched []int) (*c11bSrvConn, chan c11bDialed, func(ok bool), error) {
	seed := make([]byte, 32)
	h.rng.Read(seed)
	pub := []byte(ed25519.NewKeyFromSeed(seed).Public().(ed25519.PublicKey))
	dialed := make(chan c11bDialed, 1)
	run := func(f func() (*Connection, error)) {
		go func() {
			defer func() {
				if r := recover(); r != nil {
					dialed <- c11bDialed{err: fmt.Errorf("panic in the client handshake: %v", r)}
				}
			}()
			conn, err := f()
			dialed <- c11bDialed{conn: conn, err: err}
		}()
	}
	if transport == "pipe" {
		cli, srvc := net.Pipe()
		run(func() (*Connection, error) { return c11bDialPipe(pub, cli) })
		srvc.SetReadDeadline(time.Now().Add(c11bWait))
		srv, err := c11bServerHandshake(srvc, sched, func([]byte) (*c11bEntry, []byte) { return nil, seed })
		srvc.SetReadDeadline(time.Time{})
		closeAll := func(bool) { cli.Close(); srvc.Close() }
		if err != nil {
			closeAll(false)
			return nil, nil, nil, err
		}
		return srv, dialed, closeAll, nil
	}
	ent := &c11bEntry{seed: seed, sched: sched, ch: make(chan c11bAccepted, 1)}
	h.mu.Lock()
	h.reg[string(c11bKeyID(pub))] = ent
	h.cur = ent
	h.mu.Unlock()
	run(func() (*Connection, error) {
		ctx, cancel := context.WithTimeout(context.Background(), c11bWait)
		defer cancel()
		return NewConnection(ctx, pub, h.ln.Addr().String())
	})
	select {
	case a := <-ent.ch:
		if a.err != nil {
			return nil, nil, nil, a.err
		}
		srv := a.srv
		return srv, dialed, func(ok bool) {
			if !ok {
				srv.c.Close() // unblocks whatever hangs; the client's reconnect is served by serveTCP
			}
			// ok: the connection stays open and is kept alive by recvLoop's pongs (there is no Connection.Close)
		}, nil
	case d := <-dialed:
		return nil, nil, nil, fmt.Errorf("NewConnection returned (%v) before the server saw a handshake request", d.err)
	case <-time.After(c11bWait):
		return nil, nil, nil, fmt.Errorf("hang: no handshake request within %v", c11bWait)
	}
}

// payload avoids the three magics the library's reader consumes itself (pong, authentificationNonce) or the reference
// server answers itself (ping).
func (h *c11bH) payload(n int) []byte {
	p := make([]byte, n)
	h.rng.Read(p)
	if n >= 4 {
		switch binary.LittleEndian.Uint32(p) {
		case 0x4d082b9a, 0xdc69fb03, 0xe35d4ab6:
			p[0] ^= 0x55
		}
	}
	return p
}

func (h *c11bH) nonce() []byte {
	n := make([]byte, 32)
	h.rng.Read(n)
	return n
}

// runDown: the server writes confirmation + one frame per payload size in the given segments; every payload must come
// out of Connection.Responses(), in order.
func (h *c11bH) runDown(cause, key, transport string, sizes []int, seg func(total int) []int, gap time.Duration) {
	if h.fails.tooMany(cause, transport) {
		return
	}
	h.cases++
	h.distinct[key] = true
	plain := c11bFrame(h.nonce(), nil)
	payloads := make([][]byte, len(sizes))
	for i, n := range sizes {
		payloads[i] = h.payload(n)
		plain = append(plain, c11bFrame(h.nonce(), payloads[i])...)
	}
	segs := seg(len(plain))
	desc := fmt.Sprintf("%s [VERIF_SEED=%d transport=%s] payload sizes %s; server->client stream = 68-byte confirmation + frames, written as segments %s",
		key, h.seed, transport, c11bSizesDesc(sizes), c11bSegDesc(segs))
	srv, dialed, done, err := h.establish(transport, nil)
	if err != nil {
		h.fails.addT(cause, transport, "%s: %v", desc, err)
		return
	}
	ok := false
	defer func() { done(ok) }()
	in := make(chan c11bRecv, 16)
	go srv.recvLoop(transport == "tcp", in)
	go func() {
		for range in {
		}
	}()
	werr := make(chan error, 1)
	go func() { werr <- srv.writeStream(plain, segs, gap) }()
	var conn *Connection
	select {
	case d := <-dialed:
		if d.err != nil {
			h.fails.addT(cause, transport, "%s: client handshake failed: %v", desc, d.err)
			return
		}
		conn = d.conn
	case <-time.After(c11bWait):
		h.fails.addT(cause, transport, "%s: hang: the client handshake did not return within %v", desc, c11bWait)
		return
	}
	var got [][]byte
	for len(got) < len(payloads) {
		hung := false
		select {
		case p := <-conn.Responses():
			got = append(got, p.Payload) // not copied: must stay intact while later packets arrive
		case <-time.After(c11bWait):
			hung = true
		}
		if hung {
			break
		}
	}
	for i := range got {
		if !bytes.Equal(got[i], payloads[i]) {
			h.fails.addT(cause, transport, "%s: packet %d of %d on Responses() has payload %s, sent %s", desc, i, len(payloads), c11bHex(got[i]), c11bHex(payloads[i]))
			return
		}
	}
	if len(got) < len(payloads) {
		h.fails.addT(cause, transport, "%s: hang: only %d of %d packets arrived on Responses() within %v (those that arrived were right); next expected %s",
			desc, len(got), len(payloads), c11bWait, c11bHex(payloads[len(got)]))
		return
	}
	select {
	case err := <-werr:
		if err != nil {
			h.fails.addT(cause, transport, "%s: %v", desc, err)
			return
		}
	case <-time.After(c11bWait):
		h.fails.addT(cause, transport, "%s: hang: all packets delivered but the server's write did not finish", desc)
		return
	}
	select {
	case p := <-conn.Responses():
		h.fails.addT(cause, transport, "%s: an extra packet was delivered after the %d sent: %s", desc, len(payloads), c11bHex(p.Payload))
		return
	default:
	}
	ok = true
}

// runUp: the client Sends one packet per payload size; the server reads request + frames through the read schedule and
// must decrypt exactly these payloads, in order.
func (h *c11bH) runUp(cause, key, transport string, sizes []int, seg func(total int) []int) {
	if h.fails.tooMany(cause, transport) {
		return
	}
	h.cases++
	h.distinct[key] = true
	total := 256
	payloads := make([][]byte, len(sizes))
	for i, n := range sizes {
		payloads[i] = h.payload(n)
		total += 68 + n
	}
	sched := seg(total)
	desc := fmt.Sprintf("%s [VERIF_SEED=%d transport=%s] payload sizes %s; client->server stream = 256-byte request + frames, read by the server as segments %s",
		key, h.seed, transport, c11bSizesDesc(sizes), c11bSegDesc(sched))
	srv, dialed, done, err := h.establish(transport, sched)
	if err != nil {
		h.fails.addT(cause, transport, "%s: %v", desc, err)
		return
	}
	ok := false
	defer func() { done(ok) }()
	in := make(chan c11bRecv, 16)
	go srv.recvLoop(transport == "tcp", in)
	defer func() {
		go func() {
			for range in {
			}
		}()
	}()
	go srv.writeStream(c11bFrame(h.nonce(), nil), nil, 0)
	var conn *Connection
	select {
	case d := <-dialed:
		if d.err != nil {
			h.fails.addT(cause, transport, "%s: client handshake failed: %v", desc, d.err)
			return
		}
		conn = d.conn
	case <-time.After(c11bWait):
		h.fails.addT(cause, transport, "%s: hang: the client handshake did not return within %v", desc, c11bWait)
		return
	}
	serr := make(chan error, 1)
	go func() {
		defer func() {
			if r := recover(); r != nil {
				serr <- fmt.Errorf("panic in Connection.Send: %v", r)
			}
		}()
		for i, p := range payloads {
			pk, err := NewPacket(append([]byte{}, p...))
			if err == nil {
				err = conn.Send(pk)
			}
			if err != nil {
				serr <- fmt.Errorf("Send of packet %d (%s): %v", i, c11bHex(p), err)
				return
			}
		}
		serr <- nil
	}()
	for i := range payloads {
		select {
		case r, open := <-in:
			if !open {
				h.fails.addT(cause, transport, "%s: the server's stream ended before packet %d of %d", desc, i, len(payloads))
				return
			}
			if r.err != nil {
				h.fails.addT(cause, transport, "%s: packet %d of %d: the server cannot decode the client's stream: %v", desc, i, len(payloads), r.err)
				return
			}
			if !bytes.Equal(r.payload, payloads[i]) {
				h.fails.addT(cause, transport, "%s: packet %d of %d reached the server with payload %s, Send was given %s", desc, i, len(payloads), c11bHex(r.payload), c11bHex(payloads[i]))
				return
			}
		case <-time.After(c11bWait):
			select {
			case err := <-serr:
				if err != nil {
					h.fails.addT(cause, transport, "%s: %v", desc, err)
					return
				}
				h.fails.addT(cause, transport, "%s: hang: every Send returned nil but packet %d of %d did not reach the server within %v", desc, i, len(payloads), c11bWait)
			default:
				h.fails.addT(cause, transport, "%s: hang: packet %d of %d did not reach the server within %v (Send still blocked)", desc, i, len(payloads), c11bWait)
			}
			return
		}
	}
	select {
	case err := <-serr:
		if err != nil {
			h.fails.addT(cause, transport, "%s: %v", desc, err)
			return
		}
	case <-time.After(c11bWait):
		h.fails.addT(cause, transport, "%s: hang: the server received every packet but Send did not return", desc)
		return
	}
	ok = true
}

// ---------------------------------------------------------------------------------------------------------------------
// segmentations and payload size lists

func c11bWhole(total int) []int { return []int{total} }

func c11bCutAt(k int) func(int) []int {
	return func(total int) []int {
		if k >= total {
			return []int{total}
		}
		return []int{k, total - k}
	}
}

func c11bOnes(total int) []int {
	s := make([]int, total)
	for i := range s {
		s[i] = 1
	}
	return s
}

func c11bChunks(n int) func(int) []int {
	return func(total int) []int {
		var s []int
		for total > 0 {
			k := n
			if k > total {
				k = total
			}
			s = append(s, k)
			total -= k
		}
		return s
	}
}

func c11bRandomSeg(rng *rand.Rand, maxSeg int) func(int) []int {
	return func(total int) []int {
		var s []int
		for total > 0 {
			k := 1 + rng.Intn(maxSeg)
			if k > total {
				k = total
			}
			s = append(s, k)
			total -= k
		}
		return s
	}
}

// c11bThree cuts at two random positions, the first of them inside the first `head` bytes.
func c11bThree(rng *rand.Rand, head int) func(int) []int {
	return func(total int) []int {
		if total < 3 {
			return []int{total}
		}
		if head > total-2 {
			head = total - 2
		}
		a := 1 + rng.Intn(head)
		b := a + 1 + rng.Intn(total-a-1)
		return []int{a, b - a, total - b}
	}
}

var c11bMixed = []int{0, 1, 3, 4, 59, 60, 63, 64, 65, 255, 1000, 2000, 4028, 4029, 5000}

func (h *c11bH) sizes(profile string, k int) []int {
	s := make([]int, k)
	for i := range s {
		switch profile {
		case "tiny":
			s[i] = h.rng.Intn(9)
		case "small":
			s[i] = h.rng.Intn(121)
		default:
			s[i] = c11bMixed[h.rng.Intn(len(c11bMixed))]
		}
	}
	return s
}

var c11bProfiles = []string{"tiny", "small", "mixed"}
var c11bBase = []int{0, 1, 37, 300, 5}
var c11bMaxSegs = []int{2, 5, 17, 70, 500, 5000}

func c11bRange(from, to, step int) []int {
	var s []int
	for i := from; i <= to; i += step {
		s = append(s, i)
	}
	return s
}

func c11bReversed(s []int) []int {
	r := make([]int, len(s))
	for i := range s {
		r[len(s)-1-i] = s[i]
	}
	return r
}

// c11bTCPCuts: positions around the boundaries of the confirmation (68 bytes) and of the first frames.
func c11bTCPCuts(thorough bool, shift int) []int {
	if thorough {
		return c11bRange(shift+1, shift+210, 3)
	}
	s := []int{1, 3, 4, 5, 36, 67, 68, 69, 71, 72, 73, 136, 137}
	for i := range s {
		s[i] += shift
	}
	return s
}

const c11bGap = 300 * time.Microsecond

// ---------------------------------------------------------------------------------------------------------------------

func c11bTwoCuts(a, b int) func(int) []int {
	return func(total int) []int {
		if b >= total {
			return c11bCutAt(a)(total)
		}
		return []int{a, b - a, total - b}
	}
}

func c11bStreamLen(first int, sizes []int) int {
	for _, n := range sizes {
		first += 68 + n
	}
	return first
}

// base payload size lists whose streams are cut at every position (quick: the first only)
var c11bBases = [][]int{{0, 1, 37, 300, 5}, {64, 0, 0, 1000}, {4028, 1}, {2000, 2000, 3}}

func TestVerifStandin_C11_HandshakeServerToClient(t *testing.T) {
	const (
		coalesced = "rc_handshake_coalesced_packets"
		cuts      = "rc_handshake_stream_cut"
		b2b       = "rc_handshake_back_to_back_sizes"
	)
	h := c11bNewH(t, 1, coalesced, cuts, b2b)
	thorough := c11bThorough()

	// 1. confirmation and the first k packets in one Write
	ks := []int{1, 2, 3, 5, 8}
	if thorough {
		ks = c11bRange(1, 16, 1)
	}
	for _, tr := range []string{"pipe", "tcp"} {
		for _, k := range ks {
			if tr == "tcp" && k > 12 {
				continue
			}
			for _, pr := range c11bProfiles {
				h.runDown(coalesced, fmt.Sprintf("coalesced/%s/k=%d/%s", tr, k, pr), tr, h.sizes(pr, k), c11bWhole, 0)
			}
		}
	}

	// 2. the same kind of stream cut at every position / at random positions
	bases := c11bBases[:1]
	if thorough {
		bases = c11bBases
	}
	for bi, base := range bases {
		for k := 1; k < c11bStreamLen(68, base); k++ {
			h.runDown(cuts, fmt.Sprintf("cut/pipe/base%d/at=%d", bi, k), "pipe", base, c11bCutAt(k), 0)
		}
	}
	// two cuts inside confirmation + first frame
	marks := []int{1, 2, 3, 4, 5, 35, 36, 37, 67, 68, 69, 70, 71, 72, 73, 103, 104, 105, 135, 136, 137, 138, 139, 140}
	if thorough {
		marks = c11bRange(1, 140, 1)
	}
	for i, a := range marks {
		for _, b := range marks[i+1:] {
			h.runDown(cuts, fmt.Sprintf("two/pipe/at=%d,%d", a, b), "pipe", c11bBase, c11bTwoCuts(a, b), 0)
		}
	}
	nOnes, nRand := 2, 150
	if thorough {
		nOnes, nRand = 6, 3000
	}
	for i := 0; i < nOnes; i++ {
		sz := c11bBase
		if i > 0 {
			sz = h.sizes(c11bProfiles[i%3], 1+i)
		}
		h.runDown(cuts, fmt.Sprintf("ones/pipe/%d", i), "pipe", sz, c11bOnes, 0)
	}
	for i := 0; i < nRand; i++ {
		sz := h.sizes(c11bProfiles[i%3], 1+h.rng.Intn(6))
		h.runDown(cuts, fmt.Sprintf("three/pipe/%d", i), "pipe", sz, c11bThree(h.rng, 200), 0)
	}
	for i := 0; i < nRand; i++ {
		sz := h.sizes(c11bProfiles[i%3], 1+h.rng.Intn(6))
		h.runDown(cuts, fmt.Sprintf("random/pipe/%d", i), "pipe", sz, c11bRandomSeg(h.rng, c11bMaxSegs[i%len(c11bMaxSegs)]), 0)
	}
	for _, k := range c11bTCPCuts(thorough, 0) {
		h.runDown(cuts, fmt.Sprintf("cut/tcp/at=%d", k), "tcp", c11bBase, c11bCutAt(k), c11bGap)
	}
	h.runDown(cuts, "ones/tcp/0", "tcp", c11bBase, c11bOnes, c11bGap)
	nTCP := 5
	if thorough {
		nTCP = 30
	}
	for i := 0; i < nTCP; i++ {
		sz := h.sizes(c11bProfiles[i%3], 1+h.rng.Intn(6))
		h.runDown(cuts, fmt.Sprintf("random/tcp/%d", i), "tcp", sz, c11bRandomSeg(h.rng, c11bMaxSegs[1+i%5]), c11bGap)
	}

	// 3. many packets of sizes 0..2000 back to back
	step, tcpStep := 3, 7
	if thorough {
		step, tcpStep = 1, 1
	}
	all := c11bRange(0, 2000, step)
	h.runDown(b2b, "b2b/pipe/ascending/max3000", "pipe", all, c11bRandomSeg(h.rng, 3000), 0)
	h.runDown(b2b, "b2b/pipe/descending/max3000", "pipe", c11bReversed(all), c11bRandomSeg(h.rng, 3000), 0)
	if thorough {
		sh := append([]int{}, all...)
		h.rng.Shuffle(len(sh), func(i, j int) { sh[i], sh[j] = sh[j], sh[i] })
		h.runDown(b2b, "b2b/pipe/shuffled/max3000", "pipe", sh, c11bRandomSeg(h.rng, 3000), 0)
		h.runDown(b2b, "b2b/pipe/ascending/max100", "pipe", all, c11bRandomSeg(h.rng, 100), 0)
		h.runDown(b2b, "b2b/pipe/ascending/whole", "pipe", all, c11bWhole, 0)
	}
	h.runDown(b2b, "b2b/pipe/0..300/max64", "pipe", c11bRange(0, 300, 1), c11bRandomSeg(h.rng, 64), 0)
	h.runDown(b2b, "b2b/pipe/0..300/whole", "pipe", c11bRange(0, 300, 1), c11bWhole, 0)
	h.runDown(b2b, "b2b/tcp/ascending/64k", "tcp", c11bRange(0, 2000, tcpStep), c11bChunks(65536), 0)
	h.runDown(b2b, "b2b/tcp/0..300/whole", "tcp", c11bRange(0, 300, 1), c11bWhole, 0)

	h.fails.report(t)
	fmt.Printf("STANDIN-STAT name=c11b_handshake_server_to_client cases=%d distinct=%d\n", h.cases, len(h.distinct))
}

func TestVerifStandin_C11_HandshakeClientToServer(t *testing.T) {
	const up = "rc_handshake_client_to_server_stream"
	h := c11bNewH(t, 2, up)
	thorough := c11bThorough()

	bases := c11bBases[:1]
	if thorough {
		bases = c11bBases
	}
	for bi, base := range bases {
		for k := 1; k < c11bStreamLen(256, base); k++ {
			h.runUp(up, fmt.Sprintf("cut/pipe/base%d/at=%d", bi, k), "pipe", base, c11bCutAt(k))
		}
	}
	// two cuts around the end of the request and the first frame
	marks := []int{1, 31, 32, 33, 63, 64, 65, 95, 96, 97, 255, 256, 257, 259, 260, 261, 291, 292, 293, 323, 324, 325, 327, 328}
	if thorough {
		marks = c11bRange(236, 396, 1)
	}
	for i, a := range marks {
		for _, b := range marks[i+1:] {
			h.runUp(up, fmt.Sprintf("two/pipe/at=%d,%d", a, b), "pipe", c11bBase, c11bTwoCuts(a, b))
		}
	}
	nOnes, nRand, nTCP := 2, 150, 5
	if thorough {
		nOnes, nRand, nTCP = 6, 3000, 30
	}
	for i := 0; i < nOnes; i++ {
		sz := c11bBase
		if i > 0 {
			sz = h.sizes(c11bProfiles[i%3], 1+i)
		}
		h.runUp(up, fmt.Sprintf("ones/pipe/%d", i), "pipe", sz, c11bOnes)
	}
	for i := 0; i < nRand; i++ {
		sz := h.sizes(c11bProfiles[i%3], 1+h.rng.Intn(6))
		if i%2 == 0 {
			h.runUp(up, fmt.Sprintf("three/pipe/%d", i), "pipe", sz, c11bThree(h.rng, 456))
		} else {
			h.runUp(up, fmt.Sprintf("random/pipe/%d", i), "pipe", sz, c11bRandomSeg(h.rng, c11bMaxSegs[i%len(c11bMaxSegs)]))
		}
	}
	for _, k := range c11bTCPCuts(thorough, 256) {
		h.runUp(up, fmt.Sprintf("cut/tcp/at=%d", k), "tcp", c11bBase, c11bCutAt(k))
	}
	h.runUp(up, "ones/tcp/0", "tcp", c11bBase, c11bOnes)
	h.runUp(up, "whole/tcp/0", "tcp", c11bBase, c11bWhole)
	for i := 0; i < nTCP; i++ {
		sz := h.sizes(c11bProfiles[i%3], 1+h.rng.Intn(6))
		h.runUp(up, fmt.Sprintf("random/tcp/%d", i), "tcp", sz, c11bRandomSeg(h.rng, c11bMaxSegs[1+i%5]))
	}
	step := 7
	if thorough {
		step = 1
	}
	all := c11bRange(0, 2000, step)
	h.runUp(up, "b2b/pipe/ascending/max3000", "pipe", all, c11bRandomSeg(h.rng, 3000))
	h.runUp(up, "b2b/pipe/descending/max100", "pipe", c11bReversed(all), c11bRandomSeg(h.rng, 100))
	h.runUp(up, "b2b/tcp/ascending/max3000", "tcp", all, c11bRandomSeg(h.rng, 3000))

	h.fails.report(t)
	fmt.Printf("STANDIN-STAT name=c11b_handshake_client_to_server cases=%d distinct=%d\n", h.cases, len(h.distinct))
}
