//go:build verif

package liteclient

// Bounded stand-in for C11 (labelled bounded, never counted as proved).
// Stands in for: reassembly of frames from a byte stream split at arbitrary TCP segment boundaries and the
// continuity of the per-direction AES-CTR streams across packets, which the prover does not model.
// Bound: payload sizes {0,1,2,3,4,59,60,64,1000,4094,65536}, sequences of 1..4 packets per stream, readers that
// return 1 byte, half, or everything per Read; every single-byte corruption (quick: every 5th byte, thorough: all)
// of a one-packet stream must be rejected.

import (
	"bytes"
	"crypto/aes"
	"crypto/cipher"
	"fmt"
	"io"
	"math/rand"
	"os"
	"strconv"
	"testing"
	"testing/iotest"
)

func c11Streams(seed int64) (cipher.Stream, cipher.Stream) {
	r := rand.New(rand.NewSource(seed))
	key := make([]byte, 32)
	iv := make([]byte, 16)
	r.Read(key)
	r.Read(iv)
	b1, _ := aes.NewCipher(key)
	b2, _ := aes.NewCipher(key)
	return cipher.NewCTR(b1, iv), cipher.NewCTR(b2, iv)
}

func TestVerifStandin_C11_Frames(t *testing.T) {
	seed := int64(1)
	if s := os.Getenv("VERIF_SEED"); s != "" {
		if v, err := strconv.ParseInt(s, 10, 64); err == nil {
			seed = v
		}
	}
	thorough := os.Getenv("VERIF_TIER") == "thorough"
	r := rand.New(rand.NewSource(seed))
	cases, distinct := 0, map[string]bool{}
	sizes := []int{0, 1, 2, 3, 4, 59, 60, 64, 1000, 4094, 65536}
	readers := map[string]func(io.Reader) io.Reader{
		"whole":   func(x io.Reader) io.Reader { return x },
		"onebyte": iotest.OneByteReader,
		"half":    iotest.HalfReader,
		"dataerr": iotest.DataErrReader,
	}
	for n := 1; n <= 4; n++ {
		for si := range sizes {
			var payloads [][]byte
			var wire bytes.Buffer
			enc, dec := c11Streams(seed + int64(n*100+si))
			for k := 0; k < n; k++ {
				p := make([]byte, sizes[(si+k)%len(sizes)])
				r.Read(p)
				pk, err := NewPacket(p)
				if err != nil {
					t.Fatal(err)
				}
				b := pk.marshal()
				enc.XORKeyStream(b, b)
				wire.Write(b)
				payloads = append(payloads, p)
			}
			for rn, mk := range readers {
				_, dec2 := c11Streams(seed + int64(n*100+si))
				_ = dec
				rd := mk(bytes.NewReader(wire.Bytes()))
				t.Run(fmt.Sprintf("rc_frames_split_%s", rn), func(t *testing.T) {
					for k := 0; k < n; k++ {
						cases++
						distinct[fmt.Sprintf("%d/%d/%s/%d", n, si, rn, k)] = true
						got, err := ParsePacket(rd, dec2)
						if err != nil {
							t.Fatalf("packet %d of %d (sizes from index %d, reader %s): %v", k, n, si, rn, err)
						}
						if !bytes.Equal(got.Payload, payloads[k]) {
							t.Fatalf("packet %d of %d (reader %s): payload differs", k, n, rn)
						}
					}
				})
			}
		}
	}
	// corruption of a single packet stream
	step := 5
	if thorough {
		step = 1
	}
	for _, sz := range []int{0, 5, 64, 300} {
		p := make([]byte, sz)
		r.Read(p)
		pk, _ := NewPacket(p)
		enc, _ := c11Streams(seed + 7)
		b := pk.marshal()
		enc.XORKeyStream(b, b)
		for pos := 0; pos < len(b); pos += step {
			for _, x := range []byte{0x01, 0x80} {
				m := append([]byte{}, b...)
				m[pos] ^= x
				_, dec := c11Streams(seed + 7)
				cases++
				distinct[fmt.Sprintf("c/%d/%d/%d", sz, pos, x)] = true
				got, err := ParsePacket(bytes.NewReader(m), dec)
				if err == nil {
					t.Run("rc_corrupted_frame_delivered", func(t *testing.T) {
						t.Errorf("size %d: byte %d ^ %#x accepted, payload %x", sz, pos, x, got.Payload)
					})
				}
			}
		}
	}
	fmt.Printf("STANDIN-STAT name=c11_frames cases=%d distinct=%d\n", cases, len(distinct))
}

// Second part of the stand-in: the acceptance direction of the frame-length bounds ("every packet sent is received with
// exactly the payload that was sent", quantified up to the 8 MiB limit). The contract on ParsePacket proves the
// rejection direction (err == nil ==> 64 <= length <= 8 MiB) for all inputs; that a frame inside the bounds IS
// delivered depends on the io.Reader delivering the bytes, which the prover does not model.
// Bound: frame lengths {64, 65, 8 MiB - 1, 8 MiB} (payload = length - 64), each followed by a small packet on the
// same AES-CTR stream, readers returning everything or half per Read.
func TestVerifStandin_C11_SizeLimit(t *testing.T) {
	seed := int64(1)
	if s := os.Getenv("VERIF_SEED"); s != "" {
		if v, err := strconv.ParseInt(s, 10, 64); err == nil {
			seed = v
		}
	}
	r := rand.New(rand.NewSource(seed))
	cases, distinct := 0, map[string]bool{}
	lengths := []int{64, 65, 8<<20 - 1, 8 << 20}
	readers := map[string]func(io.Reader) io.Reader{
		"whole": func(x io.Reader) io.Reader { return x },
		"half":  iotest.HalfReader,
	}
	for li, L := range lengths {
		big := make([]byte, L-64)
		r.Read(big)
		small := make([]byte, 17)
		r.Read(small)
		var wire bytes.Buffer
		enc, _ := c11Streams(seed + int64(900+li))
		for _, p := range [][]byte{big, small} {
			pk, err := NewPacket(p)
			if err != nil {
				t.Fatal(err)
			}
			b := pk.marshal()
			enc.XORKeyStream(b, b)
			wire.Write(b)
		}
		for rn, mk := range readers {
			_, dec := c11Streams(seed + int64(900+li))
			rd := mk(bytes.NewReader(wire.Bytes()))
			t.Run("rc_frame_at_length_bound_not_delivered", func(t *testing.T) {
				for k, want := range [][]byte{big, small} {
					cases++
					distinct[fmt.Sprintf("%d/%s/%d", L, rn, k)] = true
					got, err := ParsePacket(rd, dec)
					if err != nil {
						t.Fatalf("frame of length %d (payload %d bytes), packet %d on the stream, reader %s: %v", L, L-64, k, rn, err)
					}
					if !bytes.Equal(got.Payload, want) {
						t.Fatalf("frame of length %d, packet %d, reader %s: payload differs", L, k, rn)
					}
				}
			})
		}
	}
	fmt.Printf("STANDIN-STAT name=c11_sizelimit cases=%d distinct=%d\n", cases, len(distinct))
}
