//go:build verif

package liteclient

// Bounded stand-in for C17 (labelled bounded, never counted as proved), package liteclient part: the base32 text form
// of ADNL addresses.
//
// Oracle (TON documentation, "ADNL address" text form): base32 (RFC 4648 alphabet in lower case, no padding) of the 35
// bytes 0x2d ++ 32-byte address ++ CRC16-XMODEM (poly 0x1021, init 0, big-endian) of those 33 bytes, with the first
// character (always 'f') removed: 55 characters. The base32 encoder and the CRC below are written bit by bit and do not
// use encoding/base32 or the library CRC.
//
// Bound (quick / thorough): 2000 / 20000 seeded addresses (zero, all-ff, leading zero bytes, random): encode == oracle,
// parse(encode) == address, parse(oracle ++ ".adnl") == address; single-character substitutions for 50 / 500 addresses
// x every position of the 55 x all 31 other base32 digits: rejected;
// wrong lengths 0..57, digits outside the alphabet (0 1 8 9 = - _ space newline NUL, non-ASCII), a wrong first byte
// with a matching CRC and a wrong CRC: rejected without panic.
// Informational only (logged as "INFO c17 adnl_uppercase_accepted: N cases, first: ...", never a failure): upper-case
// spellings are accepted by the library (case-insensitive parsing), which the property does not forbid.

import (
	"fmt"
	"math/rand"
	"os"
	"sort"
	"strconv"
	"strings"
	"testing"

	"github.com/tonkeeper/tongo/ton"
)

func c17Seed() int64 {
	if v, err := strconv.ParseInt(os.Getenv("VERIF_SEED"), 10, 64); err == nil {
		return v
	}
	return 1
}

// c17Fails collects findings keyed by cause. A cause named rc_... is a violation of the property: every such root cause
// is reported in its own sub-test with a stable name; known root causes are always run (so that they show PASS once
// fixed) and a cause that is not in the known list still gets its own sub-test. A cause named info_... is a leniency the
// property does not forbid: it is only logged ("INFO c17 <name>: N cases, first: ...") and never fails the test.
type c17Fails struct {
	count map[string]int
	msgs  map[string][]string
	known []string
}

func c17NewFails(known ...string) *c17Fails {
	return &c17Fails{count: map[string]int{}, msgs: map[string][]string{}, known: known}
}

func (f *c17Fails) add(cause, format string, args ...any) {
	if !strings.HasPrefix(cause, "rc_") && !strings.HasPrefix(cause, "info_") {
		cause = "rc_unclassified_" + cause
	}
	f.count[cause]++
	if len(f.msgs[cause]) < 6 {
		m := fmt.Sprintf(format, args...)
		if len(m) > 1500 {
			m = m[:1500] + "...(truncated)"
		}
		f.msgs[cause] = append(f.msgs[cause], m)
	}
}

func (f *c17Fails) report(t *testing.T) {
	names := map[string]bool{}
	for _, k := range f.known {
		names[k] = true
	}
	for k := range f.count {
		names[k] = true
	}
	var sorted []string
	for k := range names {
		sorted = append(sorted, k)
	}
	sort.Strings(sorted)
	for _, k := range sorted {
		if strings.HasPrefix(k, "info_") {
			first := "-"
			if len(f.msgs[k]) > 0 {
				first = f.msgs[k][0]
			}
			t.Logf("INFO c17 %s: %d cases, first: %s", strings.TrimPrefix(k, "info_"), f.count[k], first)
		}
	}
	for _, k := range sorted {
		k := k
		if !strings.HasPrefix(k, "rc_") {
			continue
		}
		t.Run(k, func(t *testing.T) {
			if f.count[k] == 0 {
				return
			}
			t.Errorf("%d failing case(s); first %d:", f.count[k], len(f.msgs[k]))
			for _, m := range f.msgs[k] {
				t.Errorf("  %s", m)
			}
		})
	}
}

func c17Safe(fn func()) (p string) {
	defer func() {
		if r := recover(); r != nil {
			p = fmt.Sprintf("panic: %v", r)
		}
	}()
	fn()
	return ""
}

// c17Crc16 is CRC16-XMODEM computed bit by bit: polynomial 0x1021, initial value 0, no reflection, no final xor.
func c17Crc16(data []byte) uint16 {
	var reg uint16
	for _, b := range data {
		for i := 7; i >= 0; i-- {
			in := (b >> uint(i)) & 1
			top := byte(reg >> 15)
			reg <<= 1
			if top^in == 1 {
				reg ^= 0x1021
			}
		}
	}
	return reg
}

const c17Base32Alphabet = "abcdefghijklmnopqrstuvwxyz234567"

// c17Base32 encodes data (a multiple of 5 bytes) in RFC 4648 base32, lower case: 5 bits per digit, most significant first.
func c17Base32(data []byte) string {
	if len(data)%5 != 0 {
		panic("c17 oracle: base32 input must be a multiple of 5 bytes")
	}
	var sb strings.Builder
	acc, nbits := uint32(0), 0
	for _, b := range data {
		acc = acc<<8 | uint32(b)
		nbits += 8
		for nbits >= 5 {
			sb.WriteByte(c17Base32Alphabet[(acc>>uint(nbits-5))&31])
			nbits -= 5
		}
		acc &= 1<<uint(nbits) - 1
	}
	return sb.String()
}

// c17AdnlFull is the 56-character text of an arbitrary first byte, address and checksum correction.
func c17AdnlFull(first byte, addr [32]byte, crcXor uint16) string {
	buf := append([]byte{first}, addr[:]...)
	c := c17Crc16(buf) ^ crcXor
	buf = append(buf, byte(c>>8), byte(c))
	return c17Base32(buf)
}

func TestVerifStandin_C17_ADNL(t *testing.T) {
	rng := rand.New(rand.NewSource(c17Seed()))
	thorough := os.Getenv("VERIF_TIER") == "thorough"
	fails := c17NewFails("rc_adnl_encode_differs_from_spec", "rc_adnl_roundtrip_rejected", "rc_adnl_roundtrip_wrong_address",
		"rc_adnl_single_char_mutation_accepted", "rc_adnl_wrong_length_accepted", "rc_adnl_invalid_char_accepted",
		"rc_adnl_wrong_first_byte_accepted", "rc_adnl_wrong_crc_accepted", "rc_panic_adnl_encode", "rc_panic_adnl_parse",
		// case-insensitive parsing is a leniency the property does not forbid: logged, never failed
		"info_adnl_uppercase_accepted")
	cases, distinct := 0, map[string]struct{}{}
	defer func() { // printed even when sub-tests fail
		fmt.Printf("STANDIN-STAT name=c17_adnl cases=%d distinct=%d\n", cases, len(distinct))
	}()
	note := func(k string) {
		cases++
		distinct[k] = struct{}{}
	}
	if got := c17Crc16([]byte("123456789")); got != 0x31C3 {
		t.Fatalf("oracle self-check: bitwise CRC16-XMODEM of \"123456789\" = %#x, want 0x31c3", got)
	}
	if got := c17Base32([]byte("fooba")); got != "mzxw6ytb" { // RFC 4648 test vector
		t.Fatalf("oracle self-check: base32(\"fooba\") = %q, want mzxw6ytb", got)
	}

	nAddr, nMut := 2000, 50
	if thorough {
		nAddr, nMut = 20000, 500
	}
	var addrs [][32]byte
	{
		var zero, ones, one [32]byte
		for i := range ones {
			ones[i] = 0xff
		}
		one[31] = 1
		addrs = append(addrs, zero, ones, one)
		for _, lead := range []int{1, 2, 8, 31} {
			var a [32]byte
			rng.Read(a[:])
			for i := 0; i < lead; i++ {
				a[i] = 0
			}
			addrs = append(addrs, a)
		}
		for len(addrs) < nAddr {
			var a [32]byte
			rng.Read(a[:])
			addrs = append(addrs, a)
		}
	}
	parse := func(what, s string) (ton.Bits256, error, bool) {
		var out ton.Bits256
		var err error
		if p := c17Safe(func() { out, err = ParseADNLAddress(s) }); p != "" {
			fails.add("rc_panic_adnl_parse", "ParseADNLAddress(%q) (hex %x) [%s]: %s", s, s, what, p)
			return out, nil, false
		}
		return out, err, true
	}
	expectReject := func(cause, what, s string) {
		note(what + "|" + s)
		if out, err, ok := parse(what, s); ok && err == nil {
			fails.add(cause, "ParseADNLAddress accepts %q (hex %x) [%s] as %x", s, s, what, out[:])
		}
	}

	for _, a := range addrs {
		full := c17AdnlFull(0x2d, a, 0)
		if len(full) != 56 || full[0] != 'f' {
			t.Fatalf("oracle: full text %q", full)
		}
		want := full[1:]
		note("adnl|" + want)
		var got string
		if p := c17Safe(func() { got = ADNLAddressToBase32(ton.Bits256(a)) }); p != "" {
			fails.add("rc_panic_adnl_encode", "ADNLAddressToBase32(%x): %s", a, p)
			continue
		}
		if got != want {
			fails.add("rc_adnl_encode_differs_from_spec", "ADNLAddressToBase32(%x) = %q, specification gives %q", a, got, want)
		}
		for _, s := range []string{got, want, want + ".adnl"} {
			if back, err, ok := parse("round trip", s); ok && err != nil {
				fails.add("rc_adnl_roundtrip_rejected", "ParseADNLAddress(%q): %v; want %x", s, err, a)
			} else if ok && [32]byte(back) != a {
				fails.add("rc_adnl_roundtrip_wrong_address", "ParseADNLAddress(%q) = %x; want %x", s, back[:], a)
			}
		}
	}

	// every single-character substitution is rejected (a digit covers 5 adjacent bits: a burst the CRC16 always detects)
	for k := 0; k < nMut; k++ {
		a := addrs[(k*41)%len(addrs)]
		orig := c17AdnlFull(0x2d, a, 0)[1:]
		m := []byte(orig)
		for pos := 0; pos < 55; pos++ {
			for d := 0; d < 32; d++ {
				if c17Base32Alphabet[d] == orig[pos] {
					continue
				}
				m[pos] = c17Base32Alphabet[d]
				expectReject("rc_adnl_single_char_mutation_accepted", fmt.Sprintf("%q with position %d changed from %q to %q", orig, pos, orig[pos], m[pos]), string(m))
			}
			m[pos] = orig[pos]
		}
	}

	// malformed texts
	for k := 0; k < 40; k++ {
		a := addrs[k]
		full := c17AdnlFull(0x2d, a, 0)
		s := full[1:]
		for n := 0; n <= 57; n++ {
			if n == 55 {
				continue
			}
			var cut string
			if n <= 55 {
				cut = s[:n]
			} else {
				cut = s + strings.Repeat("a", n-55)
			}
			expectReject("rc_adnl_wrong_length_accepted", fmt.Sprintf("%d characters", n), cut)
		}
		expectReject("rc_adnl_wrong_length_accepted", "56 characters (with the leading f)", full)
		expectReject("rc_adnl_wrong_length_accepted", "54 characters (first dropped)", s[1:])
		expectReject("rc_adnl_wrong_length_accepted", "110 characters (twice)", s+s)
		expectReject("rc_adnl_wrong_length_accepted", "54 characters + .adnl", s[:54]+".adnl")
		expectReject("rc_adnl_wrong_length_accepted", "56 characters + .adnl", full+".adnl")
		expectReject("rc_adnl_wrong_length_accepted", "55 characters + .adnl.adnl", s+".adnl.adnl")
		expectReject("rc_adnl_wrong_length_accepted", ".adnl only", ".adnl")
		expectReject("rc_adnl_wrong_length_accepted", "55 characters + '='", s+"=")
		expectReject("rc_adnl_wrong_length_accepted", "leading newline", "\n"+s)
		expectReject("rc_adnl_wrong_length_accepted", "trailing newline", s+"\n")
		expectReject("rc_adnl_wrong_length_accepted", "trailing space", s+" ")
		expectReject("info_adnl_uppercase_accepted", "all upper case", strings.ToUpper(s))
		for _, pos := range []int{0, 1, 27, 53, 54} {
			if c := s[pos]; c >= 'a' && c <= 'z' {
				expectReject("info_adnl_uppercase_accepted", fmt.Sprintf("upper case at position %d", pos), s[:pos]+strings.ToUpper(s[pos:pos+1])+s[pos+1:])
			}
			for _, bad := range []string{"0", "1", "8", "9", "=", "-", "_", "+", "/", " ", "\n", "\r", "\x00", ".", "\x7f", "\xff", "\xc3"} {
				expectReject("rc_adnl_invalid_char_accepted", fmt.Sprintf("%q at position %d", bad, pos), s[:pos]+bad+s[pos+1:])
			}
			// 2-byte rune replacing 2 characters keeps the byte length 55
			if pos+2 <= 55 {
				expectReject("rc_adnl_invalid_char_accepted", fmt.Sprintf("\"é\" at position %d", pos), s[:pos]+"é"+s[pos+2:])
			}
		}
		// wrong first byte with a matching CRC: the first character is implied ('f'), so a text built from another
		// first byte either starts with another character (dropped here) or differs in the second character
		for _, first := range []byte{0x00, 0x2c, 0x2e, 0x28, 0x2f, 0x3d, 0xff, 0x2d ^ 0x04, 0x2d ^ 0x01} {
			alt := c17AdnlFull(first, a, 0)
			expectReject("rc_adnl_wrong_first_byte_accepted", fmt.Sprintf("first byte %#02x with a valid CRC, leading %q dropped", first, alt[0]), alt[1:])
		}
		for _, x := range []uint16{1, 0x8000, 0x0100, 0x1021, 0xffff, uint16(1 + rng.Intn(0xffff))} {
			expectReject("rc_adnl_wrong_crc_accepted", fmt.Sprintf("CRC xor %#04x", x), c17AdnlFull(0x2d, a, x)[1:])
		}
		// bytes swapped: little-endian CRC
		{
			buf := append([]byte{0x2d}, a[:]...)
			c := c17Crc16(buf)
			if byte(c>>8) != byte(c) {
				buf = append(buf, byte(c), byte(c>>8))
				expectReject("rc_adnl_wrong_crc_accepted", "CRC bytes swapped", c17Base32(buf)[1:])
			}
		}
	}
	expectReject("rc_adnl_wrong_length_accepted", "empty", "")

	fails.report(t)
}
