//go:build verif

package tlb

// Shared helpers of the bounded stand-ins of package tlb (C03, C04, C05, C20).
// Nothing here calls the codec under test except where a helper explicitly says so.

import (
	"bytes"
	"fmt"
	"math/big"
	"math/rand"
	"os"
	"reflect"
	"sort"
	"strconv"
	"strings"
	"testing"
	"unsafe"

	"github.com/tonkeeper/tongo/boc"
)

func vhThorough() bool { return os.Getenv("VERIF_TIER") == "thorough" }

func vhSeed() int64 {
	if s := os.Getenv("VERIF_SEED"); s != "" {
		if v, err := strconv.ParseInt(s, 10, 64); err == nil {
			return v
		}
	}
	return 1
}

func vhRng() *rand.Rand { return rand.New(rand.NewSource(vhSeed())) }

// vhStat counts executed cases and distinct inputs and prints the STANDIN-STAT line.
type vhStat struct {
	name     string
	cases    int
	distinct map[string]struct{}
}

func newVhStat(name string) *vhStat { return &vhStat{name: name, distinct: map[string]struct{}{}} }
func (s *vhStat) add(key string) {
	s.cases++
	s.distinct[key] = struct{}{}
}
func (s *vhStat) print() {
	fmt.Printf("STANDIN-STAT name=%s cases=%d distinct=%d\n", s.name, s.cases, len(s.distinct))
}

// vhFailures collects failures keyed by root cause; every root cause is reported in its own sub-test with a stable
// name. Known root causes are always run (so that they show PASS once fixed).
type vhFailures struct {
	byCause map[string][]string
	count   map[string]int
	known   []string
}

func newVhFailures(known ...string) *vhFailures {
	return &vhFailures{byCause: map[string][]string{}, count: map[string]int{}, known: known}
}

func (f *vhFailures) add(cause, format string, args ...any) {
	f.count[cause]++
	if len(f.byCause[cause]) < 6 {
		msg := fmt.Sprintf(format, args...)
		if len(msg) > 1500 {
			msg = msg[:1500] + "...(truncated)"
		}
		f.byCause[cause] = append(f.byCause[cause], msg)
	}
}

// wants reports whether another example of this cause will be kept (lets callers skip building expensive messages).
func (f *vhFailures) wants(cause string) bool { return len(f.byCause[cause]) < 6 }

func (f *vhFailures) report(t *testing.T) {
	names := map[string]bool{}
	for _, k := range f.known {
		names[k] = true
	}
	for k := range f.count {
		names[k] = true
	}
	var sorted []string
	for k := range names {
		sorted = append(sorted, k)
	}
	sort.Strings(sorted)
	for _, k := range sorted {
		k := k
		t.Run(k, func(t *testing.T) {
			if f.count[k] == 0 {
				return
			}
			t.Errorf("%d failing case(s); first %d:", f.count[k], len(f.byCause[k]))
			for _, m := range f.byCause[k] {
				t.Errorf("  %s", m)
			}
		})
	}
}

// vhSafe runs fn and converts a panic into an error string ("" = no panic).
func vhSafe(fn func()) (panicMsg string) {
	defer func() {
		if r := recover(); r != nil {
			panicMsg = fmt.Sprintf("%v", r)
			if panicMsg == "" {
				panicMsg = "panic"
			}
		}
	}()
	fn()
	return ""
}

// ---- ideal views of cells and bit strings (built only on ReadBit / Refs / CellType) ----

// vhBitsOf returns the bits of bs from its read cursor to its end as a string of '0'/'1'.
func vhBitsOf(bs boc.BitString) string {
	n := bs.BitsAvailableForRead()
	if n < 0 {
		n = 0
	}
	out := make([]byte, 0, n)
	for i := 0; i < n; i++ {
		b, err := bs.ReadBit() // bs is a copy: the caller's cursor is not moved
		if err != nil {
			break
		}
		if b {
			out = append(out, '1')
		} else {
			out = append(out, '0')
		}
	}
	return string(out)
}

// vhCellBits returns all bits of c (from bit 0).
func vhCellBits(c *boc.Cell) string {
	cc := *c
	cc.ResetCounters()
	return vhBitsOf(cc.RawBitString())
}

// vhCellRemaining returns the view of c from its read cursors: remaining bits and remaining refs.
func vhCellRemaining(c *boc.Cell) (string, []*boc.Cell) {
	cc := *c
	bits := vhBitsOf(cc.RawBitString())
	if skip := len(bits) - cc.BitsAvailableForRead(); skip > 0 && skip <= len(bits) {
		bits = bits[skip:]
	}
	refs := c.Refs()
	n := c.RefsAvailableForRead()
	if n < 0 {
		n = 0
	}
	if n > len(refs) {
		n = len(refs)
	}
	return bits, refs[len(refs)-n:]
}

// vhTree renders the whole tree under c (from bit 0 / ref 0) as text: type:bits{child,child}.
func vhTree(c *boc.Cell) string {
	if c == nil {
		return "<nil>"
	}
	var sb strings.Builder
	var walk func(c *boc.Cell, depth int)
	walk = func(c *boc.Cell, depth int) {
		if depth > 600 {
			sb.WriteString("<too deep>")
			return
		}
		if c.CellType() != boc.OrdinaryCell {
			fmt.Fprintf(&sb, "x%d:", c.CellType())
		}
		sb.WriteString(vhBin2Hex(vhCellBits(c)))
		refs := c.Refs()
		if len(refs) > 0 {
			sb.WriteByte('{')
			for i, r := range refs {
				if i > 0 {
					sb.WriteByte(',')
				}
				walk(r, depth+1)
			}
			sb.WriteByte('}')
		}
	}
	walk(c, 0)
	return sb.String()
}

// vhViewTree renders the view of c from its read cursors (remaining bits, remaining refs as whole trees).
func vhViewTree(c *boc.Cell) string {
	bits, refs := vhCellRemaining(c)
	var sb strings.Builder
	if c.CellType() != boc.OrdinaryCell {
		fmt.Fprintf(&sb, "x%d:", c.CellType())
	}
	sb.WriteString(vhBin2Hex(bits))
	if len(refs) > 0 {
		sb.WriteByte('{')
		for i, r := range refs {
			if i > 0 {
				sb.WriteByte(',')
			}
			sb.WriteString(vhTree(r))
		}
		sb.WriteByte('}')
	}
	return sb.String()
}

// vhBin2Hex renders a bit string compactly: hex digits for complete nibbles, then "/" and the odd bits.
func vhBin2Hex(bits string) string {
	var sb strings.Builder
	i := 0
	for ; i+4 <= len(bits); i += 4 {
		v, _ := strconv.ParseUint(bits[i:i+4], 2, 8)
		sb.WriteString(strconv.FormatUint(v, 16))
	}
	if i < len(bits) {
		sb.WriteString("/" + bits[i:])
	}
	if len(bits) == 0 {
		return "-"
	}
	return sb.String()
}

// vhCellFromBits builds an ordinary cell from an ideal bit list and refs using only WriteBit / AddRef.
func vhCellFromBits(bits string, refs ...*boc.Cell) (*boc.Cell, error) {
	c := boc.NewCell()
	for i := 0; i < len(bits); i++ {
		if err := c.WriteBit(bits[i] == '1'); err != nil {
			return nil, err
		}
	}
	for _, r := range refs {
		if err := c.AddRef(r); err != nil {
			return nil, err
		}
	}
	return c, nil
}

func vhBitStringFromBits(bits string) boc.BitString {
	bs := boc.NewBitString(len(bits))
	for i := 0; i < len(bits); i++ {
		_ = bs.WriteBit(bits[i] == '1')
	}
	return bs
}

// vhUintBits is the ideal big-endian binary form of v in exactly n bits (v must fit).
func vhUintBits(v *big.Int, n int) string {
	if n == 0 {
		return ""
	}
	s := v.Text(2)
	if len(s) > n {
		panic(fmt.Sprintf("oracle: %v does not fit %d bits", v, n))
	}
	return strings.Repeat("0", n-len(s)) + s
}

func vhU64Bits(v uint64, n int) string { return vhUintBits(new(big.Int).SetUint64(v), n) }

// vhIntBits is the ideal two's complement of v in n bits.
func vhIntBits(v *big.Int, n int) string {
	if v.Sign() >= 0 {
		return vhUintBits(v, n)
	}
	m := new(big.Int).Lsh(big.NewInt(1), uint(n))
	m.Add(m, v)
	return vhUintBits(m, n)
}

func vhI64Bits(v int64, n int) string { return vhIntBits(big.NewInt(v), n) }

// vhBytesBits: 8 bits per byte, big-endian.
func vhBytesBits(b []byte) string {
	var sb strings.Builder
	for _, x := range b {
		fmt.Fprintf(&sb, "%08b", x)
	}
	return sb.String()
}

// bit width needed for values 0..n (TL-B "#<= n")
func vhLenBits(n int) int {
	k := 0
	for (1 << k) <= n {
		k++
	}
	return k
}

// ---- value comparison ----

var (
	vhBigIntType = reflect.TypeOf(big.Int{})
	vhCellType   = reflect.TypeOf(boc.Cell{})
	vhBitsType   = reflect.TypeOf(boc.BitString{})
	vhMagicType  = reflect.TypeOf(Magic(0))
)

// vhAddressable returns an addressable copy of x (so that unexported fields can be read through unsafe).
func vhAddressable(x any) reflect.Value {
	v := reflect.ValueOf(x)
	p := reflect.New(v.Type())
	p.Elem().Set(v)
	return p.Elem()
}

// vhOpen makes a value obtained through an unexported field usable (v must be addressable).
func vhOpen(v reflect.Value) reflect.Value {
	if v.CanInterface() {
		return v
	}
	if v.CanAddr() {
		return reflect.NewAt(v.Type(), unsafe.Pointer(v.UnsafeAddr())).Elem()
	}
	return v
}

// vhDiff compares an original value with a decoded one and returns "" when they denote the same TL-B value, else a
// description of the first difference. It is reflect.DeepEqual with these documented normalisations ONLY:
//   - boc.Cell (and types defined on it, e.g. Any): compared as the cell *view* from the read cursors (remaining bits,
//     remaining refs as whole trees, cell type); a decoded cell legitimately carries cursors and spare buffer capacity.
//   - boc.BitString (and SnakeData/ChunkedData): compared as the bit sequence from the read cursor (buffer capacity
//     and slack bytes ignored).
//   - types defined on big.Int: compared with Cmp (the internal word slice may be nil or empty for 0).
//   - nil slice == empty slice.
//   - the unexported cache fields `hash` and `lazySourceBoc` of Message / Transaction are skipped: they are set by the
//     decoder only and are not part of the TL-B value.
//   - func values are skipped.
//   - Magic fields are skipped: the Go value of a Magic carries no TL-B information - the encoder ignores it
//     (Magic.EncodeTag writes the constant of the struct tag) and decoders either store that constant (generic
//     ValidateTag) or leave the field 0 (the hand-written Transaction.UnmarshalTLB checks the 4 tag bits itself and
//     never assigns tx.Magic). That the tag BITS are right is checked by C04.
//
// Everything else, including the SumType field of unions, unselected union members, Maybe.Value of absent optionals,
// nil-ness of pointers and all unexported fields (hashmap keys/values, VmCellSlice, ...) is compared strictly.
func vhDiff(a, b any) string {
	ds := vhDiffAll(a, b)
	if len(ds) == 0 {
		return ""
	}
	return ds[0].String()
}

// vhHasher caches hashes of (read-only) reference cells; used only as a fast path to EQUALITY of two cell views.
var vhHasher = boc.NewHasher()

// vhSameView: fast positive check that two cell views are equal: same type, same remaining bits, and the remaining
// references pairwise have the same representation hash. A negative answer is not trusted (the caller then compares
// the rendered trees).
func vhSameView(a, b *boc.Cell) bool {
	if a.CellType() != b.CellType() {
		return false
	}
	ab, ar := vhCellRemaining(a)
	bb, br := vhCellRemaining(b)
	if ab != bb || len(ar) != len(br) {
		return false
	}
	for i := range ar {
		if ar[i] == br[i] {
			continue
		}
		ha, err1 := vhHasher.HashString(ar[i])
		hb, err2 := vhHasher.HashString(br[i])
		if err1 != nil || err2 != nil || ha != hb {
			return false
		}
	}
	return true
}

// vhDelta is one difference found by vhDiffAll: where, the Go type of the differing node, and the original node.
type vhDelta struct {
	Path string
	Type reflect.Type
	Orig reflect.Value
	Msg  string
}

func (d vhDelta) String() string { return d.Path + ": " + d.Msg }

// vhDiffAll returns all differences (at most 32), see vhDiff for the comparison rules.
func vhDiffAll(a, b any) []vhDelta {
	if reflect.TypeOf(a) != reflect.TypeOf(b) {
		return []vhDelta{{Msg: fmt.Sprintf("types differ: %T vs %T", a, b)}}
	}
	var out []vhDelta
	vhDiffV(vhAddressable(a), vhAddressable(b), "", &out)
	return out
}

func vhDiffV(a, b reflect.Value, path string, out *[]vhDelta) {
	if len(*out) >= 32 {
		return
	}
	a, b = vhOpen(a), vhOpen(b)
	t := a.Type()
	if t == vhMagicType {
		return
	}
	diff := func(format string, args ...any) {
		*out = append(*out, vhDelta{Path: path, Type: t, Orig: a, Msg: fmt.Sprintf(format, args...)})
	}
	switch {
	case t.ConvertibleTo(vhCellType) && t.Kind() == reflect.Struct:
		ca := a.Convert(vhCellType).Interface().(boc.Cell)
		cb := b.Convert(vhCellType).Interface().(boc.Cell)
		if vhSameView(&ca, &cb) {
			return
		}
		ta, tb := vhViewTree(&ca), vhViewTree(&cb)
		if ta != tb {
			diff("cell %s != %s", ta, tb)
		}
		return
	case t.ConvertibleTo(vhBitsType) && t.Kind() == reflect.Struct:
		ba := a.Convert(vhBitsType).Interface().(boc.BitString)
		bb := b.Convert(vhBitsType).Interface().(boc.BitString)
		sa, sb := vhBitsOf(ba), vhBitsOf(bb)
		if sa != sb {
			diff("bits %s(%d) != %s(%d)", vhBin2Hex(sa), len(sa), vhBin2Hex(sb), len(sb))
		}
		return
	case t.ConvertibleTo(vhBigIntType) && t.Kind() == reflect.Struct:
		ia := a.Convert(vhBigIntType).Interface().(big.Int)
		ib := b.Convert(vhBigIntType).Interface().(big.Int)
		if ia.Cmp(&ib) != 0 {
			diff("%s != %s", ia.String(), ib.String())
		}
		return
	}
	switch t.Kind() {
	case reflect.Bool:
		if a.Bool() != b.Bool() {
			diff("%v != %v", a.Bool(), b.Bool())
		}
	case reflect.Int, reflect.Int8, reflect.Int16, reflect.Int32, reflect.Int64:
		if a.Int() != b.Int() {
			diff("%d != %d", a.Int(), b.Int())
		}
	case reflect.Uint, reflect.Uint8, reflect.Uint16, reflect.Uint32, reflect.Uint64, reflect.Uintptr:
		if a.Uint() != b.Uint() {
			diff("%d != %d", a.Uint(), b.Uint())
		}
	case reflect.String:
		if a.String() != b.String() {
			diff("%q != %q", a.String(), b.String())
		}
	case reflect.Func:
	case reflect.Pointer:
		if a.IsNil() != b.IsNil() {
			diff("nil-ness differs: original nil=%v decoded nil=%v", a.IsNil(), b.IsNil())
			return
		}
		if !a.IsNil() {
			vhDiffV(a.Elem(), b.Elem(), path, out)
		}
	case reflect.Slice:
		if a.Len() != b.Len() {
			diff("len %d != %d", a.Len(), b.Len())
			return
		}
		if t.Elem().Kind() == reflect.Uint8 {
			if !bytes.Equal(a.Bytes(), b.Bytes()) {
				diff("bytes %x != %x", a.Bytes(), b.Bytes())
			}
			return
		}
		for i := 0; i < a.Len(); i++ {
			vhDiffV(a.Index(i), b.Index(i), fmt.Sprintf("%s[%d]", path, i), out)
		}
	case reflect.Array:
		if t.Elem().Kind() == reflect.Uint8 {
			for i := 0; i < a.Len(); i++ {
				if a.Index(i).Uint() != b.Index(i).Uint() {
					diff("byte array differs at index %d", i)
					return
				}
			}
			return
		}
		for i := 0; i < a.Len(); i++ {
			vhDiffV(a.Index(i), b.Index(i), fmt.Sprintf("%s[%d]", path, i), out)
		}
	case reflect.Struct:
		for i := 0; i < t.NumField(); i++ {
			name := t.Field(i).Name
			if name == "hash" || name == "lazySourceBoc" {
				continue
			}
			vhDiffV(a.Field(i), b.Field(i), path+"."+name, out)
		}
	case reflect.Interface:
		if a.IsNil() != b.IsNil() {
			diff("interface nil-ness differs")
		} else if !a.IsNil() && !reflect.DeepEqual(a.Interface(), b.Interface()) {
			diff("interface values differ")
		}
	default:
		diff("unsupported kind %v", t.Kind())
	}
}

// vhDump renders a value for failure messages (cells as trees, big ints in decimal, byte arrays in hex).
func vhDump(x any) string {
	var sb strings.Builder
	vhDumpV(&sb, vhAddressable(x), 0)
	return sb.String()
}

func vhDumpV(sb *strings.Builder, v reflect.Value, depth int) {
	v = vhOpen(v)
	t := v.Type()
	if depth > 40 {
		sb.WriteString("...")
		return
	}
	switch {
	case t.ConvertibleTo(vhCellType) && t.Kind() == reflect.Struct:
		c := v.Convert(vhCellType).Interface().(boc.Cell)
		sb.WriteString("cell(" + vhViewTree(&c) + ")")
		return
	case t.ConvertibleTo(vhBitsType) && t.Kind() == reflect.Struct:
		bs := v.Convert(vhBitsType).Interface().(boc.BitString)
		s := vhBitsOf(bs)
		fmt.Fprintf(sb, "bits%d(%s)", len(s), vhBin2Hex(s))
		return
	case t.ConvertibleTo(vhBigIntType) && t.Kind() == reflect.Struct:
		i := v.Convert(vhBigIntType).Interface().(big.Int)
		sb.WriteString(i.String())
		return
	}
	switch t.Kind() {
	case reflect.Bool:
		fmt.Fprintf(sb, "%v", v.Bool())
	case reflect.Int, reflect.Int8, reflect.Int16, reflect.Int32, reflect.Int64:
		fmt.Fprintf(sb, "%d", v.Int())
	case reflect.Uint, reflect.Uint8, reflect.Uint16, reflect.Uint32, reflect.Uint64:
		fmt.Fprintf(sb, "%d", v.Uint())
	case reflect.String:
		fmt.Fprintf(sb, "%q", v.String())
	case reflect.Pointer:
		if v.IsNil() {
			sb.WriteString("nil")
			return
		}
		sb.WriteString("&")
		vhDumpV(sb, v.Elem(), depth+1)
	case reflect.Slice, reflect.Array:
		if t.Elem().Kind() == reflect.Uint8 {
			sb.WriteString("0x")
			for i := 0; i < v.Len(); i++ {
				fmt.Fprintf(sb, "%02x", v.Index(i).Uint())
			}
			return
		}
		sb.WriteString("[")
		for i := 0; i < v.Len(); i++ {
			if i > 0 {
				sb.WriteString(", ")
			}
			vhDumpV(sb, v.Index(i), depth+1)
		}
		sb.WriteString("]")
	case reflect.Struct:
		// unions: print only the tag and the selected member
		if f, ok := t.FieldByName("SumType"); ok && f.Type.Kind() == reflect.String {
			sel := v.FieldByName("SumType").String()
			fmt.Fprintf(sb, "%s<%s>", t.Name(), sel)
			if _, ok := t.FieldByName(sel); ok && sel != "SumType" {
				vhDumpV(sb, v.FieldByName(sel), depth+1)
			}
			return
		}
		sb.WriteString("{")
		first := true
		for i := 0; i < t.NumField(); i++ {
			if t.Field(i).Type.Kind() == reflect.Func {
				continue
			}
			if !first {
				sb.WriteString(" ")
			}
			first = false
			sb.WriteString(t.Field(i).Name + ":")
			vhDumpV(sb, v.Field(i), depth+1)
		}
		sb.WriteString("}")
	default:
		fmt.Fprintf(sb, "<%v>", t.Kind())
	}
}

// vhHash returns the representation hash of c as hex ("" + error text on failure). Library hasher (C01/C02 concern).
func vhHash(c *boc.Cell) string {
	var out string
	if p := vhSafe(func() {
		h, err := c.Hash256()
		if err != nil {
			out = "hash error: " + err.Error()
			return
		}
		out = fmt.Sprintf("%x", h[:])
	}); p != "" {
		return "hash panic: " + p
	}
	return out
}

// vhSetUnexported sets an (addressable) unexported field.
func vhSetUnexported(field reflect.Value, val reflect.Value) {
	reflect.NewAt(field.Type(), unsafe.Pointer(field.UnsafeAddr())).Elem().Set(val)
}

func vhPow2(n int) *big.Int { return new(big.Int).Lsh(big.NewInt(1), uint(n)) }

// vhRandBig returns a uniformly random integer in [0, 2^n).
func vhRandBig(rng *rand.Rand, n int) *big.Int {
	if n == 0 {
		return big.NewInt(0)
	}
	b := make([]byte, (n+7)/8)
	rng.Read(b)
	v := new(big.Int).SetBytes(b)
	return v.Mod(v, vhPow2(n))
}

func vhRandBits(rng *rand.Rand, n int) string {
	var sb strings.Builder
	for i := 0; i < n; i++ {
		if rng.Intn(2) == 1 {
			sb.WriteByte('1')
		} else {
			sb.WriteByte('0')
		}
	}
	return sb.String()
}

// vhRandCell builds a small random ordinary cell tree (depth <= d).
func vhRandCell(rng *rand.Rand, d int) *boc.Cell {
	nb := []int{0, 1, 7, 8, 9, 32, 267, 1023}[rng.Intn(8)]
	if rng.Intn(3) == 0 {
		nb = rng.Intn(200)
	}
	var refs []*boc.Cell
	if d > 0 {
		for i := rng.Intn(3); i > 0; i-- {
			refs = append(refs, vhRandCell(rng, d-1))
		}
	}
	c, _ := vhCellFromBits(vhRandBits(rng, nb), refs...)
	return c
}

// ---- reference dictionary codec, written from the TON TL-B schema (used by C04 and C05) ----
//
//	hm_edge#_ {n:#} {X:Type} {l:#} {m:#} label:(HmLabel ~l n) {n = (~m) + l} node:(HashmapNode m X) = Hashmap n X;
//	hmn_leaf#_ {X:Type} value:X = HashmapNode 0 X;
//	hmn_fork#_ {n:#} {X:Type} left:^(Hashmap n X) right:^(Hashmap n X) = HashmapNode (n + 1) X;
//	hml_short$0 {m:#} {n:#} len:(Unary ~n) {n <= m} s:(n * Bit) = HmLabel ~n m;
//	hml_long$10 {m:#} n:(#<= m) s:(n * Bit) = HmLabel ~n m;
//	hml_same$11 {m:#} v:Bit n:(#<= m) = HmLabel ~n m;

// vhDictLeaf is one key -> value pair; the value is the remainder of the leaf cell (bits and refs).
type vhDictLeaf struct {
	Key     string // key bits
	ValBits string
	ValRefs []*boc.Cell
}

func (l vhDictLeaf) valString() string {
	s := vhBin2Hex(l.ValBits)
	for _, r := range l.ValRefs {
		s += "^" + vhTree(r)
	}
	return s
}

// vhParseLabel parses an HmLabel ~l m at the start of bits; returns kind ("short","long","same"), the label, the rest.
func vhParseLabel(bits string, m int) (kind, label, rest string, err error) {
	need := func(n int) error {
		if len(bits) < n {
			return fmt.Errorf("label: cell too short")
		}
		return nil
	}
	if err = need(1); err != nil {
		return
	}
	k := vhLenBits(m)
	if bits[0] == '0' {
		i := 1
		for {
			if i >= len(bits) {
				return "", "", "", fmt.Errorf("label: unterminated unary")
			}
			if bits[i] == '0' {
				break
			}
			i++
		}
		l := i - 1
		if l > m {
			return "", "", "", fmt.Errorf("label: short label longer than %d", m)
		}
		if len(bits) < i+1+l {
			return "", "", "", fmt.Errorf("label: cell too short")
		}
		return "short", bits[i+1 : i+1+l], bits[i+1+l:], nil
	}
	if err = need(2); err != nil {
		return
	}
	if bits[1] == '0' {
		if err = need(2 + k); err != nil {
			return
		}
		l64, _ := strconv.ParseUint("0"+bits[2:2+k], 2, 32)
		l := int(l64)
		if l > m {
			return "", "", "", fmt.Errorf("label: long label longer than %d", m)
		}
		if err = need(2 + k + l); err != nil {
			return
		}
		return "long", bits[2+k : 2+k+l], bits[2+k+l:], nil
	}
	if err = need(3 + k); err != nil {
		return
	}
	l64, _ := strconv.ParseUint("0"+bits[3:3+k], 2, 32)
	l := int(l64)
	if l > m {
		return "", "", "", fmt.Errorf("label: same label longer than %d", m)
	}
	return "same", strings.Repeat(string(bits[2]), l), bits[3+k:], nil
}

// vhDictParse parses a (Hashmap n X) whose hm_edge starts at the given cell view. Leaves are appended in tree order
// (left before right), the label kind of every edge is appended to kinds.
func vhDictParse(bits string, refs []*boc.Cell, n int, prefix string, leaves *[]vhDictLeaf, kinds *[]string) error {
	kind, label, rest, err := vhParseLabel(bits, n)
	if err != nil {
		return err
	}
	if kinds != nil {
		*kinds = append(*kinds, kind)
	}
	m := n - len(label)
	if m == 0 {
		*leaves = append(*leaves, vhDictLeaf{Key: prefix + label, ValBits: rest, ValRefs: refs})
		return nil
	}
	if len(refs) != 2 || rest != "" {
		return fmt.Errorf("fork node at prefix %q has %d refs and %d extra bits", prefix+label, len(refs), len(rest))
	}
	for i, r := range refs {
		if r.CellType() != boc.OrdinaryCell {
			return fmt.Errorf("exotic cell inside dictionary")
		}
		if err := vhDictParse(vhCellBits(r), r.Refs(), m-1, prefix+label+strconv.Itoa(i), leaves, kinds); err != nil {
			return err
		}
	}
	return nil
}

// vhDictParseE parses (HashmapE n X) given the root ref (nil = empty).
func vhDictParseCell(root *boc.Cell, n int) ([]vhDictLeaf, []string, error) {
	var leaves []vhDictLeaf
	var kinds []string
	err := vhDictParse(vhCellBits(root), root.Refs(), n, "", &leaves, &kinds)
	return leaves, kinds, err
}

// vhCanonicalKind is the label form chosen by the reference implementation (crypto/vm/dict.cpp, append_dict_label):
// the shortest of the three forms.
func vhCanonicalKind(label string, m int) string {
	k := vhLenBits(m)
	l := len(label)
	same := l > 0 && strings.Count(label, label[:1]) == l
	if same && l > 1 && k < 2*l-1 {
		return "same"
	}
	if k < l {
		return "long"
	}
	return "short"
}

func vhLabelValid(kind, label string) bool {
	if kind == "same" {
		return len(label) == 0 || strings.Count(label, label[:1]) == len(label)
	}
	return true
}

func vhEncodeLabel(kind, label string, m int) string {
	k := vhLenBits(m)
	switch kind {
	case "short":
		return "0" + strings.Repeat("1", len(label)) + "0" + label
	case "long":
		return "10" + vhU64Bits(uint64(len(label)), k) + label
	default:
		v := "0"
		if len(label) > 0 {
			v = label[:1]
		}
		return "11" + v + vhU64Bits(uint64(len(label)), k)
	}
}

// vhDictBuild builds the cell of (Hashmap n X) for the given leaves (distinct keys of n bits, any order). choose
// returns the wanted label kind for an edge; when that kind is not valid for the label or does not fit the cell the
// builder falls back to the canonical kind. The returned cell holds the hm_edge from bit 0.
func vhDictBuild(leaves []vhDictLeaf, n int, choose func(label string, m int) string) (*boc.Cell, error) {
	if len(leaves) == 0 {
		return nil, fmt.Errorf("empty Hashmap has no encoding")
	}
	sorted := append([]vhDictLeaf{}, leaves...)
	sort.Slice(sorted, func(i, j int) bool { return sorted[i].Key < sorted[j].Key })
	var build func(ls []vhDictLeaf, pos, n int) (*boc.Cell, error)
	build = func(ls []vhDictLeaf, pos, n int) (*boc.Cell, error) {
		first, last := ls[0].Key[pos:], ls[len(ls)-1].Key[pos:]
		l := 0
		for l < len(first) && first[l] == last[l] {
			l++
		}
		label := first[:l]
		kind := choose(label, n)
		payload := 0
		if len(ls) == 1 {
			payload = len(ls[0].ValBits)
		}
		if !vhLabelValid(kind, label) || len(vhEncodeLabel(kind, label, n))+payload > 1023 {
			kind = vhCanonicalKind(label, n)
		}
		bits := vhEncodeLabel(kind, label, n)
		if len(ls) == 1 {
			if l != n {
				return nil, fmt.Errorf("internal: single leaf label %d != %d", l, n)
			}
			return vhCellFromBits(bits+ls[0].ValBits, ls[0].ValRefs...)
		}
		split := sort.Search(len(ls), func(i int) bool { return ls[i].Key[pos+l] == '1' })
		left, err := build(ls[:split], pos+l+1, n-l-1)
		if err != nil {
			return nil, err
		}
		right, err := build(ls[split:], pos+l+1, n-l-1)
		if err != nil {
			return nil, err
		}
		return vhCellFromBits(bits, left, right)
	}
	return build(sorted, 0, n)
}
