//go:build verif

package tlb

// Bounded stand-in for C05 / C18, key widths that are not a multiple of 8 (labelled bounded, never counted as proved).
// Bound: 12-bit keys (Uint12): all key sets of size 1..4 over a universe of 8 keys chosen to share whole bytes
// (0x000,0x001,0x00f,0x010,0x7ff,0x800,0xff0,0xfff), every permutation of the construction order through both
// NewHashmapE and Put; proofs for every present key and for near-miss absent keys.

import (
	"fmt"
	"sort"
	"testing"

	"github.com/tonkeeper/tongo/boc"
)

func c05bPerms(n int) [][]int {
	if n == 0 {
		return [][]int{{}}
	}
	var out [][]int
	for _, p := range c05bPerms(n - 1) {
		for i := 0; i <= len(p); i++ {
			q := append(append(append([]int{}, p[:i]...), n-1), p[i:]...)
			out = append(out, q)
		}
	}
	return out
}

func TestVerifStandin_C05_OddWidthKeys(t *testing.T) {
	universe := []Uint12{0x000, 0x001, 0x00f, 0x010, 0x7ff, 0x800, 0xff0, 0xfff}
	cases, distinct := 0, map[string]bool{}
	fail := func(name, format string, a ...interface{}) {
		t.Run(name, func(t *testing.T) { t.Errorf(format, a...) })
	}
	for mask := 1; mask < 1<<len(universe); mask++ {
		var keys []Uint12
		for i, k := range universe {
			if mask&(1<<i) != 0 {
				keys = append(keys, k)
			}
		}
		if len(keys) > 4 {
			continue
		}
		want := map[Uint12]Uint16{}
		for _, k := range keys {
			want[k] = Uint16(uint16(k)*7 + 1)
		}
		var refHash string
		for _, perm := range c05bPerms(len(keys)) {
			for _, via := range []string{"new", "put"} {
				cases++
				distinct[fmt.Sprintf("%d/%v/%s", mask, perm, via)] = true
				var h HashmapE[Uint12, Uint16]
				if via == "new" {
					ks := make([]Uint12, len(keys))
					vs := make([]Uint16, len(keys))
					for i, j := range perm {
						ks[i], vs[i] = keys[j], want[keys[j]]
					}
					h = NewHashmapE(ks, vs)
				} else {
					for _, j := range perm {
						h.Put(keys[j], want[keys[j]])
					}
				}
				c := boc.NewCell()
				if err := Marshal(c, h); err != nil {
					fail("rc_oddwidth_marshal_fails", "keys %v order %v via %s: %v", keys, perm, via, err)
					continue
				}
				hs, _ := c.HashString()
				if refHash == "" {
					refHash = hs
				} else if hs != refHash {
					fail("rc_oddwidth_encoding_depends_on_order", "keys %v order %v via %s: hash %s != %s", keys, perm, via, hs, refHash)
				}
				var back HashmapE[Uint12, Uint16]
				c.ResetCounters()
				if err := Unmarshal(c, &back); err != nil {
					fail("rc_oddwidth_decode_fails", "keys %v order %v via %s: %v", keys, perm, via, err)
					continue
				}
				got := map[Uint12]Uint16{}
				var gotKeys []int
				for _, it := range back.Items() {
					got[it.Key] = it.Value
					gotKeys = append(gotKeys, int(it.Key))
				}
				if len(got) != len(want) {
					fail("rc_oddwidth_mapping_differs", "keys %v order %v via %s: decoded %v", keys, perm, via, got)
					continue
				}
				for k, v := range want {
					if got[k] != v {
						fail("rc_oddwidth_mapping_differs", "keys %v order %v via %s: decoded %v", keys, perm, via, got)
						break
					}
				}
				if !sort.IntsAreSorted(gotKeys) {
					fail("rc_oddwidth_not_in_key_order", "keys %v order %v via %s: listed %v", keys, perm, via, gotKeys)
				}
			}
		}
		// proofs (C18): present keys prove their value, absent keys (incl. near misses sharing all whole bytes) error
		var h HashmapE[Uint12, Uint16]
		for _, k := range keys {
			h.Put(k, want[k])
		}
		root := boc.NewCell()
		if err := Marshal(root, h); err != nil {
			continue
		}
		dict, err := root.NextRef()
		if err != nil {
			continue
		}
		for _, k := range universe {
			cases++
			distinct[fmt.Sprintf("p/%d/%d", mask, k)] = true
			dict.ResetCounters()
			prover, err := boc.NewMerkleProver(dict)
			if err != nil {
				fail("rc_oddwidth_prover", "%v", err)
				continue
			}
			kb := boc.NewBitString(12)
			_ = kb.WriteUint(uint64(k), 12)
			dict.ResetCounters()
			val, proof, err := ProveKeyInHashmap[Uint16](prover, dict, kb)
			_, present := want[k]
			if present {
				if err != nil || val != want[k] || len(proof) == 0 {
					fail("rc_oddwidth_present_key_not_proved", "keys %v key %#x: val %v err %v", keys, k, val, err)
				}
			} else if err == nil {
				fail("rc_oddwidth_absent_key_gets_proof", "keys %v absent key %#x got a proof (value %v)", keys, k, val)
			}
		}
	}
	fmt.Printf("STANDIN-STAT name=c05_oddwidth cases=%d distinct=%d\n", cases, len(distinct))
}
