//go:build verif

package tlb

// Bounded stand-in for C20 (labelled bounded, never counted as proved): the TEXT / JSON form of tlb.MsgAddress.
//
// For every value v of the domain below:
//   json.Marshal(v) gives valid JSON j1; json.Unmarshal(j1) into a fresh MsgAddress gives d; d equals v field by field
//   (SumType, nil-ness of the two pointer alternatives, workchain, anycast presence / depth / prefix, AddrLen, and the
//   address bits compared as ideal bit lists: length and every bit); json.Marshal(d) == j1. A panic is a failure.
// The comparison is written here (c20bSame) on ideal bit lists read with ReadBit only; it does not use the library's
// own equality or its text functions.
//
// Domain (quick tier / thorough tier):
//   * AddrNone;
//   * AddrExtern: EVERY bit length 1..511, step 1; contents: 1 random (quick) / all-zero, all-one, 6 random (thorough).
//     (0 bits is the known finding rc_msgaddress_empty_extern_reads_as_none of c20_test.go and is not repeated here.)
//   * AddrStd: workchains {-128,-1,0,1,127} x {no anycast, anycast of EVERY depth 1..30 with prefix 0, 2^depth-1 and a
//     random one} x addresses {all-zero, all-one, 4 random (quick) / 40 random (thorough)};
//   * AddrVar: EVERY address bit length 0..300 (quick) / 0..511 (thorough) x workchains
//     {MinInt32,-129,-128,-1,0,1,127,128,MaxInt32} x {no anycast, anycast (depth cycling over 1..30)} x contents
//     {random, all-zero, all-one} (quick) / {all-zero, all-one, 5 random} (thorough). This covers the lengths 248..264
//     whose hex text has 62..66 characters with and without the `_` completion marker, in particular 249..251 bits:
//     64 characters ending in `_` in a workchain that fits int8.
//     Excluded, exactly as the property says: a variable address of 256 bits in a workchain -128..127 (its text is
//     identical to a standard address). Nothing else is excluded (256 bits in the workchains outside int8 is checked).
//   * embedding values (second test): Maybe[MsgAddress], a struct with a MsgAddress field, a pointer, a Maybe, a
//     slice and a map of addresses, and CommonMsgInfo (ext_in / ext_out: Src, Dest) over every kind, with the variable
//     lengths 240..270 all present.
// Self-check: the run must have met at least one variable address whose hex text has 64 characters and ends in `_`
// in an int8 workchain, and texts of 62, 63, 64, 65 and 66 characters (otherwise the sweep lost its point).

import (
	"encoding/json"
	"fmt"
	"math"
	"math/rand"
	"strings"
	"testing"

	"github.com/tonkeeper/tongo/boc"
)

var c20bStdWorkchains = []int8{-128, -1, 0, 1, 127}
var c20bVarWorkchains = []int32{math.MinInt32, -129, -128, -1, 0, 1, 127, 128, math.MaxInt32}

// ---- constructors ----

func c20bExtern(bits string) MsgAddress {
	bs := vhBitStringFromBits(bits)
	return MsgAddress{SumType: "AddrExtern", AddrExtern: &bs}
}

func c20bStd(wc int8, ac Maybe[Anycast], addr [32]byte) MsgAddress {
	a := MsgAddress{SumType: "AddrStd"}
	a.AddrStd.Anycast = ac
	a.AddrStd.WorkchainId = wc
	a.AddrStd.Address = addr
	return a
}

func c20bVar(wc int32, ac Maybe[Anycast], bits string) MsgAddress {
	a := MsgAddress{SumType: "AddrVar"}
	a.AddrVar = &struct {
		Anycast     Maybe[Anycast]
		AddrLen     Uint9
		WorkchainId int32
		Address     boc.BitString
	}{Anycast: ac, AddrLen: Uint9(len(bits)), WorkchainId: wc, Address: vhBitStringFromBits(bits)}
	return a
}

func c20bAnycast(depth uint32, pfx uint32) Maybe[Anycast] {
	return Maybe[Anycast]{Exists: true, Value: Anycast{Depth: depth, RewritePfx: pfx}}
}

func c20bConst(n int, c byte) string { return strings.Repeat(string(c), n) }

// c20bExcluded: exactly what the property statement excludes: a variable-length address whose text is identical to a
// standard one (256 bits, 8-bit workchain).
func c20bExcluded(a MsgAddress) bool {
	return a.SumType == "AddrVar" && a.AddrVar != nil && a.AddrVar.Address.BitsAvailableForRead() == 256 &&
		a.AddrVar.WorkchainId >= math.MinInt8 && a.AddrVar.WorkchainId <= math.MaxInt8
}

// ---- printing and comparing (ideal bit lists only) ----

func c20bAnyStr(m Maybe[Anycast]) string {
	if !m.Exists {
		return "no-anycast"
	}
	return fmt.Sprintf("Anycast{Depth:%d,RewritePfx:%d}", m.Value.Depth, m.Value.RewritePfx)
}

// c20bDescribe prints constructor, workchain, bit length and the bits (hex nibbles, then "/" and the odd bits).
func c20bDescribe(a MsgAddress) string {
	switch a.SumType {
	case "AddrNone":
		return "AddrNone"
	case "AddrExtern":
		if a.AddrExtern == nil {
			return "AddrExtern{nil}"
		}
		b := vhBitsOf(*a.AddrExtern)
		return fmt.Sprintf("AddrExtern{bits=%d hex=%s}", len(b), vhBin2Hex(b))
	case "AddrStd":
		return fmt.Sprintf("AddrStd{wc=%d %s bits=256 hex=%x}", a.AddrStd.WorkchainId, c20bAnyStr(a.AddrStd.Anycast), a.AddrStd.Address[:])
	case "AddrVar":
		if a.AddrVar == nil {
			return "AddrVar{nil}"
		}
		b := vhBitsOf(a.AddrVar.Address)
		return fmt.Sprintf("AddrVar{wc=%d %s AddrLen=%d bits=%d hex=%s}", a.AddrVar.WorkchainId, c20bAnyStr(a.AddrVar.Anycast), a.AddrVar.AddrLen, len(b), vhBin2Hex(b))
	}
	return fmt.Sprintf("MsgAddress{SumType=%q}", string(a.SumType))
}

func c20bSameBits(what, x, y string) string {
	if len(x) != len(y) {
		return fmt.Sprintf("%s: bit length %d != %d", what, len(x), len(y))
	}
	for i := 0; i < len(x); i++ {
		if x[i] != y[i] {
			return fmt.Sprintf("%s: bit %d of %d differs (%c != %c)", what, i, len(x), x[i], y[i])
		}
	}
	return ""
}

func c20bSameAnycast(x, y Maybe[Anycast]) string {
	if x.Exists != y.Exists {
		return fmt.Sprintf("anycast presence %v != %v", x.Exists, y.Exists)
	}
	if x.Value.Depth != y.Value.Depth || x.Value.RewritePfx != y.Value.RewritePfx {
		return fmt.Sprintf("anycast %s != %s", c20bAnyStr(x), c20bAnyStr(y))
	}
	return ""
}

// c20bSame compares every field of two addresses; "" when equal.
func c20bSame(v, d MsgAddress) string {
	if v.SumType != d.SumType {
		return fmt.Sprintf("SumType %q != %q", string(v.SumType), string(d.SumType))
	}
	if (v.AddrExtern == nil) != (d.AddrExtern == nil) {
		return fmt.Sprintf("AddrExtern nil-ness %v != %v", v.AddrExtern == nil, d.AddrExtern == nil)
	}
	if v.AddrExtern != nil {
		if m := c20bSameBits("AddrExtern", vhBitsOf(*v.AddrExtern), vhBitsOf(*d.AddrExtern)); m != "" {
			return m
		}
	}
	if v.AddrStd.WorkchainId != d.AddrStd.WorkchainId {
		return fmt.Sprintf("AddrStd.WorkchainId %d != %d", v.AddrStd.WorkchainId, d.AddrStd.WorkchainId)
	}
	if m := c20bSameAnycast(v.AddrStd.Anycast, d.AddrStd.Anycast); m != "" {
		return "AddrStd: " + m
	}
	if v.AddrStd.Address != d.AddrStd.Address {
		return fmt.Sprintf("AddrStd.Address %x != %x", v.AddrStd.Address[:], d.AddrStd.Address[:])
	}
	if (v.AddrVar == nil) != (d.AddrVar == nil) {
		return fmt.Sprintf("AddrVar nil-ness %v != %v", v.AddrVar == nil, d.AddrVar == nil)
	}
	if v.AddrVar != nil {
		if v.AddrVar.WorkchainId != d.AddrVar.WorkchainId {
			return fmt.Sprintf("AddrVar.WorkchainId %d != %d", v.AddrVar.WorkchainId, d.AddrVar.WorkchainId)
		}
		if m := c20bSameAnycast(v.AddrVar.Anycast, d.AddrVar.Anycast); m != "" {
			return "AddrVar: " + m
		}
		if v.AddrVar.AddrLen != d.AddrVar.AddrLen {
			return fmt.Sprintf("AddrVar.AddrLen %d != %d", v.AddrVar.AddrLen, d.AddrVar.AddrLen)
		}
		if m := c20bSameBits("AddrVar.Address", vhBitsOf(v.AddrVar.Address), vhBitsOf(d.AddrVar.Address)); m != "" {
			return m
		}
	}
	return ""
}

// ---- the checker ----

type c20bRunner struct {
	stat  *vhStat
	fails *vhFailures
	// coverage of the text shapes met among variable addresses: length of the hex part -> seen without / with `_`
	hexLens      map[int][2]int
	var64Int8Und int // variable address, int8 workchain, hex part of 64 characters ending in `_`
}

func newC20bRunner(name string, known ...string) *c20bRunner {
	return &c20bRunner{stat: newVhStat(name), fails: newVhFailures(known...), hexLens: map[int][2]int{}}
}

// c20bHexPart returns the address part of the text `"wc:hex"` / `"wc:hex:Anycast(d,p)"` ("" when not of that form).
func c20bHexPart(j string) string {
	parts := strings.Split(strings.Trim(j, `"`), ":")
	if len(parts) < 2 {
		return ""
	}
	return parts[1]
}

// cause names the sub-test of a failure. The one shape the sweep is about gets its own name; everything else is
// rc_<kind>_<check>.
func (r *c20bRunner) cause(v MsgAddress, j string, check string) string {
	kind := strings.ToLower(string(v.SumType))
	if v.SumType == "AddrVar" && v.AddrVar != nil && j != "" {
		h := c20bHexPart(j)
		int8wc := v.AddrVar.WorkchainId >= math.MinInt8 && v.AddrVar.WorkchainId <= math.MaxInt8
		if len(h) == 64 && strings.HasSuffix(h, "_") && int8wc {
			return "rc_addrvar_64char_text_ending_in_underscore_int8_workchain_" + check
		}
		if len(h) == 64 && int8wc {
			return "rc_addrvar_64char_text_int8_workchain_" + check
		}
	}
	return "rc_" + kind + "_" + check
}

// check runs one value through marshal -> unmarshal -> compare -> marshal again.
func (r *c20bRunner) check(v MsgAddress) {
	desc := c20bDescribe(v)
	r.stat.add(desc)
	var j1, j2 []byte
	var err error
	if p := vhSafe(func() { j1, err = json.Marshal(v) }); p != "" || err != nil {
		r.fails.add(r.cause(v, "", "marshal_fails"), "%s: json.Marshal failed: panic=%q err=%v", desc, p, err)
		return
	}
	js := string(j1)
	if !json.Valid(j1) {
		r.fails.add(r.cause(v, js, "invalid_json"), "%s: output is not valid JSON: %q", desc, j1)
		return
	}
	if v.SumType == "AddrVar" {
		h := c20bHexPart(js)
		c := r.hexLens[len(h)]
		if strings.HasSuffix(h, "_") {
			c[1]++
			if len(h) == 64 && v.AddrVar.WorkchainId >= math.MinInt8 && v.AddrVar.WorkchainId <= math.MaxInt8 {
				r.var64Int8Und++
			}
		} else {
			c[0]++
		}
		r.hexLens[len(h)] = c
	}
	var d MsgAddress
	if p := vhSafe(func() { err = json.Unmarshal(j1, &d) }); p != "" || err != nil {
		r.fails.add(r.cause(v, js, "does_not_parse_back"), "%s: its JSON %s does not parse back: panic=%q err=%v", desc, j1, p, err)
		return
	}
	if m := c20bSame(v, d); m != "" {
		r.fails.add(r.cause(v, js, "parses_back_to_other_value"), "%s: its JSON %s parses back to %s: %s", desc, j1, c20bDescribe(d), m)
		return
	}
	if p := vhSafe(func() { j2, err = json.Marshal(d) }); p != "" || err != nil {
		r.fails.add(r.cause(v, js, "second_marshal_fails"), "%s: JSON %s: json.Marshal of the decoded value failed: panic=%q err=%v", desc, j1, p, err)
		return
	}
	if string(j2) != js {
		r.fails.add(r.cause(v, js, "second_json_differs"), "%s: first JSON %s, JSON of the decoded value %s", desc, j1, j2)
	}
}

func c20bRandAddr(rng *rand.Rand) (a [32]byte) {
	rng.Read(a[:])
	return a
}

// c20bContents: the address contents tried for one bit length.
func c20bContents(rng *rand.Rand, n int, nrand int, withConst bool) []string {
	var out []string
	if withConst {
		out = append(out, c20bConst(n, '0'))
		if n > 0 {
			out = append(out, c20bConst(n, '1'))
		}
	}
	if n == 0 {
		if !withConst {
			out = append(out, "")
		}
		return out
	}
	for i := 0; i < nrand; i++ {
		out = append(out, vhRandBits(rng, n))
	}
	return out
}

// TestVerifStandin_C20_MsgAddressText sweeps MsgAddress itself.
func TestVerifStandin_C20_MsgAddressText(t *testing.T) {
	rng := vhRng()
	r := newC20bRunner("c20b_msgaddress_text",
		"rc_addrvar_64char_text_ending_in_underscore_int8_workchain_does_not_parse_back",
		"rc_addrvar_64char_text_ending_in_underscore_int8_workchain_parses_back_to_other_value",
		"rc_selfcheck_text_shapes_covered")
	thorough := vhThorough()

	// AddrNone
	r.check(MsgAddress{SumType: "AddrNone"})

	// AddrExtern: every length 1..511
	for n := 1; n <= 511; n++ {
		nrand := 1
		if thorough {
			nrand = 6
		}
		for _, bits := range c20bContents(rng, n, nrand, thorough) {
			r.check(c20bExtern(bits))
		}
	}

	// AddrStd
	nAddr := 4
	if thorough {
		nAddr = 40
	}
	var zero, ones [32]byte
	for i := range ones {
		ones[i] = 0xff
	}
	for _, wc := range c20bStdWorkchains {
		anys := []Maybe[Anycast]{{}}
		for depth := uint32(1); depth <= 30; depth++ {
			anys = append(anys, c20bAnycast(depth, 0), c20bAnycast(depth, 1<<depth-1), c20bAnycast(depth, uint32(rng.Int63n(1<<depth))))
		}
		for _, ac := range anys {
			r.check(c20bStd(wc, ac, zero))
			r.check(c20bStd(wc, ac, ones))
			for i := 0; i < nAddr; i++ {
				r.check(c20bStd(wc, ac, c20bRandAddr(rng)))
			}
		}
	}

	// AddrVar: every length
	maxLen, nrand := 300, 1
	if thorough {
		maxLen, nrand = 511, 5
	}
	depth := uint32(0)
	excluded := 0
	for n := 0; n <= maxLen; n++ {
		for _, wc := range c20bVarWorkchains {
			for _, withAny := range []bool{false, true} {
				for _, bits := range c20bContents(rng, n, nrand, true) {
					var ac Maybe[Anycast]
					if withAny {
						depth = depth%30 + 1
						ac = c20bAnycast(depth, uint32(rng.Int63n(1<<depth)))
					}
					a := c20bVar(wc, ac, bits)
					if c20bExcluded(a) {
						excluded++
						continue
					}
					r.check(a)
				}
			}
		}
	}

	// self-check of the sweep: the text shapes it is about were met
	var missing []string
	for _, l := range []int{62, 63, 64, 65, 66} {
		if c := r.hexLens[l]; c[0]+c[1] == 0 {
			missing = append(missing, fmt.Sprintf("no variable address with a hex text of %d characters", l))
		}
	}
	if r.var64Int8Und == 0 {
		missing = append(missing, "no variable address in an int8 workchain whose hex text has 64 characters and ends in `_`")
	}
	if excluded == 0 {
		missing = append(missing, "the excluded case (256 bits, int8 workchain) was never generated")
	}
	for _, m := range missing {
		r.fails.add("rc_selfcheck_text_shapes_covered", "%s", m)
	}
	fmt.Printf("STANDIN-COVER name=c20b_msgaddress_text var64_int8_underscore=%d hexlen62=%v hexlen63=%v hexlen64=%v hexlen65=%v hexlen66=%v (without,with `_`) excluded=%d\n",
		r.var64Int8Und, r.hexLens[62], r.hexLens[63], r.hexLens[64], r.hexLens[65], r.hexLens[66], excluded)

	r.fails.report(t)
	r.stat.print()
}

// ---- values embedding an address ----

type c20bHolder struct {
	A MsgAddress
	P *MsgAddress
	M Maybe[MsgAddress]
	L []MsgAddress
	D map[string]MsgAddress
}

// c20bSample: every kind; variable lengths 240..270 all present plus random ones.
func c20bSample(rng *rand.Rand, extra int) []MsgAddress {
	out := []MsgAddress{{SumType: "AddrNone"}}
	for _, n := range []int{1, 3, 4, 5, 8, 255, 256, 257, 511} {
		out = append(out, c20bExtern(vhRandBits(rng, n)))
	}
	for _, wc := range c20bStdWorkchains {
		out = append(out, c20bStd(wc, Maybe[Anycast]{}, c20bRandAddr(rng)))
		d := uint32(rng.Intn(30) + 1)
		out = append(out, c20bStd(wc, c20bAnycast(d, uint32(rng.Int63n(1<<d))), c20bRandAddr(rng)))
	}
	lens := []int{0, 1, 4, 7, 8, 511}
	for n := 240; n <= 270; n++ {
		lens = append(lens, n)
	}
	for i := 0; i < extra; i++ {
		lens = append(lens, rng.Intn(512))
	}
	for i, n := range lens {
		for j, wc := range c20bVarWorkchains {
			var ac Maybe[Anycast]
			if (i+j)%2 == 1 {
				d := uint32((i+j)%30 + 1)
				ac = c20bAnycast(d, uint32(rng.Int63n(1<<d)))
			}
			a := c20bVar(wc, ac, vhRandBits(rng, n))
			if !c20bExcluded(a) {
				out = append(out, a)
			}
		}
	}
	return out
}

// TestVerifStandin_C20_MsgAddressTextEmbedded: the same round trip through values that embed an address.
func TestVerifStandin_C20_MsgAddressTextEmbedded(t *testing.T) {
	rng := vhRng()
	stat := newVhStat("c20b_msgaddress_text_embedded")
	fails := newVhFailures()
	extra := 20
	if vhThorough() {
		extra = 400
	}
	sample := c20bSample(rng, extra)
	pick := func() MsgAddress { return sample[rng.Intn(len(sample))] }

	// roundTrip: marshal x, unmarshal into fresh (a pointer), marshal again; same returns "" when fresh equals x.
	roundTrip := func(kind, desc string, x any, fresh any, same func() string) {
		stat.add(kind + "|" + desc)
		var j1, j2 []byte
		var err error
		if p := vhSafe(func() { j1, err = json.Marshal(x) }); p != "" || err != nil {
			fails.add("rc_"+kind+"_marshal_fails", "%s %s: json.Marshal failed: panic=%q err=%v", kind, desc, p, err)
			return
		}
		if !json.Valid(j1) {
			fails.add("rc_"+kind+"_invalid_json", "%s %s: output is not valid JSON: %q", kind, desc, j1)
			return
		}
		if p := vhSafe(func() { err = json.Unmarshal(j1, fresh) }); p != "" || err != nil {
			fails.add("rc_"+kind+"_does_not_parse_back", "%s %s: its JSON %s does not parse back: panic=%q err=%v", kind, desc, j1, p, err)
			return
		}
		if m := same(); m != "" {
			fails.add("rc_"+kind+"_parses_back_to_other_value", "%s %s: its JSON %s parses back to another value: %s", kind, desc, j1, m)
			return
		}
		if p := vhSafe(func() { j2, err = json.Marshal(fresh) }); p != "" || err != nil {
			fails.add("rc_"+kind+"_second_marshal_fails", "%s %s: JSON %s: json.Marshal of the decoded value failed: panic=%q err=%v", kind, desc, j1, p, err)
			return
		}
		if string(j1) != string(j2) {
			fails.add("rc_"+kind+"_second_json_differs", "%s %s: first JSON %s, JSON of the decoded value %s", kind, desc, j1, j2)
		}
	}

	for _, a := range sample {
		a := a
		desc := c20bDescribe(a)

		// Maybe[MsgAddress]
		m := Maybe[MsgAddress]{Exists: true, Value: a}
		var dm Maybe[MsgAddress]
		roundTrip("maybe", desc, m, &dm, func() string {
			if !dm.Exists {
				return "Exists is false"
			}
			return c20bSame(a, dm.Value)
		})

		// holder: field, pointer, Maybe, slice, map
		b, c := pick(), pick()
		h := c20bHolder{A: a, P: &b, M: Maybe[MsgAddress]{Exists: true, Value: c}, L: []MsgAddress{a, b, c}, D: map[string]MsgAddress{"x": a, "y": c}}
		hdesc := fmt.Sprintf("A=%s P=%s M=%s", desc, c20bDescribe(b), c20bDescribe(c))
		var dh c20bHolder
		roundTrip("holder", hdesc, h, &dh, func() string {
			if s := c20bSame(a, dh.A); s != "" {
				return "A: " + s
			}
			if dh.P == nil {
				return "P is nil"
			}
			if s := c20bSame(b, *dh.P); s != "" {
				return "P: " + s
			}
			if !dh.M.Exists {
				return "M.Exists is false"
			}
			if s := c20bSame(c, dh.M.Value); s != "" {
				return "M: " + s
			}
			if len(dh.L) != 3 || len(dh.D) != 2 {
				return fmt.Sprintf("len(L)=%d len(D)=%d", len(dh.L), len(dh.D))
			}
			for i, w := range []MsgAddress{a, b, c} {
				if s := c20bSame(w, dh.L[i]); s != "" {
					return fmt.Sprintf("L[%d]: %s", i, s)
				}
			}
			if s := c20bSame(a, dh.D["x"]); s != "" {
				return "D[x]: " + s
			}
			if s := c20bSame(c, dh.D["y"]); s != "" {
				return "D[y]: " + s
			}
			return ""
		})

		// CommonMsgInfo: ext_in_msg_info / ext_out_msg_info with Src / Dest
		in := CommonMsgInfo{SumType: "ExtInMsgInfo"}
		in.ExtInMsgInfo = &struct {
			Src       MsgAddress
			Dest      MsgAddress
			ImportFee VarUInteger16
		}{Src: a, Dest: b}
		var din CommonMsgInfo
		roundTrip("commonmsginfo_ext_in", fmt.Sprintf("Src=%s Dest=%s", desc, c20bDescribe(b)), in, &din, func() string {
			if din.SumType != "ExtInMsgInfo" || din.ExtInMsgInfo == nil || din.IntMsgInfo != nil || din.ExtOutMsgInfo != nil {
				return fmt.Sprintf("SumType %q, ExtInMsgInfo nil=%v", string(din.SumType), din.ExtInMsgInfo == nil)
			}
			if s := c20bSame(a, din.ExtInMsgInfo.Src); s != "" {
				return "Src: " + s
			}
			if s := c20bSame(b, din.ExtInMsgInfo.Dest); s != "" {
				return "Dest: " + s
			}
			return ""
		})
		out := CommonMsgInfo{SumType: "ExtOutMsgInfo"}
		out.ExtOutMsgInfo = &struct {
			Src       MsgAddress
			Dest      MsgAddress
			CreatedLt uint64
			CreatedAt uint32
		}{Src: c, Dest: a, CreatedLt: rng.Uint64(), CreatedAt: rng.Uint32()}
		var dout CommonMsgInfo
		roundTrip("commonmsginfo_ext_out", fmt.Sprintf("Src=%s Dest=%s", c20bDescribe(c), desc), out, &dout, func() string {
			if dout.SumType != "ExtOutMsgInfo" || dout.ExtOutMsgInfo == nil || dout.IntMsgInfo != nil || dout.ExtInMsgInfo != nil {
				return fmt.Sprintf("SumType %q, ExtOutMsgInfo nil=%v", string(dout.SumType), dout.ExtOutMsgInfo == nil)
			}
			if s := c20bSame(c, dout.ExtOutMsgInfo.Src); s != "" {
				return "Src: " + s
			}
			if s := c20bSame(a, dout.ExtOutMsgInfo.Dest); s != "" {
				return "Dest: " + s
			}
			if dout.ExtOutMsgInfo.CreatedLt != out.ExtOutMsgInfo.CreatedLt || dout.ExtOutMsgInfo.CreatedAt != out.ExtOutMsgInfo.CreatedAt {
				return "CreatedLt / CreatedAt differ"
			}
			return ""
		})
	}
	// absent Maybe
	var dm Maybe[MsgAddress]
	dm.Exists = true
	roundTrip("maybe", "absent", Maybe[MsgAddress]{}, &dm, func() string {
		if dm.Exists {
			return "Exists is true"
		}
		return c20bSame(MsgAddress{}, dm.Value)
	})

	fails.report(t)
	stat.print()
}
