//go:build verif

package tlb

// Bounded stand-in for C18, gap "provers over trees that ALREADY CONTAIN EXOTIC CELLS" (labelled bounded, never counted
// as proved): a partial dictionary taken out of an earlier proof (its siblings are pruned-branch cells), hand-built trees
// with pruned branches of every level mask 1..7, library cells, nested Merkle proof / update cells.
//
// Oracles (specification of exotic cells / Merkle proofs and of the Hashmap TL-B schema, never the library):
//   c18Hasher (independent level-aware representation hash, refhash_helper_test.go), c18Walk / c18Label (independent
//   interpreter of `Hashmap n X`), key and value bits written out by hand, and a test-side bag-of-cells WRITER
//   (c18cMaterialize) that puts the specification's level mask into every cell descriptor: it is the only way to hand the
//   library a tree whose cells carry level masks that does not go through the prover under test.
// Per proof, for the tree T handed to the prover (T may contain pruned branches) and the positions asked to be pruned:
//   * the bytes parse into one root, a Merkle-proof cell with data 03 | Hash_0(T) | Depth_0(T) (reference hasher; for a
//     partial tree cut from a full tree F this is the level-0 hash of F, which is checked as well);
//   * the virtual root (only child) hashes, at level 0 (reference hasher), to exactly that hash / depth;
//   * walking T and the proof in parallel BY POSITION: every cell of the proof is either equal to the cell of T (type,
//     bits, number of references) or a well-formed pruned branch p with Hash_i(p) = Hash_i(o), Depth_i(p) = Depth_i(o) for
//     every level i below the level of p, o being the sub-tree of T it replaces. When o is itself a pruned branch this means:
//     p carries the level-0 hash and depth STORED INSIDE o (those of the sub-tree o stands for), not the representation
//     hash of the cell o and not depth 0;
//   * asked positions are pruned, positions not asked (and not below an asked one) are present;
//   * when T was cut from a full tree F of ordinary cells: every pruned branch of the proof stores Hash_0 / Depth_0 of the
//     sub-tree of F at its position, every other cell equals the cell of F;
//   * Level() of every cell of the proof = level mask of the specification (Merkle cell: OR of the children >> 1);
//   * dictionaries: the value of the proven key is read back from the proof alone (independent walk and the library's own
//     decoder); proving a key again from the virtual root of its own proof gives the same virtual root (idempotent);
//     a key that is absent from the dictionary is refused with an error and no proof; a key that is present in the full
//     dictionary but lies behind a pruned branch of the partial one is refused as well (the prover cannot know its value);
//   * no panic; the tree handed to the prover is not changed.
//   A tree in which a Merkle proof / update cell is reachable (at or above the asked positions) may be refused with an error
//   (documented limitation of pruneCells); a proof that is returned nevertheless is checked like any other.
//
// Bound, quick tier (thorough in brackets); every random choice comes from rand.New(rand.NewSource(VERIF_SEED)):
//   TestVerifStandin_C18_ExoticReproveDicts
//     Hashmap / HashmapE (alternating), key types Uint8, Uint12, Uint16 (values owning a child cell), Uint32, Bits256;
//     11 fixed shapes with 8-bit keys (the seeded regression {11,25,83,c4,c5}, twins in the last bit, dense, one-sided ...)
//     and 40 [1500] random dictionaries per key type with 2..40 [2..120] entries (uniform / clustered keys). Per dictionary:
//     chain A: prove k1 from the full dictionary, take the virtual root, prove k1 from it again, 3 [5] levels deep;
//     chain B: a partial dictionary keeping 1..4 keys written by the TEST (pruned branches from the reference hasher),
//     every kept key proven from it, then k1 proven again from the virtual root of its proof, 3 [5] levels deep;
//     3 keys absent from the full dictionary are asked for at every level of both chains.
//   TestVerifStandin_C18_ExoticUnreachableKeys
//     the same fixed dictionaries and 40 [400] random ones per key type; keys of the full dictionary that lie behind a pruned
//     branch of the partial one (up to 6 per partial dictionary; test-made partial dictionaries keeping 1 and 3 keys, and the
//     virtual roots of the library's own proofs, 2 levels). Its own test: it is a separate class of inputs.
//   TestVerifStandin_C18_ExoticCursorLevel1
//     18 hand-built trees with pruned branches of level mask 1 (alone, as siblings, in a chain, below 4 references, one cell
//     referenced twice, the root itself, cut from a real tree / a real dictionary), library cells, a nested Merkle proof and a
//     nested Merkle update x {nothing, the root, every single position, every ordered pair [every triple] of positions} asked to
//     be pruned through MerkleProver.Cursor / Ref / Prune / CreateProof: the pruned branches themselves, their parents,
//     their siblings.
//   TestVerifStandin_C18_ExoticCursorHighLevel
//     pruned branches with every level mask 1..7 (levels 1..3): 7 x 3 single-mask shapes, all 49 pairs of masks in one
//     tree, 2 mixed trees, x the same sets of positions; 150 [20000] random trees with 1..3 pruned branches of random masks.
//     Level-0 half of the oracle (commitment, level-0 hash, content of the pruned branches, asked / not asked).
//   TestVerifStandin_C18_ExoticHighLevelMasks
//     the same fixed trees and 50 [5000] random ones; the level-mask half of the oracle (Level() of every cell of the proof,
//     Merkle root included, = specification; library hash of the proof root = reference). The tests above apply both halves
//     to their trees (level <= 1); for trees of level 2..3 the halves are separate tests so that a finding about level masks
//     does not hide a regression of the level-0 statement.
//   TestVerifStandin_C18_ExoticRandom
//     400 [60000] random trees (height <= 4 [5], fan-out 0..4, 0..64 data bits, 8% library cells) from which 0..3 sub-trees
//     are cut by the TEST (pruned branches of mask 1 from the reference hasher); per tree: a path proof, every pruned branch
//     alone, the parent of one, a sibling of one, all pruned branches together, a random set of 1..4 positions.
//
// Findings on the tree this stand-in was written against (both tests are matched by the run regexp on purpose):
//   ExoticUnreachableKeys / rc_unreachable_key_gets_proof_with_value: ProveKeyInHashmap never looks at the cell type; when the
//     leaf of the wanted key is itself a pruned branch (0 key bits left: the sibling leaf at a fork on the last key bit, e.g.
//     {c4,c5}, prove c4, ask the virtual root for c5) it decodes the VALUE from the bits of the pruned branch and returns it
//     with a proof and a nil error. With key bits left it fails with an error, as it should.
//   ExoticHighLevelMasks (only trees holding pruned branches of level 2..3): the Merkle-proof root is always serialised with
//     level mask 0 although the specification gives (mask of the virtual root) >> 1; ancestors keep the level-mask bits of a
//     pruned-away sub-tree (Level() 2, specification 1 after a mask-2 branch was replaced by a mask-1 branch); hence the
//     library's own hash of such a proof differs from the reference. The level-0 statement holds for these trees.

import (
	"bytes"
	"crypto/sha256"
	"encoding/binary"
	"fmt"
	"math/bits"
	"math/rand"
	"reflect"
	"sort"
	"strings"
	"testing"

	"github.com/tonkeeper/tongo/boc"
)

// ---------------------------------------------------------------------------------------------------------------------
// environment

type c18cEnv struct {
	fails    *vhFailures
	stat     *vhStat
	reprunes int // pruned branches of a proof that stand at the position of an already pruned cell of the input tree
	refused  int // trees refused because a Merkle cell is reachable (accepted)
	proofs   int
	// which half of the oracle is applied: the level-0 statement (commitment, level-0 hash, content of the pruned branches,
	// asked / not asked) and / or the level masks of the cells of the proof
	skipMasks bool
	onlyMasks bool
	notes     map[string]int // breakdown of failures, logged
}

func newC18cEnv(name string, known ...string) *c18cEnv {
	return &c18cEnv{fails: newVhFailures(known...), stat: newVhStat(name), notes: map[string]int{}}
}

func (e *c18cEnv) count(desc string) {
	d := sha256.Sum256([]byte(desc))
	e.stat.add(string(d[:16]))
}

func (e *c18cEnv) finish(t *testing.T, needReprunes bool) {
	if needReprunes && e.reprunes == 0 {
		e.fails.add("rc_harness_no_reprune_case", "no executed case pruned an already pruned cell: the stand-in does not test what it claims")
	}
	if e.stat.cases == 0 {
		e.fails.add("rc_harness_no_case", "zero cases executed")
	}
	e.fails.report(t)
	t.Logf("cases %d, proofs checked %d, pruned branches standing for an already pruned cell %d, trees refused because of a reachable Merkle cell %d",
		e.stat.cases, e.proofs, e.reprunes, e.refused)
	var ns []string
	for k, v := range e.notes {
		ns = append(ns, fmt.Sprintf("%s: %d", k, v))
	}
	sort.Strings(ns)
	if len(ns) > 0 {
		t.Logf("breakdown of failures: %s", strings.Join(ns, "; "))
	}
	e.stat.print()
}

var c18cKnown = []string{
	"rc_pruned_branch_of_pruned_cell_wrong_hash_or_depth", "rc_pruned_branch_wrong_hash_or_depth", "rc_level0_hash_differs",
	"rc_proof_root_commits_to_wrong_hash_or_depth", "rc_panic", "rc_asked_cell_not_pruned", "rc_unasked_cell_pruned",
	"rc_proof_cell_differs_from_original", "rc_level_mask_inconsistent", "rc_proof_root_level_mask_wrong",
}

// ---------------------------------------------------------------------------------------------------------------------
// positions

func c18cPos(p []int) string {
	if len(p) == 0 {
		return "root"
	}
	s := make([]string, len(p))
	for i, k := range p {
		s[i] = fmt.Sprint(k)
	}
	return strings.Join(s, "/")
}

func c18cPosList(ps [][]int) string {
	s := make([]string, len(ps))
	for i, p := range ps {
		s[i] = c18cPos(p)
	}
	return "[" + strings.Join(s, " ") + "]"
}

func c18cAppend(p []int, k int) []int { return append(append([]int{}, p...), k) }

func c18cCellAt(root *boc.Cell, p []int) *boc.Cell {
	c := root
	for _, k := range p {
		if k >= len(c.Refs()) {
			return nil
		}
		c = c.Refs()[k]
	}
	return c
}

// c18cPositions lists the non-root positions of the expanded tree (a shared cell is listed once per occurrence).
func c18cPositions(root *boc.Cell, limit int) [][]int {
	out := [][]int{}
	var walk func(c *boc.Cell, p []int) bool
	walk = func(c *boc.Cell, p []int) bool {
		for i, r := range c.Refs() {
			np := c18cAppend(p, i)
			out = append(out, np)
			if len(out) > limit {
				return false
			}
			if !walk(r, np) {
				return false
			}
		}
		return true
	}
	if !walk(root, nil) {
		return nil
	}
	return out
}

func c18cIsPrefix(a, b []int) bool { // a is a proper or improper prefix of b
	if len(a) > len(b) {
		return false
	}
	for i := range a {
		if a[i] != b[i] {
			return false
		}
	}
	return true
}

// ---------------------------------------------------------------------------------------------------------------------
// building cells by the specification

func c18cOrd(data string, kids ...*boc.Cell) *boc.Cell {
	c := boc.NewCell()
	for _, ch := range data {
		_ = c.WriteBit(ch == '1')
	}
	for _, k := range kids {
		_ = c.AddRef(k)
	}
	return c
}

func c18cExotic(t boc.CellType, data []byte, kids ...*boc.Cell) *boc.Cell {
	c := boc.NewCellExotic(t)
	_ = c.WriteBytes(data)
	for _, k := range kids {
		_ = c.AddRef(k)
	}
	return c
}

// c18cPruned: 01 | mask | popcount(mask) hashes | popcount(mask) depths.
func c18cPruned(mask int, entries []c18HD) *boc.Cell {
	data := []byte{1, byte(mask)}
	for _, v := range entries {
		data = append(data, v.hash[:]...)
	}
	for _, v := range entries {
		data = append(data, byte(v.depth>>8), byte(v.depth))
	}
	return c18cExotic(boc.PrunedBranchCell, data)
}

// c18cPrunedOf: the pruned branch (level mask 1) standing for sub in a proof of level 1.
func c18cPrunedOf(h *c18Hasher, sub *boc.Cell) (*boc.Cell, error) {
	v, err := h.hashDepth(sub, 0)
	if err != nil {
		return nil, err
	}
	return c18cPruned(1, []c18HD{v}), nil
}

// c18cPrunedRand: a pruned branch of the given mask standing for an unknown sub-tree (pseudo-random hashes and depths).
func c18cPrunedRand(mask int, seed uint64) *boc.Cell {
	var es []c18HD
	for i := 0; i < bits.OnesCount(uint(mask)); i++ {
		var b [16]byte
		binary.BigEndian.PutUint64(b[:8], seed)
		binary.BigEndian.PutUint64(b[8:], uint64(i)+0x5eed)
		es = append(es, c18HD{hash: sha256.Sum256(b[:]), depth: int((seed*131+uint64(i)*29+1)%613) + 1})
	}
	return c18cPruned(mask, es)
}

func c18cLib(seed byte) *boc.Cell {
	return c18cExotic(boc.LibraryCell, append([]byte{2}, bytes.Repeat([]byte{seed}, 32)...))
}

// c18cMerkleProof: 03 | Hash_0(body) | Depth_0(body) with the body as only child.
func c18cMerkleProof(h *c18Hasher, body *boc.Cell) *boc.Cell {
	v, err := h.hashDepth(body, 0)
	if err != nil {
		panic("harness: " + err.Error())
	}
	data := append([]byte{3}, v.hash[:]...)
	data = append(data, byte(v.depth>>8), byte(v.depth))
	return c18cExotic(boc.MerkleProofCell, data, body)
}

// c18cMerkleUpdate: 04 | Hash_0(from) | Hash_0(to) | Depth_0(from) | Depth_0(to) with two children.
func c18cMerkleUpdate(h *c18Hasher, from, to *boc.Cell) *boc.Cell {
	a, err1 := h.hashDepth(from, 0)
	b, err2 := h.hashDepth(to, 0)
	if err1 != nil || err2 != nil {
		panic("harness: merkle update")
	}
	data := append([]byte{4}, a.hash[:]...)
	data = append(data, b.hash[:]...)
	data = append(data, byte(a.depth>>8), byte(a.depth), byte(b.depth>>8), byte(b.depth))
	return c18cExotic(boc.MerkleUpdateCell, data, from, to)
}

// c18cCopyCell: a new cell with the type and bits of c and the given children.
func c18cCopyCell(c *boc.Cell, kids []*boc.Cell) *boc.Cell {
	var n *boc.Cell
	if c.CellType() == boc.OrdinaryCell {
		n = boc.NewCell()
	} else {
		n = boc.NewCellExotic(c.CellType())
	}
	for _, b := range c18Bits(c) {
		_ = n.WriteBit(b)
	}
	for _, k := range kids {
		_ = n.AddRef(k)
	}
	return n
}

// c18cCut returns a copy of full in which the sub-trees at the given positions are replaced with pruned branches of
// mask 1 written by the specification (hash / depth from the reference hasher).
func c18cCut(h *c18Hasher, full *boc.Cell, cut map[string]bool) (*boc.Cell, error) {
	var rec func(c *boc.Cell, p []int) (*boc.Cell, error)
	rec = func(c *boc.Cell, p []int) (*boc.Cell, error) {
		if cut[c18cPos(p)] {
			return c18cPrunedOf(h, c)
		}
		var kids []*boc.Cell
		for i, r := range c.Refs() {
			k, err := rec(r, c18cAppend(p, i))
			if err != nil {
				return nil, err
			}
			kids = append(kids, k)
		}
		return c18cCopyCell(c, kids), nil
	}
	return rec(full, nil)
}

// c18cMaterialize writes the DAG under root as serialized_boc#b5ee9c72 (no index, no crc, 2-byte references) with the
// level mask of the SPECIFICATION in every descriptor byte d1 = refs + 8*exotic + 32*mask, and reads it back with the
// library's parser. Cells that are one object stay one cell.
func c18cMaterialize(root *boc.Cell) (*boc.Cell, error) {
	h := newC18Hasher()
	var order []*boc.Cell // children before parents
	seen := map[*boc.Cell]bool{}
	var dfs func(c *boc.Cell)
	dfs = func(c *boc.Cell) {
		if seen[c] {
			return
		}
		seen[c] = true
		for _, r := range c.Refs() {
			dfs(r)
		}
		order = append(order, c)
	}
	dfs(root)
	n := len(order)
	if n > 60000 {
		return nil, fmt.Errorf("harness: %d cells", n)
	}
	idx := map[*boc.Cell]int{}
	for i, c := range order {
		idx[c] = n - 1 - i
	}
	var cells []byte
	for i := n - 1; i >= 0; i-- {
		c := order[i]
		m, err := h.mask(c)
		if err != nil {
			return nil, err
		}
		data, nb := c18Data(c)
		d1 := len(c.Refs()) + 32*m
		if c.CellType() != boc.OrdinaryCell {
			d1 += 8
		}
		cells = append(cells, byte(d1), byte((nb+7)/8+nb/8))
		cells = append(cells, data...)
		for _, r := range c.Refs() {
			cells = append(cells, byte(idx[r]>>8), byte(idx[r]))
		}
	}
	out := []byte{0xb5, 0xee, 0x9c, 0x72, 0x02, 0x04}
	out = append(out, byte(n>>8), byte(n), 0, 1, 0, 0)
	var tot [4]byte
	binary.BigEndian.PutUint32(tot[:], uint32(len(cells)))
	out = append(out, tot[:]...)
	out = append(out, 0, 0) // root list
	out = append(out, cells...)
	roots, err := boc.DeserializeBoc(out)
	if err != nil || len(roots) != 1 {
		return nil, fmt.Errorf("harness: the library does not read the test-made bag of cells %x: %v", out, err)
	}
	// the parsed tree is the tree that was written
	a, err1 := h.hashDepth(root, 3)
	b, err2 := newC18Hasher().hashDepth(roots[0], 3)
	if err1 != nil || err2 != nil || a != b {
		return nil, fmt.Errorf("harness: test-made bag of cells reads back as another tree (%v, %v)", err1, err2)
	}
	return roots[0], nil
}

// c18cSameCell: same type, bits and number of references.
func c18cSameCell(a, b *boc.Cell) bool {
	ad, an := c18Data(a)
	bd, bn := c18Data(b)
	return a.CellType() == b.CellType() && an == bn && bytes.Equal(ad, bd) && len(a.Refs()) == len(b.Refs())
}

// c18cTreeDiff returns the first position at which the two trees differ ("" when they are equal cell by cell).
func c18cTreeDiff(a, b *boc.Cell, p []int) string {
	if !c18cSameCell(a, b) {
		return c18cPos(p)
	}
	for i := range a.Refs() {
		if d := c18cTreeDiff(a.Refs()[i], b.Refs()[i], c18cAppend(p, i)); d != "" {
			return d
		}
	}
	return ""
}

func c18cShort(s string, n int) string {
	if len(s) > n {
		return s[:n] + "..."
	}
	return s
}

// ---------------------------------------------------------------------------------------------------------------------
// the check of one proof

type c18cCheck struct {
	what  string
	proof []byte
	orig  *boc.Cell  // the tree handed to the prover
	refH  *c18Hasher // hasher that saw orig
	asked [][]int    // positions asked to be pruned
	full  *boc.Cell  // optional: the full tree (no pruned branches) orig was cut from
	fullH *c18Hasher
}

// checkMasks: Level() of every cell of the proof is the level of the specification's mask; the library hashes the proof
// root like the reference.
func (e *c18cEnv) checkMasks(what string, proof []byte, root *boc.Cell, ph *c18Hasher) {
	body := root.Refs()[0]
	// level masks
	seen := map[*boc.Cell]bool{}
	malformed := false
	var lv func(c *boc.Cell)
	lv = func(c *boc.Cell) {
		if seen[c] {
			return
		}
		seen[c] = true
		for _, r := range c.Refs() {
			lv(r)
		}
		m, err := ph.mask(c)
		if err != nil {
			if !malformed {
				e.fails.add("rc_malformed_cell_in_proof", "%s: %v; proof %x", what, err, proof)
			}
			malformed = true
			return
		}
		if c.Level() != bits.Len(uint(m)) {
			if c == root {
				e.fails.add("rc_proof_root_level_mask_wrong", "%s: the Merkle-proof root is serialised with level %d, the specification (OR of the children >> 1) gives mask %d = level %d; virtual root has mask %d; proof %x",
					what, c.Level(), m, bits.Len(uint(m)), func() int { x, _ := ph.mask(body); return x }(), proof)
			} else {
				e.fails.add("rc_level_mask_inconsistent", "%s: cell %.200s has Level() %d, specification mask %d = level %d; proof %x", what, c18Dump(c), c.Level(), m, bits.Len(uint(m)), proof)
			}
		}
	}
	lv(root)
	if !malformed {
		if tv, err := ph.hashDepth(root, 3); err == nil {
			if lh, err := root.Hash(); err != nil || !bytes.Equal(lh, tv.hash[:]) {
				e.fails.add("rc_library_hash_of_proof_differs_from_reference", "%s: library hash of the proof root %x (%v), reference %x; proof %x", what, lh, err, tv.hash, proof)
			}
		}
	}
}

// checkProof returns the Merkle-proof root and the virtual root (nil, nil when unusable).
func (e *c18cEnv) checkProof(k c18cCheck) (*boc.Cell, *boc.Cell) {
	what, proof := k.what, k.proof
	e.proofs++
	ov, err := k.refH.hashDepth(k.orig, 0)
	if err != nil {
		e.fails.add("rc_harness", "%s: reference cannot hash the tree handed to the prover: %v", what, err)
		return nil, nil
	}
	if k.full != nil {
		fv, err := k.fullH.hashDepth(k.full, 0)
		if err != nil || fv != ov {
			e.fails.add("rc_harness", "%s: the partial tree does not have the level-0 hash of the full tree (%v)", what, err)
			return nil, nil
		}
	}
	roots, err := boc.DeserializeBoc(proof)
	if err != nil || len(roots) != 1 {
		e.fails.add("rc_proof_does_not_parse", "%s: proof %x does not parse into one root: %d roots, %v", what, proof, len(roots), err)
		return nil, nil
	}
	root := roots[0]
	if root.CellType() != boc.MerkleProofCell || len(root.Refs()) != 1 {
		e.fails.add("rc_proof_root_is_not_a_merkle_proof_cell", "%s: proof root has type %d and %d refs; proof %x", what, root.CellType(), len(root.Refs()), proof)
		return nil, nil
	}
	data, nb := c18Data(root)
	want := append([]byte{3}, ov.hash[:]...)
	want = append(want, byte(ov.depth>>8), byte(ov.depth))
	if nb != 280 || !bytes.Equal(data, want) {
		e.fails.add("rc_proof_root_commits_to_wrong_hash_or_depth", "%s: proof root data %x (%d bits), the level-0 hash / depth of the tree need %x; proof %x", what, data, nb, want, proof)
	}
	body := root.Refs()[0]
	ph := newC18Hasher()
	if e.onlyMasks {
		e.checkMasks(what, proof, root, ph)
		return root, body
	}
	if bv, err := ph.hashDepth(body, 0); err != nil || bv != ov {
		e.fails.add("rc_level0_hash_differs", "%s: level-0 hash/depth of the virtual root %x/%d (%v), of the tree handed to the prover %x/%d; proof %x", what, bv.hash, bv.depth, err, ov.hash, ov.depth, proof)
	}
	if !e.skipMasks {
		e.checkMasks(what, proof, root, ph)
	}
	// parallel walk by position
	must := map[string]bool{}
	for _, p := range k.asked {
		if c18cCellAt(k.orig, p) == nil {
			e.fails.add("rc_harness", "%s: asked position %s does not exist", what, c18cPos(p))
			return nil, nil
		}
		must[c18cPos(p)] = true
	}
	var cmp func(o, p *boc.Cell, pos []int)
	cmp = func(o, p *boc.Cell, pos []int) {
		ps := c18cPos(pos)
		same := c18cSameCell(o, p)
		if !must[ps] && same {
			for i := range o.Refs() {
				cmp(o.Refs()[i], p.Refs()[i], c18cAppend(pos, i))
			}
			return
		}
		oPruned := o.CellType() == boc.PrunedBranchCell
		if p.CellType() != boc.PrunedBranchCell {
			if must[ps] {
				e.fails.add("rc_asked_cell_not_pruned", "%s: position %s was asked to be pruned but holds t%d; proof %x", what, ps, p.CellType(), proof)
			} else {
				od, on := c18Data(o)
				pd, pn := c18Data(p)
				e.fails.add("rc_proof_cell_differs_from_original", "%s: proof cell at %s is t%d %x (%d bits, %d refs), original t%d %x (%d bits, %d refs); proof %x",
					what, ps, p.CellType(), pd, pn, len(p.Refs()), o.CellType(), od, on, len(o.Refs()), proof)
			}
			return
		}
		if !must[ps] {
			e.fails.add("rc_unasked_cell_pruned", "%s: the cell at position %s was not asked to be pruned but the proof holds another pruned branch there; original %.300s; proof %x", what, ps, c18Dump(o), proof)
		}
		if oPruned {
			e.reprunes++
		}
		cause := "rc_pruned_branch_wrong_hash_or_depth"
		note := ""
		if oPruned {
			cause = "rc_pruned_branch_of_pruned_cell_wrong_hash_or_depth"
			note = " (the replaced cell is itself a pruned branch: the hash and depth stored INSIDE it are needed)"
		}
		pd, pn := c18Data(p)
		pm, err := ph.mask(p)
		if err != nil || len(p.Refs()) != 0 {
			e.fails.add(cause, "%s: pruned branch at %s is malformed: %x (%d bits, %d refs): %v; proof %x", what, ps, pd, pn, len(p.Refs()), err, proof)
			return
		}
		for i := 0; i < bits.Len(uint(pm)); i++ {
			pv, err1 := ph.hashDepth(p, i)
			wv, err2 := k.refH.hashDepth(o, i)
			if err1 != nil || err2 != nil || pv != wv {
				e.fails.add(cause, "%s: pruned branch at %s holds %x: at level %d it stands for hash %x depth %d, the replaced sub-tree %.200s has hash %x depth %d%s (%v %v); proof %x",
					what, ps, pd, i, pv.hash, pv.depth, c18Dump(o), wv.hash, wv.depth, note, err1, err2, proof)
				break
			}
		}
	}
	cmp(k.orig, body, nil)
	// against the full tree the partial one was cut from
	if k.full != nil {
		var cf func(f, p *boc.Cell, pos []int)
		cf = func(f, p *boc.Cell, pos []int) {
			if p.CellType() == boc.PrunedBranchCell && f.CellType() != boc.PrunedBranchCell {
				fv, err1 := k.fullH.hashDepth(f, 0)
				pv, err2 := ph.hashDepth(p, 0)
				if err1 != nil || err2 != nil || fv != pv {
					pd, _ := c18Data(p)
					e.fails.add("rc_pruned_branch_differs_from_full_tree", "%s: pruned branch at %s holds %x, the sub-tree of the ORIGINAL full tree at that position has hash %x depth %d (%v %v); proof %x",
						what, c18cPos(pos), pd, fv.hash, fv.depth, err1, err2, proof)
				}
				return
			}
			if !c18cSameCell(f, p) {
				e.fails.add("rc_proof_cell_differs_from_full_tree", "%s: proof cell at %s is %.200s, full tree has %.200s; proof %x", what, c18cPos(pos), c18Dump(p), c18Dump(f), proof)
				return
			}
			for i := range f.Refs() {
				cf(f.Refs()[i], p.Refs()[i], c18cAppend(pos, i))
			}
		}
		cf(k.full, body, nil)
	}
	return root, body
}

// ---------------------------------------------------------------------------------------------------------------------
// dictionaries

func c18cKeyBits(k fixedSize) []bool {
	n := k.FixedSize()
	out := make([]bool, n)
	v := reflect.ValueOf(k)
	switch v.Kind() {
	case reflect.Uint8, reflect.Uint16, reflect.Uint32, reflect.Uint64:
		x := v.Uint()
		for i := 0; i < n; i++ {
			out[i] = x>>uint(n-1-i)&1 != 0
		}
	case reflect.Array:
		for i := 0; i < n; i++ {
			out[i] = byte(v.Index(i/8).Uint())&(0x80>>uint(i%8)) != 0
		}
	default:
		panic(fmt.Sprintf("c18cKeyBits: unsupported key type %T", k))
	}
	return out
}

func c18cBitString(b []bool) boc.BitString {
	bs := boc.NewBitString(len(b))
	for _, x := range b {
		_ = bs.WriteBit(x)
	}
	return bs
}

func c18cBitsHex(b []bool) string {
	var sb strings.Builder
	for i := 0; i < len(b); i += 4 {
		d := 0
		for j := 0; j < 4; j++ {
			d <<= 1
			if i+j < len(b) && b[i+j] {
				d |= 1
			}
		}
		fmt.Fprintf(&sb, "%x", d)
	}
	return sb.String()
}

func c18cUintBits(x uint64, n int) []bool {
	out := make([]bool, n)
	for i := range out {
		out[i] = x>>uint(n-1-i)&1 != 0
	}
	return out
}

func c18cEncU32(v Uint32) ([]bool, []bool) { return c18cUintBits(uint64(v), 32), nil }

// c18cValRef: a value that owns a child cell (a:uint16 b:^uint32); leaves then have depth 1.
type c18cValRef struct {
	A Uint16
	B Uint32 `tlb:"^"`
}

func c18cEncValRef(v c18cValRef) ([]bool, []bool) {
	return c18cUintBits(uint64(v.A), 16), c18cUintBits(uint64(v.B), 32)
}

type c18cDecoded struct {
	hash  [32]byte
	depth int
	keys  [][]bool
	vals  []any
}

// c18cDict: one dictionary, type-erased.
type c18cDict struct {
	name   string
	full   *boc.Cell
	fullH  *c18Hasher
	keys   [][]bool
	leaf   [][]bool // value bits in the leaf
	child  [][]bool // bits of the value's child cell (nil: none)
	want   []any
	absent [][]bool
	prove  func(p *boc.MerkleProver, tree *boc.Cell, key []bool) (any, []byte, error)
	decode func(root *boc.Cell) (c18cDecoded, error)
}

func c18cNewDict[K fixedSize, V any](e *c18cEnv, name string, keys []K, vals []V, absent []K, enc func(V) ([]bool, []bool), useE bool) *c18cDict {
	kh := make([]string, len(keys))
	for i, k := range keys {
		kh[i] = c18cBitsHex(c18cKeyBits(k))
	}
	d := &c18cDict{name: c18cShort(fmt.Sprintf("%s keys(hex)=%v vals=%v hashmapE=%v", name, kh, vals, useE), 500), fullH: newC18Hasher()}
	cell := boc.NewCell()
	if useE {
		if err := Marshal(cell, NewHashmapE(keys, vals)); err != nil || cell.BitSize() != 1 || len(cell.Refs()) != 1 {
			e.fails.add("rc_harness_or_encoder", "%s: Marshal HashmapE: %v", d.name, err)
			return nil
		}
		d.full = cell.Refs()[0]
	} else {
		if err := Marshal(cell, NewHashmap(keys, vals)); err != nil {
			e.fails.add("rc_harness_or_encoder", "%s: Marshal: %v", d.name, err)
			return nil
		}
		d.full = cell
	}
	for i := range keys {
		kb := c18cKeyBits(keys[i])
		l, c := enc(vals[i])
		w, err := c18Walk(d.full, kb)
		if err != nil || !w.found || !reflect.DeepEqual(w.value, l) {
			e.fails.add("rc_harness_or_encoder", "%s: the independent walk does not find key %s -> value in the marshalled dictionary (%v) %.600s", d.name, c18cBitsHex(kb), err, c18Dump(d.full))
			return nil
		}
		d.keys, d.leaf, d.child, d.want = append(d.keys, kb), append(d.leaf, l), append(d.child, c), append(d.want, any(vals[i]))
	}
	for _, k := range absent {
		kb := c18cKeyBits(k)
		if w, err := c18Walk(d.full, kb); err != nil || w.found {
			e.fails.add("rc_harness", "%s: key %s is not absent (%v)", d.name, c18cBitsHex(kb), err)
			return nil
		}
		d.absent = append(d.absent, kb)
	}
	d.prove = func(p *boc.MerkleProver, tree *boc.Cell, key []bool) (any, []byte, error) {
		v, proof, err := ProveKeyInHashmap[V](p, tree, c18cBitString(key))
		return v, proof, err
	}
	d.decode = func(root *boc.Cell) (c18cDecoded, error) {
		var mp MerkleProof[Hashmap[K, V]]
		if err := Unmarshal(root, &mp); err != nil {
			return c18cDecoded{}, err
		}
		out := c18cDecoded{hash: [32]byte(mp.VirtualHash), depth: int(mp.Depth)}
		ks, vs := mp.VirtualRoot.Keys(), mp.VirtualRoot.Values()
		for i := range ks {
			out.keys = append(out.keys, c18cKeyBits(ks[i]))
			out.vals = append(out.vals, any(vs[i]))
		}
		return out, nil
	}
	return d
}

const (
	c18cReachable    = 1
	c18cAbsentKey    = 2
	c18cBehindPruned = 4
	c18cBroken       = 8
)

// c18cClassify: where does the key end in the (partial) dictionary; for a reachable key also the branch taken at every fork.
func c18cClassify(root *boc.Cell, key []bool) (int, []int, error) {
	cl, br, _, err := c18cClassifyRest(root, key)
	return cl, br, err
}

// c18cClassifyRest also returns the number of key bits that are still unread where the walk stops.
func c18cClassifyRest(root *boc.Cell, key []bool) (int, []int, int, error) {
	n, off, c := len(key), 0, root
	var branch []int
	for {
		if c.CellType() == boc.PrunedBranchCell {
			return c18cBehindPruned, branch, n, nil
		}
		if c.CellType() != boc.OrdinaryCell {
			return c18cBroken, nil, n, fmt.Errorf("cell of type %d on the path", c.CellType())
		}
		lab, _, err := c18Label(c18Bits(c), 0, n)
		if err != nil {
			return c18cBroken, nil, n, err
		}
		for i, x := range lab {
			if key[off+i] != x {
				return c18cAbsentKey, branch, n, nil
			}
		}
		off += len(lab)
		n -= len(lab)
		if n == 0 {
			return c18cReachable, branch, n, nil
		}
		if len(c.Refs()) != 2 {
			return c18cBroken, nil, n, fmt.Errorf("fork with %d refs", len(c.Refs()))
		}
		bit := 0
		if key[off] {
			bit = 1
		}
		off++
		n--
		branch = append(branch, bit)
		c = c.Refs()[bit]
	}
}

func c18cSiblings(branch []int) [][]int {
	var asked [][]int
	for j := range branch {
		asked = append(asked, c18cAppend(branch[:j], 1-branch[j]))
	}
	return asked
}

// c18cKeep: the partial dictionary that keeps exactly the given keys, written by the test.
func c18cKeep(d *c18cDict, keep []int) (*boc.Cell, error) {
	onPath := map[string]bool{}
	var branches [][]int
	for _, ki := range keep {
		cl, br, err := c18cClassify(d.full, d.keys[ki])
		if err != nil || cl != c18cReachable {
			return nil, fmt.Errorf("harness: key #%d is not reachable in the full dictionary (%v)", ki, err)
		}
		branches = append(branches, br)
		for j := 0; j <= len(br); j++ {
			onPath[c18cPos(br[:j])] = true
		}
	}
	cut := map[string]bool{}
	for _, br := range branches {
		for _, s := range c18cSiblings(br) {
			if !onPath[c18cPos(s)] {
				cut[c18cPos(s)] = true
			}
		}
	}
	part, err := c18cCut(d.fullH, d.full, cut)
	if err != nil {
		return nil, err
	}
	return c18cMaterialize(part)
}

// proveReachable proves key #ki from tree (full or partial dictionary), checks the proof and returns its virtual root.
func (e *c18cEnv) proveReachable(d *c18cDict, stage string, tree *boc.Cell, ki int) *boc.Cell {
	key := d.keys[ki]
	what := fmt.Sprintf("%s; %s; prove key #%d (%s)", d.name, stage, ki, c18cBitsHex(key))
	e.count(what)
	var body *boc.Cell
	defer func() {
		if r := recover(); r != nil {
			e.fails.add("rc_panic", "%s: panic: %v; tree %.900s", what, r, c18Dump(tree))
			body = nil
		}
	}()
	cl, branch, err := c18cClassify(tree, key)
	if err != nil || cl != c18cReachable {
		e.fails.add("rc_harness", "%s: the key is not reachable in the tree (%d, %v)", what, cl, err)
		return nil
	}
	asked := c18cSiblings(branch)
	refH := newC18Hasher()
	before, err := refH.hashDepth(tree, 0)
	if err != nil {
		e.fails.add("rc_harness", "%s: reference: %v", what, err)
		return nil
	}
	tree.ResetCounters()
	prover, err := boc.NewMerkleProver(tree)
	if err != nil {
		e.fails.add("rc_prover_construction_fails", "%s: NewMerkleProver: %v; tree %.900s", what, err, c18Dump(tree))
		return nil
	}
	val, proof, err := d.prove(prover, tree, key)
	tree.ResetCounters()
	if err != nil || proof == nil {
		e.fails.add("rc_present_key_not_proved", "%s: ProveKeyInHashmap failed: %v; tree %.900s", what, err, c18Dump(tree))
		return nil
	}
	if !reflect.DeepEqual(val, d.want[ki]) {
		e.fails.add("rc_returned_value_wrong", "%s: returned value %v, want %v", what, val, d.want[ki])
	}
	root, b := e.checkProof(c18cCheck{what: what, proof: proof, orig: tree, refH: refH, asked: asked, full: d.full, fullH: d.fullH})
	if b == nil {
		return nil
	}
	// the value is readable from the proof alone: independent walk ...
	w, err := c18Walk(b, key)
	if err != nil || !w.found {
		e.fails.add("rc_value_not_decodable", "%s: the key cannot be followed through the proof (found=%v, %v); proof %x", what, w.found, err, proof)
	} else {
		ok := reflect.DeepEqual(w.value, d.leaf[ki])
		if d.child[ki] == nil {
			ok = ok && len(w.leaf.Refs()) == 0
		} else {
			ok = ok && len(w.leaf.Refs()) == 1 && w.leaf.Refs()[0].CellType() == boc.OrdinaryCell &&
				reflect.DeepEqual(c18Bits(w.leaf.Refs()[0]), d.child[ki]) && len(w.leaf.Refs()[0].Refs()) == 0
		}
		if !ok {
			e.fails.add("rc_value_not_decodable", "%s: the leaf of the proof %.300s does not carry the value %v; proof %x", what, c18Dump(w.leaf), d.want[ki], proof)
		}
	}
	// ... and the library's own decoder
	if dec, err := d.decode(root); err != nil {
		e.fails.add("rc_library_decoder_rejects_proof", "%s: decoding the proof as MerkleProof[Hashmap]: %v; proof %x", what, err, proof)
	} else {
		if dec.hash != before.hash || dec.depth != before.depth {
			e.fails.add("rc_proof_root_commits_to_wrong_hash_or_depth", "%s: decoded proof commits to %x/%d, the tree has %x/%d", what, dec.hash, dec.depth, before.hash, before.depth)
		}
		if len(dec.keys) != 1 || !reflect.DeepEqual(dec.keys[0], key) || !reflect.DeepEqual(dec.vals[0], d.want[ki]) {
			e.fails.add("rc_library_decoder_does_not_see_the_proven_pair", "%s: the library decodes %d keys (values %v) from the proof, want the proven pair only; proof %x", what, len(dec.keys), dec.vals, proof)
		}
	}
	if after, err := newC18Hasher().hashDepth(tree, 0); err != nil || after != before {
		e.fails.add("rc_tree_mutated_by_prover", "%s: hash of the tree changed while proving: %x -> %x (%v)", what, before.hash, after.hash, err)
	}
	body = b
	return body
}

// proveRefused asks for a key that must not get a proof: absent from the dictionary, or behind a pruned branch.
func (e *c18cEnv) proveRefused(d *c18cDict, stage string, tree *boc.Cell, key []bool, wantClass int, cause string) { // wantClass: OR of the admissible classes
	what := fmt.Sprintf("%s; %s; ask for key %s", d.name, stage, c18cBitsHex(key))
	e.count(what)
	defer func() {
		if r := recover(); r != nil {
			e.fails.add("rc_panic", "%s: panic: %v; tree %.900s", what, r, c18Dump(tree))
		}
	}()
	cl, br, rest, err := c18cClassifyRest(tree, key)
	if err != nil || cl&wantClass == 0 {
		e.fails.add("rc_harness", "%s: key has class %d, want one of %d (%v)", what, cl, wantClass, err)
		return
	}
	tree.ResetCounters()
	prover, err := boc.NewMerkleProver(tree)
	if err != nil {
		e.fails.add("rc_prover_construction_fails", "%s: NewMerkleProver: %v; tree %.900s", what, err, c18Dump(tree))
		return
	}
	val, proof, err := d.prove(prover, tree, key)
	tree.ResetCounters()
	if err == nil || proof != nil {
		ser, _ := boc.SerializeBoc(tree, false, false, false, 0)
		where := "the key is absent"
		if cl == c18cBehindPruned {
			where = fmt.Sprintf("the walk meets a pruned branch at position %s with %d key bits still to read", c18cPos(br), rest)
			e.notes[fmt.Sprintf("%s, pruned branch met with %d key bits still to read", cause, rest)]++
		}
		e.fails.add(cause, "%s (%s): got value %v and proof %x (err %v); tree (boc) %x = %.900s", what, where, val, proof, err, ser, c18Dump(tree))
	}
}

// reproveChain: starting from tree (in which key #k1 is reachable), prove k1, take the virtual root, prove again ...
func (e *c18cEnv) reproveChain(d *c18cDict, chain string, tree *boc.Cell, k1 int, levels int, minimalFrom int) {
	for l := 1; l <= levels; l++ {
		stage := fmt.Sprintf("%s level %d", chain, l)
		for _, a := range d.absent {
			// a key that is absent from the full dictionary either ends at a label of the partial one or runs into a pruned branch
			e.proveRefused(d, stage, tree, a, c18cAbsentKey|c18cBehindPruned, "rc_absent_key_gets_proof")
		}
		body := e.proveReachable(d, stage, tree, k1)
		if body == nil {
			return
		}
		if l >= minimalFrom {
			// tree is the virtual root of a proof of k1 alone: nothing is left to hide
			if at := c18cTreeDiff(tree, body, nil); at != "" {
				ser, _ := boc.SerializeBoc(tree, false, false, false, 0)
				e.fails.add("rc_reproving_minimal_proof_not_idempotent", "%s; %s: proving key #%d again from the virtual root of its own proof gives another virtual root (first difference at %s): %.400s instead of %.400s; input tree (boc) %x",
					d.name, stage, k1, at, c18Dump(body), c18Dump(tree), ser)
			}
		}
		// a virtual root that does not commit to the dictionary has been reported (rc_level0_hash_differs): it is no partial
		// dictionary, the chain ends here
		fv, err1 := d.fullH.hashDepth(d.full, 0)
		bv, err2 := newC18Hasher().hashDepth(body, 0)
		if err1 != nil || err2 != nil || fv != bv {
			return
		}
		tree = body
	}
}

func (e *c18cEnv) dictReprove(d *c18cDict, rng *rand.Rand, levels int) {
	if d == nil {
		return
	}
	k1 := rng.Intn(len(d.keys))
	// chain A: the library's own proofs all the way
	e.reproveChain(d, fmt.Sprintf("chain A (k1=#%d)", k1), d.full, k1, levels, 2)
	// chain B: a partial dictionary written by the test
	keep := []int{k1}
	target := 1 + rng.Intn(4)
	for _, i := range rng.Perm(len(d.keys)) {
		if i != k1 && len(keep) < target {
			keep = append(keep, i)
		}
	}
	part, err := c18cKeep(d, keep)
	if err != nil {
		e.fails.add("rc_harness", "%s: partial dictionary keeping %v: %v", d.name, keep, err)
		return
	}
	chain := fmt.Sprintf("chain B (test-made partial dictionary keeping keys %v)", keep)
	for _, ki := range keep[1:] {
		e.proveReachable(d, chain+" level 1", part, ki)
	}
	minimalFrom := 2
	if len(keep) == 1 {
		minimalFrom = 1 // a test-made MINIMAL partial dictionary: the very first proof already has nothing left to hide
	}
	e.reproveChain(d, chain, part, k1, levels, minimalFrom)
}

func (e *c18cEnv) dictUnreachable(d *c18cDict, rng *rand.Rand) {
	if d == nil {
		return
	}
	k1 := rng.Intn(len(d.keys))
	others := func(tree *boc.Cell, stage string) {
		n := 0
		for _, i := range rng.Perm(len(d.keys)) {
			if cl, _, _ := c18cClassify(tree, d.keys[i]); cl == c18cBehindPruned && n < 6 {
				n++
				e.proveRefused(d, stage, tree, d.keys[i], c18cBehindPruned, "rc_unreachable_key_gets_proof_with_value")
			}
		}
	}
	// test-made partial dictionaries: keeping k1 only, keeping up to 3 keys
	for _, nk := range []int{1, 3} {
		keep := []int{k1}
		for _, i := range rng.Perm(len(d.keys)) {
			if i != k1 && len(keep) < nk {
				keep = append(keep, i)
			}
		}
		if len(keep) == len(d.keys) {
			continue
		}
		part, err := c18cKeep(d, keep)
		if err != nil {
			e.fails.add("rc_harness", "%s: partial dictionary keeping %v: %v", d.name, keep, err)
			return
		}
		others(part, fmt.Sprintf("test-made partial dictionary keeping keys %v", keep))
	}
	// virtual roots of the library's own proofs, two levels
	tree := d.full
	for l := 1; l <= 2; l++ {
		var body *boc.Cell
		func() {
			defer func() { _ = recover() }()
			tree.ResetCounters()
			prover, err := boc.NewMerkleProver(tree)
			if err != nil {
				return
			}
			_, proof, err := d.prove(prover, tree, d.keys[k1])
			tree.ResetCounters()
			if err != nil {
				return
			}
			if roots, err := boc.DeserializeBoc(proof); err == nil && len(roots) == 1 && len(roots[0].Refs()) == 1 {
				body = roots[0].Refs()[0]
			}
		}()
		if body == nil {
			return // the failure belongs to ExoticReproveDicts
		}
		others(body, fmt.Sprintf("virtual root of the library's proof of key #%d, level %d", k1, l))
		tree = body
	}
}

// c18cAbsent picks up to n keys that are not in the set: neighbours of present keys first, then random ones.
func c18cAbsent[K fixedSize](keys []K, cands []K, n int) []K {
	in := map[string]bool{}
	for _, k := range keys {
		in[c18cBitsHex(c18cKeyBits(k))] = true
	}
	var out []K
	for _, c := range cands {
		h := c18cBitsHex(c18cKeyBits(c))
		if !in[h] && len(out) < n {
			in[h] = true
			out = append(out, c)
		}
	}
	return out
}

func c18cUnique[K fixedSize](keys []K) []K {
	type kv struct {
		h string
		k K
	}
	seen := map[string]bool{}
	var l []kv
	for _, k := range keys {
		h := c18cBitsHex(c18cKeyBits(k))
		if !seen[h] {
			seen[h] = true
			l = append(l, kv{h, k})
		}
	}
	sort.Slice(l, func(i, j int) bool { return l[i].h < l[j].h })
	out := make([]K, len(l))
	for i := range l {
		out[i] = l[i].k
	}
	return out
}

// c18cFamily runs `rounds` random dictionaries of one key type. gen(r, base, clustered) draws a key.
func c18cFamily[K fixedSize, V any](e *c18cEnv, run func(d *c18cDict), name string, rounds, maxN int, rng *rand.Rand,
	gen func(rng *rand.Rand, clustered bool) K, flip func(k K, bit int) K, val func(rng *rand.Rand) V, enc func(V) ([]bool, []bool)) {
	for r := 0; r < rounds; r++ {
		n := 2 + rng.Intn(maxN-1)
		if r%5 == 0 {
			n = 2 + rng.Intn(4)
		}
		clustered := r%2 == 1
		var keys []K
		for i := 0; i < n; i++ {
			keys = append(keys, gen(rng, clustered))
		}
		keys = c18cUnique(keys)
		if len(keys) < 2 {
			continue
		}
		w := keys[0].FixedSize()
		cands := []K{flip(keys[0], w-1), flip(keys[len(keys)-1], 0), flip(keys[len(keys)/2], w/2), gen(rng, clustered), gen(rng, false), gen(rng, false)}
		absent := c18cAbsent(keys, cands, 3)
		vals := make([]V, len(keys))
		for i := range vals {
			vals[i] = val(rng)
		}
		run(c18cNewDict(e, fmt.Sprintf("%s random round %d (seed %d)", name, r, c18Seed()), keys, vals, absent, enc, r%2 == 0))
	}
}

// c18cAllDicts feeds the fixed and the random dictionaries to run.
func c18cAllDicts(e *c18cEnv, rng *rand.Rand, rounds, maxN int, run func(d *c18cDict)) {
	fixed := [][]Uint8{
		{0x11, 0x25, 0x83, 0xc4, 0xc5}, // the seeded regression's dictionary
		{0xc4, 0xc5},                   // twins in the last bit: both children of the only fork are leaves
		{0x00, 0xff},
		{0x01, 0x81},
		{0x7f, 0x80},
		{0x00, 0x01, 0x02, 0x03, 0x04, 0x05, 0x06, 0x07, 0x08, 0x09, 0x0a, 0x0b, 0x0c, 0x0d, 0x0e, 0x0f},
		{0x00, 0x10, 0x20, 0x30, 0x40, 0x50, 0x60, 0x70, 0x80, 0x90, 0xa0, 0xb0, 0xc0, 0xd0, 0xe0, 0xf0},
		{0x80, 0xc0, 0xe0, 0xf0, 0xf8, 0xfc, 0xfe, 0xff}, // one-sided: a comb
		{0x00, 0x01, 0x03, 0x07, 0x0f, 0x1f, 0x3f, 0x7f},
		{0x12, 0x13, 0x92, 0x93},
		{0x20, 0x21, 0x22, 0x23, 0xa0, 0xa1, 0xa2, 0xa3, 0xe0},
	}
	for i, keys := range fixed {
		vals := make([]Uint32, len(keys))
		var cands []Uint8
		for j, k := range keys {
			vals[j] = Uint32(0xA0000000 + uint32(k)*257)
			cands = append(cands, k^1, k^0x80, k^0x10)
		}
		cands = append(cands, 0x55, 0xaa, 0x33)
		run(c18cNewDict(e, fmt.Sprintf("fixed 8-bit #%d", i), keys, vals, c18cAbsent(keys, cands, 3), c18cEncU32, i%2 == 1))
	}
	u32 := func(rng *rand.Rand) Uint32 { return Uint32(rng.Uint32()) }
	c18cFamily(e, run, "8-bit", rounds, maxN, rng,
		func(rng *rand.Rand, cl bool) Uint8 {
			if cl {
				return Uint8(0xc0 | rng.Intn(32))
			}
			return Uint8(rng.Intn(256))
		},
		func(k Uint8, b int) Uint8 { return k ^ Uint8(1)<<uint(7-b) }, u32, c18cEncU32)
	c18cFamily(e, run, "12-bit", rounds, maxN, rng,
		func(rng *rand.Rand, cl bool) Uint12 {
			if cl {
				return Uint12(0x5a0 | rng.Intn(2)<<11 | rng.Intn(16))
			}
			return Uint12(rng.Intn(1 << 12))
		},
		func(k Uint12, b int) Uint12 { return k ^ Uint12(1)<<uint(11-b) }, u32, c18cEncU32)
	c18cFamily(e, run, "16-bit child-cell values", rounds, maxN, rng,
		func(rng *rand.Rand, cl bool) Uint16 {
			if cl {
				return Uint16(0x1230 | rng.Intn(4)<<14 | rng.Intn(16))
			}
			return Uint16(rng.Intn(1 << 16))
		},
		func(k Uint16, b int) Uint16 { return k ^ Uint16(1)<<uint(15-b) },
		func(rng *rand.Rand) c18cValRef {
			return c18cValRef{A: Uint16(rng.Intn(1 << 16)), B: Uint32(rng.Uint32())}
		}, c18cEncValRef)
	c18cFamily(e, run, "32-bit", rounds, maxN, rng,
		func(rng *rand.Rand, cl bool) Uint32 {
			if cl {
				return Uint32(0x0abcd000 | uint32(rng.Intn(4))<<30 | uint32(rng.Intn(64)))
			}
			return Uint32(rng.Uint32())
		},
		func(k Uint32, b int) Uint32 { return k ^ Uint32(1)<<uint(31-b) }, u32, c18cEncU32)
	var base Bits256
	rng.Read(base[:])
	c18cFamily(e, run, "256-bit", rounds, maxN, rng,
		func(rng *rand.Rand, cl bool) Bits256 {
			var k Bits256
			if cl {
				k = base
				k[0] = k[0]&0x3f | byte(rng.Intn(4))<<6
				k[31] = byte(rng.Intn(32))
				return k
			}
			rng.Read(k[:])
			return k
		},
		func(k Bits256, b int) Bits256 { k[b/8] ^= 0x80 >> uint(b%8); return k }, u32, c18cEncU32)
}

func TestVerifStandin_C18_ExoticReproveDicts(t *testing.T) {
	known := append([]string{"rc_value_not_decodable", "rc_absent_key_gets_proof", "rc_present_key_not_proved", "rc_reproving_minimal_proof_not_idempotent",
		"rc_pruned_branch_differs_from_full_tree", "rc_library_decoder_does_not_see_the_proven_pair"}, c18cKnown...)
	e := newC18cEnv("c18_exotic_reprove_dicts", known...)
	defer e.finish(t, true)
	rounds, maxN, levels := 40, 40, 3
	if vhThorough() {
		rounds, maxN, levels = 1500, 120, 5
	}
	rng := rand.New(rand.NewSource(c18Seed()))
	c18cAllDicts(e, rng, rounds, maxN, func(d *c18cDict) { e.dictReprove(d, rng, levels) })
}

func TestVerifStandin_C18_ExoticUnreachableKeys(t *testing.T) {
	e := newC18cEnv("c18_exotic_unreachable_keys", "rc_unreachable_key_gets_proof_with_value", "rc_panic")
	defer e.finish(t, false)
	rounds, maxN := 40, 40
	if vhThorough() {
		rounds, maxN = 400, 120
	}
	rng := rand.New(rand.NewSource(c18Seed()))
	c18cAllDicts(e, rng, rounds, maxN, func(d *c18cDict) { e.dictUnreachable(d, rng) })
}

// ---------------------------------------------------------------------------------------------------------------------
// cursor API

// c18cMerkleReachable: is a Merkle proof / update cell at a position that is not below an asked one? (The library refuses a
// Merkle cell also when the cell itself is asked to be pruned; a Merkle cell BELOW an asked position must not matter.)
func c18cMerkleReachable(tree *boc.Cell, asked [][]int) bool {
	must := map[string]bool{}
	for _, p := range asked {
		must[c18cPos(p)] = true
	}
	var walk func(c *boc.Cell, p []int) bool
	walk = func(c *boc.Cell, p []int) bool {
		if c.CellType() == boc.MerkleProofCell || c.CellType() == boc.MerkleUpdateCell {
			return true
		}
		if must[c18cPos(p)] {
			return false
		}
		for i, r := range c.Refs() {
			if walk(r, c18cAppend(p, i)) {
				return true
			}
		}
		return false
	}
	return walk(tree, nil)
}

// runCursor asks for the given positions of tree to be pruned and checks the proof.
func (e *c18cEnv) runCursor(what string, tree *boc.Cell, asked [][]int, full *boc.Cell, fullH *c18Hasher) {
	e.count(what)
	defer func() {
		if r := recover(); r != nil {
			e.fails.add("rc_panic", "%s: panic: %v", what, r)
		}
	}()
	refH := newC18Hasher()
	before, err := refH.hashDepth(tree, 0)
	if err != nil {
		e.fails.add("rc_harness", "%s: reference: %v", what, err)
		return
	}
	prover, err := boc.NewMerkleProver(tree)
	if err != nil {
		e.fails.add("rc_prover_construction_fails", "%s: NewMerkleProver: %v", what, err)
		return
	}
	cur := prover.Cursor()
	for _, p := range asked {
		c := cur
		for _, k := range p {
			c = c.Ref(k)
		}
		c.Prune()
	}
	proof, err := prover.CreateProof(cur)
	if err != nil || proof == nil {
		if err != nil && c18cMerkleReachable(tree, asked) {
			e.refused++
			return
		}
		e.fails.add("rc_create_proof_fails", "%s: CreateProof: %v", what, err)
		return
	}
	e.checkProof(c18cCheck{what: what, proof: proof, orig: tree, refH: refH, asked: asked, full: full, fullH: fullH})
	if after, err := newC18Hasher().hashDepth(tree, 0); err != nil || after != before {
		e.fails.add("rc_tree_mutated_by_prover", "%s: hash of the tree changed while proving: %x -> %x (%v)", what, before.hash, after.hash, err)
	}
}

type c18cTree struct {
	name  string
	tree  *boc.Cell // materialized
	full  *boc.Cell // optional
	fullH *c18Hasher
}

// enumerate: nothing, the root, every single position, every ordered pair (thorough: every triple) of positions.
func (e *c18cEnv) enumerate(ti c18cTree, thorough bool) {
	pos := c18cPositions(ti.tree, 40)
	if pos == nil {
		e.fails.add("rc_harness", "tree %s is too large", ti.name)
		return
	}
	ser, _ := boc.SerializeBoc(ti.tree, false, false, false, 0)
	desc := fmt.Sprintf("tree %q (boc %x) %s", ti.name, ser, c18Dump(ti.tree))
	if len(desc) > 1100 {
		desc = fmt.Sprintf("tree %q %s", ti.name, c18cShort(c18Dump(ti.tree), 1000))
	}
	run := func(asked [][]int) {
		e.runCursor(fmt.Sprintf("%s asked=%s", desc, c18cPosList(asked)), ti.tree, asked, ti.full, ti.fullH)
	}
	run(nil)
	run([][]int{{}})
	for i := range pos {
		run([][]int{pos[i]})
		for j := i + 1; j < len(pos); j++ {
			run([][]int{pos[i], pos[j]})
			run([][]int{pos[j], pos[i]})
			if thorough {
				for k := j + 1; k < len(pos); k++ {
					run([][]int{pos[k], pos[i], pos[j]})
				}
			}
		}
	}
}

func (e *c18cEnv) materialize(name string, spec *boc.Cell) (c18cTree, bool) {
	var t *boc.Cell
	var err error
	if msg := vhSafe(func() { t, err = c18cMaterialize(spec) }); msg != "" || err != nil {
		e.fails.add("rc_harness", "tree %s: %s %v", name, msg, err)
		return c18cTree{}, false
	}
	return c18cTree{name: name, tree: t}, true
}

func TestVerifStandin_C18_ExoticCursorLevel1(t *testing.T) {
	e := newC18cEnv("c18_exotic_cursor_level1", append([]string{"rc_create_proof_fails", "rc_pruned_branch_differs_from_full_tree"}, c18cKnown...)...)
	defer e.finish(t, true)
	h := newC18Hasher()
	leaf := func() *boc.Cell { return c18cOrd("10110") }
	p := func(seed uint64) *boc.Cell { return c18cPrunedRand(1, seed) }
	var trees []c18cTree
	add := func(name string, spec *boc.Cell) {
		if ti, ok := e.materialize(name, spec); ok {
			trees = append(trees, ti)
		}
	}
	add("pruned + leaf", c18cOrd("1", p(1), leaf()))
	add("two pruned siblings", c18cOrd("01", p(2), p(3)))
	add("pruned branches in both halves + library", c18cOrd("0011", c18cOrd("1", p(4), leaf()), c18cOrd("0", leaf(), p(5)), c18cLib(0x5a)))
	add("chain down to a pruned branch", c18cOrd("", c18cOrd("1", c18cOrd("11", p(6)))))
	add("four references", c18cOrd("1010", p(7), c18cLib(0x11), c18cOrd("0", p(8)), leaf()))
	{
		sp := p(9)
		add("one pruned cell referenced twice", c18cOrd("1", sp, c18cOrd("0", sp, leaf())))
	}
	add("the root is a pruned branch", p(10))
	add("two pruned branches with equal content (distinct cells)", c18cOrd("1", p(11), c18cOrd("0", p(11))))
	add("pruned branch of depth 0 and of a large depth", c18cOrd("1", c18cPruned(1, []c18HD{{hash: sha256.Sum256([]byte("a")), depth: 0}}), c18cPruned(1, []c18HD{{hash: sha256.Sum256([]byte("b")), depth: 1000}})))
	add("1023-bit cells around a pruned branch", c18cOrd(strings.Repeat("1", 1023), c18cOrd(strings.Repeat("01", 511)+"1", p(12)), p(13)))
	add("library cells only", c18cOrd("1", c18cLib(1), c18cOrd("0", c18cLib(2), c18cLib(1))))
	{
		// a real tree, two sub-trees cut by the test
		full := c18cOrd("1100", c18cOrd("1", c18cOrd("111", leaf()), c18cOrd("000")), c18cOrd("01", c18cOrd("10", c18cOrd("1"), c18cOrd("0")), leaf()))
		fh := newC18Hasher()
		cut, err := c18cCut(fh, full, map[string]bool{"0/0": true, "1/0": true})
		if err != nil {
			e.fails.add("rc_harness", "cut: %v", err)
		} else if ti, ok := e.materialize("real tree with the sub-trees 0/0 and 1/0 cut", cut); ok {
			ti.full, ti.fullH = full, fh
			trees = append(trees, ti)
		}
	}
	{
		// a real dictionary, two keys kept
		d := c18cNewDict(e, "cursor dict", []Uint8{0x11, 0x25, 0x83, 0xc4, 0xc5}, []Uint32{1, 2, 3, 4, 5}, nil, c18cEncU32, false)
		if d != nil {
			if part, err := c18cKeep(d, []int{1, 3}); err != nil {
				e.fails.add("rc_harness", "keep: %v", err)
			} else {
				trees = append(trees, c18cTree{name: "partial dictionary {11,25,83,c4,c5} keeping 25 and c4", tree: part, full: d.full, fullH: d.fullH})
			}
		}
	}
	// nested Merkle cells
	inner := c18cOrd("101", p(20), leaf())
	add("nested Merkle proof", c18cOrd("1", c18cMerkleProof(h, inner), leaf()))
	add("nested Merkle proof next to a pruned branch", c18cOrd("1", c18cOrd("0", c18cMerkleProof(h, c18cOrd("1", p(21), p(22)))), p(23)))
	add("nested Merkle proof without pruned branches inside", c18cOrd("1", c18cMerkleProof(h, c18cOrd("1", leaf())), c18cOrd("0", p(24))))
	add("nested Merkle update", c18cOrd("0", c18cMerkleUpdate(h, c18cOrd("1", p(25), leaf()), c18cOrd("1", p(26), c18cOrd("0"))), p(27)))
	add("the root is a Merkle proof", c18cMerkleProof(h, c18cOrd("1", p(28), leaf())))
	for _, ti := range trees {
		e.enumerate(ti, vhThorough())
	}
	t.Logf("%d trees", len(trees))
}

// highLevel: trees with pruned branches of every level mask 1..7 through the cursor API.
func (e *c18cEnv) highLevel(t *testing.T, nRandom int) {
	leaf := func() *boc.Cell { return c18cOrd("10110") }
	var trees []c18cTree
	add := func(name string, spec *boc.Cell) {
		if ti, ok := e.materialize(name, spec); ok {
			trees = append(trees, ti)
		}
	}
	seed := uint64(100)
	p := func(mask int) *boc.Cell { seed++; return c18cPrunedRand(mask, seed) }
	for m := 1; m <= 7; m++ {
		add(fmt.Sprintf("mask %d: pruned + leaf", m), c18cOrd("1", p(m), leaf()))
		add(fmt.Sprintf("mask %d: pruned below two parents, pruned sibling", m), c18cOrd("01", c18cOrd("1", c18cOrd("0", p(m), leaf())), p(m)))
		add(fmt.Sprintf("mask %d: the root is the pruned branch", m), p(m))
	}
	for a := 1; a <= 7; a++ {
		for b := 1; b <= 7; b++ {
			add(fmt.Sprintf("masks %d and %d", a, b), c18cOrd("1", p(a), c18cOrd("0", p(b), leaf())))
		}
	}
	add("masks 1,2,4 and a library cell below one cell", c18cOrd("1111", p(1), p(2), p(4), c18cLib(7)))
	add("masks 7,3,1 nested", c18cOrd("1", p(7), c18cOrd("0", p(3), c18cOrd("1", p(1), leaf()))))
	for _, ti := range trees {
		e.enumerate(ti, vhThorough())
	}
	// random trees with 1..3 pruned branches of random masks
	rng := rand.New(rand.NewSource(c18Seed()))
	g := &c18cGen{rng: rng, maskOf: func() int { return 1 + rng.Intn(7) }}
	g.many(e, nRandom, 1, 3, vhThorough())
	t.Logf("%d fixed trees, %d random trees", len(trees), nRandom)
}

// TestVerifStandin_C18_ExoticCursorHighLevel: the level-0 statement (commitment, level-0 hash of the virtual root, content of
// every pruned branch, asked / not asked) for trees with pruned branches of level 1..3.
func TestVerifStandin_C18_ExoticCursorHighLevel(t *testing.T) {
	e := newC18cEnv("c18_exotic_cursor_high_level", append([]string{"rc_create_proof_fails"}, c18cKnown[:8]...)...)
	e.skipMasks = true
	defer e.finish(t, true)
	n := 150
	if vhThorough() {
		n = 20000
	}
	e.highLevel(t, n)
}

// TestVerifStandin_C18_ExoticHighLevelMasks: the same trees, the other half of the oracle: the level mask written into the
// descriptor of every cell of the proof (Level()) is the mask of the specification - ordinary cell: OR of the children,
// Merkle-proof cell: OR of the children >> 1 - and the library hashes the proof root like the reference.
func TestVerifStandin_C18_ExoticHighLevelMasks(t *testing.T) {
	e := newC18cEnv("c18_exotic_high_level_masks", "rc_level_mask_inconsistent", "rc_proof_root_level_mask_wrong", "rc_library_hash_of_proof_differs_from_reference", "rc_panic")
	e.onlyMasks = true
	defer e.finish(t, false)
	n := 50
	if vhThorough() {
		n = 5000
	}
	e.highLevel(t, n)
}

// ---------------------------------------------------------------------------------------------------------------------
// random trees

type c18cGen struct {
	rng    *rand.Rand
	maskOf func() int // mask of the pruned branches put in place of the cut sub-trees
}

func (g *c18cGen) gen(depth int) *boc.Cell {
	if depth == 0 && g.rng.Intn(100) < 8 {
		return c18cLib(byte(g.rng.Intn(256)))
	}
	nk := 0
	if depth > 0 {
		nk = []int{0, 1, 2, 2, 2, 3, 4}[g.rng.Intn(7)]
	}
	var sb strings.Builder
	for i, n := 0, g.rng.Intn(65); i < n; i++ {
		sb.WriteByte("01"[g.rng.Intn(2)])
	}
	kids := make([]*boc.Cell, nk)
	for i := range kids {
		kids[i] = g.gen(depth - 1)
	}
	return c18cOrd(sb.String(), kids...)
}

// many: n random trees from which minCut..maxCut sub-trees are cut.
func (g *c18cGen) many(e *c18cEnv, n, minCut, maxCut int, thorough bool) {
	rng := g.rng
	maxDepth := 4
	if thorough {
		maxDepth = 5
	}
	made := 0
	for attempt := 0; made < n && attempt < 30*n; attempt++ {
		full := g.gen(2 + rng.Intn(maxDepth-1))
		fpos := c18cPositions(full, 250)
		if len(fpos) < 3 {
			continue
		}
		// choose the cuts: positions that are not below one another
		nc := minCut + rng.Intn(maxCut-minCut+1)
		var cuts [][]int
		for _, i := range rng.Perm(len(fpos)) {
			if len(cuts) >= nc {
				break
			}
			ok := true
			for _, c := range cuts {
				if c18cIsPrefix(c, fpos[i]) || c18cIsPrefix(fpos[i], c) {
					ok = false
				}
			}
			if ok {
				cuts = append(cuts, fpos[i])
			}
		}
		if len(cuts) < minCut {
			continue
		}
		fh := newC18Hasher()
		var spec *boc.Cell
		realFull := true
		{
			cut := map[string]bool{}
			for _, c := range cuts {
				cut[c18cPos(c)] = true
			}
			var err error
			spec, err = c18cCut(fh, full, cut)
			if err != nil {
				e.fails.add("rc_harness", "cut: %v", err)
				continue
			}
			if g.maskOf != nil {
				// replace the mask-1 pruned branches with pruned branches of random masks (standing for unknown sub-trees)
				realFull = false
				var rec func(c *boc.Cell) *boc.Cell
				rec = func(c *boc.Cell) *boc.Cell {
					if c.CellType() == boc.PrunedBranchCell {
						return c18cPrunedRand(g.maskOf(), rng.Uint64())
					}
					var kids []*boc.Cell
					for _, r := range c.Refs() {
						kids = append(kids, rec(r))
					}
					return c18cCopyCell(c, kids)
				}
				spec = rec(spec)
			}
		}
		ti, ok := e.materialize(fmt.Sprintf("random #%d", made+1), spec)
		if !ok {
			continue
		}
		if realFull {
			ti.full, ti.fullH = full, fh
		}
		made++
		tree := ti.tree
		pos := c18cPositions(tree, 300)
		if len(pos) == 0 {
			continue
		}
		ser, _ := boc.SerializeBoc(tree, false, false, false, 0)
		desc := fmt.Sprintf("random tree #%d (seed %d, cuts %s) boc %x", made, c18Seed(), c18cPosList(cuts), ser)
		if len(desc) > 1000 {
			desc = fmt.Sprintf("random tree #%d (seed %d, cuts %s) %s", made, c18Seed(), c18cPosList(cuts), c18cShort(c18Dump(tree), 800))
		}
		run := func(mode string, asked [][]int) {
			e.runCursor(fmt.Sprintf("%s; %s asked=%s", desc, mode, c18cPosList(asked)), tree, asked, ti.full, ti.fullH)
		}
		// (a) path proof: the siblings along a random walk from the root to a leaf
		{
			var asked [][]int
			var p []int
			c := tree
			for len(c.Refs()) > 0 {
				k := rng.Intn(len(c.Refs()))
				for i := range c.Refs() {
					if i != k {
						asked = append(asked, c18cAppend(p, i))
					}
				}
				p = c18cAppend(p, k)
				c = c.Refs()[k]
			}
			run("path "+c18cPos(p), asked)
		}
		// (b) every pruned branch alone, (c) the parent of one, (d) a sibling of one, (e) all of them
		if len(cuts) > 0 {
			for _, c := range cuts {
				run("pruned branch alone", [][]int{c})
			}
			c := cuts[rng.Intn(len(cuts))]
			run("parent of a pruned branch", [][]int{c[:len(c)-1]})
			par := c18cCellAt(tree, c[:len(c)-1])
			if len(par.Refs()) > 1 {
				k := rng.Intn(len(par.Refs()) - 1)
				if k >= c[len(c)-1] {
					k++
				}
				run("sibling of a pruned branch", [][]int{c18cAppend(c[:len(c)-1], k)})
				run("pruned branch and its sibling", [][]int{c18cAppend(c[:len(c)-1], k), c})
			}
			run("all pruned branches", cuts)
		}
		// (f) a random set of 1..4 positions
		{
			var asked [][]int
			k := 1 + rng.Intn(4)
			if k > len(pos) {
				k = len(pos)
			}
			for _, i := range rng.Perm(len(pos))[:k] {
				asked = append(asked, pos[i])
			}
			run("set", asked)
		}
	}
	if made < n {
		e.fails.add("rc_harness", "only %d of %d trees generated", made, n)
	}
}

func TestVerifStandin_C18_ExoticRandom(t *testing.T) {
	e := newC18cEnv("c18_exotic_random", append([]string{"rc_create_proof_fails", "rc_pruned_branch_differs_from_full_tree"}, c18cKnown...)...)
	defer e.finish(t, true)
	n := 400
	if vhThorough() {
		n = 60000
	}
	g := &c18cGen{rng: rand.New(rand.NewSource(c18Seed()))}
	g.many(e, n, 0, 3, vhThorough())
}
