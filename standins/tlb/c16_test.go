//go:build verif

package tlb

// Bounded stand-in for C16 (labelled bounded, never counted as proved).
// Stands in for: Message.Hash / Transaction.Hash / Transaction.SourceBoc, whose value is produced inside the reflective
// decoder (hash captured before field decoding, with or without the decoder's caching hasher) and for the normalised
// external-in hash, none of which the prover follows.
//
// Oracle: the independent representation-hash implementation of refhash_helper_test.go (c18Hasher), cross-checked with
// boc.Cell.Hash256; message cells and canonical re-encodings are written bit by bit from block.tlb:
//
//	message$_ info:CommonMsgInfo init:(Maybe (Either StateInit ^StateInit)) body:(Either X ^X)
//	ext_in_msg_info$10 src:MsgAddressExt dest:MsgAddressInt import_fee:Grams
//	normalised external-in message (TEP-467): ext_in_msg_info$10, src addr_none$00, dest unchanged, import_fee 0 (4 zero
//	bits), init nothing$0, body right$1 in a reference.
//
// Bound.
//   - RealData: every block under testdata, decoded with tlb.Unmarshal (no hasher) and with NewDecoder() (hasher); every
//     Message and Transaction value found anywhere in the decoded Block (account blocks, in/out messages of transactions)
//     and in the decoded InMsgDescr / OutMsgDescr dictionaries (quick: with the hasher decoder only; thorough: both).
//     The same record is embedded many times; all copies are looked up, the full comparison is made for the first 2
//     copies per decoder (thorough: all).
//     For each: the reported hash is the hash of a cell of the block (reference hasher over all cells of the block), that
//     cell carries the same record (transaction: tag, account, lt read from the bits; message: decodes to an equal value),
//     the library hash of that cell agrees, both decoders agree, SourceBoc parses back to one root with that hash, and
//     every external-in message has the normalised hash of the hand-built canonical cell.
//   - Synthetic: 300 (thorough 3000) hand-encoded messages (internal / external-in / external-out; src, dest std / var /
//     anycast; init absent / inline / ref; body inline / ref with 0..2 refs), alone and as a reference of a parent cell;
//     for each external-in base (dest, body) 12 variants differing only in src, import_fee, init and body placement must
//     share one normalised hash = hash of the canonical cell, and differ from the hash after a one-bit change of dest or
//     body; 40 (thorough 400) generated transactions (C03 value generator + Marshal).

import (
	"fmt"
	"math/big"
	"math/rand"
	"os"
	"path/filepath"
	"reflect"
	"runtime/debug"
	"sort"
	"strings"
	"testing"

	"github.com/tonkeeper/tongo/boc"
)

func c16RefHash(h *c18Hasher, c *boc.Cell) (Bits256, error) {
	hd, err := h.hashDepth(c, 3)
	return Bits256(hd.hash), err
}

func c16LibHash(c *boc.Cell) (out Bits256, err error) {
	if p := vhSafe(func() {
		var h [32]byte
		h, err = c.Hash256()
		out = Bits256(h)
	}); p != "" {
		err = fmt.Errorf("panic: %s", p)
	}
	return
}

var (
	c16MsgType = reflect.TypeOf(Message{})
	c16TxType  = reflect.TypeOf(Transaction{})
)

// c16Collect finds every Message and Transaction value reachable from v (addressable), including through the unexported
// slices of the dictionaries.
func c16Collect(v reflect.Value, msgs *[]*Message, txs *[]*Transaction, depth int) {
	if depth > 60 {
		return
	}
	v = vhOpen(v)
	t := v.Type()
	switch {
	case t == c16MsgType:
		if v.CanAddr() {
			*msgs = append(*msgs, v.Addr().Interface().(*Message))
		}
		return
	case t == c16TxType:
		if v.CanAddr() {
			tx := v.Addr().Interface().(*Transaction)
			*txs = append(*txs, tx)
			// the messages of the transaction
			c16Collect(v.FieldByName("Msgs"), msgs, txs, depth+1)
		}
		return
	case t == vhCellType || t == vhBitsType || t == vhBigIntType:
		return
	}
	switch t.Kind() {
	case reflect.Pointer:
		if !v.IsNil() {
			c16Collect(v.Elem(), msgs, txs, depth+1)
		}
	case reflect.Struct:
		// only the live parts: the selected constructor of a union, the value of a present optional, the chosen side
		if f, ok := t.FieldByName("SumType"); ok && f.Type == c03SumTypeType {
			if name := v.FieldByName("SumType").String(); name != "" {
				if sel := v.FieldByName(name); sel.IsValid() {
					c16Collect(sel, msgs, txs, depth+1)
				}
			}
			return
		}
		switch {
		case c03Generic(t, "Maybe"):
			if v.Field(0).Bool() {
				c16Collect(v.Field(1), msgs, txs, depth+1)
			}
			return
		case c03Generic(t, "Either"):
			if v.Field(0).Bool() {
				c16Collect(v.Field(2), msgs, txs, depth+1)
			} else {
				c16Collect(v.Field(1), msgs, txs, depth+1)
			}
			return
		}
		for i := 0; i < t.NumField(); i++ {
			ft := t.Field(i).Type
			if ft.Kind() == reflect.Func {
				continue
			}
			c16Collect(v.Field(i), msgs, txs, depth+1)
		}
	case reflect.Slice:
		if t.Elem().Kind() == reflect.Uint8 {
			return
		}
		for i := 0; i < v.Len(); i++ {
			c16Collect(v.Index(i), msgs, txs, depth+1)
		}
	}
}

func c16AllCells(root *boc.Cell) []*boc.Cell {
	var out []*boc.Cell
	seen := map[*boc.Cell]bool{}
	var walk func(c *boc.Cell)
	walk = func(c *boc.Cell) {
		if c == nil || seen[c] {
			return
		}
		seen[c] = true
		out = append(out, c)
		for _, r := range c.Refs() {
			walk(r)
		}
	}
	walk(root)
	return out
}

func c16Reset(cells []*boc.Cell) {
	for _, c := range cells {
		c.ResetCounters()
	}
}

// ---- hand encoders (block.tlb) ----

func c16GramsBits(v *big.Int) string {
	n := (v.BitLen() + 7) / 8
	return vhU64Bits(uint64(n), 4) + vhUintBits(v, 8*n)
}

type c16Addr struct {
	bits string
	kind string
}

func c16AddrNone() c16Addr { return c16Addr{"00", "none"} }

func c16AddrExtern(rng *rand.Rand, n int) c16Addr {
	return c16Addr{"01" + vhU64Bits(uint64(n), 9) + vhRandBits(rng, n), "extern"}
}

func c16AnycastBits(rng *rand.Rand, anycast bool) string {
	if !anycast {
		return "0"
	}
	d := 1 + rng.Intn(30)
	return "1" + vhU64Bits(uint64(d), 5) + vhRandBits(rng, d)
}

func c16AddrStd(rng *rand.Rand, anycast bool) c16Addr {
	k := "std"
	if anycast {
		k = "std+anycast"
	}
	return c16Addr{"10" + c16AnycastBits(rng, anycast) + vhI64Bits(int64(int8(rng.Intn(256))), 8) + vhRandBits(rng, 256), k}
}

func c16AddrVar(rng *rand.Rand, anycast bool) c16Addr {
	n := []int{1, 8, 255, 256, 300}[rng.Intn(5)]
	return c16Addr{"11" + c16AnycastBits(rng, anycast) + vhU64Bits(uint64(n), 9) + vhI64Bits(int64(int32(rng.Uint32())), 32) + vhRandBits(rng, n), "var"}
}

type c16Body struct {
	bits string
	refs []*boc.Cell
}

func (b c16Body) cell() *boc.Cell {
	c, err := vhCellFromBits(b.bits, b.refs...)
	if err != nil {
		panic(err)
	}
	return c
}

type c16Init struct {
	bits string
	refs []*boc.Cell
}

// c16RandInit: _ split_depth:(Maybe (## 5)) special:(Maybe TickTock) code:(Maybe ^Cell) data:(Maybe ^Cell) library:(HashmapE 256 SimpleLib)
func c16RandInit(rng *rand.Rand) c16Init {
	var in c16Init
	if rng.Intn(4) == 0 {
		in.bits += "1" + vhU64Bits(uint64(rng.Intn(32)), 5)
	} else {
		in.bits += "0"
	}
	if rng.Intn(4) == 0 {
		in.bits += "1" + vhRandBits(rng, 2)
	} else {
		in.bits += "0"
	}
	for i := 0; i < 2; i++ {
		if rng.Intn(3) != 0 {
			in.bits += "1"
			in.refs = append(in.refs, vhRandCell(rng, 1))
		} else {
			in.bits += "0"
		}
	}
	in.bits += "0"
	return in
}

// c16Message assembles message$_ from the info bits, the optional init (inline or in a reference) and the body.
func c16Message(info string, init *c16Init, initRef bool, body c16Body, bodyRef bool) (*boc.Cell, error) {
	bits := info
	var refs []*boc.Cell
	switch {
	case init == nil:
		bits += "0"
	case initRef:
		bits += "11"
		ic, err := vhCellFromBits(init.bits, init.refs...)
		if err != nil {
			return nil, err
		}
		refs = append(refs, ic)
	default:
		bits += "10" + init.bits
		refs = append(refs, init.refs...)
	}
	if bodyRef {
		bits += "1"
		refs = append(refs, body.cell())
	} else {
		bits += "0" + body.bits
		refs = append(refs, body.refs...)
	}
	if len(bits) > 1023 || len(refs) > 4 {
		return nil, fmt.Errorf("does not fit one cell")
	}
	return vhCellFromBits(bits, refs...)
}

func c16ExtInInfo(src, dest c16Addr, fee *big.Int) string {
	return "10" + src.bits + dest.bits + c16GramsBits(fee)
}

// c16ExtInInfoPadded: the same record with the import fee stored NON-minimally — the VarUInteger 16 length is pad bytes
// larger than needed and the value carries pad leading zero bytes. Decoders accept it (the value is the same); its cell
// is not the canonical encoding, so a normalised hash must not be taken from it.
func c16ExtInInfoPadded(src, dest c16Addr, fee *big.Int, pad int) string {
	n := (fee.BitLen()+7)/8 + pad
	return "10" + src.bits + dest.bits + vhU64Bits(uint64(n), 4) + vhUintBits(fee, 8*n)
}

func c16Canonical(dest c16Addr, body c16Body) *boc.Cell {
	c, err := vhCellFromBits("10"+"00"+dest.bits+"0000"+"0"+"1", body.cell())
	if err != nil {
		panic(err)
	}
	return c
}

func c16RandBody(rng *rand.Rand, maxRefs int) c16Body {
	b := c16Body{bits: vhRandBits(rng, []int{0, 1, 8, 32, 77, 200}[rng.Intn(6)])}
	for i := rng.Intn(maxRefs + 1); i > 0; i-- {
		b.refs = append(b.refs, vhRandCell(rng, 1))
	}
	return b
}

func c16RandFee(rng *rand.Rand) *big.Int {
	switch rng.Intn(4) {
	case 0:
		return big.NewInt(0)
	case 1:
		return big.NewInt(1)
	case 2:
		return big.NewInt(int64(rng.Intn(1 << 30)))
	}
	return vhRandBig(rng, 8*(1+rng.Intn(15)))
}

// decodeBoth decodes the message cell with and without a decoder hasher.
func c16DecodeMessage(c *boc.Cell, withHasher bool) (m Message, err error) {
	for _, x := range c16AllCells(c) {
		x.ResetCounters()
	}
	if p := vhSafe(func() {
		if withHasher {
			err = NewDecoder().Unmarshal(c, &m)
		} else {
			err = Unmarshal(c, &m)
		}
	}); p != "" {
		err = fmt.Errorf("panic: %s", p)
	}
	return
}

// c16ErrCause: one sub-test per kind of unexpected decode error.
func c16ErrCause(err error) string {
	msg := "nil"
	if err != nil {
		msg = err.Error()
	}
	if len(msg) > 40 {
		msg = msg[:40]
	}
	return "rc_unexpected_decode_error/" + strings.Trim(strings.Map(func(r rune) rune {
		if (r >= 'a' && r <= 'z') || (r >= 'A' && r <= 'Z') || (r >= '0' && r <= '9') {
			return r
		}
		return '_'
	}, msg), "_")
}

func c16Hex(h Bits256) string { return fmt.Sprintf("%x", h[:]) }

// ---- real data ----

func TestVerifStandin_C16_Hashes(t *testing.T) {
	stat := newVhStat("c16_hashes_realdata")
	defer stat.print()
	fails := newVhFailures("rc_tx_hash_is_not_the_source_cell", "rc_msg_hash_is_not_the_source_cell", "rc_library_hash_differs_from_reference",
		"rc_hasher_and_plain_decoder_disagree", "rc_source_boc", "rc_normalized_hash_real_ext_in", "rc_hash_true_mutates_message")
	defer debug.SetGCPercent(debug.SetGCPercent(400))
	files, _ := filepath.Glob("testdata/block-*/block.bin")
	sort.Strings(files)
	if len(files) == 0 {
		t.Fatalf("no blocks under testdata")
	}
	counts := map[string]int{}
	for _, file := range files {
		data, err := os.ReadFile(file)
		if err != nil {
			t.Fatal(err)
		}
		roots, err := boc.DeserializeBoc(data)
		if err != nil || len(roots) != 1 {
			t.Fatalf("%s: %v", file, err)
		}
		cells := c16AllCells(roots[0])
		ref := newC18Hasher()
		index := map[Bits256]*boc.Cell{}
		for _, c := range cells {
			if h, err := c16RefHash(ref, c); err == nil {
				index[h] = c
			}
		}
		txHashByKey := [2]map[string]Bits256{{}, {}}
		freshByHash := [2]map[Bits256]Message{{}, {}}
		txChecked := [2]map[Bits256]bool{{}, {}}
		msgSeen := [2]map[Bits256]int{{}, {}}
		msgCount := [2]int{}
		for mode := 0; mode < 2; mode++ {
			withHasher := mode == 1
			modeName := []string{"tlb.Unmarshal", "NewDecoder().Unmarshal"}[mode]
			dec := func(c *boc.Cell, o any) (err error) {
				if p := vhSafe(func() {
					if withHasher {
						err = NewDecoder().Unmarshal(c, o)
					} else {
						err = Unmarshal(c, o)
					}
				}); p != "" {
					err = fmt.Errorf("panic: %s", p)
				}
				return
			}
			c16Reset(cells)
			var block Block
			if err := dec(roots[0], &block); err != nil {
				fails.add("rc_block_decode", "%s: %s(Block): %v", file, modeName, err)
				continue
			}
			var msgs []*Message
			var txs []*Transaction
			c16Collect(reflect.ValueOf(&block).Elem(), &msgs, &txs, 0)
			// the records of the in / out message descriptors (they embed messages and transactions once more)
			var inDescr HashmapAugE[Bits256, InMsg, ImportFees]
			var outDescr HashmapAugE[Bits256, OutMsg, CurrencyCollection]
			if withHasher || vhThorough() {
				inCell, outCell := block.Extra.InMsgDescrCell, block.Extra.OutMsgDescrCell
				c16Reset(cells)
				inCell.ResetCounters()
				if err := dec(&inCell, &inDescr); err != nil {
					fails.add("rc_descr_decode", "%s: %s(InMsgDescr): %v", file, modeName, err)
				}
				c16Reset(cells)
				outCell.ResetCounters()
				if err := dec(&outCell, &outDescr); err != nil {
					fails.add("rc_descr_decode", "%s: %s(OutMsgDescr): %v", file, modeName, err)
				}
				nm, nt := len(msgs), len(txs)
				c16Collect(reflect.ValueOf(&inDescr).Elem(), &msgs, &txs, 0)
				c16Collect(reflect.ValueOf(&outDescr).Elem(), &msgs, &txs, 0)
				counts["descr.messages"] += len(msgs) - nm
				counts["descr.transactions"] += len(txs) - nt
			}
			c16Reset(cells)

			for _, tx := range txs {
				h := tx.Hash()
				key := fmt.Sprintf("%x/%d", tx.AccountAddr[:], tx.Lt)
				where := fmt.Sprintf("%s %s transaction account %x lt %d", file, modeName, tx.AccountAddr[:], tx.Lt)
				stat.add(fmt.Sprintf("tx|%d|%s|%s", mode, file, key))
				counts["transactions"]++
				if prev, ok := txHashByKey[mode][key]; ok && prev != h {
					fails.add("rc_tx_hash_is_not_the_source_cell", "%s: two decoded copies report different hashes %s / %s", where, c16Hex(prev), c16Hex(h))
				}
				txHashByKey[mode][key] = h
				src := index[h]
				if src == nil {
					fails.add("rc_tx_hash_is_not_the_source_cell", "%s: reported hash %s is not the hash of any cell of the block", where, c16Hex(h))
					continue
				}
				bits := vhCellBits(src)
				wantPrefix := "0111" + vhBytesBits(tx.AccountAddr[:]) + vhU64Bits(tx.Lt, 64)
				if !strings.HasPrefix(bits, wantPrefix) {
					fails.add("rc_tx_hash_is_not_the_source_cell", "%s: the cell with the reported hash %s is not this transaction (bits %s...)", where, c16Hex(h), vhBin2Hex(bits[:c16Min(len(bits), 330)]))
				}
				if lh, err := c16LibHash(src); err != nil || lh != h {
					fails.add("rc_library_hash_differs_from_reference", "%s: cell.Hash256 = %s (%v), reference %s", where, c16Hex(lh), err, c16Hex(h))
				}
				// SourceBoc (serialising is the expensive part: once per distinct transaction and decoder)
				if txChecked[mode][h] {
					continue
				}
				txChecked[mode][h] = true
				var sb []byte
				var sbErr error
				if p := vhSafe(func() { sb, sbErr = tx.SourceBoc() }); p != "" {
					sbErr = fmt.Errorf("panic: %s", p)
				}
				if sbErr != nil {
					fails.add("rc_source_boc", "%s: SourceBoc: %v", where, sbErr)
					continue
				}
				back, err := boc.DeserializeBoc(sb)
				if err != nil || len(back) != 1 {
					fails.add("rc_source_boc", "%s: SourceBoc does not parse to one root: %v (%d roots)", where, err, len(back))
					continue
				}
				bh, err1 := c16RefHash(newC18Hasher(), back[0])
				lh, err2 := c16LibHash(back[0])
				if err1 != nil || err2 != nil || bh != h || lh != h {
					fails.add("rc_source_boc", "%s: SourceBoc root hashes to %s (reference, %v) / %s (library, %v), transaction hash %s", where, c16Hex(bh), err1, c16Hex(lh), err2, c16Hex(h))
				}
			}

			for _, m := range msgs {
				h := m.Hash(false)
				where := fmt.Sprintf("%s %s message %s hash %s", file, modeName, m.Info.SumType, c16Hex(h))
				stat.add(fmt.Sprintf("msg|%d|%s|%s", mode, file, c16Hex(h)))
				counts["messages."+string(m.Info.SumType)]++
				msgCount[mode]++
				src := index[h]
				if src == nil {
					fails.add("rc_msg_hash_is_not_the_source_cell", "%s: reported hash is not the hash of any cell of the block", where)
					continue
				}
				// the same message is embedded many times (transaction, in/out descriptors): the full comparison is made
				// for the first 2 (thorough: all) decoded copies, the later ones are only looked up
				msgSeen[mode][h]++
				if msgSeen[mode][h] > 2 && !vhThorough() {
					continue
				}
				if lh, err := c16LibHash(src); err != nil || lh != h {
					fails.add("rc_library_hash_differs_from_reference", "%s: cell.Hash256 = %s (%v)", where, c16Hex(lh), err)
				}
				fresh, cached := freshByHash[mode][h]
				var err error
				if !cached {
					fresh, err = c16DecodeMessage(src, !withHasher)
					if err == nil {
						freshByHash[mode][h] = fresh
					}
				}
				if err != nil {
					fails.add("rc_msg_hash_is_not_the_source_cell", "%s: the cell with the reported hash does not decode as a message: %v", where, err)
					continue
				}
				if d := vhDiff(*m, fresh); d != "" {
					fails.add("rc_msg_hash_is_not_the_source_cell", "%s: the cell with the reported hash decodes to a different message: %s", where, d)
				}
				if fresh.Hash(false) != h {
					fails.add("rc_hasher_and_plain_decoder_disagree", "%s: the other decoder reports %s for the same cell", where, c16Hex(fresh.Hash(false)))
				}
				if m.Info.SumType != "ExtInMsgInfo" {
					if m.Hash(true) != h {
						fails.add("rc_normalized_hash_real_ext_in", "%s: Hash(true) %s differs from Hash(false) for a message that is not external-in", where, c16Hex(m.Hash(true)))
					}
					continue
				}
				// canonical re-encoding of a real external-in message (dest addr_std without anycast only)
				dest := m.Info.ExtInMsgInfo.Dest
				if dest.SumType != "AddrStd" || dest.AddrStd.Anycast.Exists {
					counts["ext_in.skipped_non_std_dest"]++
					continue
				}
				counts["ext_in.normalized_checked"]++
				before := vhDump(*m)
				destBits := "10" + "0" + vhI64Bits(int64(dest.AddrStd.WorkchainId), 8) + vhBytesBits(dest.AddrStd.Address[:])
				bodyCell := boc.Cell(m.Body.Value)
				bbits, brefs := vhCellRemaining(&bodyCell)
				canon := c16Canonical(c16Addr{bits: destBits}, c16Body{bits: bbits, refs: brefs})
				want, err := c16RefHash(newC18Hasher(), canon)
				got := m.Hash(true)
				if err != nil || got != want {
					fails.add("rc_normalized_hash_real_ext_in", "%s: Hash(true) = %s, hash of the canonical re-encoding %s = %s (%v)", where, c16Hex(got), vhTree(canon), c16Hex(want), err)
				}
				if after := vhDump(*m); after != before {
					fails.add("rc_hash_true_mutates_message", "%s: the message value changed during Hash(true)", where)
				}
			}
		}
		if len(txHashByKey[0]) == 0 {
			t.Logf("%s: the block contains no transactions", file)
		}
		for k, h := range txHashByKey[0] {
			if h2, ok := txHashByKey[1][k]; !ok || h2 != h {
				fails.add("rc_hasher_and_plain_decoder_disagree", "%s transaction %s: tlb.Unmarshal reports %s, NewDecoder().Unmarshal %s (found %v)", file, k, c16Hex(h), c16Hex(h2), ok)
			}
		}
	}
	var keys []string
	for k := range counts {
		keys = append(keys, k)
	}
	sort.Strings(keys)
	for _, k := range keys {
		fmt.Printf("C16-REALDATA %s=%d\n", k, counts[k])
	}
	if counts["transactions"] == 0 || counts["messages.IntMsgInfo"] == 0 {
		fails.add("rc_no_records_found", "no transactions / messages found in the blocks under testdata")
	}
	fails.report(t)
}

// c16FirstDiff shows the first place where two dumps differ.
func c16FirstDiff(a, b string) string {
	i := 0
	for i < len(a) && i < len(b) && a[i] == b[i] {
		i++
	}
	lo := i - 60
	if lo < 0 {
		lo = 0
	}
	return fmt.Sprintf("before ...%s... after ...%s...", a[lo:c16Min(len(a), i+40)], b[lo:c16Min(len(b), i+40)])
}

func c16Min(a, b int) int {
	if a < b {
		return a
	}
	return b
}

// ---- synthetic ----

func TestVerifStandin_C16_HashesSynthetic(t *testing.T) {
	rng := vhRng()
	stat := newVhStat("c16_hashes_synthetic")
	defer stat.print()
	fails := newVhFailures("rc_msg_hash_differs_from_cell_hash", "rc_hasher_and_plain_decoder_disagree", "rc_normalized_hash_not_invariant",
		"rc_normalized_hash_differs_from_canonical", "rc_normalized_hash_collision", "rc_hash_true_strips_anycast_and_mutates_receiver",
		"rc_hash_true_mutates_message", "rc_hash_true_of_other_kinds", "rc_tx_hash_differs_from_cell_hash", "rc_source_boc", "rc_unexpected_decode_error")
	nMsgs, nBases, nTx := 300, 60, 40
	if vhThorough() {
		nMsgs, nBases, nTx = 3000, 600, 400
	}

	refHash := func(c *boc.Cell) Bits256 {
		h, err := c16RefHash(newC18Hasher(), c)
		if err != nil {
			t.Fatalf("reference hasher failed on a hand-built cell: %v (%s)", err, vhTree(c))
		}
		return h
	}

	// checkMessage decodes cell (alone and as a reference of a parent) with both decoders and compares Hash(false).
	checkMessage := func(cell *boc.Cell, kind string) (decoded []Message) {
		want := refHash(cell)
		if lh, err := c16LibHash(cell); err != nil || lh != want {
			fails.add("rc_library_hash_differs_from_reference", "message cell %s: cell.Hash256 %s (%v), reference %s", vhTree(cell), c16Hex(lh), err, c16Hex(want))
		}
		for mode := 0; mode < 2; mode++ {
			m, err := c16DecodeMessage(cell, mode == 1)
			if err != nil {
				fails.add(c16ErrCause(err), "%s message %s (hasher=%v): %v", kind, vhTree(cell), mode == 1, err)
				continue
			}
			if got := m.Hash(false); got != want {
				fails.add("rc_msg_hash_differs_from_cell_hash", "%s message %s (hasher=%v): Hash(false) = %s, cell hash %s", kind, vhTree(cell), mode == 1, c16Hex(got), c16Hex(want))
			}
			decoded = append(decoded, m)
			// as a child of another cell
			parent, _ := vhCellFromBits(vhRandBits(rng, 0), cell)
			cell.ResetCounters()
			var wrapped Ref[Message]
			var derr error
			if p := vhSafe(func() {
				if mode == 1 {
					derr = NewDecoder().Unmarshal(parent, &wrapped)
				} else {
					derr = Unmarshal(parent, &wrapped)
				}
			}); p != "" {
				derr = fmt.Errorf("panic: %s", p)
			}
			if derr != nil {
				fails.add(c16ErrCause(derr), "%s message as a reference %s: %v", kind, vhTree(parent), derr)
			} else if got := wrapped.Value.Hash(false); got != want {
				fails.add("rc_msg_hash_differs_from_cell_hash", "%s message as a reference of %s (hasher=%v): Hash(false) = %s, cell hash %s", kind, vhTree(parent), mode == 1, c16Hex(got), c16Hex(want))
			}
		}
		return
	}

	// 1. messages of every kind
	for i := 0; i < nMsgs; i++ {
		var info, kind string
		switch i % 3 {
		case 0:
			kind = "internal"
			src := []c16Addr{c16AddrNone(), c16AddrStd(rng, false), c16AddrVar(rng, false), c16AddrStd(rng, true)}[rng.Intn(4)]
			dest := []c16Addr{c16AddrStd(rng, false), c16AddrVar(rng, false), c16AddrStd(rng, true), c16AddrVar(rng, true)}[rng.Intn(4)]
			// the library's Grams is a uint64 (larger amounts are a decode error, C03's concern): amounts below 2^64
			g64 := func() string { return c16GramsBits(new(big.Int).Rsh(c16RandFee(rng), 56)) }
			info = "0" + vhRandBits(rng, 3) + src.bits + dest.bits + g64() + "0" + g64() + g64() + vhRandBits(rng, 64) + vhRandBits(rng, 32)
		case 1:
			kind = "external-in"
			src := []c16Addr{c16AddrNone(), c16AddrExtern(rng, rng.Intn(100))}[rng.Intn(2)]
			dest := []c16Addr{c16AddrStd(rng, false), c16AddrVar(rng, false), c16AddrStd(rng, true)}[rng.Intn(3)]
			info = c16ExtInInfo(src, dest, c16RandFee(rng))
		default:
			kind = "external-out"
			src := []c16Addr{c16AddrStd(rng, false), c16AddrVar(rng, false), c16AddrNone()}[rng.Intn(3)]
			dest := []c16Addr{c16AddrNone(), c16AddrExtern(rng, rng.Intn(100))}[rng.Intn(2)]
			info = "11" + src.bits + dest.bits + vhRandBits(rng, 64) + vhRandBits(rng, 32)
		}
		var init *c16Init
		initRef := false
		if r := rng.Intn(3); r > 0 {
			in := c16RandInit(rng)
			init, initRef = &in, r == 2
		}
		bodyRef := rng.Intn(2) == 0
		maxRefs := 2
		if init != nil && !initRef {
			maxRefs = 4 - len(init.refs)
			if maxRefs > 2 {
				maxRefs = 2
			}
		}
		body := c16RandBody(rng, maxRefs)
		cell, err := c16Message(info, init, initRef, body, bodyRef)
		if err != nil {
			body = c16Body{bits: vhRandBits(rng, 8)}
			if cell, err = c16Message(info, init, true, body, true); err != nil {
				t.Fatalf("cannot build message: %v", err)
			}
		}
		stat.add("msg|" + vhTree(cell))
		ms := checkMessage(cell, kind)
		for _, m := range ms {
			wantKind := map[string]SumType{"internal": "IntMsgInfo", "external-in": "ExtInMsgInfo", "external-out": "ExtOutMsgInfo"}[kind]
			if m.Info.SumType != wantKind {
				fails.add("rc_message_kind_misdecoded", "%s message %s decoded as %s", kind, vhTree(cell), m.Info.SumType)
			}
			if kind != "external-in" {
				m := m
				if m.Hash(true) != m.Hash(false) {
					fails.add("rc_hash_true_of_other_kinds", "%s message %s: Hash(true) %s != Hash(false) %s", kind, vhTree(cell), c16Hex(m.Hash(true)), c16Hex(m.Hash(false)))
				}
			}
		}
	}

	// 2. equivalence classes of the normalised hash
	for b := 0; b < nBases; b++ {
		anycast := b%10 == 9
		var dest c16Addr
		if b%4 == 3 && !anycast {
			dest = c16AddrVar(rng, false)
		} else {
			dest = c16AddrStd(rng, anycast)
		}
		body := c16RandBody(rng, 2)
		canon := c16Canonical(dest, body)
		want := refHash(canon)
		cause := "rc_normalized_hash_differs_from_canonical"
		if anycast {
			// the convention keeps dest as it is; a library that drops the anycast prefix reports here
			cause = "rc_hash_true_strips_anycast_and_mutates_receiver"
		}
		var first *Bits256
		for v := 0; v < 24; v++ {
			src := c16AddrNone()
			if v%2 == 1 {
				src = c16AddrExtern(rng, []int{0, 1, 9, 64, 200}[rng.Intn(5)])
			}
			fee := []*big.Int{big.NewInt(0), big.NewInt(1), big.NewInt(255), big.NewInt(256), vhRandBig(rng, 64), vhRandBig(rng, 120)}[(v/2)%6]
			var init *c16Init
			initRef := false
			switch v % 3 {
			case 1:
				in := c16RandInit(rng)
				init = &in
			case 2:
				in := c16RandInit(rng)
				init, initRef = &in, true
			}
			bodyRef := v%4 >= 2
			info := c16ExtInInfo(src, dest, fee)
			if v >= 12 {
				// second half: the fee is stored with a non-minimal length (zero fee in v = 12, 18: together with no
				// source, no init and a body reference everything but the ENCODING already looks normalised)
				if v%6 == 0 {
					fee = big.NewInt(0)
				}
				if room := 15 - (fee.BitLen()+7)/8; room > 0 {
					info = c16ExtInInfoPadded(src, dest, fee, 1+rng.Intn(room))
				}
			}
			cell, err := c16Message(info, init, initRef, body, bodyRef)
			if err != nil {
				// inline does not fit: use the reference forms
				if cell, err = c16Message(info, init, true, body, true); err != nil {
					t.Fatalf("cannot build message: %v", err)
				}
			}
			stat.add("norm|" + vhTree(cell))
			for mode := 0; mode < 2; mode++ {
				m, err := c16DecodeMessage(cell, mode == 1)
				if err != nil {
					fails.add(c16ErrCause(err), "external-in message %s: %v", vhTree(cell), err)
					continue
				}
				before := vhDump(m)
				plainBefore := m.Hash(false)
				got := m.Hash(true)
				if got != want {
					fails.add(cause, "message %s (dest %s): Hash(true) = %s, canonical cell %s hashes to %s", vhTree(cell), dest.kind, c16Hex(got), vhTree(canon), c16Hex(want))
				}
				if first == nil {
					g := got
					first = &g
				} else if *first != got {
					fails.add("rc_normalized_hash_not_invariant", "message %s: Hash(true) = %s, another message with the same dest and body gave %s", vhTree(cell), c16Hex(got), c16Hex(*first))
				}
				if after := vhDump(m); after != before || m.Hash(false) != plainBefore {
					// strict for every message: the dropped anycast prefix (a recorded finding) is reported by the hash
					// comparison above, never here, so a Hash(true) that writes to its receiver is always a fresh violation
					mcause := "rc_hash_true_mutates_message"
					fails.add(mcause, "message %s (dest %s): the decoded value changed during Hash(true): %s", vhTree(cell), dest.kind, c16FirstDiff(before, after))
				}
				if again := m.Hash(true); again != got {
					fails.add("rc_normalized_hash_not_invariant", "message %s: second call of Hash(true) gives %s, first %s", vhTree(cell), c16Hex(again), c16Hex(got))
				}
			}
		}
		// a different dest or body must change the normalised hash
		if first != nil {
			flip := func(s string, i int) string {
				b := []byte(s)
				b[i] ^= 1
				return string(b)
			}
			span := 256
			if dest.kind == "var" {
				span = 1
			}
			dest2 := c16Addr{bits: flip(dest.bits, len(dest.bits)-1-rng.Intn(span)), kind: dest.kind}
			body2 := body
			if len(body.bits) > 0 {
				body2.bits = flip(body.bits, rng.Intn(len(body.bits)))
			} else {
				body2.bits = "1"
			}
			body3 := c16Body{bits: body.bits, refs: append(append([]*boc.Cell{}, body.refs...), boc.NewCell())}
			for i, alt := range []struct {
				d c16Addr
				b c16Body
			}{{dest2, body}, {dest, body2}, {dest, body3}} {
				cell, err := c16Message(c16ExtInInfo(c16AddrNone(), alt.d, big.NewInt(0)), nil, false, alt.b, true)
				if err != nil {
					continue
				}
				stat.add("normalt|" + vhTree(cell))
				m, err := c16DecodeMessage(cell, i%2 == 0)
				if err != nil {
					fails.add(c16ErrCause(err), "external-in message %s: %v", vhTree(cell), err)
					continue
				}
				if m.Hash(true) == *first {
					fails.add("rc_normalized_hash_collision", "message %s has the same normalised hash %s as a message with another %s", vhTree(cell), c16Hex(*first), []string{"dest", "body bit", "body ref"}[i])
				}
			}
			if anycast {
				// same address without the anycast prefix: a different destination, hence a different hash
				plain := c16Addr{bits: "10" + "0" + dest.bits[len(dest.bits)-264:], kind: "std"}
				cell, err := c16Message(c16ExtInInfo(c16AddrNone(), plain, big.NewInt(0)), nil, false, body, true)
				if err == nil {
					stat.add("normalt|" + vhTree(cell))
					if m, err := c16DecodeMessage(cell, false); err == nil && m.Hash(true) == *first {
						fails.add("rc_hash_true_strips_anycast_and_mutates_receiver", "message %s (dest without anycast) has the same normalised hash %s as the message whose dest carries an anycast prefix (%s)", vhTree(cell), c16Hex(*first), vhBin2Hex(dest.bits))
					}
				}
			}
		}
	}

	// 3. generated transactions
	g := newC03Gen(rng)
	made := 0
	for try := 0; try < nTx*5 && made < nTx; try++ {
		v := reflect.New(c16TxType).Elem()
		cell := boc.NewCell()
		var err error
		if p := vhSafe(func() {
			g.pending = g.pending[:0]
			g.fill(v, "", 0)
			err = Marshal(cell, v.Interface())
		}); p != "" || err != nil {
			continue
		}
		g.commit()
		made++
		stat.add("tx|" + vhHash(cell))
		want := refHash(cell)
		for mode := 0; mode < 2; mode++ {
			for _, x := range c16AllCells(cell) {
				x.ResetCounters()
			}
			var tx Transaction
			var derr error
			if p := vhSafe(func() {
				if mode == 1 {
					derr = NewDecoder().Unmarshal(cell, &tx)
				} else {
					derr = Unmarshal(cell, &tx)
				}
			}); p != "" {
				derr = fmt.Errorf("panic: %s", p)
			}
			if derr != nil {
				fails.add(c16ErrCause(derr), "generated transaction (hasher=%v): %v: %s", mode == 1, derr, vhTree(cell))
				continue
			}
			if tx.Hash() != want {
				fails.add("rc_tx_hash_differs_from_cell_hash", "generated transaction (hasher=%v): Hash() = %s, cell hash %s: %s", mode == 1, c16Hex(tx.Hash()), c16Hex(want), vhTree(cell))
			}
			var sb []byte
			var sbErr error
			if p := vhSafe(func() { sb, sbErr = tx.SourceBoc() }); p != "" {
				sbErr = fmt.Errorf("panic: %s", p)
			}
			if sbErr != nil {
				fails.add("rc_source_boc", "generated transaction: SourceBoc: %v: %s", sbErr, vhTree(cell))
				continue
			}
			back, err := boc.DeserializeBoc(sb)
			if err != nil || len(back) != 1 {
				fails.add("rc_source_boc", "generated transaction: SourceBoc %x does not parse to one root: %v", sb, err)
				continue
			}
			if bh := refHash(back[0]); bh != want {
				fails.add("rc_source_boc", "generated transaction: SourceBoc root hashes to %s, transaction hash %s: %s", c16Hex(bh), c16Hex(want), vhTree(cell))
			}
		}
		// a zero Transaction value was never decoded: SourceBoc must say so
		var zero Transaction
		if _, err := zero.SourceBoc(); err == nil {
			fails.add("rc_source_boc", "SourceBoc of a transaction that was not decoded returned no error")
		}
	}
	if made == 0 {
		fails.add("rc_no_records_found", "no transaction could be generated")
	}
	fails.report(t)
}
