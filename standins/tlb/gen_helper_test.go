//go:build verif

package tlb

// Reflective, choice-coverage driven value generator for TL-B types (shared by the C03 and C04 stand-ins).
// See the header of c03_test.go for the bound it implements.

import (
	"math/big"
	"math/rand"
	"reflect"
	"regexp"
	"sort"
	"strconv"
	"strings"

	"github.com/tonkeeper/tongo/boc"
)

var c03IntName = regexp.MustCompile(`^(Uint|Int|VarUInteger|Bits)(\d+)$`)

// c03Named parses the generated type names Uint5 / Int64 / VarUInteger16 / Bits256.
func c03Named(t reflect.Type) (family string, n int, ok bool) {
	if t.PkgPath() != reflect.TypeOf(Magic(0)).PkgPath() {
		return "", 0, false
	}
	m := c03IntName.FindStringSubmatch(t.Name())
	if m == nil {
		return "", 0, false
	}
	n, _ = strconv.Atoi(m[2])
	return m[1], n, true
}

func c03KindWidth(k reflect.Kind) (signed bool, w int, ok bool) {
	switch k {
	case reflect.Uint8:
		return false, 8, true
	case reflect.Uint16:
		return false, 16, true
	case reflect.Uint32:
		return false, 32, true
	case reflect.Uint64:
		return false, 64, true
	case reflect.Int8:
		return true, 8, true
	case reflect.Int16:
		return true, 16, true
	case reflect.Int32:
		return true, 32, true
	case reflect.Int64:
		return true, 64, true
	}
	return false, 0, false
}

// c03IntBoundaries: boundary values of an n-bit integer (as big.Int), deduplicated.
func c03IntBoundaries(rng *rand.Rand, signed bool, n int, nrand int) []*big.Int {
	var out []*big.Int
	seen := map[string]bool{}
	add := func(v *big.Int) {
		lo, hi := big.NewInt(0), new(big.Int).Sub(vhPow2(n), big.NewInt(1))
		if signed {
			lo = new(big.Int).Neg(vhPow2(n - 1))
			hi = new(big.Int).Sub(vhPow2(n-1), big.NewInt(1))
		}
		if v.Cmp(lo) < 0 || v.Cmp(hi) > 0 || seen[v.String()] {
			return
		}
		seen[v.String()] = true
		out = append(out, v)
	}
	add(big.NewInt(0))
	add(big.NewInt(1))
	alt := new(big.Int)
	for i := 0; i < n; i += 2 {
		alt.SetBit(alt, i, 1)
	}
	if signed {
		add(big.NewInt(-1))
		add(new(big.Int).Neg(vhPow2(n - 1)))                                // min
		add(new(big.Int).Add(new(big.Int).Neg(vhPow2(n-1)), big.NewInt(1))) // min+1
		add(new(big.Int).Sub(vhPow2(n-1), big.NewInt(1)))                   // max
		add(new(big.Int).Sub(vhPow2(n-1), big.NewInt(2)))
		add(new(big.Int).Neg(new(big.Int).Mod(alt, vhPow2(n-1))))
		if n > 9 {
			add(new(big.Int).Neg(vhPow2(n - 9))) // negative with a run of ones above a byte boundary
			add(vhPow2(n - 2))
		}
	} else {
		add(new(big.Int).Sub(vhPow2(n), big.NewInt(1))) // max
		add(new(big.Int).Sub(vhPow2(n), big.NewInt(2)))
		add(vhPow2(n - 1)) // top bit only
		add(alt)
		if n > 9 {
			add(vhPow2(n - 8))
		}
	}
	for i := 0; i < nrand; i++ {
		v := vhRandBig(rng, n)
		if signed {
			v.Sub(v, vhPow2(n-1))
		}
		add(v)
	}
	return out
}

type c03Gen struct {
	rng      *rand.Rand
	cov      map[string]int
	tried    map[string]int
	pending  []string
	maxDepth int
	costMemo map[reflect.Type]int
	leafMemo map[reflect.Type][]reflect.Value
}

func newC03Gen(rng *rand.Rand) *c03Gen {
	return &c03Gen{rng: rng, cov: map[string]int{}, tried: map[string]int{}, maxDepth: 7,
		costMemo: map[reflect.Type]int{}, leafMemo: map[reflect.Type][]reflect.Value{}}
}

func (g *c03Gen) resetCoverage() {
	g.cov = map[string]int{}
	g.tried = map[string]int{}
}

// choose picks the least covered of n options of the choice point `key` (ties at random); past maxDepth it returns
// the cheap option so that generation terminates.
func (g *c03Gen) choose(key string, n, depth, cheap int) int {
	if n <= 1 {
		return 0
	}
	best := cheap
	if depth <= g.maxDepth {
		bestScore := int(^uint(0) >> 1)
		start := g.rng.Intn(n)
		for j := 0; j < n; j++ {
			i := (start + j) % n
			k := key + "#" + strconv.Itoa(i)
			score := g.tried[k] // uniform rotation over the options, whatever their outcome
			if score < bestScore {
				bestScore, best = score, i
			}
		}
	}
	k := key + "#" + strconv.Itoa(best)
	g.tried[k]++
	g.pending = append(g.pending, k)
	return best
}

// commit marks the choices of the value just generated as covered; returns how many were new.
func (g *c03Gen) commit() int {
	fresh := 0
	for _, k := range g.pending {
		if g.cov[k] == 0 {
			fresh++
		}
		g.cov[k]++
	}
	g.pending = g.pending[:0]
	return fresh
}

var (
	c03MagicType    = reflect.TypeOf(Magic(0))
	c03SumTypeType  = reflect.TypeOf(SumType(""))
	c03GramsType    = reflect.TypeOf(Grams(0))
	c03SCoinsType   = reflect.TypeOf(SignedCoins(0))
	c03UnaryType    = reflect.TypeOf(Unary(0))
	c03AnyType      = reflect.TypeOf(Any{})
	c03SnakeType    = reflect.TypeOf(SnakeData{})
	c03ChunkedType  = reflect.TypeOf(ChunkedData{})
	c03BytesType    = reflect.TypeOf(Bytes{})
	c03TextType     = reflect.TypeOf(Text(""))
	c03FLTextType   = reflect.TypeOf(FixedLengthText(""))
	c03AnycastType  = reflect.TypeOf(Anycast{})
	c03MsgAddrType  = reflect.TypeOf(MsgAddress{})
	c03AccStType    = reflect.TypeOf(AccountStatus(""))
	c03AccChgType   = reflect.TypeOf(AccStatusChange(""))
	c03SkipType     = reflect.TypeOf(ComputeSkipReason(""))
	c03SliceType    = reflect.TypeOf(VmCellSlice{})
	c03VmStackType  = reflect.TypeOf(VmStack{})
	c03VmContType   = reflect.TypeOf(VmCont{})
	c03VmTupleType  = reflect.TypeOf(VmStkTuple{})
	c03AddrWcType   = reflect.TypeOf(AddressWithWorkchain{})
	c03TlbPkg       = reflect.TypeOf(Magic(0)).PkgPath()
	c03NotImplTypes = map[reflect.Type]bool{c03ChunkedType: true, c03VmContType: true, c03VmTupleType: true}
)

func c03Generic(t reflect.Type, name string) bool {
	return t.PkgPath() == c03TlbPkg && strings.HasPrefix(t.Name(), name+"[")
}

func c03MagicFromTag(tag string) (Magic, bool) {
	tag = strings.TrimPrefix(tag, "!")
	if i := strings.IndexByte(tag, '#'); i >= 0 {
		v, err := strconv.ParseUint(tag[i+1:], 16, 32)
		return Magic(v), err == nil
	}
	if i := strings.IndexByte(tag, '$'); i >= 0 {
		v, err := strconv.ParseUint(tag[i+1:], 2, 32)
		return Magic(v), err == nil
	}
	return 0, false
}

func c03MkMsgAddresses(rng *rand.Rand) []MsgAddress {
	var out []MsgAddress
	out = append(out, MsgAddress{SumType: "AddrNone"})
	for _, n := range []int{0, 1, 8, 9, 256, 511, rng.Intn(512)} {
		bs := vhBitStringFromBits(vhRandBits(rng, n))
		out = append(out, MsgAddress{SumType: "AddrExtern", AddrExtern: &bs})
	}
	anycasts := []Maybe[Anycast]{{}, {Exists: true, Value: Anycast{Depth: 1, RewritePfx: 1}},
		{Exists: true, Value: Anycast{Depth: 30, RewritePfx: 1<<30 - 1}},
		{Exists: true, Value: Anycast{Depth: 17, RewritePfx: uint32(rng.Intn(1 << 17))}}}
	for i, wc := range []int8{0, -1, 127, -128, 1} {
		a := MsgAddress{SumType: "AddrStd"}
		a.AddrStd.Anycast = anycasts[i%len(anycasts)]
		a.AddrStd.WorkchainId = wc
		rng.Read(a.AddrStd.Address[:])
		if i == 2 {
			a.AddrStd.Address = Bits256{}
		}
		out = append(out, a)
	}
	for i, n := range []int{0, 1, 255, 256, 257, 511, rng.Intn(512)} {
		wc := []int32{0, -1, 1<<31 - 1, -1 << 31, 128, -129, 255}[i]
		a := MsgAddress{SumType: "AddrVar"}
		a.AddrVar = &struct {
			Anycast     Maybe[Anycast]
			AddrLen     Uint9
			WorkchainId int32
			Address     boc.BitString
		}{Anycast: anycasts[(i+1)%len(anycasts)], AddrLen: Uint9(n), WorkchainId: wc, Address: vhBitStringFromBits(vhRandBits(rng, n))}
		out = append(out, a)
	}
	return out
}

// leafValues returns the boundary values of a leaf type, nil when t is not a leaf.
func (g *c03Gen) leafValues(t reflect.Type) []reflect.Value {
	if v, ok := g.leafMemo[t]; ok {
		return v
	}
	rng := g.rng
	var out []reflect.Value
	mk := func(x any) { out = append(out, reflect.ValueOf(x).Convert(t)) }
	cacheable := true
	switch {
	case t == c03GramsType:
		for _, v := range []uint64{0, 1, 255, 256, 65535, 1 << 32, 1<<56 - 1, 1 << 56, 1<<63 - 1, 1 << 63, 1<<63 + 5, 1<<64 - 1, rng.Uint64(), rng.Uint64() >> 20} {
			mk(Grams(v))
		}
	case t == c03SCoinsType:
		for _, v := range []int64{0, 1, -1, -5, 255, -256, 1<<63 - 1, -1 << 63, -1<<63 + 1, rng.Int63(), -rng.Int63()} {
			mk(SignedCoins(v))
		}
	case t == c03UnaryType:
		for _, v := range []uint{0, 1, 7, 62, 63, 64, 100} {
			mk(Unary(v))
		}
	case t == c03AccStType:
		for _, v := range []AccountStatus{AccountNone, AccountUninit, AccountActive, AccountFrozen} {
			mk(v)
		}
	case t == c03AccChgType:
		for _, v := range []AccStatusChange{AccStatusChangeUnchanged, AccStatusChangeFrozen, AccStatusChangeDeleted} {
			mk(v)
		}
	case t == c03SkipType:
		for _, v := range []ComputeSkipReason{ComputeSkipReasonNoState, ComputeSkipReasonBadState, ComputeSkipReasonNoGas, ComputeSkipSuspended} {
			mk(v)
		}
	case t == c03FLTextType:
		b := make([]byte, 127)
		rng.Read(b)
		for _, v := range []string{"", "a", "hello world", string(b[:126]), string(b)} {
			mk(FixedLengthText(v))
		}
	case t == c03TextType:
		for _, v := range []string{"", "a", "hello world", "привет ✓ 𝄞", strings.Repeat("x", 127), strings.Repeat("y", 128), strings.Repeat("zв", 400)} {
			mk(Text(v))
		}
	case t == c03BytesType:
		for _, n := range []int{0, 1, 127, 128, 300} {
			b := make([]byte, n)
			rng.Read(b)
			mk(Bytes(b))
		}
	case t == c03SnakeType:
		for _, n := range []int{0, 1, 7, 8, 1022, 1023, 1024, 2500} {
			mk(SnakeData(vhBitStringFromBits(vhRandBits(rng, n))))
		}
	case t == vhCellType || t == c03AnyType:
		cacheable = false
		mk(*boc.NewCell())
		mk(*vhRandCell(rng, 0))
		mk(*vhRandCell(rng, 2))
		mk(*vhRandCell(rng, 3))
	case t == c03AnycastType:
		mk(Anycast{Depth: 1, RewritePfx: 0})
		mk(Anycast{Depth: 1, RewritePfx: 1})
		mk(Anycast{Depth: 30, RewritePfx: 1<<30 - 1})
		mk(Anycast{Depth: 30, RewritePfx: 1 << 29})
		d := 2 + rng.Intn(28)
		mk(Anycast{Depth: uint32(d), RewritePfx: uint32(rng.Intn(1 << d))})
	case t == c03MsgAddrType:
		for _, a := range c03MkMsgAddresses(rng) {
			mk(a)
		}
	case t == c03SliceType:
		cacheable = false
		for i := 0; i < 4; i++ {
			c := vhRandCell(rng, 2)
			nb, nr := c.BitSize(), c.RefsSize()
			s := VmCellSlice{cell: c, stBits: 0, endBits: nb, stRef: 0, endRef: nr}
			switch i {
			case 1:
				s.stBits, s.stRef = nb, nr
			case 2:
				s.endBits, s.endRef = 0, 0
			case 3:
				s.stBits = rng.Intn(nb + 1)
				s.endBits = s.stBits + rng.Intn(nb-s.stBits+1)
				s.stRef = rng.Intn(nr + 1)
				s.endRef = s.stRef + rng.Intn(nr-s.stRef+1)
			}
			mk(s)
		}
	case t == c03AddrWcType:
		for _, wc := range []int8{0, -1, 127, -128} {
			a := AddressWithWorkchain{Workchain: wc}
			rng.Read(a.Address[:])
			mk(a)
		}
	case t.Kind() == reflect.Bool:
		mk(false)
		mk(true)
	default:
		fam, n, named := c03Named(t)
		nr := 2
		switch {
		case named && fam == "VarUInteger":
			for l := 0; l < n; l++ {
				if l == 0 {
					out = append(out, reflect.ValueOf(*big.NewInt(0)).Convert(t))
					continue
				}
				lo := vhPow2(8 * (l - 1))
				hi := new(big.Int).Sub(vhPow2(8*l), big.NewInt(1))
				out = append(out, reflect.ValueOf(*lo).Convert(t))
				if hi.Cmp(lo) != 0 {
					out = append(out, reflect.ValueOf(*hi).Convert(t))
				}
			}
			if n > 1 {
				out = append(out, reflect.ValueOf(*vhRandBig(rng, 8*(1+rng.Intn(n-1)))).Convert(t))
			}
		case named && fam == "Bits":
			for i := 0; i < 4; i++ {
				v := reflect.New(t).Elem()
				for j := 0; j < v.Len(); j++ {
					var b byte
					switch i {
					case 1:
						b = 0xff
					case 2:
						b = byte(rng.Intn(256))
					case 3:
						if j%2 == 1 {
							b = 0xff
						}
					}
					v.Index(j).SetUint(uint64(b))
				}
				out = append(out, v)
			}
		case named && t.Kind() == reflect.Struct: // Uint128 ... Int257
			for _, b := range c03IntBoundaries(rng, fam == "Int", n, nr) {
				out = append(out, reflect.ValueOf(*b).Convert(t))
			}
		default:
			var signed bool
			var w int
			var ok bool
			if named {
				signed, w, ok = fam == "Int", n, true
			} else {
				signed, w, ok = c03KindWidth(t.Kind())
			}
			if !ok {
				g.leafMemo[t] = nil
				return nil
			}
			for _, b := range c03IntBoundaries(rng, signed, w, nr) {
				v := reflect.New(t).Elem()
				if signed {
					v.SetInt(b.Int64())
				} else {
					v.SetUint(b.Uint64())
				}
				out = append(out, v)
			}
		}
	}
	if cacheable {
		g.leafMemo[t] = out
	}
	return out
}

// keyBits is the ideal TL-B bit form of a dictionary key value of the generated fixed-size types.
func c03KeyBits(v reflect.Value) string {
	t := v.Type()
	if t == c03AddrWcType {
		a := v.Interface().(AddressWithWorkchain)
		return vhI64Bits(int64(a.Workchain), 32) + vhBytesBits(a.Address[:])
	}
	fam, n, _ := c03Named(t)
	switch {
	case fam == "Bits":
		b := make([]byte, v.Len())
		for i := range b {
			b[i] = byte(v.Index(i).Uint())
		}
		return vhBytesBits(b)
	case fam == "Uint" && t.Kind() != reflect.Struct:
		return vhU64Bits(v.Uint(), n)
	case fam == "Int" && t.Kind() != reflect.Struct:
		return vhI64Bits(v.Int(), n)
	case fam == "Uint":
		i := v.Convert(vhBigIntType).Interface().(big.Int)
		return vhUintBits(&i, n)
	case fam == "Int":
		i := v.Convert(vhBigIntType).Interface().(big.Int)
		return vhIntBits(&i, n)
	}
	panic("c03KeyBits: unsupported key type " + t.String())
}

func (g *c03Gen) cost(t reflect.Type) int {
	if c, ok := g.costMemo[t]; ok {
		return c
	}
	g.costMemo[t] = 100000 // recursion guard
	c := 1
	switch {
	case t == c03MagicType || g.leafValues(t) != nil || c03NotImplTypes[t]:
	case c03Generic(t, "Maybe"), c03Generic(t, "HashmapE"), c03Generic(t, "HashmapAugE"), c03Generic(t, "BinTree"), c03Generic(t, "HashmapAug"):
	case c03Generic(t, "Hashmap"):
		c = 3
	case t.Kind() == reflect.Pointer:
		c = g.cost(t.Elem())
	case t.Kind() == reflect.Struct:
		if _, ok := t.FieldByName("SumType"); ok {
			best := 100000
			for i := 0; i < t.NumField(); i++ {
				if t.Field(i).Tag.Get("tlbSumType") != "" {
					if x := g.cost(t.Field(i).Type); x < best {
						best = x
					}
				}
			}
			c = 1 + best
		} else if c03Generic(t, "Either") {
			c = g.cost(t.Field(1).Type)
			if r := g.cost(t.Field(2).Type); r < c {
				c = r
			}
			c++
		} else {
			for i := 0; i < t.NumField(); i++ {
				if t.Field(i).IsExported() {
					if strings.HasPrefix(t.Field(i).Tag.Get("tlb"), "maybe") {
						c++
					} else {
						c += g.cost(t.Field(i).Type)
					}
				}
			}
		}
	}
	if c > 100000 {
		c = 100000
	}
	g.costMemo[t] = c
	return c
}

// fill generates a value of v's type into v (addressable). tag is the `tlb` tag of the field holding v.
func (g *c03Gen) fill(v reflect.Value, tag string, depth int) {
	v = vhOpen(v)
	t := v.Type()
	if t == c03MagicType {
		if m, ok := c03MagicFromTag(tag); ok {
			v.Set(reflect.ValueOf(m))
		}
		return
	}
	if c03NotImplTypes[t] || t == vhBitsType {
		return // encoder declared not implemented (zero value -> Marshal error) / handled by the owning type
	}
	if vals := g.leafValues(t); vals != nil {
		v.Set(vals[g.choose("leaf:"+t.String(), len(vals), depth, 0)])
		return
	}
	switch {
	case c03Generic(t, "Maybe"):
		if g.choose("maybe:"+t.String(), 2, depth, 0) == 1 {
			v.Field(0).SetBool(true)
			g.fill(v.Field(1), "", depth+1)
		}
		return
	case c03Generic(t, "EitherRef"):
		v.Field(0).SetBool(g.choose("eitherref:"+t.String(), 2, depth, 0) == 1)
		g.fill(v.Field(1), "", depth+1)
		return
	case c03Generic(t, "Either"):
		if g.choose("either:"+t.String(), 2, depth, 0) == 1 {
			v.Field(0).SetBool(true)
			g.fill(v.Field(2), "", depth+1)
		} else {
			g.fill(v.Field(1), "", depth+1)
		}
		return
	case c03Generic(t, "Ref"):
		g.fill(v.Field(0), "", depth+1)
		return
	case c03Generic(t, "HashmapE"):
		g.fillHashmap(v.Field(0), []int{0, 1, 2}, depth)
		return
	case c03Generic(t, "HashmapAugE"):
		// the encoder of a non-empty HashmapAug is declared not implemented: only the empty dictionary + extra
		g.fill(v.Field(1), "", depth+1)
		return
	case c03Generic(t, "HashmapAug"), c03Generic(t, "BinTree"):
		return
	case c03Generic(t, "Hashmap"):
		g.fillHashmap(v, []int{1, 2}, depth)
		return
	}
	switch t.Kind() {
	case reflect.Pointer:
		if strings.HasPrefix(tag, "maybe") {
			if g.choose("maybeptr:"+t.String(), 2, depth, 0) == 0 {
				return
			}
		}
		p := reflect.New(t.Elem())
		g.fill(p.Elem(), "", depth+1)
		v.Set(p)
	case reflect.Struct:
		if sf, ok := t.FieldByName("SumType"); ok && sf.Type == c03SumTypeType {
			var ctors []int
			cheap, cheapCost := 0, int(^uint(0)>>1)
			for i := 0; i < t.NumField(); i++ {
				if t.Field(i).Tag.Get("tlbSumType") != "" {
					if c := g.cost(t.Field(i).Type); c < cheapCost {
						cheap, cheapCost = len(ctors), c
					}
					ctors = append(ctors, i)
				}
			}
			i := ctors[g.choose("sum:"+t.String(), len(ctors), depth, cheap)]
			v.FieldByName("SumType").SetString(t.Field(i).Name)
			g.fill(v.Field(i), "", depth+1)
			return
		}
		for i := 0; i < t.NumField(); i++ {
			if !t.Field(i).IsExported() {
				continue
			}
			g.fill(v.Field(i), t.Field(i).Tag.Get("tlb"), depth+1)
		}
	}
}

func (g *c03Gen) fillHashmap(hm reflect.Value, sizes []int, depth int) {
	hm = vhOpen(hm)
	keysF, valsF := hm.Field(0), hm.Field(1)
	n := sizes[g.choose("hashmap:"+hm.Type().String(), len(sizes), depth, 0)]
	if n == 0 {
		return
	}
	kt, vt := keysF.Type().Elem(), valsF.Type().Elem()
	cands := g.leafValues(kt)
	type kv struct {
		bits string
		k    reflect.Value
	}
	var chosen []kv
	seen := map[string]bool{}
	for tries := 0; len(chosen) < n && tries < 50; tries++ {
		k := cands[g.rng.Intn(len(cands))]
		b := c03KeyBits(k)
		if !seen[b] {
			seen[b] = true
			chosen = append(chosen, kv{b, k})
		}
	}
	sort.Slice(chosen, func(i, j int) bool { return chosen[i].bits < chosen[j].bits })
	keys := reflect.MakeSlice(keysF.Type(), 0, n)
	vals := reflect.MakeSlice(valsF.Type(), 0, n)
	for _, c := range chosen {
		keys = reflect.Append(keys, c.k)
		val := reflect.New(vt).Elem()
		g.fill(val, "", depth+1)
		vals = reflect.Append(vals, val)
	}
	vhSetUnexported(keysF, keys)
	vhSetUnexported(valsF, vals)
}
