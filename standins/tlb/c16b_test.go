//go:build verif

package tlb

// Bounded stand-in for C16, second part (labelled bounded, never counted as proved): records of LEVEL > 0 and decoders
// that SHARE one caching hasher over many decodes.
//
// Stands in for: Message.Hash / Transaction.Hash / Transaction.SourceBoc obtained through a tlb.Decoder whose boc.Hasher
// has already met the record, its parent, its children or other records; and boc.Hasher.Hash itself on cells that
// contain pruned branches (as every record taken out of a Merkle proof does). The prover follows neither the cache of
// the hasher nor the level-aware hash of immutable_cell.go.
//
// Oracle: the independent level-aware reference hasher of refhash_helper_test.go (c18Hasher, TON whitepaper 3.1 / exotic
// cells). The identity hash of a record is the REPRESENTATION hash of the cell it was decoded from (for a cell of level
// l > 0 the hash at its own level, not the level-0 hash, which is the hash of the unpruned original). Messages,
// transactions and canonical external-in re-encodings are written bit by bit from block.tlb:
//
//	message$_ info:CommonMsgInfo init:(Maybe (Either StateInit ^StateInit)) body:(Either X ^X)
//	transaction$0111 account_addr:bits256 lt:uint64 prev_trans_hash:bits256 prev_trans_lt:uint64 now:uint32
//	  outmsg_cnt:uint15 orig_status:AccountStatus end_status:AccountStatus
//	  ^[ in_msg:(Maybe ^(Message Any)) out_msgs:(HashmapE 15 ^(Message Any)) ] total_fees:CurrencyCollection
//	  state_update:^(HASH_UPDATE Account) description:^TransactionDescr
//	pruned branch: 01 | mask | popcount(mask) hashes | popcount(mask) depths; Merkle proof: 03 | Hash_0 | Depth_0
//
// Pruned branches are written by the specification (stored hashes / depths from the reference hasher) and the whole
// tree is written as serialized_boc#b5ee9c72 by this file, with the level mask of the specification in every descriptor
// byte, and read with boc.DeserializeBoc; cells that are one object in the hand-made tree are one cell of the bag, so
// records share cells (variants of one record share every untouched sub-tree; an out message of one real transaction is
// the in message of another).
//
// Decoders: tlb.Unmarshal; a Decoder without hasher; NewDecoder() used once (fresh hasher); ONE NewDecoder() reused (there is
// no WithHasher: the shared hasher is the one of the reused Decoder, Decoder.Hasher()); two Decoders built on one
// boc.Hasher. Orders with the shared hasher: the same record 3 times; transaction, then its messages, then the
// transaction; messages, then the transaction, then the messages; all records of a bag forward, backward and shuffled,
// each twice; after the root of the bag (parent of everything) was hashed; below a Merkle proof cell that was hashed
// first; SourceBoc called immediately and lazily at the end.
//
// Checked on every decode: Hash(false) / Hash() == reference representation hash of the cell; the messages inside a
// decoded transaction likewise; SourceBoc parses back to one root with that hash (reference and library); Hash(true) of
// an external-in message is one value over all decodes (and is the level-0 or the representation hash of the hand-made
// canonical cell); Hash(true) == Hash(false) for the other kinds. On every cell of every bag: boc.Hasher.Hash(c) ==
// c.Hash() == reference, HashString alike, on a cold hasher and on a hasher that saw the cell / its parents / its
// children before, in three orders.
//
// Bound.
//   - LevelsMessages: 120 (thorough 1200) hand-encoded base messages (internal / external-in / external-out; src, dest std /
//     var / anycast (never anycast in an external-in dest: that finding belongs to c16_test.go); init absent / inline /
//     ref; body inline / ref with 0..2 refs); per base: the control and up to 8 (thorough 14) cuts of single cells at
//     level 1, one at level 2, one at level 3, two and three cuts of different levels, a pruned branch with unknown
//     (random) hashes of a random mask 1..7, and a nested cut (level 1 below level 2, mask 3); for an external-in base with
//     the body in a reference also the body replaced by a library cell; all variants in one bag.
//   - LevelsTransactions: 30 (thorough 300) hand-encoded transactions (in_msg none / internal / external-in, 0..3 out
//     messages, description trans_storage / trans_ord with or without an action phase in a reference), same variants
//     (cells up to depth 5 below the transaction: the ^[in_msg out_msgs] cell, in_msg, its init / body, the dictionary
//     and its nodes, out messages and their bodies, state update, description, action phase), up to 4 variants
//     additionally below a Merkle proof cell.
//   - LevelsRealData: blocks under testdata, 6 (thorough 40) transactions per block spread over the block, the same
//     variants (8, thorough 12 single cuts) in one bag per block.
//   - LevelsHasherCells: 150 (thorough 1500) random DAGs of up to ~40 cells with shared sub-trees, pruned branches of masks
//     1..7, library cells and Merkle proof cells inside.
//   - variants that the library cannot decode at all (tlb.Unmarshal fails: a transaction whose state update or description
//     is itself a pruned branch) are counted (C16B-INFO left_out...) and left out of the decodes: C16 speaks of decoded
//     records; their cells still take part in the hasher sweeps. A control that does not decode is a failure.
//   - rc_normalized_hash_exotic_body_ref is a sub-test of its own: Hash(true) of an external-in message whose body
//     reference is an exotic cell (pruned branch, library cell).

import (
	"encoding/binary"
	"encoding/hex"
	"fmt"
	"math/big"
	"math/bits"
	"math/rand"
	"os"
	"path/filepath"
	"sort"
	"strings"
	"testing"

	"github.com/tonkeeper/tongo/boc"
)

// ---------------------------------------------------------------------------------------------------------------------
// cells by the specification

func c16bOrd(bits string, kids ...*boc.Cell) *boc.Cell {
	c, err := vhCellFromBits(bits, kids...)
	if err != nil {
		panic("harness: " + err.Error())
	}
	return c
}

func c16bExotic(t boc.CellType, data []byte, kids ...*boc.Cell) *boc.Cell {
	c := boc.NewCellExotic(t)
	if err := c.WriteBytes(data); err != nil {
		panic("harness: " + err.Error())
	}
	for _, k := range kids {
		if err := c.AddRef(k); err != nil {
			panic("harness: " + err.Error())
		}
	}
	return c
}

// c16bPruned: 01 | mask | popcount(mask) hashes | popcount(mask) depths.
func c16bPruned(mask int, entries []c18HD) *boc.Cell {
	data := []byte{1, byte(mask)}
	for _, v := range entries {
		data = append(data, v.hash[:]...)
	}
	for _, v := range entries {
		data = append(data, byte(v.depth>>8), byte(v.depth))
	}
	return c16bExotic(boc.PrunedBranchCell, data)
}

// c16bPrunedOf: the pruned branch standing for sub in a proof of level lvl (1..3): its mask is mask(sub) | 2^(lvl-1), it
// stores Hash_l / Depth_l of sub for every significant level l of sub (0 and b+1 for every bit b of mask(sub)).
func c16bPrunedOf(h *c18Hasher, sub *boc.Cell, lvl int) (*boc.Cell, error) {
	m, err := h.mask(sub)
	if err != nil {
		return nil, err
	}
	if lvl < 1 || lvl > 3 || m >= 1<<uint(lvl-1) {
		return nil, fmt.Errorf("a cell of mask %d cannot be pruned at level %d", m, lvl)
	}
	var es []c18HD
	for l := 0; l < lvl; l++ {
		if l == 0 || m&(1<<uint(l-1)) != 0 {
			v, err := h.hashDepth(sub, l)
			if err != nil {
				return nil, err
			}
			es = append(es, v)
		}
	}
	return c16bPruned(m|1<<uint(lvl-1), es), nil
}

// c16bPrunedRand: a pruned branch of the given mask standing for an unknown sub-tree.
func c16bPrunedRand(rng *rand.Rand, mask int) *boc.Cell {
	var es []c18HD
	for i := 0; i < bits.OnesCount(uint(mask)); i++ {
		var v c18HD
		rng.Read(v.hash[:])
		v.depth = 1 + rng.Intn(600)
		es = append(es, v)
	}
	return c16bPruned(mask, es)
}

// c16bMerkleProof: 03 | Hash_0(body) | Depth_0(body), the body as only child.
func c16bMerkleProof(h *c18Hasher, body *boc.Cell) (*boc.Cell, error) {
	v, err := h.hashDepth(body, 0)
	if err != nil {
		return nil, err
	}
	data := append([]byte{3}, v.hash[:]...)
	data = append(data, byte(v.depth>>8), byte(v.depth))
	return c16bExotic(boc.MerkleProofCell, data, body), nil
}

func c16bCopyCell(c *boc.Cell, kids []*boc.Cell) *boc.Cell {
	var n *boc.Cell
	if c.CellType() == boc.OrdinaryCell {
		n = boc.NewCell()
	} else {
		n = boc.NewCellExotic(c.CellType())
	}
	for _, b := range c18Bits(c) {
		_ = n.WriteBit(b)
	}
	for _, k := range kids {
		_ = n.AddRef(k)
	}
	return n
}

const c16bLibCut = -100

// c16bCut returns root with every cell of cuts replaced: level 1..3 = pruned branch of that proof level written by the
// specification, -mask = pruned branch of that mask with random content, c16bLibCut = a library cell (level 0). Sub-trees without a cut are kept as they are
// (same objects), so sharing between variants and between records survives. memo maps old cells to new ones.
func c16bCut(h *c18Hasher, rng *rand.Rand, root *boc.Cell, cuts map[*boc.Cell]int) (*boc.Cell, map[*boc.Cell]*boc.Cell, error) {
	memo := map[*boc.Cell]*boc.Cell{}
	var rec func(c *boc.Cell) (*boc.Cell, error)
	rec = func(c *boc.Cell) (*boc.Cell, error) {
		if r, ok := memo[c]; ok {
			return r, nil
		}
		if lvl, ok := cuts[c]; ok && c != root {
			var p *boc.Cell
			var err error
			if lvl == c16bLibCut {
				lib := make([]byte, 33)
				rng.Read(lib)
				lib[0] = 2
				p = c16bExotic(boc.LibraryCell, lib)
			} else if lvl < 0 {
				p = c16bPrunedRand(rng, -lvl)
			} else if p, err = c16bPrunedOf(h, c, lvl); err != nil {
				return nil, err
			}
			memo[c] = p
			return p, nil
		}
		kids := c.Refs()
		changed := false
		nk := make([]*boc.Cell, len(kids))
		for i, k := range kids {
			n, err := rec(k)
			if err != nil {
				return nil, err
			}
			if n != k {
				changed = true
			}
			nk[i] = n
		}
		out := c
		if changed {
			out = c16bCopyCell(c, nk)
		}
		memo[c] = out
		return out, nil
	}
	out, err := rec(root)
	return out, memo, err
}

// c16bBocBytes writes the DAG under root as serialized_boc#b5ee9c72 (no index, no crc, 2-byte references) with the level
// mask of the SPECIFICATION in every descriptor byte d1 = refs + 8*exotic + 32*mask.
func c16bBocBytes(root *boc.Cell) ([]byte, error) {
	h := newC18Hasher()
	var order []*boc.Cell // children before parents
	seen := map[*boc.Cell]bool{}
	var dfs func(c *boc.Cell)
	dfs = func(c *boc.Cell) {
		if seen[c] {
			return
		}
		seen[c] = true
		for _, r := range c.Refs() {
			dfs(r)
		}
		order = append(order, c)
	}
	dfs(root)
	n := len(order)
	if n > 60000 {
		return nil, fmt.Errorf("harness: %d cells", n)
	}
	idx := map[*boc.Cell]int{}
	for i, c := range order {
		idx[c] = n - 1 - i
	}
	var cells []byte
	for i := n - 1; i >= 0; i-- {
		c := order[i]
		m, err := h.mask(c)
		if err != nil {
			return nil, err
		}
		data, nb := c18Data(c)
		d1 := len(c.Refs()) + 32*m
		if c.CellType() != boc.OrdinaryCell {
			d1 += 8
		}
		cells = append(cells, byte(d1), byte((nb+7)/8+nb/8))
		cells = append(cells, data...)
		for _, r := range c.Refs() {
			cells = append(cells, byte(idx[r]>>8), byte(idx[r]))
		}
	}
	out := []byte{0xb5, 0xee, 0x9c, 0x72, 0x02, 0x04}
	out = append(out, byte(n>>8), byte(n), 0, 1, 0, 0)
	var tot [4]byte
	binary.BigEndian.PutUint32(tot[:], uint32(len(cells)))
	out = append(out, tot[:]...)
	out = append(out, 0, 0) // root list
	return append(out, cells...), nil
}

type c16bBag struct {
	root *boc.Cell
	m    map[*boc.Cell]*boc.Cell // hand-made cell -> parsed cell
}

// c16bMaterialize writes the hand-made tree and reads it with the library's parser.
func c16bMaterialize(root *boc.Cell) (*c16bBag, error) {
	data, err := c16bBocBytes(root)
	if err != nil {
		return nil, err
	}
	var roots []*boc.Cell
	if p := vhSafe(func() { roots, err = boc.DeserializeBoc(data) }); p != "" {
		err = fmt.Errorf("panic: %s", p)
	}
	if err != nil || len(roots) != 1 {
		return nil, fmt.Errorf("harness: the library does not read the test-made bag of cells %x: %v", data, err)
	}
	a, err1 := newC18Hasher().hashDepth(root, 3)
	b, err2 := newC18Hasher().hashDepth(roots[0], 3)
	if err1 != nil || err2 != nil || a != b {
		return nil, fmt.Errorf("harness: test-made bag of cells reads back as another tree (%v, %v)", err1, err2)
	}
	bag := &c16bBag{root: roots[0], m: map[*boc.Cell]*boc.Cell{}}
	var walk func(x, y *boc.Cell)
	walk = func(x, y *boc.Cell) {
		if _, ok := bag.m[x]; ok {
			return
		}
		bag.m[x] = y
		xr, yr := x.Refs(), y.Refs()
		for i := range xr {
			walk(xr[i], yr[i])
		}
	}
	walk(root, roots[0])
	return bag, nil
}

func c16bAllCells(root *boc.Cell) []*boc.Cell {
	var out []*boc.Cell
	seen := map[*boc.Cell]bool{}
	var walk func(c *boc.Cell)
	walk = func(c *boc.Cell) {
		if c == nil || seen[c] {
			return
		}
		seen[c] = true
		out = append(out, c)
		for _, r := range c.Refs() {
			walk(r)
		}
	}
	walk(root)
	return out
}

func c16bReset(cells []*boc.Cell) {
	for _, c := range cells {
		c.ResetCounters()
	}
}

func c16bHex(h Bits256) string { return hex.EncodeToString(h[:]) }

// ---------------------------------------------------------------------------------------------------------------------
// hand encoders (block.tlb)

func c16bGramsBits(v *big.Int) string {
	n := (v.BitLen() + 7) / 8
	return vhU64Bits(uint64(n), 4) + vhUintBits(v, 8*n)
}

func c16bSmallGrams(rng *rand.Rand) string {
	return c16bGramsBits(big.NewInt(int64(rng.Intn(1 << uint(1+rng.Intn(40))))))
}

func c16bAnycast(rng *rand.Rand, anycast bool) string {
	if !anycast {
		return "0"
	}
	d := 1 + rng.Intn(30)
	return "1" + vhU64Bits(uint64(d), 5) + vhRandBits(rng, d)
}

func c16bAddrStd(rng *rand.Rand, anycast bool) string {
	return "10" + c16bAnycast(rng, anycast) + vhI64Bits(int64(int8(rng.Intn(256))), 8) + vhRandBits(rng, 256)
}

func c16bAddrVar(rng *rand.Rand, anycast bool) string {
	n := []int{1, 8, 255, 256, 300}[rng.Intn(5)]
	return "11" + c16bAnycast(rng, anycast) + vhU64Bits(uint64(n), 9) + vhI64Bits(int64(int32(rng.Uint32())), 32) + vhRandBits(rng, n)
}

func c16bAddrExtern(rng *rand.Rand) string {
	n := rng.Intn(100)
	return "01" + vhU64Bits(uint64(n), 9) + vhRandBits(rng, n)
}

type c16bPart struct {
	bits string
	refs []*boc.Cell
}

// c16bRandInit: _ split_depth:(Maybe (## 5)) special:(Maybe TickTock) code:(Maybe ^Cell) data:(Maybe ^Cell) library:(HashmapE 256 SimpleLib)
func c16bRandInit(rng *rand.Rand) c16bPart {
	var in c16bPart
	if rng.Intn(4) == 0 {
		in.bits += "1" + vhU64Bits(uint64(rng.Intn(32)), 5)
	} else {
		in.bits += "0"
	}
	if rng.Intn(4) == 0 {
		in.bits += "1" + vhRandBits(rng, 2)
	} else {
		in.bits += "0"
	}
	for i := 0; i < 2; i++ {
		if rng.Intn(3) != 0 {
			in.bits += "1"
			in.refs = append(in.refs, vhRandCell(rng, 1))
		} else {
			in.bits += "0"
		}
	}
	in.bits += "0"
	return in
}

func c16bRandBody(rng *rand.Rand, maxRefs int) c16bPart {
	b := c16bPart{bits: vhRandBits(rng, []int{0, 1, 8, 32, 77, 200}[rng.Intn(6)])}
	for i := rng.Intn(maxRefs + 1); i > 0; i-- {
		b.refs = append(b.refs, vhRandCell(rng, 2))
	}
	return b
}

func c16bAssemble(info string, init *c16bPart, initRef bool, body c16bPart, bodyRef bool) (*boc.Cell, error) {
	bits := info
	var refs []*boc.Cell
	switch {
	case init == nil:
		bits += "0"
	case initRef:
		bits += "11"
		refs = append(refs, c16bOrd(init.bits, init.refs...))
	default:
		bits += "10" + init.bits
		refs = append(refs, init.refs...)
	}
	if bodyRef {
		bits += "1"
		refs = append(refs, c16bOrd(body.bits, body.refs...))
	} else {
		bits += "0" + body.bits
		refs = append(refs, body.refs...)
	}
	if len(bits) > 1023 || len(refs) > 4 {
		return nil, fmt.Errorf("does not fit one cell")
	}
	return vhCellFromBits(bits, refs...)
}

// c16bSynthMessage: kind 0 internal, 1 external-in, 2 external-out.
func c16bSynthMessage(rng *rand.Rand, kind int) *boc.Cell {
	var info string
	pick := func(xs ...string) string { return xs[rng.Intn(len(xs))] }
	switch kind {
	case 0:
		src := pick("00", c16bAddrStd(rng, false), c16bAddrVar(rng, false), c16bAddrStd(rng, true))
		dest := pick(c16bAddrStd(rng, false), c16bAddrVar(rng, false), c16bAddrStd(rng, true), c16bAddrVar(rng, true))
		info = "0" + vhRandBits(rng, 3) + src + dest + c16bSmallGrams(rng) + "0" + c16bSmallGrams(rng) + c16bSmallGrams(rng) + vhRandBits(rng, 64) + vhRandBits(rng, 32)
	case 1:
		src := pick("00", c16bAddrExtern(rng))
		dest := pick(c16bAddrStd(rng, false), c16bAddrVar(rng, false), c16bAddrStd(rng, false))
		info = "10" + src + dest + c16bGramsBits(vhRandBig(rng, 8*rng.Intn(16)))
	default:
		src := pick(c16bAddrStd(rng, false), c16bAddrVar(rng, false), "00")
		dest := pick("00", c16bAddrExtern(rng))
		info = "11" + src + dest + vhRandBits(rng, 64) + vhRandBits(rng, 32)
	}
	var init *c16bPart
	initRef := false
	if r := rng.Intn(3); r > 0 {
		in := c16bRandInit(rng)
		init, initRef = &in, r == 2
	}
	bodyRef := rng.Intn(3) != 0
	maxRefs := 2
	if init != nil && !initRef && !bodyRef {
		maxRefs = 4 - len(init.refs)
		if maxRefs > 2 {
			maxRefs = 2
		}
	}
	body := c16bRandBody(rng, maxRefs)
	cell, err := c16bAssemble(info, init, initRef, body, bodyRef)
	if err != nil {
		if cell, err = c16bAssemble(info, init, true, c16bPart{bits: vhRandBits(rng, 8), refs: body.refs}, true); err != nil {
			panic("harness: cannot build a message: " + err.Error())
		}
	}
	return cell
}

// c16bSynthTx writes a transaction$0111 from the schema.
func c16bSynthTx(rng *rand.Rand) *boc.Cell {
	var in *boc.Cell
	switch rng.Intn(4) {
	case 1, 2:
		in = c16bSynthMessage(rng, 0)
	case 3:
		in = c16bSynthMessage(rng, 1)
	}
	nOut := rng.Intn(4)
	var leaves []vhDictLeaf
	for i := 0; i < nOut; i++ {
		leaves = append(leaves, vhDictLeaf{Key: vhU64Bits(uint64(i), 15), ValRefs: []*boc.Cell{c16bSynthMessage(rng, []int{0, 0, 2}[rng.Intn(3)])}})
	}
	mbits := ""
	var mrefs []*boc.Cell
	if in != nil {
		mbits += "1"
		mrefs = append(mrefs, in)
	} else {
		mbits += "0"
	}
	if nOut > 0 {
		root, err := vhDictBuild(leaves, 15, vhCanonicalKind)
		if err != nil {
			panic("harness: " + err.Error())
		}
		mbits += "1"
		mrefs = append(mrefs, root)
	} else {
		mbits += "0"
	}
	msgs := c16bOrd(mbits, mrefs...)
	update := c16bOrd("01110010" + vhRandBits(rng, 512)) // update_hashes#72 old_hash:bits256 new_hash:bits256
	// tr_phase_storage$_ storage_fees_collected:Grams storage_fees_due:(Maybe Grams) status_change:AccStatusChange
	storage := func() string {
		s := c16bSmallGrams(rng)
		if rng.Intn(2) == 0 {
			s += "1" + c16bSmallGrams(rng)
		} else {
			s += "0"
		}
		return s + []string{"0", "10", "11"}[rng.Intn(3)]
	}
	var descr *boc.Cell
	if rng.Intn(3) == 0 {
		descr = c16bOrd("0001" + storage()) // trans_storage$0001 storage_ph:TrStoragePhase
	} else {
		// trans_ord$0000 credit_first:Bool storage_ph:(Maybe TrStoragePhase) credit_ph:(Maybe TrCreditPhase)
		//   compute_ph:TrComputePhase action:(Maybe ^TrActionPhase) aborted:Bool bounce:(Maybe TrBouncePhase) destroyed:Bool
		b := "0000" + vhRandBits(rng, 1)
		if rng.Intn(2) == 0 {
			b += "1" + storage()
		} else {
			b += "0"
		}
		if rng.Intn(2) == 0 { // tr_phase_credit$_ due_fees_collected:(Maybe Grams) credit:CurrencyCollection
			b += "1" + "0" + c16bSmallGrams(rng) + "0"
		} else {
			b += "0"
		}
		b += "0" + []string{"00", "01", "10"}[rng.Intn(3)] // tr_phase_compute_skipped$0 reason
		var refs []*boc.Cell
		if rng.Intn(3) != 0 {
			// tr_phase_action$_ success valid no_funds status_change total_fwd_fees:(Maybe Grams) total_action_fees:(Maybe Grams)
			//   result_code:int32 result_arg:(Maybe int32) tot_actions spec_actions skipped_actions msgs_created:uint16
			//   action_list_hash:bits256 tot_msg_size:StorageUsedShort (cells:(VarUInteger 7) bits:(VarUInteger 7))
			a := vhRandBits(rng, 3) + "0" + "1" + c16bSmallGrams(rng) + "0" + vhRandBits(rng, 32) + "0" + vhRandBits(rng, 64) + vhRandBits(rng, 256) +
				"001" + vhRandBits(rng, 8) + "010" + vhRandBits(rng, 16)
			refs = append(refs, c16bOrd(a))
			b += "1"
		} else {
			b += "0"
		}
		b += vhRandBits(rng, 1) + "0" + vhRandBits(rng, 1)
		descr = c16bOrd(b, refs...)
	}
	bits := "0111" + vhRandBits(rng, 256) + vhRandBits(rng, 64) + vhRandBits(rng, 256) + vhRandBits(rng, 64) + vhRandBits(rng, 32) +
		vhU64Bits(uint64(nOut), 15) + vhRandBits(rng, 2) + vhRandBits(rng, 2) + c16bSmallGrams(rng) + "0"
	return c16bOrd(bits, msgs, update, descr)
}

// c16bExtInCanon reads an external-in message from the schema and writes the canonical cell of the normalised hash:
// ext_in_msg_info$10, src addr_none$00, dest unchanged, import_fee 0, init nothing$0, body right$1 in a reference.
// ok = false when the cell is not of that shape or the destination carries an anycast prefix (that finding is reported by
// c16_test.go only).
func c16bExtInCanon(msg *boc.Cell) (canon *boc.Cell, exoticBody bool, ok bool) {
	b := vhCellBits(msg)
	refs := msg.Refs()
	p := 0
	bad := false
	take := func(n int) string {
		if bad || p+n > len(b) {
			bad = true
			return ""
		}
		s := b[p : p+n]
		p += n
		return s
	}
	num := func(n int) int {
		v := 0
		for _, ch := range take(n) {
			v = v<<1 | int(ch-'0')
		}
		return v
	}
	if take(2) != "10" {
		return nil, false, false
	}
	switch take(2) {
	case "00":
	case "01":
		take(num(9))
	default:
		return nil, false, false
	}
	start := p
	switch take(2) {
	case "10":
		if take(1) != "0" {
			return nil, false, false
		}
		take(8 + 256)
	case "11":
		if take(1) != "0" {
			return nil, false, false
		}
		l := num(9)
		take(32 + l)
	default:
		return nil, false, false
	}
	dest := b[start:p]
	take(8 * num(4))
	ri := 0
	if take(1) == "1" {
		if take(1) == "1" {
			ri++
		} else {
			if take(1) == "1" {
				take(5)
			}
			if take(1) == "1" {
				take(2)
			}
			for k := 0; k < 3; k++ {
				if take(1) == "1" {
					ri++
				}
			}
		}
	}
	right := take(1)
	if bad || ri > len(refs) {
		return nil, false, false
	}
	var body *boc.Cell
	if right == "1" {
		if len(refs) != ri+1 {
			return nil, false, false
		}
		body = refs[ri]
	} else {
		body = c16bOrd(b[p:], refs[ri:]...)
	}
	return c16bOrd("10"+"00"+dest+"0000"+"0"+"1", body), body.CellType() != boc.OrdinaryCell, true
}

// c16bTxParts finds the message cells of a transaction cell from the schema: in_msg (nil = none or pruned away) and the
// values of out_msgs in key order (nil = pruned away; leaves below a pruned dictionary node are not listed).
// known = false when the ^[in_msg out_msgs] cell itself is a pruned branch.
func c16bTxParts(tx *boc.Cell) (in *boc.Cell, outs []*boc.Cell, known bool) {
	refs := tx.Refs()
	if len(refs) < 1 || refs[0].CellType() != boc.OrdinaryCell {
		return nil, nil, false
	}
	m := refs[0]
	mb := vhCellBits(m)
	mr := m.Refs()
	if len(mb) < 2 {
		return nil, nil, false
	}
	idx := 0
	if mb[0] == '1' {
		if len(mr) < 1 {
			return nil, nil, false
		}
		if mr[0].CellType() == boc.OrdinaryCell {
			in = mr[0]
		}
		idx = 1
	}
	okAll := true
	var walk func(c *boc.Cell, n int)
	walk = func(c *boc.Cell, n int) {
		if c.CellType() != boc.OrdinaryCell {
			return
		}
		_, label, _, err := vhParseLabel(vhCellBits(c), n)
		if err != nil {
			okAll = false
			return
		}
		rest := n - len(label)
		kids := c.Refs()
		if rest == 0 {
			if len(kids) < 1 {
				okAll = false
				return
			}
			if kids[0].CellType() == boc.OrdinaryCell {
				outs = append(outs, kids[0])
			} else {
				outs = append(outs, nil)
			}
			return
		}
		if len(kids) != 2 {
			okAll = false
			return
		}
		walk(kids[0], rest-1)
		walk(kids[1], rest-1)
	}
	if mb[1] == '1' {
		if len(mr) < idx+1 {
			return nil, nil, false
		}
		walk(mr[idx], 15)
	}
	return in, outs, okAll
}

// ---------------------------------------------------------------------------------------------------------------------
// records, decoders, checks

type c16bRec struct {
	kind      string // "tx" | "msg"
	desc      string
	id        string
	control   bool
	cell      *boc.Cell
	cells     []*boc.Cell
	want      Bits256 // representation hash (reference)
	want0     Bits256 // level-0 hash (reference): the hash of the unpruned original
	mask      int
	in        *c16bRec   // tx: the in_msg record
	outs      []*c16bRec // tx: out messages in key order (nil = pruned away)
	parts     bool       // tx: in / outs are known
	extIn     bool
	canon     *boc.Cell
	canonExo  bool
	norm      *Bits256
	normHow   string
	normCheck bool
}

func (r *c16bRec) replay() string {
	data, err := c16bBocBytes(r.cell)
	if err != nil {
		return "bag of cells: " + err.Error()
	}
	return "record as a bag of cells " + hex.EncodeToString(data)
}

func (r *c16bRec) children() []*c16bRec {
	var out []*c16bRec
	if r.in != nil {
		out = append(out, r.in)
	}
	for _, o := range r.outs {
		if o != nil {
			out = append(out, o)
		}
	}
	return out
}

type c16bDec struct {
	name   string
	run    func(c *boc.Cell, o any) error
	hasher *boc.Hasher
}

func c16bDecPlain() c16bDec { return c16bDec{name: "tlb.Unmarshal", run: Unmarshal} }
func c16bDecNoHasher() c16bDec {
	return c16bDec{name: "Decoder{} without hasher", run: func(c *boc.Cell, o any) error { return (&Decoder{}).Unmarshal(c, o) }}
}
func c16bDecFresh() c16bDec {
	return c16bDec{name: "NewDecoder() used once", run: func(c *boc.Cell, o any) error { return NewDecoder().Unmarshal(c, o) }}
}
func c16bDecShared() c16bDec {
	d := NewDecoder()
	return c16bDec{name: "one NewDecoder() reused", run: d.Unmarshal, hasher: d.Hasher()}
}
func c16bDecOn(h *boc.Hasher, name string) c16bDec {
	d := &Decoder{hasher: h}
	return c16bDec{name: name, run: d.Unmarshal, hasher: h}
}

type c16bEnv struct {
	stat   *vhStat
	fails  *vhFailures
	ref    *c18Hasher
	rng    *rand.Rand
	counts map[string]int
}

var c16bCauses = []string{
	"rc_msg_hash_differs_from_cell_hash", "rc_tx_hash_differs_from_cell_hash", "rc_cached_hasher_returns_other_hash",
	"rc_hash_depends_on_decode_order", "rc_source_boc_hash_differs", "rc_hasher_vs_plain_hash_differ_level_gt0",
	"rc_hasher_vs_plain_hash_differ_level_0", "rc_library_hash_differs_from_reference", "rc_normalized_hash_depends_on_cache",
	"rc_normalized_hash_differs_from_canonical", "rc_normalized_hash_exotic_body_ref", "rc_hash_true_of_other_kinds", "rc_unexpected_decode_error",
	"rc_inner_messages_misaligned", "rc_control_not_decodable", "rc_harness",
}

func newC16bEnv(name string) *c16bEnv {
	return &c16bEnv{stat: newVhStat(name), fails: newVhFailures(c16bCauses...), ref: newC18Hasher(), rng: vhRng(), counts: map[string]int{}}
}

func (e *c16bEnv) finish(t *testing.T, need ...string) {
	var keys []string
	for k := range e.counts {
		keys = append(keys, k)
	}
	sort.Strings(keys)
	for _, k := range keys {
		fmt.Printf("C16B-INFO %s %s=%d\n", e.stat.name, k, e.counts[k])
	}
	for _, k := range need {
		if e.counts[k] == 0 {
			e.fails.add("rc_harness", "no case of the kind %q was executed", k)
		}
	}
	e.stat.print()
	e.fails.report(t)
}

func (e *c16bEnv) refHash(c *boc.Cell, level int) Bits256 {
	v, err := e.ref.hashDepth(c, level)
	if err != nil {
		e.fails.add("rc_harness", "reference hasher failed: %v on %s", err, vhTree(c))
	}
	return Bits256(v.hash)
}

func c16bErrCause(err error) string {
	msg := err.Error()
	if len(msg) > 40 {
		msg = msg[:40]
	}
	return "rc_unexpected_decode_error/" + strings.Trim(strings.Map(func(r rune) rune {
		if (r >= 'a' && r <= 'z') || (r >= 'A' && r <= 'Z') || (r >= '0' && r <= '9') {
			return r
		}
		return '_'
	}, msg), "_")
}

func c16bRun(d c16bDec, c *boc.Cell, o any) (err error) {
	if p := vhSafe(func() { err = d.run(c, o) }); p != "" {
		err = fmt.Errorf("panic: %s", p)
	}
	return
}

func (e *c16bEnv) checkMsg(rec *c16bRec, m *Message, cause, how string) {
	got := m.Hash(false)
	if got != rec.want && e.fails.wants(cause) {
		e.fails.add(cause, "%s [%s]: Message.Hash(false) = %s, representation hash of the cell (level mask %d) = %s, its level-0 hash = %s; %s",
			rec.desc, how, c16bHex(got), rec.mask, c16bHex(rec.want), c16bHex(rec.want0), rec.replay())
	} else if got != rec.want {
		e.fails.add(cause, "")
	}
	var nh Bits256
	if p := vhSafe(func() { nh = m.Hash(true) }); p != "" {
		e.fails.add("rc_normalized_hash_depends_on_cache", "%s [%s]: Hash(true) panics: %s; %s", rec.desc, how, p, rec.replay())
		return
	}
	if !rec.extIn {
		if nh != got {
			e.fails.add("rc_hash_true_of_other_kinds", "%s [%s]: Hash(true) = %s, Hash(false) = %s; %s", rec.desc, how, c16bHex(nh), c16bHex(got), rec.replay())
		}
		return
	}
	e.counts["ext_in.hash_true"]++
	if rec.norm == nil {
		rec.norm, rec.normHow = &nh, how
	} else if *rec.norm != nh {
		e.fails.add("rc_normalized_hash_depends_on_cache", "%s: Hash(true) = %s [%s] but %s [%s]; %s", rec.desc, c16bHex(nh), how, c16bHex(*rec.norm), rec.normHow, rec.replay())
	}
	if rec.canon != nil && !rec.normCheck {
		rec.normCheck = true
		l0, l3 := e.refHash(rec.canon, 0), e.refHash(rec.canon, 3)
		if nh != l0 && nh != l3 {
			c, note := "rc_normalized_hash_differs_from_canonical", ""
			if rec.canonExo {
				// own name: the body reference is an exotic cell (pruned branch / library cell)
				c = "rc_normalized_hash_exotic_body_ref"
				body := rec.canon.Refs()[0]
				retyped := c16bOrd(vhCellBits(rec.canon), c16bOrd(vhCellBits(body), body.Refs()...))
				note = fmt.Sprintf(" (the same cell with the exotic body of type %d re-typed as an ORDINARY cell of the same bits hashes to %s)", body.CellType(), c16bHex(e.refHash(retyped, 3)))
			}
			e.fails.add(c, "%s [%s]: Hash(true) = %s, the canonical cell %s has the representation hash %s and the level-0 hash %s%s; %s",
				rec.desc, how, c16bHex(nh), vhTree(rec.canon), c16bHex(l3), c16bHex(l0), note, rec.replay())
		} else {
			e.counts["ext_in.canonical_checked"]++
		}
	}
}

func (e *c16bEnv) checkSourceBoc(rec *c16bRec, tx *Transaction, how string) {
	var sb []byte
	var err error
	if p := vhSafe(func() { sb, err = tx.SourceBoc() }); p != "" {
		err = fmt.Errorf("panic: %s", p)
	}
	e.counts["source_boc"]++
	if err != nil {
		e.fails.add("rc_source_boc_hash_differs", "%s [%s]: SourceBoc: %v; %s", rec.desc, how, err, rec.replay())
		return
	}
	back, err := boc.DeserializeBoc(sb)
	if err != nil || len(back) != 1 {
		e.fails.add("rc_source_boc_hash_differs", "%s [%s]: SourceBoc %x does not parse to one root: %v", rec.desc, how, sb, err)
		return
	}
	bh, err1 := newC18Hasher().hashDepth(back[0], 3)
	var lh []byte
	var err2 error
	if p := vhSafe(func() { lh, err2 = back[0].Hash() }); p != "" {
		err2 = fmt.Errorf("panic: %s", p)
	}
	if err1 != nil || err2 != nil || Bits256(bh.hash) != rec.want || string(lh) != string(rec.want[:]) {
		e.fails.add("rc_source_boc_hash_differs", "%s [%s]: the root of SourceBoc hashes to %x (reference, %v) / %x (library, %v), representation hash of the transaction cell (level mask %d) %s, reported Hash() %s; %s",
			rec.desc, how, bh.hash[:], err1, lh, err2, rec.mask, c16bHex(rec.want), c16bHex(tx.Hash()), rec.replay())
	}
}

// decode decodes rec once and checks everything observable. cause = the name under which a wrong identity hash of the
// record itself is reported.
func (e *c16bEnv) decode(rec *c16bRec, d c16bDec, cause, how string, srcBoc bool) *Transaction {
	c16bReset(rec.cells)
	e.stat.add(how + "|" + d.name + "|" + rec.id)
	how = how + ", " + d.name
	if rec.mask != 0 {
		e.counts["decodes.level_gt0."+rec.kind]++
	} else {
		e.counts["decodes.level_0."+rec.kind]++
	}
	if rec.kind == "msg" {
		var m Message
		if err := c16bRun(d, rec.cell, &m); err != nil {
			e.fails.add(c16bErrCause(err), "%s [%s]: %v; %s", rec.desc, how, err, rec.replay())
			return nil
		}
		e.checkMsg(rec, &m, cause, how)
		return nil
	}
	var tx Transaction
	if err := c16bRun(d, rec.cell, &tx); err != nil {
		e.fails.add(c16bErrCause(err), "%s [%s]: %v; %s", rec.desc, how, err, rec.replay())
		return nil
	}
	if got := tx.Hash(); got != rec.want {
		if e.fails.wants(cause) {
			e.fails.add(cause, "%s [%s]: Transaction.Hash() = %s, representation hash of the cell (level mask %d) = %s, its level-0 hash = %s; %s",
				rec.desc, how, c16bHex(got), rec.mask, c16bHex(rec.want), c16bHex(rec.want0), rec.replay())
		} else {
			e.fails.add(cause, "")
		}
	}
	if rec.parts {
		// a message inside a transaction: with a hasher its cell is in the cache already (the transaction was hashed first)
		inner := "rc_msg_hash_differs_from_cell_hash"
		if d.hasher != nil || strings.HasPrefix(d.name, "NewDecoder") {
			inner = "rc_cached_hasher_returns_other_hash"
		}
		if rec.in != nil {
			if !tx.Msgs.InMsg.Exists {
				e.fails.add("rc_inner_messages_misaligned", "%s [%s]: the in_msg is not decoded; %s", rec.desc, how, rec.replay())
			} else {
				e.checkMsg(rec.in, &tx.Msgs.InMsg.Value.Value, inner, how+", in_msg of "+rec.desc)
			}
		}
		vals := tx.Msgs.OutMsgs.Values()
		if len(vals) != len(rec.outs) {
			e.fails.add("rc_inner_messages_misaligned", "%s [%s]: %d out messages decoded, %d dictionary leaves in the cells; %s", rec.desc, how, len(vals), len(rec.outs), rec.replay())
		} else {
			for i := range vals {
				if rec.outs[i] != nil {
					e.checkMsg(rec.outs[i], &vals[i].Value, inner, fmt.Sprintf("%s, out message %d of %s", how, i, rec.desc))
				}
			}
		}
	}
	if srcBoc {
		e.checkSourceBoc(rec, &tx, how)
	}
	return &tx
}

// sweep: boc.Hasher.Hash(c) == c.Hash() == reference for every cell of the list, in the given order.
func (e *c16bEnv) sweep(h *boc.Hasher, cells []*boc.Cell, how string) {
	for _, c := range cells {
		want := e.refHash(c, 3)
		m, _ := e.ref.mask(c)
		cause := "rc_hasher_vs_plain_hash_differ_level_0"
		if m != 0 {
			cause = "rc_hasher_vs_plain_hash_differ_level_gt0"
			e.counts["hasher_cells.level_gt0"]++
		} else {
			e.counts["hasher_cells.level_0"]++
		}
		e.stat.add(how + "|cell|" + c16bHex(want))
		var got, plain []byte
		var gs string
		var err1, err2, err3 error
		if p := vhSafe(func() {
			got, err1 = h.Hash(c)
			gs, err3 = h.HashString(c)
			plain, err2 = c.Hash()
		}); p != "" {
			err1 = fmt.Errorf("panic: %s", p)
		}
		if err1 != nil || err2 != nil || err3 != nil {
			e.fails.add(cause, "[%s] cell %s: Hasher.Hash: %v, Hasher.HashString: %v, Cell.Hash: %v", how, vhTree(c), err1, err3, err2)
			continue
		}
		if string(plain) != string(want[:]) {
			e.fails.add("rc_library_hash_differs_from_reference", "[%s] cell of level mask %d: Cell.Hash = %x, reference %s; %s", how, m, plain, c16bHex(want), vhTree(c))
		}
		if string(got) != string(want[:]) || gs != c16bHex(want) {
			if e.fails.wants(cause) {
				data, _ := c16bBocBytes(c)
				e.fails.add(cause, "[%s] cell of level mask %d: Hasher.Hash = %x, Hasher.HashString = %s, Cell.Hash = %x, reference representation hash %s, reference level-0 hash %s; cell as a bag of cells %x",
					how, m, got, gs, plain, c16bHex(want), c16bHex(e.refHash(c, 0)), data)
			} else {
				e.fails.add(cause, "")
			}
		}
	}
}

func c16bReverse[T any](xs []T) []T {
	out := make([]T, len(xs))
	for i, x := range xs {
		out[len(xs)-1-i] = x
	}
	return out
}

func c16bShuffle[T any](rng *rand.Rand, xs []T) []T {
	out := append([]T{}, xs...)
	rng.Shuffle(len(out), func(i, j int) { out[i], out[j] = out[j], out[i] })
	return out
}

// ---------------------------------------------------------------------------------------------------------------------
// bags of records

type c16bItem struct {
	kind    string // "tx" | "msg" | "proof"
	desc    string
	tree    *boc.Cell
	control bool
}

type c16bGroup struct {
	root   *boc.Cell
	cells  []*boc.Cell
	recs   []*c16bRec
	byCell map[*boc.Cell]*c16bRec
	proofs []*boc.Cell // parsed Merkle proof cells; the only child is a record
}

func (e *c16bEnv) record(g *c16bGroup, kind, desc string, cell *boc.Cell, control bool) *c16bRec {
	if r, ok := g.byCell[cell]; ok {
		if control {
			r.control = true
		}
		return r
	}
	r := &c16bRec{kind: kind, desc: desc, control: control, cell: cell, cells: c16bAllCells(cell)}
	r.want, r.want0 = e.refHash(cell, 3), e.refHash(cell, 0)
	r.mask, _ = e.ref.mask(cell)
	r.id = kind + c16bHex(r.want)
	g.byCell[cell] = r
	if kind == "msg" {
		if b := vhCellBits(cell); strings.HasPrefix(b, "10") {
			r.extIn = true
			if canon, exo, ok := c16bExtInCanon(cell); ok {
				r.canon, r.canonExo = canon, exo
			}
		}
	}
	return r
}

// build puts the items below one root, writes and parses the bag, and makes the records. Variants that tlb.Unmarshal
// cannot decode at all are left out (controls must decode).
func (e *c16bEnv) build(items []c16bItem) *c16bGroup {
	var top *boc.Cell
	for i := len(items); i > 0; {
		lo := i - 3
		if lo < 0 {
			lo = 0
		}
		var kids []*boc.Cell
		for _, it := range items[lo:i] {
			kids = append(kids, it.tree)
		}
		if top != nil {
			kids = append(kids, top)
		}
		top = c16bOrd(vhU64Bits(uint64(lo), 16), kids...)
		i = lo
	}
	if top == nil {
		return nil
	}
	bag, err := c16bMaterialize(top)
	if err != nil {
		e.fails.add("rc_harness", "%v", err)
		return nil
	}
	g := &c16bGroup{root: bag.root, cells: c16bAllCells(bag.root), byCell: map[*boc.Cell]*c16bRec{}}
	plain := c16bDecPlain()
	usable := func(r *c16bRec) bool {
		c16bReset(r.cells)
		var err error
		if r.kind == "tx" {
			var tx Transaction
			err = c16bRun(plain, r.cell, &tx)
		} else {
			var m Message
			err = c16bRun(plain, r.cell, &m)
		}
		if err == nil {
			return true
		}
		if r.control {
			e.fails.add("rc_control_not_decodable", "%s: tlb.Unmarshal: %v; %s", r.desc, err, r.replay())
		}
		e.counts["left_out.undecodable_variant."+r.kind]++
		if os.Getenv("C16B_DEBUG") != "" {
			fmt.Printf("C16B-DEBUG left out %s: %v\n", r.desc, err)
		}
		return false
	}
	var txs, msgs []*c16bRec
	seen := map[*c16bRec]bool{}
	for _, it := range items {
		cell := bag.m[it.tree]
		switch it.kind {
		case "proof":
			g.proofs = append(g.proofs, cell)
		case "msg":
			if r := e.record(g, "msg", it.desc, cell, it.control); !seen[r] {
				seen[r] = true
				if usable(r) {
					msgs = append(msgs, r)
				}
			}
		case "tx":
			r := e.record(g, "tx", it.desc, cell, it.control)
			if seen[r] {
				continue
			}
			seen[r] = true
			if !usable(r) {
				continue
			}
			txs = append(txs, r)
			in, outs, known := c16bTxParts(cell)
			r.parts = known
			if !known {
				continue
			}
			if in != nil {
				r.in = e.record(g, "msg", "in_msg of "+it.desc, in, false)
			}
			for i, o := range outs {
				if o == nil {
					r.outs = append(r.outs, nil)
					continue
				}
				r.outs = append(r.outs, e.record(g, "msg", fmt.Sprintf("out message %d of %s", i, it.desc), o, false))
			}
			for _, c := range r.children() {
				if !seen[c] {
					seen[c] = true
					if usable(c) {
						msgs = append(msgs, c)
					}
				}
			}
		}
	}
	g.recs = append(txs, msgs...)
	for _, r := range g.recs {
		if r.mask != 0 {
			e.counts["records.level_gt0."+r.kind]++
			e.counts[fmt.Sprintf("records.mask_%d", r.mask)]++
		} else {
			e.counts["records.level_0."+r.kind]++
		}
	}
	return g
}

func c16bOwn(r *c16bRec) string {
	if r.kind == "tx" {
		return "rc_tx_hash_differs_from_cell_hash"
	}
	return "rc_msg_hash_differs_from_cell_hash"
}

const (
	c16bCached = "rc_cached_hasher_returns_other_hash"
	c16bOrder  = "rc_hash_depends_on_decode_order"
)

// run executes every decoder and every order on the records of the bag.
func (e *c16bEnv) run(g *c16bGroup, shuffles int) {
	if g == nil || len(g.recs) == 0 {
		return
	}
	usable := map[*c16bRec]bool{}
	for _, r := range g.recs {
		usable[r] = true
	}
	kids := func(r *c16bRec) []*c16bRec {
		var out []*c16bRec
		for _, c := range r.children() {
			if usable[c] {
				out = append(out, c)
			}
		}
		return out
	}
	// A. no cache at all / a fresh cache per decode
	for _, r := range g.recs {
		e.decode(r, c16bDecPlain(), c16bOwn(r), "A alone", true)
		e.decode(r, c16bDecNoHasher(), c16bOwn(r), "A alone", false)
		e.decode(r, c16bDecFresh(), c16bOwn(r), "A alone", true)
	}
	// B. the same record three times with one decoder; the source BOC of the first decode asked for at the end
	for _, r := range g.recs {
		d := c16bDecShared()
		first := e.decode(r, d, c16bOwn(r), "B 1st decode", false)
		e.decode(r, d, c16bCached, "B 2nd decode of the same cell", true)
		e.decode(r, d, c16bCached, "B 3rd decode of the same cell", false)
		if first != nil {
			e.checkSourceBoc(r, first, "B lazily after 3 decodes, "+d.name)
		}
	}
	// C. parent first, D. children first
	for _, r := range g.recs {
		ks := kids(r)
		if r.kind != "tx" || len(ks) == 0 {
			continue
		}
		d := c16bDecShared()
		e.decode(r, d, c16bOwn(r), "C transaction first", false)
		for _, k := range ks {
			e.decode(k, d, c16bOrder, "C message after its transaction", false)
		}
		e.decode(r, d, c16bCached, "C transaction again", true)
		d = c16bDecShared()
		for _, k := range ks {
			e.decode(k, d, c16bOrder, "D message before its transaction", false)
		}
		e.decode(r, d, c16bOrder, "D transaction after its messages", true)
		for _, k := range c16bReverse(ks) {
			e.decode(k, d, c16bCached, "D message again", false)
		}
	}
	// E. all records, every order, two passes; lazily asked source BOCs
	orders := [][]*c16bRec{g.recs, c16bReverse(g.recs)}
	for i := 0; i < shuffles; i++ {
		orders = append(orders, c16bShuffle(e.rng, g.recs))
	}
	for oi, order := range orders {
		d := c16bDecShared()
		name := fmt.Sprintf("E order %d", oi)
		type kept struct {
			r  *c16bRec
			tx *Transaction
		}
		var keep []kept
		for i, r := range order {
			cause := c16bOrder
			if i == 0 {
				cause = c16bOwn(r)
			}
			if tx := e.decode(r, d, cause, name+" pass 1", false); tx != nil {
				keep = append(keep, kept{r, tx})
			}
		}
		for _, r := range order {
			e.decode(r, d, c16bCached, name+" pass 2", false)
		}
		for _, k := range keep {
			e.checkSourceBoc(k.r, k.tx, name+" lazily after both passes, "+d.name)
		}
	}
	// F. the root of the bag (parent of every record) hashed first
	{
		d := c16bDecShared()
		e.sweep(d.hasher, []*boc.Cell{g.root}, "F root of the bag, cold hasher")
		for _, r := range g.recs {
			e.decode(r, d, c16bOrder, "F after the root of the bag was hashed", r.kind == "tx")
		}
		e.sweep(d.hasher, g.cells, "F every cell after the decodes")
	}
	// G. two decoders on one hasher
	{
		h := boc.NewHasher()
		d1, d2 := c16bDecOn(h, "Decoder 1 of 2 on one Hasher"), c16bDecOn(h, "Decoder 2 of 2 on one Hasher")
		for i, r := range g.recs {
			cause := c16bOrder
			if i == 0 {
				cause = c16bOwn(r)
			}
			e.decode(r, d1, cause, "G first decoder", false)
			e.decode(r, d2, c16bCached, "G second decoder", false)
		}
	}
	// P. below a Merkle proof cell that was hashed first
	for _, p := range g.proofs {
		kid := p.Refs()[0]
		r := g.byCell[kid]
		if r == nil || !usable[r] {
			continue
		}
		d := c16bDecShared()
		e.sweep(d.hasher, []*boc.Cell{p}, "P Merkle proof cell, cold hasher")
		e.decode(r, d, c16bOrder, "P after the Merkle proof above it was hashed", true)
		e.counts["below_merkle_proof"]++
	}
	// H. the hasher alone, three orders, two passes each
	for oi, order := range [][]*boc.Cell{g.cells, c16bReverse(g.cells), c16bShuffle(e.rng, g.cells)} {
		h := boc.NewHasher()
		name := []string{"parents first", "children first", "shuffled"}[oi]
		e.sweep(h, order, "H "+name+" pass 1")
		e.sweep(h, order, "H "+name+" pass 2")
	}
}

// ---------------------------------------------------------------------------------------------------------------------
// variants of one record

type c16bCand struct {
	cell *boc.Cell
	pos  string
}

// c16bCands: the distinct ordinary cells below root up to the given depth (parents before children).
func c16bCands(root *boc.Cell, depth int) []c16bCand {
	var out []c16bCand
	seen := map[*boc.Cell]bool{root: true}
	var walk func(c *boc.Cell, pos string, d int)
	walk = func(c *boc.Cell, pos string, d int) {
		if d >= depth {
			return
		}
		for i, k := range c.Refs() {
			if seen[k] {
				continue
			}
			seen[k] = true
			p := fmt.Sprintf("%s/%d", pos, i)
			if k.CellType() == boc.OrdinaryCell {
				out = append(out, c16bCand{k, p})
			}
			walk(k, p, d+1)
		}
	}
	walk(root, "", 0)
	return out
}

func (e *c16bEnv) variants(kind, desc string, root *boc.Cell, singles int) []c16bItem {
	items := []c16bItem{{kind: kind, desc: desc + " (control)", tree: root, control: true}}
	cands := c16bCands(root, 5)
	if len(cands) == 0 {
		return items
	}
	add := func(what string, cuts map[*boc.Cell]int) {
		t, _, err := c16bCut(e.ref, e.rng, root, cuts)
		if err != nil || t == root {
			e.counts["variants.not_applicable"]++
			return
		}
		items = append(items, c16bItem{kind: kind, desc: desc + " (" + what + ")", tree: t})
	}
	// the combined cuts leave the state update (/1) and the description (/2) of a transaction alone: the library cannot
	// decode a transaction in which one of them is a pruned branch (those two are tried as single cuts only)
	pickable := cands
	if kind == "tx" {
		pickable = nil
		for _, c := range cands {
			if c.pos != "/1" && c.pos != "/2" {
				pickable = append(pickable, c)
			}
		}
		if len(pickable) == 0 {
			pickable = cands
		}
	}
	pick := func() c16bCand { return pickable[e.rng.Intn(len(pickable))] }
	perm := e.rng.Perm(len(cands))
	for i := 0; i < len(perm) && i < singles; i++ {
		c := cands[perm[i]]
		add("cell "+c.pos+" pruned at level 1", map[*boc.Cell]int{c.cell: 1})
	}
	a, b, c := pick(), pick(), pick()
	add("cell "+a.pos+" pruned at level 2", map[*boc.Cell]int{a.cell: 2})
	add("cell "+b.pos+" pruned at level 3", map[*boc.Cell]int{b.cell: 3})
	add("cells "+a.pos+", "+c.pos+" pruned at levels 1, 2", map[*boc.Cell]int{a.cell: 1, c.cell: 2})
	add("cells "+a.pos+", "+b.pos+", "+c.pos+" pruned at levels 1, 2, 3", map[*boc.Cell]int{a.cell: 1, b.cell: 2, c.cell: 3})
	mask := 1 + e.rng.Intn(7)
	add(fmt.Sprintf("cell %s replaced by a pruned branch of mask %d with unknown content", c.pos, mask), map[*boc.Cell]int{c.cell: -mask})
	// nested: a child pruned at level 1, then its parent pruned at level 2 (mask 3)
	for try := 0; try < 8; try++ {
		p := pick()
		ks := p.cell.Refs()
		if len(ks) == 0 || ks[0].CellType() != boc.OrdinaryCell {
			continue
		}
		t1, memo, err := c16bCut(e.ref, e.rng, root, map[*boc.Cell]int{ks[0]: 1})
		if err != nil || memo[p.cell] == nil || memo[p.cell] == p.cell {
			continue
		}
		t2, _, err := c16bCut(e.ref, e.rng, t1, map[*boc.Cell]int{memo[p.cell]: 2})
		if err != nil || t2 == t1 {
			continue
		}
		items = append(items, c16bItem{kind: kind, desc: desc + " (cell " + p.pos + "/0 pruned at level 1, then cell " + p.pos + " pruned at level 2)", tree: t2})
		e.counts["variants.nested"]++
		break
	}
	return items
}

// ---------------------------------------------------------------------------------------------------------------------
// tests

func TestVerifStandin_C16_LevelsMessages(t *testing.T) {
	e := newC16bEnv("c16b_levels_messages")
	n, singles, shuffles := 120, 8, 2
	if vhThorough() {
		n, singles, shuffles = 1200, 14, 4
	}
	for i := 0; i < n; i++ {
		kind := i % 3
		if i%6 >= 3 {
			kind = 1 // half of the bases are external-in: the normalised hash is looked at as well
		}
		base := c16bSynthMessage(e.rng, kind)
		name := fmt.Sprintf("synthetic %s message #%d", []string{"internal", "external-in", "external-out"}[kind], i)
		items := e.variants("msg", name, base, singles)
		if canon, _, ok := c16bExtInCanon(base); ok && kind == 1 {
			// an external-in message whose body reference is a library cell (exotic, level 0)
			body := canon.Refs()[0]
			for _, r := range base.Refs() {
				if r == body {
					if t, _, err := c16bCut(e.ref, e.rng, base, map[*boc.Cell]int{body: c16bLibCut}); err == nil && t != base {
						items = append(items, c16bItem{kind: "msg", desc: name + " (body reference replaced by a library cell)", tree: t})
					}
				}
			}
		}
		e.run(e.build(items), shuffles)
	}
	e.finish(t, "records.level_gt0.msg", "records.level_0.msg", "ext_in.canonical_checked", "hasher_cells.level_gt0")
}

func TestVerifStandin_C16_LevelsTransactions(t *testing.T) {
	e := newC16bEnv("c16b_levels_transactions")
	n, singles, shuffles := 30, 8, 2
	if vhThorough() {
		n, singles, shuffles = 300, 14, 4
	}
	for i := 0; i < n; i++ {
		base := c16bSynthTx(e.rng)
		items := e.variants("tx", fmt.Sprintf("synthetic transaction #%d", i), base, singles)
		// some of the variants once more below a Merkle proof cell
		np := 0
		for _, it := range items {
			if np >= 4 {
				break
			}
			if m, err := e.ref.mask(it.tree); err != nil || m == 0 || m&1 == 0 {
				continue
			}
			if p, err := c16bMerkleProof(e.ref, it.tree); err == nil {
				items = append(items, c16bItem{kind: "proof", tree: p})
				np++
			}
		}
		e.run(e.build(items), shuffles)
	}
	e.finish(t, "records.level_gt0.tx", "records.level_gt0.msg", "records.level_0.tx", "below_merkle_proof", "source_boc", "hasher_cells.level_gt0")
}

func TestVerifStandin_C16_LevelsRealData(t *testing.T) {
	e := newC16bEnv("c16b_levels_realdata")
	perBlock, singles, shuffles := 6, 8, 1
	if vhThorough() {
		perBlock, singles, shuffles = 40, 12, 3
	}
	files, _ := filepath.Glob("testdata/block-*/block.bin")
	sort.Strings(files)
	if len(files) == 0 {
		t.Fatalf("no blocks under testdata")
	}
	for _, file := range files {
		data, err := os.ReadFile(file)
		if err != nil {
			t.Fatal(err)
		}
		roots, err := boc.DeserializeBoc(data)
		if err != nil || len(roots) != 1 {
			t.Fatalf("%s: %v", file, err)
		}
		var block Block
		if err := c16bRun(c16bDecPlain(), roots[0], &block); err != nil {
			e.fails.add("rc_control_not_decodable", "%s: tlb.Unmarshal(Block): %v", file, err)
			continue
		}
		txs := block.AllTransactions()
		sort.SliceStable(txs, func(i, j int) bool {
			if txs[i].Lt != txs[j].Lt {
				return txs[i].Lt < txs[j].Lt
			}
			return string(txs[i].AccountAddr[:]) < string(txs[j].AccountAddr[:])
		})
		if len(txs) == 0 {
			t.Logf("%s: no transactions", file)
			continue
		}
		// the transaction cells of the block, found by their prefix transaction$0111 account_addr lt
		byPrefix := map[string]*boc.Cell{}
		for _, c := range c16bAllCells(roots[0]) {
			if c.CellType() == boc.OrdinaryCell && c.BitSize() > 4+256+64 && len(c.Refs()) == 3 {
				b := vhCellBits(c)
				if strings.HasPrefix(b, "0111") {
					byPrefix[b[:4+256+64]] = c
				}
			}
		}
		var items []c16bItem
		step := len(txs) / perBlock
		if step == 0 {
			step = 1
		}
		taken := 0
		for i := 0; i < len(txs) && taken < perBlock; i += step {
			tx := txs[i]
			cell := byPrefix["0111"+vhBytesBits(tx.AccountAddr[:])+vhU64Bits(tx.Lt, 64)]
			if cell == nil {
				e.fails.add("rc_harness", "%s: no cell with the prefix of transaction account %x lt %d", file, tx.AccountAddr[:], tx.Lt)
				continue
			}
			taken++
			items = append(items, e.variants("tx", fmt.Sprintf("%s transaction account %x lt %d", file, tx.AccountAddr[:], tx.Lt), cell, singles)...)
		}
		e.counts["real_transactions"] += taken
		e.run(e.build(items), shuffles)
	}
	e.finish(t, "real_transactions", "records.level_gt0.tx", "records.level_gt0.msg", "records.level_0.tx", "source_boc", "hasher_cells.level_gt0")
}

// c16bRandDag: a random DAG with shared sub-trees, pruned branches of any mask, library cells and Merkle proof cells.
func c16bRandDag(e *c16bEnv, budget *int, pool *[]*boc.Cell, depth int) *boc.Cell {
	rng := e.rng
	*budget--
	if len(*pool) > 0 && rng.Intn(5) == 0 {
		return (*pool)[rng.Intn(len(*pool))]
	}
	var c *boc.Cell
	switch r := rng.Intn(12); {
	case r < 3 || depth <= 0 || *budget <= 0:
		switch rng.Intn(4) {
		case 0:
			c = c16bPrunedRand(rng, 1+rng.Intn(7))
		case 1:
			lib := make([]byte, 33)
			rng.Read(lib)
			lib[0] = 2
			c = c16bExotic(boc.LibraryCell, lib)
		default:
			c = c16bOrd(vhRandBits(rng, rng.Intn(300)))
		}
	case r == 3:
		body := c16bRandDag(e, budget, pool, depth-1)
		p, err := c16bMerkleProof(e.ref, body)
		if err != nil {
			c = body
		} else {
			c = p
		}
	default:
		var kids []*boc.Cell
		for i := 1 + rng.Intn(4); i > 0; i-- {
			kids = append(kids, c16bRandDag(e, budget, pool, depth-1))
		}
		c = c16bOrd(vhRandBits(rng, rng.Intn(200)), kids...)
		// sometimes the pruned stand-in of the sub-tree just built is used next to it
		if m, err := e.ref.mask(c); err == nil && rng.Intn(4) == 0 {
			for lvl := 1; lvl <= 3; lvl++ {
				if m < 1<<uint(lvl-1) && rng.Intn(2) == 0 {
					if p, err := c16bPrunedOf(e.ref, c, lvl); err == nil {
						*pool = append(*pool, p)
					}
					break
				}
			}
		}
	}
	*pool = append(*pool, c)
	return c
}

func TestVerifStandin_C16_LevelsHasherCells(t *testing.T) {
	e := newC16bEnv("c16b_levels_hasher_cells")
	n := 150
	if vhThorough() {
		n = 1500
	}
	for i := 0; i < n; i++ {
		budget := 40
		var pool []*boc.Cell
		var kids []*boc.Cell
		for k := 1 + e.rng.Intn(3); k > 0; k-- {
			kids = append(kids, c16bRandDag(e, &budget, &pool, 4))
		}
		root := c16bOrd(vhRandBits(e.rng, 16), kids...)
		if _, err := e.ref.hashDepth(root, 3); err != nil {
			e.counts["dags.rejected_by_reference"]++
			continue
		}
		bag, err := c16bMaterialize(root)
		if err != nil {
			e.fails.add("rc_harness", "%v", err)
			continue
		}
		cells := c16bAllCells(bag.root)
		e.counts["dags"]++
		for oi, order := range [][]*boc.Cell{cells, c16bReverse(cells), c16bShuffle(e.rng, cells), c16bShuffle(e.rng, cells)} {
			h := boc.NewHasher()
			name := fmt.Sprintf("dag %d order %d", i, oi)
			e.sweep(h, order, name+" pass 1")
			e.sweep(h, c16bShuffle(e.rng, order), name+" pass 2")
		}
		// one hasher over the cells one by one, the root first each time in between
		h := boc.NewHasher()
		for _, c := range cells {
			e.sweep(h, []*boc.Cell{bag.root, c, c}, fmt.Sprintf("dag %d root then cell twice", i))
		}
	}
	e.finish(t, "dags", "hasher_cells.level_gt0", "hasher_cells.level_0")
}
