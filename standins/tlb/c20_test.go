//go:build verif

package tlb

// Bounded stand-in for C20 (labelled bounded, never counted as proved), package tlb part: JSON forms parse back.
//
// Bound: every tlb type with both MarshalJSON and UnmarshalJSON: Uint1..64, Int1..64, Uint/Int 128/256/257,
// VarUInteger1..32, Bits80..512 (integers.go; boundary lists of the C03 generator: 0, 1, max, min, -1, ...), Grams,
// SignedCoins (negative values included), Magic, Maybe[T] over 6 inner types (present / absent), Any (cells with
// references), MsgAddress (none, extern 0..511 bits, std / var with and without anycast, workchains -128..127 and the
// int32 limits for var; the variable address whose text equals a standard one - 256 bits and an int8 workchain - is
// excluded as the property says).  AddressWithWorkchain, Hashmap, HashmapE, ExtraCurrencyCollection only have an
// encoder and are out of scope.
// For every value: json.Marshal -> json.Valid -> json.Unmarshal into a fresh value -> vhDiff == "".
// Malformed input: for 2-4 seed documents per type every truncation and single-byte substitutions (quick: 12 byte
// values per position, thorough: 40), plus a list of well-formed documents of the wrong shape; fed both to
// json.Unmarshal and directly to the UnmarshalJSON method: an error or a value, never a panic. Out-of-range numbers
// for the fixed-width integers must be rejected.

import (
	"encoding/json"
	"math/big"
	"reflect"
	"strings"
	"testing"

	"github.com/tonkeeper/tongo/boc"
)

var c20Subst = []byte{'"', '\\', '0', '9', 'f', 'g', '-', ':', '_', ' ', 0x00, 0xff}
var c20SubstMore = []byte{'{', '}', '[', ']', ',', 'n', 'u', 'l', 'x', 'A', 'z', '(', ')', '.', 'e', '+', '\n', '\t', 0x7f, 0x80, 0xc3, '1', '8', 'a', 'F', 'G', '/', '\''}
var c20WrongShape = []string{`null`, `true`, `{}`, `[]`, `""`, `" "`, `"abc"`, `"-"`, `"0x"`, `12.5`, `1e3`, `-0`, `"1:"`, `":"`, `"::"`, `"0:zz"`,
	`"1:2:3:4"`, `"0:00:Anycast("`, `"0:00:Anycast(1,2"`, `"0:00:Anycast(,)"`, `"_"`, `"4_"`, `"0:_"`, `"b5ee9c72"`, `"b5ee9c7201"`, `"99999999999999999999999999999999999999999999"`,
	`"-99999999999999999999999999999999999999999999"`, `340282366920938463463374607431768211456`, `"\u0000"`, `"\""`, `{"a":1}`, `[1]`}

type c20Runner struct {
	stat  *vhStat
	fails *vhFailures
	cause func(typeName string, check string, v any, decoded any) string
}

// roundTrip checks one value; returns the JSON text ("" on marshal failure).
func (r *c20Runner) roundTrip(v any) string {
	rt := reflect.TypeOf(v)
	name := rt.Name()
	var b []byte
	var err error
	r.stat.add(rt.String() + "|" + vhDump(v))
	if p := vhSafe(func() { b, err = json.Marshal(v) }); p != "" || err != nil {
		r.fails.add(r.cause(name, "marshal", v, nil), "%s %s: json.Marshal failed: %v %v", rt, vhDump(v), p, err)
		return ""
	}
	if !json.Valid(b) {
		r.fails.add(r.cause(name, "invalid_json", v, nil), "%s %s: output is not valid JSON: %q", rt, vhDump(v), b)
		return ""
	}
	fresh := reflect.New(rt)
	if p := vhSafe(func() { err = json.Unmarshal(b, fresh.Interface()) }); p != "" || err != nil {
		r.fails.add(r.cause(name, "unmarshal", v, nil), "%s %s: JSON %s does not parse back: %v %v", rt, vhDump(v), b, p, err)
		return string(b)
	}
	if d := vhDiff(v, fresh.Elem().Interface()); d != "" {
		r.fails.add(r.cause(name, "differs", v, fresh.Elem().Interface()), "%s %s: JSON %s parses back to %s: %s", rt, vhDump(v), b, vhDump(fresh.Elem().Interface()), d)
	}
	return string(b)
}

// feed gives one document to json.Unmarshal and to the UnmarshalJSON method of a fresh value of type rt.
func (r *c20Runner) feed(rt reflect.Type, doc []byte) {
	r.stat.add(rt.String() + "|doc|" + string(doc))
	if p := vhSafe(func() { _ = json.Unmarshal(doc, reflect.New(rt).Interface()) }); p != "" {
		r.fails.add(r.cause(rt.Name(), "panic_via_json_unmarshal", nil, nil), "%s: json.Unmarshal panics on %q (hex %x): %s", rt, doc, doc, p)
	}
	if u, ok := reflect.New(rt).Interface().(json.Unmarshaler); ok {
		if p := vhSafe(func() { _ = u.UnmarshalJSON(append([]byte{}, doc...)) }); p != "" {
			r.fails.add(r.cause(rt.Name(), "panic_in_unmarshaljson_method", nil, nil), "%s: UnmarshalJSON panics on %q (hex %x): %s", rt, doc, doc, p)
		}
	}
}

func (r *c20Runner) mutate(rt reflect.Type, seeds []string) {
	subst := c20Subst
	if vhThorough() {
		subst = append(append([]byte{}, c20Subst...), c20SubstMore...)
	}
	for _, s := range seeds {
		if s == "" {
			continue
		}
		b := []byte(s)
		if len(b) > 400 && !vhThorough() {
			b = b[:400] // long BOC hex: the head holds the structure
		}
		for n := 0; n <= len(b); n++ {
			r.feed(rt, b[:n])
		}
		for pos := 0; pos < len(b); pos++ {
			for _, x := range subst {
				if b[pos] == x {
					continue
				}
				m := append([]byte{}, b...)
				m[pos] = x
				r.feed(rt, m)
			}
		}
	}
	for _, d := range c20WrongShape {
		r.feed(rt, []byte(d))
	}
}

// c20TlbCause gives a known root-cause name only when the evidence of exactly that cause is present:
//   - rc_signedcoins_negative_uses_parseuint: a NEGATIVE SignedCoins whose own JSON text is rejected by UnmarshalJSON.
//   - rc_msgaddress_empty_extern_reads_as_none: an addr_extern of 0 bits, whose JSON text is "", parses back as addr_none
//     (and nothing else differs: the decoded value is exactly MsgAddress{SumType: "AddrNone"}).
//
// Everything else is rc_unclassified/<type>/<check> (or rc_panic/...).
func c20TlbCause(typeName, check string, v any, decoded any) string {
	switch {
	case typeName == "SignedCoins" && check == "unmarshal":
		if sc, ok := v.(SignedCoins); ok && sc < 0 {
			return "rc_signedcoins_negative_uses_parseuint"
		}
	case typeName == "MsgAddress" && check == "differs":
		a, ok := v.(MsgAddress)
		d, ok2 := decoded.(MsgAddress)
		if ok && ok2 && a.SumType == "AddrExtern" && a.AddrExtern != nil && a.AddrExtern.BitsAvailableForRead() == 0 &&
			vhDiff(d, MsgAddress{SumType: "AddrNone"}) == "" {
			return "rc_msgaddress_empty_extern_reads_as_none"
		}
	}
	if strings.HasPrefix(check, "panic") {
		return "rc_panic/" + typeName + "/" + check
	}
	return "rc_unclassified/" + typeName + "/" + check
}

func TestVerifStandin_C20_JSON(t *testing.T) {
	rng := vhRng()
	r := &c20Runner{stat: newVhStat("c20_json_tlb"), cause: c20TlbCause,
		fails: newVhFailures("rc_signedcoins_negative_uses_parseuint", "rc_msgaddress_empty_extern_reads_as_none", "rc_fixed_int_out_of_range_accepted")}
	g := newC03Gen(rng)

	// generated integer / bits types and the hand-written scalar forms
	var zeros []any
	zeros = append(zeros, vhFixedIntZeros...)
	zeros = append(zeros, vhBigIntZeros...)
	zeros = append(zeros, vhVarUintZeros...)
	zeros = append(zeros, vhBitsZeros...)
	zeros = append(zeros, Grams(0), SignedCoins(0))
	for i, z := range zeros {
		rt := reflect.TypeOf(z)
		if _, ok := reflect.New(rt).Interface().(json.Unmarshaler); !ok {
			t.Fatalf("%v has no UnmarshalJSON", rt)
		}
		var seeds []string
		vals := g.leafValues(rt)
		for _, v := range vals {
			s := r.roundTrip(v.Interface())
			if len(seeds) < 3 && s != "" {
				seeds = append(seeds, s)
			}
		}
		if len(vals) > 0 {
			seeds = append(seeds, r.roundTrip(vals[len(vals)-1].Interface()))
		}
		// malformed documents: all types in thorough tier; in quick tier every 8th integer width plus all the others
		fam, n, named := c03Named(rt)
		if vhThorough() || !named || (fam != "Uint" && fam != "Int" && fam != "VarUInteger") || n%8 == 0 || n < 3 || i%11 == 0 {
			r.mutate(rt, seeds)
		}
		// out-of-range numbers must be rejected by the fixed-width integers
		if named && rt.Kind() != reflect.Struct && (fam == "Uint" || fam == "Int") {
			lo, hi := big.NewInt(0), new(big.Int).Sub(vhPow2(n), big.NewInt(1))
			if fam == "Int" {
				lo, hi = new(big.Int).Neg(vhPow2(n-1)), new(big.Int).Sub(vhPow2(n-1), big.NewInt(1))
			}
			for _, out := range []*big.Int{new(big.Int).Sub(lo, big.NewInt(1)), new(big.Int).Add(hi, big.NewInt(1))} {
				for _, doc := range []string{out.String(), `"` + out.String() + `"`} {
					r.stat.add(rt.String() + "|range|" + doc)
					fresh := reflect.New(rt)
					var err error
					if p := vhSafe(func() { err = json.Unmarshal([]byte(doc), fresh.Interface()) }); p != "" {
						r.fails.add("rc_panic/"+rt.Name()+"/out_of_range", "%s: panic on %s: %s", rt, doc, p)
					} else if err == nil {
						// known finding, exactly this: Int1 (range -1..0) accepts -2 as -1, because strconv.ParseInt with
						// bitSize 1 clamps the magnitude to 1 and then does not report the range error. Any other width or
						// value accepted out of range is a different defect and gets its own name.
						cause := "rc_unclassified/" + rt.Name() + "/out_of_range_accepted"
						if rt.Name() == "Int1" && out.Cmp(big.NewInt(-2)) == 0 && fresh.Elem().Int() == -1 {
							cause = "rc_fixed_int_out_of_range_accepted"
						}
						r.fails.add(cause, "%s: document %s (outside %s..%s) accepted as %s", rt, doc, lo, hi, vhDump(fresh.Elem().Interface()))
					}
				}
			}
		}
	}

	// Magic
	var seeds []string
	for _, m := range []Magic{0, 1, 0x72, 0xffffffff, 0x80000000, Magic(rng.Uint32())} {
		seeds = append(seeds, r.roundTrip(m))
	}
	r.mutate(reflect.TypeOf(Magic(0)), seeds[:3])

	// Maybe
	for _, inner := range []any{Uint8(0), Int257{}, Grams(0), Bits256{}, MsgAddress{}, Any{}} {
		it := reflect.TypeOf(inner)
		var mv []any
		for _, v := range g.leafValues(it) {
			var m any
			switch x := v.Interface().(type) {
			case Uint8:
				m = Maybe[Uint8]{Exists: true, Value: x}
			case Int257:
				m = Maybe[Int257]{Exists: true, Value: x}
			case Grams:
				m = Maybe[Grams]{Exists: true, Value: x}
			case Bits256:
				m = Maybe[Bits256]{Exists: true, Value: x}
			case MsgAddress:
				if c20ExcludedAddr(x) || x.SumType == "AddrNone" || (x.SumType == "AddrExtern" && x.AddrExtern.BitsAvailableForRead() == 0) {
					continue // reported once under MsgAddress
				}
				m = Maybe[MsgAddress]{Exists: true, Value: x}
			case Any:
				m = Maybe[Any]{Exists: true, Value: x}
			}
			mv = append(mv, m)
		}
		switch inner.(type) {
		case Uint8:
			mv = append(mv, Maybe[Uint8]{})
		case Int257:
			mv = append(mv, Maybe[Int257]{})
		case Grams:
			mv = append(mv, Maybe[Grams]{})
		case Bits256:
			mv = append(mv, Maybe[Bits256]{})
		case MsgAddress:
			mv = append(mv, Maybe[MsgAddress]{})
		case Any:
			mv = append(mv, Maybe[Any]{})
		}
		seeds = nil
		for _, m := range mv {
			s := r.roundTrip(m)
			if len(seeds) < 2 {
				seeds = append(seeds, s)
			}
		}
		r.mutate(reflect.TypeOf(mv[0]), append(seeds, "null"))
	}

	// Any (cells)
	seeds = nil
	for i := 0; i < 12; i++ {
		c := vhRandCell(rng, i%4)
		seeds = append(seeds, r.roundTrip(Any(*c)))
	}
	seeds = append(seeds, r.roundTrip(Any(*boc.NewCell())))
	r.mutate(reflect.TypeOf(Any{}), []string{seeds[1], seeds[len(seeds)-1]})

	// MsgAddress
	seeds = nil
	rounds := 3
	if vhThorough() {
		rounds = 60
	}
	byKind := map[SumType]string{}
	for i := 0; i < rounds; i++ {
		for _, a := range c03MkMsgAddresses(rng) {
			if c20ExcludedAddr(a) {
				continue
			}
			s := r.roundTrip(a)
			key := a.SumType
			if a.SumType == "AddrStd" && a.AddrStd.Anycast.Exists {
				key += "+anycast"
			}
			if a.SumType == "AddrVar" && a.AddrVar.Anycast.Exists {
				key += "+anycast"
			}
			if s != "" {
				byKind[key] = s
			}
		}
	}
	// std addresses over all int8 workchains, var addresses just outside
	for wc := -128; wc <= 127; wc++ {
		a := MsgAddress{SumType: "AddrStd"}
		a.AddrStd.WorkchainId = int8(wc)
		rng.Read(a.AddrStd.Address[:])
		r.roundTrip(a)
	}
	for _, wc := range []int32{-129, 128, 1<<31 - 1, -1 << 31, 256, -256} {
		for _, n := range []int{256, 255, 8, 0} {
			a := MsgAddress{SumType: "AddrVar"}
			a.AddrVar = &struct {
				Anycast     Maybe[Anycast]
				AddrLen     Uint9
				WorkchainId int32
				Address     boc.BitString
			}{AddrLen: Uint9(n), WorkchainId: wc, Address: vhBitStringFromBits(vhRandBits(rng, n))}
			r.roundTrip(a)
		}
	}
	for _, s := range byKind {
		seeds = append(seeds, s)
	}
	r.mutate(reflect.TypeOf(MsgAddress{}), seeds)

	r.fails.report(t)
	r.stat.print()
}

// c20ExcludedAddr: the variable-length address whose text is identical to a standard one (property C20 excludes it).
func c20ExcludedAddr(a MsgAddress) bool {
	return a.SumType == "AddrVar" && a.AddrVar.AddrLen == 256 && a.AddrVar.WorkchainId >= -128 && a.AddrVar.WorkchainId <= 127
}
