//go:build verif

package tlb

// Helpers of the bounded stand-in C18 (never counted as proved).
//
// c18Hasher is a compact INDEPENDENT implementation of the TON representation hash / depth / level that only uses the
// public API of boc.Cell (RawBitString, BitSize, Refs, CellType); it never calls Cell.Hash or any level-mask helper.
// Specification (TON whitepaper, exotic cells):
//   mask(c):  ordinary = OR of children; pruned branch = 2nd data byte; library = 0; Merkle proof/update = OR(children) >> 1
//   Hash_i(c): mi = mask & (2^i-1), j = bitlen(mi);
//     pruned branch with mi != mask: popcount(mi)-th stored hash (data = 01 | mask | hashes | depths);
//     else SHA256( d1 | d2 | body | child depths (2B BE) | child hashes ),  d1 = refs + 8*exotic + 32*mi,
//          d2 = ceil(bits/8)+floor(bits/8), body = padded data (completion tag) if j == 0 or pruned, else Hash_{j-1}(c),
//          children taken at level j (j+1 under a Merkle cell); Depth = 0 without refs else 1 + max child depth.
//
// c18Walk interprets a `Hashmap n X` tree (hm_edge / HmLabel: hml_short$0, hml_long$10, hml_same$11; hmn_fork with two refs)
// directly from the TL-B schema, independently of tlb/hashmap.go.

import (
	"crypto/sha256"
	"errors"
	"fmt"
	"math/bits"
	"os"
	"strconv"
	"testing"

	"github.com/tonkeeper/tongo/boc"
)

func c18Seed() int64 {
	if s, err := strconv.ParseInt(os.Getenv("VERIF_SEED"), 10, 64); err == nil {
		return s
	}
	return 1
}

type c18Reporter struct {
	t      *testing.T
	max    int
	counts map[string]int
}

func (r *c18Reporter) errorf(format string, args ...interface{}) {
	if r.counts == nil {
		r.counts = map[string]int{}
	}
	r.counts[format]++
	if r.counts[format] <= r.max {
		r.t.Errorf(format, args...)
	}
}

func (r *c18Reporter) done() {
	for k, c := range r.counts {
		if c > r.max {
			r.t.Errorf("%d failures of the kind %q, only the first %d printed", c, k, r.max)
		}
	}
}

type c18HD struct {
	hash  [32]byte
	depth int
}

type c18Key struct {
	c     *boc.Cell
	level int
}

type c18Hasher struct {
	hd    map[c18Key]c18HD
	masks map[*boc.Cell]int
}

func newC18Hasher() *c18Hasher {
	return &c18Hasher{hd: map[c18Key]c18HD{}, masks: map[*boc.Cell]int{}}
}

// c18Data returns the padded data bytes (with completion tag) and the bit length.
func c18Data(c *boc.Cell) ([]byte, int) {
	n := c.BitSize()
	bs := c.RawBitString()
	buf := bs.Buffer()
	out := make([]byte, (n+7)/8)
	copy(out, buf[:(n+7)/8])
	if r := uint(n % 8); r != 0 {
		out[n/8] = out[n/8]&(0xff<<(8-r)) | 0x80>>r
	}
	return out, n
}

// c18Bits returns the data bits as a list.
func c18Bits(c *boc.Cell) []bool {
	d, n := c18Data(c)
	out := make([]bool, n)
	for i := range out {
		out[i] = d[i/8]&(0x80>>uint(i%8)) != 0
	}
	return out
}

func (h *c18Hasher) mask(c *boc.Cell) (int, error) {
	if m, ok := h.masks[c]; ok {
		return m, nil
	}
	data, nb := c18Data(c)
	kids := c.Refs()
	or := 0
	for _, k := range kids {
		km, err := h.mask(k)
		if err != nil {
			return 0, err
		}
		or |= km
	}
	if c.CellType() != boc.OrdinaryCell && (nb < 8 || data[0] != byte(c.CellType())) {
		return 0, fmt.Errorf("reference: exotic cell of type %d with data %x", c.CellType(), data)
	}
	m := 0
	switch c.CellType() {
	case boc.OrdinaryCell:
		m = or
	case boc.PrunedBranchCell:
		if len(kids) != 0 || nb < 16 {
			return 0, errors.New("reference: malformed pruned branch")
		}
		m = int(data[1])
		if m < 1 || m > 7 || nb != 16+bits.OnesCount(uint(m))*272 {
			return 0, fmt.Errorf("reference: pruned branch with mask %d and %d bits", m, nb)
		}
	case boc.LibraryCell:
		if len(kids) != 0 || nb != 264 {
			return 0, errors.New("reference: malformed library cell")
		}
	case boc.MerkleProofCell:
		if len(kids) != 1 || nb != 280 {
			return 0, errors.New("reference: malformed merkle proof")
		}
		m = or >> 1
	case boc.MerkleUpdateCell:
		if len(kids) != 2 || nb != 552 {
			return 0, errors.New("reference: malformed merkle update")
		}
		m = or >> 1
	default:
		return 0, fmt.Errorf("reference: unknown cell type %d", c.CellType())
	}
	h.masks[c] = m
	return m, nil
}

func (h *c18Hasher) hashDepth(c *boc.Cell, level int) (c18HD, error) {
	if v, ok := h.hd[c18Key{c, level}]; ok {
		return v, nil
	}
	var res c18HD
	m, err := h.mask(c)
	if err != nil {
		return res, err
	}
	mi := m & (1<<uint(level) - 1)
	data, nb := c18Data(c)
	kids := c.Refs()
	pruned := c.CellType() == boc.PrunedBranchCell
	if pruned && mi != m {
		idx, n := bits.OnesCount(uint(mi)), bits.OnesCount(uint(m))
		copy(res.hash[:], data[2+32*idx:])
		res.depth = int(data[2+32*n+2*idx])<<8 | int(data[2+32*n+2*idx+1])
		h.hd[c18Key{c, level}] = res
		return res, nil
	}
	j := bits.Len(uint(mi))
	d1 := len(kids) + 32*mi
	if c.CellType() != boc.OrdinaryCell {
		d1 += 8
	}
	repr := []byte{byte(d1), byte((nb+7)/8 + nb/8)}
	if j == 0 || pruned {
		repr = append(repr, data...)
	} else {
		prev, err := h.hashDepth(c, j-1)
		if err != nil {
			return res, err
		}
		repr = append(repr, prev.hash[:]...)
	}
	cl := j
	if c.CellType() == boc.MerkleProofCell || c.CellType() == boc.MerkleUpdateCell {
		cl++
	}
	var hashes []byte
	for _, k := range kids {
		kv, err := h.hashDepth(k, cl)
		if err != nil {
			return res, err
		}
		repr = append(repr, byte(kv.depth>>8), byte(kv.depth))
		hashes = append(hashes, kv.hash[:]...)
		if kv.depth+1 > res.depth {
			res.depth = kv.depth + 1
		}
	}
	if res.depth > 1024 {
		return res, errors.New("reference: depth exceeds 1024")
	}
	res.hash = sha256.Sum256(append(repr, hashes...))
	h.hd[c18Key{c, level}] = res
	return res, nil
}

// c18Dump prints a tree (with repetition of shared cells) in a replayable form.
func c18Dump(c *boc.Cell) string {
	d, n := c18Data(c)
	s := fmt.Sprintf("(t%d %db %x", c.CellType(), n, d)
	for _, r := range c.Refs() {
		s += " " + c18Dump(r)
	}
	return s + ")"
}

// c18Label parses an HmLabel ~l n at position pos of b and returns the label bits and the new position.
func c18Label(b []bool, pos int, n int) ([]bool, int, error) {
	need := func(k int) error {
		if pos+k > len(b) {
			return errors.New("dictionary walk: label runs out of the cell")
		}
		return nil
	}
	lenBits := bits.Len(uint(n)) // #<= n
	readUint := func(k int) (int, error) {
		if err := need(k); err != nil {
			return 0, err
		}
		v := 0
		for i := 0; i < k; i++ {
			v <<= 1
			if b[pos] {
				v |= 1
			}
			pos++
		}
		return v, nil
	}
	if err := need(1); err != nil {
		return nil, 0, err
	}
	if !b[pos] { // hml_short$0 len:(Unary ~n) s:(n * Bit)
		pos++
		l := 0
		for {
			if err := need(1); err != nil {
				return nil, 0, err
			}
			one := b[pos]
			pos++
			if !one {
				break
			}
			l++
		}
		if err := need(l); err != nil || l > n {
			return nil, 0, errors.New("dictionary walk: bad short label")
		}
		lab := append([]bool{}, b[pos:pos+l]...)
		return lab, pos + l, nil
	}
	pos++
	if err := need(1); err != nil {
		return nil, 0, err
	}
	if !b[pos] { // hml_long$10 n:(#<= m) s:(n * Bit)
		pos++
		l, err := readUint(lenBits)
		if err != nil || l > n {
			return nil, 0, errors.New("dictionary walk: bad long label")
		}
		if err := need(l); err != nil {
			return nil, 0, err
		}
		lab := append([]bool{}, b[pos:pos+l]...)
		return lab, pos + l, nil
	}
	pos++ // hml_same$11 v:Bit n:(#<= m)
	if err := need(1); err != nil {
		return nil, 0, err
	}
	v := b[pos]
	pos++
	l, err := readUint(lenBits)
	if err != nil || l > n {
		return nil, 0, errors.New("dictionary walk: bad same label")
	}
	lab := make([]bool, l)
	for i := range lab {
		lab[i] = v
	}
	return lab, pos, nil
}

type c18WalkResult struct {
	found    bool
	path     []*boc.Cell // cells on the way, root first, leaf last
	siblings []*boc.Cell // the other branch at every fork passed
	value    []bool      // bits of the leaf behind the label
	leaf     *boc.Cell
}

// c18Walk follows key through the Hashmap rooted at root.
func c18Walk(root *boc.Cell, key []bool) (c18WalkResult, error) {
	var res c18WalkResult
	n := len(key)
	off := 0
	c := root
	for {
		if c.CellType() != boc.OrdinaryCell {
			return res, fmt.Errorf("dictionary walk: reached a cell of type %d on the path", c.CellType())
		}
		res.path = append(res.path, c)
		b := c18Bits(c)
		lab, pos, err := c18Label(b, 0, n)
		if err != nil {
			return res, err
		}
		for i, x := range lab {
			if key[off+i] != x {
				return res, nil // not found
			}
		}
		off += len(lab)
		n -= len(lab)
		if n == 0 {
			res.found = true
			res.value = b[pos:]
			res.leaf = c
			return res, nil
		}
		kids := c.Refs()
		if len(kids) != 2 {
			return res, fmt.Errorf("dictionary walk: fork with %d refs", len(kids))
		}
		bit := 0
		if key[off] {
			bit = 1
		}
		off++
		n--
		res.siblings = append(res.siblings, kids[1-bit])
		c = kids[bit]
	}
}
