//go:build verif

package tlb

// Bounded stand-in for C04, gap "EXOTIC cells at raw-cell positions" (labelled bounded, never counted as proved):
// a library cell (8-bit tag 02 + 256-bit hash), a pruned branch, a Merkle proof or a Merkle update cell sitting
// wherever the TL-B schema puts a raw cell: fields of Go type boc.Cell / *boc.Cell / Ref[boc.Cell] / `tlb:"^"` /
// `tlb:"maybe^"`, Maybe / Either / EitherRef of such references, children of an inline or referenced tlb.Any, values of
// dictionaries, StateInit code / data / library (SimpleLib root), AccountStorage, message init and body (inline and in a
// reference, external and internal), Transaction in_msg / out_msgs, InMsg proof_created / proof_delivered,
// TransactionDescr prepare_transaction, VmStack cell / builder / slice entries, LibDescr, ConfigParams, BlockProof,
// BlockExtra, ConfigProposal.
//
// Oracle (never the codec under test): every source tree is written BY HAND from the schema as a tree of c04bNode
// (cell type, ideal bit list, children); level masks, depths and representation hashes of the nodes come from c04bSpec, a
// node-level implementation of the TON exotic-cell rules (mask: ordinary = OR of children, pruned = 2nd data byte,
// library = 0, Merkle = OR(children) >> 1; level-dependent hash as in refhash_helper_test.go). The tree is written into
// bag-of-cells bytes by a test-side WRITER (c04bBoc) that puts the specification's level mask and the exotic flag into
// every descriptor, and parsed with boc.DeserializeBoc, so that every source cell carries the right type and level mask.
// The second independent hasher (c18Hasher, works on *boc.Cell through the public API) has to agree with c04bSpec on
// every source tree. Dictionaries of the sources use the label forms the library's encoder emits (hml_short below 8
// bits, hml_long otherwise; any form is schema-valid, the freedom of the label form is the business of c04_test.go).
//
// Per case (position x exotic kind x nesting):
//   decode direction: tlb.Unmarshal(source) -> tlb.Marshal(decoded value): no panic; the re-encoded tree must be
//     identical to the source node by node (bits, number of references, cell TYPE; stored level mask of every cell at or
//     below the raw position), the reference hash (c18Hasher) of the re-encoded root and the library's own Hash of every
//     raw sub-tree and (root of level 0) of the root must equal the hash of the source computed by c04bSpec.
//     Accepted instead, and counted: (1) the decoder REFUSES a library cell with an error naming it ("library cell ...")
//     at the positions whose decoder documents that (`^` / `maybe^` on *boc.Cell and on Any); (2) a PRUNED BRANCH that is
//     itself the referenced cell of `^` / `maybe^` / Ref[T] is skipped by design (decoder.go, Ref.UnmarshalTLB: the value
//     stays zero, partial trees of proofs decode); then only "no error, no panic" is required of decode / re-encode.
//   encode direction: the Go value written by hand with the exotic cell in the field -> tlb.Marshal: same comparison
//     (all four kinds, the pruned branch included: the encoder has to hand every raw cell on unchanged).
//   Not required (only counted, C04-EXOTIC-INFO lines): the stored level mask / library hash of cells BUILT BY THE
//     ENCODER above a raw sub-tree of level > 0 (a bare pruned branch outside a Merkle cell): tlb.Marshal never assigns
//     level masks, they only come from the bag-of-cells parser and the prover; C04 speaks about bits and references.
//
// Bound. Raw sub-trees: kind in {library, pruned (mask 1), merkle_proof, merkle_update} x nesting in {direct,
// in_ordinary (ordinary cell with a plain child and the exotic child), in_merkle_proof (proof over an ordinary cell
// holding the exotic child), in_merkle_update}; random hashes / payload bits from rand.New(rand.NewSource(VERIF_SEED)).
//   TestVerifStandin_C04_ExoticCellRoundTrip / TestVerifStandin_C04_ExoticCellEncode: every position of c04bPositions
//     (54) x 4 kinds x {direct + one rotating depth-2 nesting} (quick: 432 cases each); thorough: x all 4 nestings x 25
//     rounds of fresh random hashes / payloads (21600 cases each).
//   TestVerifStandin_C04_ExoticAnyRef: the exotic cell IS the referenced cell of a `^Any` (Any `tlb:"^"`, *Any
//     `maybe^`, Ref[Any], EitherRef[Any] = message body in a reference, dictionary value ^Any, prepare_transaction):
//     decode direction with the same oracle, 7 positions x 4 kinds x nestings with an exotic root. Its own test: a
//     separate class of inputs with its own root cause (see "Finding" below).
//   TestVerifStandin_C04_ExoticTypedRefNoPanic: the exotic cell sits where the schema has a reference to a TYPED value
//     (^StateInit, ^Message, ^MsgEnvelope, dictionary root, VmStackList rest ...): decode and re-encode must not panic
//     (error, skip or lenient reading are all accepted and counted).
//   TestVerifStandin_C04_ExoticPositionsCovered: reflection walk over the exported types listed in c04bRootTypes: every
//     struct field whose type is / contains a raw cell must be named by a position above or by an explicit exclusion.

//
// Finding on the tree this stand-in was written against (ExoticAnyRef / rc_any_ref_exotic_cell_reencoded_as_ordinary; the
// other four tests pass): a tlb.Any holds bits and references only. When the cell referenced as ^Any is a library cell
// and the field is Ref[Any] / EitherRef[Any] (message body in a reference, dictionary value), decode() stores the whole
// library cell in the Any (decoder.go, "todo: remove") and Any.MarshalTLB writes its bits into a fresh ORDINARY cell; a
// Merkle proof / update (and, for EitherRef, a pruned branch) loses its type already in Any.UnmarshalTLB (CopyRemaining).
// No error either way: e.g. a Message whose body reference is a library cell decodes and re-encodes to another hash.
// (Any `tlb:"^"` / *Any `maybe^` refuse the library cell with an error and skip a pruned branch, which is accepted.)

import (
	"crypto/sha256"
	"fmt"
	"math/bits"
	"math/rand"
	"reflect"
	"sort"
	"strings"
	"testing"

	"github.com/tonkeeper/tongo/boc"
)

// ---- source trees written by hand ----

type c04bNode struct {
	typ  boc.CellType
	bits string
	refs []*c04bNode
	raw  bool // sits at or below a raw-cell position: the codec has to hand this cell on unchanged
}

func c04bOrd(bits string, refs ...*c04bNode) *c04bNode { return &c04bNode{bits: bits, refs: refs} }

func (n *c04bNode) markRaw() *c04bNode {
	n.raw = true
	for _, r := range n.refs {
		r.markRaw()
	}
	return n
}

// data: the data bytes with the completion tag.
func (n *c04bNode) data() []byte {
	s := n.bits
	if len(s)%8 != 0 {
		s += "1"
		s += strings.Repeat("0", (8-len(s)%8)%8)
	}
	out := make([]byte, len(s)/8)
	for i := 0; i < len(s); i++ {
		if s[i] == '1' {
			out[i/8] |= 0x80 >> uint(i%8)
		}
	}
	return out
}

func (n *c04bNode) dump() string {
	var sb strings.Builder
	if n.typ != boc.OrdinaryCell {
		fmt.Fprintf(&sb, "x%d:", n.typ)
	}
	sb.WriteString(vhBin2Hex(n.bits))
	if len(n.refs) > 0 {
		sb.WriteByte('{')
		for i, r := range n.refs {
			if i > 0 {
				sb.WriteByte(',')
			}
			sb.WriteString(r.dump())
		}
		sb.WriteByte('}')
	}
	return sb.String()
}

// c04bSpec: level mask, depth and level-dependent hash of a node tree, from the TON specification of exotic cells.
type c04bHD struct {
	hash  [32]byte
	depth int
}

type c04bKey struct {
	n     *c04bNode
	level int
}

type c04bSpec struct {
	hd    map[c04bKey]c04bHD
	masks map[*c04bNode]int
}

func newC04bSpec() *c04bSpec { return &c04bSpec{hd: map[c04bKey]c04bHD{}, masks: map[*c04bNode]int{}} }

func (s *c04bSpec) mask(n *c04bNode) int {
	if m, ok := s.masks[n]; ok {
		return m
	}
	or := 0
	for _, k := range n.refs {
		or |= s.mask(k)
	}
	m := 0
	switch n.typ {
	case boc.OrdinaryCell:
		m = or
	case boc.PrunedBranchCell:
		m = int(n.data()[1])
	case boc.LibraryCell:
		m = 0
	case boc.MerkleProofCell, boc.MerkleUpdateCell:
		m = or >> 1
	default:
		panic("oracle: unknown cell type")
	}
	s.masks[n] = m
	return m
}

func (s *c04bSpec) hashDepth(n *c04bNode, level int) c04bHD {
	if v, ok := s.hd[c04bKey{n, level}]; ok {
		return v
	}
	var res c04bHD
	m := s.mask(n)
	mi := m & (1<<uint(level) - 1)
	data := n.data()
	pruned := n.typ == boc.PrunedBranchCell
	if pruned && mi != m {
		idx, cnt := bits.OnesCount(uint(mi)), bits.OnesCount(uint(m))
		copy(res.hash[:], data[2+32*idx:])
		res.depth = int(data[2+32*cnt+2*idx])<<8 | int(data[2+32*cnt+2*idx+1])
		s.hd[c04bKey{n, level}] = res
		return res
	}
	j := bits.Len(uint(mi))
	d1 := len(n.refs) + 32*mi
	if n.typ != boc.OrdinaryCell {
		d1 += 8
	}
	nb := len(n.bits)
	repr := []byte{byte(d1), byte((nb+7)/8 + nb/8)}
	if j == 0 || pruned {
		repr = append(repr, data...)
	} else {
		prev := s.hashDepth(n, j-1)
		repr = append(repr, prev.hash[:]...)
	}
	cl := j
	if n.typ == boc.MerkleProofCell || n.typ == boc.MerkleUpdateCell {
		cl++
	}
	var hashes []byte
	for _, k := range n.refs {
		kv := s.hashDepth(k, cl)
		repr = append(repr, byte(kv.depth>>8), byte(kv.depth))
		hashes = append(hashes, kv.hash[:]...)
		if kv.depth+1 > res.depth {
			res.depth = kv.depth + 1
		}
	}
	res.hash = sha256.Sum256(append(repr, hashes...))
	s.hd[c04bKey{n, level}] = res
	return res
}

func (s *c04bSpec) reprHash(n *c04bNode) string {
	hd := s.hashDepth(n, 3)
	return fmt.Sprintf("%x", hd.hash[:])
}

// ---- exotic cells from the specification ----

func c04bRandBytes(rng *rand.Rand, n int) []byte {
	b := make([]byte, n)
	rng.Read(b)
	return b
}

// library cell: 8-bit tag 02, 256-bit hash of the library.
func c04bLibrary(rng *rand.Rand) *c04bNode {
	return &c04bNode{typ: boc.LibraryCell, bits: vhU64Bits(2, 8) + vhBytesBits(c04bRandBytes(rng, 32))}
}

// pruned branch of level mask 1: tag 01, mask 01, hash and depth of the sub-tree it stands for.
func c04bPruned(rng *rand.Rand) *c04bNode {
	return &c04bNode{typ: boc.PrunedBranchCell, bits: vhU64Bits(1, 8) + vhU64Bits(1, 8) + vhBytesBits(c04bRandBytes(rng, 32)) + vhU64Bits(uint64(rng.Intn(40)), 16)}
}

// Merkle proof: tag 03, level-0 hash and depth of the only child.
func (s *c04bSpec) merkleProof(child *c04bNode) *c04bNode {
	hd := s.hashDepth(child, 0)
	return &c04bNode{typ: boc.MerkleProofCell, bits: vhU64Bits(3, 8) + vhBytesBits(hd.hash[:]) + vhU64Bits(uint64(hd.depth), 16), refs: []*c04bNode{child}}
}

// Merkle update: tag 04, level-0 hashes of both children, then both depths.
func (s *c04bSpec) merkleUpdate(a, b *c04bNode) *c04bNode {
	ha, hb := s.hashDepth(a, 0), s.hashDepth(b, 0)
	return &c04bNode{typ: boc.MerkleUpdateCell, bits: vhU64Bits(4, 8) + vhBytesBits(ha.hash[:]) + vhBytesBits(hb.hash[:]) +
		vhU64Bits(uint64(ha.depth), 16) + vhU64Bits(uint64(hb.depth), 16), refs: []*c04bNode{a, b}}
}

var c04bKinds = []string{"library", "pruned", "merkle_proof", "merkle_update"}
var c04bWraps = []string{"direct", "in_ordinary", "in_merkle_proof", "in_merkle_update"}

func c04bPayload(rng *rand.Rand) string {
	return vhRandBits(rng, []int{0, 1, 8, 31, 32, 64, 100}[rng.Intn(7)])
}

// c04bRawTree builds the sub-tree that is put at a raw-cell position.
func c04bRawTree(s *c04bSpec, rng *rand.Rand, kind, wrap string) *c04bNode {
	var x *c04bNode
	switch kind {
	case "library":
		x = c04bLibrary(rng)
	case "pruned":
		x = c04bPruned(rng)
	case "merkle_proof":
		x = s.merkleProof(c04bOrd(c04bPayload(rng), c04bOrd(c04bPayload(rng))))
	case "merkle_update":
		x = s.merkleUpdate(c04bOrd(c04bPayload(rng)), c04bOrd(c04bPayload(rng), c04bOrd(c04bPayload(rng))))
	default:
		panic(kind)
	}
	var r *c04bNode
	switch wrap {
	case "direct":
		r = x
	case "in_ordinary":
		r = c04bOrd(c04bPayload(rng), c04bOrd(c04bPayload(rng)), x)
	case "in_merkle_proof":
		r = s.merkleProof(c04bOrd(c04bPayload(rng), x))
	case "in_merkle_update":
		r = s.merkleUpdate(c04bOrd(c04bPayload(rng), x), c04bOrd(c04bPayload(rng), c04bPruned(rng)))
	default:
		panic(wrap)
	}
	return r.markRaw()
}

// ---- test-side bag-of-cells writer (serialized_boc#b5ee9c72, no index, no crc) ----

func c04bBoc(s *c04bSpec, root *c04bNode) []byte {
	type ent struct {
		n    *c04bNode
		refs []int
	}
	var cells []ent
	var walk func(n *c04bNode) int
	walk = func(n *c04bNode) int {
		i := len(cells)
		cells = append(cells, ent{n: n})
		for _, r := range n.refs {
			j := walk(r) // pre-order: every child gets a larger index than its parent
			cells[i].refs = append(cells[i].refs, j)
		}
		return i
	}
	walk(root)
	var body []byte
	for _, e := range cells {
		d1 := len(e.refs) + 32*s.mask(e.n)
		if e.n.typ != boc.OrdinaryCell {
			d1 += 8
		}
		nb := len(e.n.bits)
		body = append(body, byte(d1), byte((nb+7)/8+nb/8))
		body = append(body, e.n.data()...)
		for _, r := range e.refs {
			body = append(body, byte(r>>8), byte(r))
		}
	}
	n := len(cells)
	out := []byte{0xb5, 0xee, 0x9c, 0x72, 0x02, 0x03}  // flags 0, ref size 2, offset size 3
	out = append(out, byte(n>>8), byte(n), 0, 1, 0, 0) // cells, roots = 1, absent = 0
	out = append(out, byte(len(body)>>16), byte(len(body)>>8), byte(len(body)))
	out = append(out, 0, 0) // root list: cell 0
	return append(out, body...)
}

func c04bStoredMask(c *boc.Cell) int {
	return int(reflect.ValueOf(c).Elem().FieldByName("mask").Uint())
}

// c04bMaterialize turns a node tree into library cells (through the parser) and checks that they are what was written.
func c04bMaterialize(s *c04bSpec, root *c04bNode) (*boc.Cell, error) {
	raw := c04bBoc(s, root)
	var cells []*boc.Cell
	var err error
	if p := vhSafe(func() { cells, err = boc.DeserializeBoc(raw) }); p != "" {
		return nil, fmt.Errorf("DeserializeBoc panics: %s (boc %x)", p, raw)
	}
	if err != nil || len(cells) != 1 {
		return nil, fmt.Errorf("DeserializeBoc: %v, %d roots (boc %x)", err, len(cells), raw)
	}
	var check func(c *boc.Cell, n *c04bNode, path string) error
	check = func(c *boc.Cell, n *c04bNode, path string) error {
		if c.CellType() != n.typ || vhCellBits(c) != n.bits || len(c.Refs()) != len(n.refs) || c04bStoredMask(c) != s.mask(n) {
			return fmt.Errorf("parsed source differs from what was written at %s: type %d mask %d bits %s, written type %d mask %d bits %s (boc %x)",
				path, c.CellType(), c04bStoredMask(c), vhBin2Hex(vhCellBits(c)), n.typ, s.mask(n), vhBin2Hex(n.bits), raw)
		}
		for i, r := range c.Refs() {
			if err := check(r, n.refs[i], fmt.Sprintf("%s.%d", path, i)); err != nil {
				return err
			}
		}
		return nil
	}
	if err := check(cells[0], root, "root"); err != nil {
		return nil, err
	}
	return cells[0], nil
}

// ---- comparison of a tree produced by the library with the node tree ----

type c04bIssue struct{ cause, msg string }

type c04bCmp struct {
	s       *c04bSpec
	dir     string // "reencode" or "encode"
	issues  []c04bIssue
	ancMask int // encoder-built cells whose stored level mask differs from the specification (informational)
}

func (k *c04bCmp) add(cause, format string, args ...any) {
	k.issues = append(k.issues, c04bIssue{cause, fmt.Sprintf(format, args...)})
}

func (k *c04bCmp) tree(c *boc.Cell, n *c04bNode, path string, parentRaw bool) {
	if c.CellType() != n.typ {
		if c.CellType() == boc.OrdinaryCell {
			k.add("rc_exotic_type_lost_on_"+k.dir, "%s: cell of type %d came out as an ORDINARY cell (bits %s)", path, n.typ, vhBin2Hex(vhCellBits(c)))
		} else {
			k.add("rc_cell_type_changed_on_"+k.dir, "%s: cell type %d, source %d", path, c.CellType(), n.typ)
		}
	}
	if b := vhCellBits(c); b != n.bits {
		k.add("rc_bits_differ_on_"+k.dir, "%s: bits %s (%d), source %s (%d)", path, vhBin2Hex(b), len(b), vhBin2Hex(n.bits), len(n.bits))
	}
	if got, want := c04bStoredMask(c), k.s.mask(n); got != want {
		if n.raw {
			k.add("rc_level_mask_lost", "%s: stored level mask %d, source %d (cell type %d)", path, got, want, n.typ)
		} else {
			k.ancMask++
		}
	}
	if n.raw && !parentRaw {
		// the library's own hash of the raw sub-tree (depends on the stored type and level masks)
		if h, want := vhHash(c), k.s.reprHash(n); h != want {
			k.add("rc_raw_subtree_library_hash_differs", "%s: library hash %s, source %s", path, h, want)
		}
	}
	refs := c.Refs()
	if len(refs) != len(n.refs) {
		k.add("rc_refs_differ_on_"+k.dir, "%s: %d references, source %d", path, len(refs), len(n.refs))
		return
	}
	for i, r := range refs {
		k.tree(r, n.refs[i], fmt.Sprintf("%s.%d", path, i), n.raw)
	}
}

// c04bCompareTree: full oracle for a produced root against the source node tree.
func c04bCompareTree(s *c04bSpec, dir string, got *boc.Cell, want *c04bNode, info map[string]int) []c04bIssue {
	k := &c04bCmp{s: s, dir: dir}
	k.tree(got, want, "root", false)
	wantHash := s.reprHash(want)
	hd, err := newC18Hasher().hashDepth(got, 3)
	if err != nil {
		k.add("rc_reencoded_hash_differs", "reference hasher rejects the produced tree: %v", err)
	} else if h := fmt.Sprintf("%x", hd.hash[:]); h != wantHash {
		k.add("rc_reencoded_hash_differs", "reference hash of the produced root %s, source %s", h, wantHash)
	}
	if s.mask(want) == 0 {
		if h := vhHash(got); h != wantHash {
			k.add("rc_reencoded_library_hash_differs", "library hash of the produced root %s, source %s", h, wantHash)
		}
	} else {
		info["root_of_level_gt0"]++
		if vhHash(got) != wantHash {
			info["root_of_level_gt0.library_hash_differs(not required)"]++
		}
	}
	if k.ancMask > 0 {
		info["encoder_built_cells_without_level_mask(not required)"] += k.ancMask
	}
	return k.issues
}

// ---- dictionaries of the sources (Hashmap n X, label forms as emitted by the library: short below 8 bits, else long) ----

type c04bEntry struct {
	key  string // n key bits
	bits string // value bits
	refs []*c04bNode
}

// c04bDictEdge returns bits and references of the hm_edge of (Hashmap n X) holding the entries.
func c04bDictEdge(n int, es []c04bEntry) (string, []*c04bNode) {
	sorted := append([]c04bEntry{}, es...)
	sort.Slice(sorted, func(i, j int) bool { return sorted[i].key < sorted[j].key })
	var build func(ls []c04bEntry, pos, n int) (string, []*c04bNode)
	build = func(ls []c04bEntry, pos, n int) (string, []*c04bNode) {
		first, last := ls[0].key[pos:], ls[len(ls)-1].key[pos:]
		l := 0
		for l < len(first) && first[l] == last[l] {
			l++
		}
		kind := "long"
		if l < 8 {
			kind = "short"
		}
		b := vhEncodeLabel(kind, first[:l], n)
		if len(ls) == 1 {
			return b + ls[0].bits, ls[0].refs
		}
		split := sort.Search(len(ls), func(i int) bool { return ls[i].key[pos+l] == '1' })
		lb, lr := build(ls[:split], pos+l+1, n-l-1)
		rb, rr := build(ls[split:], pos+l+1, n-l-1)
		return b, []*c04bNode{c04bOrd(lb, lr...), c04bOrd(rb, rr...)}
	}
	return build(sorted, 0, n)
}

func c04bDictRoot(n int, es []c04bEntry) *c04bNode {
	b, r := c04bDictEdge(n, es)
	return c04bOrd(b, r...)
}

// ---- fixed pieces of the schemas used by the positions ----

const c04bPlainBits = "11001010111111101011101010111110" // cafebabe

func c04bPlainNode() *c04bNode { return c04bOrd(c04bPlainBits) }
func c04bPlainCell() *boc.Cell {
	c, _ := vhCellFromBits(c04bPlainBits)
	return c
}

func c04bFill(b byte) (out [32]byte) {
	for i := range out {
		out[i] = b + byte(i)
	}
	return
}

var (
	c04bAddrA = c04bFill(0x11)
	c04bAddrB = c04bFill(0x52)
	c04bKeyA  = c04bFill(0x07) // dictionary keys: first bits 0000 0111 / 1010 0011
	c04bKeyB  = c04bFill(0xa3)
)

// addr_std$10 anycast:(Maybe Anycast) workchain_id:int8 address:bits256
func c04bAddrStdBits(a [32]byte) string { return "10" + "0" + vhI64Bits(0, 8) + vhBytesBits(a[:]) }
func c04bAddrStd(a [32]byte) MsgAddress {
	m := MsgAddress{SumType: "AddrStd"}
	m.AddrStd.Address = a
	return m
}

// ext_in_msg_info$10 src:MsgAddressExt (addr_none$00) dest:MsgAddressInt import_fee:Grams (0)
func c04bExtInBits() string { return "10" + "00" + c04bAddrStdBits(c04bAddrA) + "0000" }
func c04bExtIn() CommonMsgInfo {
	return CommonMsgInfo{SumType: "ExtInMsgInfo", ExtInMsgInfo: &struct {
		Src       MsgAddress
		Dest      MsgAddress
		ImportFee VarUInteger16
	}{Src: MsgAddress{SumType: "AddrNone"}, Dest: c04bAddrStd(c04bAddrA)}}
}

// int_msg_info$0 ihr_disabled:Bool bounce:Bool bounced:Bool src dest value:CurrencyCollection ihr_fee:Grams fwd_fee:Grams
// created_lt:uint64 created_at:uint32;   value = 1000 nanograms (VarUInteger 16: len 2), no extra currencies
func c04bIntBits() string {
	return "0" + "1" + "0" + "0" + c04bAddrStdBits(c04bAddrA) + c04bAddrStdBits(c04bAddrB) +
		"0010" + vhU64Bits(1000, 16) + "0" + "0000" + "0000" + vhU64Bits(77, 64) + vhU64Bits(1700000000, 32)
}
func c04bInt() CommonMsgInfo {
	return CommonMsgInfo{SumType: "IntMsgInfo", IntMsgInfo: &struct {
		IhrDisabled bool
		Bounce      bool
		Bounced     bool
		Src         MsgAddress
		Dest        MsgAddress
		Value       CurrencyCollection
		IhrFee      Grams
		FwdFee      Grams
		CreatedLt   uint64
		CreatedAt   uint32
	}{IhrDisabled: true, Src: c04bAddrStd(c04bAddrA), Dest: c04bAddrStd(c04bAddrB), Value: CurrencyCollection{Grams: 1000}, CreatedLt: 77, CreatedAt: 1700000000}}
}

func c04bRefCell(c *boc.Cell) Ref[boc.Cell] { return Ref[boc.Cell]{Value: *c} }
func c04bJustRef(c *boc.Cell) Maybe[Ref[boc.Cell]] {
	return Maybe[Ref[boc.Cell]]{Exists: true, Value: c04bRefCell(c)}
}

// _ split_depth:(Maybe (## 5)) special:(Maybe TickTock) code:(Maybe ^Cell) data:(Maybe ^Cell) library:(HashmapE 256 SimpleLib)
// which: "code", "data" (the other one is the plain cell), "lib" (one library, no code / data), "lib2" (two libraries)
func c04bStateInitNode(which string, r *c04bNode) *c04bNode {
	switch which {
	case "code":
		return c04bOrd("0"+"0"+"1"+"1"+"0", r, c04bPlainNode())
	case "data":
		return c04bOrd("0"+"0"+"1"+"1"+"0", c04bPlainNode(), r)
	case "lib": // simple_lib$_ public:Bool root:^Cell
		return c04bOrd("0"+"0"+"0"+"0"+"1", c04bDictRoot(256, []c04bEntry{{key: vhBytesBits(c04bKeyA[:]), bits: "1", refs: []*c04bNode{r}}}))
	case "lib2":
		return c04bOrd("0"+"0"+"0"+"1"+"1", c04bPlainNode(), c04bDictRoot(256, []c04bEntry{
			{key: vhBytesBits(c04bKeyB[:]), bits: "0", refs: []*c04bNode{r}},
			{key: vhBytesBits(c04bKeyA[:]), bits: "1", refs: []*c04bNode{c04bPlainNode()}}}))
	}
	panic(which)
}

func c04bStateInit(which string, rc *boc.Cell) StateInit {
	var s StateInit
	switch which {
	case "code":
		s.Code, s.Data = c04bJustRef(rc), c04bJustRef(c04bPlainCell())
	case "data":
		s.Code, s.Data = c04bJustRef(c04bPlainCell()), c04bJustRef(rc)
	case "lib":
		s.Library = NewHashmapE([]Bits256{Bits256(c04bKeyA)}, []SimpleLib{{Public: true, Root: *rc}})
	case "lib2":
		s.Data = c04bJustRef(c04bPlainCell())
		s.Library = NewHashmapE([]Bits256{Bits256(c04bKeyA), Bits256(c04bKeyB)}, []SimpleLib{{Public: true, Root: *c04bPlainCell()}, {Public: false, Root: *rc}})
	default:
		panic(which)
	}
	return s
}

// message$_ info:CommonMsgInfo init:(Maybe (Either StateInit ^StateInit)) body:(Either X ^X)
// init: "" none, "inline:<which>", "ref:<which>"; body: "inline" (32 bits + child) / "ref" (cell with 32 bits + child) /
// "empty" (inline, nothing) ; child: the cell referenced from the body (nil = none)
type c04bMsgSpec struct {
	internal bool
	init     string
	body     string
}

func c04bMessageNode(m c04bMsgSpec, initRaw, bodyChild *c04bNode) *c04bNode {
	b := c04bExtInBits()
	if m.internal {
		b = c04bIntBits()
	}
	var refs []*c04bNode
	switch {
	case m.init == "":
		b += "0"
	case strings.HasPrefix(m.init, "inline:"):
		si := c04bStateInitNode(m.init[7:], initRaw)
		b += "1" + "0" + si.bits
		refs = append(refs, si.refs...)
	default:
		b += "1" + "1"
		refs = append(refs, c04bStateInitNode(m.init[4:], initRaw))
	}
	var kids []*c04bNode
	if bodyChild != nil {
		kids = []*c04bNode{bodyChild}
	}
	switch m.body {
	case "empty":
		b += "0"
	case "inline":
		b += "0" + c04bPlainBits
		refs = append(refs, kids...)
	case "ref":
		b += "1"
		refs = append(refs, c04bOrd(c04bPlainBits, kids...))
	}
	return c04bOrd(b, refs...)
}

func c04bMessage(m c04bMsgSpec, initRaw, bodyChild *boc.Cell) Message {
	msg := Message{Info: c04bExtIn()}
	if m.internal {
		msg.Info = c04bInt()
	}
	switch {
	case m.init == "":
	case strings.HasPrefix(m.init, "inline:"):
		msg.Init = Maybe[EitherRef[StateInit]]{Exists: true, Value: EitherRef[StateInit]{Value: c04bStateInit(m.init[7:], initRaw)}}
	default:
		msg.Init = Maybe[EitherRef[StateInit]]{Exists: true, Value: EitherRef[StateInit]{IsRight: true, Value: c04bStateInit(m.init[4:], initRaw)}}
	}
	var kids []*boc.Cell
	if bodyChild != nil {
		kids = []*boc.Cell{bodyChild}
	}
	switch m.body {
	case "empty":
		msg.Body = EitherRef[Any]{Value: Any(*boc.NewCell())}
	case "inline":
		c, _ := vhCellFromBits(c04bPlainBits, kids...)
		msg.Body = EitherRef[Any]{Value: Any(*c)}
	case "ref":
		c, _ := vhCellFromBits(c04bPlainBits, kids...)
		msg.Body = EitherRef[Any]{IsRight: true, Value: Any(*c)}
	}
	return msg
}

// transaction$0111 account_addr:bits256 lt:uint64 prev_trans_hash:bits256 prev_trans_lt:uint64 now:uint32 outmsg_cnt:uint15
// orig_status:AccountStatus end_status:AccountStatus ^[ in_msg:(Maybe ^(Message Any)) out_msgs:(HashmapE 15 ^(Message Any)) ]
// total_fees:CurrencyCollection state_update:^(HASH_UPDATE Account) description:^TransactionDescr
// description: trans_storage$0001 storage_ph:(tr_phase_storage$_ storage_fees_collected:Grams storage_fees_due:(Maybe Grams)
// status_change:acst_unchanged$0);  update_hashes#72 old_hash:bits256 new_hash:bits256
func c04bTransactionNode(inMsg, outMsg *c04bNode) *c04bNode {
	msgs := ""
	var mrefs []*c04bNode
	cnt := 0
	if inMsg != nil {
		msgs += "1"
		mrefs = append(mrefs, inMsg)
	} else {
		msgs += "0"
	}
	if outMsg != nil {
		msgs += "1"
		mrefs = append(mrefs, c04bDictRoot(15, []c04bEntry{{key: vhU64Bits(0, 15), refs: []*c04bNode{outMsg}}}))
		cnt = 1
	} else {
		msgs += "0"
	}
	b := "0111" + vhBytesBits(c04bAddrA[:]) + vhU64Bits(1234567, 64) + vhBytesBits(c04bAddrB[:]) + vhU64Bits(1234000, 64) + vhU64Bits(1700000001, 32) +
		vhU64Bits(uint64(cnt), 15) + "10" + "10" + "0000" + "0"
	upd := c04bOrd(vhU64Bits(0x72, 8) + vhBytesBits(c04bKeyA[:]) + vhBytesBits(c04bKeyB[:]))
	descr := c04bOrd("0001" + "0000" + "0" + "0")
	return c04bOrd(b, c04bOrd(msgs, mrefs...), upd, descr)
}

func c04bTransaction(inMsg, outMsg *Message) Transaction {
	tx := Transaction{AccountAddr: Bits256(c04bAddrA), Lt: 1234567, PrevTransHash: Bits256(c04bAddrB), PrevTransLt: 1234000, Now: 1700000001,
		OrigStatus: AccountActive, EndStatus: AccountActive, StateUpdate: HashUpdate{OldHash: Bits256(c04bKeyA), NewHash: Bits256(c04bKeyB)}}
	if inMsg != nil {
		tx.Msgs.InMsg = Maybe[Ref[Message]]{Exists: true, Value: Ref[Message]{Value: *inMsg}}
	}
	if outMsg != nil {
		tx.OutMsgCnt = 1
		tx.Msgs.OutMsgs = NewHashmapE([]Uint15{0}, []Ref[Message]{{Value: *outMsg}})
	}
	tx.Description.SumType = "TransStorage"
	tx.Description.TransStorage.StoragePh.StatusChange = AccStatusChangeUnchanged
	return tx
}

// msg_envelope#4 cur_addr:IntermediateAddress next_addr:IntermediateAddress fwd_fee_remaining:Grams msg:^(Message Any)
// interm_addr_regular$0 use_dest_bits:(#<= 96)
func c04bEnvelopeNode(msg *c04bNode) *c04bNode {
	return c04bOrd("0100"+"0"+vhU64Bits(0, 7)+"0"+vhU64Bits(96, 7)+"0000", msg)
}
func c04bEnvelope(msg Message) MsgEnvelope {
	e := MsgEnvelope{SumType: "V1"}
	e.V1.CurrentAddress.SumType = "IntermediateAddressRegular"
	e.V1.NextAddress.SumType = "IntermediateAddressRegular"
	e.V1.NextAddress.IntermediateAddressRegular.UseDestBits = 96
	e.V1.Msg = msg
	return e
}

// split_merge_info$_ cur_shard_pfx_len:(## 6) acc_split_depth:(## 6) this_addr:bits256 sibling_addr:bits256
func c04bSplitInfoBits() string {
	return vhU64Bits(3, 6) + vhU64Bits(5, 6) + vhBytesBits(c04bAddrA[:]) + vhBytesBits(c04bAddrB[:])
}
func c04bSplitInfo() SplitMergeInfo {
	return SplitMergeInfo{CurSHardPfxLen: 3, AccSplitDepth: 5, ThisAddr: Bits256(c04bAddrA), SiblingAddr: Bits256(c04bAddrB)}
}

// stand-alone field shapes
type c04bFCellPtrRef struct {
	N Uint8
	C *boc.Cell `tlb:"^"`
}
type c04bFCellPtrMaybeRef struct {
	N Uint8
	C *boc.Cell `tlb:"maybe^"`
}
type c04bFRefCell struct {
	N Uint8
	R Ref[boc.Cell]
}
type c04bFMaybeRefCell struct {
	M Maybe[Ref[boc.Cell]]
	N Uint8
}
type c04bFEitherRefCell struct {
	E Either[Uint8, Ref[boc.Cell]]
}
type c04bFEitherRefT struct {
	E EitherRef[boc.Cell]
	N Uint8
}
type c04bFFour struct {
	A boc.Cell `tlb:"^"`
	M Magic    `tlb:"x#5a"`
	B Ref[boc.Cell]
	C *boc.Cell `tlb:"maybe^"`
	D Maybe[Ref[boc.Cell]]
}
type c04bFAnyRef struct {
	N Uint8
	A Any `tlb:"^"`
}
type c04bFRefAny struct {
	N Uint8
	A Ref[Any]
}

// ---- positions ----

type c04bPos struct {
	name          string
	zero          func() any                  // pointer to a fresh value to decode into
	build         func(r *c04bNode) *c04bNode // the source tree, by hand from the schema, with r at the raw position
	value         func(rc *boc.Cell) any      // the Go value holding rc in the field (pure encode direction)
	fixup         func(decoded any) any       // documented API convention to apply before re-encoding (VmStack order)
	refusesLib    bool                        // the decoder documents that it refuses a library cell here (error naming it)
	prunedSkipped bool                        // a pruned branch that is itself the referenced cell is skipped by design
	anyRef        bool                        // r is the cell referenced as ^Any (CellRoundTrip passes an ordinary cell holding the raw child)
}

func c04bNew[T any]() func() any { return func() any { return new(T) } }

func c04bPositions() []c04bPos {
	u8 := func(v uint64) string { return vhU64Bits(v, 8) }
	nodes := func(ns ...*c04bNode) []*c04bNode { return ns }
	var ps []c04bPos
	add := func(p c04bPos) { ps = append(ps, p) }

	// -- plain fields --
	add(c04bPos{name: "cell_top", zero: c04bNew[boc.Cell](),
		build: func(r *c04bNode) *c04bNode { return r }, value: func(rc *boc.Cell) any { return *rc }})
	// simple_lib$_ public:Bool root:^Cell
	add(c04bPos{name: "simplelib_root", zero: c04bNew[SimpleLib](), prunedSkipped: true,
		build: func(r *c04bNode) *c04bNode { return c04bOrd("1", r) },
		value: func(rc *boc.Cell) any { return SimpleLib{Public: true, Root: *rc} }})
	add(c04bPos{name: "field_cellptr_ref", zero: c04bNew[c04bFCellPtrRef](), refusesLib: true, prunedSkipped: true,
		build: func(r *c04bNode) *c04bNode { return c04bOrd(u8(0x5c), r) },
		value: func(rc *boc.Cell) any { return c04bFCellPtrRef{N: 0x5c, C: rc} }})
	add(c04bPos{name: "field_cellptr_mayberef", zero: c04bNew[c04bFCellPtrMaybeRef](), refusesLib: true, prunedSkipped: true,
		build: func(r *c04bNode) *c04bNode { return c04bOrd(u8(0x5d)+"1", r) },
		value: func(rc *boc.Cell) any { return c04bFCellPtrMaybeRef{N: 0x5d, C: rc} }})
	add(c04bPos{name: "field_ref_cell", zero: c04bNew[c04bFRefCell](), prunedSkipped: true,
		build: func(r *c04bNode) *c04bNode { return c04bOrd(u8(0x5e), r) },
		value: func(rc *boc.Cell) any { return c04bFRefCell{N: 0x5e, R: c04bRefCell(rc)} }})
	add(c04bPos{name: "field_maybe_ref_cell", zero: c04bNew[c04bFMaybeRefCell](), prunedSkipped: true,
		build: func(r *c04bNode) *c04bNode { return c04bOrd("1"+u8(0x5f), r) },
		value: func(rc *boc.Cell) any { return c04bFMaybeRefCell{M: c04bJustRef(rc), N: 0x5f} }})
	add(c04bPos{name: "field_either_right_ref_cell", zero: c04bNew[c04bFEitherRefCell](), prunedSkipped: true,
		build: func(r *c04bNode) *c04bNode { return c04bOrd("1", r) },
		value: func(rc *boc.Cell) any {
			return c04bFEitherRefCell{E: Either[Uint8, Ref[boc.Cell]]{IsRight: true, Right: c04bRefCell(rc)}}
		}})
	add(c04bPos{name: "field_eitherref_right_cell", zero: c04bNew[c04bFEitherRefT](),
		build: func(r *c04bNode) *c04bNode { return c04bOrd("1"+u8(0x60), r) },
		value: func(rc *boc.Cell) any {
			return c04bFEitherRefT{E: EitherRef[boc.Cell]{IsRight: true, Value: *rc}, N: 0x60}
		}})
	add(c04bPos{name: "ref_maybe_ref_cell", zero: c04bNew[Ref[Maybe[Ref[boc.Cell]]]](), prunedSkipped: true,
		build: func(r *c04bNode) *c04bNode { return c04bOrd("", c04bOrd("1", r)) },
		value: func(rc *boc.Cell) any { return Ref[Maybe[Ref[boc.Cell]]]{Value: c04bJustRef(rc)} }})
	add(c04bPos{name: "maybe_ref_cell_top", zero: c04bNew[Maybe[Ref[boc.Cell]]](), prunedSkipped: true,
		build: func(r *c04bNode) *c04bNode { return c04bOrd("1", r) },
		value: func(rc *boc.Cell) any { return c04bJustRef(rc) }})
	// four raw references in one cell: A:^Cell x#5a B:^Cell C:(Maybe ^Cell) D:(Maybe ^Cell), r in each slot in turn
	for slot := 0; slot < 4; slot++ {
		slot := slot
		add(c04bPos{name: fmt.Sprintf("four_refs_slot%d", slot), zero: c04bNew[c04bFFour](), prunedSkipped: true, refusesLib: slot == 2,
			build: func(r *c04bNode) *c04bNode {
				refs := nodes(c04bPlainNode(), c04bPlainNode(), c04bPlainNode(), c04bPlainNode())
				refs[slot] = r
				return c04bOrd(u8(0x5a)+"1"+"1", refs...)
			},
			value: func(rc *boc.Cell) any {
				cs := []*boc.Cell{c04bPlainCell(), c04bPlainCell(), c04bPlainCell(), c04bPlainCell()}
				cs[slot] = rc
				return c04bFFour{A: *cs[0], B: c04bRefCell(cs[1]), C: cs[2], D: c04bJustRef(cs[3])}
			}})
	}

	// -- StateInit, AccountStorage --
	for _, which := range []string{"code", "data", "lib", "lib2"} {
		which := which
		add(c04bPos{name: "stateinit_" + which, zero: c04bNew[StateInit](), prunedSkipped: true,
			build: func(r *c04bNode) *c04bNode { return c04bStateInitNode(which, r) },
			value: func(rc *boc.Cell) any { return c04bStateInit(which, rc) }})
	}
	// account_storage$_ last_trans_lt:uint64 balance:CurrencyCollection state:(account_active$1 _:StateInit)
	add(c04bPos{name: "accountstorage_active_code", zero: c04bNew[AccountStorage](), prunedSkipped: true,
		build: func(r *c04bNode) *c04bNode {
			si := c04bStateInitNode("code", r)
			return c04bOrd(vhU64Bits(4711, 64)+"0000"+"0"+"1"+si.bits, si.refs...)
		},
		value: func(rc *boc.Cell) any {
			a := AccountStorage{LastTransLt: 4711}
			a.State.SumType = "AccountActive"
			a.State.AccountActive.StateInit = c04bStateInit("code", rc)
			return a
		}})

	// -- Message --
	type mcase struct {
		name string
		m    c04bMsgSpec
		init bool // r is inside the init (else: r is the child of the body)
	}
	for _, mc := range []mcase{
		{"message_body_inline_child", c04bMsgSpec{body: "inline"}, false},
		{"message_body_ref_child", c04bMsgSpec{body: "ref"}, false},
		{"message_int_body_inline_child", c04bMsgSpec{internal: true, body: "inline"}, false},
		{"message_init_inline_code", c04bMsgSpec{init: "inline:code", body: "empty"}, true},
		{"message_init_inline_data_body_ref", c04bMsgSpec{init: "inline:data", body: "ref"}, true},
		{"message_init_ref_code", c04bMsgSpec{init: "ref:code", body: "inline"}, true},
		{"message_init_ref_lib", c04bMsgSpec{init: "ref:lib", body: "empty"}, true},
		{"message_init_inline_lib2", c04bMsgSpec{init: "inline:lib2", body: "empty"}, true},
		{"message_int_init_inline_code_body_ref", c04bMsgSpec{internal: true, init: "inline:code", body: "ref"}, true},
		{"message_int_init_ref_data", c04bMsgSpec{internal: true, init: "ref:data", body: "empty"}, true},
	} {
		mc := mc
		add(c04bPos{name: mc.name, zero: c04bNew[Message](), prunedSkipped: mc.init,
			build: func(r *c04bNode) *c04bNode {
				if mc.init {
					return c04bMessageNode(mc.m, r, nil)
				}
				return c04bMessageNode(mc.m, c04bPlainNode(), r)
			},
			value: func(rc *boc.Cell) any {
				if mc.init {
					return c04bMessage(mc.m, rc, nil)
				}
				return c04bMessage(mc.m, c04bPlainCell(), rc)
			}})
	}

	// -- Transaction, InMsg, TransactionDescr --
	add(c04bPos{name: "transaction_in_msg_body_child", zero: c04bNew[Transaction](),
		build: func(r *c04bNode) *c04bNode {
			return c04bTransactionNode(c04bMessageNode(c04bMsgSpec{body: "inline"}, nil, r), nil)
		},
		value: func(rc *boc.Cell) any {
			m := c04bMessage(c04bMsgSpec{body: "inline"}, nil, rc)
			return c04bTransaction(&m, nil)
		}})
	add(c04bPos{name: "transaction_out_msg_init_code", zero: c04bNew[Transaction](), prunedSkipped: true,
		build: func(r *c04bNode) *c04bNode {
			return c04bTransactionNode(c04bMessageNode(c04bMsgSpec{body: "empty"}, nil, nil),
				c04bMessageNode(c04bMsgSpec{internal: true, init: "inline:code", body: "empty"}, r, nil))
		},
		value: func(rc *boc.Cell) any {
			in := c04bMessage(c04bMsgSpec{body: "empty"}, nil, nil)
			out := c04bMessage(c04bMsgSpec{internal: true, init: "inline:code", body: "empty"}, rc, nil)
			return c04bTransaction(&in, &out)
		}})
	// msg_import_ihr$010 msg:^(Message Any) transaction:^Transaction ihr_fee:Grams proof_created:^Cell
	add(c04bPos{name: "inmsg_import_ihr_proof_created", zero: c04bNew[InMsg](), prunedSkipped: true,
		build: func(r *c04bNode) *c04bNode {
			return c04bOrd("010"+"0000", c04bMessageNode(c04bMsgSpec{body: "empty"}, nil, nil), c04bTransactionNode(nil, nil), r)
		},
		value: func(rc *boc.Cell) any {
			return InMsg{SumType: "MsgImportIhr", MsgImportIhr: &struct {
				Msg          Message     `tlb:"^"`
				Transaction  Transaction `tlb:"^"`
				IhrFee       Grams
				ProofCreated boc.Cell `tlb:"^"`
			}{Msg: c04bMessage(c04bMsgSpec{body: "empty"}, nil, nil), Transaction: c04bTransaction(nil, nil), ProofCreated: *rc}}
		}})
	// msg_discard_tr$111 in_msg:^MsgEnvelope transaction_id:uint64 fwd_fee:Grams proof_delivered:^Cell
	add(c04bPos{name: "inmsg_discard_tr_proof_delivered", zero: c04bNew[InMsg](), prunedSkipped: true,
		build: func(r *c04bNode) *c04bNode {
			return c04bOrd("111"+vhU64Bits(99, 64)+"0000", c04bEnvelopeNode(c04bMessageNode(c04bMsgSpec{internal: true, body: "empty"}, nil, nil)), r)
		},
		value: func(rc *boc.Cell) any {
			return InMsg{SumType: "MsgDiscardTr", MsgDiscardTr: &struct {
				InMsg          MsgEnvelope `tlb:"^"`
				TransactionId  uint64
				FwdFee         Grams
				ProofDelivered boc.Cell `tlb:"^"`
			}{InMsg: c04bEnvelope(c04bMessage(c04bMsgSpec{internal: true, body: "empty"}, nil, nil)), TransactionId: 99, ProofDelivered: *rc}}
		}})
	// trans_split_install$0101 split_info:SplitMergeInfo prepare_transaction:^Transaction installed:Bool
	add(c04bPos{name: "transdescr_split_install_prepare", zero: c04bNew[TransactionDescr](), anyRef: true, refusesLib: true, prunedSkipped: true,
		build: func(a *c04bNode) *c04bNode { return c04bOrd("0101"+c04bSplitInfoBits()+"1", a) },
		value: func(ac *boc.Cell) any {
			return TransactionDescr{SumType: "TransSplitInstall", TransSplitInstall: &struct {
				SplitInfo          SplitMergeInfo
				PrepareTransaction Any `tlb:"^"`
				Installed          bool
			}{SplitInfo: c04bSplitInfo(), PrepareTransaction: Any(*ac), Installed: true}}
		}})
	// trans_merge_install$0111 split_info prepare_transaction:^Transaction storage_ph:(Maybe TrStoragePhase) credit_ph:(Maybe
	// TrCreditPhase) compute_ph:(tr_phase_compute_skipped$0 reason:cskip_no_state$00) action:(Maybe ^) aborted:Bool destroyed:Bool
	add(c04bPos{name: "transdescr_merge_install_prepare", zero: c04bNew[TransactionDescr](), anyRef: true, refusesLib: true, prunedSkipped: true,
		build: func(a *c04bNode) *c04bNode {
			return c04bOrd("0111"+c04bSplitInfoBits()+"0"+"0"+"0"+"00"+"0"+"1"+"0", a)
		},
		value: func(ac *boc.Cell) any {
			d := TransactionDescr{SumType: "TransMergeInstall", TransMergeInstall: &struct {
				SplitInfo          SplitMergeInfo
				PrepareTransaction Any `tlb:"^"`
				StoragePh          Maybe[TrStoragePhase]
				CreditPh           Maybe[TrCreditPhase]
				ComputePh          TrComputePhase
				Action             Maybe[Ref[TrActionPhase]]
				Aborted            bool
				Destroyed          bool
			}{SplitInfo: c04bSplitInfo(), PrepareTransaction: Any(*ac), Aborted: true}}
			d.TransMergeInstall.ComputePh.SumType = "TrPhaseComputeSkipped"
			d.TransMergeInstall.ComputePh.TrPhaseComputeSkipped.Reason = ComputeSkipReasonNoState
			return d
		}})

	// -- VM stack --
	// vm_stk_cell#03 cell:^Cell ; vm_stk_builder#05 cell:^Cell
	add(c04bPos{name: "vmstk_cell", zero: c04bNew[VmStackValue](), prunedSkipped: true,
		build: func(r *c04bNode) *c04bNode { return c04bOrd(u8(3), r) },
		value: func(rc *boc.Cell) any { return VmStackValue{SumType: "VmStkCell", VmStkCell: c04bRefCell(rc)} }})
	add(c04bPos{name: "vmstk_builder", zero: c04bNew[VmStackValue](), prunedSkipped: true,
		build: func(r *c04bNode) *c04bNode { return c04bOrd(u8(5), r) },
		value: func(rc *boc.Cell) any { return VmStackValue{SumType: "VmStkBuilder", VmStkBuilder: c04bRefCell(rc)} }})
	// vm_stk_slice#04 cell:^Cell st_bits:(## 10) end_bits:(## 10) st_ref:(#<= 4) end_ref:(#<= 4): the whole cell
	sliceBits := func(r *c04bNode) string {
		return u8(4) + vhU64Bits(0, 10) + vhU64Bits(uint64(len(r.bits)), 10) + vhU64Bits(0, 3) + vhU64Bits(uint64(len(r.refs)), 3)
	}
	sliceVal := func(rc *boc.Cell) VmStackValue {
		return VmStackValue{SumType: "VmStkSlice", VmStkSlice: VmCellSlice{cell: rc, endBits: rc.BitSize(), endRef: rc.RefsSize()}}
	}
	add(c04bPos{name: "vmstk_slice", zero: c04bNew[VmStackValue](),
		build: func(r *c04bNode) *c04bNode { return c04bOrd(sliceBits(r), r) },
		value: func(rc *boc.Cell) any { return sliceVal(rc) }})
	// vm_stack#_ depth:(## 24) stack:(VmStackList depth); vm_stk_cons#_ rest:^(VmStackList n) tos:VmStackValue; top first:
	// [cell r, tinyint 5, slice of the plain cell]
	reverse := func(v any) any {
		s := v.(VmStack)
		out := make(VmStack, 0, len(s))
		for i := len(s) - 1; i >= 0; i-- {
			out = append(out, s[i])
		}
		return out
	}
	add(c04bPos{name: "vmstack_cell_entry", zero: c04bNew[VmStack](), prunedSkipped: true, fixup: reverse,
		build: func(r *c04bNode) *c04bNode {
			third := c04bOrd(sliceBits(c04bPlainNode()), c04bOrd(""), c04bPlainNode())
			second := c04bOrd(u8(1)+vhI64Bits(5, 64), third)
			return c04bOrd(vhU64Bits(3, 24)+u8(3), second, r)
		},
		value: func(rc *boc.Cell) any {
			return VmStack{{SumType: "VmStkCell", VmStkCell: c04bRefCell(rc)}, {SumType: "VmStkTinyInt", VmStkTinyInt: 5}, sliceVal(c04bPlainCell())}
		}})
	add(c04bPos{name: "vmstack_slice_entry", zero: c04bNew[VmStack](), fixup: reverse,
		build: func(r *c04bNode) *c04bNode {
			second := c04bOrd(sliceBits(r), c04bOrd(""), r)
			return c04bOrd(vhU64Bits(2, 24)+u8(0), second)
		},
		value: func(rc *boc.Cell) any { return VmStack{{SumType: "VmStkNull"}, sliceVal(rc)} }})

	// -- dictionaries --
	// HashmapE 8 ^Cell
	add(c04bPos{name: "hashmape_u8_ref_cell_one", zero: c04bNew[HashmapE[Uint8, Ref[boc.Cell]]](), prunedSkipped: true,
		build: func(r *c04bNode) *c04bNode {
			return c04bOrd("1", c04bDictRoot(8, []c04bEntry{{key: u8(0x2a), refs: nodes(r)}}))
		},
		value: func(rc *boc.Cell) any { return NewHashmapE([]Uint8{0x2a}, []Ref[boc.Cell]{c04bRefCell(rc)}) }})
	add(c04bPos{name: "hashmape_u8_ref_cell_three", zero: c04bNew[HashmapE[Uint8, Ref[boc.Cell]]](), prunedSkipped: true,
		build: func(r *c04bNode) *c04bNode {
			return c04bOrd("1", c04bDictRoot(8, []c04bEntry{{key: u8(0x2a), refs: nodes(c04bPlainNode())}, {key: u8(0xd1), refs: nodes(r)}, {key: u8(0xd0), refs: nodes(c04bPlainNode())}}))
		},
		value: func(rc *boc.Cell) any {
			return NewHashmapE([]Uint8{0x2a, 0xd0, 0xd1}, []Ref[boc.Cell]{c04bRefCell(c04bPlainCell()), c04bRefCell(c04bPlainCell()), c04bRefCell(rc)})
		}})
	// HashmapE 256 SimpleLib
	add(c04bPos{name: "hashmape_b256_simplelib", zero: c04bNew[HashmapE[Bits256, SimpleLib]](), prunedSkipped: true,
		build: func(r *c04bNode) *c04bNode {
			return c04bOrd("1", c04bDictRoot(256, []c04bEntry{{key: vhBytesBits(c04bKeyB[:]), bits: "1", refs: nodes(r)}}))
		},
		value: func(rc *boc.Cell) any {
			return NewHashmapE([]Bits256{Bits256(c04bKeyB)}, []SimpleLib{{Public: true, Root: *rc}})
		}})
	// HashmapE 15 ^(Message Any)
	add(c04bPos{name: "hashmape_u15_ref_message_body_child", zero: c04bNew[HashmapE[Uint15, Ref[Message]]](),
		build: func(r *c04bNode) *c04bNode {
			return c04bOrd("1", c04bDictRoot(15, []c04bEntry{{key: vhU64Bits(3, 15), refs: nodes(c04bMessageNode(c04bMsgSpec{body: "ref"}, nil, r))}}))
		},
		value: func(rc *boc.Cell) any {
			return NewHashmapE([]Uint15{3}, []Ref[Message]{{Value: c04bMessage(c04bMsgSpec{body: "ref"}, nil, rc)}})
		}})
	// Hashmap 16 ^Any (inline hm_edge)
	add(c04bPos{name: "hashmap_u16_ref_any", zero: c04bNew[Hashmap[Uint16, Ref[Any]]](), anyRef: true, prunedSkipped: true,
		build: func(a *c04bNode) *c04bNode {
			return c04bDictRoot(16, []c04bEntry{{key: vhU64Bits(0x1234, 16), refs: nodes(a)}})
		},
		value: func(ac *boc.Cell) any { return NewHashmap([]Uint16{0x1234}, []Ref[Any]{{Value: Any(*ac)}}) }})
	// _ config_addr:bits256 config:^(Hashmap 32 ^Cell) = ConfigParams
	add(c04bPos{name: "configparams_value", zero: c04bNew[ConfigParams](), prunedSkipped: true,
		build: func(r *c04bNode) *c04bNode {
			return c04bOrd(vhBytesBits(c04bAddrB[:]), c04bDictRoot(32, []c04bEntry{{key: vhU64Bits(0, 32), refs: nodes(c04bPlainNode())}, {key: vhU64Bits(5, 32), refs: nodes(r)}}))
		},
		value: func(rc *boc.Cell) any {
			return ConfigParams{ConfigAddr: Bits256(c04bAddrB), Config: NewHashmap([]Uint32{0, 5}, []Ref[boc.Cell]{c04bRefCell(c04bPlainCell()), c04bRefCell(rc)})}
		}})

	// -- other types of the package holding a raw cell --
	// shared_lib_descr$00 lib:^Cell publishers:(Hashmap 256 True)
	add(c04bPos{name: "libdescr_lib", zero: c04bNew[LibDescr](), prunedSkipped: true,
		build: func(r *c04bNode) *c04bNode {
			b, _ := c04bDictEdge(256, []c04bEntry{{key: vhBytesBits(c04bKeyA[:])}})
			return c04bOrd("00"+b, r)
		},
		value: func(rc *boc.Cell) any {
			return LibDescr{Lib: *rc, Publishers: NewHashmap([]Bits256{Bits256(c04bKeyA)}, []struct{}{{}})}
		}})
	// block_proof#c3 proof_for:BlockIdExt root:^Cell signatures:(Maybe ^BlockSignatures)
	// block_id_ext$_ shard_id:(shard_ident$00 shard_pfx_bits:(#<= 60) workchain_id:int32 shard_prefix:uint64) seq_no:uint32 root_hash file_hash
	add(c04bPos{name: "blockproof_root", zero: c04bNew[BlockProof](), prunedSkipped: true,
		build: func(r *c04bNode) *c04bNode {
			return c04bOrd(u8(0xc3)+"00"+vhU64Bits(0, 6)+vhI64Bits(-1, 32)+vhU64Bits(1<<63, 64)+vhU64Bits(31337, 32)+vhBytesBits(c04bKeyA[:])+vhBytesBits(c04bKeyB[:])+"0", r)
		},
		value: func(rc *boc.Cell) any {
			return BlockProof{ProofFor: BlockIdExt{ShardId: ShardIdent{WorkchainID: -1, ShardPrefix: 1 << 63}, SeqNo: 31337, RootHash: Bits256(c04bKeyA), FileHash: Bits256(c04bKeyB)}, Root: *rc}
		}})
	// block_extra#4a33f6fd in_msg_descr:^InMsgDescr out_msg_descr:^OutMsgDescr account_blocks:^ShardAccountBlocks rand_seed:bits256
	// created_by:bits256 custom:(Maybe ^McBlockExtra); account_blocks empty: hme_empty$0 + extra CurrencyCollection (0)
	for i, nm := range []string{"blockextra_in_msg_descr", "blockextra_out_msg_descr"} {
		i := i
		add(c04bPos{name: nm, zero: c04bNew[BlockExtra](), prunedSkipped: true,
			build: func(r *c04bNode) *c04bNode {
				refs := nodes(c04bPlainNode(), c04bPlainNode(), c04bOrd("0"+"0000"+"0"))
				refs[i] = r
				return c04bOrd(vhU64Bits(0x4a33f6fd, 32)+vhBytesBits(c04bAddrA[:])+vhBytesBits(c04bAddrB[:])+"0", refs...)
			},
			value: func(rc *boc.Cell) any {
				e := BlockExtra{InMsgDescrCell: *c04bPlainCell(), OutMsgDescrCell: *c04bPlainCell(), RandSeed: Bits256(c04bAddrA), CreatedBy: Bits256(c04bAddrB)}
				if i == 0 {
					e.InMsgDescrCell = *rc
				} else {
					e.OutMsgDescrCell = *rc
				}
				return e
			}})
	}
	// cfg_proposal#f3 param_id:int32 param_value:(Maybe ^Cell) if_hash_equal:(Maybe uint256)
	add(c04bPos{name: "configproposal_param_value", zero: c04bNew[ConfigProposal](), anyRef: true, refusesLib: true, prunedSkipped: true,
		build: func(a *c04bNode) *c04bNode { return c04bOrd(u8(0xf3)+vhI64Bits(-7, 32)+"1"+"0", a) },
		value: func(ac *boc.Cell) any { x := Any(*ac); return ConfigProposal{ParamId: -7, ParamValue: &x} }})

	// -- ^Any shapes --
	add(c04bPos{name: "field_any_ref", zero: c04bNew[c04bFAnyRef](), anyRef: true, refusesLib: true, prunedSkipped: true,
		build: func(a *c04bNode) *c04bNode { return c04bOrd(u8(0x61), a) },
		value: func(ac *boc.Cell) any { return c04bFAnyRef{N: 0x61, A: Any(*ac)} }})
	add(c04bPos{name: "field_ref_any", zero: c04bNew[c04bFRefAny](), anyRef: true, prunedSkipped: true,
		build: func(a *c04bNode) *c04bNode { return c04bOrd(u8(0x62), a) },
		value: func(ac *boc.Cell) any { return c04bFRefAny{N: 0x62, A: Ref[Any]{Value: Any(*ac)}} }})
	// message body in a reference: the referenced cell itself
	add(c04bPos{name: "message_body_ref", zero: c04bNew[Message](), anyRef: true,
		build: func(a *c04bNode) *c04bNode { return c04bOrd(c04bExtInBits()+"0"+"1", a) },
		value: func(ac *boc.Cell) any {
			return Message{Info: c04bExtIn(), Body: EitherRef[Any]{IsRight: true, Value: Any(*ac)}}
		}})
	return ps
}

// ---- the harness ----

type c04bRun struct {
	stat      *vhStat
	fails     *vhFailures
	info      map[string]int
	rng       *rand.Rand
	anyDirect bool // AnyRef test: all consequences of "the ^Any cell came out ordinary" are reported under one root cause
}

func newC04bRun(name string, known ...string) *c04bRun {
	return &c04bRun{stat: newVhStat(name), fails: newVhFailures(known...), info: map[string]int{}, rng: vhRng()}
}

func (r *c04bRun) finish(t *testing.T) {
	var keys []string
	for k := range r.info {
		keys = append(keys, k)
	}
	sort.Strings(keys)
	for _, k := range keys {
		fmt.Printf("C04-EXOTIC-INFO %s %s=%d\n", r.stat.name, k, r.info[k])
	}
	r.fails.report(t)
	r.stat.print()
}

// c04bCase is one (position, kind, nesting) with its source tree and cells.
type c04bCase struct {
	pos        c04bPos
	kind, wrap string
	spec       *c04bSpec
	raw        *c04bNode // the raw sub-tree
	arg        *c04bNode // what the position gets (raw, or an ordinary cell holding it for ^Any positions)
	root       *c04bNode // the source tree
	label      string
}

// mk builds the case; anyDirect: ^Any positions get the exotic cell itself.
func (r *c04bRun) mk(pos c04bPos, kind, wrap string, anyDirect bool) c04bCase {
	s := newC04bSpec()
	raw := c04bRawTree(s, r.rng, kind, wrap)
	arg := raw
	if pos.anyRef && !anyDirect {
		arg = c04bOrd(c04bPlainBits, raw)
	}
	root := pos.build(arg)
	return c04bCase{pos: pos, kind: kind, wrap: wrap, spec: s, raw: raw, arg: arg, root: root,
		label: fmt.Sprintf("position %s, %s %s", pos.name, kind, wrap)}
}

// argCell materializes the cell handed to pos.value.
func (c *c04bCase) argCell() (*boc.Cell, error) {
	rc, err := c04bMaterialize(c.spec, c.raw)
	if err != nil {
		return nil, err
	}
	if c.arg != c.raw {
		return vhCellFromBits(c04bPlainBits, rc)
	}
	return rc, nil
}

func (c *c04bCase) where() string {
	return fmt.Sprintf("%s\n      source tree: %s\n      source boc: %x", c.label, c.root.dump(), c04bBoc(c.spec, c.root))
}

// decodeReencode runs source -> Unmarshal -> Marshal -> compare. strict=false: only panics are failures.
func (r *c04bRun) decodeReencode(c *c04bCase, strict bool) {
	r.stat.add("dec|" + c.label + "|" + c.root.dump())
	src, err := c04bMaterialize(c.spec, c.root)
	if err != nil {
		r.fails.add("rc_source_not_as_written", "%s: %v", c.label, err)
		return
	}
	want := c.spec.reprHash(c.root)
	if hd, err := newC18Hasher().hashDepth(src, 3); err != nil || fmt.Sprintf("%x", hd.hash[:]) != want {
		r.fails.add("rc_reference_hashers_disagree", "%s: node-level %s, cell-level %x (%v)", c.where(), want, hd.hash[:], err)
		return
	}
	if h := vhHash(src); h != want {
		r.fails.add("rc_library_hash_of_parsed_source_differs", "%s: library %s, reference %s", c.where(), h, want)
	}
	target := c.pos.zero()
	var derr error
	if p := vhSafe(func() { derr = Unmarshal(src, target) }); p != "" {
		r.fails.add("rc_decode_panic", "%s: Unmarshal panics: %s", c.where(), p)
		return
	}
	argExotic := c.arg.typ
	if derr != nil {
		switch {
		case !strict:
			r.info["decode_error(accepted)"]++
		case c.pos.refusesLib && argExotic == boc.LibraryCell && strings.Contains(derr.Error(), "library cell"):
			r.info["library_cell_refused_with_error(accepted)"]++
		default:
			r.fails.add("rc_decode_error", "%s: Unmarshal refuses the source: %v", c.where(), derr)
		}
		return
	}
	v := reflect.ValueOf(target).Elem().Interface()
	if c.pos.fixup != nil {
		v = c.pos.fixup(v)
	}
	out := boc.NewCell()
	var merr error
	if p := vhSafe(func() { merr = Marshal(out, v) }); p != "" {
		r.fails.add("rc_marshal_panic", "%s: Marshal of the decoded value panics: %s\n      decoded: %s", c.where(), p, vhDump(v))
		return
	}
	skipped := c.pos.prunedSkipped && argExotic == boc.PrunedBranchCell
	if merr != nil {
		switch {
		case !strict:
			r.info["reencode_error(accepted)"]++
		case skipped:
			r.info["pruned_branch_skipped_by_design(accepted)"]++
		default:
			r.fails.add("rc_reencode_error", "%s: Marshal of the decoded value fails: %v\n      decoded: %s", c.where(), merr, vhDump(v))
		}
		return
	}
	issues := c04bCompareTree(c.spec, "reencode", out, c.root, r.info)
	switch {
	case len(issues) == 0:
		r.info["reencoded_identical"]++
	case !strict:
		r.info["reencoded_differs(accepted)"]++
	case skipped:
		r.info["pruned_branch_skipped_by_design(accepted)"]++
	default:
		seen := map[string]bool{}
		if r.anyDirect {
			for _, is := range issues {
				if is.cause == "rc_exotic_type_lost_on_reencode" {
					r.fails.add("rc_any_ref_exotic_cell_reencoded_as_ordinary", "%s\n      %s\n      decoded: %s\n      re-encoded: %s", c.where(), is.msg, vhDump(v), vhTree(out))
					return
				}
			}
		}
		for _, is := range issues {
			if !seen[is.cause] {
				seen[is.cause] = true
				r.fails.add(is.cause, "%s\n      %s\n      re-encoded: %s", c.where(), is.msg, vhTree(out))
			}
		}
	}
}

// encode runs hand-written Go value -> Marshal -> compare.
func (r *c04bRun) encode(c *c04bCase) {
	r.stat.add("enc|" + c.label + "|" + c.root.dump())
	ac, err := c.argCell()
	if err != nil {
		r.fails.add("rc_source_not_as_written", "%s: %v", c.label, err)
		return
	}
	v := c.pos.value(ac)
	out := boc.NewCell()
	var merr error
	if p := vhSafe(func() { merr = Marshal(out, v) }); p != "" {
		r.fails.add("rc_marshal_panic", "%s: Marshal panics: %s\n      value: %s", c.where(), p, vhDump(v))
		return
	}
	if merr != nil {
		r.fails.add("rc_encode_error", "%s: Marshal fails: %v\n      value: %s", c.where(), merr, vhDump(v))
		return
	}
	issues := c04bCompareTree(c.spec, "encode", out, c.root, r.info)
	if len(issues) == 0 {
		r.info["encoded_identical"]++
	}
	seen := map[string]bool{}
	for _, is := range issues {
		if !seen[is.cause] {
			seen[is.cause] = true
			r.fails.add(is.cause, "%s\n      %s\n      value: %s\n      encoded: %s", c.where(), is.msg, vhDump(v), vhTree(out))
		}
	}
}

// c04bPlan enumerates (kind, nesting, round) per position index.
func c04bPlan(posIndex int, wraps []string) (out [][2]string) {
	if vhThorough() {
		for round := 0; round < 25; round++ {
			for _, k := range c04bKinds {
				for _, w := range wraps {
					out = append(out, [2]string{k, w})
				}
			}
		}
		return
	}
	for ki, k := range c04bKinds {
		out = append(out, [2]string{k, wraps[0]})
		if len(wraps) > 1 {
			out = append(out, [2]string{k, wraps[1+(posIndex+ki)%(len(wraps)-1)]})
		}
	}
	return
}

var c04bKnownCauses = []string{"rc_exotic_type_lost_on_reencode", "rc_exotic_type_lost_on_encode", "rc_reencoded_hash_differs",
	"rc_reencoded_library_hash_differs", "rc_raw_subtree_library_hash_differs", "rc_level_mask_lost", "rc_decode_panic", "rc_marshal_panic",
	"rc_decode_error", "rc_reencode_error", "rc_encode_error"}

func TestVerifStandin_C04_ExoticCellRoundTrip(t *testing.T) {
	r := newC04bRun("c04_exotic_cell_roundtrip", c04bKnownCauses...)
	for i, pos := range c04bPositions() {
		for _, kw := range c04bPlan(i, c04bWraps) {
			c := r.mk(pos, kw[0], kw[1], false)
			r.decodeReencode(&c, true)
		}
	}
	r.finish(t)
}

func TestVerifStandin_C04_ExoticCellEncode(t *testing.T) {
	r := newC04bRun("c04_exotic_cell_encode", c04bKnownCauses...)
	for i, pos := range c04bPositions() {
		for _, kw := range c04bPlan(i, c04bWraps) {
			c := r.mk(pos, kw[0], kw[1], false)
			r.encode(&c)
		}
	}
	r.finish(t)
}

// The exotic cell IS the cell referenced as ^Any. Decode direction only: the source is a well-formed tree, so either the
// decoder refuses it or the decoded value has to re-encode to the same tree. (No encode direction: a tlb.Any is a slice -
// bits and references - and the TL-B value of an Any has no cell type; only the decoder can put an exotic cell into one.)
func TestVerifStandin_C04_ExoticAnyRef(t *testing.T) {
	r := newC04bRun("c04_exotic_any_ref", append([]string{"rc_any_ref_exotic_cell_reencoded_as_ordinary"}, c04bKnownCauses...)...)
	r.anyDirect = true
	wraps := []string{"direct", "in_merkle_proof", "in_merkle_update"} // nestings whose root is exotic
	var ps []c04bPos
	for _, pos := range c04bPositions() {
		if pos.anyRef && pos.name == "message_body_ref" {
			ps = append([]c04bPos{pos}, ps...) // first, so that its inputs are among the printed examples
		} else if pos.anyRef {
			ps = append(ps, pos)
		}
	}
	// plan-major order: the first examples of a root cause come from different positions
	for j := 0; ; j++ {
		ran := false
		for i, pos := range ps {
			if plan := c04bPlan(i, wraps); j < len(plan) {
				c := r.mk(pos, plan[j][0], plan[j][1], true)
				r.decodeReencode(&c, true)
				ran = true
			}
		}
		if !ran {
			break
		}
	}
	r.finish(t)
}

// ---- references to TYPED values: no panic ----

type c04bFStateInitRef struct {
	N Uint8
	S StateInit `tlb:"^"`
}
type c04bFStorageUsedMaybeRef struct {
	P *StorageUsed `tlb:"maybe^"`
}

func c04bTypedPositions() []c04bPos {
	var ps []c04bPos
	add := func(name string, zero func() any, build func(r *c04bNode) *c04bNode) {
		ps = append(ps, c04bPos{name: name, zero: zero, build: build})
	}
	add("typed_message_init_ref", c04bNew[Message](), func(r *c04bNode) *c04bNode { return c04bOrd(c04bExtInBits()+"11"+"0", r) })
	add("typed_stateinit_ref_field", c04bNew[c04bFStateInitRef](), func(r *c04bNode) *c04bNode { return c04bOrd(vhU64Bits(1, 8), r) })
	add("typed_storageused_mayberef", c04bNew[c04bFStorageUsedMaybeRef](), func(r *c04bNode) *c04bNode { return c04bOrd("1", r) })
	add("typed_ref_maybe_ref_varuint", c04bNew[Ref[Maybe[Ref[VarUInteger16]]]](), func(r *c04bNode) *c04bNode { return c04bOrd("", r) })
	add("typed_ref_message", c04bNew[Ref[Message]](), func(r *c04bNode) *c04bNode { return c04bOrd("", r) })
	add("typed_dict_value_ref_message", c04bNew[HashmapE[Uint15, Ref[Message]]](), func(r *c04bNode) *c04bNode {
		return c04bOrd("1", c04bDictRoot(15, []c04bEntry{{key: vhU64Bits(3, 15), refs: []*c04bNode{r}}}))
	})
	add("typed_envelope_msg", c04bNew[MsgEnvelope](), func(r *c04bNode) *c04bNode { return c04bEnvelopeNode(r) })
	add("typed_inmsg_envelope", c04bNew[InMsg](), func(r *c04bNode) *c04bNode { return c04bOrd("111"+vhU64Bits(99, 64)+"0000", r, c04bPlainNode()) })
	add("typed_stateinit_library_dict_root", c04bNew[StateInit](), func(r *c04bNode) *c04bNode { return c04bOrd("00001", r) })
	add("typed_dict_fork_child", c04bNew[HashmapE[Uint8, Uint8]](), func(r *c04bNode) *c04bNode {
		return c04bOrd("1", c04bOrd("00", c04bOrd(vhEncodeLabel("short", "0101010", 7)+vhU64Bits(9, 8)), r))
	})
	add("typed_vmstack_rest", c04bNew[VmStack](), func(r *c04bNode) *c04bNode { return c04bOrd(vhU64Bits(2, 24)+vhU64Bits(0, 8), r) })
	add("typed_transaction_msgs", c04bNew[Transaction](), func(r *c04bNode) *c04bNode {
		tx := c04bTransactionNode(nil, nil)
		tx.refs[0] = r
		return tx
	})
	add("typed_transaction_description", c04bNew[Transaction](), func(r *c04bNode) *c04bNode {
		tx := c04bTransactionNode(nil, nil)
		tx.refs[2] = r
		return tx
	})
	add("typed_top_message", c04bNew[Message](), func(r *c04bNode) *c04bNode { return r })
	add("typed_top_stateinit", c04bNew[StateInit](), func(r *c04bNode) *c04bNode { return r })
	add("typed_top_vmstackvalue", c04bNew[VmStackValue](), func(r *c04bNode) *c04bNode { return r })
	add("typed_top_hashmape", c04bNew[HashmapE[Uint8, Ref[boc.Cell]]](), func(r *c04bNode) *c04bNode { return r })
	return ps
}

func TestVerifStandin_C04_ExoticTypedRefNoPanic(t *testing.T) {
	r := newC04bRun("c04_exotic_typed_ref_nopanic", "rc_decode_panic", "rc_marshal_panic")
	wraps := []string{"direct", "in_merkle_proof", "in_merkle_update"}
	for i, pos := range c04bTypedPositions() {
		for _, kw := range c04bPlan(i, wraps) {
			c := r.mk(pos, kw[0], kw[1], true)
			r.decodeReencode(&c, false)
		}
	}
	r.finish(t)
}

// ---- which fields of the package hold a raw cell: reflection walk ----

func c04bRootTypes() []any {
	return []any{Block{}, BlockHeader{}, BlockInfo{}, BlockProof{}, BlockSignatures{}, BlockExtra{}, McBlockExtra{}, ValueFlow{},
		ShardStateUnsplit{}, ShardState{}, McStateExtra{}, ConfigParams{}, LibDescr{}, ShardAccount{}, Account{}, AccountStorage{}, AccountState{},
		StorageInfo{}, Message{}, CommonMsgInfo{}, StateInit{}, SimpleLib{}, TickTock{}, InMsg{}, OutMsg{}, MsgEnvelope{}, EnqueuedMsg{},
		OutMsgQueueInfo{}, ImportFees{}, Transaction{}, TransactionDescr{}, TrActionPhase{}, TrComputePhase{}, TrBouncePhase{}, HashUpdate{},
		AccountBlock{}, VmStack{}, VmStackValue{}, VmCellSlice{}, VmStkTuple{}, VmTuple{}, VmCont{}, CurrencyCollection{}, ShardDesc{},
		AllShardsInfo{}, FullContent{}, ContentData{}, DNSRecordSet{}, DNSRecord{}, ConfigProposal{}, ConfigProposalStatus{}, ConfigParam11{},
		MerkleProof[ShardStateUnsplit]{}, MerkleUpdate[ShardState]{}, ValidatorsSet{}, ShardFees{}}
}

var (
	c04bCellT    = reflect.TypeOf(boc.Cell{})
	c04bAnyT     = reflect.TypeOf(Any{})
	c04bSliceT   = reflect.TypeOf(VmCellSlice{})
	c04bPkgStrip = strings.NewReplacer("github.com/tonkeeper/tongo/tlb.", "", "github.com/tonkeeper/tongo/boc.", "boc.", "tlb.", "")
)

func c04bTypeName(t reflect.Type) string { return c04bPkgStrip.Replace(t.String()) }

// c04bIsRawType: a raw cell, or a combinator of the library instantiated directly over one.
func c04bIsRawType(t reflect.Type) bool {
	for t.Kind() == reflect.Pointer {
		t = t.Elem()
	}
	if t == c04bCellT || t == c04bAnyT || t == c04bSliceT {
		return true
	}
	n := c04bTypeName(t)
	for _, comb := range []string{"Ref[", "Maybe[", "Either[", "EitherRef[", "Hashmap[", "HashmapE[", "HashmapAug[", "HashmapAugE["} {
		if strings.HasPrefix(n, comb) && (strings.Contains(n, "boc.Cell") || strings.Contains(n, "Any]") || strings.Contains(n, "Any,")) {
			return true
		}
	}
	return false
}

// c04bWalk collects "Owner.Field type" for every struct field of a raw type reachable from t.
func c04bWalk(t reflect.Type, owner string, seen map[reflect.Type]bool, out map[string]bool) {
	switch t.Kind() {
	case reflect.Pointer, reflect.Slice, reflect.Array:
		c04bWalk(t.Elem(), owner, seen, out)
	case reflect.Struct:
		if t.Name() != "" {
			if seen[t] {
				return
			}
			seen[t] = true
			owner = c04bTypeName(t)
			if i := strings.IndexByte(owner, '['); i > 0 {
				owner = owner[:i] + "[..]"
			}
		}
		if t == c04bSliceT {
			return
		}
		for i := 0; i < t.NumField(); i++ {
			f := t.Field(i)
			if c04bIsRawType(f.Type) {
				tag := ""
				if g := f.Tag.Get("tlb"); g != "" {
					tag = " `" + g + "`"
				}
				out[owner+"."+f.Name+" "+c04bTypeName(f.Type)+tag] = true
				continue
			}
			sub := owner
			if f.Type.Kind() == reflect.Struct && f.Type.Name() == "" || (f.Type.Kind() == reflect.Pointer && f.Type.Elem().Name() == "") {
				sub = owner + "." + f.Name
			}
			c04bWalk(f.Type, sub, seen, out)
		}
	}
}

// c04bCoverage: every raw field of the package -> the positions that exercise it ("-" + reason: excluded).
var c04bCoverage = map[string]string{
	"BlockExtra.InMsgDescrCell boc.Cell `^`":                        "blockextra_in_msg_descr",
	"BlockExtra.OutMsgDescrCell boc.Cell `^`":                       "blockextra_out_msg_descr",
	"BlockProof.Root boc.Cell `^`":                                  "blockproof_root",
	"ConfigParams.Config Hashmap[Uint32,Ref[boc.Cell]] `^`":         "configparams_value",
	"ConfigProposal.ParamValue *Any `maybe^`":                       "configproposal_param_value",
	"InMsg.MsgDiscardTr.ProofDelivered boc.Cell `^`":                "inmsg_discard_tr_proof_delivered",
	"InMsg.MsgImportIhr.ProofCreated boc.Cell `^`":                  "inmsg_import_ihr_proof_created",
	"LibDescr.Lib boc.Cell `^`":                                     "libdescr_lib",
	"Message.Body EitherRef[Any]":                                   "message_body_inline_child, message_body_ref_child, message_int_body_inline_child, message_body_ref",
	"SimpleLib.Root boc.Cell `^`":                                   "simplelib_root, stateinit_lib, stateinit_lib2, hashmape_b256_simplelib, message_init_ref_lib",
	"StateInit.Code Maybe[Ref[boc.Cell]]":                           "stateinit_code, accountstorage_active_code, message_init_inline_code, message_init_ref_code, transaction_out_msg_init_code",
	"StateInit.Data Maybe[Ref[boc.Cell]]":                           "stateinit_data, message_init_inline_data_body_ref, message_int_init_ref_data",
	"TransactionDescr.TransMergeInstall.PrepareTransaction Any `^`": "transdescr_merge_install_prepare",
	"TransactionDescr.TransSplitInstall.PrepareTransaction Any `^`": "transdescr_split_install_prepare",
	"VmStackValue.VmStkBuilder Ref[boc.Cell]":                       "vmstk_builder",
	"VmStackValue.VmStkCell Ref[boc.Cell]":                          "vmstk_cell, vmstack_cell_entry",
	"VmStackValue.VmStkSlice VmCellSlice":                           "vmstk_slice, vmstack_slice_entry",
	// decode-only catch-all of the hand-written DNSRecord decoder (the whole cell when the tag is unknown); the member has no
	// constructor tag, so DNSRecord{SumType: "NotStandard"} has no encoding and nothing can be re-encoded
	"DNSRecord.NotStandard *boc.Cell": "- decode-only, not encodable",
}

func TestVerifStandin_C04_ExoticPositionsCovered(t *testing.T) {
	stat := newVhStat("c04_exotic_positions_covered")
	fails := newVhFailures("rc_uncovered_raw_cell_field", "rc_stale_coverage_table")
	found := map[string]bool{}
	seen := map[reflect.Type]bool{}
	for _, z := range c04bRootTypes() {
		c04bWalk(reflect.TypeOf(z), "", seen, found)
	}
	names := map[string]bool{}
	for _, p := range c04bPositions() {
		names[p.name] = true
	}
	var keys []string
	for k := range found {
		keys = append(keys, k)
	}
	sort.Strings(keys)
	for _, k := range keys {
		stat.add(k)
		by, ok := c04bCoverage[k]
		t.Logf("raw-cell field %q: %s", k, by)
		if !ok {
			fails.add("rc_uncovered_raw_cell_field", "field %q holds a raw cell but no position of this stand-in names it", k)
			continue
		}
		if strings.HasPrefix(by, "-") {
			continue
		}
		for _, p := range strings.Split(by, ",") {
			if !names[strings.TrimSpace(p)] {
				fails.add("rc_stale_coverage_table", "field %q: position %q does not exist", k, p)
			}
		}
	}
	for k := range c04bCoverage {
		if !found[k] {
			fails.add("rc_stale_coverage_table", "table entry %q: no such field reachable from the root types", k)
		}
	}
	fails.report(t)
	stat.print()
}
