//go:build verif

package tlb

// Bounded stand-in for C08, TL-B half (labelled bounded, never counted as proved).
// Stands in for: totality of the reflective decoder tlb.decode and of every hand-written UnmarshalTLB method, which the
// prover leaves unspecified at call sites ("returns a value or an error; never panics, never hangs, never allocates out
// of proportion to the input").
//
// Bound. Target types: every exported named type of package tlb (the hand-collected list below is checked against the
// package source with go/parser: a type missing from the list fails rc_type_list_incomplete), all generated integer /
// bits / var-uint types, the Go primitives the decoder accepts, and ~75 instantiations of the generic combinators
// (every instantiation that occurs in the package plus the C03 set).
// Inputs per target:
//   - seeds: up to 2 (thorough 5) valid encodings made by the C03 value generator + Marshal (hand-written encodings for
//     the VM tuple types); for targets whose encoder is not implemented (BinTree, HashmapAug, blocks, states, ...) the
//     first cells (BFS, 400 per block) of the real blocks under testdata that decode successfully into the target;
//   - every seed mutated at the root cell: every truncation of the bits, single-bit flips (quick: every 4th bit;
//     thorough: every bit), bits extended to 1023, each ref removed / all refs removed / an extra ref appended / each ref
//     replaced by an empty cell, a random ordinary cell, a pruned-branch cell, a library cell, a merkle-proof cell, a
//     merkle-update cell, malformed exotic cells (empty / short data), and by the seed root itself (sharing);
//   - the same mutations with a coarser step (truncation every 8th bit, flips 4x coarser) at the first 4 (thorough 16)
//     descendant cells in BFS order whose ancestors are all ordinary cells;
//   - cross-type / random trees: the first 150 (thorough 1000) cells in BFS order of one real block (thorough: of every
//     block), 40 (thorough 400) random cell trees of depth <= 3 (integer targets: 20 / 10 of them), and the degenerate
//     cells (empty, 1023 zeros, 1023 ones, each with 0 and 4 empty refs; a lone pruned / library / merkle cell;
//     malformed exotic cells).
//   - work bound: at most 9000 (thorough 100000) mutation cases per target; seeds with more than 3000 cells are mutated at
//     the root only with 16x coarser steps.
// Every decode runs in its own goroutine with recover, a 60 s deadline (5 s, then a 55 s confirmation wait so that a starved goroutine on a loaded machine is not reported) and an allocation bound of 64 MiB + 1 KiB per cell
// of the tree the input unfolds to (the real OutMsgDescr of block-1 has 4806 cells that unfold to 2.9 M), through
// tlb.Unmarshal; every 3rd case also through NewDecoder() (hasher) and cases containing library cells also through
// NewDecoder().WithLibraryResolver.
// Exotic cells are obtained from boc.DeserializeBoc of tiny hand-written BOCs (so that they carry the level mask a
// parsed cell has); malformed exotic cells come from boc.NewCellExotic (public API) and are labelled as such.
// Not covered here: abi message decoders and code.ParseContractMethods (other packages).

import (
	"encoding/hex"
	"fmt"
	"go/ast"
	"go/parser"
	"go/token"
	"math/rand"
	"os"
	"path/filepath"
	"reflect"
	"regexp"
	"runtime/debug"
	"runtime/metrics"
	"sort"
	"strings"
	"testing"
	"time"

	"github.com/tonkeeper/tongo/boc"
)

const c08AllocBound = 64 << 20

// c08NamedTargets: one pointer per exported non-generic named type of the package (integers.go types come from the
// vh*Zeros lists).
func c08NamedTargets() []any {
	return []any{
		new(ShardAccount), new(Account), new(ExistedAccount), new(AccountStorage), new(AccountState), new(StorageExtraInfo),
		new(StorageInfo), new(AccountStatus), new(AddressWithWorkchain), new(BlockInfo), new(BlockInfoPart),
		new(GlobalVersion), new(ExtBlkRef), new(BlkMasterInfo), new(BlkPrevInfo), new(Block), new(BlockHeader),
		new(BlockProof), new(BlockSignatures), new(BlockSignaturesPure), new(BlockIdExt), new(ValueFlow), new(BlockExtra),
		new(McBlockExtra), new(ValidatorSet), new(ConfigParam0), new(ConfigParam1), new(ConfigParam2), new(ConfigParam3),
		new(ConfigParam4), new(BurningConfig), new(ConfigParam5), new(ConfigParam6), new(ConfigParam7), new(ConfigParam8),
		new(ConfigParam9), new(ConfigParam10), new(ConfigProposalSetup), new(ConfigVotingSetup), new(ConfigParam11),
		new(ConfigProposal), new(ConfigProposalStatus), new(WorkchainFormat1), new(WorkchainFormat0), new(WcSplitMergeTimings),
		new(WorkchainDescr), new(ConfigParam12), new(ComplaintPricing), new(ConfigParam13), new(BlockCreateFees),
		new(ConfigParam14), new(ConfigParam15), new(ConfigParam16), new(ConfigParam17), new(StoragePrices), new(ConfigParam18),
		new(GasLimitsPrices), new(ConfigParam20), new(ConfigParam21), new(ParamLimits), new(BlockLimits), new(ConfigParam22),
		new(ConfigParam23), new(MsgForwardPrices), new(ConfigParam24), new(ConfigParam25), new(CatchainConfig),
		new(ConsensusConfig), new(ConfigParam28), new(ConfigParam29), new(ConfigParam31), new(ConfigParam32),
		new(ConfigParam33), new(ConfigParam34), new(ConfigParam35), new(ConfigParam36), new(ConfigParam37),
		new(ValidatorTempKey), new(ValidatorSignedTempKey), new(ConfigParam39), new(MisbehaviourPunishmentConfig),
		new(ConfigParam40), new(SizeLimitsConfig), new(ConfigParam43), new(SuspendedAddressList), new(ConfigParam44),
		new(PrecompiledSmc), new(PrecompiledContractsConfig), new(ConfigParam45), new(OracleBridgeParams), new(ConfigParam71),
		new(ConfigParam72), new(ConfigParam73), new(JettonBridgePrices), new(JettonBridgeParams), new(ConfigParam79),
		new(ConfigParam81), new(ConfigParam82), new(DNSRecordSet), new(DNSRecord), new(DNSText), new(SmcCapabilities),
		new(Message), new(CommonMsgInfo), new(StateInit), new(Anycast), new(MsgAddress), new(TickTock), new(SimpleLib),
		new(InMsg), new(ImportFees), new(OutMsg), new(OutMsgQueueExtra), new(AccountDispatchQueue), new(OutMsgQueueInfo),
		new(EnqueuedMsg), new(MsgEnvelope), new(MsgMetadata), new(IntermediateAddress), new(Grams), new(Coins),
		new(SignedCoins), new(CurrencyCollection), new(ExtraCurrencyCollection), new(HashUpdate), new(SnakeData), new(Bytes),
		new(Text), new(FixedLengthText), new(FullContent), new(ContentData), new(ChunkedData), new(ShardDesc),
		new(ShardInfoBinTree), new(AllShardsInfo), new(SumType), new(Magic), new(Unary), new(Any), new(ShardStateUnsplit),
		new(ShardStateUnsplitData), new(ShardState), new(ShardIdent), new(CryptoSignaturePair), new(CryptoSignatureSimple),
		new(CryptoSignature), new(CryptoSignatureSimpleData), new(SignedSertificate), new(Certificate), new(ShardFeeCreated),
		new(ShardFees), new(AccountBlock), new(ProcessedUpto), new(IhrPendingSince), new(DepthBalanceInfo),
		new(ShardStateUnsplitOther), new(LibDescr), new(McStateExtra), new(ConfigParams), new(McStateExtraOther),
		new(KeyMaxLt), new(KeyExtBlkRef), new(BlockCreateStats), new(CreatorStats), new(Counters), new(VmStack), new(VmCont),
		new(VmStkTuple), new(VmTuple), new(VmTupleRef), new(VmCellSlice), new(VmStackValue), new(Transaction),
		new(TransactionDescr), new(SplitMergeInfo), new(TrStoragePhase), new(AccStatusChange), new(TrCreditPhase),
		new(TrComputePhase), new(ComputeSkipReason), new(TrActionPhase), new(StorageUsed), new(TrBouncePhase),
		new(ValidatorInfo), new(ValidatorBaseInfo), new(ValidatorsSet), new(ValidatorSetsCommon), new(ValidatorDescr),
		new(SigPubKey),
	}
}

// c08NotTargets: exported names of the package that are not TL-B decode targets (API objects, interfaces, and the two
// helper structs that only occur inside Hashmap values: HashMapAugExtraList is self-referential through pointers without
// reading a bit, it is never handed to the decoder by the library).
var c08NotTargets = map[string]bool{"Decoder": true, "Encoder": true, "UnmarshalerTLB": true, "MarshalerTLB": true, "Tag": true,
	"HashmapItem": true, "HashMapAugExtraList": true}

// c08GenericTargets: instantiations of the generic combinators (every one that occurs in the package source, plus a few).
func c08GenericTargets() []any {
	return []any{
		new(HashmapE[Uint32, Ref[ShardInfoBinTree]]), new(HashmapE[Bits256, Bits256]),
		new(HashmapAugE[Bits256, OutMsg, CurrencyCollection]), new(HashmapAugE[Bits256, InMsg, ImportFees]),
		new(Hashmap[Uint32, Ref[boc.Cell]]), new(Hashmap[Uint16, ValidatorDescr]), new(HashmapE[Uint16, ValidatorDescr]),
		new(HashmapE[Uint16, CryptoSignaturePair]), new(MerkleUpdate[ShardState]), new(MerkleProof[ShardStateUnsplit]),
		new(MerkleProof[Block]), new(MerkleProof[ShardState]), new(MerkleProof[Uint8]), new(MerkleUpdate[Uint8]),
		new(Hashmap[Uint32, StoragePrices]), new(Hashmap[Bits256, Ref[DNSRecord]]), new(HashmapE[Uint64, EnqueuedMsg]),
		new(HashmapE[Uint32, WorkchainDescr]), new(HashmapE[Uint32, Ref[SnakeData]]),
		new(HashmapE[Bits256, ValidatorSignedTempKey]), new(HashmapE[Bits256, Ref[ContentData]]),
		new(HashmapE[Bits256, PrecompiledSmc]), new(HashmapE[Bits256, LibDescr]), new(HashmapE[Bits256, CreatorStats]),
		new(HashmapAug[Uint64, Ref[Transaction], CurrencyCollection]), new(HashmapAugE[Uint32, KeyExtBlkRef, KeyMaxLt]),
		new(HashmapAugE[Bits96, ShardFeeCreated, ShardFeeCreated]), new(HashmapAugE[Bits352, EnqueuedMsg, uint64]),
		new(HashmapAugE[Bits256, ShardAccount, DepthBalanceInfo]), new(HashmapAugE[Bits256, CreatorStats, uint32]),
		new(HashmapAugE[Bits256, AccountDispatchQueue, uint64]), new(HashmapAugE[Bits256, AccountBlock, CurrencyCollection]),
		new(HashmapAug[Uint8, Uint8, Uint8]), new(HashmapAugE[Uint8, Uint8, Uint8]),
		new(BinTree[ShardDesc]), new(BinTree[Uint8]), new(BinTree[Ref[Any]]),
		new(Maybe[Any]), new(Ref[Transaction]), new(Ref[BinTree[Uint1]]), new(Either[Any, Ref[Any]]), new(EitherRef[Message]),
		new(*Message), new(*boc.Cell), new(boc.Cell), new(boc.BitString), new([7]byte), new([0]byte),
		new(struct {
			A *Uint8 `tlb:"maybe"`
			B *Any   `tlb:"maybe^"`
			C Any    `tlb:"^"`
			D string
		}),
	}
}

// c08CombinatorTargets: the combinator instantiations of the C03 stand-in (values, not pointers).
func c08CombinatorTargets() []any {
	return []any{
		Maybe[Uint5]{}, Maybe[Int257]{}, Maybe[Ref[boc.Cell]]{}, Maybe[Grams]{}, Maybe[MsgAddress]{},
		Either[Uint8, Int16]{}, Either[Grams, Ref[Bits256]]{}, Either[StateInit, Ref[StateInit]]{},
		EitherRef[Uint32]{}, EitherRef[Any]{}, EitherRef[StateInit]{}, EitherRef[MsgAddress]{},
		Ref[Uint64]{}, Ref[Any]{}, Ref[Maybe[Ref[VarUInteger16]]]{}, Ref[Message]{},
		struct {
			Magic Magic `tlb:"magic#abcdef01"`
			A     Uint7
			B     *uint64      `tlb:"maybe"`
			C     *StorageUsed `tlb:"maybe^"`
			D     Int33        `tlb:"^"`
		}{},
		struct {
			Magic Magic `tlb:"magic$101"`
			U     Unary
			E     Either[Unary, Maybe[Int3]]
		}{},
		HashmapE[Uint3, Uint8]{}, HashmapE[Uint8, Int8]{}, HashmapE[Uint16, Maybe[Uint4]]{}, HashmapE[Uint32, VarUInteger32]{},
		HashmapE[Uint64, Ref[Uint64]]{}, HashmapE[Uint15, Ref[Message]]{}, HashmapE[Bits256, SimpleLib]{},
		HashmapE[Bits80, Grams]{}, HashmapE[Bits96, ProcessedUpto]{}, HashmapE[Bits512, Uint1]{},
		HashmapE[Uint1, Uint1]{}, HashmapE[Uint63, Bits128]{},
		HashmapE[Int8, Uint8]{}, HashmapE[Int16, Uint8]{}, HashmapE[Int64, Uint8]{},
		HashmapE[AddressWithWorkchain, Uint8]{},
		Hashmap[Uint8, Uint8]{}, Hashmap[Uint16, Ref[Any]]{}, Hashmap[Bits256, Uint32]{},
		struct {
			D HashmapE[Uint8, HashmapE[Uint4, Uint4]]
			N Uint8
		}{},
		HashmapAugE[Bits256, Uint8, Grams]{},
	}
}

// c08GeneratorDiverges: types on which the shared C03 value generator does not terminate (unconditional pointer recursion).
var c08GeneratorDiverges = map[reflect.Type]bool{reflect.TypeOf(VmTuple{}): true, reflect.TypeOf(VmTupleRef{}): true}

// c08HandSeeds: valid encodings written by hand from block.tlb for the tuple types, whose encoder is not implemented:
//
//	vm_stk_tuple#07 len:(## 16) data:(VmTuple len) = VmStackValue;
//	vm_tuple_nil$_ = VmTuple 0;  vm_tuple_tcons$_ {n:#} head:(VmTupleRef n) tail:^VmStackValue = VmTuple (n + 1);
//	vm_tupref_nil$_ = VmTupleRef 0;  vm_tupref_single$_ entry:^VmStackValue = VmTupleRef 1;
//	vm_tupref_any$_ {n:#} ref:^(VmTuple (n + 2)) = VmTupleRef (n + 2);
//	vm_stack#_ depth:(## 24) stack:(VmStackList depth) = VmStack;  vm_stk_cons#_ rest:^(VmStackList n) tos:VmStackValue
func c08HandSeeds(t reflect.Type) []*boc.Cell {
	mk := func(bits string, refs ...*boc.Cell) *boc.Cell {
		c, err := vhCellFromBits(bits, refs...)
		if err != nil {
			panic(err)
		}
		return c
	}
	tiny := func(v int64) *boc.Cell { return mk(vhU64Bits(1, 8) + vhI64Bits(v, 64)) } // vm_stk_tinyint#01
	tupleBits := func(n int) string { return vhU64Bits(uint64(n), 16) }
	tuple2 := func() *boc.Cell { return mk("", tiny(1), tiny(2)) } // VmTuple 2 as its own cell
	tuples := func(prefix string) []*boc.Cell {
		return []*boc.Cell{
			mk(prefix + tupleBits(0)),
			mk(prefix+tupleBits(1), tiny(-1)),
			mk(prefix+tupleBits(2), tiny(1), tiny(2)),
			mk(prefix+tupleBits(3), tuple2(), tiny(3)),
			mk(prefix+tupleBits(4), mk("", tuple2(), tiny(3)), mk(vhU64Bits(7, 8)+tupleBits(2), tiny(5), mk(vhU64Bits(0, 8)))),
		}
	}
	switch t {
	case reflect.TypeOf(VmStkTuple{}):
		return tuples("")
	case reflect.TypeOf(VmStackValue{}):
		return tuples(vhU64Bits(7, 8))
	case reflect.TypeOf(VmTuple{}):
		return []*boc.Cell{tuple2()}
	case reflect.TypeOf(VmStack{}):
		var out []*boc.Cell
		for _, tp := range tuples(vhU64Bits(7, 8)) {
			rest := mk(vhU64Bits(1, 8)+vhI64Bits(9, 64), mk("")) // VmStackList 1: rest = nil list, tos = tinyint 9
			out = append(out, mk(vhU64Bits(2, 24)+vhCellBits(tp), append([]*boc.Cell{rest}, tp.Refs()...)...))
		}
		return out
	}
	return nil
}

type c08Target struct {
	name string
	typ  reflect.Type
}

func c08Targets() []c08Target {
	var out []c08Target
	seen := map[reflect.Type]bool{}
	add := func(t reflect.Type) {
		if seen[t] {
			return
		}
		seen[t] = true
		name := t.String()
		name = strings.ReplaceAll(name, "github.com/tonkeeper/tongo/", "")
		name = strings.ReplaceAll(name, "tlb.", "")
		if len(name) > 90 {
			name = name[:90]
		}
		out = append(out, c08Target{name, t})
	}
	for _, p := range c08NamedTargets() {
		add(reflect.TypeOf(p).Elem())
	}
	for _, p := range c08GenericTargets() {
		add(reflect.TypeOf(p).Elem())
	}
	for _, z := range c08CombinatorTargets() {
		add(reflect.TypeOf(z))
	}
	for _, l := range [][]any{vhFixedIntZeros, vhBigIntZeros, vhVarUintZeros, vhBitsZeros,
		{uint8(0), uint16(0), uint32(0), uint64(0), int8(0), int16(0), int32(0), int64(0), false, ""}} {
		for _, z := range l {
			add(reflect.TypeOf(z))
		}
	}
	return out
}

// ---- exotic cell templates (fresh objects on every call: decoders move read cursors) ----

func c08ParseTemplate(h string) *boc.Cell {
	b, err := hex.DecodeString(h)
	if err != nil {
		panic(err)
	}
	cells, err := boc.DeserializeBoc(b)
	if err != nil || len(cells) != 1 {
		panic(fmt.Sprintf("c08 template %s: %v", h, err))
	}
	return cells[0]
}

const c08Hash32 = "000102030405060708090a0b0c0d0e0f101112131415161718191a1b1c1d1e1f"

// pruned branch (level 1, 288 bits) as the only child of an ordinary root
func c08Pruned() *boc.Cell {
	return c08ParseTemplate("b5ee9c720101020100290001000128480101" + c08Hash32 + "0003").Refs()[0]
}

// library cell (8 + 256 bits) as the only child of an ordinary root
func c08Library() *boc.Cell {
	return c08ParseTemplate("b5ee9c7201010201002600010001" + "0842" + "02" + c08Hash32).Refs()[0]
}

// merkle proof cell (8 + 256 + 16 bits, one ordinary child with 8 bits) as the only child of an ordinary root
func c08MerkleProof() *boc.Cell {
	return c08ParseTemplate("b5ee9c7201010301002c00010001" + "0946" + "03" + c08Hash32 + "0000" + "02" + "0002" + "aa").Refs()[0]
}

// merkle update cell (8 + 2*256 + 2*16 bits, two ordinary children) as the only child of an ordinary root
func c08MerkleUpdate() *boc.Cell {
	return c08ParseTemplate("b5ee9c7201010401005200010001" + "0a8a" + "04" + c08Hash32 + c08Hash32 + "00000000" + "0203" + "0002" + "aa" + "0002" + "bb").Refs()[0]
}

func c08Malformed(kind int) *boc.Cell {
	switch kind {
	case 0:
		return boc.NewCellExotic(boc.PrunedBranchCell) // no data at all
	case 1:
		c := boc.NewCellExotic(boc.PrunedBranchCell)
		_ = c.WriteUint(0x0101, 16) // tag + mask, hash missing
		return c
	case 2:
		c := boc.NewCellExotic(boc.LibraryCell)
		_ = c.WriteUint(2, 8) // hash missing
		return c
	case 3:
		return boc.NewCellExotic(boc.MerkleProofCell) // no data, no child
	case 4:
		return boc.NewCellExotic(boc.MerkleUpdateCell)
	default:
		return boc.NewCellExotic(boc.CellType(7)) // unknown exotic type
	}
}

// ---- tree utilities ----

func c08ResetTree(c *boc.Cell, seen map[*boc.Cell]bool) {
	if c == nil || seen[c] {
		return
	}
	seen[c] = true
	c.ResetCounters()
	for _, r := range c.Refs() {
		c08ResetTree(r, seen)
	}
}

// c08ResetFresh resets the cursors of the cells reachable from c without a visited set (for small trees / the fresh
// top of a mutated tree); depth < 0 = unlimited, budget bounds the visits.
func c08ResetFresh(c *boc.Cell, depth int, budget *int) {
	if c == nil || *budget <= 0 {
		return
	}
	*budget--
	c.ResetCounters()
	if depth == 0 {
		return
	}
	for _, r := range c.Refs() {
		c08ResetFresh(r, depth-1, budget)
	}
}

// c08Flat lists the distinct cells of a tree once (to reset a shared DAG quickly before every decode).
func c08Flat(root *boc.Cell) []*boc.Cell {
	var out []*boc.Cell
	seen := map[*boc.Cell]bool{}
	var walk func(c *boc.Cell)
	walk = func(c *boc.Cell) {
		if c == nil || seen[c] {
			return
		}
		seen[c] = true
		out = append(out, c)
		for _, r := range c.Refs() {
			walk(r)
		}
	}
	walk(root)
	return out
}

// c08Unfolded is the number of cells of the tree that the DAG under root unfolds to (saturating).
func c08Unfolded(root *boc.Cell) uint64 {
	memo := map[*boc.Cell]uint64{}
	var walk func(c *boc.Cell, depth int) uint64
	walk = func(c *boc.Cell, depth int) uint64 {
		if c == nil || depth > 2000 {
			return 0
		}
		if v, ok := memo[c]; ok {
			return v
		}
		n := uint64(1)
		for _, r := range c.Refs() {
			n += walk(r, depth+1)
			if n > 1<<50 {
				n = 1 << 50
			}
		}
		memo[c] = n
		return n
	}
	return walk(root, 0)
}

type c08Node struct {
	cell *boc.Cell
	path []int
}

// c08BFS lists up to limit cells in BFS order (each distinct cell object once) with the path from the root; only cells whose
// ancestors are all ordinary get a non-nil path when ordinaryOnly is set.
func c08BFS(root *boc.Cell, limit int, ordinaryOnly bool) []c08Node {
	out := []c08Node{{root, []int{}}}
	seen := map[*boc.Cell]bool{root: true}
	for i := 0; i < len(out) && len(out) < limit; i++ {
		n := out[i]
		if ordinaryOnly && n.cell.CellType() != boc.OrdinaryCell {
			continue
		}
		for j, r := range n.cell.Refs() {
			if r == nil || seen[r] {
				continue
			}
			seen[r] = true
			out = append(out, c08Node{r, append(append([]int{}, n.path...), j)})
			if len(out) >= limit {
				break
			}
		}
	}
	return out
}

func c08CountCells(root *boc.Cell, cap int) int {
	seen := map[*boc.Cell]bool{}
	var walk func(c *boc.Cell)
	walk = func(c *boc.Cell) {
		if c == nil || seen[c] || len(seen) >= cap {
			return
		}
		seen[c] = true
		for _, r := range c.Refs() {
			walk(r)
		}
	}
	walk(root)
	return len(seen)
}

// c08Replace returns a copy of the ordinary ancestors of the cell at path with that cell replaced by repl; everything else is
// shared with the original tree.
func c08Replace(root *boc.Cell, path []int, repl *boc.Cell) *boc.Cell {
	if len(path) == 0 {
		return repl
	}
	refs := append([]*boc.Cell{}, root.Refs()...)
	refs[path[0]] = c08Replace(refs[path[0]], path[1:], repl)
	c, err := vhCellFromBits(vhCellBits(root), refs...)
	if err != nil {
		panic(err)
	}
	return c
}

func c08HasLibrary(c *boc.Cell, budget *int) bool {
	if c == nil || *budget <= 0 {
		return false
	}
	*budget--
	if c.CellType() == boc.LibraryCell {
		return true
	}
	for _, r := range c.Refs() {
		if c08HasLibrary(r, budget) {
			return true
		}
	}
	return false
}

// ---- running one decode ----

type c08Outcome struct {
	panicMsg string
	site     string // first library frame below the panic
	hung     bool
	alloc    uint64
	err      error
}

var c08FrameRe = regexp.MustCompile(`^(github\.com/tonkeeper/tongo/[^\s(]*(?:\([^)]*\))?[^\s(]*)\(`)

// c08PanicSite extracts the first frame of the module (not of this file) below the panic call from a stack dump.
func c08PanicSite(stack string) string {
	lines := strings.Split(stack, "\n")
	start := 0
	for i, l := range lines {
		if strings.HasPrefix(l, "panic(") {
			start = i
		}
	}
	for i := start; i+1 < len(lines); i++ {
		l := lines[i]
		if !strings.HasPrefix(l, "github.com/tonkeeper/tongo/") || strings.Contains(l, ".c08") || strings.Contains(l, ".vhSafe") {
			continue
		}
		fn := l
		if j := strings.LastIndex(fn, "("); j > 0 {
			fn = fn[:j]
		}
		fn = strings.TrimPrefix(fn, "github.com/tonkeeper/tongo/")
		loc := strings.TrimSpace(lines[i+1])
		if j := strings.Index(loc, " +0x"); j > 0 {
			loc = loc[:j]
		}
		return fn + " @ " + loc
	}
	return "unknown"
}

var c08AllocSample = []metrics.Sample{{Name: "/gc/heap/allocs:bytes"}}

func c08AllocNow() uint64 {
	metrics.Read(c08AllocSample)
	if c08AllocSample[0].Value.Kind() == metrics.KindUint64 {
		return c08AllocSample[0].Value.Uint64()
	}
	return 0
}

var c08Timer = time.NewTimer(time.Hour)

// c08Decode decodes c into a fresh value of typ. mode 0: tlb.Unmarshal; 1: NewDecoder(); 2: NewDecoder + library resolver.
func c08Decode(typ reflect.Type, c *boc.Cell, mode int) c08Outcome {
	type res struct {
		panicMsg, site string
		err            error
	}
	done := make(chan res, 1)
	before := c08AllocNow()
	go func() {
		var r res
		defer func() {
			if p := recover(); p != nil {
				r.panicMsg = fmt.Sprintf("%v", p)
				r.site = c08PanicSite(string(debug.Stack()))
			}
			done <- r
		}()
		ptr := reflect.New(typ).Interface()
		switch mode {
		case 0:
			r.err = Unmarshal(c, ptr)
		case 1:
			r.err = NewDecoder().Unmarshal(c, ptr)
		default:
			calls := 0
			dec := NewDecoder().WithLibraryResolver(func(h Bits256) (*boc.Cell, error) {
				calls++
				if calls%2 == 0 {
					return nil, fmt.Errorf("library not found")
				}
				lib := boc.NewCell()
				_ = lib.WriteUint(0xff00ff00, 32)
				_, _ = lib.NewRef()
				return lib, nil
			})
			r.err = dec.Unmarshal(c, ptr)
		}
	}()
	if !c08Timer.Stop() {
		select {
		case <-c08Timer.C:
		default:
		}
	}
	c08Timer.Reset(5 * time.Second)
	select {
	case r := <-done:
		return c08Outcome{panicMsg: r.panicMsg, site: r.site, err: r.err, alloc: c08AllocNow() - before}
	case <-c08Timer.C:
	}
	// Not back within 5 s. On a loaded machine that can be a starved goroutine; a hang is only reported when the decode
	// is still not back after a further 55 s (the message of the sub-test says 60 s).
	c08Timer.Reset(55 * time.Second)
	select {
	case r := <-done:
		return c08Outcome{panicMsg: r.panicMsg, site: r.site, err: r.err, alloc: c08AllocNow() - before}
	case <-c08Timer.C:
		return c08Outcome{hung: true}
	}
}

var c08NameRe = regexp.MustCompile(`[^A-Za-z0-9_.]+`)

func c08Sanitize(s string) string { return strings.Trim(c08NameRe.ReplaceAllString(s, "_"), "_") }

// ---- the sweep ----

type c08Sweep struct {
	t        *testing.T
	stat     *vhStat
	fails    *vhFailures
	hangs    int
	okCount  map[string]int // per target: decodes that returned a value
	errCount map[string]int
	n        int
}

// c08Describe renders an input for replay: the tree in the vhTree notation when small, else its size and hash.
func c08Describe(c *boc.Cell) string {
	if c08CountCells(c, 41) <= 40 {
		s := vhTree(c)
		if len(s) <= 1100 {
			return s
		}
	}
	return fmt.Sprintf("<tree of %d+ cells, hash %s>", c08CountCells(c, 100000), vhHash(c))
}

// run decodes input into tgt under all applicable modes; what describes how the input was made.
// flat (may be nil) lists the cells of the shared part of the input; freshDepth is the depth of the freshly built top of
// the input (-1: the whole input is a small tree).
func (s *c08Sweep) run(tgt c08Target, input *boc.Cell, what string, big bool, flat []*boc.Cell, freshDepth int) {
	s.n++
	modes := []int{0}
	if s.n%3 == 0 {
		modes = append(modes, 1)
	}
	budget := 200
	if c08HasLibrary(input, &budget) {
		modes = append(modes, 2)
	}
	for _, mode := range modes {
		if s.hangs >= 3 {
			return
		}
		for _, fc := range flat {
			fc.ResetCounters()
		}
		budget := 200000
		c08ResetFresh(input, freshDepth, &budget)
		if big {
			s.stat.add(fmt.Sprintf("%s|%d|%s", tgt.name, mode, what))
		} else {
			s.stat.add(fmt.Sprintf("%s|%d|%s", tgt.name, mode, vhTree(input)))
		}
		o := c08Decode(tgt.typ, input, mode)
		modeName := []string{"tlb.Unmarshal", "NewDecoder().Unmarshal", "NewDecoder().WithLibraryResolver(..).Unmarshal"}[mode]
		switch {
		case o.hung:
			s.hangs++
			s.fails.add("rc_hang_"+c08Sanitize(tgt.name), "%s into %s did not return within 60 s: %s\n      input: %s", modeName, tgt.name, what, c08Describe(input))
		case o.panicMsg != "":
			cause := "rc_panic_" + c08Sanitize(strings.SplitN(o.site, " @ ", 2)[0])
			if s.fails.wants(cause) {
				s.fails.add(cause, "%s into %s panicked: %s (at %s): %s\n      input: %s", modeName, tgt.name, o.panicMsg, o.site, what, c08Describe(input))
			} else {
				s.fails.add(cause, "")
			}
		case o.alloc > c08AllocBound && o.alloc > c08AllocBound+1024*c08Unfolded(input):
			s.fails.add("rc_alloc_"+c08Sanitize(tgt.name), "%s into %s allocated %d bytes for an input that unfolds to %d cells: %s\n      input: %s", modeName, tgt.name, o.alloc, c08Unfolded(input), what, c08Describe(input))
		case o.err == nil:
			s.okCount[tgt.name]++
		default:
			s.errCount[tgt.name]++
		}
	}
}

// c08Mutations calls emit for every mutation of the cell `node` (an ordinary cell); step is the bit step for flips,
// truncStep for truncations.
func c08Mutations(rng *rand.Rand, node, seedRoot *boc.Cell, truncStep, flipStep int, emit func(repl *boc.Cell, what string)) {
	bits := vhCellBits(node)
	refs := node.Refs()
	mk := func(b string, r ...*boc.Cell) *boc.Cell {
		c, err := vhCellFromBits(b, r...)
		if err != nil {
			panic(err)
		}
		return c
	}
	for n := 0; n < len(bits); n += truncStep {
		emit(mk(bits[:n], refs...), fmt.Sprintf("bits truncated to %d", n))
	}
	if truncStep > 1 && len(bits) > 0 {
		emit(mk(bits[:len(bits)-1], refs...), fmt.Sprintf("bits truncated to %d", len(bits)-1))
	}
	for i := 0; i < len(bits); i += flipStep {
		b := []byte(bits)
		b[i] ^= 1 // '0' <-> '1'
		emit(mk(string(b), refs...), fmt.Sprintf("bit %d flipped", i))
	}
	if len(bits) < 1023 {
		emit(mk(bits+strings.Repeat("1", 1023-len(bits)), refs...), "bits extended with ones to 1023")
		emit(mk(bits+strings.Repeat("0", 1023-len(bits)), refs...), "bits extended with zeros to 1023")
	}
	if len(refs) > 0 {
		emit(mk(bits), "all refs removed")
	}
	if len(refs) < 4 {
		emit(mk(bits, append(append([]*boc.Cell{}, refs...), boc.NewCell())...), "empty ref appended")
		emit(mk(bits, append(append([]*boc.Cell{}, refs...), vhRandCell(rng, 2))...), "random ref appended")
	}
	for j := range refs {
		with := func(r *boc.Cell) []*boc.Cell {
			out := append([]*boc.Cell{}, refs...)
			out[j] = r
			return out
		}
		var without []*boc.Cell
		without = append(without, refs[:j]...)
		without = append(without, refs[j+1:]...)
		emit(mk(bits, without...), fmt.Sprintf("ref %d removed", j))
		emit(mk(bits, with(boc.NewCell())...), fmt.Sprintf("ref %d := empty cell", j))
		emit(mk(bits, with(vhRandCell(rng, 2))...), fmt.Sprintf("ref %d := random ordinary cell", j))
		emit(mk(bits, with(c08Pruned())...), fmt.Sprintf("ref %d := pruned branch", j))
		emit(mk(bits, with(c08Library())...), fmt.Sprintf("ref %d := library cell", j))
		emit(mk(bits, with(c08MerkleProof())...), fmt.Sprintf("ref %d := merkle proof cell", j))
		emit(mk(bits, with(c08MerkleUpdate())...), fmt.Sprintf("ref %d := merkle update cell", j))
		for k := 0; k <= 5; k++ {
			emit(mk(bits, with(c08Malformed(k))...), fmt.Sprintf("ref %d := malformed exotic cell (boc.NewCellExotic, kind %d)", j, k))
		}
		emit(mk(bits, with(seedRoot)...), fmt.Sprintf("ref %d := the seed root (shared sub-tree)", j))
		if j+1 < len(refs) {
			sw := append([]*boc.Cell{}, refs...)
			sw[j], sw[j+1] = sw[j+1], sw[j]
			emit(mk(bits, sw...), fmt.Sprintf("refs %d and %d swapped", j, j+1))
		}
	}
}

func c08LoadBlocks(t *testing.T) []*boc.Cell {
	files, _ := filepath.Glob("testdata/block-*/block.bin")
	sort.Strings(files)
	var out []*boc.Cell
	for _, f := range files {
		data, err := os.ReadFile(f)
		if err != nil {
			t.Fatal(err)
		}
		roots, err := boc.DeserializeBoc(data)
		if err != nil || len(roots) != 1 {
			t.Fatalf("%s: %v", f, err)
		}
		out = append(out, roots[0])
	}
	if len(out) == 0 {
		t.Fatalf("no blocks under testdata")
	}
	return out
}

// c08ExportedTypeNames parses the package source (non-test files) and returns the exported type names with a flag for
// generic ones.
func c08ExportedTypeNames(t *testing.T) map[string]bool {
	fset := token.NewFileSet()
	pkgs, err := parser.ParseDir(fset, ".", func(fi os.FileInfo) bool { return !strings.HasSuffix(fi.Name(), "_test.go") }, 0)
	if err != nil {
		t.Fatalf("parse package: %v", err)
	}
	out := map[string]bool{}
	for _, p := range pkgs {
		for _, f := range p.Files {
			for _, d := range f.Decls {
				gd, ok := d.(*ast.GenDecl)
				if !ok || gd.Tok != token.TYPE {
					continue
				}
				for _, sp := range gd.Specs {
					ts := sp.(*ast.TypeSpec)
					if ts.Name.IsExported() && !ts.Assign.IsValid() { // aliases name a type listed under its own name
						out[ts.Name.Name] = ts.TypeParams != nil && len(ts.TypeParams.List) > 0
					}
				}
			}
		}
	}
	return out
}

func TestVerifStandin_C08_DecodersTotal(t *testing.T) {
	rng := vhRng()
	thorough := vhThorough()
	trace := os.Getenv("VERIF_C08_TRACE") != ""
	defer debug.SetGCPercent(debug.SetGCPercent(400))
	sw := &c08Sweep{t: t, stat: newVhStat("c08_decoders_total"), okCount: map[string]int{}, errCount: map[string]int{},
		fails: newVhFailures("rc_type_list_incomplete")}
	defer sw.stat.print()
	targets := c08Targets()

	// the hand-collected list covers the package
	listed := map[string]bool{}
	for _, tg := range targets {
		n := tg.typ.Name()
		if i := strings.IndexByte(n, '['); i >= 0 {
			n = n[:i]
		}
		listed[n] = true
	}
	for name := range c08ExportedTypeNames(t) {
		if !listed[name] && !c08NotTargets[name] {
			sw.fails.add("rc_type_list_incomplete", "exported type %s of package tlb is not in the C08 target list", name)
		}
	}

	maxSeeds, flipStep, nDesc, maxCases, nCross, nRandom := 2, 4, 4, 9000, 150, 40
	if thorough {
		maxSeeds, flipStep, nDesc, maxCases, nCross, nRandom = 5, 1, 16, 100000, 1000, 400
	}

	blocks := c08LoadBlocks(t)
	var crossCells []c08Node
	for i, b := range blocks {
		if i > 0 && !thorough {
			break
		}
		crossCells = append(crossCells, c08BFS(b, nCross, false)...)
	}
	crossFlat := make([][]*boc.Cell, len(crossCells))
	for i, n := range crossCells {
		crossFlat[i] = c08Flat(n.cell)
	}
	// seed candidates from real data: more cells, all blocks (only used for targets without generated seeds)
	var realCands []*boc.Cell
	for _, b := range blocks {
		for _, n := range c08BFS(b, 400, false) {
			realCands = append(realCands, n.cell)
		}
	}
	var randomTrees []*boc.Cell
	for i := 0; i < nRandom; i++ {
		randomTrees = append(randomTrees, vhRandCell(rng, 1+i%3))
	}
	degenerate := func() []*boc.Cell {
		var out []*boc.Cell
		for _, bits := range []string{"", strings.Repeat("0", 1023), strings.Repeat("1", 1023)} {
			c0, _ := vhCellFromBits(bits)
			c4, _ := vhCellFromBits(bits, boc.NewCell(), boc.NewCell(), boc.NewCell(), boc.NewCell())
			out = append(out, c0, c4)
		}
		out = append(out, c08Pruned(), c08Library(), c08MerkleProof(), c08MerkleUpdate())
		for k := 0; k <= 5; k++ {
			out = append(out, c08Malformed(k))
		}
		return out
	}

	g := newC03Gen(rng)
	var noSeed []string
	seedSources := map[string]int{}
	start := time.Now()
	for _, tg := range targets {
		if sw.hangs >= 3 {
			sw.fails.add("rc_sweep_aborted", "three decodes did not return: sweep stopped at target %s", tg.name)
			break
		}
		if trace {
			fmt.Fprintf(os.Stderr, "C08-TRACE target %s (%.1fs)\n", tg.name, time.Since(start).Seconds())
		}
		// 1. seeds
		type seed struct {
			cell *boc.Cell
			src  string
		}
		var seeds []seed
		seedHashes := map[string]bool{}
		g.resetCoverage()
		for i, hs := range c08HandSeeds(tg.typ) {
			if o := c08Decode(tg.typ, hs, 0); o.err != nil || o.panicMsg != "" || o.hung {
				t.Logf("hand-built seed %d of %s is not accepted by the decoder (still mutated): err=%v panic=%q: %s", i, tg.name, o.err, o.panicMsg, vhTree(hs))
			}
			seeds = append(seeds, seed{hs, fmt.Sprintf("hand-built seed %d", i)})
			seedHashes[vhHash(hs)] = true
		}
		for try := 0; try < 40 && len(seeds) < maxSeeds && !c08GeneratorDiverges[tg.typ]; try++ {
			v := reflect.New(tg.typ).Elem()
			c := boc.NewCell()
			var err error
			if p := vhSafe(func() {
				g.pending = g.pending[:0]
				g.fill(v, "", 0)
				err = Marshal(c, v.Interface())
			}); p != "" || err != nil {
				g.pending = g.pending[:0]
				continue
			}
			g.commit()
			if c.BitSize() == 0 && c.RefsSize() == 0 && try < 39 {
				continue // prefer a non-trivial encoding
			}
			h := vhHash(c)
			if seedHashes[h] {
				continue
			}
			// the encoding must decode (else it is not a valid seed; C03 reports that)
			c08ResetTree(c, map[*boc.Cell]bool{})
			if o := c08Decode(tg.typ, c, 0); o.err != nil || o.panicMsg != "" || o.hung {
				continue
			}
			seedHashes[h] = true
			seeds = append(seeds, seed{c, "generated value " + fmt.Sprint(len(seeds))})
		}
		if len(seeds) > 0 {
			seedSources["generated or hand-built"]++
		} else {
			for i, cand := range realCands {
				if len(seeds) >= maxSeeds {
					break
				}
				if cand.BitSize() == 0 && cand.RefsSize() == 0 {
					continue
				}
				c08ResetTree(cand, map[*boc.Cell]bool{})
				o := c08Decode(tg.typ, cand, 0)
				if o.err == nil && o.panicMsg == "" && !o.hung {
					h := vhHash(cand)
					if !seedHashes[h] {
						seedHashes[h] = true
						seeds = append(seeds, seed{cand, fmt.Sprintf("real-data cell candidate %d (hash %s)", i, h)})
					}
				}
			}
			if len(seeds) > 0 {
				seedSources["real data"]++
			} else {
				seedSources["none"]++
				noSeed = append(noSeed, tg.name)
			}
		}

		// 2. mutations of the seeds
		cases := 0
		for _, sd := range seeds {
			ncells := c08CountCells(sd.cell, 3001)
			big := ncells > 40
			huge := ncells > 3000
			var flat []*boc.Cell
			if big {
				flat = c08Flat(sd.cell)
			}
			sw.run(tg, sd.cell, sd.src+" unchanged", big, flat, -1)
			nodes := c08BFS(sd.cell, 1+nDesc, true)
			if huge {
				nodes = nodes[:1]
			}
			for ni, node := range nodes {
				if node.cell.CellType() != boc.OrdinaryCell {
					continue
				}
				ts, fs := 1, flipStep
				if ni > 0 {
					ts, fs = 8, flipStep*4
				}
				if huge {
					ts, fs = ts*16, fs*16
				}
				c08Mutations(rng, node.cell, sd.cell, ts, fs, func(repl *boc.Cell, what string) {
					if cases >= maxCases {
						return
					}
					cases++
					input := c08Replace(sd.cell, node.path, repl)
					fresh := -1
					if big {
						fresh = len(node.path) + 2
					}
					sw.run(tg, input, fmt.Sprintf("%s, cell at path %v: %s", sd.src, node.path, what), big, flat, fresh)
				})
			}
		}

		// 3. cross-type inputs, random trees, degenerate cells
		_, _, isInt := c03Named(tg.typ)
		for i, n := range crossCells {
			if isInt && i >= 20 {
				break // integer targets read a fixed number of bits of the root only
			}
			sw.run(tg, n.cell, fmt.Sprintf("real block cell #%d at path %v", i, n.path), true, crossFlat[i], 0)
		}
		for i, c := range randomTrees {
			if isInt && i >= 10 {
				break
			}
			sw.run(tg, c, "random tree", false, nil, -1)
		}
		for _, c := range degenerate() {
			sw.run(tg, c, "degenerate cell", false, nil, -1)
		}
	}

	sort.Strings(noSeed)
	t.Logf("targets: %d; seed source: %v; no valid seed for: %s", len(targets), seedSources, strings.Join(noSeed, ", "))
	neverOK := 0
	for _, tg := range targets {
		if sw.okCount[tg.name] == 0 {
			neverOK++
		}
	}
	t.Logf("targets for which no input decoded successfully: %d", neverOK)
	sw.fails.report(t)
}
