//go:build verif

package tlb

import (
	"fmt"
	"os"
	"testing"

	"github.com/tonkeeper/tongo/boc"
)

func TestVerifStandin_Scratch(t *testing.T) {
	data, _ := os.ReadFile("testdata/block-1/block.bin")
	cell, err := boc.DeserializeBoc(data)
	if err != nil {
		t.Fatal(err)
	}
	var block Block
	if err := Unmarshal(cell[0], &block); err != nil {
		t.Fatal(err)
	}
	n, eq := 0, 0
	for _, ab := range block.Extra.AccountBlocks.Values() {
		for _, txr := range ab.Transactions.Values() {
			tx := txr.Value
			n++
			func() {
				defer func() {
					if r := recover(); r != nil {
						if n < 3 {
							fmt.Println("panic", r)
						}
					}
				}()
				c := boc.NewCell()
				err := Marshal(c, tx)
				if err != nil {
					fmt.Println("err", err)
					return
				}
				h, _ := c.Hash256()
				if h == tx.Hash() {
					eq++
				}
			}()
		}
	}
	fmt.Println("tx", n, "eq", eq)
}
