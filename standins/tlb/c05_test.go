//go:build verif

package tlb

// Bounded stand-in for C05 (labelled bounded, never counted as proved): dictionaries keep their key -> value mapping.
//
// Bound: key types Uint8, Int8 (signed), Uint16, Uint64, Bits256 and the 288-bit AddressWithWorkchain; for each a
// universe of 6 adversarial candidate keys (0, max / -1, min, keys sharing all but the last bit, 0x00FF / 0xFF00 runs);
// every key set of size 0..5 (63 sets); every insertion order for sizes <= 4, and 5 orders (quick) / all 120
// (thorough) for size 5; values are Uint16. For every set, reference encodings with every edge forced to hml_short,
// to hml_long, to hml_same where valid, the canonical (shortest) form and 3 (quick) / 20 (thorough) random mixtures.
// Update-after-decode: every single-key insertion and one overwrite on every decoded set.
//
// Oracle: the reference dictionary parser / builder of verif_helper_test.go (written from the hm_edge / hml_* schema),
// ideal key bits (big-endian two's complement), and plain Go maps.

import (
	"fmt"
	"math/rand"
	"sort"
	"strings"
	"testing"

	"github.com/tonkeeper/tongo/boc"
)

type c05KeySpec[K fixedSize] struct {
	name     string
	n        int // key bits by the schema
	universe []K
	bits     func(K) string
	signed   bool
}

func c05Perms(n int) [][]int {
	if n == 0 {
		return [][]int{{}}
	}
	var out [][]int
	for _, p := range c05Perms(n - 1) {
		for pos := 0; pos <= len(p); pos++ {
			q := append(append(append([]int{}, p[:pos]...), n-1), p[pos:]...)
			out = append(out, q)
		}
	}
	return out
}

// c05Cause: stable root-cause names.
func c05Cause(spec string, signed bool, mixedSigns bool, check string) string {
	switch {
	case spec == "AddressWithWorkchain" && (check == "marshal" || check == "library_encoding_invalid" || check == "library_encoding_mapping"):
		return "rc_addresswithworkchain_key_has_no_marshaltlb"
	case check == "not_canonical":
		return "rc_library_labels_not_canonical"
	case check == "newhashmap_unsorted":
		return "rc_newhashmap_needs_presorted_keys"
	case signed && mixedSigns:
		return "rc_signed_keys_numeric_order_vs_bit_order"
	}
	return "rc_unclassified/" + spec + "/" + check
}

func c05Run[K fixedSize](t *testing.T, rng *rand.Rand, spec c05KeySpec[K], stat *vhStat, fails *vhFailures) {
	thorough := vhThorough()
	valOf := func(i int, salt int) Uint16 { return Uint16((i+1)*257 + salt) }
	valBits := func(v Uint16) string { return vhU64Bits(uint64(v), 16) }
	u := spec.universe
	ubits := make([]string, len(u))
	for i, k := range u {
		ubits[i] = spec.bits(k)
		if len(ubits[i]) != spec.n {
			t.Fatalf("%s: oracle key bits have length %d, want %d", spec.name, len(ubits[i]), spec.n)
		}
	}
	show := func(k K) string {
		if spec.n > 64 {
			return "0x" + vhBin2Hex(spec.bits(k))
		}
		return fmt.Sprintf("%v(0x%s)", any(k), vhBin2Hex(spec.bits(k)))
	}
	describe := func(idx []int) string {
		var parts []string
		for _, i := range idx {
			parts = append(parts, show(u[i]))
		}
		return "[" + strings.Join(parts, " ") + "]"
	}
	mixed := func(idx []int) bool {
		neg, pos := false, false
		for _, i := range idx {
			if ubits[i][0] == '1' {
				neg = true
			} else {
				pos = true
			}
		}
		return neg && pos
	}
	// checkDecoded: the library's view of a decoded dictionary against the expected mapping (index -> value)
	checkDecoded := func(h *HashmapE[K, Uint16], want map[int]Uint16, what string, fail func(check, msg string)) {
		var idx []int
		for i := range want {
			idx = append(idx, i)
		}
		sort.Slice(idx, func(a, b int) bool { return ubits[idx[a]] < ubits[idx[b]] })
		keys, vals, items := h.Keys(), h.Values(), h.Items()
		if len(keys) != len(idx) || len(vals) != len(idx) || len(items) != len(idx) {
			fail("decode_count", fmt.Sprintf("%s: decoded %d keys / %d values / %d items, want %d", what, len(keys), len(vals), len(items), len(idx)))
			return
		}
		for p, i := range idx {
			if spec.bits(keys[p]) != ubits[i] || vals[p] != want[i] || spec.bits(items[p].Key) != ubits[i] || items[p].Value != want[i] {
				fail("decode_order_or_value", fmt.Sprintf("%s: position %d holds key %s value %d, want key %s value %d (ascending key-bit order)", what, p, show(keys[p]), vals[p], show(u[i]), want[i]))
				return
			}
		}
		for i, k := range u {
			v, ok := h.Get(k)
			wv, wok := want[i]
			if ok != wok || (ok && v != wv) {
				fail("get", fmt.Sprintf("%s: Get(%s) = %d,%v want %d,%v", what, show(k), v, ok, wv, wok))
				return
			}
		}
	}
	// parseLibraryCell: reference parse of a HashmapE cell produced by the library
	parseE := func(c *boc.Cell, n int) (map[string]string, []string, error) {
		bits := vhCellBits(c)
		refs := c.Refs()
		if bits == "0" && len(refs) == 0 {
			return map[string]string{}, nil, nil
		}
		if bits != "1" || len(refs) != 1 {
			return nil, nil, fmt.Errorf("HashmapE cell is %s with %d refs", vhBin2Hex(bits), len(refs))
		}
		leaves, kinds, err := vhDictParseCell(refs[0], n)
		if err != nil {
			return nil, nil, err
		}
		m := map[string]string{}
		for i, l := range leaves {
			if i > 0 && leaves[i-1].Key >= l.Key {
				return nil, nil, fmt.Errorf("keys not ascending in the tree")
			}
			if len(l.ValRefs) != 0 {
				return nil, nil, fmt.Errorf("unexpected ref in leaf")
			}
			m[l.Key] = l.ValBits
		}
		return m, kinds, nil
	}
	wrapE := func(root *boc.Cell) *boc.Cell {
		if root == nil {
			c, _ := vhCellFromBits("0")
			return c
		}
		c, _ := vhCellFromBits("1", root)
		return c
	}
	refLeaves := func(want map[int]Uint16) []vhDictLeaf {
		var ls []vhDictLeaf
		for i, v := range want {
			ls = append(ls, vhDictLeaf{Key: ubits[i], ValBits: valBits(v)})
		}
		return ls
	}
	refCell := func(want map[int]Uint16, choose func(label string, m int) string) *boc.Cell {
		if len(want) == 0 {
			return wrapE(nil)
		}
		root, err := vhDictBuild(refLeaves(want), spec.n, choose)
		if err != nil {
			t.Fatalf("reference builder: %v", err)
		}
		return wrapE(root)
	}
	sameMapping := func(got map[string]string, want map[int]Uint16) string {
		if len(got) != len(want) {
			return fmt.Sprintf("%d entries want %d", len(got), len(want))
		}
		for i, v := range want {
			if got[ubits[i]] != valBits(v) {
				return fmt.Sprintf("key %s maps to %q want %s", show(u[i]), got[ubits[i]], valBits(v))
			}
		}
		return ""
	}

	for mask := 0; mask < 1<<len(u); mask++ {
		var idx []int
		for i := range u {
			if mask&(1<<i) != 0 {
				idx = append(idx, i)
			}
		}
		if len(idx) > 5 {
			continue
		}
		want := map[int]Uint16{}
		for _, i := range idx {
			want[i] = valOf(i, 0)
		}
		setDesc := describe(idx)
		isMixed := mixed(idx)
		fail := func(check, msg string) {
			fails.add(c05Cause(spec.name, spec.signed, isMixed, check), "%s keys %s: %s: %s", spec.name, setDesc, check, msg)
		}
		canonical := refCell(want, vhCanonicalKind)
		canonicalHash := vhHash(canonical)

		// --- build through the API in every insertion order ---
		perms := c05Perms(len(idx))
		if len(idx) == 5 && !thorough {
			perms = [][]int{perms[0], perms[len(perms)-1], perms[rng.Intn(len(perms))], perms[rng.Intn(len(perms))], perms[rng.Intn(len(perms))]}
		}
		firstHash := ""
		for _, p := range perms {
			var order []int
			for _, j := range p {
				order = append(order, idx[j])
			}
			stat.add(fmt.Sprintf("%s|put|%v", spec.name, order))
			what := "insertion order " + describe(order)
			var h HashmapE[K, Uint16]
			c := boc.NewCell()
			var err error
			if pm := vhSafe(func() {
				for _, i := range order {
					h.Put(u[i], want[i])
				}
				err = Marshal(c, h)
			}); pm != "" || err != nil {
				fail("marshal", fmt.Sprintf("%s: Put/Marshal failed: %v %v", what, pm, err))
				continue
			}
			got, _, err := parseE(c, spec.n)
			if err != nil {
				fail("library_encoding_invalid", fmt.Sprintf("%s: the library's cell is not a valid HashmapE %d: %v; cell %s", what, spec.n, err, vhTree(c)))
				continue
			}
			if d := sameMapping(got, want); d != "" {
				fail("library_encoding_mapping", fmt.Sprintf("%s: the library's cell encodes another mapping: %s; cell %s", what, d, vhTree(c)))
				continue
			}
			hs := vhHash(c)
			if firstHash == "" {
				firstHash = hs
				if hs != canonicalHash {
					fail("not_canonical", fmt.Sprintf("library cell %s, reference (shortest labels) %s", vhTree(c), vhTree(canonical)))
				}
			} else if hs != firstHash {
				fail("order_dependent_encoding", fmt.Sprintf("%s: hash %s differs from the first order's %s", what, hs, firstHash))
			}
			var back HashmapE[K, Uint16]
			c.ResetCounters()
			if pm := vhSafe(func() { err = Unmarshal(c, &back) }); pm != "" || err != nil {
				fail("decode_own", fmt.Sprintf("%s: Unmarshal of own encoding failed: %v %v", what, pm, err))
				continue
			}
			checkDecoded(&back, want, what+" after round trip", fail)
			// Get on the built (not yet encoded) dictionary
			for i, k := range u {
				v, ok := h.Get(k)
				if wv, wok := want[i]; ok != wok || (ok && v != wv) {
					fail("get", fmt.Sprintf("%s: Get(%s) on the built dictionary = %d,%v", what, show(k), v, ok))
					break
				}
			}
		}
		// NewHashmapE with keys listed in ascending key-bit order, and in a different order
		if len(idx) > 0 {
			sorted := append([]int{}, idx...)
			sort.Slice(sorted, func(a, b int) bool { return ubits[sorted[a]] < ubits[sorted[b]] })
			// variant 1: the same pairs listed in another order (rotated by one: neither ascending nor descending)
			for variant, order := range [][]int{sorted, append(append([]int{}, sorted[1:]...), sorted[0])} {
				if variant == 1 && len(idx) < 3 {
					continue
				}
				var ks []K
				var vs []Uint16
				for _, i := range order {
					ks = append(ks, u[i])
					vs = append(vs, want[i])
				}
				stat.add(fmt.Sprintf("%s|new|%v", spec.name, order))
				check := "newhashmap_sorted"
				if variant == 1 {
					check = "newhashmap_unsorted"
				}
				c := boc.NewCell()
				var err error
				if pm := vhSafe(func() { err = Marshal(c, NewHashmapE(ks, vs)) }); pm != "" || err != nil {
					if spec.name == "AddressWithWorkchain" {
						check = "marshal"
					}
					fail(check, fmt.Sprintf("NewHashmapE(%s): Marshal failed: %v %v", describe(order), pm, err))
					continue
				}
				got, _, err := parseE(c, spec.n)
				if err != nil {
					if spec.name == "AddressWithWorkchain" {
						check = "library_encoding_invalid"
					}
					fail(check, fmt.Sprintf("NewHashmapE(%s): invalid dictionary: %v; cell %s", describe(order), err, vhTree(c)))
				} else if d := sameMapping(got, want); d != "" {
					fail(check, fmt.Sprintf("NewHashmapE(%s): wrong mapping: %s", describe(order), d))
				}
			}
		}

		// --- decode every valid label form written by "another implementation" ---
		type form struct {
			name   string
			choose func(label string, m int) string
		}
		forms := []form{{"canonical", vhCanonicalKind},
			{"all_short", func(string, int) string { return "short" }},
			{"all_long", func(string, int) string { return "long" }},
			{"all_same_where_valid", func(string, int) string { return "same" }}}
		nmix := 3
		if thorough {
			nmix = 20
		}
		for i := 0; i < nmix; i++ {
			seed := rng.Int63()
			forms = append(forms, form{fmt.Sprintf("mix%d", i), func() func(string, int) string {
				r := rand.New(rand.NewSource(seed))
				return func(string, int) string { return []string{"short", "long", "same"}[r.Intn(3)] }
			}()})
		}
		for _, f := range forms {
			c := refCell(want, f.choose)
			stat.add(fmt.Sprintf("%s|decode|%v|%s", spec.name, idx, vhHash(c)))
			// self-check of the reference codec
			if got, _, err := parseE(c, spec.n); err != nil || sameMapping(got, want) != "" {
				t.Fatalf("reference codec inconsistent: %v", err)
			}
			var h HashmapE[K, Uint16]
			var err error
			if pm := vhSafe(func() { err = Unmarshal(c, &h) }); pm != "" || err != nil {
				fail("decode_foreign_"+f.name, fmt.Sprintf("label form %s: Unmarshal failed: %v %v; cell %s", f.name, pm, err, vhTree(c)))
				continue
			}
			checkDecoded(&h, want, "label form "+f.name+" cell "+vhTree(c), func(check, msg string) { fail(check+"_foreign", msg) })
		}

		// --- update after decode ---
		for i := range u {
			_, present := want[i]
			if present && i != idx[0] {
				continue // one overwrite per set is enough
			}
			stat.add(fmt.Sprintf("%s|update|%v|%d", spec.name, idx, i))
			want2 := map[int]Uint16{}
			for k, v := range want {
				want2[k] = v
			}
			want2[i] = valOf(i, 7)
			var idx2 []int
			for k := range want2 {
				idx2 = append(idx2, k)
			}
			mixed2 := mixed(idx2)
			fail2 := func(check, msg string) {
				fails.add(c05Cause(spec.name, spec.signed, mixed2, check), "%s keys %s then Put(%s): %s: %s", spec.name, setDesc, show(u[i]), check, msg)
			}
			var h HashmapE[K, Uint16]
			var err error
			src := refCell(want, vhCanonicalKind)
			if pm := vhSafe(func() { err = Unmarshal(src, &h) }); pm != "" || err != nil {
				fail2("decode_foreign_canonical", fmt.Sprintf("Unmarshal failed: %v %v", pm, err))
				continue
			}
			c := boc.NewCell()
			if pm := vhSafe(func() {
				h.Put(u[i], want2[i])
				err = Marshal(c, h)
			}); pm != "" || err != nil {
				fail2("marshal", fmt.Sprintf("Put/Marshal after decode failed: %v %v", pm, err))
				continue
			}
			got, _, err := parseE(c, spec.n)
			if err != nil {
				fail2("library_encoding_invalid", fmt.Sprintf("cell after update is not a valid dictionary: %v; cell %s", err, vhTree(c)))
				continue
			}
			if d := sameMapping(got, want2); d != "" {
				fail2("library_encoding_mapping", fmt.Sprintf("cell after update encodes another mapping: %s", d))
				continue
			}
			var back HashmapE[K, Uint16]
			c.ResetCounters()
			if pm := vhSafe(func() { err = Unmarshal(c, &back) }); pm != "" || err != nil {
				fail2("decode_own", fmt.Sprintf("Unmarshal after update failed: %v %v", pm, err))
				continue
			}
			checkDecoded(&back, want2, "after update", fail2)
		}
	}
}

func TestVerifStandin_C05_Hashmap(t *testing.T) {
	rng := vhRng()
	stat := newVhStat("c05_hashmap")
	fails := newVhFailures("rc_signed_keys_numeric_order_vs_bit_order", "rc_library_labels_not_canonical",
		"rc_addresswithworkchain_key_has_no_marshaltlb", "rc_newhashmap_needs_presorted_keys")

	c05Run(t, rng, c05KeySpec[Uint8]{name: "Uint8", n: 8, universe: []Uint8{0x00, 0xFF, 0x01, 0x80, 0x7F, 0xFE},
		bits: func(k Uint8) string { return vhU64Bits(uint64(k), 8) }}, stat, fails)
	c05Run(t, rng, c05KeySpec[Int8]{name: "Int8", n: 8, signed: true, universe: []Int8{0, -1, 1, -128, 127, -2},
		bits: func(k Int8) string { return vhI64Bits(int64(k), 8) }}, stat, fails)
	c05Run(t, rng, c05KeySpec[Uint16]{name: "Uint16", n: 16, universe: []Uint16{0x0000, 0xFFFF, 0x00FF, 0xFF00, 0x0100, 0x00FE},
		bits: func(k Uint16) string { return vhU64Bits(uint64(k), 16) }}, stat, fails)
	c05Run(t, rng, c05KeySpec[Uint64]{name: "Uint64", n: 64, universe: []Uint64{0, 1<<64 - 1, 0x00FF00FF00FF00FF, 0xFF00FF00FF00FF00, 1, 1 << 63},
		bits: func(k Uint64) string { return vhU64Bits(uint64(k), 64) }}, stat, fails)
	fill := func(b byte) (x Bits256) {
		for i := range x {
			x[i] = b
		}
		return
	}
	zero, ones := fill(0), fill(0xff)
	zero1, ones0 := zero, ones
	zero1[31], ones0[31] = 1, 0xfe
	var p00ff, pff00 Bits256
	for i := range p00ff {
		if i%2 == 1 {
			p00ff[i] = 0xff
		} else {
			pff00[i] = 0xff
		}
	}
	c05Run(t, rng, c05KeySpec[Bits256]{name: "Bits256", n: 256, universe: []Bits256{zero, ones, zero1, ones0, p00ff, pff00},
		bits: func(k Bits256) string { return vhBytesBits(k[:]) }}, stat, fails)
	// suspended_address_list: (HashmapE 288 Unit) keyed by workchain:int32 address:bits256
	c05Run(t, rng, c05KeySpec[AddressWithWorkchain]{name: "AddressWithWorkchain", n: 288,
		universe: []AddressWithWorkchain{{0, zero}, {-1, ones}, {0, zero1}, {127, p00ff}, {-128, pff00}, {-1, zero}},
		bits: func(k AddressWithWorkchain) string { return vhI64Bits(int64(k.Workchain), 32) + vhBytesBits(k.Address[:]) }}, stat, fails)

	fails.report(t)
	stat.print()
}
