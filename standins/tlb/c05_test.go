//go:build verif

package tlb

// Bounded stand-in for C05 (labelled bounded, never counted as proved): dictionaries keep their key -> value mapping.
//
// Bound: key types Uint8, Int8 (signed), Uint16, Uint64, Bits256 and the 288-bit AddressWithWorkchain; for each a
// universe of 6 adversarial candidate keys (0, max / -1, min, keys sharing all but the last bit, 0x00FF / 0xFF00 runs);
// every key set of size 0..5 (63 sets); every insertion order for sizes <= 4, and 5 orders (quick) / all 120
// (thorough) for size 5; values are Uint16. For every set, reference encodings with every edge forced to hml_short,
// to hml_long, to hml_same where valid, the canonical (shortest) form and 3 (quick) / 20 (thorough) random mixtures.
// Update-after-decode: every single-key insertion and one overwrite on every decoded set.
// NewHashmapE / NewHashmap are given their keys in ascending key-bit order (a precondition of these constructors).
// Informational only (C05-INFO lines, never a failure): how many key sets the library encodes with a label form other
// than the shortest one the reference implementation would choose.
//
// Oracle: the reference dictionary parser / builder of verif_helper_test.go (written from the hm_edge / hml_* schema),
// ideal key bits (big-endian two's complement), and plain Go maps.

import (
	"fmt"
	"math/rand"
	"sort"
	"strings"
	"testing"

	"github.com/tonkeeper/tongo/boc"
)

type c05KeySpec[K fixedSize] struct {
	name     string
	n        int // key bits by the schema
	universe []K
	bits     func(K) string
	signed   bool
}

func c05Perms(n int) [][]int {
	if n == 0 {
		return [][]int{{}}
	}
	var out [][]int
	for _, p := range c05Perms(n - 1) {
		for pos := 0; pos <= len(p); pos++ {
			q := append(append(append([]int{}, p[:pos]...), n-1), p[pos:]...)
			out = append(out, q)
		}
	}
	return out
}

// c05Cause: stable root-cause names. A name is given only when the evidence for that root cause is present; every
// other failure is reported as rc_unclassified/<key type>/<check> so that a new defect never hides under a known name.
//   - rc_signed_keys_numeric_order_vs_bit_order: signed key type, the dictionary was built / updated through Put, the
//     key slice Put left behind is NOT in ascending key-bit order, and the failing check is one that depends on that
//     order (Marshal fails, or its output is not a valid dictionary / encodes another mapping / depends on the
//     insertion order).
func c05Cause(spec string, signed bool, putOrderBroken bool, check string) string {
	orderChecks := map[string]bool{"marshal": true, "library_encoding_invalid": true, "library_encoding_mapping": true, "order_dependent_encoding": true, "decode_own": true}
	if signed && putOrderBroken && orderChecks[check] {
		return "rc_signed_keys_numeric_order_vs_bit_order"
	}
	return "rc_unclassified/" + spec + "/" + check
}

// c05Info: informational counters (never fail the test).
var c05Info = map[string]int{}

func c05Run[K fixedSize](t *testing.T, rng *rand.Rand, spec c05KeySpec[K], stat *vhStat, fails *vhFailures) {
	thorough := vhThorough()
	valOf := func(i int, salt int) Uint16 { return Uint16((i+1)*257 + salt) }
	valBits := func(v Uint16) string { return vhU64Bits(uint64(v), 16) }
	u := spec.universe
	ubits := make([]string, len(u))
	for i, k := range u {
		ubits[i] = spec.bits(k)
		if len(ubits[i]) != spec.n {
			t.Fatalf("%s: oracle key bits have length %d, want %d", spec.name, len(ubits[i]), spec.n)
		}
	}
	show := func(k K) string {
		if spec.n > 64 {
			return "0x" + vhBin2Hex(spec.bits(k))
		}
		return fmt.Sprintf("%v(0x%s)", any(k), vhBin2Hex(spec.bits(k)))
	}
	showKeys := func(ks []K) string {
		var parts []string
		for _, k := range ks {
			parts = append(parts, show(k))
		}
		return "[" + strings.Join(parts, " ") + "]"
	}
	ascending := func(ks []K) bool {
		for i := 1; i < len(ks); i++ {
			if spec.bits(ks[i-1]) >= spec.bits(ks[i]) {
				return false
			}
		}
		return true
	}
	describe := func(idx []int) string {
		var parts []string
		for _, i := range idx {
			parts = append(parts, show(u[i]))
		}
		return "[" + strings.Join(parts, " ") + "]"
	}
	// checkDecoded: the library's view of a decoded dictionary against the expected mapping (index -> value)
	checkDecoded := func(h *HashmapE[K, Uint16], want map[int]Uint16, what string, fail func(check, msg string)) {
		var idx []int
		for i := range want {
			idx = append(idx, i)
		}
		sort.Slice(idx, func(a, b int) bool { return ubits[idx[a]] < ubits[idx[b]] })
		keys, vals, items := h.Keys(), h.Values(), h.Items()
		if len(keys) != len(idx) || len(vals) != len(idx) || len(items) != len(idx) {
			fail("decode_count", fmt.Sprintf("%s: decoded %d keys / %d values / %d items, want %d", what, len(keys), len(vals), len(items), len(idx)))
			return
		}
		for p, i := range idx {
			if spec.bits(keys[p]) != ubits[i] || vals[p] != want[i] || spec.bits(items[p].Key) != ubits[i] || items[p].Value != want[i] {
				fail("decode_order_or_value", fmt.Sprintf("%s: position %d holds key %s value %d, want key %s value %d (ascending key-bit order)", what, p, show(keys[p]), vals[p], show(u[i]), want[i]))
				return
			}
		}
		for i, k := range u {
			v, ok := h.Get(k)
			wv, wok := want[i]
			if ok != wok || (ok && v != wv) {
				fail("get", fmt.Sprintf("%s: Get(%s) = %d,%v want %d,%v", what, show(k), v, ok, wv, wok))
				return
			}
		}
	}
	// parseLibraryCell: reference parse of a HashmapE cell produced by the library
	parseE := func(c *boc.Cell, n int) (map[string]string, []string, error) {
		bits := vhCellBits(c)
		refs := c.Refs()
		if bits == "0" && len(refs) == 0 {
			return map[string]string{}, nil, nil
		}
		if bits != "1" || len(refs) != 1 {
			return nil, nil, fmt.Errorf("HashmapE cell is %s with %d refs", vhBin2Hex(bits), len(refs))
		}
		leaves, kinds, err := vhDictParseCell(refs[0], n)
		if err != nil {
			return nil, nil, err
		}
		m := map[string]string{}
		for i, l := range leaves {
			if i > 0 && leaves[i-1].Key >= l.Key {
				return nil, nil, fmt.Errorf("keys not ascending in the tree")
			}
			if len(l.ValRefs) != 0 {
				return nil, nil, fmt.Errorf("unexpected ref in leaf")
			}
			m[l.Key] = l.ValBits
		}
		return m, kinds, nil
	}
	wrapE := func(root *boc.Cell) *boc.Cell {
		if root == nil {
			c, _ := vhCellFromBits("0")
			return c
		}
		c, _ := vhCellFromBits("1", root)
		return c
	}
	refLeaves := func(want map[int]Uint16) []vhDictLeaf {
		var ls []vhDictLeaf
		for i, v := range want {
			ls = append(ls, vhDictLeaf{Key: ubits[i], ValBits: valBits(v)})
		}
		return ls
	}
	refCell := func(want map[int]Uint16, choose func(label string, m int) string) *boc.Cell {
		if len(want) == 0 {
			return wrapE(nil)
		}
		root, err := vhDictBuild(refLeaves(want), spec.n, choose)
		if err != nil {
			t.Fatalf("reference builder: %v", err)
		}
		return wrapE(root)
	}
	sameMapping := func(got map[string]string, want map[int]Uint16) string {
		if len(got) != len(want) {
			return fmt.Sprintf("%d entries want %d", len(got), len(want))
		}
		for i, v := range want {
			if got[ubits[i]] != valBits(v) {
				return fmt.Sprintf("key %s maps to %q want %s", show(u[i]), got[ubits[i]], valBits(v))
			}
		}
		return ""
	}

	for mask := 0; mask < 1<<len(u); mask++ {
		var idx []int
		for i := range u {
			if mask&(1<<i) != 0 {
				idx = append(idx, i)
			}
		}
		if len(idx) > 5 {
			continue
		}
		want := map[int]Uint16{}
		for _, i := range idx {
			want[i] = valOf(i, 0)
		}
		setDesc := describe(idx)
		putOrderBroken := false // set after every Put sequence: are the keys Put left behind out of key-bit order?
		fail := func(check, msg string) {
			fails.add(c05Cause(spec.name, spec.signed, putOrderBroken, check), "%s keys %s: %s: %s", spec.name, setDesc, check, msg)
		}
		canonical := refCell(want, vhCanonicalKind)
		canonicalHash := vhHash(canonical)

		// --- build through the API in every insertion order ---
		perms := c05Perms(len(idx))
		if len(idx) == 5 && !thorough {
			perms = [][]int{perms[0], perms[len(perms)-1], perms[rng.Intn(len(perms))], perms[rng.Intn(len(perms))], perms[rng.Intn(len(perms))]}
		}
		firstHash := ""
		for _, p := range perms {
			var order []int
			for _, j := range p {
				order = append(order, idx[j])
			}
			stat.add(fmt.Sprintf("%s|put|%v", spec.name, order))
			what := "insertion order " + describe(order)
			var h HashmapE[K, Uint16]
			c := boc.NewCell()
			var err error
			pm := vhSafe(func() {
				for _, i := range order {
					h.Put(u[i], want[i])
				}
			})
			putOrderBroken = !ascending(h.Keys())
			if pm == "" {
				pm = vhSafe(func() { err = Marshal(c, h) })
			}
			if pm != "" || err != nil {
				fail("marshal", fmt.Sprintf("%s: Put/Marshal failed: %v %v (keys after Put: %s)", what, pm, err, showKeys(h.Keys())))
				continue
			}
			got, _, err := parseE(c, spec.n)
			if err != nil {
				fail("library_encoding_invalid", fmt.Sprintf("%s: the library's cell is not a valid HashmapE %d: %v; cell %s", what, spec.n, err, vhTree(c)))
				continue
			}
			if d := sameMapping(got, want); d != "" {
				fail("library_encoding_mapping", fmt.Sprintf("%s: the library's cell encodes another mapping: %s; cell %s", what, d, vhTree(c)))
				continue
			}
			hs := vhHash(c)
			if firstHash == "" {
				firstHash = hs
				// informational only: C05 does not require the shortest label form
				c05Info["sets_encoded"]++
				if hs != canonicalHash {
					c05Info["sets_encoded_with_a_label_form_other_than_the_shortest"]++
				}
			} else if hs != firstHash {
				fail("order_dependent_encoding", fmt.Sprintf("%s: hash %s differs from the first order's %s", what, hs, firstHash))
			}
			var back HashmapE[K, Uint16]
			c.ResetCounters()
			if pm := vhSafe(func() { err = Unmarshal(c, &back) }); pm != "" || err != nil {
				fail("decode_own", fmt.Sprintf("%s: Unmarshal of own encoding failed: %v %v", what, pm, err))
				continue
			}
			checkDecoded(&back, want, what+" after round trip", fail)
			// Get on the built (not yet encoded) dictionary
			for i, k := range u {
				v, ok := h.Get(k)
				if wv, wok := want[i]; ok != wok || (ok && v != wv) {
					fail("get", fmt.Sprintf("%s: Get(%s) on the built dictionary = %d,%v", what, show(k), v, ok))
					break
				}
			}
		}
		// NewHashmapE: ascending key-bit order of the key slice is a precondition of NewHashmapE / NewHashmap
		if len(idx) > 0 {
			putOrderBroken = false
			sorted := append([]int{}, idx...)
			sort.Slice(sorted, func(a, b int) bool { return ubits[sorted[a]] < ubits[sorted[b]] })
			var ks []K
			var vs []Uint16
			for _, i := range sorted {
				ks = append(ks, u[i])
				vs = append(vs, want[i])
			}
			stat.add(fmt.Sprintf("%s|new|%v", spec.name, sorted))
			c := boc.NewCell()
			var err error
			if pm := vhSafe(func() { err = Marshal(c, NewHashmapE(ks, vs)) }); pm != "" || err != nil {
				fail("newhashmap_sorted", fmt.Sprintf("NewHashmapE(%s): Marshal failed: %v %v", describe(sorted), pm, err))
			} else if got, _, err := parseE(c, spec.n); err != nil {
				fail("newhashmap_sorted", fmt.Sprintf("NewHashmapE(%s): invalid dictionary: %v; cell %s", describe(sorted), err, vhTree(c)))
			} else if d := sameMapping(got, want); d != "" {
				fail("newhashmap_sorted", fmt.Sprintf("NewHashmapE(%s): wrong mapping: %s", describe(sorted), d))
			} else if firstHash != "" && vhHash(c) != firstHash {
				fail("newhashmap_sorted", fmt.Sprintf("NewHashmapE(%s): hash differs from the dictionary built with Put", describe(sorted)))
			}
			// plain Hashmap (not E) with the same pairs
			c2 := boc.NewCell()
			if pm := vhSafe(func() { err = Marshal(c2, NewHashmap(ks, vs)) }); pm != "" || err != nil {
				fail("newhashmap_plain", fmt.Sprintf("NewHashmap(%s): Marshal failed: %v %v", describe(sorted), pm, err))
			} else if leaves, _, err := vhDictParseCell(c2, spec.n); err != nil || len(leaves) != len(want) {
				fail("newhashmap_plain", fmt.Sprintf("NewHashmap(%s): not a valid Hashmap: %v; cell %s", describe(sorted), err, vhTree(c2)))
			} else {
				var back Hashmap[K, Uint16]
				c2.ResetCounters()
				if pm := vhSafe(func() { err = Unmarshal(c2, &back) }); pm != "" || err != nil || len(back.Keys()) != len(sorted) {
					fail("newhashmap_plain", fmt.Sprintf("NewHashmap(%s): does not decode back: %v %v", describe(sorted), pm, err))
				} else {
					for p, i := range sorted {
						if spec.bits(back.Keys()[p]) != ubits[i] || back.Values()[p] != want[i] {
							fail("newhashmap_plain", fmt.Sprintf("NewHashmap(%s): position %d decodes to %s", describe(sorted), p, show(back.Keys()[p])))
							break
						}
					}
				}
			}
		}

		// --- decode every valid label form written by "another implementation" ---
		type form struct {
			name   string
			choose func(label string, m int) string
		}
		forms := []form{{"canonical", vhCanonicalKind},
			{"all_short", func(string, int) string { return "short" }},
			{"all_long", func(string, int) string { return "long" }},
			{"all_same_where_valid", func(string, int) string { return "same" }}}
		nmix := 3
		if thorough {
			nmix = 20
		}
		for i := 0; i < nmix; i++ {
			seed := rng.Int63()
			forms = append(forms, form{fmt.Sprintf("mix%d", i), func() func(string, int) string {
				r := rand.New(rand.NewSource(seed))
				return func(string, int) string { return []string{"short", "long", "same"}[r.Intn(3)] }
			}()})
		}
		putOrderBroken = false // nothing below in this block was built through Put
		for _, f := range forms {
			c := refCell(want, f.choose)
			stat.add(fmt.Sprintf("%s|decode|%v|%s", spec.name, idx, vhHash(c)))
			// self-check of the reference codec
			if got, _, err := parseE(c, spec.n); err != nil || sameMapping(got, want) != "" {
				t.Fatalf("reference codec inconsistent: %v", err)
			}
			var h HashmapE[K, Uint16]
			var err error
			if pm := vhSafe(func() { err = Unmarshal(c, &h) }); pm != "" || err != nil {
				fail("decode_foreign_"+f.name, fmt.Sprintf("label form %s: Unmarshal failed: %v %v; cell %s", f.name, pm, err, vhTree(c)))
				continue
			}
			checkDecoded(&h, want, "label form "+f.name+" cell "+vhTree(c), func(check, msg string) { fail(check+"_foreign", msg) })
		}

		// --- update after decode ---
		for i := range u {
			_, present := want[i]
			if present && i != idx[0] {
				continue // one overwrite per set is enough
			}
			stat.add(fmt.Sprintf("%s|update|%v|%d", spec.name, idx, i))
			want2 := map[int]Uint16{}
			for k, v := range want {
				want2[k] = v
			}
			want2[i] = valOf(i, 7)
			broken2 := false
			fail2 := func(check, msg string) {
				fails.add(c05Cause(spec.name, spec.signed, broken2, check), "%s keys %s then Put(%s): %s: %s", spec.name, setDesc, show(u[i]), check, msg)
			}
			var h HashmapE[K, Uint16]
			var err error
			src := refCell(want, vhCanonicalKind)
			if pm := vhSafe(func() { err = Unmarshal(src, &h) }); pm != "" || err != nil {
				fail2("decode_foreign_canonical", fmt.Sprintf("Unmarshal failed: %v %v", pm, err))
				continue
			}
			c := boc.NewCell()
			pm := vhSafe(func() { h.Put(u[i], want2[i]) })
			broken2 = !ascending(h.Keys())
			if pm == "" {
				pm = vhSafe(func() { err = Marshal(c, h) })
			}
			if pm != "" || err != nil {
				fail2("marshal", fmt.Sprintf("Put/Marshal after decode failed: %v %v (keys after Put: %s)", pm, err, showKeys(h.Keys())))
				continue
			}
			got, _, err := parseE(c, spec.n)
			if err != nil {
				fail2("library_encoding_invalid", fmt.Sprintf("cell after update is not a valid dictionary: %v; cell %s", err, vhTree(c)))
				continue
			}
			if d := sameMapping(got, want2); d != "" {
				fail2("library_encoding_mapping", fmt.Sprintf("cell after update encodes another mapping: %s", d))
				continue
			}
			var back HashmapE[K, Uint16]
			c.ResetCounters()
			if pm := vhSafe(func() { err = Unmarshal(c, &back) }); pm != "" || err != nil {
				fail2("decode_own", fmt.Sprintf("Unmarshal after update failed: %v %v", pm, err))
				continue
			}
			checkDecoded(&back, want2, "after update", fail2)
		}
	}
}

func TestVerifStandin_C05_Hashmap(t *testing.T) {
	rng := vhRng()
	stat := newVhStat("c05_hashmap")
	fails := newVhFailures("rc_signed_keys_numeric_order_vs_bit_order", "rc_addresswithworkchain_decode_truncates_int32_workchain_to_int8")

	c05Run(t, rng, c05KeySpec[Uint8]{name: "Uint8", n: 8, universe: []Uint8{0x00, 0xFF, 0x01, 0x80, 0x7F, 0xFE},
		bits: func(k Uint8) string { return vhU64Bits(uint64(k), 8) }}, stat, fails)
	c05Run(t, rng, c05KeySpec[Int8]{name: "Int8", n: 8, signed: true, universe: []Int8{0, -1, 1, -128, 127, -2},
		bits: func(k Int8) string { return vhI64Bits(int64(k), 8) }}, stat, fails)
	c05Run(t, rng, c05KeySpec[Uint16]{name: "Uint16", n: 16, universe: []Uint16{0x0000, 0xFFFF, 0x00FF, 0xFF00, 0x0100, 0x00FE},
		bits: func(k Uint16) string { return vhU64Bits(uint64(k), 16) }}, stat, fails)
	c05Run(t, rng, c05KeySpec[Uint64]{name: "Uint64", n: 64, universe: []Uint64{0, 1<<64 - 1, 0x00FF00FF00FF00FF, 0xFF00FF00FF00FF00, 1, 1 << 63},
		bits: func(k Uint64) string { return vhU64Bits(uint64(k), 64) }}, stat, fails)
	fill := func(b byte) (x Bits256) {
		for i := range x {
			x[i] = b
		}
		return
	}
	zero, ones := fill(0), fill(0xff)
	zero1, ones0 := zero, ones
	zero1[31], ones0[31] = 1, 0xfe
	var p00ff, pff00 Bits256
	for i := range p00ff {
		if i%2 == 1 {
			p00ff[i] = 0xff
		} else {
			pff00[i] = 0xff
		}
	}
	c05Run(t, rng, c05KeySpec[Bits256]{name: "Bits256", n: 256, universe: []Bits256{zero, ones, zero1, ones0, p00ff, pff00},
		bits: func(k Bits256) string { return vhBytesBits(k[:]) }}, stat, fails)
	// suspended_address_list: (HashmapE 288 Unit) keyed by workchain:int32 address:bits256
	c05Run(t, rng, c05KeySpec[AddressWithWorkchain]{name: "AddressWithWorkchain", n: 288,
		universe: []AddressWithWorkchain{{0, zero}, {-1, ones}, {0, zero1}, {127, p00ff}, {-128, pff00}, {-1, zero}},
		bits: func(k AddressWithWorkchain) string {
			return vhI64Bits(int64(k.Workchain), 32) + vhBytesBits(k.Address[:])
		}}, stat, fails)

	// A valid (HashmapE 288 X) whose keys carry a workchain outside int8 (the wire field is int32): the decoder must
	// either keep the keys apart or report an error; silently folding 256 onto 0 loses the mapping.
	{
		var a Bits256
		rng.Read(a[:])
		k0 := vhI64Bits(0, 32) + vhBytesBits(a[:])
		k256 := vhI64Bits(256, 32) + vhBytesBits(a[:])
		root, err := vhDictBuild([]vhDictLeaf{{Key: k0, ValBits: vhU64Bits(1, 16)}, {Key: k256, ValBits: vhU64Bits(2, 16)}}, 288, vhCanonicalKind)
		if err != nil {
			t.Fatal(err)
		}
		cell, _ := vhCellFromBits("1", root)
		stat.add("AddressWithWorkchain|wide_workchain")
		var h HashmapE[AddressWithWorkchain, Uint16]
		var derr error
		if pm := vhSafe(func() { derr = Unmarshal(cell, &h) }); pm != "" {
			fails.add("rc_unclassified/AddressWithWorkchain/wide_workchain_panic", "cell %s: %s", vhTree(cell), pm)
		} else if derr == nil {
			ks := h.Keys()
			if len(ks) == 2 && ks[0].Equal(ks[1]) {
				v, _ := h.Get(ks[0])
				fails.add("rc_addresswithworkchain_decode_truncates_int32_workchain_to_int8",
					"dictionary with keys (workchain 0, addr %x) -> 1 and (workchain 256, addr %x) -> 2 decodes without error to two equal keys {%d %x}; Get returns %d; cell %s",
					a[:], a[:], ks[0].Workchain, ks[0].Address[:], v, vhTree(cell))
			} else if len(ks) != 2 {
				fails.add("rc_unclassified/AddressWithWorkchain/wide_workchain", "decoded %d keys from %s", len(ks), vhTree(cell))
			}
		}
	}

	var infoKeys []string
	for k := range c05Info {
		infoKeys = append(infoKeys, k)
	}
	sort.Strings(infoKeys)
	for _, k := range infoKeys {
		fmt.Printf("C05-INFO %s=%d\n", k, c05Info[k])
	}
	fails.report(t)
	stat.print()
}
