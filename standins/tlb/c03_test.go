//go:build verif

package tlb

// Bounded stand-in for C03 (labelled bounded, never counted as proved): TL-B values survive encode/decode.
//
// Bound (quick tier; thorough widens the random part and the number of generated variants per type):
//   - leaf types, every value of a boundary list: Uint1..64 / Int1..64 (0, 1, max, max-1, top bit, min, min+1, -1,
//     alternating pattern, 2 random), Uint/Int 128/256/257 (same shape), VarUInteger1..32 (for every byte length L the
//     smallest and the largest value of that length, 1 random), Bits80..512, plain Go ints/bool, Grams, SignedCoins,
//     Unary, AccountStatus, AccStatusChange, ComputeSkipReason, Anycast, MsgAddress (4 kinds x anycast x workchain /
//     length boundaries), SnakeData/Bytes/Text/FixedLengthText (0 .. multi-cell), Any / boc.Cell, VmCellSlice.
//   - composite types of messages.go, account.go, transactions.go, models.go, stack.go, primitives.go combinators and
//     hashmaps over small key/value types: a reflective generator driven by choice coverage: every constructor of every
//     union, present/absent Maybe (incl. `maybe` pointer tags), both sides of Either / EitherRef, 0/1/2-entry hashmaps,
//     each leaf boundary value, nested to depth 7; generation for one root type stops after 30 (quick) / 120 (thorough)
//     consecutive values that add no new (successfully encoded) choice, at most 300 / 2500 values per root type.
//   - big-int cell primitives Write/ReadBigUint, Write/ReadBigInt: widths 1..257 x bit offsets 0..7 x boundary values.
//   - VmStack list convention with 0..4 entries of 7 kinds (hand-built expected cells), VmStkTuple decode side 0..4.
//
// Oracle: vhDiff (reflect.DeepEqual with the documented normalisations of verif_helper_test.go), equality of the
// SumType of every union, equal cell hash of the second encoding; ideal bit lists for the primitives and the stack.
// A Marshal error is allowed by the property (counted, not a failure); a panic, a decode error on own output, a
// different value, a different constructor or a different second hash is a failure.

import (
	"fmt"
	"math/big"
	"math/rand"
	"reflect"
	"sort"
	"strings"
	"testing"

	"github.com/tonkeeper/tongo/boc"
)

// c03Result of one encode -> decode -> compare -> encode run.
type c03Result struct {
	marshalErr string // allowed outcome
	stage      string // "" = pass, else the failing stage
	detail     string
	deltas     []vhDelta // for stage value_differs
	tree       string
}

func c03RoundTrip(orig any) (res c03Result) {
	t := reflect.TypeOf(orig)
	c := boc.NewCell()
	var err error
	if p := vhSafe(func() { err = Marshal(c, orig) }); p != "" {
		return c03Result{stage: "marshal_panic", detail: p}
	}
	if err != nil {
		return c03Result{marshalErr: err.Error()}
	}
	res.tree = vhTree(c)
	c.ResetCounters()
	fresh := reflect.New(t)
	if p := vhSafe(func() { err = Unmarshal(c, fresh.Interface()) }); p != "" {
		res.stage, res.detail = "unmarshal_panic", p
		return
	}
	if err != nil {
		res.stage, res.detail = "unmarshal_error", err.Error()
		return
	}
	decoded := fresh.Elem().Interface()
	if ds := vhDiffAll(orig, decoded); len(ds) > 0 {
		res.stage, res.detail, res.deltas = "value_differs", ds[0].String(), ds
		return
	}
	c2 := boc.NewCell()
	if p := vhSafe(func() { err = Marshal(c2, decoded) }); p != "" {
		res.stage, res.detail = "remarshal_panic", p
		return
	}
	if err != nil {
		res.stage, res.detail = "remarshal_error", err.Error()
		return
	}
	if h1, h2 := vhHash(c), vhHash(c2); h1 != h2 || strings.HasPrefix(h1, "hash") {
		res.stage, res.detail = "rehash_differs", fmt.Sprintf("first %s second %s: %s vs %s", h1, h2, res.tree, vhTree(c2))
	}
	return
}

// c03Cause maps a failure (for value_differs: one difference) to a stable root-cause name (one sub-test each).
func c03Cause(typeName string, r c03Result, d *vhDelta) string {
	if d != nil && d.Type != nil {
		fam, n, named := c03Named(d.Type)
		switch {
		case d.Type == c03GramsType && d.Orig.Uint() >= 1<<63:
			return "rc_grams_ge_2pow63"
		case named && d.Type.Kind() == reflect.Struct && ((fam == "Uint" && n%8 != 0) || (fam == "Int" && (n-1)%8 != 0)):
			return "rc_readbiguint_drops_leading_partial_byte"
		}
		return "rc_unclassified/" + typeName + "/" + r.stage
	}
	switch {
	case strings.Contains(r.detail, "unexported field"):
		return "rc_marshal_panics_on_unexported_struct_field"
	case strings.Contains(typeName, "AddressWithWorkchain"):
		return "rc_addresswithworkchain_key_encoding"
	}
	return "rc_unclassified/" + typeName + "/" + r.stage
}

func c03RootTypes() []any {
	return []any{
		// messages.go
		Message{}, CommonMsgInfo{}, StateInit{}, TickTock{}, SimpleLib{}, InMsg{}, ImportFees{}, OutMsg{},
		OutMsgQueueExtra{}, AccountDispatchQueue{}, OutMsgQueueInfo{}, EnqueuedMsg{}, MsgEnvelope{}, MsgMetadata{},
		IntermediateAddress{},
		// account.go
		ShardAccount{}, Account{}, ExistedAccount{}, AccountStorage{}, AccountState{}, StorageExtraInfo{}, StorageInfo{},
		// transactions.go
		Transaction{}, TransactionDescr{}, SplitMergeInfo{}, TrStoragePhase{}, TrCreditPhase{}, TrComputePhase{},
		TrActionPhase{}, StorageUsed{}, TrBouncePhase{},
		// models.go
		CurrencyCollection{}, ExtraCurrencyCollection{}, HashUpdate{}, FullContent{}, ContentData{}, ShardDesc{},
		ShardInfoBinTree{}, AllShardsInfo{},
		// stack.go
		VmStackValue{},
		// primitives.go combinators
		Maybe[Uint5]{}, Maybe[Int257]{}, Maybe[Ref[boc.Cell]]{}, Maybe[Grams]{}, Maybe[MsgAddress]{},
		Either[Uint8, Int16]{}, Either[Grams, Ref[Bits256]]{}, Either[StateInit, Ref[StateInit]]{},
		EitherRef[Uint32]{}, EitherRef[Any]{}, EitherRef[StateInit]{}, EitherRef[MsgAddress]{},
		Ref[Uint64]{}, Ref[Any]{}, Ref[Maybe[Ref[VarUInteger16]]]{}, Ref[Message]{},
		struct {
			Magic Magic `tlb:"magic#abcdef01"`
			A     Uint7
			B     *uint64      `tlb:"maybe"`
			C     *StorageUsed `tlb:"maybe^"`
			D     Int33        `tlb:"^"`
		}{},
		struct {
			Magic Magic `tlb:"magic$101"`
			U     Unary
			E     Either[Unary, Maybe[Int3]]
		}{},
		// hashmaps over small key / value types
		HashmapE[Uint3, Uint8]{}, HashmapE[Uint8, Int8]{}, HashmapE[Uint16, Maybe[Uint4]]{}, HashmapE[Uint32, VarUInteger32]{},
		HashmapE[Uint64, Ref[Uint64]]{}, HashmapE[Uint15, Ref[Message]]{}, HashmapE[Bits256, SimpleLib]{},
		HashmapE[Bits80, Grams]{}, HashmapE[Bits96, ProcessedUpto]{}, HashmapE[Bits512, Uint1]{},
		HashmapE[Uint1, Uint1]{}, HashmapE[Uint63, Bits128]{},
		HashmapE[Int8, Uint8]{}, HashmapE[Int16, Uint8]{}, HashmapE[Int64, Uint8]{},
		HashmapE[AddressWithWorkchain, Uint8]{},
		Hashmap[Uint8, Uint8]{}, Hashmap[Uint16, Ref[Any]]{}, Hashmap[Bits256, Uint32]{},
		struct {
			D HashmapE[Uint8, HashmapE[Uint4, Uint4]]
			N Uint8
		}{},
		HashmapAugE[Bits256, Uint8, Grams]{},
	}
}

func TestVerifStandin_C03_RoundTrip(t *testing.T) {
	rng := vhRng()
	thorough := vhThorough()
	stat := newVhStat("c03_roundtrip")
	fails := newVhFailures("rc_marshal_panics_on_unexported_struct_field", "rc_readbiguint_drops_leading_partial_byte", "rc_grams_ge_2pow63",
		"rc_addresswithworkchain_key_encoding")
	g := newC03Gen(rng)
	marshalErrs := map[string]int{}

	check := func(typeName string, orig any) c03Result {
		r := c03RoundTrip(orig)
		stat.add(typeName + "|" + vhDump(orig))
		if r.marshalErr != "" {
			marshalErrs[typeName]++
		}
		if r.stage == "value_differs" {
			seen := map[string]bool{}
			for i := range r.deltas {
				cause := c03Cause(typeName, r, &r.deltas[i])
				if !seen[cause] {
					seen[cause] = true
					fails.add(cause, "%s: decoded value differs at %s\n      input: %s\n      encoded: %s", typeName, r.deltas[i].String(), vhDump(orig), r.tree)
				}
			}
		} else if r.stage != "" {
			fails.add(c03Cause(typeName, r, nil), "%s: stage %s: %s\n      input: %s\n      encoded: %s", typeName, r.stage, r.detail, vhDump(orig), r.tree)
		}
		return r
	}

	// 1. leaf types: every boundary value
	var leafZeros []any
	leafZeros = append(leafZeros, vhFixedIntZeros...)
	leafZeros = append(leafZeros, vhBigIntZeros...)
	leafZeros = append(leafZeros, vhVarUintZeros...)
	leafZeros = append(leafZeros, vhBitsZeros...)
	leafZeros = append(leafZeros, uint8(0), uint16(0), uint32(0), uint64(0), int8(0), int16(0), int32(0), int64(0), false,
		Grams(0), SignedCoins(0), Unary(0), AccountStatus(""), AccStatusChange(""), ComputeSkipReason(""),
		FixedLengthText(""), Text(""), Bytes{}, SnakeData{}, Any{}, Anycast{}, MsgAddress{}, VmCellSlice{})
	rounds := 1
	if thorough {
		rounds = 8
	}
	for round := 0; round < rounds; round++ {
		g.leafMemo = map[reflect.Type][]reflect.Value{} // fresh random members each round
		for _, z := range leafZeros {
			lt := reflect.TypeOf(z)
			vals := g.leafValues(lt)
			if vals == nil {
				t.Fatalf("no leaf values for %v", lt)
			}
			for _, v := range vals {
				check(lt.Name(), v.Interface())
			}
		}
	}

	// 2. composite types: coverage-driven reflective generation
	maxPerType, patience := 300, 30
	if thorough {
		maxPerType, patience = 2500, 120
	}
	var uncovered []string
	for _, z := range c03RootTypes() {
		rt := reflect.TypeOf(z)
		name := rt.Name()
		if name == "" {
			name = "anon:" + rt.String()
			if len(name) > 60 {
				name = name[:60]
			}
		}
		g.resetCoverage()
		idle := 0
		for n := 0; n < maxPerType && idle < patience; n++ {
			v := reflect.New(rt).Elem()
			g.pending = g.pending[:0]
			g.fill(v, "", 0)
			r := check(name, v.Interface())
			if r.marshalErr == "" && g.commit() > 0 {
				idle = 0
			} else {
				g.pending = g.pending[:0]
				idle++
			}
		}
		// which choices were tried but never part of a successfully encoded value
		for k := range g.tried {
			if g.cov[k] == 0 && (strings.HasPrefix(k, "sum:") || strings.HasPrefix(k, "maybe") || strings.HasPrefix(k, "either")) {
				uncovered = append(uncovered, name+" "+k)
			}
		}
	}
	sort.Strings(uncovered)
	for _, u := range uncovered {
		t.Logf("choice never part of an encodable value (encoder error / not implemented): %s", u)
	}
	var errTypes []string
	for k, n := range marshalErrs {
		errTypes = append(errTypes, fmt.Sprintf("%s=%d", k, n))
	}
	sort.Strings(errTypes)
	t.Logf("Marshal returned an error (allowed) for: %s", strings.Join(errTypes, " "))

	fails.report(t)
	stat.print()
}

// ---- big-int primitives of boc.Cell ----

func TestVerifStandin_C03_BigIntPrimitives(t *testing.T) {
	rng := vhRng()
	stat := newVhStat("c03_bigint_primitives")
	fails := newVhFailures("rc_readbiguint_drops_leading_partial_byte", "rc_writebig_bits_wrong", "rc_bigint_other")
	nrand := 1
	if vhThorough() {
		nrand = 12
	}
	for w := 1; w <= 257; w++ {
		for off := 0; off < 8; off++ {
			prefix := vhRandBits(rng, off)
			for _, signed := range []bool{false, true} {
				for _, v := range c03IntBoundaries(rng, signed, w, nrand) {
					stat.add(fmt.Sprintf("%v/%d/%d/%s", signed, w, off, v))
					var want string
					if signed {
						want = vhIntBits(v, w)
					} else {
						want = vhUintBits(v, w)
					}
					c, _ := vhCellFromBits(prefix)
					var err error
					p := vhSafe(func() {
						if signed {
							err = c.WriteBigInt(new(big.Int).Set(v), w)
						} else {
							err = c.WriteBigUint(new(big.Int).Set(v), w)
						}
					})
					what := fmt.Sprintf("signed=%v width=%d offset=%d value=%s (0x%s)", signed, w, off, v, v.Text(16))
					if p != "" || err != nil {
						fails.add("rc_bigint_other", "%s: write failed on in-range value: %v %v", what, p, err)
						continue
					}
					if got := vhCellBits(c); got != prefix+want {
						fails.add("rc_writebig_bits_wrong", "%s: wrote %s want %s", what, vhBin2Hex(got), vhBin2Hex(prefix+want))
						continue
					}
					// read back from an independently built cell
					rc, _ := vhCellFromBits(prefix + want + "1")
					_ = rc.Skip(off)
					var got *big.Int
					p = vhSafe(func() {
						if signed {
							got, err = rc.ReadBigInt(w)
						} else {
							got, err = rc.ReadBigUint(w)
						}
					})
					if p != "" || err != nil {
						fails.add("rc_bigint_other", "%s: read failed: %v %v", what, p, err)
						continue
					}
					if got.Cmp(v) != 0 {
						cause := "rc_bigint_other"
						ubits := w
						if signed {
							ubits = w - 1
						}
						if ubits%8 != 0 {
							cause = "rc_readbiguint_drops_leading_partial_byte"
						}
						fails.add(cause, "%s: read back %s (0x%s)", what, got, got.Text(16))
						continue
					}
					if rest := rc.BitsAvailableForRead(); rest != 1 {
						fails.add("rc_bigint_other", "%s: read consumed wrong number of bits, %d left, want 1", what, rest)
					}
				}
			}
		}
	}
	fails.report(t)
	stat.print()
}

// ---- VM stack list convention ----

// c03StackEntry: a stack value together with its ideal encoding.
type c03StackEntry struct {
	v    VmStackValue
	bits string
	refs []*boc.Cell
}

func c03StackEntries(rng *rand.Rand) []c03StackEntry {
	var out []c03StackEntry
	out = append(out, c03StackEntry{v: VmStackValue{SumType: "VmStkNull"}, bits: vhU64Bits(0x00, 8)})
	for _, x := range []int64{0, -1, 1<<63 - 1, -1 << 63, rng.Int63()} {
		out = append(out, c03StackEntry{v: VmStackValue{SumType: "VmStkTinyInt", VmStkTinyInt: x}, bits: vhU64Bits(0x01, 8) + vhI64Bits(x, 64)})
	}
	for _, x := range []*big.Int{big.NewInt(0), big.NewInt(-1), new(big.Int).Sub(vhPow2(256), big.NewInt(1)), new(big.Int).Neg(vhPow2(256)), vhRandBig(rng, 200)} {
		out = append(out, c03StackEntry{v: VmStackValue{SumType: "VmStkInt", VmStkInt: Int257(*x)}, bits: vhU64Bits(0x0201>>1, 15) + vhIntBits(x, 257)})
	}
	out = append(out, c03StackEntry{v: VmStackValue{SumType: "VmStkNan"}, bits: vhU64Bits(0x02ff, 16)})
	c1, c2, c3 := vhRandCell(rng, 1), vhRandCell(rng, 2), vhRandCell(rng, 1)
	out = append(out, c03StackEntry{v: VmStackValue{SumType: "VmStkCell", VmStkCell: Ref[boc.Cell]{Value: *c1}}, bits: vhU64Bits(0x03, 8), refs: []*boc.Cell{c1}})
	out = append(out, c03StackEntry{v: VmStackValue{SumType: "VmStkBuilder", VmStkBuilder: Ref[boc.Cell]{Value: *c3}}, bits: vhU64Bits(0x05, 8), refs: []*boc.Cell{c3}})
	nb, nr := c2.BitSize(), c2.RefsSize()
	sb := rng.Intn(nb + 1)
	out = append(out, c03StackEntry{v: VmStackValue{SumType: "VmStkSlice", VmStkSlice: VmCellSlice{cell: c2, stBits: sb, endBits: nb, stRef: 0, endRef: nr}},
		bits: vhU64Bits(0x04, 8) + vhU64Bits(uint64(sb), 10) + vhU64Bits(uint64(nb), 10) + vhU64Bits(0, 3) + vhU64Bits(uint64(nr), 3), refs: []*boc.Cell{c2}})
	return out
}

// c03StackCell builds, from the schema, the cell of a stack whose entries are listed top-first:
// vm_stack#_ depth:(## 24) stack:(VmStackList depth); vm_stk_cons#_ rest:^(VmStackList n) tos:VmStackValue; vm_stk_nil#_.
func c03StackCell(topFirst []c03StackEntry) *boc.Cell {
	var list func(es []c03StackEntry, prefix string) *boc.Cell
	list = func(es []c03StackEntry, prefix string) *boc.Cell {
		if len(es) == 0 {
			c, _ := vhCellFromBits(prefix)
			return c
		}
		rest := list(es[1:], "")
		c, err := vhCellFromBits(prefix+es[0].bits, append([]*boc.Cell{rest}, es[0].refs...)...)
		if err != nil {
			panic(err)
		}
		return c
	}
	return list(topFirst, vhU64Bits(uint64(len(topFirst)), 24))
}

func TestVerifStandin_C03_VmStack(t *testing.T) {
	rng := vhRng()
	stat := newVhStat("c03_vmstack")
	fails := newVhFailures("rc_vmstack_encoding", "rc_vmstack_decode_order", "rc_vmstack_reencode", "rc_vmtuple_decode")
	entries := c03StackEntries(rng)
	var stacks [][]c03StackEntry
	stacks = append(stacks, nil)
	for i := range entries {
		stacks = append(stacks, []c03StackEntry{entries[i]})
	}
	nrand := 60
	if vhThorough() {
		nrand = 3000
	}
	for i := 0; i < nrand; i++ {
		n := 2 + rng.Intn(3)
		var s []c03StackEntry
		for j := 0; j < n; j++ {
			s = append(s, entries[rng.Intn(len(entries))])
		}
		stacks = append(stacks, s)
	}
	for _, s := range stacks {
		var topFirst VmStack
		for _, e := range s {
			topFirst = append(topFirst, e.v)
		}
		stat.add(vhDump(topFirst))
		want := c03StackCell(s)
		// (a) arguments listed top-first encode to the schema cell
		c := boc.NewCell()
		var err error
		if p := vhSafe(func() { err = Marshal(c, topFirst) }); p != "" || err != nil {
			fails.add("rc_vmstack_encoding", "Marshal failed: %v %v; stack(top first) %s", p, err, vhDump(topFirst))
			continue
		}
		if vhTree(c) != vhTree(want) {
			fails.add("rc_vmstack_encoding", "stack(top first) %s: encoded %s, schema says %s", vhDump(topFirst), vhTree(c), vhTree(want))
			continue
		}
		// (b) results are listed bottom-first
		var got VmStack
		want.ResetCounters()
		if p := vhSafe(func() { err = Unmarshal(want, &got) }); p != "" || err != nil {
			fails.add("rc_vmstack_decode_order", "Unmarshal failed: %v %v; cell %s", p, err, vhTree(want))
			continue
		}
		var bottomFirst VmStack
		for i := len(topFirst) - 1; i >= 0; i-- {
			bottomFirst = append(bottomFirst, topFirst[i])
		}
		if d := vhDiff(bottomFirst, got); d != "" {
			fails.add("rc_vmstack_decode_order", "cell %s: decoded %s, want (bottom first) %s: %s", vhTree(want), vhDump(got), vhDump(bottomFirst), d)
			continue
		}
		// (c) decoded results turned back into top-first order encode to the same hash
		var again VmStack
		for i := len(got) - 1; i >= 0; i-- {
			again = append(again, got[i])
		}
		c2 := boc.NewCell()
		if p := vhSafe(func() { err = Marshal(c2, again) }); p != "" || err != nil {
			fails.add("rc_vmstack_reencode", "re-Marshal failed: %v %v; %s", p, err, vhDump(again))
			continue
		}
		if vhHash(c2) != vhHash(want) {
			fails.add("rc_vmstack_reencode", "second encoding differs: %s vs %s", vhTree(c2), vhTree(want))
		}
	}

	// decode side of vm_stk_tuple (its encoder is declared not implemented): tuples of 0..4 tiny ints inside a stack
	for n := 0; n <= 4; n++ {
		var vals []int64
		var valCells []*boc.Cell
		for i := 0; i < n; i++ {
			x := rng.Int63() - rng.Int63()
			vals = append(vals, x)
			vc, _ := vhCellFromBits(vhU64Bits(1, 8) + vhI64Bits(x, 64))
			valCells = append(valCells, vc)
		}
		// vm_tuple_tcons head:(VmTupleRef n) tail:^VmStackValue = VmTuple (n+1); vm_tupref_single entry:^; vm_tupref_any ref:^(VmTuple (n+2))
		var tupleRefs func(k int) []*boc.Cell // refs contributed by VmTuple k over vals[:k]
		tupleRefs = func(k int) []*boc.Cell {
			switch k {
			case 0:
				return nil
			case 1:
				return []*boc.Cell{valCells[0]}
			case 2:
				return []*boc.Cell{valCells[0], valCells[1]}
			}
			inner, _ := vhCellFromBits("", tupleRefs(k-1)...)
			return []*boc.Cell{inner, valCells[k-1]}
		}
		cell, _ := vhCellFromBits(vhU64Bits(7, 8)+vhU64Bits(uint64(n), 16), tupleRefs(n)...)
		stat.add(fmt.Sprintf("tuple %v", vals))
		var v VmStackValue
		var err error
		if p := vhSafe(func() { err = Unmarshal(cell, &v) }); p != "" || err != nil {
			fails.add("rc_vmtuple_decode", "tuple of %d: Unmarshal failed: %v %v; cell %s", n, p, err, vhTree(cell))
			continue
		}
		if v.SumType != "VmStkTuple" || int(v.VmStkTuple.Len) != n {
			fails.add("rc_vmtuple_decode", "tuple of %d: decoded %s", n, vhDump(v))
			continue
		}
		var flat func(tp *VmTuple, k int) []VmStackValue
		flat = func(tp *VmTuple, k int) []VmStackValue {
			if k == 0 || tp == nil {
				return nil
			}
			var head []VmStackValue
			switch {
			case k-1 == 1 && tp.Head.Entry != nil:
				head = []VmStackValue{*tp.Head.Entry}
			case k-1 > 1:
				head = flat(tp.Head.Ref, k-1)
			}
			return append(head, tp.Tail)
		}
		got := flat(v.VmStkTuple.Data, n)
		ok := len(got) == n
		for i := 0; ok && i < n; i++ {
			ok = got[i].SumType == "VmStkTinyInt" && got[i].VmStkTinyInt == vals[i]
		}
		if !ok {
			fails.add("rc_vmtuple_decode", "tuple %v decoded as %s", vals, vhDump(v))
		}
	}
	fails.report(t)
	stat.print()
}
